import FqModel.ToBits
/-!
  C05 helper lemmas (core Lean only): bits <-> bytes, `packR`.
-/
namespace Proofs.C05
open FqModel FqModel.ToBits

theorem foldl_bits_acc (bs : Bits) (acc : Nat) :
    bs.foldl (fun acc b => 2 * acc + (if b then 1 else 0)) acc
      = acc * 2 ^ bs.length + bs.foldl (fun acc b => 2 * acc + (if b then 1 else 0)) 0 := by
  induction bs generalizing acc with
  | nil => simp
  | cons b bs ih =>
    simp only [List.foldl_cons, List.length_cons]
    rw [ih (2 * acc + _), ih (2 * 0 + _), Nat.pow_succ]
    simp only [Nat.mul_zero, Nat.zero_add, Nat.add_mul]
    rw [Nat.add_assoc]
    congr 1
    rw [Nat.mul_comm 2 acc, Nat.mul_assoc, Nat.mul_comm 2]

theorem ofBitsBE_cons (b : Bool) (bs : Bits) :
    ofBitsBE (b :: bs) = (if b then 1 else 0) * 2 ^ bs.length + ofBitsBE bs := by
  simp only [ofBitsBE, List.foldl_cons]
  rw [foldl_bits_acc]
  simp

theorem ofBitsBE_toBitsBE (w n : Nat) : ofBitsBE (toBitsBE w n) = n % 2 ^ w := by
  induction w with
  | zero => simp [toBitsBE, ofBitsBE, Nat.mod_one]
  | succ w ih =>
    rw [toBitsBE, ofBitsBE_cons, ih, toBitsBE_length]
    have h2 : n % 2 ^ (w + 1) = 2 ^ w * (n / 2 ^ w % 2) + n % 2 ^ w := by
      rw [Nat.pow_succ, Nat.mod_mul]; omega
    rw [h2]
    have : n / 2 ^ w % 2 = 0 ∨ n / 2 ^ w % 2 = 1 := by omega
    rcases this with h | h <;> simp [h]

theorem toBitsBE_ofBitsBE (bs : Bits) : toBitsBE bs.length (ofBitsBE bs) = bs := by
  induction bs with
  | nil => rfl
  | cons b bs ih =>
    have hlt := ofBitsBE_lt bs
    simp only [List.length_cons, toBitsBE, ofBitsBE_cons]
    congr 1
    · cases b
      · simp [Nat.div_eq_of_lt hlt]
      · simp only [if_true, Nat.one_mul]
        rw [Nat.add_div_left _ (Nat.two_pow_pos _), Nat.div_eq_of_lt hlt]
        simp
    · have : toBitsBE bs.length ((if b then 1 else 0) * 2 ^ bs.length + ofBitsBE bs) = toBitsBE bs.length (ofBitsBE bs) := by
        clear ih hlt
        generalize ofBitsBE bs = m
        generalize hk : (if b then 1 else 0) = k
        clear hk
        -- adding a multiple of 2^len does not change the low `len` bits
        have aux : ∀ (w j m : Nat), toBitsBE w (j * 2 ^ w + m) = toBitsBE w m := by
          intro w
          induction w with
          | zero => intros; rfl
          | succ w ih =>
            intro j m
            simp only [toBitsBE]
            congr 1
            · have : j * 2 ^ (w + 1) + m = 2 ^ w * (2 * j) + m := by rw [Nat.pow_succ]; ac_rfl
              rw [this, Nat.mul_add_div (Nat.two_pow_pos _)]
              congr 1; omega
            · have : j * 2 ^ (w + 1) + m = (2 * j) * 2 ^ w + m := by rw [Nat.pow_succ]; ac_rfl
              rw [this, ih]
        exact aux _ _ _
      rw [this, ih]

/-! ### one byte -/

theorem ofBitsBE_append_zeros (c : Bits) (k : Nat) :
    ofBitsBE (c ++ List.replicate k false) = ofBitsBE c * 2 ^ k := by
  induction k with
  | zero => simp
  | succ k ih =>
    rw [List.replicate_succ', ← List.append_assoc, ofBitsBE_append_bit, ih, Nat.pow_succ]
    simp only [Bool.false_eq_true, if_false, Nat.add_zero]
    rw [Nat.mul_comm 2, Nat.mul_assoc]

theorem byteToBits_byteOfBits (c : Bits) (h : c.length ≤ 8) :
    byteToBits (byteOfBits c) = c ++ List.replicate (8 - c.length) false := by
  have hl : (c ++ List.replicate (8 - c.length) false).length = 8 := by simp; omega
  have hlt := ofBitsBE_lt (c ++ List.replicate (8 - c.length) false)
  rw [hl] at hlt
  unfold byteToBits byteOfBits
  have : (UInt8.ofNat (ofBitsBE (c ++ List.replicate (8 - c.length) false))).toNat
      = ofBitsBE (c ++ List.replicate (8 - c.length) false) := by
    rw [UInt8.toNat_ofNat']
    exact Nat.mod_eq_of_lt (by simpa using hlt)
  rw [this]
  have := toBitsBE_ofBitsBE (c ++ List.replicate (8 - c.length) false)
  rwa [hl] at this

theorem byteOfBits_byteToBits (b : UInt8) : byteOfBits (byteToBits b) = b := by
  unfold byteOfBits byteToBits
  rw [toBitsBE_length]
  simp only [Nat.sub_self, List.replicate_zero, List.append_nil]
  rw [ofBitsBE_toBitsBE]
  have : b.toNat % 2 ^ 8 = b.toNat := Nat.mod_eq_of_lt (by have := b.toNat_lt; simpa using this)
  rw [this]
  simp

/-! ### packR -/

theorem packAux_eq (f : Nat) (bs : Bits) (h : bs.length ≤ f) :
    packAux f bs = if bs = [] then [] else byteOfBits (bs.take 8) :: packAux (f - 1) (bs.drop 8) := by
  cases f with
  | zero =>
    have : bs = [] := List.length_eq_zero_iff.mp (by omega)
    simp [this, packAux]
  | succ f =>
    simp only [packAux, Nat.add_sub_cancel]
    cases bs <;> simp

/-- the fuel is irrelevant once it covers the length -/
theorem packAux_fuel (f g : Nat) (bs : Bits) (hf : bs.length ≤ f) (hg : bs.length ≤ g) :
    packAux f bs = packAux g bs := by
  induction f generalizing g bs with
  | zero =>
    have : bs = [] := List.length_eq_zero_iff.mp (by omega)
    subst this
    cases g <;> simp [packAux]
  | succ f ih =>
    cases g with
    | zero =>
      have : bs = [] := List.length_eq_zero_iff.mp (by omega)
      subst this; simp [packAux]
    | succ g =>
      simp only [packAux]
      split
      · rfl
      · congr 1
        apply ih <;> simp <;> omega

theorem packR_nil : packR [] = [] := rfl

theorem packR_step (bs : Bits) (h : bs ≠ []) :
    packR bs = byteOfBits (bs.take 8) :: packR (bs.drop 8) := by
  unfold packR
  cases hb : bs with
  | nil => exact absurd hb h
  | cons b rest =>
    simp only [List.length_cons, packAux]
    simp only [List.isEmpty_cons, Bool.false_eq_true, if_false]
    congr 1
    apply packAux_fuel <;> simp <;> omega

theorem packR_append_byte (c rest : Bits) (h : c.length = 8) :
    packR (c ++ rest) = byteOfBits c :: packR rest := by
  have hne : c ++ rest ≠ [] := by
    intro h0
    have h1 : (c ++ rest).length = 0 := by rw [h0]; rfl
    rw [List.length_append] at h1; omega
  rw [packR_step _ hne]
  rw [List.take_left' h, List.drop_left' h]

theorem packR_bytesToBits (bytes : List UInt8) : packR (bytesToBits bytes) = bytes := by
  induction bytes with
  | nil => rfl
  | cons b bs ih =>
    have : bytesToBits (b :: bs) = byteToBits b ++ bytesToBits bs := by simp [bytesToBits]
    rw [this, packR_append_byte _ _ (byteToBits_length b), byteOfBits_byteToBits, ih]

/-- the right zero padding that `IOReader` adds -/
def padRLen (n : Nat) : Nat := (8 - n % 8) % 8

theorem bytesToBits_packR (bs : Bits) :
    bytesToBits (packR bs) = bs ++ List.replicate (padRLen bs.length) false := by
  generalize hn : bs.length = n
  induction n using Nat.strongRecOn generalizing bs with
  | _ n ih =>
    by_cases h0 : bs = []
    · subst h0; subst hn; simp [packR_nil, bytesToBits, padRLen]
    · rw [packR_step _ h0]
      have hcons : ∀ (b : UInt8) (l : List UInt8), bytesToBits (b :: l) = byteToBits b ++ bytesToBits l := by
        intros; simp [bytesToBits]
      rw [hcons, byteToBits_byteOfBits _ (by simp; omega)]
      by_cases h8 : 8 ≤ n
      · have hd : (bs.drop 8).length = n - 8 := by simp [hn]
        have hpos : 0 < n := by omega
        rw [ih (n - 8) (by omega) (bs.drop 8) hd]
        have ht : (bs.take 8).length = 8 := by simp [hn]; omega
        rw [ht]
        simp only [Nat.sub_self, List.replicate_zero, List.append_nil]
        rw [← List.append_assoc, List.take_append_drop]
        congr 2
        unfold padRLen
        omega
      · have hd : bs.drop 8 = [] := by
          apply List.drop_eq_nil_of_le; omega
        have ht : bs.take 8 = bs := by
          apply List.take_of_length_le; omega
        rw [hd, ht, packR_nil]
        simp only [bytesToBits, List.flatMap_nil, List.append_nil]
        congr 2
        unfold padRLen
        have : 0 < n := by
          rcases Nat.eq_zero_or_pos n with h | h
          · exfalso; apply h0; apply List.length_eq_zero_iff.mp; omega
          · exact h
        omega

theorem padRLen_lt (n : Nat) : padRLen n < 8 := by unfold padRLen; omega

theorem packR_length (bs : Bits) : (packR bs).length = (bs.length + 7) / 8 := by
  have h := congrArg List.length (bytesToBits_packR bs)
  rw [bytesToBits_length] at h
  simp only [List.length_append, List.length_replicate] at h
  unfold padRLen at h
  omega

theorem packR_take (bs : Bits) (n : Nat) : packR (bs.take (8 * n)) = (packR bs).take n := by
  induction n generalizing bs with
  | zero => simp [packR_nil]
  | succ n ih =>
    by_cases h0 : bs = []
    · subst h0; simp [packR_nil]
    · have hne : bs.take (8 * (n + 1)) ≠ [] := by
        cases bs with
        | nil => exact absurd rfl h0
        | cons b rest =>
          have : 8 * (n + 1) = (8 * n + 7) + 1 := by omega
          rw [this, List.take_succ_cons]; simp
      rw [packR_step _ hne, packR_step _ h0, List.take_succ_cons, ← ih]
      congr 1
      · rw [List.take_take]; congr 1
      · rw [List.drop_take]; congr 2

/-- an aligned bit string is packed without padding -/
theorem bytesToBits_packR_aligned (bs : Bits) (h : bs.length % 8 = 0) :
    bytesToBits (packR bs) = bs := by
  rw [bytesToBits_packR]
  unfold padRLen
  rw [h]; simp

end Proofs.C05

namespace Proofs.C05
open FqModel FqModel.ToBits

/-- `packR` is the shared foundation's `bitsToBytesPadR` (which is defined by well-founded
    recursion and therefore not evaluable by the kernel) -/
theorem packR_eq_bitsToBytesPadR (bs : Bits) : packR bs = bitsToBytesPadR bs := by
  generalize hn : bs.length = n
  induction n using Nat.strongRecOn generalizing bs with
  | _ n ih =>
    by_cases h0 : bs = []
    · subst h0; rw [packR_nil, bitsToBytesPadR]; simp
    · have hl : bs.length ≠ 0 := by
        intro h; exact h0 (List.length_eq_zero_iff.mp h)
      rw [packR_step _ h0, bitsToBytesPadR]
      simp only [hl, dite_false]
      congr 1
      exact ih (bs.drop 8).length (by simp; omega) _ rfl

end Proofs.C05
