import FqModel.ToBits
/-!
  C05 helper lemmas (core Lean only): the textual codecs decode back to the bytes.
-/
namespace Proofs.C05
open FqModel FqModel.ToBits

/-! ### hex -/

theorem hexVal_hexDigit : ∀ n, n < 16 → hexVal (hexDigit n) = some n := by decide

theorem uint8_split16 (b : UInt8) : UInt8.ofNat (16 * (b.toNat / 16) + b.toNat % 16) = b := by
  have : 16 * (b.toNat / 16) + b.toNat % 16 = b.toNat := by omega
  rw [this]; simp

theorem bytesOfHexChars_hexChars (bs : List UInt8) : bytesOfHexChars (hexChars bs) = some bs := by
  induction bs with
  | nil => rfl
  | cons b bs ih =>
    have hb := b.toNat_lt
    have h1 : hexVal (hexDigit (b.toNat / 16)) = some (b.toNat / 16) := hexVal_hexDigit _ (by omega)
    have h2 : hexVal (hexDigit (b.toNat % 16)) = some (b.toNat % 16) := hexVal_hexDigit _ (by omega)
    have hc : hexChars (b :: bs) = hexDigit (b.toNat / 16) :: hexDigit (b.toNat % 16) :: hexChars bs := by
      simp [hexChars]
    rw [hc, bytesOfHexChars, h1, h2]
    simp only [Option.bind_eq_bind, Option.bind_some, Option.pure_def]
    rw [ih]
    simp only [Option.bind_some]
    rw [uint8_split16]

theorem hexChars_length (bs : List UInt8) : (hexChars bs).length = 2 * bs.length := by
  induction bs with
  | nil => rfl
  | cons b bs ih => simp [hexChars] at *; omega

/-! ### base64 -/

theorem b64val_b64char : ∀ n, n < 64 → b64val (b64char n) = some n := by decide

theorem b64char_ne_pad : ∀ n, n < 64 → b64char n ≠ '=' := by decide

theorem b64decode_b64encode (bs : List UInt8) : b64decode (b64encode bs) = some bs := by
  fun_induction b64encode bs with
  | case1 a b c rest ih =>
    have ha := a.toNat_lt; have hb := b.toNat_lt; have hc := c.toNat_lt
    have v0 := b64val_b64char (a.toNat / 4) (by omega)
    have v1 := b64val_b64char (a.toNat % 4 * 16 + b.toNat / 16) (by omega)
    have v2 := b64val_b64char (b.toNat % 16 * 4 + c.toNat / 64) (by omega)
    have v3 := b64val_b64char (c.toNat % 64) (by omega)
    have n3 := b64char_ne_pad (c.toNat % 64) (by omega)
    rw [b64decode]
    simp only [n3, if_false, v0, v1, v2, v3, ih, Option.bind_eq_bind, Option.bind_some, Option.pure_def]
    have e0 : a.toNat / 4 * 4 + (a.toNat % 4 * 16 + b.toNat / 16) / 16 = a.toNat := by omega
    have e1 : (a.toNat % 4 * 16 + b.toNat / 16) % 16 * 16 + (b.toNat % 16 * 4 + c.toNat / 64) / 4 = b.toNat := by omega
    have e2 : (b.toNat % 16 * 4 + c.toNat / 64) % 4 * 64 + c.toNat % 64 = c.toNat := by omega
    rw [e0, e1, e2]
    simp
  | case2 a b =>
    have ha := a.toNat_lt; have hb := b.toNat_lt
    have v0 := b64val_b64char (a.toNat / 4) (by omega)
    have v1 := b64val_b64char (a.toNat % 4 * 16 + b.toNat / 16) (by omega)
    have v2 := b64val_b64char (b.toNat % 16 * 4) (by omega)
    have n2 := b64char_ne_pad (b.toNat % 16 * 4) (by omega)
    rw [b64decode]
    have hz : b.toNat % 16 * 4 % 4 = 0 := by omega
    simp only [if_true, ne_eq, not_true_eq_false, if_false, n2, v0, v1, v2, hz,
      Option.bind_eq_bind, Option.bind_some, Option.pure_def]
    have e0 : a.toNat / 4 * 4 + (a.toNat % 4 * 16 + b.toNat / 16) / 16 = a.toNat := by omega
    have e1 : (a.toNat % 4 * 16 + b.toNat / 16) % 16 * 16 + b.toNat % 16 * 4 / 4 = b.toNat := by omega
    rw [e0, e1]
    simp
  | case3 a =>
    have ha := a.toNat_lt
    have v0 := b64val_b64char (a.toNat / 4) (by omega)
    have v1 := b64val_b64char (a.toNat % 4 * 16) (by omega)
    rw [b64decode]
    have hz : a.toNat % 4 * 16 % 16 = 0 := by omega
    simp only [if_true, ne_eq, not_true_eq_false, if_false, v0, v1, hz,
      Option.bind_eq_bind, Option.bind_some, Option.pure_def]
    have e0 : a.toNat / 4 * 4 + a.toNat % 4 * 16 / 16 = a.toNat := by omega
    rw [e0]
    simp
  | case4 => rfl

end Proofs.C05
