import FqModel.ToBits
import Proofs.C05Bits
/-!
  C05 helper lemmas: closed form of the transliterated `_toBits` pipeline.
-/
namespace Proofs.C05
open FqModel FqModel.ToBits

/-- the start `ToBinary` uses: a root value starts at bit 0 of its own buffer (value.go:177) -/
def specStart (v : DV) : Nat := if v.isRoot then 0 else v.start

/-- binary.go:166-172 in closed form -/
def padOf (unit p len : Nat) : Nat :=
  let m := if unit * p = 0 then unit else unit * p
  (m - len % m) % m

theorem slice_all {α} (l : List α) : slice l 0 l.length = l := by simp [slice]

theorem innerRange_eq (v : DV) : innerRange v = (specStart v, v.len) := by
  unfold innerRange specStart; split <;> rfl

theorem toReader_eq (b : Binary) :
    b.toReader = (range b.br b.start b.len).bind fun s => .ok (List.replicate b.pad false ++ s) := by
  unfold Binary.toReader
  congr 1
  funext s
  split
  · next h => simp [h]
  · rfl

theorem padFor_eq (unit p len : Nat) (hu : 0 < unit) : padFor unit p len = .ok (padOf unit p len) := by
  unfold padFor padOf
  have hm : (if unit * p = 0 then unit else unit * p) ≠ 0 := by
    split
    · omega
    · next h => exact h
  simp [hm]

theorem content_newBinary (br : Bits) (unit : Nat) : (newBinaryFromBits br unit).content = .ok br := by
  unfold Binary.content newBinaryFromBits range
  simp [slice_all]

/-- closed form of `tobits($p)` / `tobytes($p)` on a decode value -/
theorem toBitsPad_char (unit p : Nat) (v : DV) (hu : 0 < unit) :
    toBitsPad unit p v =
      if v.synthetic then .err "synthetic"
      else if specStart v + v.len > v.root.length then .err "outside"
      else .ok (List.replicate (padOf unit p v.len) false ++ valueBits v.root (specStart v) v.len) := by
  unfold toBitsPad toBitsOp toBinary
  rw [innerRange_eq]
  by_cases hs : v.synthetic = true
  · simp [hs, Res.bind]
  · simp only [hs, Bool.false_eq_true, if_false, Res.bind]
    unfold toBitsBinary
    rw [padFor_eq _ _ _ hu]
    simp only [Res.bind, Bool.false_eq_true, if_false]
    rw [toReader_eq]
    unfold range
    by_cases hr : specStart v + v.len > v.root.length
    · simp [hr, Res.bind]
    · simp only [hr, if_false, Res.bind, content_newBinary, valueBits]

/-- closed form of the raw stdout of `… | tobytes` -/
theorem rawStdout_char (v : DV) :
    rawStdoutToBytes v =
      if v.synthetic then .err "synthetic"
      else if specStart v + v.len > v.root.length then .err "outside"
      else .ok (packR (List.replicate (padOf 8 0 v.len) false ++ valueBits v.root (specStart v) v.len)) := by
  unfold rawStdoutToBytes toBitsOp toBinary
  rw [innerRange_eq]
  by_cases hs : v.synthetic = true
  · simp [hs, Res.bind]
  · simp only [hs, Bool.false_eq_true, if_false, Res.bind]
    unfold toBitsBinary
    rw [padFor_eq _ _ _ (by omega)]
    simp only [Res.bind, Bool.false_eq_true, if_false]
    rw [toReader_eq]
    unfold range
    by_cases hr : specStart v + v.len > v.root.length
    · simp [hr, Res.bind]
    · simp only [hr, if_false, Res.bind]
      unfold Binary.rawOutput newBinaryFromBits
      rw [toReader_eq]
      simp only [range, Res.bind, Res.map, copyBits, valueBits, Nat.zero_add, Nat.lt_irrefl, gt_iff_lt, if_false]
      rw [slice_all]
      simp

theorem rawStdoutRange_char (v : DV) :
    rawStdoutRange v =
      if v.synthetic then .err "synthetic"
      else if specStart v + v.len > v.root.length then .err "outside"
      else .ok (packR (List.replicate (padOf 8 0 v.len) false ++ valueBits v.root (specStart v) v.len)) := by
  unfold rawStdoutRange toBitsOp toBinary
  rw [innerRange_eq]
  by_cases hs : v.synthetic = true
  · simp [hs, Res.bind]
  · simp only [hs, Bool.false_eq_true, if_false, Res.bind]
    unfold toBitsBinary
    rw [padFor_eq _ _ _ (by omega)]
    simp only [Res.bind, if_true]
    unfold Binary.rawOutput
    rw [toReader_eq]
    unfold range
    by_cases hr : specStart v + v.len > v.root.length
    · simp [hr, Res.bind, Res.map]
    · simp [hr, Res.bind, Res.map, copyBits, valueBits]

/-- closed form of `tovalue({bits_format: F})` on a raw-bits value: NO padding in front -/
theorem toValueRaw_char (fmt : String) (sb : Nat) (v : DV) :
    toValueRaw fmt sb v =
      if v.synthetic then .err "synthetic"
      else if specStart v + v.len > v.root.length then .err "outside"
      else render fmt sb (valueBits v.root (specStart v) v.len) := by
  unfold toValueRaw toBinary
  rw [innerRange_eq]
  by_cases hs : v.synthetic = true
  · simp [hs, Res.bind]
  · simp only [hs, Bool.false_eq_true, if_false, Res.bind]
    rw [toReader_eq]
    unfold range
    by_cases hr : specStart v + v.len > v.root.length
    · simp [hr, Res.bind]
    · simp [hr, Res.bind, valueBits]

/-- closed form of `tobytesrange | tovalue({bits_format: F})` (unit 8) / `tobitsrange | …` (unit 1) -/
theorem toValueRange_char (unit : Nat) (fmt : String) (sb : Nat) (v : DV) (hu : 0 < unit) :
    toValueRange unit fmt sb v =
      if v.synthetic then .err "synthetic"
      else if specStart v + v.len > v.root.length then .err "outside"
      else render fmt sb (List.replicate (padOf unit 0 v.len) false ++ valueBits v.root (specStart v) v.len) := by
  unfold toValueRange toBitsOp toBinary
  rw [innerRange_eq]
  by_cases hs : v.synthetic = true
  · simp [hs, Res.bind]
  · simp only [hs, Bool.false_eq_true, if_false, Res.bind]
    unfold toBitsBinary
    rw [padFor_eq _ _ _ hu]
    simp only [Res.bind, if_true]
    rw [toReader_eq]
    unfold range
    by_cases hr : specStart v + v.len > v.root.length
    · simp [hr, Res.bind]
    · simp [hr, Res.bind, valueBits]

theorem padOf_lt (unit p len : Nat) (hu : 0 < unit) :
    padOf unit p len < (if unit * p = 0 then unit else unit * p) := by
  unfold padOf
  apply Nat.mod_lt
  split <;> first | omega | (next h => exact Nat.pos_of_ne_zero h)

theorem padOf_aligned (unit p len : Nat) (hu : 0 < unit) :
    (padOf unit p len + len) % (if unit * p = 0 then unit else unit * p) = 0 := by
  unfold padOf
  generalize hm : (if unit * p = 0 then unit else unit * p) = m
  have hpos : 0 < m := by
    rw [← hm]; split <;> first | omega | (next h => exact Nat.pos_of_ne_zero h)
  have h1 : len % m < m := Nat.mod_lt _ hpos
  by_cases h0 : len % m = 0
  · simp [h0]
  · have : (m - len % m) % m = m - len % m := Nat.mod_eq_of_lt (by omega)
    rw [this, Nat.add_mod, Nat.mod_eq_of_lt (show m - len % m < m by omega)]
    have : m - len % m + len % m = m := by omega
    rw [this]; simp

theorem padOf_8_0 (len : Nat) : padOf 8 0 len = (8 - len % 8) % 8 := by simp [padOf]
theorem padOf_1_0 (len : Nat) : padOf 1 0 len = 0 := by simp [padOf, Nat.mod_one]

theorem valueBits_length (root : Bits) (s l : Nat) (h : s + l ≤ root.length) :
    (valueBits root s l).length = l := slice_length root s l h

/-- running the model on a byte-aligned window of the buffer with the range shifted
    (what Drv/C05.lean does) is the same as running it on the whole buffer -/
theorem slice_window {α} (pre w post : List α) (start len : Nat)
    (h1 : pre.length ≤ start) (h2 : start + len ≤ pre.length + w.length) :
    slice (pre ++ w ++ post) start len = slice w (start - pre.length) len := by
  unfold slice
  rw [List.append_assoc, List.drop_append, List.drop_eq_nil_of_le h1, List.nil_append]
  rw [List.drop_append_of_le_length (by omega), List.take_append_of_le_length (by simp; omega)]

end Proofs.C05
