import FqModel.Recover
/-! helper lemmas for Props/C06.lean -/
namespace Proofs.C06
open FqModel.Recover

theorem recoverRun_repanic {α : Type} (f : Outcome α) (v : PanicV) :
    recoverRun f = .repanic v ↔ f = .panic v ∧ v.recoverable = false := by
  cases f with
  | ok a => simp [recoverRun]
  | panic w =>
    cases h : w.recoverable with
    | true =>
      simp [recoverRun, h]
      intro hw; subst hw; simp [h]
    | false =>
      simp [recoverRun, h]
      intro hw; subst hw; exact h

theorem recoverRun_recovered {α : Type} (f : Outcome α) (v : PanicV) :
    recoverRun f = .recovered v ↔ f = .panic v ∧ v.recoverable = true := by
  cases f with
  | ok a => simp [recoverRun]
  | panic w =>
    cases h : w.recoverable with
    | true =>
      simp [recoverRun, h]
      intro hw; subst hw; exact h
    | false =>
      simp [recoverRun, h]
      intro hw; subst hw; simp [h]

theorem recoverRun_done {α : Type} (f : Outcome α) (a : α) :
    recoverRun f = .done a ↔ f = .ok a := by
  cases f with
  | ok b => simp [recoverRun]
  | panic w => by_cases h : w.recoverable = true <;> simp [recoverRun, h]

/-- a panic leaves the loop only as the re-panic of a non-recoverable value raised by one of the formats -/
theorem decodeLoop_panic (single : Bool) (x : Input) (fs : List Decoder) (i : Nat) (errs : List (Nat × PanicV))
    (v : PanicV) (h : decodeLoop single x fs i errs = .panic v) :
    ∃ f ∈ fs, f x = .panic v ∧ v.recoverable = false := by
  induction fs generalizing i errs with
  | nil => simp [decodeLoop] at h
  | cons f rest ih =>
    unfold decodeLoop at h
    cases hr : recoverRun (f x) with
    | repanic w =>
      rw [hr] at h
      simp at h
      subst h
      exact ⟨f, by simp, (recoverRun_repanic _ _).1 hr⟩
    | done a => rw [hr] at h; simp at h
    | recovered w =>
      rw [hr] at h
      cases single with
      | true => simp at h
      | false =>
        simp at h
        obtain ⟨g, hg, hp⟩ := ih _ _ h
        exact ⟨g, by simp [hg], hp⟩

/-- shape invariant of the loop: with `errs.length = i` on entry, a tree has index = number of collected
    errors; a partial tree is the head's; a failure of everything lists exactly one error per format -/
theorem decodeLoop_shape (single : Bool) (x : Input) (fs : List Decoder) (i : Nat) (errs : List (Nat × PanicV))
    (hlen : errs.length = i) :
    match decodeLoop single x fs i errs with
    | .tree j es => j = es.length ∧ i ≤ j ∧ j < i + fs.length
    | .treeWithErr j _ => single = true ∧ j = i ∧ 0 < fs.length
    | .formatsErr es => es.length = i + fs.length
    | .panic _ => True := by
  induction fs generalizing i errs with
  | nil => simp [decodeLoop, hlen]
  | cons f rest ih =>
    unfold decodeLoop
    cases hr : recoverRun (f x) with
    | repanic w => simp
    | done a => simp [hlen]
    | recovered w =>
      cases single with
      | true => simp
      | false =>
        have h1 := ih (i + 1) (errs ++ [(i, w)]) (by simp [hlen])
        simp only [Bool.false_eq_true, if_false]
        cases hd : decodeLoop false x rest (i + 1) (errs ++ [(i, w)]) with
        | tree j es =>
          rw [hd] at h1
          simp only [List.length_cons] at h1 ⊢
          omega
        | treeWithErr j e =>
          rw [hd] at h1
          simp at h1
        | formatsErr es =>
          rw [hd] at h1
          simp only [List.length_cons] at h1 ⊢
          omega
        | panic v => trivial

/-! ### the decode core: which `Try…` functions can fault -/

theorem must_onlyRec {α : Type} (t : Try α) (h : ∀ w, t ≠ .fault w) : OnlyRec (must t) := by
  intro v hv
  cases t with
  | ok a => simp [must] at hv
  | err => simp [must] at hv; subst hv; rfl
  | fault w => exact absurd rfl (h w)

theorem trySeekAbs_nofault (s : St) (p : Int) (w : String) : trySeekAbs s p ≠ .fault w := by
  unfold trySeekAbs; repeat' split
  all_goals simp

theorem bitioxRange_nofault (s : St) (f n : Int) (w : String) : bitioxRange s f n ≠ .fault w := by
  unfold bitioxRange; repeat' split
  all_goals simp

theorem tryBitBufLen_nofault (s : St) (n : Int) (w : String) : tryBitBufLen s n ≠ .fault w := by
  unfold tryBitBufLen
  split
  · simp
  · rename_i w' h; exact absurd h (bitioxRange_nofault _ _ _ _)
  · exact trySeekAbs_nofault _ _ _

theorem bitsByteCount_le (n : Int) (h0 : 0 ≤ n) (h : n ≤ 64) : bitsByteCount n ≤ 8 := by
  unfold bitsByteCount; split <;> omega

theorem bitsByteCount_nonneg (n : Int) (h0 : 0 ≤ n) : 0 ≤ bitsByteCount n := by
  unfold bitsByteCount; split <;> omega

theorem bitsByteCount_bound (x : Int) (h0 : 0 ≤ x) : 0 ≤ bitsByteCount x ∧ bitsByteCount x ≤ x / 8 + 1 := by
  unfold bitsByteCount; split <;> omega

theorem makesliceFault_true (x : Int) : makesliceFault x = true ↔ (x < 0 ∨ x > 281474976710656) := by
  simp [makesliceFault, maxAlloc]

theorem makesliceFault_false (x : Int) : makesliceFault x = false ↔ (0 ≤ x ∧ x ≤ 281474976710656) := by
  simp [makesliceFault, maxAlloc]

/-- TryBits never faults: its buffer is clamped to what the (sane) input buffer still holds -/
theorem tryBits_nofault (s : St) (n : Int) (w : String) (hp : 0 ≤ s.pos) (hl : s.len ≤ maxAlloc) :
    tryBits s n ≠ .fault w := by
  unfold tryBits
  split
  · simp
  · have hb := bitsByteCount_bound (max s.left 0) (by omega)
    have hm : makesliceFault (min (bitsByteCount n) (bitsByteCount (max s.left 0) + 8)) = true →
        min (bitsByteCount n) (bitsByteCount (max s.left 0) + 8) ≤ 0 := by
      rw [makesliceFault_true]
      simp only [maxAlloc, St.left] at *
      omega
    simp only []
    split
    · rename_i h; have := hm h.2; omega
    · split <;> simp

theorem tryUintBits_nofault (s : St) (n : Int) (w : String) (hp : 0 ≤ s.pos) (hl : s.len ≤ maxAlloc) :
    tryUintBits s n ≠ .fault w := by
  unfold tryUintBits
  split
  · simp
  · exact tryBits_nofault _ _ _ hp hl

theorem tryU_nofault (s : St) (n : Int) (w : String) (hp : 0 ≤ s.pos) (hl : s.len ≤ maxAlloc) :
    tryU s n ≠ .fault w := by
  unfold tryU; split
  · simp
  · exact tryUintBits_nofault _ _ _ hp hl

/-- TryBytesLen never faults: negative / overflowing requests are errors, the allocation is clamped -/
theorem tryBytesLen_nofault (s : St) (n : Int) (w : String) (hp : 0 ≤ s.pos) (hl : s.len ≤ maxAlloc) :
    tryBytesLen s n ≠ .fault w := by
  unfold tryBytesLen
  split
  · simp
  · rename_i h0
    have hb := bitsByteCount_bound (max s.left 0) (by omega)
    have hm : makesliceFault (min n (bitsByteCount (max s.left 0) + 8)) = false := by
      rw [makesliceFault_false]
      simp only [maxAlloc, St.left] at *
      omega
    simp only [hm]
    repeat' split
    all_goals simp_all

theorem tryText_nofault (s : St) (n : Int) (w : String) (hp : 0 ≤ s.pos) (hl : s.len ≤ maxAlloc) :
    tryText s n ≠ .fault w := by
  unfold tryText
  split
  · simp
  · split
    · simp
    · exact tryBytesLen_nofault _ _ _ hp hl

/-- TryBytesRange never faults: more than the whole buffer (+8) is refused before allocating -/
theorem tryBytesRange_nofault (s : St) (o n : Int) (w : String) (hl : s.len ≤ maxAlloc) :
    tryBytesRange s o n ≠ .fault w := by
  unfold tryBytesRange
  split
  · simp
  · split
    · simp
    · rename_i h0 h1
      have hm : makesliceFault n = false := by
        rw [makesliceFault_false]
        simp only [maxAlloc] at *
        omega
      simp only [hm]
      repeat' split
      all_goals simp_all

theorem tryAlignBits_nofault (s : St) (n : Int) (w : String) : tryAlignBits s n ≠ .fault w := by
  unfold tryAlignBits; split <;> simp

/-- bitBufIsZero never indexes past its scratch buffer, whatever the field length -/
theorem isZeroScan_in_bounds (nbits : Int) : isZeroScanFault isZeroScanBytes nbits = false := by
  unfold isZeroScanFault isZeroScanBytes isZeroBufBytes bitsByteCount
  simp only [decide_eq_false_iff_not]
  intro h
  split at h <;> omega

theorem rangeFn_onlyRec (s : St) (f n : Int) : OnlyRec (rangeFn s f n) := by
  intro v hv
  unfold rangeFn at hv
  split at hv
  · simp at hv; subst hv; rfl
  split at hv
  · simp at hv; subst hv; rfl
  · rename_i w' h; exact absurd h (bitioxRange_nofault _ _ _ _)
  · split at hv
    · simp at hv; subst hv; rfl
    · simp at hv

end Proofs.C06
