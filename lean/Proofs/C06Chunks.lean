import FqModel.ReadChunks
/-! helper lemmas for the read-chunk theorems of Props/C06.lean (nalUnescapeReader, unsyncReader) -/
namespace Proofs.C06Chunks
open FqModel.Recover FqModel.ReadChunks

@[simp] theorem obind_ok {α β : Type} (a : α) (f : α → Outcome β) : obind (.ok a) f = f a := rfl
@[simp] theorem omap_ok {α β : Type} (a : α) (f : α → β) : omap (.ok a) f = .ok (f a) := rfl
@[simp] theorem obind_panic {α β : Type} (v : PanicV) (f : α → Outcome β) : obind (.panic v : Outcome α) f = .panic v := rfl

theorem goIdx_ok {plen i : Nat} (h : i < plen) : goIdx plen i = .ok () := by simp [goIdx, h]
theorem goIdx_fault {plen i : Nat} (h : plen ≤ i) : goIdx plen i = .panic idxFault := by
  have : ¬ i < plen := by omega
  simp [goIdx, this]
theorem goSliceTo_ok {plen n : Nat} (h : n ≤ plen) : goSliceTo plen n = .ok () := by simp [goSliceTo, h]

/-! ### nalUnescapeReader -/

/-- the number of bytes the specification drops -/
def nalDropped : NalSt → List Nat → Nat
  | _, [] => 0
  | st, b :: rest =>
    if st.z0 && st.z1 && b == 3 then nalDropped (nalStepSt st b) rest + 1 else nalDropped (nalStepSt st b) rest

theorem nalSpec_length (st : NalSt) (bs : List Nat) : (nalSpec st bs).length + nalDropped st bs = bs.length := by
  induction bs generalizing st with
  | nil => rfl
  | cons b rest ih =>
    unfold nalSpec nalDropped
    by_cases hc : (st.z0 && st.z1 && b == 3) = true
    · simp only [hc, if_true, List.length_cons]; have := ih (nalStepSt st b); omega
    · simp only [hc, List.length_cons]; have := ih (nalStepSt st b); simp; omega

theorem nalSpec_append (st : NalSt) (a b : List Nat) :
    nalSpec st (a ++ b) = nalSpec st a ++ nalSpec (nalFinalSt st a) b := by
  induction a generalizing st with
  | nil => rfl
  | cons x rest ih =>
    simp only [List.cons_append, nalSpec, nalFinalSt]
    by_cases hc : (st.z0 && st.z1 && x == 3) = true
    · simp only [hc, if_true]; exact ih _
    · simp only [hc]; simp [ih]

theorem nalFinalSt_append (st : NalSt) (a b : List Nat) :
    nalFinalSt st (a ++ b) = nalFinalSt (nalFinalSt st a) b := by
  induction a generalizing st with
  | nil => rfl
  | cons x rest ih => simp only [List.cons_append, nalFinalSt]; exact ih _

/-- the loop of the code as it is: never faults while `ni ≤ i` and the data fit the destination; it computes
    the specification, and the count goes down by exactly the dropped bytes -/
theorem nalLoop_none (plen : Nat) (stale : List Nat) : ∀ (bs : List Nat) (i ni : Nat) (n : Int) (st : NalSt),
    ni ≤ i → i + bs.length ≤ plen →
    nalLoop .none plen stale bs i ni n st = .ok (n - (nalDropped st bs : Int), nalFinalSt st bs, nalSpec st bs) := by
  intro bs
  induction bs with
  | nil => intro i ni n st _ _; simp [nalLoop, nalDropped, nalFinalSt, nalSpec]
  | cons b rest ih =>
    intro i ni n st h1 h2
    simp only [List.length_cons] at h2
    unfold nalLoop
    simp only [Look.guard, Bool.and_false, Bool.false_eq_true, if_false, obind_ok]
    by_cases hc : (st.z0 && st.z1 && b == 3) = true
    · simp only [hc, if_true]
      rw [ih (i + 1) ni (n - 1) _ (by omega) (by omega)]
      simp only [nalDropped, nalFinalSt, nalSpec, nalStepSt, hc, if_true]
      congr 2; push_cast; omega
    · simp only [hc]
      rw [goIdx_ok (show i < plen by omega), goIdx_ok (show ni < plen by omega)]
      simp only [obind_ok, Bool.false_eq_true, if_false]
      rw [ih (i + 1) (ni + 1) n _ (by omega) (by omega)]
      simp only [omap_ok, nalDropped, nalFinalSt, nalSpec, nalStepSt, hc, Bool.false_eq_true, if_false]

theorem nalRead_none (c : ReadCall) (st : NalSt) (h : c.bs.length ≤ c.plen) :
    nalRead .none c st = .ok (((nalSpec st c.bs).length : Int), nalFinalSt st c.bs, nalSpec st c.bs) := by
  unfold nalRead
  rw [goSliceTo_ok h, obind_ok, nalLoop_none c.plen c.stale c.bs 0 0 _ st (by omega) (by omega)]
  have := nalSpec_length st c.bs
  congr 2; omega

theorem consumerCheck_ok {plen : Nat} {n : Nat} (h : n ≤ plen) : consumerCheck plen (n : Int) = .ok () := by
  unfold consumerCheck
  have h1 : ¬ ((n : Int) < 0) := by omega
  have h2 : ¬ ((n : Int) > (plen : Int)) := by omega
  simp [h1, h2]

theorem nalReads_none : ∀ (calls : List ReadCall) (st : NalSt), (∀ c ∈ calls, c.bs.length ≤ c.plen) →
    nalReads .none st calls = .ok (nalFinalSt st (calls.flatMap (·.bs)), nalSpec st (calls.flatMap (·.bs))) := by
  intro calls
  induction calls with
  | nil => intro st _; rfl
  | cons c rest ih =>
    intro st h
    have hc : c.bs.length ≤ c.plen := h c (by simp)
    unfold nalReads
    rw [nalRead_none c st hc]
    simp only [obind_ok]
    have hl : (nalSpec st c.bs).length ≤ c.plen := by have := nalSpec_length st c.bs; omega
    rw [consumerCheck_ok hl, obind_ok, ih _ (fun c' hc' => h c' (by simp [hc']))]
    simp only [obind_ok, List.flatMap_cons, nalSpec_append, nalFinalSt_append]

/-! ### the lookahead variants -/

/-- with the lookahead: the loop is fault free when the data fit — and, for the guard `i+1 <= rn`, when they do
    not fill the destination -/
theorem nalLoop_look_ok (look : Look) (plen : Nat) (stale : List Nat) : ∀ (bs : List Nat) (i ni : Nat) (n : Int) (st : NalSt),
    ni ≤ i → i + bs.length ≤ plen → (look = .le → i + bs.length < plen) →
    ∃ n' st' kept, nalLoop look plen stale bs i ni n st = .ok (n', st', kept) ∧ n' + (bs.length : Int) = n + (kept.length : Int) ∧
      kept.length ≤ bs.length := by
  intro bs
  induction bs with
  | nil => intro i ni n st _ _ _; exact ⟨n, st, [], rfl, by simp, by simp⟩
  | cons b rest ih =>
    intro i ni n st h1 h2 h3
    simp only [List.length_cons] at h2 h3
    unfold nalLoop
    -- the lookahead, when it is evaluated, is in range
    have hpeek : (st.z0 && st.z1 && b == 3 && look.guard rest) = true →
        ∃ nb, peekNext plen i rest stale = .ok nb := by
      intro hg
      have hg2 : look.guard rest = true := by
        cases hgr : look.guard rest <;> simp_all
      have hlt : i + 1 < plen := by
        cases look with
        | none => simp [Look.guard] at hg2
        | lt =>
          simp only [Look.guard] at hg2
          cases rest with
          | nil => simp at hg2
          | cons x xs => simp only [List.length_cons] at h2; omega
        | le => have := h3 rfl; omega
      unfold peekNext
      rw [goIdx_ok hlt]
      exact ⟨_, rfl⟩
    -- both continuations
    have hdrop := ih (i + 1) ni (n - 1) ⟨false, false⟩ (by omega) (by omega) (fun hl => by have := h3 hl; omega)
    have hkeep := ih (i + 1) (ni + 1) n ⟨b == 0, st.z0⟩ (by omega) (by omega) (fun hl => by have := h3 hl; omega)
    have hkeep' : ∃ n' st' kept, (obind (goIdx plen i) fun _ => obind (goIdx plen ni) fun _ =>
        omap (nalLoop look plen stale rest (i + 1) (ni + 1) n ⟨b == 0, st.z0⟩) fun (n', st', kept) => (n', st', b :: kept)) = .ok (n', st', kept) ∧
        n' + ((rest.length + 1 : Nat) : Int) = n + (kept.length : Int) ∧ kept.length ≤ rest.length + 1 := by
      rw [goIdx_ok (show i < plen by omega), goIdx_ok (show ni < plen by omega)]
      obtain ⟨n', st', kept, e, e2, e3⟩ := hkeep
      refine ⟨n', st', b :: kept, by simp [e], ?_, by simp; omega⟩
      simp only [List.length_cons]; push_cast; omega
    have hdrop' : ∃ n' st' kept, nalLoop look plen stale rest (i + 1) ni (n - 1) ⟨false, false⟩ = .ok (n', st', kept) ∧
        n' + ((rest.length + 1 : Nat) : Int) = n + (kept.length : Int) ∧ kept.length ≤ rest.length + 1 := by
      obtain ⟨n', st', kept, e, e2, e3⟩ := hdrop
      exact ⟨n', st', kept, e, by push_cast; omega, by omega⟩
    simp only [List.length_cons]
    by_cases hg : (st.z0 && st.z1 && b == 3 && look.guard rest) = true
    · obtain ⟨nb, hnb⟩ := hpeek hg
      simp only [hg, if_true, hnb, obind_ok]
      by_cases hnb3 : nb > 3
      · simp only [hnb3, decide_true, Bool.not_true, Bool.false_eq_true, if_false]; exact hkeep'
      · simp only [hnb3, decide_false, Bool.not_false, if_true]; exact hdrop'
    · simp only [hg, Bool.false_eq_true, if_false, obind_ok]
      by_cases hc : (st.z0 && st.z1 && b == 3) = true
      · simp only [hc, if_true]; exact hdrop'
      · simp only [hc, Bool.false_eq_true, if_false]; exact hkeep'

theorem nalRead_look_ok (look : Look) (c : ReadCall) (st : NalSt) (h : c.bs.length ≤ c.plen) (hle : look = .le → c.bs.length < c.plen) :
    ∃ n' st' out', nalRead look c st = .ok (n', st', out') ∧ n' = (out'.length : Int) ∧ out'.length ≤ c.bs.length := by
  unfold nalRead
  rw [goSliceTo_ok h, obind_ok]
  obtain ⟨n', st', out', e, e2, e3⟩ := nalLoop_look_ok look c.plen c.stale c.bs 0 0 c.bs.length st (by omega) (by omega)
    (fun hl => by have := hle hl; omega)
  exact ⟨n', st', out', e, by omega, e3⟩

theorem nalReads_look_ok (look : Look) : ∀ (calls : List ReadCall) (st : NalSt), (∀ c ∈ calls, c.bs.length ≤ c.plen) →
    (look = .le → ∀ c ∈ calls, c.bs.length < c.plen) →
    ∃ st' out, nalReads look st calls = .ok (st', out) ∧ out.length ≤ (calls.flatMap (·.bs)).length := by
  intro calls
  induction calls with
  | nil => intro st _ _; exact ⟨st, [], rfl, by simp⟩
  | cons c rest ih =>
    intro st h hle
    obtain ⟨n', st', out', e, e2, e3⟩ := nalRead_look_ok look c st (h c (by simp)) (fun hl => hle hl c (by simp))
    obtain ⟨st'', outs, e4, e5⟩ := ih st' (fun c' hc' => h c' (by simp [hc'])) (fun hl c' hc' => hle hl c' (by simp [hc']))
    unfold nalReads
    rw [e, obind_ok]
    subst e2
    have : c.bs.length ≤ c.plen := h c (by simp)
    simp only []
    rw [consumerCheck_ok (show out'.length ≤ c.plen by omega), obind_ok, e4, obind_ok]
    exact ⟨st'', out' ++ outs, rfl, by simp only [List.length_append, List.flatMap_cons]; omega⟩

theorem schedule_contract (stale : Nat) : ∀ (sched : List (Nat × Nat)) (input : List Nat),
    ∀ c ∈ schedule stale input sched, c.bs.length ≤ c.plen := by
  intro sched
  induction sched with
  | nil => intro input c hc; simp [schedule] at hc
  | cons pc rest ih =>
    intro input c hc
    obtain ⟨plen, cn⟩ := pc
    simp only [schedule, List.mem_cons] at hc
    rcases hc with rfl | hc
    · simp only [List.length_take]; omega
    · exact ih _ c hc

/-- guard `i+1 <= rn`: a run of bytes other than 03, then 00 00 03 as the LAST bytes of a destination that the data
    fill completely — the lookahead indexes one past the slice -/
theorem nalLoop_le_faults (plen : Nat) (stale : List Nat) (f : Nat) (hf : f ≠ 3) : ∀ (k i ni : Nat) (n : Int) (st : NalSt),
    ni ≤ i → i + k + 3 = plen →
    nalLoop .le plen stale (List.replicate k f ++ [0, 0, 3]) i ni n st = .panic idxFault := by
  intro k
  induction k with
  | zero =>
    intro i ni n st h1 h2
    have hf3 : goIdx plen (i + 2 + 1) = .panic idxFault := goIdx_fault (by omega)
    simp only [List.replicate_zero, List.nil_append]
    unfold nalLoop
    simp only [show ((0 : Nat) == 3) = false from rfl, Bool.and_false]
    rw [goIdx_ok (show i < plen by omega), goIdx_ok (show ni < plen by omega)]
    simp only [obind_ok]
    unfold nalLoop
    simp only [show ((0 : Nat) == 3) = false from rfl, Bool.and_false]
    rw [goIdx_ok (show i + 1 < plen by omega), goIdx_ok (show ni + 1 < plen by omega)]
    simp only [obind_ok]
    unfold nalLoop
    simp only [show ((0 : Nat) == 0) = true from rfl, show ((3 : Nat) == 3) = true from rfl, Look.guard, Bool.and_self, if_true]
    unfold peekNext
    rw [show i + 1 + 1 = i + 2 from rfl, hf3]
    rfl
  | succ k ih =>
    intro i ni n st h1 h2
    simp only [List.replicate_succ, List.cons_append]
    unfold nalLoop
    have hf' : (f == 3) = false := by simpa using hf
    simp only [hf', Bool.and_false]
    rw [goIdx_ok (show i < plen by omega), goIdx_ok (show ni < plen by omega)]
    simp only [obind_ok]
    rw [ih (i + 1) (ni + 1) n _ (by omega) (by omega)]
    rfl

/-! ### the rewrite-style specification -/

theorem unescape_keep (b : Nat) (l : List Nat) (h : ∀ r, b = 0 → l = 0 :: 3 :: r → False) :
    unescape (b :: l) = b :: unescape l := unescape.eq_2 b l h

theorem unescape_003 (l : List Nat) : unescape (0 :: 0 :: 3 :: l) = 0 :: 0 :: unescape l := unescape.eq_1 l

theorem unescape_nonzero (b : Nat) (hb : b ≠ 0) (l : List Nat) : unescape (b :: l) = b :: unescape l :=
  unescape_keep b l (fun _ h0 _ => hb h0)

/-- whatever follows, a leading 00 stays a leading 00 -/
theorem unescape_zero_head (l : List Nat) : ∃ t, unescape (0 :: l) = 0 :: t := by
  by_cases h : ∃ r, l = 0 :: 3 :: r
  · obtain ⟨r, rfl⟩ := h; exact ⟨_, unescape_003 r⟩
  · exact ⟨_, unescape_keep 0 l (fun r _ hr => h ⟨r, hr⟩)⟩

/-- the state machine of the reader against the rewrite, for the three states it can be in: nothing pending,
    one 00 pending, two 00 pending -/
theorem nalSpec_unescape_all : ∀ (l : List Nat),
    (∀ z, nalSpec ⟨false, z⟩ l = unescape l) ∧
    (nalSpec ⟨true, false⟩ l = (unescape (0 :: l)).drop 1) ∧
    (nalSpec ⟨true, true⟩ l = (unescape (0 :: 0 :: l)).drop 2) := by
  intro l
  induction l with
  | nil => simp [nalSpec, unescape]
  | cons b rest ih =>
    obtain ⟨ihA, ihB, ihC⟩ := ih
    by_cases hb0 : b = 0
    · subst hb0
      obtain ⟨t, ht⟩ := unescape_zero_head rest
      refine ⟨fun z => ?_, ?_, ?_⟩
      · -- nothing pending, a 00 arrives
        simp only [nalSpec, nalStepSt, Bool.false_and, Bool.false_eq_true, if_false]
        rw [show ((0 : Nat) == 0) = true from rfl, ihB, ht]; rfl
      · -- one pending, a second 00
        simp only [nalSpec, nalStepSt, Bool.and_false, Bool.false_and, Bool.false_eq_true, if_false]
        rw [show ((0 : Nat) == 0) = true from rfl, ihC]
        by_cases h3 : ∃ r, rest = 3 :: r
        · obtain ⟨r, rfl⟩ := h3; simp [unescape_003]
        · rw [unescape_keep 0 (0 :: rest) (fun r _ hr => h3 ⟨r, by simpa using hr⟩), ht]; rfl
      · -- two pending, a third 00: the first of them is final
        simp only [nalSpec, nalStepSt, Bool.and_self, Bool.true_and, show ((0 : Nat) == 3) = false from rfl, Bool.false_eq_true, if_false]
        rw [show ((0 : Nat) == 0) = true from rfl, ihC]
        rw [unescape_keep 0 (0 :: 0 :: rest) (fun r _ hr => by simp at hr)]
        by_cases h3 : ∃ r, rest = 3 :: r
        · obtain ⟨r, rfl⟩ := h3; simp [unescape_003]
        · rw [unescape_keep 0 (0 :: rest) (fun r _ hr => h3 ⟨r, by simpa using hr⟩), ht]; rfl
    · have hbz : (b == 0) = false := by simpa using hb0
      refine ⟨fun z => ?_, ?_, ?_⟩
      · simp only [nalSpec, nalStepSt, Bool.false_and, Bool.false_eq_true, if_false, hbz]
        rw [ihA, unescape_nonzero b hb0]
      · simp only [nalSpec, nalStepSt, Bool.and_false, Bool.false_and, Bool.false_eq_true, if_false, hbz]
        rw [ihA, unescape_keep 0 (b :: rest) (fun r _ hr => by simp at hr; exact hb0 hr.1), unescape_nonzero b hb0]; rfl
      · by_cases hb3 : b = 3
        · subst hb3
          simp only [nalSpec, nalStepSt, Bool.and_self, show ((3 : Nat) == 3) = true from rfl, if_true]
          rw [ihA, unescape_003]; rfl
        · have hb3' : (b == 3) = false := by simpa using hb3
          simp only [nalSpec, nalStepSt, Bool.and_self, Bool.true_and, hb3', Bool.false_eq_true, if_false, hbz]
          rw [ihA, unescape_keep 0 (0 :: b :: rest) (fun r _ hr => by simp at hr; exact hb3 hr.1),
            unescape_keep 0 (b :: rest) (fun r _ hr => by simp at hr; exact hb0 hr.1), unescape_nonzero b hb0]; rfl

/-! ### unsyncReader -/

def unsyncDropped : Bool → List Nat → Nat
  | _, [] => 0
  | ff, b :: rest => if ff && b == 0 then unsyncDropped false rest + 1 else unsyncDropped (b == 255) rest

theorem unsyncSpec_length (ff : Bool) (bs : List Nat) : (unsyncSpec ff bs).length + unsyncDropped ff bs = bs.length := by
  induction bs generalizing ff with
  | nil => rfl
  | cons b rest ih =>
    unfold unsyncSpec unsyncDropped
    by_cases hc : (ff && b == 0) = true
    · simp only [hc, if_true, List.length_cons]; have := ih false; omega
    · simp only [hc, List.length_cons]; have := ih (b == 255); simp; omega

theorem unsyncSpec_append (ff : Bool) (a b : List Nat) :
    unsyncSpec ff (a ++ b) = unsyncSpec ff a ++ unsyncSpec (unsyncFinal ff a) b := by
  induction a generalizing ff with
  | nil => rfl
  | cons x rest ih =>
    simp only [List.cons_append, unsyncSpec, unsyncFinal, unsyncStep]
    by_cases hc : (ff && x == 0) = true
    · simp only [hc, if_true]; exact ih _
    · simp only [hc]; simp [ih]

theorem unsyncFinal_append (ff : Bool) (a b : List Nat) :
    unsyncFinal ff (a ++ b) = unsyncFinal (unsyncFinal ff a) b := by
  induction a generalizing ff with
  | nil => rfl
  | cons x rest ih => simp only [List.cons_append, unsyncFinal]; exact ih _

theorem unsyncLoop_ok (plen : Nat) : ∀ (bs : List Nat) (i ni : Nat) (n : Int) (ff : Bool),
    ni ≤ i → i + bs.length ≤ plen →
    unsyncLoop plen bs i ni n ff = .ok (n - (unsyncDropped ff bs : Int), unsyncFinal ff bs, unsyncSpec ff bs) := by
  intro bs
  induction bs with
  | nil => intro i ni n ff _ _; simp [unsyncLoop, unsyncDropped, unsyncFinal, unsyncSpec]
  | cons b rest ih =>
    intro i ni n ff h1 h2
    simp only [List.length_cons] at h2
    unfold unsyncLoop
    by_cases hc : (ff && b == 0) = true
    · simp only [hc, if_true]
      rw [ih (i + 1) ni (n - 1) _ (by omega) (by omega)]
      simp only [unsyncDropped, unsyncFinal, unsyncSpec, unsyncStep, hc, if_true]
      congr 2; push_cast; omega
    · simp only [hc]
      rw [goIdx_ok (show i < plen by omega), goIdx_ok (show ni < plen by omega)]
      simp only [obind_ok, Bool.false_eq_true, if_false]
      rw [ih (i + 1) (ni + 1) n _ (by omega) (by omega)]
      simp only [omap_ok, unsyncDropped, unsyncFinal, unsyncSpec, unsyncStep, hc, Bool.false_eq_true, if_false]

theorem unsyncRead_ok (c : ReadCall) (ff : Bool) (h : c.bs.length ≤ c.plen) :
    unsyncRead c ff = .ok (((unsyncSpec ff c.bs).length : Int), unsyncFinal ff c.bs, unsyncSpec ff c.bs) := by
  unfold unsyncRead
  rw [goSliceTo_ok h, obind_ok, unsyncLoop_ok c.plen c.bs 0 0 _ ff (by omega) (by omega)]
  have := unsyncSpec_length ff c.bs
  congr 2; omega

theorem unsyncReads_ok (carry : Bool) : ∀ (calls : List ReadCall) (ff : Bool), (∀ c ∈ calls, c.bs.length ≤ c.plen) →
    unsyncReads carry ff calls = .ok (unsyncChunked carry ff calls) := by
  intro calls
  induction calls with
  | nil => intro ff _; rfl
  | cons c rest ih =>
    intro ff h
    have hc : c.bs.length ≤ c.plen := h c (by simp)
    unfold unsyncReads
    rw [unsyncRead_ok c ff hc]
    simp only [obind_ok]
    have hl : (unsyncSpec ff c.bs).length ≤ c.plen := by have := unsyncSpec_length ff c.bs; omega
    rw [consumerCheck_ok hl, obind_ok, ih _ (fun c' hc' => h c' (by simp [hc']))]
    simp only [obind_ok, unsyncChunked]

theorem unsyncChunked_carry : ∀ (calls : List ReadCall) (ff : Bool),
    unsyncChunked true ff calls = unsyncSpec ff (calls.flatMap (·.bs)) := by
  intro calls
  induction calls with
  | nil => intro ff; rfl
  | cons c rest ih =>
    intro ff
    simp only [unsyncChunked, if_true, List.flatMap_cons, unsyncSpec_append, ih]

/-! ### bitFlipReader -/

theorem bitflipLoop_ok (plen : Nat) : ∀ (bs : List Nat) (i : Nat), i + bs.length ≤ plen →
    bitflipLoop plen bs i = .ok (bs.map reverse8) := by
  intro bs
  induction bs with
  | nil => intro i _; rfl
  | cons b rest ih =>
    intro i h
    simp only [List.length_cons] at h
    unfold bitflipLoop
    rw [goIdx_ok (show i < plen by omega), obind_ok, ih (i + 1) (by omega)]
    rfl

end Proofs.C06Chunks
