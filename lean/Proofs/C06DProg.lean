import FqModel.Recover2
import Proofs.C06
/-! closure lemmas for the `DProg` language (Props/C06.lean: `dprog_only_recoverable`) -/
namespace Proofs.C06
open FqModel.Recover

/-- a sane reader state (= `Props.C06.BufOK`) -/
def Sane (s : St) : Prop := 0 ≤ s.pos ∧ s.len ≤ maxAlloc

theorem must_ok {α : Type} (t : Try α) (a : α) (h : must t = .ok a) : t = .ok a := by
  cases t <;> simp [must] at h ⊢; exact h

theorem tryBits_ok (s s' : St) (n : Int) (h : tryBits s n = .ok s') : s'.len = s.len ∧ s.pos ≤ s'.pos := by
  unfold tryBits at h
  split at h
  · simp at h
  · simp only [] at h
    split at h
    · simp at h
    · split at h
      · simp at h
      · simp at h; subst h; simp; omega

theorem tryBytesLen_ok (s s' : St) (n : Int) (h : tryBytesLen s n = .ok s') : s'.len = s.len ∧ s.pos ≤ s'.pos := by
  unfold tryBytesLen at h
  split at h
  · simp at h
  · simp only [] at h
    split at h
    · simp at h
    · split at h
      · simp at h
      · simp at h; subst h; simp; omega

theorem trySeekAbs_ok (s s' : St) (p : Int) (h : trySeekAbs s p = .ok s') : s'.len = s.len ∧ 0 ≤ s'.pos := by
  unfold trySeekAbs at h
  split at h
  · simp at h
  · split at h
    · simp at h
    · simp at h; subst h; simp; omega

theorem tryBitBufLen_ok (s s' : St) (n : Int) (h : tryBitBufLen s n = .ok s') : s'.len = s.len ∧ 0 ≤ s'.pos := by
  unfold tryBitBufLen at h
  split at h
  · simp at h
  · simp at h
  · exact trySeekAbs_ok _ _ _ h

/-- every primitive that succeeds leaves a sane state over the same buffer -/
theorem corePrim_ok_sane (p : Prim) (s s' : St) (a : Int) (hs : Sane s) (h : corePrim p s a = .ok s') :
    Sane s' ∧ s'.len = s.len := by
  obtain ⟨hp, hl⟩ := hs
  have same : s' = s → Sane s' ∧ s'.len = s.len := fun e => by subst e; exact ⟨⟨hp, hl⟩, rfl⟩
  have fromBits : ∀ n, tryBits s n = .ok s' → Sane s' ∧ s'.len = s.len := fun n hb => by
    have := tryBits_ok _ _ _ hb; exact ⟨⟨by omega, by omega⟩, this.1⟩
  have fromSeek : ∀ q, trySeekAbs s q = .ok s' → Sane s' ∧ s'.len = s.len := fun q hb => by
    have := trySeekAbs_ok _ _ _ hb; exact ⟨⟨by omega, by omega⟩, this.1⟩
  cases p <;> simp only [corePrim] at h
  · exact same (by simpa using h.symm)
  · exact fromBits _ (must_ok _ _ h)
  · have := must_ok _ _ h; unfold tryUintBits at this; split at this
    · simp at this
    · exact fromBits _ this
  · have := must_ok _ _ h; unfold tryU at this; split at this
    · simp at this
    · unfold tryUintBits at this; split at this
      · simp at this
      · exact fromBits _ this
  · have := tryBitBufLen_ok _ _ _ (must_ok _ _ h); exact ⟨⟨by omega, by omega⟩, this.1⟩
  · exact fromSeek _ (must_ok _ _ h)
  · exact fromSeek _ (must_ok _ _ h)
  · split at h
    · simp at h
    · split at h
      · simp at h
      · exact fromSeek _ (must_ok _ _ h)
  · split at h
    · simp at h
    · split at h
      · simp at h
      · exact fromSeek _ (must_ok _ _ h)
  · unfold rangeFn at h
    split at h
    · simp at h
    · split at h
      · simp at h
      · simp at h
      · split at h
        · simp at h
        · exact same (by simpa using h.symm)
  · have := tryBytesLen_ok _ _ _ (must_ok _ _ h); exact ⟨⟨by omega, by omega⟩, this.1⟩
  · have := must_ok _ _ h; unfold tryBytesRange at this
    repeat' split at this
    all_goals first | (simp at this; done) | exact same (by simpa using this.symm)
  · have := must_ok _ _ h
    split at this
    · exact same (by simpa using this.symm)
    · simp at this
    · simp at this
  · have := must_ok _ _ h; unfold tryText at this
    split at this
    · simp at this
    · split at this
      · simp at this
      · have := tryBytesLen_ok _ _ _ this; exact ⟨⟨by omega, by omega⟩, this.1⟩
  · have := must_ok _ _ h
    split at this
    · exact same (by simpa using this.symm)
    · simp at this
    · simp at this
  · have := must_ok _ _ h; unfold tryAlignBits at this; split at this
    · simp at this
    · exact same (by simpa using this.symm)
  · repeat' split at h
    · exact same (by simpa using h.symm)
    · simp at h
    · simp at h; subst h; simp [Sane]; omega
  · split at h
    · exact same (by simpa using h.symm)
    · simp at h
  · simp at h
  · simp at h
  · repeat' split at h
    all_goals first | (simp at h; done) | exact same (by simpa using h.symm)
  · repeat' split at h
    all_goals first | (simp at h; done) | exact same (by simpa using h.symm)
  · split at h
    · simp at h
    · simp at h
    · rename_i s1 hb
      split at h
      · simp at h
      · simp at h; subst h
        have := tryBitBufLen_ok _ _ _ hb; exact ⟨⟨by omega, by omega⟩, this.1⟩


/-- what the closure induction carries: only recoverable panics, and a sane state when it returns -/
def GoodO (o : Outcome RunSt) : Prop := OnlyRec o ∧ ∀ rs', o = .ok rs' → Sane rs'.st

theorem goodO_io : GoodO (.panic .ioError) :=
  ⟨by intro v hv; simp at hv; subst hv; rfl, by intro rs' h; simp at h⟩
theorem goodO_dec : GoodO (.panic .decoderError) :=
  ⟨by intro v hv; simp at hv; subst hv; rfl, by intro rs' h; simp at h⟩
theorem goodO_panic (v : PanicV) (h : v.recoverable = true) : GoodO (.panic v) :=
  ⟨by intro w hw; simp at hw; subst hw; exact h, by intro rs' h; simp at h⟩

theorem wrap64_range (x : Int) : -two63 ≤ wrap64 x ∧ wrap64 x < two63 := by
  unfold wrap64 two63 two64; omega

theorem wrap64_id (x : Int) (h : -two63 ≤ x ∧ x < two63) : wrap64 x = x := by
  unfold wrap64 two63 two64 at *; omega

/-- RangeFn succeeded: the framed sub-buffer is not longer than the buffer -/
theorem rangeFn_ok_len (s s1 : St) (n : Int) (h : rangeFn s s.pos n = .ok s1) : wrap64 (s.pos + n) ≤ s.len := by
  unfold rangeFn at h
  split at h
  · simp at h
  · split at h
    · simp at h
    · simp at h
    · rename_i hb
      unfold bitioxRange at hb
      split at hb
      · simp at hb
      · split at hb
        · simp at hb
        · rename_i h1 h2
          have := wrap64_id (0 + wrap64 (s.pos + n)) (by have := wrap64_range (s.pos + n); omega)
          omega

/-- CLOSURE: whatever the program, whatever the input and the (sane) state it starts in — only recoverable panics -/
theorem runDProg_good (hcore : ∀ p s a, Sane s → OnlyRec (corePrim p s a)) (p : DProg) :
    ∀ (c : Ctx) (rs : RunSt), Sane rs.st → GoodO (runDProg p c rs).2 := by
  have seekGood : ∀ (s : St) (d : Int), Sane s → ∀ v, must (trySeekRel s d) = .panic v → v.recoverable = true := by
    intro s d hs v hv
    exact hcore .seekrel s d hs v (by simpa [corePrim] using hv)
  have seekSane : ∀ (s s' : St) (d : Int), Sane s → must (trySeekRel s d) = .ok s' → Sane s' := by
    intro s s' d hs h
    exact (corePrim_ok_sane .seekrel s s' d hs (by simpa [corePrim] using h)).1
  induction p with
  | done v => intro c rs hs; simp only [runDProg]; exact ⟨by intro w hw; simp at hw, by intro rs' h; simp at h; subst h; exact hs⟩
  | prim p a k ih =>
    intro c rs hs; simp only [runDProg]
    split
    · rename_i v hv; exact goodO_panic v (hcore p rs.st a hs v hv)
    · rename_i s' hv; exact ih c _ (corePrim_ok_sane p rs.st s' a hs hv).1
  | field name fk n chk k ih =>
    intro c rs hs; simp only [runDProg]
    split
    · rename_i v hv; exact goodO_panic v (hcore _ rs.st n hs v hv)
    · rename_i s' hv
      split
      · exact goodO_io
      · split
        · exact goodO_dec
        · exact ih _ c _ (corePrim_ok_sane _ rs.st s' n hs hv).1
  | read fk n k ih =>
    intro c rs hs; simp only [runDProg]
    split
    · rename_i v hv; exact goodO_panic v (hcore _ rs.st n hs v hv)
    · rename_i s' hv; exact ih _ c _ (corePrim_ok_sane _ rs.st s' n hs hv).1
  | info k ih => intro c rs hs; simp only [runDProg]; exact ih _ _ _ c rs hs
  | scope isArr name body k ihb ihk =>
    intro c rs hs; simp only [runDProg]
    split
    · exact goodO_dec
    · have hb := ihb { c with path := childPath c rs name, inArr := isArr }
        { st := rs.st, idx := 0, names := [], ext := max rs.ext rs.st.pos } hs
      split
      · rename_i v hv; exact goodO_panic v (hb.1 v hv)
      · rename_i rs1 hv; exact ihk _ c _ (hb.2 rs1 hv)
  | framed n body k ihb ihk =>
    intro c rs hs; simp only [runDProg]
    split
    · exact goodO_dec
    · split
      · rename_i v hv; exact goodO_panic v (rangeFn_onlyRec _ _ _ v hv)
      · rename_i s1 hr
        have hlen := rangeFn_ok_len _ _ _ hr
        have hb := ihb c { rs with st := { rs.st with len := wrap64 (rs.st.pos + n) } }
          ⟨hs.1, by have := hs.2; simp only []; omega⟩
        split
        · rename_i v hv; exact goodO_panic v (hb.1 v hv)
        · rename_i rs1 hv
          split
          · rename_i v hv2; exact goodO_panic v (seekGood _ _ hs v hv2)
          · rename_i s' hv2; exact ihk _ c _ (seekSane _ _ _ hs hv2)
  | sub name body k ihb ihk =>
    intro c rs hs; simp only [runDProg]
    split
    · exact ihk _ c rs hs
    · rename_i hleft
      have hb := ihb { c with base := c.base + rs.st.pos, path := childPath c rs name, inArr := false }
        { st := { len := rs.st.left, pos := 0, force := rs.st.force }, idx := 0, names := [], ext := 0 }
        ⟨by simp, by have := hs.1; have := hs.2; simp only [St.left]; omega⟩
      split
      · rename_i v hv
        have := (recoverRun_repanic _ _).1 hv
        have h2 := hb.1 v this.1
        simp [this.2] at h2
      · exact ihk _ c rs hs
      · rename_i rs1 hv
        split
        · exact goodO_dec
        · split
          · rename_i v hv2; exact goodO_panic v (seekGood _ _ hs v hv2)
          · rename_i s' hv2; exact ihk _ c _ (seekSane _ _ _ hs hv2)

end Proofs.C06
