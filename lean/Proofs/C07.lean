import FqModel.JqEnv
/-! helper lemmas for Props/C07.lean (lookup, `$`-argument evaluation, the capture and the guard) -/
namespace Proofs.C07
open FqModel.JqEnv

/-! ### lookup -/

theorem lookup_none (env : Env) (fn : FName) :
    ∀ vis, (∀ j, j < vis → ∀ d, env[j]? = some d → d.fname ≠ fn) → lookup env vis fn = none := by
  intro vis
  induction vis with
  | zero => intro _; rfl
  | succ v ih =>
    intro h
    have ih' := ih (fun j hj d hd => h j (Nat.lt_succ_of_lt hj) d hd)
    unfold lookup
    cases hv : env[v]? with
    | none => simpa using ih'
    | some d =>
      have hne := h v (Nat.lt_succ_self v) d hv
      simp [hne, ih']

theorem lookup_some_spec (env : Env) (fn : FName) :
    ∀ vis i, lookup env vis fn = some i → i < vis ∧ ∃ d, env[i]? = some d ∧ d.fname = fn := by
  intro vis
  induction vis with
  | zero => intro i h; simp [lookup] at h
  | succ v ih =>
    intro i h
    unfold lookup at h
    cases hv : env[v]? with
    | none =>
      rw [hv] at h
      have := ih i h
      exact ⟨Nat.lt_succ_of_lt this.1, this.2⟩
    | some d =>
      rw [hv] at h
      by_cases hd : d.fname = fn
      · simp [hd] at h
        subst h
        exact ⟨Nat.lt_succ_self _, d, hv, hd⟩
      · simp [hd] at h
        have := ih i h
        exact ⟨Nat.lt_succ_of_lt this.1, this.2⟩

/-- the last matching visible definition wins: nothing after position i (and before vis) matches -/
theorem lookup_last (env : Env) (fn : FName) (i : Nat) (d : Def) (hd : env[i]? = some d) (hf : d.fname = fn) :
    ∀ vis, i < vis → (∀ j, i < j → j < vis → ∀ d', env[j]? = some d' → d'.fname ≠ fn) → lookup env vis fn = some i := by
  intro vis
  induction vis with
  | zero => intro h; exact absurd h (Nat.not_lt_zero _)
  | succ v ih =>
    intro hi h
    unfold lookup
    by_cases hiv : i = v
    · subst hiv
      simp [hd, hf]
    · have hlt : i < v := by omega
      cases hv : env[v]? with
      | none => simpa using ih hlt (fun j h1 h2 d' hd' => h j h1 (Nat.lt_succ_of_lt h2) d' hd')
      | some d' =>
        have hne := h v hlt (Nat.lt_succ_self v) d' hv
        simp [hne]
        exact ih hlt (fun j h1 h2 d'' hd'' => h j h1 (Nat.lt_succ_of_lt h2) d'' hd'')

/-! ### `[$p₀ … $pₖ₋₁]` -/

theorem varsFrom_length (s k : Nat) : (varsFrom s k).length = k := by
  induction k generalizing s with
  | zero => rfl
  | succ k ih => simp [varsFrom, ih]

theorem vars_length (k : Nat) : (vars k).length = k := varsFrom_length 0 k

theorem isVarsFrom_eq : ∀ (args : List Expr) (s : Nat), isVarsFrom s args = true → args = varsFrom s args.length := by
  intro args
  induction args with
  | nil => intro s _; rfl
  | cons a rest ih =>
    intro s h
    cases a with
    | var i =>
      simp [isVarsFrom] at h
      obtain ⟨h1, h2⟩ := h
      subst h1
      simp [varsFrom]
      exact ih (i + 1) h2
    | call f as => simp [isVarsFrom] at h
    | ifExtBinary t e => simp [isVarsFrom] at h
    | pipe a b => simp [isVarsFrom] at h
    | other id => simp [isVarsFrom] at h

theorem isCallOfVars_eq (e : Expr) (f : String) (k : Nat) (h : isCallOfVars e f k = true) : e = .call f (vars k) := by
  cases e with
  | call g args =>
    simp [isCallOfVars] at h
    obtain ⟨⟨h1, h2⟩, h3⟩ := h
    subst h1
    have := isVarsFrom_eq args 0 h3
    rw [h2] at this
    rw [this]; rfl
  | var i => simp [isCallOfVars] at h
  | ifExtBinary t e => simp [isCallOfVars] at h
  | pipe a b => simp [isCallOfVars] at h
  | other id => simp [isCallOfVars] at h

/-! ### bindList / cart -/

theorem bindList_congr {α} (xs : List α) (f g : α → Out) (h : ∀ x ∈ xs, f x = g x) : bindList xs f = bindList xs g := by
  induction xs with
  | nil => rfl
  | cons x rest ih =>
    have hx : f x = g x := h x (List.mem_cons_self ..)
    have hr : bindList rest f = bindList rest g := ih (fun y hy => h y (List.mem_cons_of_mem _ hy))
    simp [bindList, hx, hr]

theorem bindList_single {α} (x : α) (f : α → Out) : bindList [x] f = f x := by
  simp only [bindList]
  rcases hfx : f x with ⟨ys, e⟩
  cases e with
  | none => simp
  | some e => simp

theorem cart_length : ∀ (ls : List (List Val)) (t : List Val), t ∈ cart ls → t.length = ls.length := by
  intro ls
  induction ls with
  | nil => intro t h; simp [cart] at h; simp [h]
  | cons ys rest ih =>
    intro t h
    simp [cart] at h
    obtain ⟨y, _, t', ht', rfl⟩ := h
    simp [ih t' ht']

/-! ### evaluating the parameter list of a capture / guard -/

theorem eval_var (S : Sem) (env : Env) (n vis : Nat) (t : List Val) (i : Nat) (x : Val) (v : Val) (h : t[i]? = some v) :
    eval S env (n + 1) vis t (.var i) x = ([v], none) := by
  simp [eval, h]

theorem outs_varsFrom (S : Sem) (env : Env) (n vis : Nat) (x : Val) :
    ∀ (k s : Nat) (t : List Val), s + k ≤ t.length →
      (varsFrom s k).map (fun a => eval S env (n + 1) vis t a x) = ((t.drop s).take k).map (fun v => ([v], none)) := by
  intro k
  induction k with
  | zero => intro s t _; simp [varsFrom]
  | succ k ih =>
    intro s t h
    have hs : s < t.length := by omega
    have hget : t[s]? = some t[s] := List.getElem?_eq_getElem hs
    have hd : t.drop s = t[s] :: t.drop (s + 1) := by
      rw [List.drop_eq_getElem_cons hs]
    simp only [varsFrom, List.map_cons, hd, List.take_succ_cons]
    rw [eval_var S env n vis t s x t[s] hget]
    rw [ih (s + 1) t (by omega)]

theorem firstErr_noerr (vs : List Val) : firstErr (vs.map (fun v => (([v], none) : Out))) = none := by
  induction vs with
  | nil => rfl
  | cons v rest ih => simp [firstErr, ih]

theorem cart_singletons (vs : List Val) : cart ((vs.map (fun v => (([v], none) : Out))).map (·.1)) = [vs] := by
  induction vs with
  | nil => rfl
  | cons v rest ih =>
    simp only [List.map_map] at ih
    simp [cart, ih]

/-- the parameters of a definition, passed on unchanged, evaluate to exactly the tuple they are bound to -/
theorem evalArgs_vars (S : Sem) (env : Env) (n vis : Nat) (t : List Val) (x : Val) (k : Nat) (hk : t.length = k) :
    evalArgs S env (n + 1) vis t (vars k) x = .ok [t] := by
  have h := outs_varsFrom S env n vis x k 0 t (by omega)
  have htk : (t.drop 0).take k = t := by simp [← hk]
  unfold evalArgs vars
  simp only [h, htk, firstErr_noerr, cart_singletons]

/-- `eval` of a call, in terms of evalArgs -/
theorem eval_call (S : Sem) (env : Env) (n vis : Nat) (vals : List Val) (f : String) (args : List Expr) (x : Val) :
    eval S env (n + 1) vis vals (.call f args) x =
      match evalArgs S env n vis vals args x with
      | .error e => ([], some e)
      | .ok tuples =>
        match lookup env vis (f, args.length) with
        | some i =>
          match env[i]? with
          | some d => bindList tuples (fun t => eval S env n (i + 1) t d.body x)
          | none => ([], some "lookup out of range")
        | none => bindList tuples (fun t => S.builtin (f, args.length) t x) := by
  simp only [eval, evalArgs]
  cases firstErr (args.map fun a => eval S env n vis vals a x) <;> rfl

theorem evalArgs_tuple_length (S : Sem) (env : Env) (n vis : Nat) (vals : List Val) (args : List Expr) (x : Val)
    (tuples : List (List Val)) (h : evalArgs S env n vis vals args x = .ok tuples) : ∀ t ∈ tuples, t.length = args.length := by
  unfold evalArgs at h
  cases hfe : firstErr (args.map fun a => eval S env n vis vals a x) with
  | some e => simp [hfe] at h
  | none =>
    simp [hfe] at h
    intro t ht
    rw [← h] at ht
    have := cart_length _ t ht
    simpa using this

end Proofs.C07
