import FqModel.C07Enc
import Proofs.C10Json
/-
  Lemmas for the JSON text layer of C07 (FqModel/C07Enc.lean).
-/
namespace Proofs.C07Enc
open FqModel FqModel.C07Enc FqModel.JsonStr
open FqModel.Gen.Encoder (Esc)

/-! ### floats: the two clamps -/

theorem key_posMax : key posMax = 9218868437227405311 := by decide
theorem key_negMax : key negMax = -9218868437227405311 := by decide

theorem key_eq_posMax (f : Nat) (h : key f = 9218868437227405311) : f = posMax := by
  unfold key at h
  unfold posMax
  split at h <;> omega

theorem key_eq_negMax (f : Nat) (h : key f = -9218868437227405311) : f = negMax := by
  unfold key at h
  unfold negMax
  split at h <;> omega

theorem clamp_agrees (f : Nat) : Fq.clamp f = Gojq.clamp f := by
  unfold Fq.clamp Gojq.clamp fmin fmax
  rw [key_posMax, key_negMax]
  by_cases h1 : key f ≥ 9218868437227405311
  · -- at or above MaxFloat64 (+Inf)
    have hgt : key f > -9218868437227405311 := by omega
    simp only [h1, hgt, if_true]
    by_cases h2 : key f = 9218868437227405311
    · have := key_eq_posMax f h2
      subst this
      simp [key_posMax]
    · have h3 : key f > 9218868437227405311 := by omega
      have h4 : ¬ key f < 9218868437227405311 := by omega
      simp [h3, h4]
  · by_cases h2 : key f ≤ -9218868437227405311
    · have hn : ¬ key f > -9218868437227405311 := by omega
      simp only [h1, h2, hn, if_true, if_false]
      by_cases h3 : key f = -9218868437227405311
      · have := key_eq_negMax f h3
        subst this
        simp [key_negMax]
      · have h4 : key f < -9218868437227405311 := by omega
        simp [h4, key_negMax]
    · have hgt : key f > -9218868437227405311 := by omega
      have hlt : key f < 9218868437227405311 := by omega
      simp [h1, h2, hgt, hlt]

theorem floatText_agrees (af : Nat → Bool → List Nat) (f : Nat) : Fq.floatText af f = Gojq.floatText af f := by
  unfold Fq.floatText Gojq.floatText
  rw [clamp_agrees]

/-! ### compact: colorjson with Indent = 0 writes what the library encoder writes -/

mutual
theorem compact_eq (t : Esc) (af : Nat → Bool → List Nat) (tab : Bool) :
    ∀ (v : JV) (depth : Nat), Fq.encode t af tab 0 depth v = Gojq.encode t af v
  | .null, _ => by simp [Fq.encode, Gojq.encode]
  | .bool true, _ => by simp [Fq.encode, Gojq.encode]
  | .bool false, _ => by simp [Fq.encode, Gojq.encode]
  | .int _, _ => by simp [Fq.encode, Gojq.encode]
  | .big _, _ => by simp [Fq.encode, Gojq.encode]
  | .float f, _ => by simp [Fq.encode, Gojq.encode, floatText_agrees]
  | .str _, _ => by simp [Fq.encode, Gojq.encode]
  | .arr xs, depth => by simp [Fq.encode, Gojq.encode, compact_elems t af tab xs depth true]
  | .obj kvs, depth => by simp [Fq.encode, Gojq.encode, compact_members t af tab kvs depth true]
theorem compact_elems (t : Esc) (af : Nat → Bool → List Nat) (tab : Bool) :
    ∀ (xs : List JV) (depth : Nat) (first : Bool),
      Fq.encodeArray t af tab 0 depth first xs = Gojq.encodeArray t af first xs
  | [], _, _ => by simp [Fq.encodeArray, Gojq.encodeArray]
  | x :: xs, depth, first => by
    simp [Fq.encodeArray, Gojq.encodeArray, compact_eq t af tab x depth, compact_elems t af tab xs depth false]
theorem compact_members (t : Esc) (af : Nat → Bool → List Nat) (tab : Bool) :
    ∀ (kvs : List (List Nat × JV)) (depth : Nat) (first : Bool),
      Fq.encodeMap t af tab 0 depth first kvs = Gojq.encodeObject t af first kvs
  | [], _, _ => by simp [Fq.encodeMap, Gojq.encodeObject]
  | (k, v) :: kvs, depth, first => by
    simp [Fq.encodeMap, Gojq.encodeObject, compact_eq t af tab v depth, compact_members t af tab kvs depth false]
end

/-! ### indented: colorjson is the encoder of the reference COMMAND -/

theorem isEmpty_length {α} (l : List α) : (!l.isEmpty) = decide (l.length > 0) := by
  cases l <;> simp

mutual
theorem cli_eq (t : Esc) (af : Nat → Bool → List Nat) (tab : Bool) (indent : Nat) :
    ∀ (v : JV) (depth : Nat), Fq.encode t af tab indent depth v = GojqCli.encode t af tab indent depth v
  | .null, _ => by simp [Fq.encode, GojqCli.encode]
  | .bool true, _ => by simp [Fq.encode, GojqCli.encode]
  | .bool false, _ => by simp [Fq.encode, GojqCli.encode]
  | .int _, _ => by simp [Fq.encode, GojqCli.encode]
  | .big _, _ => by simp [Fq.encode, GojqCli.encode]
  | .float f, _ => by simp [Fq.encode, GojqCli.encode, floatText_agrees]
  | .str _, _ => by simp [Fq.encode, GojqCli.encode]
  | .arr xs, depth => by
    simp only [Fq.encode, GojqCli.encode, cli_elems t af tab indent xs (depth + indent) true, isEmpty_length]
    simp
  | .obj kvs, depth => by
    simp only [Fq.encode, GojqCli.encode, cli_members t af tab indent kvs (depth + indent) true, isEmpty_length]
    simp
theorem cli_elems (t : Esc) (af : Nat → Bool → List Nat) (tab : Bool) (indent : Nat) :
    ∀ (xs : List JV) (depth : Nat) (first : Bool),
      Fq.encodeArray t af tab indent depth first xs = GojqCli.encodeArray t af tab indent depth first xs
  | [], _, _ => by simp [Fq.encodeArray, GojqCli.encodeArray]
  | x :: xs, depth, first => by
    simp [Fq.encodeArray, GojqCli.encodeArray, cli_eq t af tab indent x depth, cli_elems t af tab indent xs depth false]
theorem cli_members (t : Esc) (af : Nat → Bool → List Nat) (tab : Bool) (indent : Nat) :
    ∀ (kvs : List (List Nat × JV)) (depth : Nat) (first : Bool),
      Fq.encodeMap t af tab indent depth first kvs = GojqCli.encodeObject t af tab indent depth first kvs
  | [], _, _ => by simp [Fq.encodeMap, GojqCli.encodeObject]
  | (k, v) :: kvs, depth, first => by
    simp [Fq.encodeMap, GojqCli.encodeObject, cli_eq t af tab indent v depth, cli_members t af tab indent kvs depth false]
end

/-- `writeIndent`: a line feed and exactly `depth` tabs/spaces (the doubling copy loop, for every depth) -/
theorem nl_spec (tab : Bool) (depth : Nat) : nl tab depth = 10 :: List.replicate depth (if tab then 9 else 32) := by
  unfold nl
  rw [Proofs.C10Json.writeIndentBuf_spec]
  cases tab <;> simp

/-! ### the key order is a strict total order; sorted arrangements are unique -/

theorem ltBytes_irrefl : ∀ a, ltBytes a a = false
  | [] => rfl
  | x :: xs => by simp [ltBytes, ltBytes_irrefl xs]

theorem ltBytes_trans : ∀ a b c, ltBytes a b = true → ltBytes b c = true → ltBytes a c = true
  | [], [], _, h, _ => by simp [ltBytes] at h
  | [], _ :: _, [], _, h => by simp [ltBytes] at h
  | [], _ :: _, _ :: _, _, _ => by simp [ltBytes]
  | _ :: _, [], _, h, _ => by simp [ltBytes] at h
  | _ :: _, _ :: _, [], _, h => by simp [ltBytes] at h
  | x :: xs, y :: ys, z :: zs, h1, h2 => by
    simp only [ltBytes] at h1 h2 ⊢
    by_cases hxy : x < y
    · by_cases hyz : y < z
      · have : x < z := by omega
        simp [this]
      · by_cases hzy : z < y
        · simp [hyz, hzy] at h2
        · have : y = z := by omega
          subst this; simp [hxy]
    · by_cases hyx : y < x
      · simp [hxy, hyx] at h1
      · have hxy' : x = y := by omega
        subst hxy'
        simp only [hxy, if_false] at h1
        by_cases hyz : x < z
        · simp [hyz]
        · by_cases hzy : z < x
          · simp [hyz, hzy] at h2
          · simp only [hyz, hzy, if_false] at h2 ⊢
            exact ltBytes_trans xs ys zs h1 h2

theorem ltBytes_asymm (a b : List Nat) (h : ltBytes a b = true) : ltBytes b a = false := by
  cases h' : ltBytes b a with
  | false => rfl
  | true => have := ltBytes_trans a b a h h'; rw [ltBytes_irrefl] at this; cases this

theorem ltBytes_total : ∀ a b, ltBytes a b = false → ltBytes b a = false → a = b
  | [], [], _, _ => rfl
  | [], _ :: _, h, _ => by simp [ltBytes] at h
  | _ :: _, [], _, h => by simp [ltBytes] at h
  | x :: xs, y :: ys, h1, h2 => by
    simp only [ltBytes] at h1 h2
    by_cases hxy : x < y
    · simp [hxy] at h1
    · by_cases hyx : y < x
      · simp [hyx] at h2
      · have : x = y := by omega
        subst this
        simp only [hxy, if_false] at h1 h2
        rw [ltBytes_total xs ys h1 h2]

/-- strictly increasing keys -/
def Sorted (l : List (List Nat × JV)) : Prop := l.Pairwise (fun a b => ltBytes a.1 b.1 = true)

theorem insertKey_perm (kv : List Nat × JV) : ∀ l, (insertKey kv l).Perm (kv :: l)
  | [] => by simp [insertKey]
  | x :: xs => by
    simp only [insertKey]
    split
    · exact List.Perm.refl _
    · exact ((insertKey_perm kv xs).cons x).trans (List.Perm.swap kv x xs)

theorem sortKeys_perm : ∀ l, (sortKeys l).Perm l
  | [] => by simp [sortKeys]
  | x :: xs => by
    simp only [sortKeys]
    exact (insertKey_perm x (sortKeys xs)).trans ((sortKeys_perm xs).cons x)

theorem insertKey_sorted (kv : List Nat × JV) : ∀ l, Sorted l → (∀ x ∈ l, x.1 ≠ kv.1) → Sorted (insertKey kv l)
  | [], _, _ => by simp [insertKey, Sorted]
  | x :: xs, hs, hne => by
    simp only [insertKey]
    have hs' := List.pairwise_cons.mp hs
    by_cases hlt : ltBytes kv.1 x.1 = true
    · simp only [hlt, if_true]
      refine List.pairwise_cons.mpr ⟨?_, hs⟩
      intro y hy
      rcases List.mem_cons.mp hy with rfl | hy
      · exact hlt
      · exact ltBytes_trans _ _ _ hlt (hs'.1 y hy)
    · simp only [hlt]
      have hlt' : ltBytes kv.1 x.1 = false := by simpa using hlt
      have hxk : ltBytes x.1 kv.1 = true := by
        cases h : ltBytes x.1 kv.1 with
        | true => rfl
        | false => exact absurd (ltBytes_total _ _ h hlt') (hne x (List.mem_cons_self))
      refine List.pairwise_cons.mpr ⟨?_, insertKey_sorted kv xs hs'.2 (fun y hy => hne y (List.mem_cons_of_mem _ hy))⟩
      intro y hy
      have := (insertKey_perm kv xs).subset hy
      rcases List.mem_cons.mp this with rfl | hy'
      · exact hxk
      · exact hs'.1 y hy'

/-- on distinct keys the sort returns a strictly increasing arrangement -/
theorem sortKeys_sorted : ∀ l : List (List Nat × JV), (l.map (·.1)).Nodup → Sorted (sortKeys l)
  | [], _ => by simp [sortKeys, Sorted]
  | x :: xs, hnd => by
    simp only [sortKeys]
    have hnd' := List.nodup_cons.mp hnd
    refine insertKey_sorted x _ (sortKeys_sorted xs hnd'.2) ?_
    intro y hy heq
    have hy' := (sortKeys_perm xs).subset hy
    have hm : y.1 ∈ xs.map (·.1) := List.mem_map_of_mem hy'
    rw [heq] at hm
    exact hnd'.1 hm

/-- a list has at most one strictly increasing arrangement -/
theorem sorted_perm_unique (l₁ l₂ : List (List Nat × JV)) (hp : l₁.Perm l₂) (h₁ : Sorted l₁) (h₂ : Sorted l₂) :
    l₁ = l₂ :=
  List.Perm.eq_of_pairwise
    (fun a b _ _ hab hba => by rw [ltBytes_asymm _ _ hab] at hba; cases hba) h₁ h₂ hp

/-! ### fromjson: framing -/
open FqModel.C07Enc.Num

theorem fqLoop_value_cons (v : Nat) : ∀ (ds : List Dec) (acc : List Nat),
    (fqLoop ds (v :: acc)).1 = v :: (fqLoop ds acc).1 ∧ (fqLoop ds (v :: acc)).2 = (fqLoop ds acc).2
  | [], acc => by simp [fqLoop]
  | .value w :: rest, acc => by
    simp only [fqLoop, List.cons_append]
    exact fqLoop_value_cons v rest (acc ++ [w])
  | .eof :: _, acc => by simp [fqLoop]
  | .err :: _, acc => by simp [fqLoop]

end Proofs.C07Enc
