import FqModel.JsonStr
/-! helper lemmas for the encoder part of Props/C07.lean -/
namespace Proofs.C07Json
open FqModel.JsonStr FqModel.Gen.Encoder

theorem unescape_decodesTo (e : List Nat) (v : Nat) (h : decodesTo e v = true) (rest : List Nat) :
    unescape (e ++ rest) = (unescape rest).map (v :: ·) := by
  unfold decodesTo at h
  split at h
  · -- [c]
    rename_i c
    simp only [Bool.and_eq_true, bne_iff_ne, ne_eq, Bool.not_eq_true', decide_eq_false_iff_not, beq_iff_eq] at h
    obtain ⟨⟨⟨h92, h32⟩, h34⟩, hv⟩ := h
    subst hv
    show unescape (c :: rest) = _
    rw [unescape.eq_def]
    simp [h92, h32, h34]
  · -- [92, x]
    rename_i x
    simp only [Bool.and_eq_true, bne_iff_ne, ne_eq, beq_iff_eq] at h
    obtain ⟨h117, hs⟩ := h
    show unescape (92 :: x :: rest) = _
    rw [unescape.eq_def]
    simp [h117, hs]
  · -- [92, 117, h1, h2, h3, h4]
    rename_i h1 h2 h3 h4
    cases ha : hexVal h1 <;> cases hb : hexVal h2 <;> cases hc : hexVal h3 <;> cases hd : hexVal h4 <;>
      simp [ha, hb, hc, hd] at h
    subst h
    show unescape (92 :: 117 :: h1 :: h2 :: h3 :: h4 :: rest) = _
    rw [unescape.eq_def]
    simp [ha, hb, hc, hd]
  · simp at h

def Ch.wf : Ch → Prop
  | .ascii b => b < 128
  | .rune c => 128 ≤ c
  | .bad => True

theorem escCh_decodesTo (t : Esc) (ht : tableOk t = true) (ch : Ch) (hwf : Ch.wf ch) :
    decodesTo (escCh t ch) ch.value = true := by
  cases ch with
  | ascii b =>
    simp only [tableOk, Bool.and_eq_true, List.all_eq_true, List.mem_range] at ht
    exact ht.1.1 b hwf
  | rune c =>
    have h : 128 ≤ c := hwf
    have h1 : c ≠ 92 := by omega
    have h2 : ¬ c < 32 := by omega
    have h3 : c ≠ 34 := by omega
    simp [escCh, Ch.value, decodesTo, h1, h2, h3]
  | bad =>
    show decodesTo replacement 0xfffd = true
    decide

theorem encode_roundtrip (t : Esc) (ht : tableOk t = true) :
    ∀ (s : List Ch), (∀ ch ∈ s, Ch.wf ch) → unescape (encode t s) = some (s.map Ch.value) := by
  intro s
  induction s with
  | nil => intro _; rfl
  | cons ch rest ih =>
    intro hwf
    have h1 := escCh_decodesTo t ht ch (hwf ch (List.mem_cons_self ..))
    have h2 := ih (fun c hc => hwf c (List.mem_cons_of_mem _ hc))
    simp only [encode, List.flatMap_cons, List.map_cons] at *
    rw [unescape_decodesTo _ _ h1, h2]
    rfl

end Proofs.C07Json
