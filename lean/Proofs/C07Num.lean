import FqModel.C07Enc
/-
  C07 — the number-token grammar: the reader `Num.parse` inverts `Tok.text` on well-formed tokens.
-/
namespace Proofs.C07Num
open FqModel.C07Enc.Num

/-- the next byte does not continue a run of digits -/
def stops : List Nat → Bool
  | [] => true
  | c :: _ => !(48 ≤ c && c ≤ 57)

theorem takeDigits_digitBytes : ∀ (ds rest : List Nat), ds.all (· < 10) = true → stops rest = true →
    takeDigits (digitBytes ds ++ rest) = (ds, rest)
  | [], [], _, _ => rfl
  | [], c :: r, _, h => by
    simp only [stops, Bool.not_eq_true'] at h
    simp [digitBytes, takeDigits, h]
  | d :: ds, rest, h, hs => by
    simp only [List.all_cons, Bool.and_eq_true, decide_eq_true_eq] at h
    have ih := takeDigits_digitBytes ds rest h.2 hs
    simp only [digitBytes] at ih
    have h1 : 48 ≤ d + 48 := by omega
    have h2 : d + 48 ≤ 57 := by omega
    simp [digitBytes, takeDigits, h1, h2, ih]

theorem digitsOk_iff (ds : List Nat) : digitsOk ds = true ↔ ds ≠ [] ∧ ds.all (· < 10) = true := by
  cases ds <;> simp [digitsOk]

/-- a non-empty run of digit bytes starts with a byte in 48..57 -/
theorem digitBytes_head (ds : List Nat) (hne : ds ≠ []) (h : ds.all (· < 10) = true) :
    ∃ d r, digitBytes ds = d :: r ∧ 48 ≤ d ∧ d ≤ 57 := by
  cases ds with
  | nil => exact absurd rfl hne
  | cons d ds' =>
    simp only [List.all_cons, Bool.and_eq_true, decide_eq_true_eq] at h
    exact ⟨d + 48, digitBytes ds', by simp [digitBytes], by omega, by omega⟩

def expText : Option (Bool × Nat × List Nat) → List Nat
  | none => []
  | some (up, s, ds) => (if up then 69 else 101) :: ((if s = 1 then [43] else if s = 2 then [45] else []) ++ digitBytes ds)

def fracText : Option (List Nat) → List Nat
  | none => []
  | some ds => 46 :: digitBytes ds

theorem text_eq (t : Tok) : t.text = (if t.neg then [45] else []) ++ digitBytes t.int ++ fracText t.frac ++ expText t.exp := by
  unfold Tok.text fracText expText
  cases t.frac <;> cases t.exp <;> rfl

theorem stops_expText (e : Option (Bool × Nat × List Nat)) : stops (expText e) = true := by
  match e with
  | none => rfl
  | some (up, _, _) => cases up <;> simp [expText, stops]

theorem stops_frac_exp (f : Option (List Nat)) (e : Option (Bool × Nat × List Nat)) : stops (fracText f ++ expText e) = true := by
  match f with
  | none => simpa [fracText] using stops_expText e
  | some _ => simp [fracText, stops]

theorem splitSign_text (neg : Bool) (i rest : List Nat) (hne : i ≠ []) (hi : i.all (· < 10) = true) :
    splitSign ((if neg then [45] else []) ++ digitBytes i ++ rest) = (neg, digitBytes i ++ rest) := by
  cases neg
  · obtain ⟨d, r, hd, h1, h2⟩ := digitBytes_head i hne hi
    simp only [Bool.false_eq_true, if_false, List.nil_append, hd, List.cons_append]
    unfold splitSign
    split
    · rename_i heq; simp only [List.cons.injEq] at heq; omega
    · rfl
  · simp [splitSign]

theorem parseFrac_text (f : Option (List Nat)) (e : Option (Bool × Nat × List Nat))
    (hf : (match f with | none => true | some ds => digitsOk ds) = true) :
    parseFrac (fracText f ++ expText e) = some (f, expText e) := by
  match f, hf with
  | some fd, hf =>
    have hf' := (digitsOk_iff fd).mp hf
    have hne : fd.isEmpty = false := by cases fd <;> simp_all
    simp only [fracText, List.cons_append, parseFrac]
    rw [takeDigits_digitBytes fd _ hf'.2 (stops_expText e)]
    simp [hne]
  | none, _ =>
    simp only [fracText, List.nil_append]
    match e with
    | none => rfl
    | some (up, _, _) =>
      cases up
      · simp only [expText, Bool.false_eq_true, if_false]; unfold parseFrac; split
        · rename_i heq; simp only [List.cons.injEq] at heq; omega
        · rfl
      · simp only [expText, if_true]; unfold parseFrac; split
        · rename_i heq; simp only [List.cons.injEq] at heq; omega
        · rfl

theorem splitExpSign_text (s : Nat) (ds : List Nat) (hs : s < 3) (hne : ds ≠ []) (hd : ds.all (· < 10) = true) :
    splitExpSign ((if s = 1 then [43] else if s = 2 then [45] else []) ++ digitBytes ds) = (s, digitBytes ds) := by
  by_cases h1 : s = 1
  · simp [h1, splitExpSign]
  · by_cases h2 : s = 2
    · simp [h2, splitExpSign]
    · have h0 : s = 0 := by omega
      subst h0
      obtain ⟨d, r, hdb, hl, hu⟩ := digitBytes_head ds hne hd
      simp only [show ((0 : Nat) = 1) = False by simp, show ((0 : Nat) = 2) = False by simp, if_false, List.nil_append, hdb]
      unfold splitExpSign
      split
      · rename_i heq; simp only [List.cons.injEq] at heq; omega
      · rename_i heq; simp only [List.cons.injEq] at heq; omega
      · rfl

theorem parseExp_text (e : Option (Bool × Nat × List Nat))
    (he : (match e with | none => true | some (_, s, ds) => decide (s < 3) && digitsOk ds) = true) :
    parseExp (expText e) = some e := by
  match e, he with
  | none, _ => rfl
  | some (up, s, ds), he =>
    simp only [Bool.and_eq_true, decide_eq_true_eq] at he
    have hd := (digitsOk_iff ds).mp he.2
    have hc : ((if up then 69 else 101 : Nat) = 101 || (if up then 69 else 101 : Nat) = 69) = true := by cases up <;> simp
    have hup : ((if up then 69 else 101 : Nat) == 69) = up := by cases up <;> simp
    have hne : ds.isEmpty = false := by cases ds <;> simp_all
    have htd := takeDigits_digitBytes ds [] hd.2 rfl
    simp only [List.append_nil] at htd
    simp only [expText, parseExp, hc, if_true, splitExpSign_text s ds he.1 hd.1 hd.2, htd, hne, hup]
    simp

/-- THE READER INVERTS THE PRINTER: every well-formed token is read back from its text -/
theorem parse_text (t : Tok) (hwf : t.wf = true) : parse t.text = some t := by
  obtain ⟨neg, i, f, e⟩ := t
  simp only [Tok.wf, Bool.and_eq_true] at hwf
  obtain ⟨⟨⟨hi, hz⟩, hf⟩, he⟩ := hwf
  have hi' := (digitsOk_iff i).mp hi
  rw [text_eq]
  simp only
  unfold parse
  simp only
  have hs := splitSign_text neg i (fracText f ++ expText e) hi'.1 hi'.2
  simp only [List.append_assoc] at hs ⊢
  rw [hs]
  simp only
  rw [takeDigits_digitBytes i _ hi'.2 (stops_frac_exp f e)]
  simp only [hi, hz, Bool.and_self, Bool.not_true, Bool.false_eq_true, if_false]
  rw [parseFrac_text f e hf]
  simp only
  rw [parseExp_text e he]
  rfl

end Proofs.C07Num
