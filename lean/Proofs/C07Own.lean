import FqModel.C07Own
/-! helper lemmas for Props.C07 (fq's own value types) -/
namespace Proofs.C07Own
open FqModel.C07Own

theorem clamp_bounds (i mn mx : Int) (h : mn ≤ mx) : mn ≤ clampIndex i mn mx ∧ clampIndex i mn mx ≤ mx := by
  unfold clampIndex
  simp only []
  split <;> split <;> (try split) <;> omega

theorem bounds_ok (len : Nat) (a b : Option Int) :
    0 ≤ (bounds len a b).1 ∧ (bounds len a b).1 ≤ (bounds len a b).2 ∧ (bounds len a b).2 ≤ (len : Int) := by
  unfold bounds
  cases a <;> cases b <;> simp only []
  · omega
  · have := clamp_bounds ‹Int› 0 len (by omega); omega
  · have := clamp_bounds ‹Int› 0 len (by omega); omega
  · rename_i x y
    have h1 := clamp_bounds x 0 len (by omega)
    have h2 := clamp_bounds y (clampIndex x 0 len) len h1.2
    omega

theorem bytes_append {α : Type} (enc : Nat → List α) (x y : List Nat) : bytes enc (x ++ y) = bytes enc x ++ bytes enc y := by
  simp [bytes, List.flatMap_append]

theorem rangeFind_spec {α : Type} (enc : Nat → List α) (s : List Nat) (n : Nat) (i : Nat) (h : n < s.length) :
    rangeFind enc s (n : Int) i = some (i + (bytes enc (s.take n)).length) := by
  induction s generalizing n i with
  | nil => simp at h
  | cons c cs ih =>
    cases n with
    | zero => simp [rangeFind, bytes]
    | succ m =>
      have hm : m < cs.length := by simpa using h
      have : ¬ (((m + 1 : Nat) : Int) - 1 < 0) := by omega
      simp only [rangeFind, this, if_false]
      have e : ((m + 1 : Nat) : Int) - 1 = (m : Int) := by omega
      rw [e, ih m _ hm]
      simp [bytes, List.flatMap_cons, Nat.add_assoc]

theorem byteOff_spec {α : Type} (enc : Nat → List α) (s : List Nat) (k : Nat) (h : k ≤ s.length) :
    byteOff enc s (k : Int) = some (bytes enc (s.take k)).length := by
  unfold byteOff
  by_cases hk : k < s.length
  · have : ((k : Int) < (s.length : Int)) := by omega
    simp only [this, if_true]
    rw [rangeFind_spec enc s k 0 hk]; simp
  · have hk' : k = s.length := by omega
    have : ¬ ((k : Int) < (s.length : Int)) := by omega
    simp only [this, if_false]
    subst hk'; simp

theorem slice_aux {α : Type} (A B C : List α) :
    ((A ++ (B ++ C)).drop A.length).take ((A ++ B).length - A.length) = B := by
  simp

theorem slice_bytes {α : Type} (enc : Nat → List α) (s : List Nat) (a b : Nat) (hab : a ≤ b) (hb : b ≤ s.length) :
    ((bytes enc s).drop (bytes enc (s.take a)).length).take ((bytes enc (s.take b)).length - (bytes enc (s.take a)).length)
      = bytes enc ((s.drop a).take (b - a)) := by
  have e1 : s = s.take a ++ ((s.drop a).take (b - a) ++ (s.drop a).drop (b - a)) := by
    rw [List.take_append_drop, List.take_append_drop]
  have e2 : s.take b = s.take a ++ (s.drop a).take (b - a) := by
    have : b = a + (b - a) := by omega
    conv => lhs; rw [this]
    exact List.take_add
  have hs : bytes enc s = bytes enc (s.take a) ++ (bytes enc ((s.drop a).take (b - a)) ++ bytes enc ((s.drop a).drop (b - a))) := by
    rw [← bytes_append, ← bytes_append, ← e1]
  rw [e2, bytes_append, hs]
  exact slice_aux _ _ _

end Proofs.C07Own
