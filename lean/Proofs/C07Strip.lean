import FqModel.C07Enc
import Proofs.C07Enc
/-
  C07 — the white-space law: fq's indented text with the insignificant white space removed is the reference
  encoder's compact text.
-/
namespace Proofs.C07Strip
open FqModel FqModel.C07Enc FqModel.JsonStr Proofs.C07Enc
open FqModel.Gen.Encoder (Esc)

/-- neither white space nor a quote -/
def plainCh (c : Nat) : Bool := !isWs c && c != 34

theorem strip_plain_cons (c : Nat) (hc : plainCh c = true) (rest : List Nat) :
    strip false false (c :: rest) = c :: strip false false rest := by
  simp only [plainCh, Bool.and_eq_true, Bool.not_eq_true', bne_iff_ne, ne_eq] at hc
  simp [strip, hc.1, hc.2]

theorem strip_plain : ∀ (p rest : List Nat), p.all plainCh = true →
    strip false false (p ++ rest) = p ++ strip false false rest
  | [], _, _ => rfl
  | c :: p, rest, h => by
    simp only [List.all_cons, Bool.and_eq_true] at h
    rw [List.cons_append, strip_plain_cons c h.1, strip_plain p rest h.2, List.cons_append]

theorem strip_ws : ∀ (p rest : List Nat), p.all isWs = true → strip false false (p ++ rest) = strip false false rest
  | [], _, _ => rfl
  | c :: p, rest, h => by
    simp only [List.all_cons, Bool.and_eq_true] at h
    have hne : c ≠ 34 := by
      intro hc; subst hc; exact absurd h.1 (by decide)
    rw [List.cons_append]
    simp only [strip, hne, if_false, h.1, if_true]
    exact strip_ws p rest h.2

/-- scan inside a string: the state (after a backslash?) after `p`; `none` if an unescaped quote ends it -/
def runIn : Bool → List Nat → Option Bool
  | e, [] => some e
  | true, _ :: r => runIn false r
  | false, c :: r => if c = 92 then runIn true r else if c = 34 then none else runIn false r

theorem strip_in : ∀ (p rest : List Nat) (e e' : Bool), runIn e p = some e' →
    strip true e (p ++ rest) = p ++ strip true e' rest
  | [], _, e, e', h => by simp only [runIn, Option.some.injEq] at h; subst h; rfl
  | c :: p, rest, true, e', h => by
    simp only [runIn] at h
    simp only [List.cons_append, strip]
    rw [strip_in p rest false e' h]
  | c :: p, rest, false, e', h => by
    simp only [runIn] at h
    simp only [List.cons_append, strip]
    by_cases h92 : c = 92
    · simp only [h92, if_true] at h ⊢
      rw [strip_in p rest true e' h]
    · simp only [h92, if_false] at h ⊢
      by_cases h34 : c = 34
      · simp [h34] at h
      · simp only [h34, if_false] at h ⊢
        rw [strip_in p rest false e' h]

theorem runIn_append : ∀ (p q : List Nat) (e e' : Bool), runIn e p = some e' → runIn e (p ++ q) = runIn e' q
  | [], _, e, e', h => by simp only [runIn, Option.some.injEq] at h; subst h; rfl
  | c :: p, q, true, e', h => by
    simp only [runIn] at h
    simp only [List.cons_append, runIn]
    exact runIn_append p q false e' h
  | c :: p, q, false, e', h => by
    simp only [runIn] at h
    simp only [List.cons_append, runIn]
    by_cases h92 : c = 92
    · simp only [h92, if_true] at h ⊢
      exact runIn_append p q true e' h
    · simp only [h92, if_false] at h ⊢
      by_cases h34 : c = 34
      · simp [h34] at h
      · simp only [h34, if_false] at h ⊢
        exact runIn_append p q false e' h

/-- what the law needs of an escaping table, decidable: the replacement of every byte below 0x80 is ASCII and
    leaves a JSON reader inside the string, not after a backslash -/
def tableSafe (t : Esc) : Bool :=
  (List.range 128).all (fun b => (escByte t b).all (· < 128) && runIn false (escByte t b) == some false)

theorem flatMap_utf8_ascii : ∀ (p : List Nat), p.all (· < 128) = true → p.flatMap utf8Enc = p
  | [], _ => rfl
  | c :: p, h => by
    simp only [List.all_cons, Bool.and_eq_true, decide_eq_true_eq] at h
    have : utf8Enc c = [c] := by simp [utf8Enc, h.1]
    rw [List.flatMap_cons, this, flatMap_utf8_ascii p h.2]; rfl

theorem utf8Enc_safe (c : Nat) (hc : 128 ≤ c) : runIn false (utf8Enc c) = some false := by
  unfold utf8Enc
  have h1 : ¬ c < 128 := by omega
  simp only [h1, if_false]
  split
  · have a : 192 + c / 64 ≠ 92 := by omega
    have b : 192 + c / 64 ≠ 34 := by omega
    have d : 128 + c % 64 ≠ 92 := by omega
    have e : 128 + c % 64 ≠ 34 := by omega
    simp [runIn, a, b, d, e]
  · split
    · have a : 224 + c / 4096 ≠ 92 := by omega
      have b : 224 + c / 4096 ≠ 34 := by omega
      have d : 128 + c / 64 % 64 ≠ 92 := by omega
      have e : 128 + c / 64 % 64 ≠ 34 := by omega
      have f : 128 + c % 64 ≠ 92 := by omega
      have g : 128 + c % 64 ≠ 34 := by omega
      simp [runIn, a, b, d, e, f, g]
    · have a : 240 + c / 262144 ≠ 92 := by omega
      have b : 240 + c / 262144 ≠ 34 := by omega
      have d : 128 + c / 4096 % 64 ≠ 92 := by omega
      have e : 128 + c / 4096 % 64 ≠ 34 := by omega
      have d' : 128 + c / 64 % 64 ≠ 92 := by omega
      have e' : 128 + c / 64 % 64 ≠ 34 := by omega
      have f : 128 + c % 64 ≠ 92 := by omega
      have g : 128 + c % 64 ≠ 34 := by omega
      simp [runIn, a, b, d, e, d', e', f, g]

/-- a unit as the escaping loop can meet it -/
def unitOk : Ch → Prop
  | .ascii b => b < 128
  | .rune c => 128 ≤ c
  | .bad => True

theorem ite_some_inv {α} (cnd : Bool) (x y : α) (h : (if cnd = true then some x else none) = some y) :
    cnd = true ∧ x = y := by
  cases cnd <;> simp_all

theorem decodeMulti_ge (b0 : Nat) (rest : List Nat) (c n : Nat) (h : decodeMulti b0 rest = some (c, n)) : 128 ≤ c := by
  unfold decodeMulti at h
  by_cases h2 : (decide (0xC2 ≤ b0) && decide (b0 ≤ 0xDF)) = true
  · rw [if_pos h2] at h
    simp only [Bool.and_eq_true, decide_eq_true_eq] at h2
    cases rest with
    | nil => cases h
    | cons b1 r =>
      simp only at h
      obtain ⟨_, hx⟩ := ite_some_inv _ _ _ h
      simp only [Prod.mk.injEq] at hx
      omega
  · rw [if_neg h2] at h
    by_cases h3 : (decide (0xE0 ≤ b0) && decide (b0 ≤ 0xEF)) = true
    · rw [if_pos h3] at h
      simp only [Bool.and_eq_true, decide_eq_true_eq] at h3
      match rest, h with
      | [], h => cases h
      | [_], h => cases h
      | b1 :: b2 :: r, h =>
        simp only at h
        obtain ⟨hc, hx⟩ := ite_some_inv _ _ _ h
        simp only [Bool.and_eq_true, decide_eq_true_eq, isCont] at hc
        simp only [Prod.mk.injEq] at hx
        by_cases he : b0 = 224
        · simp only [he, if_true] at hc; omega
        · have : 225 ≤ b0 := by omega
          have : 64 ≤ (b0 - 224) * 64 := by omega
          have : 4096 ≤ ((b0 - 224) * 64 + (b1 - 128)) * 64 := by omega
          omega
    · rw [if_neg h3] at h
      by_cases h4 : (decide (0xF0 ≤ b0) && decide (b0 ≤ 0xF4)) = true
      · rw [if_pos h4] at h
        simp only [Bool.and_eq_true, decide_eq_true_eq] at h4
        match rest, h with
        | [], h => cases h
        | [_], h => cases h
        | [_, _], h => cases h
        | b1 :: b2 :: b3 :: r, h =>
          simp only at h
          obtain ⟨hc, hx⟩ := ite_some_inv _ _ _ h
          simp only [Bool.and_eq_true, decide_eq_true_eq, isCont] at hc
          simp only [Prod.mk.injEq] at hx
          by_cases he : b0 = 240
          · simp only [he, if_true] at hc
            have : 16 ≤ (b0 - 240) * 64 + (b1 - 128) := by omega
            omega
          · have : 64 ≤ (b0 - 240) * 64 + (b1 - 128) := by omega
            omega
      · rw [if_neg h4] at h
        cases h

theorem unitsF_ok : ∀ (f : Nat) (s : List Nat), ∀ u ∈ unitsF f s, unitOk u
  | 0, _, u, h => by simp [unitsF] at h
  | _ + 1, [], u, h => by simp [unitsF] at h
  | f + 1, b0 :: rest, u, h => by
    simp only [unitsF] at h
    split at h
    · rename_i hb
      rcases List.mem_cons.mp h with rfl | h'
      · exact hb
      · exact unitsF_ok f rest u h'
    · split at h
      · rename_i c n hd
        rcases List.mem_cons.mp h with rfl | h'
        · exact decodeMulti_ge b0 rest c n hd
        · exact unitsF_ok f _ u h'
      · rcases List.mem_cons.mp h with rfl | h'
        · trivial
        · exact unitsF_ok f rest u h'

theorem piece_safe (t : Esc) (ht : tableSafe t = true) (u : Ch) (hu : unitOk u) :
    runIn false ((escCh t u).flatMap utf8Enc) = some false := by
  cases u with
  | ascii b =>
    simp only [unitOk] at hu
    simp only [tableSafe, List.all_eq_true, List.mem_range, Bool.and_eq_true, beq_iff_eq] at ht
    have := ht b hu
    simp only [escCh]
    rw [flatMap_utf8_ascii _ (by simpa [List.all_eq_true] using this.1)]
    exact this.2
  | rune c =>
    simp only [unitOk] at hu
    simp only [escCh, List.flatMap_cons, List.flatMap_nil, List.append_nil]
    exact utf8Enc_safe c hu
  | bad =>
    show runIn false (replacement.flatMap utf8Enc) = some false
    decide

theorem body_safe (t : Esc) (ht : tableSafe t = true) : ∀ (us : List Ch), (∀ u ∈ us, unitOk u) →
    runIn false ((encode t us).flatMap utf8Enc) = some false
  | [], _ => rfl
  | u :: us, h => by
    have e : (encode t (u :: us)).flatMap utf8Enc = (escCh t u).flatMap utf8Enc ++ (encode t us).flatMap utf8Enc := by
      simp [encode, List.flatMap_append]
    rw [e, runIn_append _ _ false false (piece_safe t ht u (h u (List.mem_cons_self)))]
    exact body_safe t ht us (fun v hv => h v (List.mem_cons_of_mem _ hv))

/-- a string's text passes through unchanged and leaves the reader outside it -/
theorem strip_str (t : Esc) (ht : tableSafe t = true) (s rest : List Nat) :
    strip false false (strText t s ++ rest) = strText t s ++ strip false false rest := by
  have hb := body_safe t ht (units s) (unitsF_ok _ s)
  unfold strText
  simp only [List.cons_append, List.append_assoc]
  simp only [strip, if_true]
  rw [strip_in _ _ false false hb]
  simp [strip]

/-! ### scalars are plain -/

theorem intText_plain (i : Int) : (intText i).all plainCh = true := by
  have hd : ∀ k : Nat, ((FqModel.Dump.formatBase 10 k).map Char.toNat).all plainCh = true := by
    intro k
    simp only [List.all_map, List.all_eq_true, Function.comp]
    intro c hc
    have := Proofs.C10Json.formatBase10_all_digits k c hc
    simp only [C10Json.isDigit, decide_eq_true_eq] at this
    simp only [plainCh, isWs, Bool.and_eq_true, Bool.not_eq_true', bne_iff_ne, ne_eq, Bool.or_eq_false_iff, beq_eq_false_iff_ne]
    omega
  unfold intText C10Json.encInt
  split
  · simp only [List.map_cons, List.all_cons, Bool.and_eq_true]
    exact ⟨by decide, hd _⟩
  · exact hd _

theorem all_of_reverse {p : Nat → Bool} (l : List Nat) (h : l.reverse.all p = true) : l.all p = true := by
  simpa [List.all_eq_true] using h

theorem cleanExp_plain (buf : List Nat) (h : buf.all plainCh = true) : (cleanExp buf).all plainCh = true := by
  unfold cleanExp
  split
  · rename_i d r hr
    have h' : buf.reverse.all plainCh = true := by simpa [List.all_eq_true] using h
    rw [hr] at h'
    simp only [List.all_cons, Bool.and_eq_true] at h'
    apply all_of_reverse
    simp only [List.reverse_reverse, List.all_cons, Bool.and_eq_true]
    exact ⟨h'.1, h'.2.2.1, h'.2.2.2.1, h'.2.2.2.2⟩
  · exact h

theorem floatText_plain (af : Nat → Bool → List Nat) (haf : ∀ b e, (af b e).all plainCh = true) (f : Nat) :
    (Gojq.floatText af f).all plainCh = true := by
  unfold Gojq.floatText floatTail
  split
  · decide
  · simp only
    split
    · exact cleanExp_plain _ (haf _ _)
    · exact haf _ _

theorem nl_ws (tab : Bool) (d : Nat) : (nl tab d).all isWs = true := by
  rw [nl_spec]
  cases tab <;> simp [isWs, List.all_replicate]

theorem strip_optnl (c tab : Bool) (d : Nat) (rest : List Nat) :
    strip false false ((if c then nl tab d else []) ++ rest) = strip false false rest := by
  cases c
  · rfl
  · exact strip_ws _ _ (nl_ws tab d)

/-! ### the law, by induction on the value -/

section Law
variable (t : Esc) (af : Nat → Bool → List Nat) (tab : Bool) (n : Nat)
variable (ht : tableSafe t = true) (haf : ∀ b e, (af b e).all plainCh = true)
include ht haf

mutual
theorem strip_encode : ∀ (v : JV) (d : Nat) (rest : List Nat),
    strip false false (Fq.encode t af tab n d v ++ rest) = Gojq.encode t af v ++ strip false false rest
  | .null, _, rest => by simp only [Fq.encode, Gojq.encode]; exact strip_plain _ _ (by decide)
  | .bool true, _, rest => by simp only [Fq.encode, Gojq.encode]; exact strip_plain _ _ (by decide)
  | .bool false, _, rest => by simp only [Fq.encode, Gojq.encode]; exact strip_plain _ _ (by decide)
  | .int i, _, rest => by simp only [Fq.encode, Gojq.encode]; exact strip_plain _ _ (intText_plain i)
  | .big i, _, rest => by simp only [Fq.encode, Gojq.encode]; exact strip_plain _ _ (intText_plain i)
  | .float f, _, rest => by
    simp only [Fq.encode, Gojq.encode, floatText_agrees]
    exact strip_plain _ _ (floatText_plain af haf f)
  | .str s, _, rest => by simp only [Fq.encode, Gojq.encode]; exact strip_str t ht s rest
  | .arr xs, d, rest => by
    simp only [Fq.encode, Gojq.encode, List.cons_append, List.append_assoc, List.nil_append]
    rw [strip_plain_cons 91 (by decide), strip_elems xs (d + n) true, strip_optnl,
      strip_plain_cons 93 (by decide)]
  | .obj kvs, d, rest => by
    simp only [Fq.encode, Gojq.encode, List.cons_append, List.append_assoc, List.nil_append]
    rw [strip_plain_cons 123 (by decide), strip_members kvs (d + n) true, strip_optnl,
      strip_plain_cons 125 (by decide)]
theorem strip_elems : ∀ (xs : List JV) (d : Nat) (first : Bool) (rest : List Nat),
    strip false false (Fq.encodeArray t af tab n d first xs ++ rest)
      = Gojq.encodeArray t af first xs ++ strip false false rest
  | [], _, _, rest => by simp [Fq.encodeArray, Gojq.encodeArray]
  | x :: xs, d, first, rest => by
    simp only [Fq.encodeArray, Gojq.encodeArray, List.append_assoc]
    cases first
    · simp only [Bool.false_eq_true, if_false, List.cons_append, List.nil_append]
      rw [strip_plain_cons 44 (by decide), strip_optnl, strip_encode x d, strip_elems xs d false]
    · simp only [if_true, List.nil_append]
      rw [strip_optnl, strip_encode x d, strip_elems xs d false]
theorem strip_members : ∀ (kvs : List (List Nat × JV)) (d : Nat) (first : Bool) (rest : List Nat),
    strip false false (Fq.encodeMap t af tab n d first kvs ++ rest)
      = Gojq.encodeObject t af first kvs ++ strip false false rest
  | [], _, _, rest => by simp [Fq.encodeMap, Gojq.encodeObject]
  | (k, v) :: kvs, d, first, rest => by
    simp only [Fq.encodeMap, Gojq.encodeObject, List.append_assoc]
    have hsp : ∀ r, strip false false ((if (n != 0) = true then [32] else []) ++ r) = strip false false r := by
      intro r
      split
      · exact strip_ws [32] r (by decide)
      · rfl
    cases first
    · simp only [Bool.false_eq_true, if_false, List.cons_append, List.nil_append]
      rw [strip_plain_cons 44 (by decide), strip_optnl, strip_str t ht k, strip_plain_cons 58 (by decide), hsp,
        strip_encode v d, strip_members kvs d false]
    · simp only [if_true, List.nil_append, List.cons_append]
      rw [strip_optnl, strip_str t ht k, strip_plain_cons 58 (by decide), hsp,
        strip_encode v d, strip_members kvs d false]
end
end Law

end Proofs.C07Strip
