import FqModel.TryWrap
/-! parse ∘ print = id on terms without a dangling catch (helper for Props/C07.lean) -/
namespace Proofs.C07Wrap
open FqModel.TryWrap

def notCatchHead : List Tok → Prop
  | .catch_ :: _ => False
  | _ => True

theorem size_pos (t : Tm) : 0 < size t := by
  cases t <;> simp [size] <;> omega

theorem parse_print (t : Tm) : ∀ (fuel : Nat) (rest : List Tok), noDangling t = true → size t ≤ fuel →
    (endsOpen t = true → notCatchHead rest) → parse fuel (print t ++ rest) = some (t, rest) := by
  induction t with
  | atom n =>
    intro fuel rest _ hf _
    cases fuel with
    | zero => simp [size] at hf
    | succ f => simp [print, parse]
  | paren t ih =>
    intro fuel rest hnd hf _
    cases fuel with
    | zero => simp [size] at hf
    | succ f =>
      have h1 := ih f (.rp :: rest) (by simpa [noDangling] using hnd) (by simp [size] at hf; omega)
        (fun _ => by simp [notCatchHead])
      simp only [print, List.cons_append, List.append_assoc, List.nil_append, parse, h1]
  | tryn b ih =>
    intro fuel rest hnd hf hopen
    cases fuel with
    | zero => simp [size] at hf
    | succ f =>
      have hrest := hopen (by simp [endsOpen])
      have h1 := ih f rest (by simpa [noDangling] using hnd) (by simp [size] at hf; omega) (fun _ => hrest)
      simp only [print, List.cons_append, parse, h1]
      cases rest with
      | nil => rfl
      | cons tok rest' =>
        cases tok <;> first | rfl | (simp [notCatchHead] at hrest)
  | tryc b h ihb ihh =>
    intro fuel rest hnd hf hopen
    cases fuel with
    | zero => simp [size] at hf
    | succ f =>
      simp only [noDangling, Bool.and_eq_true, Bool.not_eq_true'] at hnd
      obtain ⟨⟨hb, hh⟩, hbo⟩ := hnd
      have h1 := ihb f (.catch_ :: (print h ++ rest)) hb (by simp [size] at hf; omega)
        (fun ho => by rw [hbo] at ho; exact absurd ho (by decide))
      have h2 := ihh f rest hh (by simp [size] at hf; omega) (fun ho => hopen (by simpa [endsOpen] using ho))
      simp only [print, List.cons_append, List.append_assoc, parse, h1, h2]

theorem parseAll_print (t : Tm) (hnd : noDangling t = true) (hlen : size t ≤ (print t).length + 1) :
    parseAll (print t) = some t := by
  have h := parse_print t ((print t).length + 1) [] hnd hlen (fun _ => by simp [notCatchHead])
  simp only [List.append_nil] at h
  simp [parseAll, h]

theorem size_le_length (t : Tm) : size t ≤ (print t).length := by
  induction t with
  | atom n => simp [size, print]
  | paren t ih => simp [size, print]; omega
  | tryn b ih => simp [size, print]; omega
  | tryc b h ihb ihh => simp [size, print]; omega

end Proofs.C07Wrap
