import FqModel.JQValue
/-!
  C08 — helper lemmas about FqModel/JQValue.lean (byte strings, Go maps as association lists,
  conversions). Property theorems are in Props/C08.lean.
-/
namespace Proofs.C08
open FqModel FqModel.JQValue

/-! ### byte strings -/

theorem bytesEq_iff (a b : Bytes) : bytesEq a b = true ↔ a = b := by
  induction a generalizing b with
  | nil => cases b <;> simp [bytesEq]
  | cons x xs ih =>
    cases b with
    | nil => simp [bytesEq]
    | cons y ys => simp [bytesEq, ih]

theorem bytesEq_refl (a : Bytes) : bytesEq a a = true := (bytesEq_iff a a).mpr rfl

theorem bytesEq_false_of_ne {a b : Bytes} (h : a ≠ b) : bytesEq a b = false := by
  cases hb : bytesEq a b with
  | false => rfl
  | true => exact absurd ((bytesEq_iff a b).mp hb) h

theorem bytesLt_irrefl (a : Bytes) : bytesLt a a = false := by
  induction a with
  | nil => rfl
  | cons x xs ih => simp [bytesLt, ih]

/-! ### Go maps as association lists -/

theorem objGet_objSet_same {α} (k : Bytes) (v : α) (m : List (Bytes × α)) :
    objGet k (objSet k v m) = some v := by
  induction m with
  | nil => simp [objSet, objGet, bytesEq_refl]
  | cons kv rest ih =>
    obtain ⟨k', v'⟩ := kv
    simp only [objSet]
    split
    · simp [objGet, bytesEq_refl]
    · split
      · simp [objGet, bytesEq_refl]
      · rename_i h1 h2
        simp only [objGet]
        rw [show bytesEq k k' = false from by simpa using h2]
        simpa using ih

theorem objGet_objSet_other {α} (j k : Bytes) (v : α) (m : List (Bytes × α)) (h : j ≠ k) :
    objGet j (objSet k v m) = objGet j m := by
  induction m with
  | nil => simp [objSet, objGet, bytesEq_false_of_ne h]
  | cons kv rest ih =>
    obtain ⟨k', v'⟩ := kv
    simp only [objSet]
    split
    · simp [objGet, bytesEq_false_of_ne h]
    · split
      · rename_i h1 h2
        have hk : k = k' := (bytesEq_iff k k').mp h2
        subst hk
        simp [objGet, bytesEq_false_of_ne h]
      · simp only [objGet, ih]

/-- looking a key up in a map built by assignments: the last assignment of that key -/
theorem objGet_foldl {α} (j : Bytes) (kvs : List (Bytes × α)) (m : List (Bytes × α)) :
    (objGet j (kvs.foldl (fun m kv => objSet kv.1 kv.2 m) m)).isSome
      = ((objGet j m).isSome || kvs.any (fun kv => kv.1 == j)) := by
  induction kvs generalizing m with
  | nil => simp
  | cons kv rest ih =>
    simp only [List.foldl_cons, List.any_cons]
    rw [ih]
    by_cases h : j = kv.1
    · subst h
      simp [objGet_objSet_same]
    · rw [objGet_objSet_other j kv.1 kv.2 m h]
      have : (kv.1 == j) = false := by
        simp only [beq_eq_false_iff_ne, ne_eq]
        exact fun e => h e.symm
      simp [this]

theorem objHas_objOfList {α} (j : Bytes) (kvs : List (Bytes × α)) :
    objHas j (objOfList kvs) = kvs.any (fun kv => kv.1 == j) := by
  simp [objHas, objOfList, objGet_foldl, objGet]

/-- assigning a key that is not in the map adds exactly that pair -/
theorem objSet_perm {α} (k : Bytes) (v : α) (m : List (Bytes × α))
    (h : ∀ kv ∈ m, kv.1 ≠ k) :
    (objSet k v m).Perm ((k, v) :: m) := by
  induction m with
  | nil => simp [objSet]
  | cons kv rest ih =>
    obtain ⟨k', v'⟩ := kv
    simp only [objSet]
    split
    · exact List.Perm.refl _
    · split
      · rename_i h1 h2
        have hk : k = k' := (bytesEq_iff k k').mp h2
        exact absurd hk.symm (h (k', v') (by simp))
      · have ih' := ih (fun kv hkv => h kv (by simp [hkv]))
        exact (List.Perm.cons (k', v') ih').trans (List.Perm.swap (k, v) (k', v') _)

theorem foldl_objSet_perm {α} (kvs : List (Bytes × α)) (m : List (Bytes × α))
    (hnd : (kvs.map (·.1)).Nodup) (hdis : ∀ kv ∈ kvs, ∀ kv' ∈ m, kv'.1 ≠ kv.1) :
    (kvs.foldl (fun m kv => objSet kv.1 kv.2 m) m).Perm (m ++ kvs) := by
  induction kvs generalizing m with
  | nil => simp
  | cons kv rest ih =>
    simp only [List.foldl_cons]
    have hnd' : (rest.map (·.1)).Nodup := (List.nodup_cons.mp hnd).2
    have hnot : kv.1 ∉ rest.map (·.1) := (List.nodup_cons.mp hnd).1
    have hset := objSet_perm kv.1 kv.2 m (fun kv' h' => hdis kv (by simp) kv' h')
    have hdis' : ∀ x ∈ rest, ∀ kv' ∈ objSet kv.1 kv.2 m, kv'.1 ≠ x.1 := by
      intro x hx kv' hkv'
      have := hset.mem_iff.mp hkv'
      rcases List.mem_cons.mp this with h1 | h1
      · intro e
        apply hnot
        rw [h1] at e
        simp only at e
        rw [e]
        exact List.mem_map_of_mem hx
      · exact hdis x (by simp [hx]) kv' h1
    refine (ih (objSet kv.1 kv.2 m) hnd' hdis').trans ?_
    refine (List.Perm.append_right _ hset).trans ?_
    simp only [List.cons_append]
    exact (List.perm_middle).symm

/-- a map built from pairs with distinct keys holds exactly those pairs (in sorted order) -/
theorem objOfList_perm {α} (kvs : List (Bytes × α)) (hnd : (kvs.map (·.1)).Nodup) :
    (objOfList kvs).Perm kvs := by
  have := foldl_objSet_perm kvs [] hnd (by simp)
  simpa [objOfList] using this

/-- the keys of a map built from pairs with distinct keys are those keys (in some order) -/
theorem keys_objOfList_perm {α} (kvs : List (Bytes × α)) (hnd : (kvs.map (·.1)).Nodup) :
    ((objOfList kvs).map (·.1)).Perm (kvs.map (·.1)) :=
  (objOfList_perm kvs hnd).map _

theorem length_objOfList {α} (kvs : List (Bytes × α)) (hnd : (kvs.map (·.1)).Nodup) :
    (objOfList kvs).length = kvs.length :=
  (objOfList_perm kvs hnd).length_eq

/-! ### conversions -/

theorem ofJVs_length (xs : List JV) : (Val.ofJVs xs).length = xs.length := by
  induction xs with
  | nil => rfl
  | cons x xs ih => simp [Val.ofJVs, ih]

theorem ofJVkvs_length (kvs : List (Bytes × JV)) : (Val.ofJVkvs kvs).length = kvs.length := by
  induction kvs with
  | nil => rfl
  | cons kv kvs ih => obtain ⟨k, v⟩ := kv; simp [Val.ofJVkvs, ih]

theorem ofJVkvs_keys (kvs : List (Bytes × JV)) : (Val.ofJVkvs kvs).map (·.1) = kvs.map (·.1) := by
  induction kvs with
  | nil => rfl
  | cons kv kvs ih => obtain ⟨k, v⟩ := kv; simp [Val.ofJVkvs, ih]

theorem objGet_ofJVkvs (k : Bytes) (kvs : List (Bytes × JV)) :
    objGet k (Val.ofJVkvs kvs) = (objGet k kvs).map Val.ofJV := by
  induction kvs with
  | nil => rfl
  | cons kv kvs ih =>
    obtain ⟨k', v⟩ := kv
    simp only [Val.ofJVkvs, objGet]
    split <;> simp [ih]

theorem toValueList_length (es : List DV) : (DV.toValueList es).length = es.length := by
  induction es with
  | nil => rfl
  | cons e es ih => simp [DV.toValueList, ih]

theorem toValueFields_keys (fs : List (Bytes × DV)) : (DV.toValueFields fs).map (·.1) = fs.map (·.1) := by
  induction fs with
  | nil => rfl
  | cons f fs ih => obtain ⟨k, d⟩ := f; simp [DV.toValueFields, ih]

theorem toValueFields_length (fs : List (Bytes × DV)) : (DV.toValueFields fs).length = fs.length := by
  have := congrArg List.length (toValueFields_keys fs)
  simpa using this

theorem fieldGet_isSome (k : Bytes) (fs : List (Bytes × DV)) :
    (fieldGet k fs).isSome = fs.any (fun f => f.1 == k) := by
  induction fs with
  | nil => rfl
  | cons f fs ih =>
    obtain ⟨k', d⟩ := f
    simp only [fieldGet, List.any_cons]
    by_cases h : k = k'
    · subst h; simp [bytesEq_refl]
    · rw [bytesEq_false_of_ne h]
      have : (k' == k) = false := by
        simp only [beq_eq_false_iff_ne, ne_eq]; exact fun e => h e.symm
      simp [this, ih]

theorem any_key_toValueFields (k : Bytes) (fs : List (Bytes × DV)) :
    (DV.toValueFields fs).any (fun kv => kv.1 == k) = fs.any (fun f => f.1 == k) := by
  induction fs with
  | nil => rfl
  | cons f fs ih => obtain ⟨k', d⟩ := f; simp [DV.toValueFields, ih]

end Proofs.C08
