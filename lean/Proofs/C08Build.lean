import FqModel.JQValueBuild
import Proofs.C08
import Proofs.C08Methods
import Proofs.C08Plain
import Proofs.C08Order
import Proofs.C08Cmp
/-!
  C08 — trees as the decoder builds them (FqModel/JQValueBuild.lean): the invariant "at every struct the
  names of Children are pairwise distinct and ByName looks up exactly the children", its preservation
  by every decoder step (for the AddChild of /repo, forced or not), and what it buys: the ByName-reading
  and the Children-reading methods describe one tree (`CT.toDV`), to which the theorems of Props/C08 apply.
-/
namespace Proofs.C08
open FqModel FqModel.JQValue

/-! ### association lists: first-match lookup -/

theorem objGet_append {α} (k : Bytes) (xs ys : List (Bytes × α)) :
    objGet k (xs ++ ys) = (objGet k xs).or (objGet k ys) := by
  induction xs with
  | nil => simp [objGet]
  | cons x xs ih =>
    obtain ⟨k', v⟩ := x
    simp only [List.cons_append, objGet]
    split <;> simp [ih]

theorem objGet_none_iff {α} (k : Bytes) (xs : List (Bytes × α)) : objGet k xs = none ↔ k ∉ xs.map (·.1) := by
  induction xs with
  | nil => simp [objGet]
  | cons x xs ih =>
    obtain ⟨k', v⟩ := x
    simp only [objGet, List.map_cons, List.mem_cons, not_or]
    by_cases h : k = k'
    · subst h; simp [bytesEq_refl]
    · simp [bytesEq_false_of_ne h, ih, h]

theorem objGet_filter_same {α} (k : Bytes) (xs : List (Bytes × α)) :
    objGet k (xs.filter (fun f => !bytesEq f.1 k)) = none := by
  rw [objGet_none_iff]
  intro h
  obtain ⟨f, hf, hk⟩ := List.mem_map.mp h
  have := (List.mem_filter.mp hf).2
  rw [hk, bytesEq_refl] at this
  simp at this

theorem objGet_filter_other {α} (j k : Bytes) (xs : List (Bytes × α)) (h : j ≠ k) :
    objGet j (xs.filter (fun f => !bytesEq f.1 k)) = objGet j xs := by
  induction xs with
  | nil => rfl
  | cons x xs ih =>
    obtain ⟨k', v⟩ := x
    simp only [List.filter_cons]
    by_cases hk : k' = k
    · subst hk
      simp [bytesEq_refl, objGet, bytesEq_false_of_ne h, ih]
    · simp [bytesEq_false_of_ne hk, objGet, ih]

theorem objGet_map {α β} (g : α → β) (k : Bytes) (xs : List (Bytes × α)) :
    objGet k (xs.map (fun f => (f.1, g f.2))) = (objGet k xs).map g := by
  induction xs with
  | nil => rfl
  | cons x xs ih =>
    obtain ⟨k', v⟩ := x
    simp only [List.map_cons, objGet]
    split <;> simp [ih]

/-! ### `CT.toDV` -/

theorem toDVFields_eq_map (cs : List (Bytes × CT)) : CT.toDVFields cs = cs.map (fun f => (f.1, f.2.toDV)) := by
  induction cs with
  | nil => rfl
  | cons c cs ih => obtain ⟨k, c⟩ := c; simp [CT.toDVFields, ih]

theorem toDVList_eq_map (cs : List CT) : CT.toDVList cs = cs.map CT.toDV := by
  induction cs with
  | nil => rfl
  | cons c cs ih => simp [CT.toDVList, ih]

theorem toDVFields_keys (cs : List (Bytes × CT)) : (CT.toDVFields cs).map (·.1) = cs.map (·.1) := by
  rw [toDVFields_eq_map]; simp [Function.comp_def]

theorem fieldGet_toDVFields (k : Bytes) (cs : List (Bytes × CT)) :
    fieldGet k (CT.toDVFields cs) = (objGet k cs).map CT.toDV := by
  rw [fieldGet_eq_objGet, toDVFields_eq_map, objGet_map]

/-! ### the invariant -/

/-- one struct: the names of Children are pairwise distinct and ByName looks up exactly the children -/
def StructInv (cs bn : List (Bytes × CT)) : Prop :=
  (cs.map (·.1)).Nodup ∧ ∀ k, objGet k bn = objGet k cs

mutual
/-- … at every struct of the tree -/
def CT.InvDeep : CT → Prop
  | .struct cs bn => StructInv cs bn ∧ CT.InvDeepF cs
  | .array es => CT.InvDeepL es
  | .scalar _ _ _ => True
def CT.InvDeepL : List CT → Prop
  | [] => True
  | c :: cs => CT.InvDeep c ∧ CT.InvDeepL cs
def CT.InvDeepF : List (Bytes × CT) → Prop
  | [] => True
  | (_, c) :: cs => CT.InvDeep c ∧ CT.InvDeepF cs
end

theorem invDeepF_iff (cs : List (Bytes × CT)) : CT.InvDeepF cs ↔ ∀ f ∈ cs, CT.InvDeep f.2 := by
  induction cs with
  | nil => simp [CT.InvDeepF]
  | cons c cs ih => obtain ⟨k, c⟩ := c; simp [CT.InvDeepF, ih]

theorem invDeepL_iff (cs : List CT) : CT.InvDeepL cs ↔ ∀ c ∈ cs, CT.InvDeep c := by
  induction cs with
  | nil => simp [CT.InvDeepL]
  | cons c cs ih => simp [CT.InvDeepL, ih]

/-- the compound a decoder is filling -/
def Bld.Inv (b : Bld) : Prop :=
  (b.isArray = false → StructInv b.children b.byName) ∧ CT.InvDeepF b.children

theorem inv_newStruct : Bld.Inv Bld.newStruct :=
  ⟨fun _ => ⟨by simp [Bld.newStruct], fun _ => rfl⟩, by simp [Bld.newStruct, CT.InvDeepF]⟩

theorem inv_newArray : Bld.Inv Bld.newArray :=
  ⟨fun h => by simp [Bld.newArray] at h, by simp [Bld.newArray, CT.InvDeepF]⟩

theorem toCT_inv (b : Bld) (h : Bld.Inv b) : CT.InvDeep b.toCT := by
  unfold Bld.toCT
  by_cases ha : b.isArray = true
  · simp only [ha, if_true, CT.InvDeep]
    rw [invDeepL_iff]
    intro c hc
    obtain ⟨f, hf, rfl⟩ := List.mem_map.mp hc
    exact (invDeepF_iff _).mp h.2 f hf
  · have ha' : b.isArray = false := by simpa using ha
    simp only [ha', Bool.false_eq_true, if_false, CT.InvDeep]
    exact ⟨h.1 ha', h.2⟩

/-- `put` after AddChild's check (with `Fatalf`: a name that is in ByName never gets here) -/
theorem put_inv (b : Bld) (k : Bytes) (c : CT) (force : Bool) (h : Bld.Inv b) (hc : CT.InvDeep c)
    (hr : b.refuses .fatalf force k = false) : Bld.Inv (b.put k c) := by
  have hdeep : CT.InvDeepF (b.children ++ [(k, c)]) := by
    rw [invDeepF_iff]
    intro f hf
    rcases List.mem_append.mp hf with h1 | h1
    · exact (invDeepF_iff _).mp h.2 f h1
    · simp only [List.mem_singleton] at h1; subst h1; exact hc
  unfold Bld.put
  by_cases ha : b.isArray = true
  · simp only [ha, if_true]
    exact ⟨fun h' => by simp at h', hdeep⟩
  · have ha' : b.isArray = false := by simpa using ha
    simp only [ha', Bool.false_eq_true, if_false]
    refine ⟨fun _ => ?_, hdeep⟩
    obtain ⟨hnd, hidx⟩ := h.1 ha'
    have hn : objGet k b.byName = none := by
      simp only [Bld.refuses, ha'] at hr
      simpa using hr
    have hnot : k ∉ b.children.map (·.1) := by
      rw [← objGet_none_iff, ← hidx]; exact hn
    refine ⟨?_, ?_⟩
    · simp only [List.map_append, List.map_cons, List.map_nil]
      rw [List.nodup_append]
      refine ⟨hnd, by simp, ?_⟩
      intro a ha1 b1 hb
      simp only [List.mem_singleton] at hb
      subst hb
      intro e; subst e; exact hnot ha1
    · intro j
      rw [objGet_append]
      by_cases hj : j = k
      · subst hj
        rw [objGet_objSet_same, (objGet_none_iff j b.children).mpr hnot]
        simp [objGet, bytesEq_refl]
      · rw [objGet_objSet_other j k c _ hj, hidx j]
        simp [objGet, bytesEq_false_of_ne hj]

theorem addChild_inv (b b' : Bld) (k : Bytes) (c : CT) (force : Bool) (h : Bld.Inv b) (hc : CT.InvDeep c)
    (ha : b.addChild .fatalf force k c = some b') : Bld.Inv b' := by
  unfold Bld.addChild at ha
  split at ha
  · cases ha
  · rename_i hr
    cases ha
    exact put_inv b k c force h hc (by simpa using hr)

theorem remove_bld_inv (b b' : Bld) (k : Bytes) (h : Bld.Inv b) (hr : b.remove k = some b') : Bld.Inv b' := by
  unfold Bld.remove at hr
  split at hr
  · cases hr
  · cases hr
    refine ⟨fun ha => ?_, ?_⟩
    · obtain ⟨hnd, hidx⟩ := h.1 ha
      refine ⟨hnd.sublist (List.filter_sublist.map _), ?_⟩
      intro j
      by_cases hj : j = k
      · subst hj; rw [objGet_objDel_same, objGet_filter_same]
      · rw [objGet_objDel_other j k _ hj, objGet_filter_other j k _ hj, hidx j]
    · rw [invDeepF_iff]
      intro f hf
      exact (invDeepF_iff _).mp h.2 f (List.mem_filter.mp hf).1

theorem scalar_inv (k : SKind) (s : Option JV) (y : Bool) : CT.InvDeep (.scalar k s y) := by
  simp [CT.InvDeep]

theorem addAll_inv (force : Bool) : ∀ (cs : List (Bytes × CT)) (b : Bld), Bld.Inv b → CT.InvDeepF cs →
    Bld.Inv (Bld.addAll .fatalf force cs b).1
  | [], b, h, _ => by simpa [Bld.addAll] using h
  | (k, c) :: rest, b, h, hc => by
    simp only [CT.InvDeepF] at hc
    simp only [Bld.addAll]
    cases ha : b.addChild .fatalf force k c with
    | none => exact h
    | some b' => exact addAll_inv force rest b' (addChild_inv b b' k c force h hc.1 ha) hc.2

mutual
/-- every decoder step keeps the invariant — whatever `force` is, whether the step stops the decoder
    or not (AddChild of /repo: `Fatalf`) -/
theorem exec_inv (force : Bool) : ∀ (op : BOp) (b : Bld), Bld.Inv b → Bld.Inv (BOp.exec .fatalf force op b).1
  | .u8 n v, b, h => by
    simp only [BOp.exec]
    cases ha : b.addChild .fatalf force n (.scalar (.uint v) none false) with
    | none => exact h
    | some b' => exact addChild_inv b b' n _ force h (scalar_inv _ _ _) ha
  | .val n v, b, h => by
    simp only [BOp.exec]
    cases ha : b.addChild .fatalf force n (.scalar (.uint v) none true) with
    | none => exact h
    | some b' => exact addChild_inv b b' n _ force h (scalar_inv _ _ _) ha
  | .struct n body, b, h => by
    simp only [BOp.exec]
    cases hr : b.refuses .fatalf force n with
    | true => simpa using h
    | false =>
      simp only [Bool.false_eq_true, if_false]
      exact put_inv b n _ force h (toCT_inv _ (execList_inv force body Bld.newStruct inv_newStruct)) hr
  | .array n body, b, h => by
    simp only [BOp.exec]
    cases hr : b.refuses .fatalf force n with
    | true => simpa using h
    | false =>
      simp only [Bool.false_eq_true, if_false]
      exact put_inv b n _ force h (toCT_inv _ (execList_inv force body Bld.newArray inv_newArray)) hr
  | .errorf, b, h => by simpa [BOp.exec] using h
  | .fatalf, b, h => by simpa [BOp.exec] using h
  | .assertU8 n v e, b, h => by
    simp only [BOp.exec]
    split
    · cases ha : b.addChild .fatalf force n (.scalar (.uint v) none false) with
      | none => exact h
      | some b' => exact addChild_inv b b' n _ force h (scalar_inv _ _ _) ha
    · exact h
  | .remove n, b, h => by
    simp only [BOp.exec]
    split
    · exact h
    · split
      · exact h
      · cases hr : b.remove n with
        | none => exact h
        | some b' => exact remove_bld_inv b b' n h hr
  | .inline body, b, h => by
    simp only [BOp.exec]
    split
    · exact addAll_inv force _ b h (execList_inv force body Bld.newStruct inv_newStruct).2
    · exact h
  | .eof, b, h => by simpa [BOp.exec] using h
theorem execList_inv (force : Bool) : ∀ (ops : List BOp) (b : Bld), Bld.Inv b → Bld.Inv (BOp.execList .fatalf force ops b).1
  | [], b, h => by simpa [BOp.execList] using h
  | op :: ops, b, h => by
    simp only [BOp.execList]
    have h1 := exec_inv force op b h
    split
    · exact execList_inv force ops _ h1
    · exact h1
end

/-! ### under the invariant the two indexes describe one tree -/

/-- the invariant at the root of a value only -/
def CT.InvRoot : CT → Prop
  | .struct cs bn => StructInv cs bn
  | _ => True

theorem invRoot_of_deep (c : CT) (h : CT.InvDeep c) : CT.InvRoot c := by
  cases c with
  | struct cs bn => simp only [CT.InvDeep] at h; exact h.1
  | array es => trivial
  | scalar k s y => trivial

theorem ct_key_eq (c : CT) (h : CT.InvRoot c) (k : Bytes) : c.mKey k = c.toDV.mKey k := by
  cases c with
  | struct cs bn =>
    simp only [CT.InvRoot] at h
    simp only [CT.mKey, CT.toDV, DV.mKey, fieldGet_toDVFields, h.2 k]
    cases objGet k cs <;> rfl
  | array es => rfl
  | scalar kk s y => rfl

theorem ct_has_eq (c : CT) (h : CT.InvRoot c) (key : Val) : c.mHas key = c.toDV.mHas key := by
  cases c with
  | struct cs bn =>
    simp only [CT.InvRoot] at h
    cases key <;> simp [CT.mHas, CT.toDV, DV.mHas, fieldGet_toDVFields, h.2]
  | array es => rfl
  | scalar kk s y => rfl

theorem ct_length_eq (c : CT) : c.mLength = c.toDV.mLength := by
  cases c with
  | struct cs bn => simp [CT.mLength, CT.toDV, DV.mLength, toDVFields_eq_map]
  | array es => rfl
  | scalar kk s y => rfl

theorem ct_sliceLen_eq (c : CT) : c.mSliceLen = c.toDV.mSliceLen := by
  cases c with
  | struct cs bn => simp [CT.mSliceLen, CT.toDV, DV.mSliceLen, toDVFields_eq_map]
  | array es => rfl
  | scalar kk s y => rfl

theorem ct_keys_eq (c : CT) : c.mKeys = c.toDV.mKeys := by
  cases c with
  | struct cs bn => simp [CT.mKeys, CT.toDV, DV.mKeys, toDVFields_eq_map, Function.comp_def]
  | array es => rfl
  | scalar kk s y => rfl

theorem ct_each_eq (c : CT) : c.mEach = c.toDV.mEach := by
  cases c with
  | struct cs bn => simp [CT.mEach, CT.toDV, DV.mEach, toDVFields_eq_map, Function.comp_def]
  | array es => rfl
  | scalar kk s y => rfl

theorem ct_toGoJQ_eq (c : CT) : c.mToGoJQ = c.toDV.mToGoJQ := by
  cases c with
  | struct cs bn => simp [CT.mToGoJQ, CT.toDV, DV.mToGoJQ, toDVFields_eq_map, Function.comp_def]
  | array es => rfl
  | scalar kk s y => rfl

/-! ### distinct names, deep (the hypothesis `NamesDistinct` of the method theorems, at every struct) -/

mutual
def NamesDistinctDeep : DV → Prop
  | .struct fs => (fs.map (·.1)).Nodup ∧ NamesDistinctDeepF fs
  | .array es => NamesDistinctDeepL es
  | .scalar _ _ _ => True
def NamesDistinctDeepL : List DV → Prop
  | [] => True
  | d :: ds => NamesDistinctDeep d ∧ NamesDistinctDeepL ds
def NamesDistinctDeepF : List (Bytes × DV) → Prop
  | [] => True
  | (_, d) :: fs => NamesDistinctDeep d ∧ NamesDistinctDeepF fs
end

theorem namesDistinct_of_deep (d : DV) (h : NamesDistinctDeep d) : NamesDistinct d := by
  cases d with
  | struct fs => simp only [NamesDistinctDeep] at h; exact h.1
  | array es => trivial
  | scalar k s y => trivial

mutual
theorem namesDistinctDeep_toDV : ∀ c : CT, CT.InvDeep c → NamesDistinctDeep c.toDV
  | .struct cs bn, h => by
    simp only [CT.InvDeep] at h
    simp only [CT.toDV, NamesDistinctDeep, toDVFields_keys]
    exact ⟨h.1.1, namesDistinctDeepF_toDV cs h.2⟩
  | .array es, h => by
    simp only [CT.InvDeep] at h
    simp only [CT.toDV, NamesDistinctDeep]
    exact namesDistinctDeepL_toDV es h
  | .scalar _ _ _, _ => by simp [CT.toDV, NamesDistinctDeep]
theorem namesDistinctDeepL_toDV : ∀ cs : List CT, CT.InvDeepL cs → NamesDistinctDeepL (CT.toDVList cs)
  | [], _ => by simp [CT.toDVList, NamesDistinctDeepL]
  | c :: cs, h => by
    simp only [CT.InvDeepL] at h
    simp only [CT.toDVList, NamesDistinctDeepL]
    exact ⟨namesDistinctDeep_toDV c h.1, namesDistinctDeepL_toDV cs h.2⟩
theorem namesDistinctDeepF_toDV : ∀ cs : List (Bytes × CT), CT.InvDeepF cs → NamesDistinctDeepF (CT.toDVFields cs)
  | [], _ => by simp [CT.toDVFields, NamesDistinctDeepF]
  | (k, c) :: cs, h => by
    simp only [CT.InvDeepF] at h
    simp only [CT.toDVFields, NamesDistinctDeepF]
    exact ⟨namesDistinctDeep_toDV c h.1, namesDistinctDeepF_toDV cs h.2⟩
end

/-- the driver's executable check is that predicate -/
theorem namesDistinctB_iff (ks : List Bytes) : namesDistinctB ks = true ↔ ks.Nodup := by
  induction ks with
  | nil => simp [namesDistinctB]
  | cons k ks ih =>
    simp only [namesDistinctB, Bool.and_eq_true, Bool.not_eq_true', List.nodup_cons, ih]
    constructor
    · rintro ⟨h1, h2⟩
      refine ⟨fun hm => ?_, h2⟩
      have : ks.any (bytesEq k) = true := List.any_eq_true.mpr ⟨k, hm, bytesEq_refl k⟩
      rw [this] at h1; cases h1
    · rintro ⟨h1, h2⟩
      refine ⟨?_, h2⟩
      cases ha : ks.any (bytesEq k) with
      | false => rfl
      | true =>
        obtain ⟨x, hx, he⟩ := List.any_eq_true.mp ha
        have := (bytesEq_iff k x).mp he
        subst this
        exact absurd hx h1

mutual
theorem namesDistinctDeepB_iff : ∀ d : DV, d.namesDistinctDeepB = true ↔ NamesDistinctDeep d
  | .struct fs => by
    simp only [DV.namesDistinctDeepB, NamesDistinctDeep, Bool.and_eq_true, namesDistinctB_iff, namesDistinctDeepBF_iff fs]
  | .array es => by simp only [DV.namesDistinctDeepB, NamesDistinctDeep, namesDistinctDeepBL_iff es]
  | .scalar _ _ _ => by simp [DV.namesDistinctDeepB, NamesDistinctDeep]
theorem namesDistinctDeepBL_iff : ∀ ds : List DV, DV.namesDistinctDeepBL ds = true ↔ NamesDistinctDeepL ds
  | [] => by simp [DV.namesDistinctDeepBL, NamesDistinctDeepL]
  | d :: ds => by
    simp only [DV.namesDistinctDeepBL, NamesDistinctDeepL, Bool.and_eq_true, namesDistinctDeepB_iff d, namesDistinctDeepBL_iff ds]
theorem namesDistinctDeepBF_iff : ∀ fs : List (Bytes × DV), DV.namesDistinctDeepBF fs = true ↔ NamesDistinctDeepF fs
  | [] => by simp [DV.namesDistinctDeepBF, NamesDistinctDeepF]
  | (_, d) :: fs => by
    simp only [DV.namesDistinctDeepBF, NamesDistinctDeepF, Bool.and_eq_true, namesDistinctDeepB_iff d, namesDistinctDeepBF_iff fs]
end

/-! ### an unforced decode cannot tell `Errorf` from `Fatalf` -/

theorem refuses_unforced (b : Bld) (k : Bytes) : b.refuses .errorf false k = b.refuses .fatalf false k := by
  simp [Bld.refuses]

theorem addAll_unforced : ∀ (cs : List (Bytes × CT)) (b : Bld),
    Bld.addAll .errorf false cs b = Bld.addAll .fatalf false cs b
  | [], b => rfl
  | (k, c) :: rest, b => by
    simp only [Bld.addAll, Bld.addChild, refuses_unforced]
    split <;> simp_all [addAll_unforced rest]

mutual
theorem exec_unforced : ∀ (op : BOp) (b : Bld), BOp.exec .errorf false op b = BOp.exec .fatalf false op b
  | .u8 n v, b => by simp only [BOp.exec, Bld.addChild, refuses_unforced]
  | .val n v, b => by simp only [BOp.exec, Bld.addChild, refuses_unforced]
  | .struct n body, b => by simp only [BOp.exec, refuses_unforced, execList_unforced body]
  | .array n body, b => by simp only [BOp.exec, refuses_unforced, execList_unforced body]
  | .errorf, b => rfl
  | .fatalf, b => rfl
  | .assertU8 n v e, b => by simp only [BOp.exec, Bld.addChild, refuses_unforced]
  | .remove n, b => rfl
  | .inline body, b => by simp only [BOp.exec, execList_unforced body, addAll_unforced]
  | .eof, b => rfl
theorem execList_unforced : ∀ (ops : List BOp) (b : Bld), BOp.execList .errorf false ops b = BOp.execList .fatalf false ops b
  | [], b => rfl
  | op :: ops, b => by
    simp only [BOp.execList, exec_unforced op b]
    split
    · exact execList_unforced ops _
    · rfl
end

/-! ### a struct whose ByName is the map assigned from Children: distinguishable iff a name repeats -/

theorem keysSorted_nodup {α} (kvs : List (Bytes × α)) (h : KeysSorted kvs) : (kvs.map (·.1)).Nodup := by
  unfold KeysSorted at h
  exact h.imp (fun hlt => bytesLt_ne _ _ hlt)

theorem map_str_injective (ks ks' : List Bytes) (h : ks.map Val.str = ks'.map Val.str) : ks = ks' := by
  induction ks generalizing ks' with
  | nil => cases ks' <;> simp_all
  | cons k ks ih =>
    cases ks' with
    | nil => simp at h
    | cons k' ks' =>
      simp only [List.map_cons, List.cons.injEq, Val.str.injEq] at h
      rw [h.1, ih ks' h.2]

/-- ByName is the map assigned from Children in order (`fv.ByName[v.Name] = v` at every append):
    what D.AddChild maintains whether it reports a duplicate with Fatalf or with Errorf -/
def IdxLast (cs bn : List (Bytes × CT)) : Prop := ∀ k, objGet k bn = objGet k (objOfList cs)

theorem structInv_of_nodup (cs bn : List (Bytes × CT)) (hidx : IdxLast cs bn) (hnd : (cs.map (·.1)).Nodup) :
    StructInv cs bn :=
  ⟨hnd, fun k => by rw [hidx k, objGet_objOfList_nodup k cs hnd]⟩

theorem idxLast_of_inv (cs bn : List (Bytes × CT)) (h : StructInv cs bn) : IdxLast cs bn :=
  fun k => by rw [h.2 k, objGet_objOfList_nodup k cs h.1]

/-- looking a key up in a map built by assignments: the LAST assignment of that key -/
theorem objGet_foldl_last {α} (j : Bytes) (kvs m : List (Bytes × α)) :
    objGet j (kvs.foldl (fun m kv => objSet kv.1 kv.2 m) m) = (objGet j kvs.reverse).or (objGet j m) := by
  induction kvs generalizing m with
  | nil => simp [objGet]
  | cons kv rest ih =>
    obtain ⟨k, v⟩ := kv
    simp only [List.foldl_cons, List.reverse_cons]
    rw [ih, objGet_append]
    by_cases h : j = k
    · subst h
      rw [objGet_objSet_same]
      simp [objGet, bytesEq_refl]
    · rw [objGet_objSet_other j k v m h]
      simp [objGet, bytesEq_false_of_ne h]

theorem objGet_objOfList_last {α} (j : Bytes) (kvs : List (Bytes × α)) :
    objGet j (objOfList kvs) = objGet j kvs.reverse := by
  simp [objOfList, objGet_foldl_last, objGet]

/-- the compound a decoder is filling, either report -/
def Bld.Idx (b : Bld) : Prop := b.isArray = false → IdxLast b.children b.byName

theorem put_idx (b : Bld) (k : Bytes) (c : CT) (h : Bld.Idx b) : Bld.Idx (b.put k c) := by
  unfold Bld.put
  by_cases ha : b.isArray = true
  · simp only [ha, if_true]
    intro h'; simp at h'
  · have ha' : b.isArray = false := by simpa using ha
    simp only [ha', Bool.false_eq_true, if_false]
    intro _ j
    have hb := h ha' j
    simp only [objGet_objOfList_last] at hb ⊢
    simp only [List.reverse_append, List.reverse_cons, List.reverse_nil, List.nil_append, List.cons_append, objGet]
    by_cases hj : j = k
    · subst hj; simp [objGet_objSet_same, bytesEq_refl]
    · simp [objGet_objSet_other j k c _ hj, bytesEq_false_of_ne hj, hb]

theorem remove_idx (b b' : Bld) (k : Bytes) (h : Bld.Idx b) (hr : b.remove k = some b') : Bld.Idx b' := by
  unfold Bld.remove at hr
  split at hr
  · cases hr
  · cases hr
    intro ha j
    have hb := h ha j
    simp only [objGet_objOfList_last] at hb ⊢
    simp only [← List.filter_reverse]
    by_cases hj : j = k
    · subst hj; rw [objGet_objDel_same, objGet_filter_same]
    · rw [objGet_objDel_other j k _ hj, objGet_filter_other j k _ hj, hb]

theorem idx_newStruct : Bld.Idx Bld.newStruct := fun _ _ => rfl

/-- every decoder step keeps "ByName = the map assigned from Children" at the compound it fills —
    for BOTH reports and both values of `force` -/
theorem addChild_idx (rep : Report) (force : Bool) (b b' : Bld) (k : Bytes) (c : CT) (h : Bld.Idx b)
    (ha : b.addChild rep force k c = some b') : Bld.Idx b' := by
  unfold Bld.addChild at ha
  split at ha
  · cases ha
  · cases ha; exact put_idx b k c h

theorem addAll_idx (rep : Report) (force : Bool) : ∀ (cs : List (Bytes × CT)) (b : Bld), Bld.Idx b →
    Bld.Idx (Bld.addAll rep force cs b).1
  | [], b, h => by simpa [Bld.addAll] using h
  | (k, c) :: rest, b, h => by
    simp only [Bld.addAll]
    cases ha : b.addChild rep force k c with
    | none => exact h
    | some b' => exact addAll_idx rep force rest b' (addChild_idx rep force b b' k c h ha)

theorem exec_idx (rep : Report) (force : Bool) (op : BOp) (b : Bld) (h : Bld.Idx b) :
    Bld.Idx (BOp.exec rep force op b).1 := by
  cases op with
  | u8 n v =>
    simp only [BOp.exec]
    cases ha : b.addChild rep force n (.scalar (.uint v) none false) with
    | none => exact h
    | some b' => exact addChild_idx rep force b b' n _ h ha
  | val n v =>
    simp only [BOp.exec]
    cases ha : b.addChild rep force n (.scalar (.uint v) none true) with
    | none => exact h
    | some b' => exact addChild_idx rep force b b' n _ h ha
  | struct n body =>
    simp only [BOp.exec]
    split
    · exact h
    · exact put_idx b n _ h
  | array n body =>
    simp only [BOp.exec]
    split
    · exact h
    · exact put_idx b n _ h
  | errorf => simpa [BOp.exec] using h
  | fatalf => simpa [BOp.exec] using h
  | assertU8 n v e =>
    simp only [BOp.exec]
    split
    · cases ha : b.addChild rep force n (.scalar (.uint v) none false) with
      | none => exact h
      | some b' => exact addChild_idx rep force b b' n _ h ha
    · exact h
  | remove n =>
    simp only [BOp.exec]
    split
    · exact h
    · split
      · exact h
      · cases hr : b.remove n with
        | none => exact h
        | some b' => exact remove_idx b b' n h hr
  | inline body =>
    simp only [BOp.exec]
    split
    · exact addAll_idx rep force _ b h
    · exact h
  | eof => simpa [BOp.exec] using h

theorem execList_idx (rep : Report) (force : Bool) (ops : List BOp) (b : Bld) (h : Bld.Idx b) :
    Bld.Idx (BOp.execList rep force ops b).1 := by
  induction ops generalizing b with
  | nil => simpa [BOp.execList] using h
  | cons op ops ih =>
    simp only [BOp.execList]
    have h1 := exec_idx rep force op b h
    split
    · exact ih _ h1
    · exact h1

theorem put_isArray (b : Bld) (k : Bytes) (c : CT) : (b.put k c).isArray = b.isArray := by
  unfold Bld.put; split <;> simp_all

theorem addChild_isArray (rep : Report) (force : Bool) (b b' : Bld) (k : Bytes) (c : CT)
    (ha : b.addChild rep force k c = some b') : b'.isArray = b.isArray := by
  unfold Bld.addChild at ha
  split at ha
  · cases ha
  · cases ha; exact put_isArray b k c

theorem remove_isArray (b b' : Bld) (k : Bytes) (hr : b.remove k = some b') : b'.isArray = b.isArray := by
  unfold Bld.remove at hr
  split at hr
  · cases hr
  · cases hr; rfl

theorem addAll_isArray (rep : Report) (force : Bool) : ∀ (cs : List (Bytes × CT)) (b : Bld),
    (Bld.addAll rep force cs b).1.isArray = b.isArray
  | [], b => rfl
  | (k, c) :: rest, b => by
    simp only [Bld.addAll]
    cases ha : b.addChild rep force k c with
    | none => rfl
    | some b' => rw [addAll_isArray rep force rest b', addChild_isArray rep force b b' k c ha]

theorem exec_isArray (rep : Report) (force : Bool) (op : BOp) (b : Bld) :
    (BOp.exec rep force op b).1.isArray = b.isArray := by
  cases op with
  | u8 n v =>
    simp only [BOp.exec]
    cases ha : b.addChild rep force n (.scalar (.uint v) none false) with
    | none => rfl
    | some b' => exact addChild_isArray rep force b b' n _ ha
  | val n v =>
    simp only [BOp.exec]
    cases ha : b.addChild rep force n (.scalar (.uint v) none true) with
    | none => rfl
    | some b' => exact addChild_isArray rep force b b' n _ ha
  | struct n body =>
    simp only [BOp.exec]
    split
    · rfl
    · exact put_isArray b n _
  | array n body =>
    simp only [BOp.exec]
    split
    · rfl
    · exact put_isArray b n _
  | errorf => rfl
  | fatalf => rfl
  | assertU8 n v e =>
    simp only [BOp.exec]
    split
    · cases ha : b.addChild rep force n (.scalar (.uint v) none false) with
      | none => rfl
      | some b' => exact addChild_isArray rep force b b' n _ ha
    · rfl
  | remove n =>
    simp only [BOp.exec]
    split
    · rfl
    · split
      · rfl
      · cases hr : b.remove n with
        | none => rfl
        | some b' => exact remove_isArray b b' n hr
  | inline body =>
    simp only [BOp.exec]
    split
    · exact addAll_isArray rep force _ b
    · rfl
  | eof => rfl

theorem execList_isArray (rep : Report) (force : Bool) (ops : List BOp) (b : Bld) :
    (BOp.execList rep force ops b).1.isArray = b.isArray := by
  induction ops generalizing b with
  | nil => rfl
  | cons op ops ih =>
    simp only [BOp.execList]
    split
    · rw [ih, exec_isArray]
    · exact exec_isArray rep force op b

theorem funcHas_real_dv (d : DV) (x : Val) : funcHas Mode.real (.dv d) x = d.mHas x := rfl
theorem indexKey_real_dv (d : DV) (k : Bytes) : indexKey Mode.real (.dv d) k = d.mKey k := rfl

/-! ### a predicate at every struct of a tree -/

mutual
def CT.EveryStruct (P : List (Bytes × CT) → List (Bytes × CT) → Prop) : CT → Prop
  | .struct cs bn => P cs bn ∧ CT.EveryStructF P cs
  | .array es => CT.EveryStructL P es
  | .scalar _ _ _ => True
def CT.EveryStructL (P : List (Bytes × CT) → List (Bytes × CT) → Prop) : List CT → Prop
  | [] => True
  | c :: cs => CT.EveryStruct P c ∧ CT.EveryStructL P cs
def CT.EveryStructF (P : List (Bytes × CT) → List (Bytes × CT) → Prop) : List (Bytes × CT) → Prop
  | [] => True
  | (_, c) :: cs => CT.EveryStruct P c ∧ CT.EveryStructF P cs
end

mutual
theorem everyStruct_of_invDeep (P : List (Bytes × CT) → List (Bytes × CT) → Prop)
    (hP : ∀ cs bn, StructInv cs bn → P cs bn) : ∀ c : CT, CT.InvDeep c → CT.EveryStruct P c
  | .struct cs bn, h => by
    simp only [CT.InvDeep] at h
    simp only [CT.EveryStruct]
    exact ⟨hP cs bn h.1, everyStructF_of_invDeep P hP cs h.2⟩
  | .array es, h => by
    simp only [CT.InvDeep] at h
    simp only [CT.EveryStruct]
    exact everyStructL_of_invDeep P hP es h
  | .scalar _ _ _, _ => by simp [CT.EveryStruct]
theorem everyStructL_of_invDeep (P : List (Bytes × CT) → List (Bytes × CT) → Prop)
    (hP : ∀ cs bn, StructInv cs bn → P cs bn) : ∀ cs : List CT, CT.InvDeepL cs → CT.EveryStructL P cs
  | [], _ => by simp [CT.EveryStructL]
  | c :: cs, h => by
    simp only [CT.InvDeepL] at h
    simp only [CT.EveryStructL]
    exact ⟨everyStruct_of_invDeep P hP c h.1, everyStructL_of_invDeep P hP cs h.2⟩
theorem everyStructF_of_invDeep (P : List (Bytes × CT) → List (Bytes × CT) → Prop)
    (hP : ∀ cs bn, StructInv cs bn → P cs bn) : ∀ cs : List (Bytes × CT), CT.InvDeepF cs → CT.EveryStructF P cs
  | [], _ => by simp [CT.EveryStructF]
  | (k, c) :: cs, h => by
    simp only [CT.InvDeepF] at h
    simp only [CT.EveryStructF]
    exact ⟨everyStruct_of_invDeep P hP c h.1, everyStructF_of_invDeep P hP cs h.2⟩
end

/-- the struct-level observations of the modelled query set (length, keys, has, .k, .[] / to_entries /
    paths), each taken from the index the code reads, against the plain value of `tovalue`, in the
    sense of the method theorems of Props/C08 (D1: keys and members up to order; D2: not for the `_`
    extra keys) -/
def StructAgrees (cs bn : List (Bytes × CT)) : Prop :=
  (CT.struct cs bn).mLength = funcLength Mode.real (Val.ofJV (CT.struct cs bn).toValue) ∧
  (∃ ks ks' : List Bytes, (CT.struct cs bn).mKeys = .ok (.arr (ks.map Val.str)) ∧
    funcKeys Mode.real (Val.ofJV (CT.struct cs bn).toValue) = .ok (.arr (ks'.map Val.str)) ∧ ks'.Perm ks) ∧
  (∀ j, NotExt j → agree ((CT.struct cs bn).mHas (Val.ofJV j))
    (funcHas Mode.real (Val.ofJV (CT.struct cs bn).toValue) (Val.ofJV j))) ∧
  (∀ k, isExtKey k = false → agree ((CT.struct cs bn).mKey k)
    (indexKey Mode.real (Val.ofJV (CT.struct cs bn).toValue) k)) ∧
  (∃ ps qs, (CT.struct cs bn).mEach = .ok ps ∧
    opEach Mode.real (Val.ofJV (CT.struct cs bn).toValue) = .ok qs ∧ (ps.map tvPair).Perm (qs.map tvPair))

/-- the keys `keys` lists for the plain value of a struct are pairwise distinct (a Go map) -/
theorem plain_keys_nodup (cs bn : List (Bytes × CT)) (ks' : List Bytes)
    (h : funcKeys Mode.real (Val.ofJV (CT.struct cs bn).toValue) = .ok (.arr (ks'.map Val.str))) : ks'.Nodup := by
  simp only [CT.toValue, CT.toDV, DV.toValue, funcKeys, Mode.view, Mode.real, if_true, Val.ofJV,
    map_str_keys_ofJVkvs, Outcome.ok.injEq, Val.arr.injEq] at h
  have h' : ((objOfList (DV.toValueFields (CT.toDVFields cs))).map (·.1)).map Val.str = ks'.map Val.str := by
    rw [← h]; simp [Function.comp_def]
  have := map_str_injective _ _ h'
  rw [← this]
  exact keysSorted_nodup _ (objOfList_keysSorted _)

/-! ### the leaves of a decoder tree are plain numbers: `ScalarsOK` (D4 and the -2^63 finding do not apply) -/

mutual
def CT.ScalarsOK : CT → Prop
  | .struct cs _ => CT.ScalarsOKF cs
  | .array es => CT.ScalarsOKL es
  | .scalar k sym y => svRawOK (scalarValue k sym) y ∧ svNotMinInt (scalarValue k sym)
def CT.ScalarsOKL : List CT → Prop
  | [] => True
  | c :: cs => CT.ScalarsOK c ∧ CT.ScalarsOKL cs
def CT.ScalarsOKF : List (Bytes × CT) → Prop
  | [] => True
  | (_, c) :: cs => CT.ScalarsOK c ∧ CT.ScalarsOKF cs
end

theorem ct_scalarsOKF_iff (cs : List (Bytes × CT)) : CT.ScalarsOKF cs ↔ ∀ f ∈ cs, CT.ScalarsOK f.2 := by
  induction cs with
  | nil => simp [CT.ScalarsOKF]
  | cons c cs ih => obtain ⟨k, c⟩ := c; simp [CT.ScalarsOKF, ih]

theorem ct_scalarsOKL_iff (cs : List CT) : CT.ScalarsOKL cs ↔ ∀ c ∈ cs, CT.ScalarsOK c := by
  induction cs with
  | nil => simp [CT.ScalarsOKL]
  | cons c cs ih => simp [CT.ScalarsOKL, ih]

mutual
theorem scalarsOK_toDV : ∀ c : CT, CT.ScalarsOK c → ScalarsOK c.toDV
  | .struct cs bn, h => by
    simp only [CT.ScalarsOK] at h
    simp only [CT.toDV, ScalarsOK]
    exact scalarsOKF_toDV cs h
  | .array es, h => by
    simp only [CT.ScalarsOK] at h
    simp only [CT.toDV, ScalarsOK]
    exact scalarsOKL_toDV es h
  | .scalar _ _ _, h => by simpa [CT.toDV, ScalarsOK, CT.ScalarsOK] using h
theorem scalarsOKL_toDV : ∀ cs : List CT, CT.ScalarsOKL cs → ScalarsOKL (CT.toDVList cs)
  | [], _ => by simp [CT.toDVList, ScalarsOKL]
  | c :: cs, h => by
    simp only [CT.ScalarsOKL] at h
    simp only [CT.toDVList, ScalarsOKL]
    exact ⟨scalarsOK_toDV c h.1, scalarsOKL_toDV cs h.2⟩
theorem scalarsOKF_toDV : ∀ cs : List (Bytes × CT), CT.ScalarsOKF cs → ScalarsOKF (CT.toDVFields cs)
  | [], _ => by simp [CT.toDVFields, ScalarsOKF]
  | (k, c) :: cs, h => by
    simp only [CT.ScalarsOKF] at h
    simp only [CT.toDVFields, ScalarsOKF]
    exact ⟨scalarsOK_toDV c h.1, scalarsOKF_toDV cs h.2⟩
end

theorem uint_leaf_ok (v : Nat) (y : Bool) : CT.ScalarsOK (.scalar (.uint v) none y) := by
  simp only [CT.ScalarsOK, scalarValue, actualSV, svRawOK, svNotMinInt, true_and, minInt]
  omega

theorem put_sok (b : Bld) (k : Bytes) (c : CT) (h : CT.ScalarsOKF b.children) (hc : CT.ScalarsOK c) :
    CT.ScalarsOKF (b.put k c).children := by
  have : (b.put k c).children = b.children ++ [(k, c)] := by unfold Bld.put; split <;> rfl
  rw [this, ct_scalarsOKF_iff]
  intro f hf
  rcases List.mem_append.mp hf with h1 | h1
  · exact (ct_scalarsOKF_iff _).mp h f h1
  · simp only [List.mem_singleton] at h1; subst h1; exact hc

theorem addChild_sok (rep : Report) (force : Bool) (b b' : Bld) (k : Bytes) (c : CT)
    (h : CT.ScalarsOKF b.children) (hc : CT.ScalarsOK c) (ha : b.addChild rep force k c = some b') :
    CT.ScalarsOKF b'.children := by
  unfold Bld.addChild at ha
  split at ha
  · cases ha
  · cases ha; exact put_sok b k c h hc

theorem toCT_sok (b : Bld) (h : CT.ScalarsOKF b.children) : CT.ScalarsOK b.toCT := by
  unfold Bld.toCT
  split
  · simp only [CT.ScalarsOK]
    rw [ct_scalarsOKL_iff]
    intro c hc
    obtain ⟨f, hf, rfl⟩ := List.mem_map.mp hc
    exact (ct_scalarsOKF_iff _).mp h f hf
  · simpa only [CT.ScalarsOK] using h

theorem addAll_sok (rep : Report) (force : Bool) : ∀ (cs : List (Bytes × CT)) (b : Bld),
    CT.ScalarsOKF b.children → CT.ScalarsOKF cs → CT.ScalarsOKF (Bld.addAll rep force cs b).1.children
  | [], b, h, _ => by simpa [Bld.addAll] using h
  | (k, c) :: rest, b, h, hc => by
    simp only [CT.ScalarsOKF] at hc
    simp only [Bld.addAll]
    cases ha : b.addChild rep force k c with
    | none => exact h
    | some b' => exact addAll_sok rep force rest b' (addChild_sok rep force b b' k c h hc.1 ha) hc.2

mutual
theorem exec_sok (rep : Report) (force : Bool) : ∀ (op : BOp) (b : Bld), CT.ScalarsOKF b.children →
    CT.ScalarsOKF (BOp.exec rep force op b).1.children
  | .u8 n v, b, h => by
    simp only [BOp.exec]
    cases ha : b.addChild rep force n (.scalar (.uint v) none false) with
    | none => exact h
    | some b' => exact addChild_sok rep force b b' n _ h (uint_leaf_ok v false) ha
  | .val n v, b, h => by
    simp only [BOp.exec]
    cases ha : b.addChild rep force n (.scalar (.uint v) none true) with
    | none => exact h
    | some b' => exact addChild_sok rep force b b' n _ h (uint_leaf_ok v true) ha
  | .struct n body, b, h => by
    simp only [BOp.exec]
    split
    · exact h
    · exact put_sok b n _ h (toCT_sok _ (execList_sok rep force body Bld.newStruct (by simp [Bld.newStruct, CT.ScalarsOKF])))
  | .array n body, b, h => by
    simp only [BOp.exec]
    split
    · exact h
    · exact put_sok b n _ h (toCT_sok _ (execList_sok rep force body Bld.newArray (by simp [Bld.newArray, CT.ScalarsOKF])))
  | .errorf, b, h => by simpa [BOp.exec] using h
  | .fatalf, b, h => by simpa [BOp.exec] using h
  | .assertU8 n v e, b, h => by
    simp only [BOp.exec]
    split
    · cases ha : b.addChild rep force n (.scalar (.uint v) none false) with
      | none => exact h
      | some b' => exact addChild_sok rep force b b' n _ h (uint_leaf_ok v false) ha
    · exact h
  | .remove n, b, h => by
    simp only [BOp.exec]
    split
    · exact h
    · split
      · exact h
      · cases hr : b.remove n with
        | none => exact h
        | some b' =>
          unfold Bld.remove at hr
          split at hr
          · cases hr
          · cases hr
            rw [ct_scalarsOKF_iff]
            intro f hf
            exact (ct_scalarsOKF_iff _).mp h f (List.mem_filter.mp hf).1
  | .inline body, b, h => by
    simp only [BOp.exec]
    split
    · exact addAll_sok rep force _ b h
        (execList_sok rep force body Bld.newStruct (by simp [Bld.newStruct, CT.ScalarsOKF]))
    · exact h
  | .eof, b, h => by simpa [BOp.exec] using h
theorem execList_sok (rep : Report) (force : Bool) : ∀ (ops : List BOp) (b : Bld), CT.ScalarsOKF b.children →
    CT.ScalarsOKF (BOp.execList rep force ops b).1.children
  | [], b, h => by simpa [BOp.execList] using h
  | op :: ops, b, h => by
    simp only [BOp.execList]
    have h1 := exec_sok rep force op b h
    split
    · exact execList_sok rep force ops _ h1
    · exact h1
end

theorem runDecoder_scalarsOK (rep : Report) (force : Bool) (prog : List BOp) :
    ScalarsOK (runDecoder rep force prog).1.toDV :=
  scalarsOK_toDV _ (toCT_sok _ (execList_sok rep force prog Bld.newStruct (by simp [Bld.newStruct, CT.ScalarsOKF])))

/-! ### sorting the members of a struct loses none — when their names are distinct -/

theorem sortFieldsF_eq_map (fs : List (Bytes × DV)) :
    DV.sortFieldsF fs = fs.map (fun f => (f.1, DV.sortFields f.2)) := by
  induction fs with
  | nil => rfl
  | cons f fs ih => obtain ⟨k, d⟩ := f; simp [DV.sortFieldsF, ih]

end Proofs.C08
