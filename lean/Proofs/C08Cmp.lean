import FqModel.JQValue
import Proofs.C08
/-!
  C08 — the struct Compound with both indexes (`Cmp`): the invariant "ByName = the names of Children",
  its preservation by D.AddChild and the (fixed) Value.Remove, and the agreement of the ByName-reading
  methods with the Children-reading ones under it.
-/
namespace Proofs.C08
open FqModel FqModel.JQValue

/-- ByName indexes exactly the children, whose names are distinct -/
def Cmp.Inv (c : Cmp) : Prop :=
  (c.children.map (·.1)).Nodup ∧ ∀ k, objGet k c.byName = fieldGet k c.children

theorem fieldGet_eq_objGet (k : Bytes) (fs : List (Bytes × DV)) : fieldGet k fs = objGet k fs := by
  induction fs with
  | nil => rfl
  | cons f fs ih => obtain ⟨k', d⟩ := f; simp [fieldGet, objGet, ih]

theorem fieldGet_append (k : Bytes) (fs gs : List (Bytes × DV)) :
    fieldGet k (fs ++ gs) = (fieldGet k fs).or (fieldGet k gs) := by
  induction fs with
  | nil => simp [fieldGet]
  | cons f fs ih =>
    obtain ⟨k', d⟩ := f
    simp only [List.cons_append, fieldGet]
    split <;> simp [ih]

theorem fieldGet_none_iff (k : Bytes) (fs : List (Bytes × DV)) : fieldGet k fs = none ↔ k ∉ fs.map (·.1) := by
  induction fs with
  | nil => simp [fieldGet]
  | cons f fs ih =>
    obtain ⟨k', d⟩ := f
    simp only [fieldGet, List.map_cons, List.mem_cons, not_or]
    by_cases h : k = k'
    · subst h; simp [bytesEq_refl]
    · simp [bytesEq_false_of_ne h, ih, h]

theorem objGet_objDel_same {α} (k : Bytes) (m : List (Bytes × α)) : objGet k (objDel k m) = none := by
  induction m with
  | nil => rfl
  | cons kv m ih =>
    obtain ⟨k', v⟩ := kv
    simp only [objDel]
    split
    · exact ih
    · rename_i h; simp [objGet, h, ih]

theorem objGet_objDel_other {α} (j k : Bytes) (m : List (Bytes × α)) (h : j ≠ k) :
    objGet j (objDel k m) = objGet j m := by
  induction m with
  | nil => rfl
  | cons kv m ih =>
    obtain ⟨k', v⟩ := kv
    simp only [objDel]
    split
    · rename_i hk
      have : k = k' := (bytesEq_iff k k').mp hk
      subst this
      simp [objGet, bytesEq_false_of_ne h, ih]
    · simp [objGet, ih]

theorem fieldGet_filter_same (k : Bytes) (fs : List (Bytes × DV)) :
    fieldGet k (fs.filter (fun f => !bytesEq f.1 k)) = none := by
  rw [fieldGet_none_iff]
  intro h
  obtain ⟨f, hf, hk⟩ := List.mem_map.mp h
  have := (List.mem_filter.mp hf).2
  rw [hk, bytesEq_refl] at this
  simp at this

theorem fieldGet_filter_other (j k : Bytes) (fs : List (Bytes × DV)) (h : j ≠ k) :
    fieldGet j (fs.filter (fun f => !bytesEq f.1 k)) = fieldGet j fs := by
  induction fs with
  | nil => rfl
  | cons f fs ih =>
    obtain ⟨k', d⟩ := f
    simp only [List.filter_cons]
    by_cases hk : k' = k
    · subst hk
      simp [bytesEq_refl, fieldGet, bytesEq_false_of_ne h, ih]
    · simp [bytesEq_false_of_ne hk, fieldGet, ih]

theorem inv_empty : Cmp.Inv Cmp.empty := ⟨by simp [Cmp.empty], fun _ => rfl⟩

/-- D.AddChild keeps the two indexes in agreement -/
theorem add_inv (c c' : Cmp) (k : Bytes) (d : DV) (h : Cmp.Inv c) (ha : c.add k d = some c') : Cmp.Inv c' := by
  unfold Cmp.add at ha
  split at ha
  · cases ha
  · rename_i hn
    cases ha
    obtain ⟨hnd, hidx⟩ := h
    have hnot : k ∉ c.children.map (·.1) := by
      rw [← fieldGet_none_iff, ← hidx]
      simpa using hn
    refine ⟨?_, ?_⟩
    · simp only [List.map_append, List.map_cons, List.map_nil]
      rw [List.nodup_append]
      refine ⟨hnd, by simp, ?_⟩
      intro a ha b hb
      simp only [List.mem_singleton] at hb
      subst hb
      intro e; subst e; exact hnot ha
    · intro j
      simp only
      rw [fieldGet_append]
      by_cases hj : j = k
      · subst hj
        rw [objGet_objSet_same, (fieldGet_none_iff j c.children).mpr hnot]
        simp [fieldGet, bytesEq_refl]
      · rw [objGet_objSet_other j k d _ hj, hidx j]
        simp [fieldGet, bytesEq_false_of_ne hj]

/-- the fixed Value.Remove keeps the two indexes in agreement -/
theorem remove_inv (c c' : Cmp) (k : Bytes) (h : Cmp.Inv c) (hr : c.remove k = some c') : Cmp.Inv c' := by
  unfold Cmp.remove at hr
  split at hr
  · cases hr
  · split at hr
    · cases hr
    · cases hr
      obtain ⟨hnd, hidx⟩ := h
      refine ⟨?_, ?_⟩
      · exact (hnd.sublist (List.filter_sublist.map _))
      · intro j
        simp only
        by_cases hj : j = k
        · subst hj; rw [objGet_objDel_same, fieldGet_filter_same]
        · rw [objGet_objDel_other j k _ hj, fieldGet_filter_other j k _ hj, hidx j]

/-- every history of AddChild / Remove calls that the decoder survives keeps them in agreement -/
theorem run_inv (ops : List CmpOp) (c c' : Cmp) (h : Cmp.Inv c) (hr : Cmp.run Cmp.remove ops c = some c') : Cmp.Inv c' := by
  induction ops generalizing c with
  | nil => simp only [Cmp.run, Option.some.injEq] at hr; subst hr; exact h
  | cons op ops ih =>
    simp only [Cmp.run] at hr
    cases hop : op.apply Cmp.remove c with
    | none => rw [hop] at hr; cases hr
    | some c1 =>
      rw [hop] at hr
      refine ih c1 ?_ hr
      cases op with
      | add k d => exact add_inv c c1 k d h hop
      | rm k => exact remove_inv c c1 k h hop

/-- under the invariant the ByName-reading methods are the Children-reading model's -/
theorem cmp_key_eq (c : Cmp) (h : Cmp.Inv c) (k : Bytes) : c.mKey k = c.toDV.mKey k := by
  simp only [Cmp.mKey, Cmp.toDV, DV.mKey, h.2 k]

theorem cmp_has_eq (c : Cmp) (h : Cmp.Inv c) (key : Val) : c.mHas key = c.toDV.mHas key := by
  cases key <;> simp [Cmp.mHas, Cmp.toDV, DV.mHas, h.2]

end Proofs.C08
