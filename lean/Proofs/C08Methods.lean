import FqModel.JQValue
import Proofs.C08
import Proofs.C08Utf8
/-!
  C08 — definitions of the side conditions and the scalar-wrapper / array level lemmas behind the
  method-level agreement theorems of Props/C08.lean.
-/
namespace Proofs.C08
open FqModel FqModel.JQValue

def svToValue (sv : SV) (y : Bool) : JV :=
  match sv with
  | .raw bs => if y then .str (sanitize bs) else .str bs
  | .j v => (wrapSV (.j v)).toGoJQ

theorem toValue_scalar (k : SKind) (sym : Option JV) (y : Bool) :
    DV.toValue (.scalar k sym y) = svToValue (scalarValue k sym) y := by
  simp only [DV.toValue, svToValue]
  cases scalarValue k sym <;> rfl

def NamesDistinct : DV → Prop
  | .struct fs => (fs.map (·.1)).Nodup
  | _ => True

def agree : Outcome Val → Outcome Val → Prop
  | .ok x, .ok y => x.toValue = y.toValue
  | .err _, .err _ => True
  | _, _ => False

mutual
theorem toValue_ofJV : ∀ j : JV, (Val.ofJV j).toValue = j
  | .null => rfl
  | .bool _ => rfl
  | .int _ => rfl
  | .float _ => rfl
  | .str _ => rfl
  | .arr xs => by simp [Val.ofJV, Val.toValue, toValueList_ofJVs xs]
  | .obj kvs => by simp [Val.ofJV, Val.toValue, toValueKvs_ofJVkvs kvs]
theorem toValueList_ofJVs : ∀ xs : List JV, Val.toValueList (Val.ofJVs xs) = xs
  | [] => rfl
  | x :: xs => by simp [Val.ofJVs, Val.toValueList, toValue_ofJV x, toValueList_ofJVs xs]
theorem toValueKvs_ofJVkvs : ∀ kvs : List (Bytes × JV), Val.toValueKvs (Val.ofJVkvs kvs) = kvs
  | [] => rfl
  | (k, v) :: kvs => by simp [Val.ofJVkvs, Val.toValueKvs, toValue_ofJV v, toValueKvs_ofJVkvs kvs]
end

/-! ### lookups in a map built from pairs with distinct keys -/

theorem objGet_none_of_not_mem {α} (j : Bytes) (kvs : List (Bytes × α)) (h : j ∉ kvs.map (·.1)) :
    objGet j kvs = none := by
  induction kvs with
  | nil => rfl
  | cons kv rest ih =>
    obtain ⟨k, v⟩ := kv
    simp only [List.map_cons, List.mem_cons, not_or] at h
    simp [objGet, bytesEq_false_of_ne h.1, ih h.2]

theorem objGet_foldl_nodup {α} (j : Bytes) (kvs m : List (Bytes × α)) (hnd : (kvs.map (·.1)).Nodup) :
    objGet j (kvs.foldl (fun m kv => objSet kv.1 kv.2 m) m) = ((objGet j kvs).or (objGet j m)) := by
  induction kvs generalizing m with
  | nil => simp [objGet]
  | cons kv rest ih =>
    obtain ⟨k, v⟩ := kv
    have hnd' : (rest.map (·.1)).Nodup := (List.nodup_cons.mp hnd).2
    have hnot : k ∉ rest.map (·.1) := (List.nodup_cons.mp hnd).1
    simp only [List.foldl_cons]
    rw [ih _ hnd']
    by_cases h : j = k
    · subst h
      simp [objGet, bytesEq_refl, objGet_none_of_not_mem j rest hnot, objGet_objSet_same]
    · simp [objGet, bytesEq_false_of_ne h, objGet_objSet_other j k v m h]

theorem objGet_objOfList_nodup {α} (j : Bytes) (kvs : List (Bytes × α)) (hnd : (kvs.map (·.1)).Nodup) :
    objGet j (objOfList kvs) = objGet j kvs := by
  simp [objOfList, objGet_foldl_nodup j kvs [] hnd, objGet]

theorem objGet_toValueFields (k : Bytes) (fs : List (Bytes × DV)) :
    objGet k (DV.toValueFields fs) = (fieldGet k fs).map DV.toValue := by
  induction fs with
  | nil => rfl
  | cons f fs ih =>
    obtain ⟨k', d⟩ := f
    simp only [DV.toValueFields, objGet, fieldGet]
    split <;> simp [ih]

/-! ### `.k` -/

theorem key_sv (sv : SV) (y : Bool) (k : Bytes) (hk : isExtKey k = false) :
    match svToValue sv y with
    | .obj _ => agree (valueOrFallbackKey k ((wrapSV sv).has (.str k)) ((wrapSV sv).key k))
        (indexKey Mode.real (Val.ofJV (svToValue sv y)) k)
    | .null => agree (valueOrFallbackKey k ((wrapSV sv).has (.str k)) ((wrapSV sv).key k))
        (indexKey Mode.real (Val.ofJV (svToValue sv y)) k)
    | _ => valueOrFallbackKey k ((wrapSV sv).has (.str k)) ((wrapSV sv).key k) = .ok .null := by
  cases sv with
  | raw bs => cases y <;> simp [svToValue, valueOrFallbackKey, wrapSV, G.has, baseKey, hk]
  | j v =>
    cases v with
    | obj kvs =>
      simp only [svToValue, wrapSV, G.toGoJQ, valueOrFallbackKey, G.has, G.key, indexKey, Mode.real, Val.ofJV,
        objGet_ofJVkvs, objHas]
      cases h : objGet k kvs with
      | none => simp [agree, baseKey, hk, Val.toValue]
      | some x => simp [agree]
    | null => simp [svToValue, wrapSV, G.toGoJQ, valueOrFallbackKey, G.has, baseKey, hk, indexKey, Mode.real, Val.ofJV, agree]
    | arr xs => simp [svToValue, wrapSV, G.toGoJQ, valueOrFallbackKey, G.has, baseKey, hk, toGoInt]
    | _ => simp [svToValue, wrapSV, G.toGoJQ, valueOrFallbackKey, G.has, baseKey, hk]

def svNotMinInt : SV → Prop
  | .j (.int i) => i ≠ minInt
  | _ => True

def NotMinInt : DV → Prop
  | .scalar k sym _ => svNotMinInt (scalarValue k sym)
  | _ => True

theorem decodeRunes_length (bs : Bytes) : (decodeRunes bs).length = (chunks bs).length := by
  simp [decodeRunes]

theorem length_sv (sv : SV) (y : Bool) (h2 : svNotMinInt sv) :
    (wrapSV sv).length = funcLength Mode.real (Val.ofJV (svToValue sv y)) := by
  cases sv with
  | raw bs =>
    cases y with
    | true => simp [funcLength, Mode.view, Mode.real, svToValue, wrapSV, G.length, Val.ofJV, chunks_sanitize_length, decodeRunes_length]
    | false => simp [funcLength, Mode.view, Mode.real, svToValue, wrapSV, G.length, Val.ofJV, decodeRunes_length]
  | j v =>
    cases v with
    | null => simp [funcLength, Mode.view, Mode.real, svToValue, wrapSV, G.length, G.toGoJQ, Val.ofJV]
    | bool b => simp [funcLength, Mode.view, Mode.real, svToValue, wrapSV, G.length, G.toGoJQ, Val.ofJV]
    | int i =>
      simp only [svNotMinInt] at h2
      simp only [funcLength, Mode.view, Mode.real, svToValue, wrapSV, G.length, G.toGoJQ, Val.ofJV, if_true]
      by_cases h0 : i ≥ 0 <;> simp [h0, h2]
    | float f => simp [funcLength, Mode.view, Mode.real, svToValue, wrapSV, G.length, G.toGoJQ, Val.ofJV]
    | str s =>
      have := chunks_sanitize_length s
      simp only [sanitize] at this
      simp [funcLength, Mode.view, Mode.real, svToValue, wrapSV, G.length, G.toGoJQ, Val.ofJV, decodeRunes_length, this]
    | arr xs => simp [funcLength, Mode.view, Mode.real, svToValue, wrapSV, G.length, G.toGoJQ, Val.ofJV, ofJVs_length]
    | obj kvs => simp [funcLength, Mode.view, Mode.real, svToValue, wrapSV, G.length, G.toGoJQ, Val.ofJV, ofJVkvs_length]

def svRawOK : SV → Bool → Prop
  | .raw bs, false => sanitize bs = bs
  | _, _ => True

def RawOK : DV → Prop
  | .scalar k sym y => svRawOK (scalarValue k sym) y
  | _ => True

/-! type -/
theorem type_sv (sv : SV) (y : Bool) :
    ofAscii (wrapSV sv).type = funcType Mode.real (Val.ofJV (svToValue sv y)) := by
  cases sv with
  | raw bs => cases y <;> simp [funcType, Mode.view, Mode.real, svToValue, wrapSV, G.type, Val.ofJV]
  | j v => cases v <;> simp [funcType, Mode.view, Mode.real, svToValue, wrapSV, G.type, G.toGoJQ, Val.ofJV]

/-! tonumber -/
theorem tonumber_sv (sv : SV) (y : Bool) (h : svRawOK sv y) :
    (wrapSV sv).toNumber = funcToNumber Mode.real (Val.ofJV (svToValue sv y)) := by
  cases sv with
  | raw bs =>
    cases y with
    | true => simp [funcToNumber, Mode.view, Mode.real, svToValue, wrapSV, G.toNumber, Val.ofJV]
    | false => simp only [svRawOK] at h; simp [funcToNumber, Mode.view, Mode.real, svToValue, wrapSV, G.toNumber, Val.ofJV, h]
  | j v => cases v <;> simp [funcToNumber, Mode.view, Mode.real, svToValue, wrapSV, G.toNumber, G.toGoJQ, Val.ofJV, sanitize]

/-! keys -/
theorem map_str_keys_ofJVkvs (kvs : List (Bytes × JV)) :
    (Val.ofJVkvs kvs).map (fun kv => Val.str kv.1) = kvs.map (fun kv => Val.str kv.1) := by
  induction kvs with
  | nil => rfl
  | cons kv kvs ih => obtain ⟨k, v⟩ := kv; simp [Val.ofJVkvs, ih]

theorem keys_sv (sv : SV) (y : Bool) :
    (wrapSV sv).keys = funcKeys Mode.real (Val.ofJV (svToValue sv y)) := by
  cases sv with
  | raw bs => cases y <;> simp [funcKeys, Mode.view, Mode.real, svToValue, wrapSV, G.keys, Val.ofJV]
  | j v =>
    cases v with
    | arr xs => simp [funcKeys, Mode.view, Mode.real, svToValue, wrapSV, G.keys, G.toGoJQ, Val.ofJV, ofJVs_length]
    | obj kvs =>
      simp only [funcKeys, Mode.view, Mode.real, svToValue, wrapSV, G.keys, G.toGoJQ, Val.ofJV, if_true]
      congr 2
      exact (map_str_keys_ofJVkvs kvs).symm
    | _ => simp [funcKeys, Mode.view, Mode.real, svToValue, wrapSV, G.keys, G.toGoJQ, Val.ofJV]

/-! has -/
def NotExt (j : JV) : Prop := ∀ k, j = .str k → isExtKey k = false

theorem shallowM_ofJV (m : Mode) (j : JV) : (Val.ofJV j).shallowM m = Val.ofJV j := by
  cases j <;> rfl

theorem objHas_ofJVkvs (k : Bytes) (kvs : List (Bytes × JV)) : objHas k (Val.ofJVkvs kvs) = objHas k kvs := by
  simp [objHas, objGet_ofJVkvs]

theorem toGoInt_ofJV_str (k : Bytes) : toGoInt (Val.str k) = none := rfl

theorem has_sv (sv : SV) (y : Bool) (j : JV) (hk : NotExt j) :
    agree (valueOrFallbackHas (Val.ofJV j) ((wrapSV sv).has (Val.ofJV j)))
      (funcHas Mode.real (Val.ofJV (svToValue sv y)) (Val.ofJV j)) := by
  cases sv with
  | raw bs =>
    cases y <;> cases j <;>
      simp [agree, valueOrFallbackHas, funcHas, Mode.view, Mode.real, svToValue, wrapSV, G.has, Val.ofJV]
  | j v =>
    cases v with
    | null =>
      cases j with
      | str k =>
        have := hk k rfl
        simp [agree, valueOrFallbackHas, funcHas, Mode.view, Mode.real, svToValue, wrapSV, G.has, G.toGoJQ, Val.ofJV, baseHas, this, Val.toValue]
      | _ => simp [agree, valueOrFallbackHas, funcHas, Mode.view, Mode.real, svToValue, wrapSV, G.has, G.toGoJQ, Val.ofJV, baseHas, Val.toValue]
    | arr xs =>
      cases j with
      | int i =>
        simp only [valueOrFallbackHas, funcHas, Mode.view, Mode.real, svToValue, wrapSV, G.has, G.toGoJQ, Val.ofJV, if_true, Val.shallowM, toGoInt, ofJVs_length]
        split <;> (try simp_all [agree, baseHas, Val.toValue, Val.shallowM]) <;> (try assumption)
      | float f =>
        simp only [valueOrFallbackHas, funcHas, Mode.view, Mode.real, svToValue, wrapSV, G.has, G.toGoJQ, Val.ofJV, if_true, Val.shallowM, toGoInt, ofJVs_length]
        split <;> (try simp_all [agree, baseHas, Val.toValue, Val.shallowM]) <;> (try assumption)
      | _ => simp [agree, valueOrFallbackHas, funcHas, Mode.view, Mode.real, svToValue, wrapSV, G.has, G.toGoJQ, Val.ofJV, toGoInt, Val.shallowM]
    | obj kvs =>
      cases j with
      | str k =>
        have := hk k rfl
        simp only [valueOrFallbackHas, funcHas, Mode.view, Mode.real, svToValue, wrapSV, G.has, G.toGoJQ, Val.ofJV, if_true, objHas_ofJVkvs]
        split <;> (try simp_all [agree, baseHas, Val.toValue, Val.shallowM]) <;> (try assumption)
      | _ => simp [agree, valueOrFallbackHas, funcHas, Mode.view, Mode.real, svToValue, wrapSV, G.has, G.toGoJQ, Val.ofJV]
    | _ => cases j <;> simp [agree, valueOrFallbackHas, funcHas, Mode.view, Mode.real, svToValue, wrapSV, G.has, G.toGoJQ, Val.ofJV]

/-! ### `.[i]`, `.[a:b]`, `.[]` -/

theorem getElem?_ofJVs (xs : List JV) (n : Nat) : (Val.ofJVs xs)[n]? = xs[n]?.map Val.ofJV := by
  induction xs generalizing n with
  | nil => simp [Val.ofJVs]
  | cons x xs ih => cases n <;> simp [Val.ofJVs, ih]

theorem getElem?_toValueList (es : List DV) (n : Nat) : (DV.toValueList es)[n]? = es[n]?.map DV.toValue := by
  induction es generalizing n with
  | nil => simp [DV.toValueList]
  | cons e es ih => cases n <;> simp [DV.toValueList, ih]

theorem ofJVs_eq_map (xs : List JV) : Val.ofJVs xs = xs.map Val.ofJV := by
  induction xs with
  | nil => rfl
  | cons x xs ih => simp [Val.ofJVs, ih]

theorem toValueList_eq_map (es : List DV) : DV.toValueList es = es.map DV.toValue := by
  induction es with
  | nil => rfl
  | cons e es ih => simp [DV.toValueList, ih]

theorem val_toValueList_eq_map (xs : List Val) : Val.toValueList xs = xs.map Val.toValue := by
  induction xs with
  | nil => rfl
  | cons x xs ih => simp [Val.toValueList, ih]

theorem clampIndex_range (i mn mx : Int) (h : mn ≤ mx) : mn ≤ clampIndex i mn mx ∧ clampIndex i mn mx ≤ mx := by
  unfold clampIndex
  simp only
  split <;> split <;> (try split) <;> omega

/-- `.[i]` on a decoded array -/
theorem index_array (es : List DV) (i : Int) :
    agree (indexInt Mode.real (.dv (.array es)) i) (indexInt Mode.real (Val.ofJV (DV.toValue (.array es))) i) := by
  simp only [indexInt, Mode.view, Mode.real, if_true, DV.mSliceLen, DV.toValue, Val.ofJV, ofJVs_length, toValueList_length, DV.mIndex]
  generalize clampIndex (clampGoInt i) (-1) ↑es.length = j
  by_cases h1 : j < 0
  · have : ¬ (0 ≤ j) := by omega
    simp [h1, this, agree]
  · by_cases h2 : j ≥ ↑es.length
    · have : ¬ (j < ↑es.length) := by omega
      simp [h1, h2, this, agree]
    · have h3 : j < ↑es.length := by omega
      have h4 : 0 ≤ j := by omega
      have hn : j.toNat < es.length := by omega
      simp only [h1, h2, h3, h4, if_false, decide_true, Bool.and_self, if_true, goIndex, okVal]
      rw [getElem?_ofJVs, getElem?_toValueList]
      simp [List.getElem?_eq_getElem hn, okVal, agree, Val.toValue, toValue_ofJV]


/-- the index is inside the string (the known finding string-index-out-of-range is about the others) -/
def InRange (s : Bytes) (i : Int) : Prop :=
  0 ≤ clampIndex (clampGoInt i) (-1) (chunks s).length ∧
    clampIndex (clampGoInt i) (-1) (chunks s).length < (chunks s).length

/-- `.[i]` on a decoded string with runes `rs` against the plain string `t`, when the rune chunks
    of `t` correspond to `rs` -/
theorem strIndex_gen (rs : List Nat) (t : Bytes) (i : Int) (hlen : (chunks t).length = rs.length)
    (hch : ∀ (j : Nat) (h1 : j < rs.length) (h2 : j < (chunks t).length),
      encodeRune (decode1 ((chunks t)[j])).1 = encodeRune (rs[j]))
    (h : InRange t i) :
    agree
      (match (Outcome.ok (Val.int ↑rs.length) : Outcome Val) with
        | .ok (.int l) =>
          let j := clampIndex (clampGoInt i) (-1) l
          let j := if j < 0 then -2 else if j ≥ l then -1 else j
          strIndex rs j
        | r => r)
      (indexInt Mode.real (.str t) i) := by
  obtain ⟨h1, h2⟩ := h
  simp only [indexInt, Mode.view, Mode.real, if_true, ← hlen]
  generalize hj : clampIndex (clampGoInt i) (-1) ↑(chunks t).length = j at h1 h2
  have hn : j.toNat < (chunks t).length := by omega
  have h3 : ¬ j < 0 := by omega
  have h4 : ¬ j ≥ ↑(chunks t).length := by omega
  have hn' : j.toNat < rs.length := by omega
  simp only [h3, h4, if_false, strIndex, goIndex, h1, h2, decide_true, Bool.and_self, if_true,
    List.getElem?_eq_getElem hn, List.getElem?_eq_getElem hn', Option.getD_some, agree, Val.toValue]
  rw [hch j.toNat hn' hn]

theorem strIndex_same (s : Bytes) (i : Int) (h : InRange s i) :
    agree
      (match (Outcome.ok (Val.int ↑(decodeRunes s).length) : Outcome Val) with
        | .ok (.int l) =>
          let j := clampIndex (clampGoInt i) (-1) l
          let j := if j < 0 then -2 else if j ≥ l then -1 else j
          strIndex (decodeRunes s) j
        | r => r)
      (indexInt Mode.real (.str s) i) :=
  strIndex_gen (decodeRunes s) s i (by simp [decodeRunes]) (by intro j h1 h2; simp [decodeRunes]) h

theorem strIndex_sanitized (s : Bytes) (i : Int) (h : InRange (sanitize s) i) :
    agree
      (match (Outcome.ok (Val.int ↑(decodeRunes s).length) : Outcome Val) with
        | .ok (.int l) =>
          let j := clampIndex (clampGoInt i) (-1) l
          let j := if j < 0 then -2 else if j ≥ l then -1 else j
          strIndex (decodeRunes s) j
        | r => r)
      (indexInt Mode.real (.str (sanitize s)) i) := by
  refine strIndex_gen (decodeRunes s) (sanitize s) i (by rw [chunks_sanitize]; simp) ?_ h
  intro j h1 h2
  have : (chunks (sanitize s))[j] = encodeRune ((decodeRunes s)[j]) := by
    simp [chunks_sanitize]
  rw [this, decode1_encodeRune_nil, encodeRune_fixRune]

theorem index_sv (sv : SV) (y : Bool) (i : Int)
    (hr : ∀ s, svToValue sv y = .str s → InRange s i) :
    agree (match (wrapSV sv).sliceLen with
        | .ok (.int l) =>
          let j := clampIndex (clampGoInt i) (-1) l
          let j := if j < 0 then -2 else if j ≥ l then -1 else j
          (wrapSV sv).index j
        | r => r)
      (indexInt Mode.real (Val.ofJV (svToValue sv y)) i) := by
  cases sv with
  | raw bs =>
    cases y with
    | true =>
      have := hr (sanitize bs) (by simp [svToValue])
      simp only [svToValue, wrapSV, G.sliceLen, G.index, if_true, Val.ofJV]
      exact strIndex_sanitized bs i this
    | false =>
      have := hr bs (by simp [svToValue])
      simp only [svToValue, wrapSV, G.sliceLen, G.index, Val.ofJV]
      exact strIndex_same bs i this
  | j v =>
    cases v with
    | str s =>
      have := hr (sanitize s) (by simp [svToValue, wrapSV, G.toGoJQ, sanitize])
      simp only [svToValue, wrapSV, G.sliceLen, G.index, G.toGoJQ, Val.ofJV]
      exact strIndex_sanitized s i this
    | arr xs =>
      simp only [svToValue, wrapSV, G.sliceLen, G.index, G.toGoJQ, Val.ofJV, indexInt, Mode.view, Mode.real, if_true, ofJVs_length]
      generalize clampIndex (clampGoInt i) (-1) ↑xs.length = j
      by_cases h1 : j < 0
      · have : ¬ (0 ≤ j) := by omega
        simp [h1, this, agree]
      · by_cases h2 : j ≥ ↑xs.length
        · have : ¬ (j < ↑xs.length) := by omega
          simp [h1, h2, this, agree]
        · have h3 : j < ↑xs.length := by omega
          have h4 : 0 ≤ j := by omega
          have hn : j.toNat < xs.length := by omega
          simp only [h1, h2, h3, h4, if_false, decide_true, Bool.and_self, if_true, goIndex]
          rw [getElem?_ofJVs]
          simp [List.getElem?_eq_getElem hn, agree]
    | null => simp [svToValue, wrapSV, G.sliceLen, G.toGoJQ, Val.ofJV, indexInt, Mode.view, Mode.real, agree]
    | _ => simp [svToValue, wrapSV, G.sliceLen, G.toGoJQ, Val.ofJV, indexInt, Mode.view, Mode.real, agree]

/-! ### `.[a:b]` -/

theorem slice_bounds (l : Int) (hl : 0 ≤ l) (s e : Option Int) :
    let start := match s with
      | some i => clampIndex (clampGoInt i) 0 l
      | none => 0
    let stop := match e with
      | some i => clampIndex (clampGoInt i) start l
      | none => l
    0 ≤ start ∧ start ≤ stop ∧ stop ≤ l := by
  intro start stop
  have h1 : 0 ≤ start ∧ start ≤ l := by
    cases s with
    | none => exact ⟨Int.le_refl 0, hl⟩
    | some i => exact clampIndex_range _ 0 l hl
  have h2 : start ≤ stop ∧ stop ≤ l := by
    cases e with
    | none => exact ⟨h1.2, Int.le_refl l⟩
    | some i => exact clampIndex_range _ start l h1.2
  exact ⟨h1.1, h2.1, h2.2⟩

def IsStr : JV → Prop
  | .str _ => True
  | _ => False

theorem goSlice_ok {α} (xs : List α) (a b : Int) (h0 : 0 ≤ a) (h1 : a ≤ b) (h2 : b ≤ ↑xs.length) :
    goSlice xs a b = .ok ((xs.drop a.toNat).take (b.toNat - a.toNat)) := by
  have : (decide (a < 0) || decide (b < a) || decide (b > ↑xs.length)) = false := by
    simp only [Bool.or_eq_false_iff, decide_eq_false_iff_not]; omega
  simp only [goSlice, this, Bool.false_eq_true, if_false]

theorem map_toValue_ofJV (xs : List JV) : xs.map (Val.toValue ∘ Val.ofJV) = xs := by
  induction xs with
  | nil => rfl
  | cons x xs ih => simp [toValue_ofJV, ih]

theorem slice_array_ab (es : List DV) (a b : Int) (h0 : 0 ≤ a) (h1 : a ≤ b) (h2 : b ≤ ↑es.length) :
    agree (DV.mSlice (.array es) a b)
      (.ok (.arr (((Val.ofJVs (DV.toValueList es)).drop a.toNat).take (b.toNat - a.toNat)))) := by
  have h3 : ¬ b < a := by omega
  simp only [DV.mSlice]
  rw [if_neg h3, goSlice_ok es a b h0 h1 h2]
  simp only [okVal, agree, Val.toValue]
  rw [val_toValueList_eq_map, val_toValueList_eq_map, ofJVs_eq_map, toValueList_eq_map]
  have : (Val.toValue ∘ Val.dv) = (Val.toValue ∘ Val.ofJV ∘ DV.toValue) := by
    funext d; simp [Val.toValue, toValue_ofJV]
  simp [List.map_drop, List.map_take, this]

theorem slice_array (es : List DV) (s e : Option Int) :
    agree (funcSlice Mode.real (.dv (.array es)) s e)
      (funcSlice Mode.real (Val.ofJV (DV.toValue (.array es))) s e) := by
  simp only [funcSlice, Mode.view, Mode.real, if_true, DV.mSliceLen, DV.toValue, Val.ofJV, ofJVs_length, toValueList_length]
  have hb := slice_bounds (↑es.length) (by omega) s e
  simp only at hb
  exact slice_array_ab es _ _ hb.1 hb.2.1 hb.2.2

theorem slice_garr_ab (xs : List JV) (a b : Int) (h0 : 0 ≤ a) (h1 : a ≤ b) (h2 : b ≤ ↑xs.length) :
    agree ((G.arr xs).slice a b)
      (.ok (.arr (((Val.ofJVs xs).drop a.toNat).take (b.toNat - a.toNat)))) := by
  simp only [G.slice]
  rw [goSlice_ok xs a b h0 h1 h2]
  simp only [agree, Val.toValue]
  rw [val_toValueList_eq_map, ofJVs_eq_map]
  simp [List.map_drop, List.map_take, map_toValue_ofJV]

/-- the decode-value branch of funcSlice for a scalar -/
def sliceSV (sv : SV) (s e : Option Int) : Outcome Val :=
  match (wrapSV sv).sliceLen with
  | .ok (.int l) =>
    (wrapSV sv).slice
      (match s with
        | some i => clampIndex (clampGoInt i) 0 l
        | none => 0)
      (match e with
        | some i => clampIndex (clampGoInt i) (match s with
          | some i => clampIndex (clampGoInt i) 0 l
          | none => 0) l
        | none => l)
  | r => r

theorem funcSlice_scalar (k : SKind) (sym : Option JV) (y : Bool) (s e : Option Int) :
    funcSlice Mode.real (.dv (.scalar k sym y)) s e = sliceSV (scalarValue k sym) s e := by
  simp only [funcSlice, Mode.view, Mode.real, if_true, DV.mSliceLen, DV.mSlice, wrapScalar, sliceSV]
  cases h : (wrapSV (scalarValue k sym)).sliceLen with
  | ok v => cases v <;> rfl
  | err e => rfl
  | panic w => rfl

theorem strSlice_ab (rs : List Nat) (t : Bytes) (a b : Int) (h0 : 0 ≤ a) (h1 : a ≤ b) (h2 : b ≤ ↑rs.length)
    (hch : chunks t = rs.map encodeRune) :
    agree (strSlice rs a b)
      (.ok (.str (((chunks t).drop a.toNat).take (b.toNat - a.toNat)).flatten)) := by
  simp only [strSlice, goSlice_ok rs a b h0 h1 h2, agree, Val.toValue, hch]
  rw [← List.map_drop, ← List.map_take, flatten_map_encodeRune]

/-- `.[a:b]` on a decoded string with runes `rs` against a plain string whose rune chunks are the
    encodings of `rs` -/
theorem strSlice_gen (rs : List Nat) (t : Bytes) (s e : Option Int) (hch : chunks t = rs.map encodeRune) :
    agree
      (match (Outcome.ok (Val.int ↑rs.length) : Outcome Val) with
        | .ok (.int l) =>
          strSlice rs
            (match s with
              | some i => clampIndex (clampGoInt i) 0 l
              | none => 0)
            (match e with
              | some i => clampIndex (clampGoInt i) (match s with
                | some i => clampIndex (clampGoInt i) 0 l
                | none => 0) l
              | none => l)
        | r => r)
      (funcSlice Mode.real (.str t) s e) := by
  have hlen : (chunks t).length = rs.length := by rw [hch]; simp
  simp only [funcSlice, Mode.view, Mode.real, if_true, hlen]
  have hb := slice_bounds (↑rs.length) (by omega) s e
  simp only at hb
  exact strSlice_ab rs t _ _ hb.1 hb.2.1 hb.2.2 hch

theorem slice_sv (sv : SV) (y : Bool) (s e : Option Int) (hr : svRawOK sv y) :
    agree (sliceSV sv s e) (funcSlice Mode.real (Val.ofJV (svToValue sv y)) s e) := by
  cases sv with
  | raw bs =>
    cases y with
    | true =>
      simp only [sliceSV, svToValue, wrapSV, G.sliceLen, G.slice, if_true, Val.ofJV]
      exact strSlice_gen (decodeRunes bs) (sanitize bs) s e (chunks_sanitize bs)
    | false =>
      simp only [svRawOK] at hr
      simp only [sliceSV, svToValue, wrapSV, G.sliceLen, G.slice, Val.ofJV]
      have : chunks bs = (decodeRunes bs).map encodeRune := by
        conv => lhs; rw [← hr]
        exact chunks_sanitize bs
      exact strSlice_gen (decodeRunes bs) bs s e this
  | j v =>
    cases v with
    | str s' =>
      simp only [sliceSV, svToValue, wrapSV, G.sliceLen, G.slice, G.toGoJQ, Val.ofJV]
      exact strSlice_gen (decodeRunes s') (sanitize s') s e (chunks_sanitize s')
    | arr xs =>
      simp only [sliceSV, svToValue, wrapSV, G.sliceLen, G.toGoJQ, Val.ofJV, funcSlice, Mode.view, Mode.real, if_true, ofJVs_length]
      have hb := slice_bounds (↑xs.length) (by omega) s e
      simp only at hb
      exact slice_garr_ab xs _ _ hb.1 hb.2.1 hb.2.2
    | null => simp [sliceSV, svToValue, wrapSV, G.sliceLen, G.toGoJQ, Val.ofJV, funcSlice, Mode.view, Mode.real, agree]
    | _ => simp [sliceSV, svToValue, wrapSV, G.sliceLen, G.toGoJQ, Val.ofJV, funcSlice, Mode.view, Mode.real, agree]

/-! ### deep values: tojson, tostring, comparison -/

mutual
/-- (D4) does not apply anywhere below: every raw-bits field whose bytes `tovalue` keeps is valid UTF-8 -/
def RawOKDeep : DV → Prop
  | .struct fs => RawOKFields fs
  | .array es => RawOKList es
  | .scalar k sym y => svRawOK (scalarValue k sym) y
def RawOKList : List DV → Prop
  | [] => True
  | d :: ds => RawOKDeep d ∧ RawOKList ds
def RawOKFields : List (Bytes × DV) → Prop
  | [] => True
  | (_, d) :: fs => RawOKDeep d ∧ RawOKFields fs
end

theorem goJQ_scalar (k : SKind) (sym : Option JV) (y : Bool) (h : svRawOK (scalarValue k sym) y) :
    DV.goJQ (.scalar k sym y) = DV.toValue (.scalar k sym y) := by
  rw [toValue_scalar]
  simp only [DV.goJQ, wrapScalar]
  generalize scalarValue k sym = sv at h
  cases sv with
  | raw bs =>
    cases y with
    | true => simp [svToValue, wrapSV, G.toGoJQ]
    | false => simp only [svRawOK] at h; simp [svToValue, wrapSV, G.toGoJQ, h]
  | j v => rfl

mutual
theorem goJQ_eq_toValue : ∀ d : DV, RawOKDeep d → d.goJQ = d.toValue
  | .struct fs, h => by
    simp only [RawOKDeep] at h
    simp [DV.goJQ, DV.toValue, goJQfields_eq fs h]
  | .array es, h => by
    simp only [RawOKDeep] at h
    simp [DV.goJQ, DV.toValue, goJQlist_eq es h]
  | .scalar k sym y, h => by
    simp only [RawOKDeep] at h
    exact goJQ_scalar k sym y h
theorem goJQlist_eq : ∀ es : List DV, RawOKList es → DV.goJQlist es = DV.toValueList es
  | [], _ => rfl
  | d :: ds, h => by
    simp only [RawOKList] at h
    simp [DV.goJQlist, DV.toValueList, goJQ_eq_toValue d h.1, goJQlist_eq ds h.2]
theorem goJQfields_eq : ∀ fs : List (Bytes × DV), RawOKFields fs → DV.goJQfields fs = DV.toValueFields fs
  | [], _ => rfl
  | (k, d) :: fs, h => by
    simp only [RawOKFields] at h
    simp [DV.goJQfields, DV.toValueFields, goJQ_eq_toValue d h.1, goJQfields_eq fs h.2]
end

mutual
theorem deepM_ofJV (m : Mode) : ∀ j : JV, (Val.ofJV j).deepM m = j
  | .null => rfl
  | .bool _ => rfl
  | .int _ => rfl
  | .float _ => rfl
  | .str _ => rfl
  | .arr xs => by simp [Val.ofJV, Val.deepM, deepMList_ofJVs m xs]
  | .obj kvs => by simp [Val.ofJV, Val.deepM, deepMKvs_ofJVkvs m kvs]
theorem deepMList_ofJVs (m : Mode) : ∀ xs : List JV, Val.deepMList m (Val.ofJVs xs) = xs
  | [] => rfl
  | x :: xs => by simp [Val.ofJVs, Val.deepMList, deepM_ofJV m x, deepMList_ofJVs m xs]
theorem deepMKvs_ofJVkvs (m : Mode) : ∀ kvs : List (Bytes × JV), Val.deepMKvs m (Val.ofJVkvs kvs) = kvs
  | [] => rfl
  | (k, v) :: kvs => by simp [Val.ofJVkvs, Val.deepMKvs, deepM_ofJV m v, deepMKvs_ofJVkvs m kvs]
end

/-! ### `.[]` -/

def tvPair (p : Val × Val) : JV × JV := (p.1.toValue, p.2.toValue)

theorem map_tvPair_zip_ofJVs (ks : List Val) (xs : List JV) :
    (ks.zip (Val.ofJVs xs)).map tvPair = (ks.map Val.toValue).zip xs := by
  induction ks generalizing xs with
  | nil => simp
  | cons k ks ih =>
    cases xs with
    | nil => simp [Val.ofJVs]
    | cons x xs => simp [Val.ofJVs, tvPair, toValue_ofJV, ih]

theorem map_tvPair_zip_dv (ks : List Val) (es : List DV) :
    (ks.zip (es.map Val.dv)).map tvPair = (ks.map Val.toValue).zip (DV.toValueList es) := by
  induction ks generalizing es with
  | nil => simp
  | cons k ks ih =>
    cases es with
    | nil => simp [DV.toValueList]
    | cons e es => simp [DV.toValueList, tvPair, Val.toValue, ih]

theorem map_tvPair_fields (fs : List (Bytes × DV)) :
    (fs.map (fun f => (Val.str f.1, Val.dv f.2))).map tvPair
      = (DV.toValueFields fs).map (fun kv => (JV.str kv.1, kv.2)) := by
  induction fs with
  | nil => rfl
  | cons f fs ih => obtain ⟨k, d⟩ := f; simp [DV.toValueFields, tvPair, Val.toValue] at ih ⊢; exact ih

theorem map_tvPair_ofJVkvs (kvs : List (Bytes × JV)) :
    ((Val.ofJVkvs kvs).map (fun kv => (Val.str kv.1, kv.2))).map tvPair
      = kvs.map (fun kv => (JV.str kv.1, kv.2)) := by
  induction kvs with
  | nil => rfl
  | cons kv kvs ih => obtain ⟨k, v⟩ := kv; simp [Val.ofJVkvs, tvPair, Val.toValue, toValue_ofJV] at ih ⊢; exact ih

/-- the (path, value) pairs of `.[]`, as plain values -/
def eachTV : Outcome (List (Val × Val)) → Outcome (List (JV × JV))
  | .ok ps => .ok (ps.map tvPair)
  | .err e => .err e
  | .panic w => .panic w

theorem each_sv (sv : SV) (y : Bool) :
    match (wrapSV sv).each, opEach Mode.real (Val.ofJV (svToValue sv y)) with
    | .ok ps, .ok qs => ps.map tvPair = qs.map tvPair
    | .err _, .err _ => True
    | _, _ => False := by
  cases sv with
  | raw bs => cases y <;> simp [svToValue, wrapSV, G.each, opEach, Mode.view, Mode.real, Val.ofJV]
  | j v =>
    cases v with
    | arr xs => simp [svToValue, wrapSV, G.each, G.toGoJQ, opEach, Mode.view, Mode.real, Val.ofJV, ofJVs_length]
    | obj kvs =>
      simp only [svToValue, wrapSV, G.each, G.toGoJQ, opEach, Mode.view, Mode.real, Val.ofJV, if_true]
      rw [map_tvPair_ofJVkvs]
      induction kvs with
      | nil => rfl
      | cons kv kvs ih => obtain ⟨k, v⟩ := kv; simp [tvPair, Val.toValue] at ih ⊢; exact ⟨toValue_ofJV v, ih⟩
    | _ => simp [svToValue, wrapSV, G.each, G.toGoJQ, opEach, Mode.view, Mode.real, Val.ofJV]


/-! ### jq's tostring -/

theorem funcToString_eq (m : Mode) (ff : UInt64 → Option Bytes) (v : Val) :
    funcToString m ff v = (match v.shallowM m with
      | .str s => .ok (.str s)
      | _ => funcToJSON m ff v) := rfl

theorem shallowM_struct (fs : List (Bytes × DV)) :
    (Val.dv (.struct fs)).shallowM Mode.real
      = .obj (objOfList (fs.map (fun f => (f.1, Val.dv f.2)))) := rfl

theorem shallowM_array (es : List DV) :
    (Val.dv (.array es)).shallowM Mode.real = .arr (es.map Val.dv) := rfl

theorem shallowM_scalar (k : SKind) (sym : Option JV) (y : Bool) :
    (Val.dv (.scalar k sym y)).shallowM Mode.real = Val.ofJV (wrapScalar k sym).toGoJQ := rfl

end Proofs.C08
