import FqModel.JQValue
import Proofs.C08
import Proofs.C08Utf8
import Proofs.C08Methods
import Proofs.C08Spec
import Proofs.C08Plain
/-!
  C08 — (D1) in general. Byte-string order is a strict total order; a Go map (`objOfList`) is sorted;
  `DV.sortFields` puts the members of every struct in sorted order; `tovalue` does not see the
  difference (`toValue_sortFields`) and the result is `GoodDV` (`good_sortFields`).
-/
namespace Proofs.C08
open FqModel FqModel.JQValue

theorem bytesLt_trans (a b c : Bytes) (h1 : bytesLt a b = true) (h2 : bytesLt b c = true) : bytesLt a c = true := by
  induction a generalizing b c with
  | nil =>
    cases b with
    | nil => simp [bytesLt] at h1
    | cons y ys => cases c <;> simp_all [bytesLt]
  | cons x xs ih =>
    cases b with
    | nil => simp [bytesLt] at h1
    | cons y ys =>
      cases c with
      | nil => simp [bytesLt] at h2
      | cons z zs =>
        simp only [bytesLt] at h1 h2 ⊢
        by_cases hxy : x < y
        · by_cases hyz : y < z
          · have : x < z := by rw [UInt8.lt_iff_toNat_lt] at *; omega
            simp [this]
          · by_cases hzy : z < y
            · simp [hyz, hzy] at h2
            · have hyz' : y = z := by
                apply UInt8.toNat_inj.mp
                rw [UInt8.lt_iff_toNat_lt] at hyz hzy; omega
              subst hyz'; simp [hxy]
        · by_cases hyx : y < x
          · simp [hxy, hyx] at h1
          · have hxy' : x = y := by
              apply UInt8.toNat_inj.mp
              rw [UInt8.lt_iff_toNat_lt] at hxy hyx; omega
            subst hxy'
            simp only [hxy, if_false] at h1
            by_cases hxz : x < z
            · simp [hxz]
            · by_cases hzx : z < x
              · simp [hxz, hzx] at h2
              · simp only [hxz, hzx, if_false] at h2 ⊢
                exact ih ys zs h1 h2

theorem bytesLt_total (a b : Bytes) (h1 : bytesLt a b = false) (h2 : bytesEq a b = false) : bytesLt b a = true := by
  induction a generalizing b with
  | nil => cases b <;> simp_all [bytesLt, bytesEq]
  | cons x xs ih =>
    cases b with
    | nil => simp [bytesLt]
    | cons y ys =>
      simp only [bytesLt, bytesEq] at h1 h2 ⊢
      by_cases hxy : x < y
      · simp [hxy] at h1
      · by_cases hyx : y < x
        · simp [hyx]
        · have hxy' : x = y := by
            apply UInt8.toNat_inj.mp
            rw [UInt8.lt_iff_toNat_lt] at hxy hyx; omega
          subst hxy'
          simp only [hxy, if_false, beq_self_eq_true, Bool.true_and] at h1 h2 ⊢
          exact ih ys h1 h2

/-! ### a Go map is sorted -/

theorem mem_objSet {α} (k : Bytes) (v : α) (m : List (Bytes × α)) (kv : Bytes × α) (h : kv ∈ objSet k v m) :
    kv = (k, v) ∨ kv ∈ m := by
  induction m with
  | nil => simp [objSet] at h; exact Or.inl h
  | cons x rest ih =>
    obtain ⟨k', v'⟩ := x
    simp only [objSet] at h
    split at h
    · simp only [List.mem_cons] at h ⊢; rcases h with h | h | h <;> simp [h]
    · split at h
      · simp only [List.mem_cons] at h ⊢; rcases h with h | h <;> simp [h]
      · simp only [List.mem_cons] at h ⊢
        rcases h with h | h
        · simp [h]
        · rcases ih h with h' | h' <;> simp [h']

theorem objSet_sorted {α} (k : Bytes) (v : α) (m : List (Bytes × α)) (hs : KeysSorted m) : KeysSorted (objSet k v m) := by
  induction m with
  | nil => simp [objSet, KeysSorted]
  | cons x rest ih =>
    obtain ⟨k', v'⟩ := x
    simp only [KeysSorted, List.map_cons, List.pairwise_cons] at hs
    obtain ⟨hk', hrest⟩ := hs
    simp only [objSet]
    split
    · rename_i hlt
      simp only [KeysSorted, List.map_cons, List.pairwise_cons]
      refine ⟨?_, hk', hrest⟩
      intro a ha
      rcases List.mem_cons.mp ha with rfl | ha
      · exact hlt
      · exact bytesLt_trans _ _ _ hlt (hk' a ha)
    · split
      · rename_i hnlt heq
        have : k = k' := (bytesEq_iff k k').mp heq
        subst this
        simp only [KeysSorted, List.map_cons, List.pairwise_cons]
        exact ⟨hk', hrest⟩
      · rename_i hnlt hneq
        have hlt : bytesLt k' k = true := bytesLt_total k k' (by simpa using hnlt) (by simpa using hneq)
        have ih' := ih hrest
        simp only [KeysSorted, List.map_cons, List.pairwise_cons]
        refine ⟨?_, ih'⟩
        intro a ha
        obtain ⟨kv, hkv, rfl⟩ := List.mem_map.mp ha
        rcases mem_objSet k v rest kv hkv with rfl | h
        · exact hlt
        · exact hk' kv.1 (List.mem_map_of_mem h)

theorem foldl_objSet_sorted' {α} (kvs acc : List (Bytes × α)) (hs : KeysSorted acc) :
    KeysSorted (kvs.foldl (fun m kv => objSet kv.1 kv.2 m) acc) := by
  induction kvs generalizing acc with
  | nil => exact hs
  | cons kv rest ih => exact ih _ (objSet_sorted kv.1 kv.2 acc hs)

theorem objOfList_keysSorted {α} (kvs : List (Bytes × α)) : KeysSorted (objOfList kvs) :=
  foldl_objSet_sorted' kvs [] (by simp [KeysSorted])

theorem objOfList_idem {α} (kvs : List (Bytes × α)) : objOfList (objOfList kvs) = objOfList kvs :=
  objOfList_sorted _ (objOfList_keysSorted kvs)

theorem mem_foldl_objSet {α} (kvs acc : List (Bytes × α)) (x : Bytes × α)
    (h : x ∈ kvs.foldl (fun m kv => objSet kv.1 kv.2 m) acc) : x ∈ acc ∨ x ∈ kvs := by
  induction kvs generalizing acc with
  | nil => exact Or.inl h
  | cons kv rest ih =>
    simp only [List.foldl_cons] at h
    rcases ih _ h with h1 | h1
    · rcases mem_objSet kv.1 kv.2 acc x h1 with h2 | h2
      · right; simp [h2]
      · left; exact h2
    · right; simp [h1]

theorem mem_objOfList {α} (kvs : List (Bytes × α)) (x : Bytes × α) (h : x ∈ objOfList kvs) : x ∈ kvs := by
  rcases mem_foldl_objSet kvs [] x h with h1 | h1
  · simp at h1
  · exact h1

theorem objSet_map {α β} (g : α → β) (k : Bytes) (x : α) (m : List (Bytes × α)) :
    objSet k (g x) (m.map (fun kv => (kv.1, g kv.2))) = (objSet k x m).map (fun kv => (kv.1, g kv.2)) := by
  induction m with
  | nil => rfl
  | cons kv m ih =>
    obtain ⟨k', y⟩ := kv
    simp only [List.map_cons, objSet]
    split
    · rfl
    · split
      · rfl
      · simp [ih]

theorem objOfList_map {α β} (g : α → β) (kvs : List (Bytes × α)) :
    objOfList (kvs.map (fun kv => (kv.1, g kv.2))) = (objOfList kvs).map (fun kv => (kv.1, g kv.2)) := by
  have : ∀ acc : List (Bytes × α),
      (kvs.map (fun kv => (kv.1, g kv.2))).foldl (fun m kv => objSet kv.1 kv.2 m) (acc.map (fun kv => (kv.1, g kv.2)))
        = (kvs.foldl (fun m kv => objSet kv.1 kv.2 m) acc).map (fun kv => (kv.1, g kv.2)) := by
    induction kvs with
    | nil => intro acc; rfl
    | cons kv rest ih =>
      intro acc
      simp only [List.map_cons, List.foldl_cons]
      rw [objSet_map, ih]
  simpa [objOfList] using this []

/-! ### (D1) in general: putting the members of every struct in sorted order -/

mutual
/-- the same decode tree with the members of every struct in sorted order -/
def DV.sortFields : DV → DV
  | .struct fs => .struct (objOfList (DV.sortFieldsF fs))
  | .array es => .array (DV.sortFieldsL es)
  | .scalar k sym y => .scalar k sym y
def DV.sortFieldsL : List DV → List DV
  | [] => []
  | d :: ds => DV.sortFields d :: DV.sortFieldsL ds
def DV.sortFieldsF : List (Bytes × DV) → List (Bytes × DV)
  | [] => []
  | (k, d) :: fs => (k, DV.sortFields d) :: DV.sortFieldsF fs
end

mutual
/-- `tovalue` does not see the member order -/
theorem toValue_sortFields : ∀ d : DV, (DV.sortFields d).toValue = d.toValue
  | .struct fs => by
    simp only [DV.sortFields, DV.toValue]
    rw [toValueFields_eq_map, ← objOfList_map, objOfList_idem, ← toValueFields_eq_map, toValueFields_sortFieldsF fs]
  | .array es => by simp only [DV.sortFields, DV.toValue, toValueList_sortFieldsL es]
  | .scalar _ _ _ => rfl
theorem toValueList_sortFieldsL : ∀ es : List DV, DV.toValueList (DV.sortFieldsL es) = DV.toValueList es
  | [] => rfl
  | d :: ds => by simp [DV.sortFieldsL, DV.toValueList, toValue_sortFields d, toValueList_sortFieldsL ds]
theorem toValueFields_sortFieldsF : ∀ fs : List (Bytes × DV), DV.toValueFields (DV.sortFieldsF fs) = DV.toValueFields fs
  | [] => rfl
  | (k, d) :: fs => by simp [DV.sortFieldsF, DV.toValueFields, toValue_sortFields d, toValueFields_sortFieldsF fs]
end

mutual
/-- (D4) does not apply and no decoded -2^63, everywhere below (no condition on member order) -/
def ScalarsOK : DV → Prop
  | .struct fs => ScalarsOKF fs
  | .array es => ScalarsOKL es
  | .scalar k sym y => svRawOK (scalarValue k sym) y ∧ svNotMinInt (scalarValue k sym)
def ScalarsOKL : List DV → Prop
  | [] => True
  | d :: ds => ScalarsOK d ∧ ScalarsOKL ds
def ScalarsOKF : List (Bytes × DV) → Prop
  | [] => True
  | (_, d) :: fs => ScalarsOK d ∧ ScalarsOKF fs
end

mutual
theorem good_sortFields : ∀ d : DV, ScalarsOK d → GoodDV (DV.sortFields d)
  | .struct fs, h => by
    simp only [ScalarsOK] at h
    simp only [DV.sortFields, GoodDV]
    refine ⟨objOfList_keysSorted _, ?_⟩
    rw [goodFields_iff]
    intro f hf
    exact (goodFields_iff _).mp (good_sortFieldsF fs h) f (mem_objOfList _ f hf)
  | .array es, h => by
    simp only [ScalarsOK] at h
    simp only [DV.sortFields, GoodDV]
    exact good_sortFieldsL es h
  | .scalar k sym y, h => by
    simp only [ScalarsOK] at h
    simpa [DV.sortFields, GoodDV] using h
theorem good_sortFieldsL : ∀ es : List DV, ScalarsOKL es → GoodDVs (DV.sortFieldsL es)
  | [], _ => trivial
  | d :: ds, h => by
    simp only [ScalarsOKL] at h
    exact ⟨good_sortFields d h.1, good_sortFieldsL ds h.2⟩
theorem good_sortFieldsF : ∀ fs : List (Bytes × DV), ScalarsOKF fs → GoodFields (DV.sortFieldsF fs)
  | [], _ => trivial
  | (k, d) :: fs, h => by
    simp only [ScalarsOKF] at h
    exact ⟨good_sortFields d h.1, good_sortFieldsF fs h.2⟩
end

end Proofs.C08
