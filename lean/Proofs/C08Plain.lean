import FqModel.JQValue
import Proofs.C08
import Proofs.C08Utf8
import Proofs.C08Methods
import Proofs.C08Spec
/-!
  C08 — the executable specification against plain gojq on `tovalue`, for whole queries:
  `eval_sim`: for every query of the mini-jq that names no `_` extra key and every Good evaluation
  value (struct members in sorted order: (D1) does not apply; raw bits valid UTF-8: (D4) does not
  apply), the specification with plain key lookup (`Mode.strict`: (D3) switched off) produces, output
  by output, values whose tovalue is what plain gojq produces on the tovalue of the input, and ends
  the same way. By simulation: every builtin commutes with `plainify` (= tovalue throughout).
-/
namespace Proofs.C08
open FqModel FqModel.JQValue

/-! ### byte order -/

theorem bytesLt_asymm (a b : Bytes) (h : bytesLt a b = true) : bytesLt b a = false := by
  induction a generalizing b with
  | nil => cases b <;> simp_all [bytesLt]
  | cons x xs ih =>
    cases b with
    | nil => simp [bytesLt] at h
    | cons y ys =>
      simp only [bytesLt] at h ⊢
      by_cases h1 : x < y
      · have : ¬ y < x := by rw [UInt8.lt_iff_toNat_lt] at *; omega
        simp [this, h1]
      · by_cases h2 : y < x
        · simp [h1, h2] at h
        · simp only [h1, h2, if_false] at h ⊢
          exact ih ys h

theorem bytesLt_ne (a b : Bytes) (h : bytesLt a b = true) : a ≠ b := by
  intro e; subst e; rw [bytesLt_irrefl] at h; cases h

/-- assigning a key greater than all keys of the map appends it -/
theorem objSet_append {α} (k : Bytes) (v : α) (m : List (Bytes × α))
    (h : ∀ kv ∈ m, bytesLt kv.1 k = true) : objSet k v m = m ++ [(k, v)] := by
  induction m with
  | nil => rfl
  | cons kv rest ih =>
    obtain ⟨k', v'⟩ := kv
    have hk := h (k', v') (by simp)
    have h1 : bytesLt k k' = false := bytesLt_asymm k' k hk
    have h2 : bytesEq k k' = false := bytesEq_false_of_ne (fun e => bytesLt_ne k' k hk e.symm)
    simp only [objSet, h1, h2, Bool.false_eq_true, if_false, List.cons_append]
    rw [ih (fun kv hkv => h kv (by simp [hkv]))]

def KeysSorted {α} (kvs : List (Bytes × α)) : Prop :=
  (kvs.map (·.1)).Pairwise (fun a b => bytesLt a b = true)

theorem foldl_objSet_sorted {α} (kvs acc : List (Bytes × α)) (hs : KeysSorted kvs)
    (hacc : ∀ a ∈ acc, ∀ r ∈ kvs, bytesLt a.1 r.1 = true) :
    kvs.foldl (fun m kv => objSet kv.1 kv.2 m) acc = acc ++ kvs := by
  induction kvs generalizing acc with
  | nil => simp
  | cons kv rest ih =>
    simp only [List.foldl_cons]
    have hs' : KeysSorted rest := by
      simp only [KeysSorted, List.map_cons, List.pairwise_cons] at hs; exact hs.2
    have hlt : ∀ r ∈ rest, bytesLt kv.1 r.1 = true := by
      simp only [KeysSorted, List.map_cons, List.pairwise_cons] at hs
      intro r hr; exact hs.1 r.1 (List.mem_map_of_mem hr)
    rw [objSet_append kv.1 kv.2 acc (fun a ha => hacc a ha kv (by simp))]
    rw [ih (acc ++ [(kv.1, kv.2)]) hs' ?_]
    · simp
    · intro a ha r hr
      rcases List.mem_append.mp ha with h1 | h1
      · exact hacc a h1 r (by simp [hr])
      · simp only [List.mem_singleton] at h1; subst h1; exact hlt r hr

/-- a Go map built from pairs whose keys are strictly increasing is that list -/
theorem objOfList_sorted {α} (kvs : List (Bytes × α)) (hs : KeysSorted kvs) : objOfList kvs = kvs := by
  have := foldl_objSet_sorted kvs [] hs (by simp)
  simpa [objOfList] using this


/-! ### the values the exact statement is about -/

mutual
/-- (D1) does not apply: struct members are in sorted order (hence distinct);
    (D4) does not apply: raw bits that tovalue keeps are valid UTF-8 — everywhere below -/
def GoodDV : DV → Prop
  | .struct fs => KeysSorted fs ∧ GoodFields fs
  | .array es => GoodDVs es
  | .scalar k sym y => svRawOK (scalarValue k sym) y ∧ svNotMinInt (scalarValue k sym)
def GoodDVs : List DV → Prop
  | [] => True
  | d :: ds => GoodDV d ∧ GoodDVs ds
def GoodFields : List (Bytes × DV) → Prop
  | [] => True
  | (_, d) :: fs => GoodDV d ∧ GoodFields fs
end

mutual
/-- an evaluation value all of whose decode values are Good and that holds no extra-key value -/
def Good : Val → Prop
  | .arr xs => GoodList xs
  | .obj kvs => GoodKvs kvs
  | .dv d => GoodDV d
  | .ext _ => False
  | _ => True
def GoodList : List Val → Prop
  | [] => True
  | x :: xs => Good x ∧ GoodList xs
def GoodKvs : List (Bytes × Val) → Prop
  | [] => True
  | (_, x) :: kvs => Good x ∧ GoodKvs kvs
end

theorem goodDVs_iff (es : List DV) : GoodDVs es ↔ ∀ e ∈ es, GoodDV e := by
  induction es with
  | nil => simp [GoodDVs]
  | cons e es ih => simp [GoodDVs, ih]

theorem goodFields_iff (fs : List (Bytes × DV)) : GoodFields fs ↔ ∀ f ∈ fs, GoodDV f.2 := by
  induction fs with
  | nil => simp [GoodFields]
  | cons f fs ih => obtain ⟨k, d⟩ := f; simp [GoodFields, ih]

theorem goodList_iff (xs : List Val) : GoodList xs ↔ ∀ x ∈ xs, Good x := by
  induction xs with
  | nil => simp [GoodList]
  | cons x xs ih => simp [GoodList, ih]

theorem goodKvs_iff (kvs : List (Bytes × Val)) : GoodKvs kvs ↔ ∀ kv ∈ kvs, Good kv.2 := by
  induction kvs with
  | nil => simp [GoodKvs]
  | cons kv kvs ih => obtain ⟨k, x⟩ := kv; simp [GoodKvs, ih]

mutual
theorem good_ofJV : ∀ j : JV, Good (Val.ofJV j)
  | .null => trivial
  | .bool _ => trivial
  | .int _ => trivial
  | .float _ => trivial
  | .str _ => trivial
  | .arr xs => by simp only [Val.ofJV, Good]; exact goodList_ofJVs xs
  | .obj kvs => by simp only [Val.ofJV, Good]; exact goodKvs_ofJVkvs kvs
theorem goodList_ofJVs : ∀ xs : List JV, GoodList (Val.ofJVs xs)
  | [] => trivial
  | x :: xs => ⟨good_ofJV x, goodList_ofJVs xs⟩
theorem goodKvs_ofJVkvs : ∀ kvs : List (Bytes × JV), GoodKvs (Val.ofJVkvs kvs)
  | [] => trivial
  | (_, x) :: kvs => ⟨good_ofJV x, goodKvs_ofJVkvs kvs⟩
end

/-- the plain value of an evaluation value: `tovalue` applied throughout -/
def plainify (v : Val) : Val := Val.ofJV v.toValue

theorem plainify_ofJV (j : JV) : plainify (Val.ofJV j) = Val.ofJV j := by simp [plainify, toValue_ofJV]

theorem plainify_arr (xs : List Val) : plainify (.arr xs) = .arr (xs.map plainify) := by
  simp [plainify, Val.toValue, Val.ofJV, val_toValueList_eq_map, ofJVs_eq_map]

theorem val_toValueKvs_eq_map (kvs : List (Bytes × Val)) :
    Val.toValueKvs kvs = kvs.map (fun kv => (kv.1, kv.2.toValue)) := by
  induction kvs with
  | nil => rfl
  | cons kv kvs ih => obtain ⟨k, x⟩ := kv; simp [Val.toValueKvs, ih]

theorem ofJVkvs_eq_map (kvs : List (Bytes × JV)) : Val.ofJVkvs kvs = kvs.map (fun kv => (kv.1, Val.ofJV kv.2)) := by
  induction kvs with
  | nil => rfl
  | cons kv kvs ih => obtain ⟨k, x⟩ := kv; simp [Val.ofJVkvs, ih]

theorem plainify_obj (kvs : List (Bytes × Val)) :
    plainify (.obj kvs) = .obj (kvs.map (fun kv => (kv.1, plainify kv.2))) := by
  simp [plainify, Val.toValue, Val.ofJV, val_toValueKvs_eq_map, ofJVkvs_eq_map]

theorem plainify_garr (xs : List JV) : plainify (.garr xs) = .arr (Val.ofJVs xs) := rfl

theorem toValueFields_eq_map (fs : List (Bytes × DV)) :
    DV.toValueFields fs = fs.map (fun f => (f.1, f.2.toValue)) := by
  induction fs with
  | nil => rfl
  | cons f fs ih => obtain ⟨k, d⟩ := f; simp [DV.toValueFields, ih]

theorem keysSorted_map {α β} (kvs : List (Bytes × α)) (g : α → β) (h : KeysSorted kvs) :
    KeysSorted (kvs.map (fun kv => (kv.1, g kv.2))) := by
  simpa [KeysSorted, List.map_map, Function.comp_def] using h

theorem plainify_struct (fs : List (Bytes × DV)) (h : KeysSorted fs) :
    plainify (.dv (.struct fs)) = .obj (fs.map (fun f => (f.1, plainify (.dv f.2)))) := by
  have hs : KeysSorted (DV.toValueFields fs) := by
    rw [toValueFields_eq_map]; exact keysSorted_map fs _ h
  rw [toValueFields_eq_map] at hs
  simp [plainify, Val.toValue, DV.toValue, Val.ofJV, toValueFields_eq_map, objOfList_sorted _ hs, ofJVkvs_eq_map]

theorem plainify_array (es : List DV) :
    plainify (.dv (.array es)) = .arr (es.map (fun e => plainify (.dv e))) := by
  simp [plainify, Val.toValue, DV.toValue, Val.ofJV, toValueList_eq_map, ofJVs_eq_map]

theorem plainify_scalar (k : SKind) (sym : Option JV) (y : Bool) :
    plainify (.dv (.scalar k sym y)) = Val.ofJV (svToValue (scalarValue k sym) y) := by
  simp [plainify, Val.toValue, toValue_scalar]

/-- the view of a Good scalar is its tovalue -/
theorem svView_good (sv : SV) (y : Bool) (h : svRawOK sv y) : svView sv = Val.ofJV (svToValue sv y) := by
  cases sv with
  | raw bs =>
    cases y with
    | true => simp [svView, svToValue, Val.ofJV]
    | false => simp only [svRawOK] at h; simp [svView, svToValue, Val.ofJV, h]
  | j v => rfl

def Mode.strict : Mode := { impl := false, dNullKey := false }

theorem view_strict_scalar (k : SKind) (sym : Option JV) (y : Bool) :
    Mode.strict.view (.dv (.scalar k sym y)) = svView (scalarValue k sym) := by
  simp [Mode.view, Mode.strict, specView_scalar]

/-! ### deep values -/

theorem specDeep_scalar_good (k : SKind) (sym : Option JV) (y : Bool) (h : svRawOK (scalarValue k sym) y) :
    DV.specDeep (.scalar k sym y) = DV.toValue (.scalar k sym y) := by
  rw [← goJQ_specDeep_scalar]; exact goJQ_scalar k sym y h

mutual
theorem specDeep_good : ∀ d : DV, GoodDV d → d.specDeep = d.toValue
  | .struct fs, h => by
    simp only [GoodDV] at h
    simp [DV.specDeep, DV.toValue, specDeepFields_good fs h.2]
  | .array es, h => by
    simp only [GoodDV] at h
    simp [DV.specDeep, DV.toValue, specDeepList_good es h]
  | .scalar k sym y, h => by
    simp only [GoodDV] at h
    exact specDeep_scalar_good k sym y h.1
theorem specDeepList_good : ∀ es : List DV, GoodDVs es → DV.specDeepList es = DV.toValueList es
  | [], _ => rfl
  | d :: ds, h => by
    simp only [GoodDVs] at h
    simp [DV.specDeepList, DV.toValueList, specDeep_good d h.1, specDeepList_good ds h.2]
theorem specDeepFields_good : ∀ fs : List (Bytes × DV), GoodFields fs → DV.specDeepFields fs = DV.toValueFields fs
  | [], _ => rfl
  | (k, d) :: fs, h => by
    simp only [GoodFields] at h
    simp [DV.specDeepFields, DV.toValueFields, specDeep_good d h.1, specDeepFields_good fs h.2]
end

mutual
/-- what the encoder and Compare see of a Good value in the specification is its tovalue -/
theorem deepM_strict : ∀ v : Val, Good v → v.deepM Mode.strict = v.toValue
  | .null, _ => rfl
  | .bool _, _ => rfl
  | .int _, _ => rfl
  | .float _, _ => rfl
  | .str _, _ => rfl
  | .arr xs, h => by simp only [Good] at h; simp [Val.deepM, Val.toValue, deepMList_strict xs h]
  | .obj kvs, h => by simp only [Good] at h; simp [Val.deepM, Val.toValue, deepMKvs_strict kvs h]
  | .dv d, h => by simp only [Good] at h; simp [Val.deepM, Val.toValue, Mode.strict, specDeep_good d h]
  | .ext _, h => by simp [Good] at h
  | .garr _, _ => rfl
theorem deepMList_strict : ∀ xs : List Val, GoodList xs → Val.deepMList Mode.strict xs = Val.toValueList xs
  | [], _ => rfl
  | x :: xs, h => by
    simp only [GoodList] at h
    simp [Val.deepMList, Val.toValueList, deepM_strict x h.1, deepMList_strict xs h.2]
theorem deepMKvs_strict : ∀ kvs : List (Bytes × Val), GoodKvs kvs → Val.deepMKvs Mode.strict kvs = Val.toValueKvs kvs
  | [], _ => rfl
  | (k, x) :: kvs, h => by
    simp only [GoodKvs] at h
    simp [Val.deepMKvs, Val.toValueKvs, deepM_strict x h.1, deepMKvs_strict kvs h.2]
end

theorem deepM_plainify (m : Mode) (v : Val) : (plainify v).deepM m = v.toValue := deepM_ofJV m _

theorem cmp_sim (a b : Val) (ha : Good a) (hb : Good b) :
    Val.cmpM Mode.strict a b = Val.cmpM Mode.real (plainify a) (plainify b) := by
  simp only [Val.cmpM, deepM_strict a ha, deepM_strict b hb, deepM_plainify]


/-! ### simulation: the specification (strict key lookup) on a Good value against plain gojq on its tovalue -/

def Sim : Outcome Val → Outcome Val → Prop
  | .ok x, .ok y => y = plainify x ∧ Good x
  | .err e1, .err e2 => unm e1 = unm e2
  | .panic _, .panic _ => True
  | _, _ => False

def topPlain : Val → Bool
  | .dv _ => false
  | .garr _ => false
  | .ext _ => false
  | _ => true

theorem view_strict_top (w : Val) (h : topPlain w = true) : Mode.strict.view w = w := by
  cases w <;> simp_all [Mode.view, Mode.strict, topPlain]

theorem view_real (w : Val) : Mode.real.view w = w := by simp [Mode.view, Mode.real]

theorem svView_top (sv : SV) : topPlain (svView sv) = true := by
  cases sv with
  | raw bs => rfl
  | j v => cases v <;> rfl

/-- the view of a Good value: a Good, top-level plain value with the same tovalue -/
theorem view_good (v : Val) (h : Good v) :
    Good (Mode.strict.view v) ∧ topPlain (Mode.strict.view v) = true ∧ plainify (Mode.strict.view v) = plainify v := by
  cases v with
  | dv d =>
    cases d with
    | struct fs =>
      simp only [Good, GoodDV] at h
      refine ⟨?_, rfl, ?_⟩
      · simp only [Mode.view, Mode.strict, specView, Bool.false_eq_true, if_false, Good]
        rw [goodKvs_iff]
        intro kv hkv
        obtain ⟨f, hf, rfl⟩ := List.mem_map.mp hkv
        exact (goodFields_iff fs).mp h.2 f hf
      · simp only [Mode.view, Mode.strict, specView, Bool.false_eq_true, if_false]
        rw [plainify_struct fs h.1, plainify_obj]
        simp [List.map_map, Function.comp_def]
    | array es =>
      simp only [Good, GoodDV] at h
      refine ⟨?_, rfl, ?_⟩
      · simp only [Mode.view, Mode.strict, specView, Bool.false_eq_true, if_false, Good]
        rw [goodList_iff]
        intro x hx
        obtain ⟨e, he, rfl⟩ := List.mem_map.mp hx
        exact (goodDVs_iff es).mp h e he
      · simp only [Mode.view, Mode.strict, specView, Bool.false_eq_true, if_false]
        rw [plainify_array, plainify_arr]
        simp [List.map_map, Function.comp_def]
    | scalar k sym y =>
      simp only [Good, GoodDV] at h
      rw [view_strict_scalar, svView_good _ y h.1]
      exact ⟨good_ofJV _, by rw [← svView_good _ y h.1]; exact svView_top _, by rw [plainify_ofJV, plainify_scalar]⟩
  | garr xs =>
    refine ⟨?_, rfl, ?_⟩
    · simp only [Mode.view, Mode.strict, Bool.false_eq_true, if_false, Good]; exact goodList_ofJVs xs
    · simp only [Mode.view, Mode.strict, Bool.false_eq_true, if_false]
      rw [show Val.arr (Val.ofJVs xs) = Val.ofJV (.arr xs) from rfl, plainify_ofJV]; rfl
  | ext n => simp [Good] at h
  | _ => exact ⟨h, rfl, rfl⟩

theorem view_view (v : Val) (h : Good v) : Mode.strict.view (Mode.strict.view v) = Mode.strict.view v :=
  view_strict_top _ (view_good v h).2.1


theorem plainify_top_null : plainify .null = .null := rfl
theorem plainify_bool (b : Bool) : plainify (.bool b) = .bool b := rfl
theorem plainify_int (i : Int) : plainify (.int i) = .int i := rfl
theorem plainify_float (f : UInt64) : plainify (.float f) = .float f := rfl
theorem plainify_str (s : Bytes) : plainify (.str s) = .str s := rfl

theorem Sim_atom (x : Val) (h : plainify x = x) (g : Good x) : Sim (.ok x) (.ok x) := ⟨h.symm, g⟩

/-- length -/
theorem length_view (v : Val) (h : Good v) :
    funcLength Mode.strict v = funcLength Mode.strict (Mode.strict.view v) ∨
    (∃ d, v = .dv d ∧ Mode.strict.view v = .int minInt) := by
  cases v with
  | dv d =>
    unfold funcLength
    rw [view_view _ h]
    cases hv : Mode.strict.view (.dv d) with
    | int i =>
      by_cases hm : i = minInt
      · right; exact ⟨d, rfl, by rw [hm]⟩
      · left; simp [hm]
    | _ => left; rfl
  | garr xs => left; simp [funcLength, Mode.view, Mode.strict]
  | _ => left; rfl

theorem view_not_minInt (v : Val) (h : Good v) : ¬ (∃ d, v = .dv d ∧ Mode.strict.view v = .int minInt) := by
  rintro ⟨d, rfl, hv⟩
  cases d with
  | struct fs => simp [Mode.view, Mode.strict, specView] at hv
  | array es => simp [Mode.view, Mode.strict, specView] at hv
  | scalar k sym y =>
    simp only [Good, GoodDV] at h
    rw [view_strict_scalar] at hv
    generalize scalarValue k sym = sv at h hv
    cases sv with
    | raw bs => simp [svView] at hv
    | j jv =>
      cases jv <;> simp [svView, wrapSV, G.toGoJQ, Val.ofJV] at hv
      simp only [svNotMinInt] at h
      exact h.2 hv

theorem length_top (w : Val) (ht : topPlain w = true) (g : Good w) :
    Sim (funcLength Mode.strict w) (funcLength Mode.real (plainify w)) := by
  cases w with
  | arr xs => simp [funcLength, Mode.view, Mode.strict, Mode.real, plainify_arr, Sim, plainify_int, Good]
  | obj kvs => simp [funcLength, Mode.view, Mode.strict, Mode.real, plainify_obj, Sim, plainify_int, Good]
  | int i =>
    simp only [funcLength, Mode.view, Mode.strict, Mode.real, plainify_int, isDV, Bool.false_eq_true, if_false, if_true]
    by_cases h0 : i ≥ 0
    · simp [h0, Sim, plainify_int, Good]
    · by_cases h1 : i = minInt
      · subst h1
        have hm : ¬ (minInt ≥ 0) := by decide
        simp [hm, Sim, unm]
      · simp [h0, h1, Sim, plainify_int, Good, unm]
  | dv d => simp [topPlain] at ht
  | garr xs => simp [topPlain] at ht
  | ext n => simp [topPlain] at ht
  | _ => simp [funcLength, Mode.view, Mode.strict, Mode.real, plainify, Val.toValue, Val.ofJV, Sim, Good, unm]

theorem length_sim (v : Val) (h : Good v) : Sim (funcLength Mode.strict v) (funcLength Mode.real (plainify v)) := by
  obtain ⟨gw, tw, pw⟩ := view_good v h
  rcases length_view v h with e | e
  · rw [e, ← pw]; exact length_top _ tw gw
  · exact absurd e (view_not_minInt v h)


theorem map_plainify_ints (n : Nat) : (intsUpTo n).map plainify = intsUpTo n := by
  simp [intsUpTo, List.map_map, Function.comp_def, plainify_int]

theorem goodList_ints (n : Nat) : GoodList (intsUpTo n) := by
  rw [goodList_iff]; intro x hx
  simp only [intsUpTo, List.mem_map] at hx; obtain ⟨i, _, rfl⟩ := hx; trivial

theorem parseNumber_int (s : Bytes) (x : Val) (hp : parseNumber s = .ok x) : ∃ i, x = .int i := by
  unfold parseNumber at hp
  simp only at hp
  split at hp
  · split at hp
    · cases hp
    · split at hp
      · cases hp; exact ⟨_, rfl⟩
      · split at hp
        · cases hp
        · split at hp <;> cases hp
  · split at hp
    · cases hp
    · split at hp
      · cases hp; exact ⟨_, rfl⟩
      · split at hp
        · cases hp
        · split at hp <;> cases hp

/-! keys -/
theorem keys_view (v : Val) (h : Good v) : funcKeys Mode.strict v = funcKeys Mode.strict (Mode.strict.view v) := by
  unfold funcKeys; rw [view_view _ h]

theorem keys_top (w : Val) (ht : topPlain w = true) (g : Good w) :
    Sim (funcKeys Mode.strict w) (funcKeys Mode.real (plainify w)) := by
  cases w with
  | arr xs =>
    simp only [funcKeys, Mode.view, Mode.strict, Mode.real, plainify_arr, Sim, Bool.false_eq_true, if_false, if_true, List.length_map]
    exact ⟨by rw [map_plainify_ints], goodList_ints _⟩
  | obj kvs =>
    simp only [funcKeys, Mode.view, Mode.strict, Mode.real, plainify_obj, Sim, Bool.false_eq_true, if_false, if_true]
    refine ⟨?_, ?_⟩
    · rw [plainify_arr]; simp [List.map_map, Function.comp_def, plainify_str]
    · simp only [Good]; rw [goodList_iff]; intro x hx
      simp only [List.mem_map] at hx; obtain ⟨i, _, rfl⟩ := hx; trivial
  | dv d => simp [topPlain] at ht
  | garr xs => simp [topPlain] at ht
  | ext n => simp [topPlain] at ht
  | _ => simp [funcKeys, Mode.view, Mode.strict, Mode.real, plainify, Val.toValue, Val.ofJV, Sim, unm]

theorem keys_sim (v : Val) (h : Good v) : Sim (funcKeys Mode.strict v) (funcKeys Mode.real (plainify v)) := by
  obtain ⟨gw, tw, pw⟩ := view_good v h
  rw [keys_view v h, ← pw]; exact keys_top _ tw gw

/-! type -/
theorem type_sim (v : Val) (h : Good v) : funcType Mode.strict v = funcType Mode.real (plainify v) := by
  obtain ⟨gw, tw, pw⟩ := view_good v h
  have e : funcType Mode.strict v = funcType Mode.strict (Mode.strict.view v) := by
    unfold funcType; rw [view_view _ h]
  rw [e, ← pw]
  generalize Mode.strict.view v = w at tw
  cases w <;> simp_all [funcType, Mode.view, Mode.strict, Mode.real, plainify, Val.toValue, Val.ofJV, topPlain]

/-! tonumber -/
theorem tonumber_sim (v : Val) (h : Good v) : Sim (funcToNumber Mode.strict v) (funcToNumber Mode.real (plainify v)) := by
  obtain ⟨gw, tw, pw⟩ := view_good v h
  have e : funcToNumber Mode.strict v = funcToNumber Mode.strict (Mode.strict.view v) := by
    unfold funcToNumber; rw [view_view _ h]
  rw [e, ← pw]
  generalize Mode.strict.view v = w at tw
  cases w with
  | str s =>
    simp only [funcToNumber, Mode.view, Mode.strict, Mode.real, plainify_str, Bool.false_eq_true, if_false, if_true]
    cases hp : parseNumber s with
    | ok x =>
      -- parseNumber yields plain numbers
      obtain ⟨i, rfl⟩ := parseNumber_int s x hp
      exact ⟨rfl, trivial⟩
    | err e => simp [Sim]
    | panic w => simp [Sim]
  | dv d => simp [topPlain] at tw
  | garr xs => simp [topPlain] at tw
  | ext n => simp [topPlain] at tw
  | _ => simp [funcToNumber, Mode.view, Mode.strict, Mode.real, plainify, Val.toValue, Val.ofJV, Sim, Good, unm]


/-! `.[]` -/
def SimEach : Outcome (List (Val × Val)) → Outcome (List (Val × Val)) → Prop
  | .ok ps, .ok qs => qs = ps.map (fun p => (plainify p.1, plainify p.2)) ∧ (∀ p ∈ ps, Good p.1 ∧ Good p.2)
  | .err e1, .err e2 => unm e1 = unm e2
  | .panic _, .panic _ => True
  | _, _ => False

theorem zip_map_plainify (ks xs : List Val) (hk : ks.map plainify = ks) :
    ks.zip (xs.map plainify) = (ks.zip xs).map (fun p => (plainify p.1, plainify p.2)) := by
  induction ks generalizing xs with
  | nil => simp
  | cons k ks ih =>
    cases xs with
    | nil => simp
    | cons x xs =>
      simp only [List.map_cons, List.cons.injEq] at hk
      simp only [List.map_cons, List.zip_cons_cons, List.cons.injEq]
      exact ⟨by rw [hk.1], ih xs hk.2⟩

theorem each_sim (v : Val) (h : Good v) : SimEach (opEach Mode.strict v) (opEach Mode.real (plainify v)) := by
  obtain ⟨gw, tw, pw⟩ := view_good v h
  have e : opEach Mode.strict v = opEach Mode.strict (Mode.strict.view v) := by
    unfold opEach; rw [view_view _ h]
  rw [e, ← pw]
  generalize Mode.strict.view v = w at tw gw
  cases w with
  | arr xs =>
    simp only [opEach, Mode.view, Mode.strict, Mode.real, plainify_arr, SimEach, Bool.false_eq_true, if_false, if_true, List.length_map]
    refine ⟨zip_map_plainify _ _ (map_plainify_ints _), ?_⟩
    intro p hp
    simp only [Good] at gw
    have h1 := (goodList_iff _).mp (goodList_ints xs.length) p.1 (List.of_mem_zip hp).1
    have h2 := (goodList_iff _).mp gw p.2 (List.of_mem_zip hp).2
    exact ⟨h1, h2⟩
  | obj kvs =>
    simp only [opEach, Mode.view, Mode.strict, Mode.real, plainify_obj, SimEach, Bool.false_eq_true, if_false, if_true]
    refine ⟨by simp [List.map_map, Function.comp_def, plainify_str], ?_⟩
    intro p hp
    simp only [List.mem_map] at hp
    obtain ⟨kv, hkv, rfl⟩ := hp
    simp only [Good] at gw
    exact ⟨trivial, (goodKvs_iff _).mp gw kv hkv⟩
  | dv d => simp [topPlain] at tw
  | garr xs => simp [topPlain] at tw
  | ext n => simp [topPlain] at tw
  | _ => simp [opEach, Mode.view, Mode.strict, Mode.real, plainify, Val.toValue, Val.ofJV, SimEach, unm]

/-! `.[i]` -/
theorem index_sim (v : Val) (i : Int) (h : Good v) : Sim (indexInt Mode.strict v i) (indexInt Mode.real (plainify v) i) := by
  obtain ⟨gw, tw, pw⟩ := view_good v h
  have e : indexInt Mode.strict v i = indexInt Mode.strict (Mode.strict.view v) i := by
    unfold indexInt; rw [view_view _ h]; simp [Mode.strict]
  rw [e, ← pw]
  generalize Mode.strict.view v = w at tw gw
  cases w with
  | arr xs =>
    simp only [indexInt, Mode.view, Mode.strict, Mode.real, plainify_arr, Bool.false_eq_true, if_false, if_true, List.length_map]
    generalize clampIndex (clampGoInt i) (-1) ↑xs.length = j
    by_cases hj : (0 ≤ j && j < ↑xs.length) = true
    · simp only [hj, if_true]
      have hn : j.toNat < xs.length := by simp at hj; omega
      simp only [Good] at gw
      have := (goodList_iff _).mp gw _ (List.getElem_mem hn)
      simp [List.getElem?_eq_getElem hn, Sim, this]
    · simp [hj, Sim, plainify, Val.toValue, Val.ofJV, Good]
  | str s =>
    simp only [indexInt, Mode.view, Mode.strict, Mode.real, plainify_str, Bool.false_eq_true, if_false, if_true, isDV,
      Bool.and_false, Bool.false_and]
    split <;> simp [Sim, plainify, Val.toValue, Val.ofJV, Good]
  | dv d => simp [topPlain] at tw
  | garr xs => simp [topPlain] at tw
  | ext n => simp [topPlain] at tw
  | _ => simp [indexInt, Mode.view, Mode.strict, Mode.real, plainify, Val.toValue, Val.ofJV, Sim, Good, unm]


/-! `.[a:b]` -/
theorem garrOf_top (w : Val) (h : topPlain w = true) : garrOf w = none := by
  cases w <;> simp_all [garrOf, topPlain]

theorem garrOf_plainify (v xs) (h : garrOf v = some xs) (g : Good v) : plainify v = .arr (Val.ofJVs xs) := by
  cases v with
  | garr ys => simp only [garrOf, Option.some.injEq] at h; subst h; rfl
  | dv d =>
    cases d with
    | struct fs => simp [garrOf] at h
    | array es => simp [garrOf] at h
    | scalar k sym y =>
      rw [plainify_scalar]
      simp only [garrOf, wrapScalar] at h
      generalize scalarValue k sym = sv at h
      cases sv with
      | raw bs => simp [wrapSV] at h
      | j jv => cases jv <;> simp_all [wrapSV, svToValue, G.toGoJQ, Val.ofJV]
  | _ => simp [garrOf] at h

theorem garr_slice_ab (xs : List JV) (a b : Int) (h0 : 0 ≤ a) (h1 : a ≤ b) (h2 : b ≤ ↑xs.length) :
    (G.arr xs).slice a b = .ok (.garr ((xs.drop a.toNat).take (b.toNat - a.toNat))) := by
  simp only [G.slice, goSlice_ok xs a b h0 h1 h2]

theorem garr_slice_sim (xs : List JV) (a b : Int) (h0 : 0 ≤ a) (h1 : a ≤ b) (h2 : b ≤ ↑xs.length) :
    Sim ((G.arr xs).slice a b) (.ok (.arr (((Val.ofJVs xs).drop a.toNat).take (b.toNat - a.toNat)))) := by
  rw [garr_slice_ab xs a b h0 h1 h2]
  simp only [Sim, Good, and_true]
  rw [plainify_garr, ofJVs_eq_map, ofJVs_eq_map, List.map_take, List.map_drop]

theorem arr_slice_sim (xs : List Val) (g : GoodList xs) (a b : Nat) :
    Sim (.ok (.arr ((xs.drop a).take b))) (.ok (.arr (((xs.map plainify).drop a).take b))) := by
  simp only [Sim, plainify_arr, List.map_take, List.map_drop, Good, true_and]
  rw [goodList_iff] at g ⊢
  intro x hx
  exact g x (List.mem_of_mem_drop (List.mem_of_mem_take hx))

theorem slice_sim (v : Val) (s e : Option Int) (h : Good v) :
    Sim (funcSlice Mode.strict v s e) (funcSlice Mode.real (plainify v) s e) := by
  cases hg : garrOf v with
  | some xs =>
    rw [garrOf_plainify v xs hg h]
    simp only [funcSlice, Mode.strict, Mode.real, Bool.false_eq_true, if_false, if_true, hg, Mode.view, ofJVs_length]
    have hb := slice_bounds (↑xs.length) (by omega) s e
    simp only at hb
    exact garr_slice_sim xs _ _ hb.1 hb.2.1 hb.2.2
  | none =>
    obtain ⟨gw, tw, pw⟩ := view_good v h
    have e1 : funcSlice Mode.strict v s e = funcSlice Mode.strict (Mode.strict.view v) s e := by
      have hi : Mode.strict.impl = false := rfl
      unfold funcSlice
      rw [view_view _ h]
      simp only [hi, Bool.false_eq_true, if_false, hg, garrOf_top _ tw]
    rw [e1, ← pw]
    generalize Mode.strict.view v = w at tw gw
    cases w with
    | arr xs =>
      simp only [funcSlice, Mode.view, Mode.strict, Mode.real, plainify_arr, Bool.false_eq_true, if_false, if_true, garrOf, List.length_map]
      simp only [Good] at gw
      exact arr_slice_sim xs gw _ _
    | str t =>
      simp [funcSlice, Mode.view, Mode.strict, Mode.real, plainify_str, garrOf, Sim, plainify, Val.toValue, Val.ofJV, Good]
    | dv d => simp [topPlain] at tw
    | garr xs => simp [topPlain] at tw
    | ext n => simp [topPlain] at tw
    | _ => simp [funcSlice, Mode.view, Mode.strict, Mode.real, plainify, Val.toValue, Val.ofJV, garrOf, Sim, Good, unm]


/-! `.k` -/
theorem objGet_map_plainify (k : Bytes) (kvs : List (Bytes × Val)) :
    objGet k (kvs.map (fun kv => (kv.1, plainify kv.2))) = (objGet k kvs).map plainify := by
  induction kvs with
  | nil => rfl
  | cons kv kvs ih =>
    obtain ⟨k', x⟩ := kv
    simp only [List.map_cons, objGet]
    split <;> simp [ih]

theorem objGet_good (k : Bytes) (kvs : List (Bytes × Val)) (g : GoodKvs kvs) (x : Val) (h : objGet k kvs = some x) : Good x := by
  induction kvs with
  | nil => simp [objGet] at h
  | cons kv kvs ih =>
    obtain ⟨k', y⟩ := kv
    simp only [GoodKvs] at g
    simp only [objGet] at h
    split at h
    · cases h; exact g.1
    · exact ih g.2 h

def keySpecBranch (m : Mode) (w : Val) (k : Bytes) : Outcome Val :=
  match w with
  | .obj kvs => (match objGet k kvs with
    | some x => .ok x
    | none => baseKey k)
  | .null => baseKey k
  | _ => if m.dNullKey then baseKey k else .err .expectedObject

theorem indexKey_dv (m : Mode) (hm : m.impl = false) (d : DV) (k : Bytes) :
    indexKey m (.dv d) k = keySpecBranch m (m.view (.dv d)) k := by
  simp only [indexKey, hm, isDV, Bool.not_false, Bool.and_self, if_true, keySpecBranch]
  cases m.view (.dv d) <;> rfl

theorem keySpecBranch_top (w : Val) (k : Bytes) (hk : isExtKey k = false) (tw : topPlain w = true) :
    keySpecBranch Mode.strict w k = indexKey Mode.strict w k := by
  cases w with
  | obj kvs =>
    simp only [keySpecBranch, indexKey, isDV, Bool.and_false, Bool.false_eq_true, if_false]
    cases objGet k kvs <;> simp [baseKey, hk]
  | dv d' => simp [topPlain] at tw
  | garr xs => simp [topPlain] at tw
  | ext n => simp [topPlain] at tw
  | _ => simp [keySpecBranch, indexKey, isDV, baseKey, hk, Mode.strict]

theorem key_view (v : Val) (k : Bytes) (hk : isExtKey k = false) (h : Good v) :
    indexKey Mode.strict v k = indexKey Mode.strict (Mode.strict.view v) k := by
  obtain ⟨gw, tw, pw⟩ := view_good v h
  cases v with
  | dv d =>
    rw [indexKey_dv Mode.strict rfl]
    exact keySpecBranch_top _ k hk tw
  | garr xs => simp [indexKey, Mode.strict, isDV, Mode.view, G.key]
  | _ => rfl

theorem key_top (w : Val) (k : Bytes) (ht : topPlain w = true) (g : Good w) :
    Sim (indexKey Mode.strict w k) (indexKey Mode.real (plainify w) k) := by
  cases w with
  | obj kvs =>
    simp only [indexKey, Mode.strict, Mode.real, isDV, plainify_obj, Bool.and_false, Bool.false_eq_true, if_false, Bool.not_true, Bool.false_and,
      objGet_map_plainify]
    simp only [Good] at g
    cases ho : objGet k kvs with
    | none => simp [Sim, plainify, Val.toValue, Val.ofJV, Good]
    | some x => simp [Sim, objGet_good k kvs g x ho]
  | dv d => simp [topPlain] at ht
  | garr xs => simp [topPlain] at ht
  | ext n => simp [topPlain] at ht
  | arr xs => simp [indexKey, Mode.strict, Mode.real, isDV, plainify_arr, Sim, unm]
  | _ => simp [indexKey, Mode.strict, Mode.real, isDV, plainify, Val.toValue, Val.ofJV, Sim, Good, unm]

theorem key_sim (v : Val) (k : Bytes) (hk : isExtKey k = false) (h : Good v) :
    Sim (indexKey Mode.strict v k) (indexKey Mode.real (plainify v) k) := by
  obtain ⟨gw, tw, pw⟩ := view_good v h
  rw [key_view v k hk h, ← pw]; exact key_top _ k tw gw


/-! has -/
theorem objHas_map_plainify (k : Bytes) (kvs : List (Bytes × Val)) :
    objHas k (kvs.map (fun kv => (kv.1, plainify kv.2))) = objHas k kvs := by
  simp [objHas, objGet_map_plainify]

theorem has_view (v : Val) (j : JV) (hj : NotExt j) (h : Good v) :
    funcHas Mode.strict v (Val.ofJV j) = funcHas Mode.strict (Mode.strict.view v) (Val.ofJV j) := by
  obtain ⟨gw, tw, pw⟩ := view_good v h
  have hd : isDV (Mode.strict.view v) = false := by
    generalize Mode.strict.view v = w at tw
    cases w <;> simp_all [isDV, topPlain]
  unfold funcHas
  rw [view_view _ h]
  generalize Mode.strict.view v = w at tw hd
  cases w with
  | obj kvs =>
    cases j with
    | str k => have := hj k rfl; simp [Val.ofJV, this, hd]
    | _ => simp [Val.ofJV]
  | null =>
    cases j with
    | str k => have := hj k rfl; simp [Val.ofJV, this, hd]
    | _ => simp [Val.ofJV]
  | _ => rfl

theorem has_top (w : Val) (j : JV) (ht : topPlain w = true) :
    Sim (funcHas Mode.strict w (Val.ofJV j)) (funcHas Mode.real (plainify w) (Val.ofJV j)) := by
  cases w with
  | arr xs =>
    simp only [funcHas, Mode.view, Mode.strict, Mode.real, plainify_arr, Bool.false_eq_true, if_false, if_true, shallowM_ofJV, List.length_map]
    cases toGoInt (Val.ofJV j) <;> simp [Sim, plainify, Val.toValue, Val.ofJV, Good, unm]
  | obj kvs =>
    rw [plainify_obj]
    cases j <;> simp [funcHas, Mode.view, Mode.strict, Mode.real, Val.ofJV, isDV, objHas_map_plainify, Sim, plainify_bool, Good, unm]
  | null =>
    cases j <;> simp [funcHas, Mode.view, Mode.strict, Mode.real, Val.ofJV, isDV, Sim, plainify, Val.toValue, Good]
  | dv d => simp [topPlain] at ht
  | garr xs => simp [topPlain] at ht
  | ext n => simp [topPlain] at ht
  | _ => simp [funcHas, Mode.view, Mode.strict, Mode.real, plainify, Val.toValue, Val.ofJV, Sim, unm]

theorem has_sim (v : Val) (j : JV) (hj : NotExt j) (h : Good v) :
    Sim (funcHas Mode.strict v (Val.ofJV j)) (funcHas Mode.real (plainify v) (Val.ofJV j)) := by
  obtain ⟨gw, tw, pw⟩ := view_good v h
  rw [has_view v j hj h, ← pw]; exact has_top _ j tw

/-! to_entries -/
theorem toentries_sim (v : Val) (h : Good v) : Sim (funcToEntries Mode.strict v) (funcToEntries Mode.real (plainify v)) := by
  obtain ⟨gw, tw, pw⟩ := view_good v h
  have e : funcToEntries Mode.strict v = funcToEntries Mode.strict (Mode.strict.view v) := by
    unfold funcToEntries; rw [view_view _ h]
  rw [e, ← pw]
  generalize Mode.strict.view v = w at tw gw
  cases w with
  | arr xs =>
    simp only [funcToEntries, Mode.view, Mode.strict, Mode.real, plainify_arr, Bool.false_eq_true, if_false, if_true, List.length_map, Sim]
    simp only [Good] at gw
    refine ⟨?_, ?_⟩
    · rw [zip_map_plainify _ _ (map_plainify_ints _)]
      simp [List.map_map, Function.comp_def, entry, plainify_obj]
    · simp only [Good]; rw [goodList_iff]; intro x hx
      simp only [List.mem_map] at hx
      obtain ⟨p, hp, rfl⟩ := hx
      have h1 := (goodList_iff _).mp (goodList_ints xs.length) p.1 (List.of_mem_zip hp).1
      have h2 := (goodList_iff _).mp gw p.2 (List.of_mem_zip hp).2
      simp [entry, Good, GoodKvs, h1, h2]
  | obj kvs =>
    simp only [funcToEntries, Mode.view, Mode.strict, Mode.real, plainify_obj, Bool.false_eq_true, if_false, if_true, Sim]
    simp only [Good] at gw
    refine ⟨?_, ?_⟩
    · simp [plainify_arr, List.map_map, Function.comp_def, entry, plainify_obj, plainify_str]
    · simp only [Good]; rw [goodList_iff]; intro x hx
      simp only [List.mem_map] at hx
      obtain ⟨kv, hkv, rfl⟩ := hx
      have := (goodKvs_iff _).mp gw kv hkv
      simp [entry, Good, GoodKvs, this]
  | dv d => simp [topPlain] at tw
  | garr xs => simp [topPlain] at tw
  | ext n => simp [topPlain] at tw
  | _ => simp [funcToEntries, Mode.view, Mode.strict, Mode.real, plainify, Val.toValue, Val.ofJV, Sim, unm]


/-! ### builtins that first take one level of JQValueToGoJQ -/

theorem shallowM_strict (v : Val) (h : Good v) : v.shallowM Mode.strict = Mode.strict.view v := by
  cases v with
  | dv d =>
    cases d with
    | struct fs =>
      simp only [Good, GoodDV] at h
      have hs : KeysSorted (fs.map (fun f => (f.1, Val.dv f.2))) := keysSorted_map fs _ h.1
      simp [Val.shallowM, Mode.strict, DV.specShallow, Mode.view, specView, objOfList_sorted _ hs]
    | array es => rfl
    | scalar k sym y => rfl
  | _ => rfl

theorem shallowM_plainify (m : Mode) (v : Val) : (plainify v).shallowM m = plainify v := shallowM_ofJV m _

theorem shallowM_top (m : Mode) (w : Val) (h : topPlain w = true) : w.shallowM m = w := by
  cases w <;> simp_all [Val.shallowM, topPlain]

theorem truthy_sim (v : Val) (h : Good v) : truthy Mode.strict v = truthy Mode.real (plainify v) := by
  obtain ⟨gw, tw, pw⟩ := view_good v h
  simp only [truthy, shallowM_strict v h, shallowM_plainify, ← pw]
  generalize Mode.strict.view v = w at tw
  cases w <;> simp_all [plainify, Val.toValue, Val.ofJV, topPlain]

theorem mergeObj_map_plainify (a b : List (Bytes × Val)) :
    mergeObj (a.map (fun kv => (kv.1, plainify kv.2))) (b.map (fun kv => (kv.1, plainify kv.2)))
      = (mergeObj a b).map (fun kv => (kv.1, plainify kv.2)) := by
  have hset : ∀ (k : Bytes) (x : Val) (m : List (Bytes × Val)),
      objSet k (plainify x) (m.map (fun kv => (kv.1, plainify kv.2))) = (objSet k x m).map (fun kv => (kv.1, plainify kv.2)) := by
    intro k x m
    induction m with
    | nil => rfl
    | cons kv m ih =>
      obtain ⟨k', y⟩ := kv
      simp only [List.map_cons, objSet]
      split
      · rfl
      · split
        · rfl
        · simp [ih]
  simp only [mergeObj]
  induction b generalizing a with
  | nil => rfl
  | cons kv b ih =>
    simp only [List.map_cons, List.foldl_cons]
    rw [hset, ih]

theorem objSet_good (k : Bytes) (x : Val) (m : List (Bytes × Val)) (gx : Good x) (gm : GoodKvs m) : GoodKvs (objSet k x m) := by
  induction m with
  | nil => exact ⟨gx, trivial⟩
  | cons kv m ih =>
    obtain ⟨k', y⟩ := kv
    simp only [GoodKvs] at gm
    simp only [objSet]
    split
    · exact ⟨gx, gm.1, gm.2⟩
    · split
      · exact ⟨gx, gm.2⟩
      · exact ⟨gm.1, ih gm.2⟩

theorem mergeObj_good (a b : List (Bytes × Val)) (ga : GoodKvs a) (gb : GoodKvs b) : GoodKvs (mergeObj a b) := by
  simp only [mergeObj]
  induction b generalizing a with
  | nil => exact ga
  | cons kv b ih =>
    obtain ⟨k, x⟩ := kv
    simp only [GoodKvs] at gb
    simp only [List.foldl_cons]
    exact ih _ (objSet_good k x a gb.1 ga) gb.2

theorem goodList_append (a b : List Val) (ga : GoodList a) (gb : GoodList b) : GoodList (a ++ b) := by
  rw [goodList_iff] at *
  intro x hx
  rcases List.mem_append.mp hx with h | h
  · exact ga x h
  · exact gb x h

theorem add_top (a b : Val) (ta : topPlain a = true) (tb : topPlain b = true) (ga : Good a) (gb : Good b) :
    Sim (funcAdd Mode.strict a b) (funcAdd Mode.real (plainify a) (plainify b)) := by
  simp only [funcAdd, shallowM_top _ a ta, shallowM_top _ b tb, shallowM_plainify]
  cases a <;> cases b <;>
    simp_all [topPlain, plainify_arr, plainify_obj, plainify_top_null, plainify_bool, plainify_int, plainify_float, plainify_str,
      Sim, Good, isNumber, toFloat, unm, mergeObj_map_plainify, List.map_append]
  all_goals first
    | exact goodList_append _ _ ga gb
    | exact mergeObj_good _ _ ga gb
    | skip


theorem funcAdd_view (a b : Val) (ga : Good a) (gb : Good b) :
    funcAdd Mode.strict a b = funcAdd Mode.strict (Mode.strict.view a) (Mode.strict.view b) := by
  have ha := view_good a ga
  have hb := view_good b gb
  simp only [funcAdd, shallowM_strict a ga, shallowM_strict b gb, shallowM_top _ _ ha.2.1, shallowM_top _ _ hb.2.1]

theorem add_sim (a b : Val) (ga : Good a) (gb : Good b) :
    Sim (funcAdd Mode.strict a b) (funcAdd Mode.real (plainify a) (plainify b)) := by
  obtain ⟨g1, t1, p1⟩ := view_good a ga
  obtain ⟨g2, t2, p2⟩ := view_good b gb
  rw [funcAdd_view a b ga gb, ← p1, ← p2]
  exact add_top _ _ t1 t2 g1 g2

theorem filter_sub_sim (a b : List Val) (ga : GoodList a) (gb : GoodList b) :
    (a.filter (fun x => !(b.any (fun y => Val.cmpM Mode.strict x y == 0)))).map plainify
      = (a.map plainify).filter (fun x => !((b.map plainify).any (fun y => Val.cmpM Mode.real x y == 0))) := by
  rw [goodList_iff] at ga gb
  induction a with
  | nil => rfl
  | cons x xs ih =>
    have gx := ga x (by simp)
    have hany : (b.any (fun y => Val.cmpM Mode.strict x y == 0))
        = ((b.map plainify).any (fun y => Val.cmpM Mode.real (plainify x) y == 0)) := by
      rw [List.any_map]
      have : ∀ l : List Val, (∀ y ∈ l, Good y) →
          l.any (fun y => Val.cmpM Mode.strict x y == 0) = l.any ((fun y => Val.cmpM Mode.real (plainify x) y == 0) ∘ plainify) := by
        intro l hl
        induction l with
        | nil => rfl
        | cons y ys ihl =>
          simp only [List.any_cons, Function.comp_apply, cmp_sim x y gx (hl y (by simp))]
          rw [ihl (fun z hz => hl z (by simp [hz]))]
      exact this b gb
    simp only [List.filter_cons, List.map_cons, hany]
    have ih' := ih (fun z hz => ga z (by simp [hz]))
    split <;> simp [ih']

theorem sub_top (a b : Val) (ta : topPlain a = true) (tb : topPlain b = true) (ga : Good a) (gb : Good b) :
    Sim (funcSub Mode.strict a b) (funcSub Mode.real (plainify a) (plainify b)) := by
  simp only [funcSub, shallowM_top _ a ta, shallowM_top _ b tb, shallowM_plainify]
  cases a <;> cases b <;>
    simp_all [topPlain, plainify_arr, plainify_obj, plainify_top_null, plainify_bool, plainify_int, plainify_float, plainify_str,
      Sim, Good, isNumber, toFloat, unm]
  rename_i xs ys
  refine ⟨?_, ?_⟩
  · have := (filter_sub_sim xs ys ga gb).symm
    simpa [List.any_map] using this
  · rw [goodList_iff] at ga ⊢
    intro x hx
    exact ga x (List.mem_filter.mp hx).1

theorem sub_sim (a b : Val) (ga : Good a) (gb : Good b) :
    Sim (funcSub Mode.strict a b) (funcSub Mode.real (plainify a) (plainify b)) := by
  obtain ⟨g1, t1, p1⟩ := view_good a ga
  obtain ⟨g2, t2, p2⟩ := view_good b gb
  have e : funcSub Mode.strict a b = funcSub Mode.strict (Mode.strict.view a) (Mode.strict.view b) := by
    simp only [funcSub, shallowM_strict a ga, shallowM_strict b gb, shallowM_top _ _ t1, shallowM_top _ _ t2]
  rw [e, ← p1, ← p2]
  exact sub_top _ _ t1 t2 g1 g2

theorem insertSorted_sim (x : Val) (l : List Val) (gx : Good x) (gl : GoodList l) :
    (insertSorted Mode.strict x l).map plainify = insertSorted Mode.real (plainify x) (l.map plainify) ∧
    GoodList (insertSorted Mode.strict x l) := by
  induction l with
  | nil => exact ⟨rfl, gx, trivial⟩
  | cons y ys ih =>
    simp only [GoodList] at gl
    simp only [insertSorted, List.map_cons, cmp_sim x y gx gl.1]
    split
    · exact ⟨rfl, gx, gl.1, gl.2⟩
    · obtain ⟨i1, i2⟩ := ih gl.2
      exact ⟨by simp [i1], gl.1, i2⟩

theorem sortVals_sim (l : List Val) (gl : GoodList l) :
    (sortVals Mode.strict l).map plainify = sortVals Mode.real (l.map plainify) ∧ GoodList (sortVals Mode.strict l) := by
  induction l with
  | nil => exact ⟨rfl, trivial⟩
  | cons x xs ih =>
    simp only [GoodList] at gl
    obtain ⟨i1, i2⟩ := ih gl.2
    obtain ⟨j1, j2⟩ := insertSorted_sim x (sortVals Mode.strict xs) gl.1 i2
    simp only [sortVals, List.map_cons]
    exact ⟨by rw [j1, i1], j2⟩

theorem sort_sim (v : Val) (h : Good v) : Sim (funcSort Mode.strict v) (funcSort Mode.real (plainify v)) := by
  obtain ⟨gw, tw, pw⟩ := view_good v h
  simp only [funcSort, shallowM_strict v h, shallowM_plainify, ← pw]
  generalize Mode.strict.view v = w at tw gw
  cases w with
  | arr xs =>
    simp only [Good] at gw
    obtain ⟨s1, s2⟩ := sortVals_sim xs gw
    simp [plainify_arr, Sim, s1, Good, s2]
  | dv d => simp [topPlain] at tw
  | garr xs => simp [topPlain] at tw
  | ext n => simp [topPlain] at tw
  | obj kvs => simp [plainify_obj, Sim, unm]
  | _ => simp [plainify, Val.toValue, Val.ofJV, Sim, unm]

theorem tojson_sim (ff) (v : Val) (h : Good v) : funcToJSON Mode.strict ff v = funcToJSON Mode.real ff (plainify v) := by
  simp only [funcToJSON, deepM_strict v h, deepM_plainify]

theorem tostring_sim (ff) (v : Val) (h : Good v) : funcToString Mode.strict ff v = funcToString Mode.real ff (plainify v) := by
  obtain ⟨gw, tw, pw⟩ := view_good v h
  simp only [funcToString, shallowM_strict v h, shallowM_plainify, tojson_sim ff v h]
  rw [← pw]
  generalize Mode.strict.view v = w at tw
  cases w <;> simp_all [plainify_arr, plainify_obj, plainify, Val.toValue, Val.ofJV, topPlain]

theorem Sim_of_eq_plainOut {a b : Outcome Val} (h : a = b) (hp : ∀ x, a = .ok x → plainify x = x ∧ Good x) : Sim a b := by
  subst h
  cases a with
  | ok x => exact ⟨(hp x rfl).1.symm, (hp x rfl).2⟩
  | err e => simp [Sim]
  | panic w => simp [Sim]

theorem objectKey_sim (ff) (v : Val) (h : Good v) : objectKey Mode.strict ff v = objectKey Mode.real ff (plainify v) := by
  cases v with
  | dv d =>
    obtain ⟨gw, tw, pw⟩ := view_good (.dv d) h
    simp only [objectKey, Mode.strict, Bool.false_or, Bool.false_eq_true, if_false]
    have : specView d = Mode.strict.view (.dv d) := by simp [Mode.view, Mode.strict]
    rw [this, ← pw]
    generalize Mode.strict.view (.dv d) = w at tw
    cases w <;> simp_all [plainify_arr, plainify_obj, plainify, Val.toValue, Val.ofJV, topPlain, objectKey]
  | garr xs => simp [objectKey, Mode.strict, Mode.real, plainify_garr]
  | arr xs => simp [objectKey, plainify_arr]
  | obj kvs => simp [objectKey, plainify_obj]
  | _ => simp [objectKey, plainify, Val.toValue, Val.ofJV]


/-! ### `..`, `paths` -/

theorem fuel_plainify (v : Val) : (plainify v).fuel = v.fuel := by
  simp [Val.fuel, plainify, toValue_ofJV]

theorem flatMap_sim {α} (ps : List α) (f : α → List Val) (g : α → List Val)
    (h : ∀ p ∈ ps, (f p).map plainify = g p) : (ps.flatMap f).map plainify = ps.flatMap g := by
  induction ps with
  | nil => rfl
  | cons p ps ih =>
    simp only [List.flatMap_cons, List.map_append]
    rw [h p (by simp), ih (fun q hq => h q (by simp [hq]))]

theorem descend_sim (fuel : Nat) (v : Val) (h : Good v) :
    (descend Mode.strict fuel v).map plainify = descend Mode.real fuel (plainify v) ∧
    (∀ x ∈ descend Mode.strict fuel v, Good x) := by
  induction fuel generalizing v with
  | zero => exact ⟨rfl, by simp [descend, h]⟩
  | succ f ih =>
    simp only [descend]
    have he := each_sim v h
    revert he
    cases opEach Mode.strict v with
    | ok ps =>
      cases opEach Mode.real (plainify v) with
      | ok qs =>
        intro he
        simp only [SimEach] at he
        obtain ⟨hq, hg⟩ := he
        subst hq
        refine ⟨?_, ?_⟩
        · simp only [List.map_cons, List.flatMap_map]
          congr 1
          exact flatMap_sim ps _ _ (fun p hp => (ih p.2 (hg p hp).2).1)
        · intro x hx
          simp only [List.mem_cons, List.mem_flatMap] at hx
          rcases hx with rfl | ⟨p, hp, hx⟩
          · exact h
          · exact (ih p.2 (hg p hp).2).2 x hx
      | err e => simp [SimEach]
      | panic w => simp [SimEach]
    | err e =>
      cases opEach Mode.real (plainify v) <;> simp [SimEach, h]
    | panic w =>
      cases opEach Mode.real (plainify v) <;> simp [SimEach, h]

theorem flatMap_sim2 {α} (ps : List α) (f g : α → List (List Val))
    (h : ∀ p ∈ ps, (f p).map (List.map plainify) = g p) :
    (ps.flatMap f).map (List.map plainify) = ps.flatMap g := by
  induction ps with
  | nil => rfl
  | cons p ps ih =>
    simp only [List.flatMap_cons, List.map_append]
    rw [h p (by simp), ih (fun q hq => h q (by simp [hq]))]

theorem descendPaths_sim (fuel : Nat) (p : List Val) (v : Val) (h : Good v) (hp : ∀ x ∈ p, Good x) :
    (descendPaths Mode.strict fuel p v).map (List.map plainify)
      = descendPaths Mode.real fuel (p.map plainify) (plainify v) ∧
    (∀ path ∈ descendPaths Mode.strict fuel p v, ∀ x ∈ path, Good x) := by
  induction fuel generalizing v p with
  | zero => exact ⟨rfl, by simp [descendPaths]; exact hp⟩
  | succ f ih =>
    simp only [descendPaths]
    have he := each_sim v h
    revert he
    cases opEach Mode.strict v with
    | ok ps =>
      cases opEach Mode.real (plainify v) with
      | ok qs =>
        intro he
        simp only [SimEach] at he
        obtain ⟨hq, hg⟩ := he
        subst hq
        have hp' : ∀ q ∈ ps, ∀ x ∈ p ++ [q.1], Good x := by
          intro q hq x hx
          rcases List.mem_append.mp hx with h1 | h1
          · exact hp x h1
          · simp only [List.mem_singleton] at h1; subst h1; exact (hg q hq).1
        refine ⟨?_, ?_⟩
        · simp only [List.map_cons, List.flatMap_map]
          congr 1
          apply flatMap_sim2
          intro q hq
          have := (ih (p ++ [q.1]) q.2 (hg q hq).2 (hp' q hq)).1
          simpa using this
        · intro path hpath
          simp only [List.mem_cons, List.mem_flatMap] at hpath
          rcases hpath with rfl | ⟨q, hq, hx⟩
          · exact hp
          · exact (ih (p ++ [q.1]) q.2 (hg q hq).2 (hp' q hq)).2 path hx
      | err e => simp [SimEach]
      | panic w => simp [SimEach]
    | err e =>
      cases opEach Mode.real (plainify v) <;> simp [SimEach] <;> first | exact hp | (intro _; exact hp)
    | panic w =>
      cases opEach Mode.real (plainify v) <;> simp [SimEach] <;> first | exact hp | (intro _; exact hp)


/-! ### induction over the mini-jq -/

/-- (D2) the query does not name one of the `_` extra keys -/
def DocOK : Q → Prop
  | .field k => isExtKey k = false
  | .has j => NotExt j
  | .pipe a b => DocOK a ∧ DocOK b
  | .comma a b => DocOK a ∧ DocOK b
  | .arrC q => DocOK q
  | .objC k v => DocOK k ∧ DocOK v
  | .bin _ a b => DocOK a ∧ DocOK b
  | .ite c a b => DocOK c ∧ DocOK a ∧ DocOK b
  | .alt a b => DocOK a ∧ DocOK b
  | .try q => DocOK q
  | _ => True

/-- the plain run produces the tovalue of each output of the specification run, in the same order,
    and ends the same way -/
def ResSim (r r' : Res) : Prop :=
  r'.outs = r.outs.map plainify ∧ (∀ x ∈ r.outs, Good x) ∧ errEq r.err r'.err

theorem ResSim_ofOutcome {a b : Outcome Val} (h : Sim a b) : ResSim (Res.ofOutcome a) (Res.ofOutcome b) := by
  cases a <;> cases b <;> simp_all [Sim, Res.ofOutcome, ResSim, errEq]

theorem ResSim_single (x y : Val) (h : y = plainify x) (g : Good x) : ResSim { outs := [x] } { outs := [y] } := by
  subst h; exact ⟨rfl, by simp [g], trivial⟩

theorem seqRes_sim {r r' : Res} {fb fb' : Option (Outcome Unit)} (h : ResSim r r') (hf : errEq fb fb') :
    ResSim (seqRes r fb) (seqRes r' fb') := by
  obtain ⟨ho, hg, he⟩ := h
  unfold seqRes
  cases h1 : r.err <;> cases h2 : r'.err <;> simp_all [ResSim, errEq]

theorem bindRes_sim (f g : Val → Res) (vs : List Val) (hv : ∀ x ∈ vs, Good x)
    (h : ∀ x, Good x → ResSim (f x) (g (plainify x))) :
    ResSim (bindRes f vs) (bindRes g (vs.map plainify)) := by
  induction vs with
  | nil => exact ⟨rfl, by simp [bindRes], trivial⟩
  | cons v vs ih =>
    obtain ⟨ho, hg, he⟩ := h v (hv v (by simp))
    obtain ⟨iho, ihg, ihe⟩ := ih (fun x hx => hv x (by simp [hx]))
    simp only [bindRes, List.map_cons]
    cases h1 : (f v).err <;> cases h2 : (g (plainify v)).err <;> simp_all [ResSim, errEq]
    intro x hx
    rcases hx with hx | hx
    · exact hg x hx
    · exact ihg x hx

theorem bindRes_sim' (f g : Val → Res) {vs vs' : List Val} (hvs : vs' = vs.map plainify) (hv : ∀ x ∈ vs, Good x)
    (h : ∀ x, Good x → ResSim (f x) (g (plainify x))) :
    ResSim (bindRes f vs) (bindRes g vs') := by
  subst hvs; exact bindRes_sim f g vs hv h

theorem filter_truthy_sim (vs : List Val) (hv : ∀ x ∈ vs, Good x) :
    (vs.map plainify).filter (truthy Mode.real) = (vs.filter (truthy Mode.strict)).map plainify := by
  induction vs with
  | nil => rfl
  | cons v vs ih =>
    have := truthy_sim v (hv v (by simp))
    simp only [List.map_cons, List.filter_cons, ← this]
    split <;> simp [ih (fun x hx => hv x (by simp [hx]))]

theorem tojson_str (m : Mode) (ff) (v x : Val) (h : funcToJSON m ff v = .ok x) : ∃ s, x = .str s := by
  unfold funcToJSON at h
  cases he : JV.enc ff (v.deepM m) with
  | none => rw [he] at h; cases h
  | some b => rw [he] at h; cases h; exact ⟨b, rfl⟩

theorem tostring_str (m : Mode) (ff) (v x : Val) (h : funcToString m ff v = .ok x) : ∃ s, x = .str s := by
  unfold funcToString at h
  split at h
  · cases h; exact ⟨_, rfl⟩
  · exact tojson_str m ff v x h

theorem ResSim_strOut (a : Outcome Val) (hs : ∀ x, a = .ok x → ∃ s, x = .str s) :
    ResSim (Res.ofOutcome a) (Res.ofOutcome a) := by
  cases a with
  | ok x =>
    obtain ⟨s, rfl⟩ := hs x rfl
    exact ResSim_single _ _ rfl trivial
  | err e => exact ⟨rfl, by simp [Res.ofOutcome], by simp [Res.ofOutcome, errEq]⟩
  | panic w => exact ⟨rfl, by simp [Res.ofOutcome], by simp [Res.ofOutcome, errEq]⟩

/-- The specification (with plain key lookup: `Mode.strict`) on a Good evaluation value against plain
    gojq on its tovalue, for every query that does not name an extra key. -/
theorem eval_sim (ff : UInt64 → Option Bytes) :
    ∀ (q : Q), DocOK q → ∀ v : Val, Good v → ResSim (q.eval Mode.strict ff v) (q.eval Mode.real ff (plainify v))
  | .id, _, v, g => ResSim_single _ _ rfl g
  | .field k, h, v, g => by simp only [Q.eval]; exact ResSim_ofOutcome (key_sim v k h g)
  | .index i, _, v, g => by simp only [Q.eval]; exact ResSim_ofOutcome (index_sim v i g)
  | .slice a b, _, v, g => by simp only [Q.eval]; exact ResSim_ofOutcome (slice_sim v a b g)
  | .iter, _, v, g => by
    simp only [Q.eval]
    have h := each_sim v g
    revert h
    cases opEach Mode.strict v <;> cases opEach Mode.real (plainify v) <;> simp [SimEach, ResSim, errEq]
    intro h1 h2
    subst h1
    refine ⟨by simp [List.map_map, Function.comp_def], ?_⟩
    intro x p hp
    exact (h2 p x hp).2
  | .recurse, _, v, g => by
    simp only [Q.eval, fuel_plainify]
    obtain ⟨h1, h2⟩ := descend_sim v.fuel v g
    exact ⟨h1.symm, h2, trivial⟩
  | .pipe a b, h, v, g => by
    simp only [DocOK] at h
    rw [eval_pipe, eval_pipe]
    obtain ⟨ho, hg, he⟩ := eval_sim ff a h.1 v g
    exact seqRes_sim (bindRes_sim' _ _ ho hg (fun x gx => eval_sim ff b h.2 x gx)) he
  | .comma a b, h, v, g => by
    simp only [DocOK] at h
    rw [eval_comma, eval_comma]
    obtain ⟨hao, hag, hae⟩ := eval_sim ff a h.1 v g
    obtain ⟨hbo, hbg, hbe⟩ := eval_sim ff b h.2 v g
    cases h1 : (a.eval Mode.strict ff v).err <;> cases h2 : (a.eval Mode.real ff (plainify v)).err <;>
      simp_all [ResSim, errEq]
    intro x hx
    rcases hx with hx | hx
    · exact hag x hx
    · exact hbg x hx
  | .lit j, _, v, _ => ResSim_single _ _ (plainify_ofJV j).symm (good_ofJV j)
  | .arrC q, h, v, g => by
    simp only [DocOK] at h
    obtain ⟨ho, hg, he⟩ := eval_sim ff q h v g
    simp only [Q.eval]
    cases h1 : (q.eval Mode.strict ff v).err <;> cases h2 : (q.eval Mode.real ff (plainify v)).err <;>
      simp_all [ResSim, errEq, plainify_arr, Good]
    rw [goodList_iff]; exact hg
  | .objC kq vq, h, v, g => by
    simp only [DocOK] at h
    obtain ⟨hko, hkg, hke⟩ := eval_sim ff kq h.1 v g
    obtain ⟨hvo, hvg, hve⟩ := eval_sim ff vq h.2 v g
    rw [eval_objC, eval_objC]
    refine seqRes_sim (bindRes_sim' _ _ hko hkg ?_) hke
    intro k gk
    simp only [← objectKey_sim ff k gk, hvo, List.isEmpty_map]
    split
    · exact ⟨rfl, by simp, hve⟩
    · cases objectKey Mode.strict ff k with
      | ok ks =>
        refine ⟨by simp [List.map_map, Function.comp_def, plainify_obj], ?_, hve⟩
        intro x hx
        simp only [List.mem_map] at hx
        obtain ⟨y, hy, rfl⟩ := hx
        simp [Good, GoodKvs, hvg y hy]
      | err e => exact ⟨rfl, by simp, by simp [errEq]⟩
      | panic w => exact ⟨rfl, by simp, by simp [errEq]⟩
  | .keys, _, v, g => by simp only [Q.eval]; exact ResSim_ofOutcome (keys_sim v g)
  | .length, _, v, g => by simp only [Q.eval]; exact ResSim_ofOutcome (length_sim v g)
  | .type, _, v, g => by simp only [Q.eval, type_sim v g]; exact ResSim_single _ _ rfl trivial
  | .paths, _, v, g => by
    simp only [Q.eval, fuel_plainify]
    obtain ⟨h1, h2⟩ := descendPaths_sim v.fuel [] v g (by simp)
    simp only [List.map_nil] at h1
    refine ⟨?_, ?_, trivial⟩
    · rw [← h1]
      simp only [List.filter_map, List.map_map]
      congr 1
      · funext p; simp [plainify_arr]
      · congr 1; funext p; simp
    · intro x hx
      simp only [List.mem_map, List.mem_filter] at hx
      obtain ⟨p, ⟨hp, _⟩, rfl⟩ := hx
      simp only [Good]; rw [goodList_iff]; exact h2 p hp
  | .toEntries, _, v, g => by simp only [Q.eval]; exact ResSim_ofOutcome (toentries_sim v g)
  | .tojson, _, v, g => by
    simp only [Q.eval, tojson_sim ff v g]
    exact ResSim_strOut _ (fun x hx => tojson_str _ ff _ x hx)
  | .tostring, _, v, g => by
    simp only [Q.eval, tostring_sim ff v g]
    exact ResSim_strOut _ (fun x hx => tostring_str _ ff _ x hx)
  | .tonumber, _, v, g => by simp only [Q.eval]; exact ResSim_ofOutcome (tonumber_sim v g)
  | .sort, _, v, g => by simp only [Q.eval]; exact ResSim_ofOutcome (sort_sim v g)
  | .has k, h, v, g => by simp only [Q.eval]; exact ResSim_ofOutcome (has_sim v k h g)
  | .bin op a b, h, v, g => by
    simp only [DocOK] at h
    obtain ⟨hao, hag, hae⟩ := eval_sim ff a h.1 v g
    obtain ⟨hbo, hbg, hbe⟩ := eval_sim ff b h.2 v g
    rw [eval_bin, eval_bin]
    refine seqRes_sim (bindRes_sim' _ _ hbo hbg ?_) hbe
    intro y gy
    refine seqRes_sim (bindRes_sim' _ _ hao hag ?_) hae
    intro x gx
    cases op with
    | eq => simp only [cmp_sim x y gx gy]; exact ResSim_single _ _ rfl trivial
    | lt => simp only [cmp_sim x y gx gy]; exact ResSim_single _ _ rfl trivial
    | add => exact ResSim_ofOutcome (add_sim x y gx gy)
    | sub => exact ResSim_ofOutcome (sub_sim x y gx gy)
  | .ite c a b, h, v, g => by
    simp only [DocOK] at h
    obtain ⟨hco, hcg, hce⟩ := eval_sim ff c h.1 v g
    rw [eval_ite, eval_ite]
    refine seqRes_sim (bindRes_sim' _ _ hco hcg ?_) hce
    intro x gx
    simp only [truthy_sim x gx]
    split
    · exact eval_sim ff a h.2.1 v g
    · exact eval_sim ff b h.2.2 v g
  | .alt a b, h, v, g => by
    simp only [DocOK] at h
    obtain ⟨hao, hag, hae⟩ := eval_sim ff a h.1 v g
    have hb := eval_sim ff b h.2 v g
    simp only [Q.eval]
    have ht := filter_truthy_sim _ hag
    rw [← hao] at ht
    have hgf : ∀ x ∈ (a.eval Mode.strict ff v).outs.filter (truthy Mode.strict), Good x :=
      fun x hx => hag x (List.mem_filter.mp hx).1
    cases h1 : (a.eval Mode.strict ff v).err <;> cases h2 : (a.eval Mode.real ff (plainify v)).err <;>
      simp_all [ResSim, errEq]
    split <;> simp_all [ResSim, errEq]
  | .try q, h, v, g => by
    simp only [DocOK] at h
    obtain ⟨ho, hg, he⟩ := eval_sim ff q h v g
    simp only [Q.eval]
    cases h1 : (q.eval Mode.strict ff v).err with
    | none =>
      cases h2 : (q.eval Mode.real ff (plainify v)).err with
      | none => simp_all [ResSim, errEq]
      | some e2 => simp_all [errEq]
    | some e1 =>
      cases h2 : (q.eval Mode.real ff (plainify v)).err with
      | none => simp_all [errEq]
      | some e2 =>
        rw [h1, h2] at he
        cases e1 with
        | ok u => cases e2 <;> simp_all [errEq, ResSim]
        | panic w => cases e2 <;> simp_all [errEq, ResSim]
        | err x1 =>
          cases e2 with
          | err x2 =>
            simp only [errEq] at he
            cases x1 <;> cases x2 <;> simp_all [unm, ResSim, errEq]
          | ok u => simp_all [errEq]
          | panic w => simp_all [errEq]


/-! ### composition -/

theorem errEq_trans {a b c : Option (Outcome Unit)} (h1 : errEq a b) (h2 : errEq b c) : errEq a c := by
  cases a with
  | none => cases b <;> cases c <;> simp_all [errEq]
  | some x =>
    cases b with
    | none => cases x <;> simp_all [errEq]
    | some y =>
      cases c with
      | none => cases y <;> simp_all [errEq]
      | some z =>
        cases x <;> cases y <;> cases z <;> simp_all [errEq]

theorem ResEq.trans {r1 r2 r3 : Res} (h1 : ResEq r1 r2) (h2 : ResEq r2 r3) : ResEq r1 r3 :=
  ⟨h1.1.trans h2.1, errEq_trans h1.2 h2.2⟩

theorem ResSim_of_ResEq {r1 r2 r' : Res} (h1 : ResEq r1 r2) (h2 : ResSim r2 r') : ResSim r1 r' := by
  obtain ⟨ho, he⟩ := h1
  obtain ⟨so, sg, se⟩ := h2
  exact ⟨by rw [ho]; exact so, by rw [ho]; exact sg, errEq_trans he se⟩

/-- the recorded deviations of the code (string-index-out-of-range, object-key-jqvalue,
    gojq-minint-length) do not show in this evaluation: switching them off changes nothing -/
def NoQuirk (ff : UInt64 → Option Bytes) (q : Q) (v : Val) : Prop :=
  ResEq (q.eval Mode.known ff v) (q.eval Mode.spec ff v)

/-- (D3) does not show in this evaluation: no string-key lookup on a decode value that is not an
    object — making such a lookup an error, as for a plain value, changes nothing -/
def NoNullKey (ff : UInt64 → Option Bytes) (q : Q) (v : Val) : Prop :=
  ResEq (q.eval Mode.spec ff v) (q.eval Mode.strict ff v)

end Proofs.C08
