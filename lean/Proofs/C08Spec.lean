import FqModel.JQValue
import Proofs.C08
import Proofs.C08Utf8
import Proofs.C08Methods
/-!
  C08 — the model of the code (Mode.real: gojq dispatching to the JQValue* methods) against the
  executable specification (Mode.spec: plain gojq semantics on the view of a decode value = its
  tovalue one level deep, with D1-D4) extended by exactly the recorded deviations (Mode.known):
  builtin by builtin for EVERY evaluation value, then by induction over the mini-jq.
-/
namespace Proofs.C08
open FqModel FqModel.JQValue

/-- the specification plus exactly the recorded deviations of the code -/
def Mode.known : Mode := { impl := false, kStrIdx := true, kObjKey := true, kMinInt := true }

def unm : Err → Option String
  | .unmodelled w => some w
  | _ => none

def OutEq {α} : Outcome α → Outcome α → Prop
  | .ok x, .ok y => x = y
  | .err e1, .err e2 => unm e1 = unm e2
  | .panic _, .panic _ => True
  | _, _ => False

theorem OutEq.rfl' {α} (a : Outcome α) : OutEq a a := by
  cases a <;> simp [OutEq]

def svView (sv : SV) : Val :=
  match sv with
  | .raw bs => .str (sanitize bs)
  | .j v => Val.ofJV (wrapSV (.j v)).toGoJQ

theorem specView_scalar (k : SKind) (sym : Option JV) (y : Bool) :
    specView (.scalar k sym y) = svView (scalarValue k sym) := by
  simp only [specView, DV.toValue, rawSanitized, svView]
  cases h : scalarValue k sym with
  | raw bs => cases y <;> simp [sanitize_idem, Val.ofJV]
  | j v => simp

theorem view_known_scalar (k : SKind) (sym : Option JV) (y : Bool) :
    Mode.known.view (.dv (.scalar k sym y)) = svView (scalarValue k sym) := by
  simp [Mode.view, Mode.known, specView_scalar]

theorem length_rk (v : Val) : OutEq (funcLength Mode.real v) (funcLength Mode.known v) := by
  cases v with
  | dv d =>
    cases d with
    | struct fs => simp [funcLength, Mode.view, Mode.real, Mode.known, specView, DV.mLength, OutEq]
    | array es => simp [funcLength, Mode.view, Mode.real, Mode.known, specView, DV.mLength, OutEq]
    | scalar k sym y =>
      unfold funcLength
      rw [view_known_scalar]
      simp only [Mode.view, Mode.real, if_true, DV.mLength, wrapScalar, Mode.known, isDV]
      generalize scalarValue k sym = sv
      cases sv with
      | raw bs => simp [svView, wrapSV, G.length, OutEq, chunks_sanitize_length, decodeRunes_length]
      | j v =>
        cases v with
        | str s =>
          have := chunks_sanitize_length s
          simp only [sanitize] at this
          simp [svView, wrapSV, G.length, G.toGoJQ, Val.ofJV, OutEq, decodeRunes_length, this]
        | int i =>
          simp only [svView, wrapSV, G.length, G.toGoJQ, Val.ofJV]
          by_cases h0 : i ≥ 0
          · simp [h0, OutEq]
          · by_cases h1 : i = minInt
            · subst h1
              have hm : ¬ (minInt ≥ 0) := by decide
              simp [hm, OutEq]
            · simp [h0, h1, OutEq]
        | _ => simp [svView, wrapSV, G.length, G.toGoJQ, Val.ofJV, OutEq, ofJVs_length, ofJVkvs_length, unm]
  | garr xs => simp [funcLength, Mode.view, Mode.real, Mode.known, G.length, OutEq, ofJVs_length]
  | int i => simp only [funcLength, Mode.view, Mode.real, Mode.known, isDV, if_true, Bool.false_eq_true, if_false]; exact OutEq.rfl' _
  | _ => simp [funcLength, Mode.view, Mode.real, Mode.known, OutEq, isDV, unm]

theorem keys_rk (v : Val) : OutEq (funcKeys Mode.real v) (funcKeys Mode.known v) := by
  cases v with
  | dv d =>
    cases d with
    | struct fs => simp [funcKeys, Mode.view, Mode.real, Mode.known, specView, DV.mKeys, OutEq, List.map_map]
    | array es => simp [funcKeys, Mode.view, Mode.real, Mode.known, specView, DV.mKeys, OutEq]
    | scalar k sym y =>
      unfold funcKeys
      rw [view_known_scalar]
      simp only [Mode.view, Mode.real, if_true, DV.mKeys, wrapScalar]
      generalize scalarValue k sym = sv
      cases sv with
      | raw bs => simp [svView, wrapSV, G.keys, OutEq, unm]
      | j v =>
        cases v with
        | obj kvs => simp [svView, wrapSV, G.keys, G.toGoJQ, Val.ofJV, OutEq, map_str_keys_ofJVkvs]
        | _ => simp [svView, wrapSV, G.keys, G.toGoJQ, Val.ofJV, OutEq, ofJVs_length, unm]
  | garr xs => simp [funcKeys, Mode.view, Mode.real, Mode.known, G.keys, OutEq, ofJVs_length]
  | _ => simp [funcKeys, Mode.view, Mode.real, Mode.known, OutEq, unm]

theorem type_rk (v : Val) : funcType Mode.real v = funcType Mode.known v := by
  cases v with
  | dv d =>
    cases d with
    | struct fs => simp [funcType, Mode.view, Mode.real, Mode.known, specView, DV.mType]
    | array es => simp [funcType, Mode.view, Mode.real, Mode.known, specView, DV.mType]
    | scalar k sym y =>
      unfold funcType
      rw [view_known_scalar]
      simp only [Mode.view, Mode.real, if_true, DV.mType, wrapScalar]
      generalize scalarValue k sym = sv
      cases sv with
      | raw bs => simp [svView, wrapSV, G.type]
      | j v => cases v <;> simp [svView, wrapSV, G.type, G.toGoJQ, Val.ofJV]
  | garr xs => simp [funcType, Mode.view, Mode.real, Mode.known]
  | _ => simp [funcType, Mode.view, Mode.real, Mode.known]

theorem tonumber_rk (v : Val) : OutEq (funcToNumber Mode.real v) (funcToNumber Mode.known v) := by
  cases v with
  | dv d =>
    cases d with
    | struct fs => simp [funcToNumber, Mode.view, Mode.real, Mode.known, specView, DV.mToNumber, OutEq, unm]
    | array es => simp [funcToNumber, Mode.view, Mode.real, Mode.known, specView, DV.mToNumber, OutEq, unm]
    | scalar k sym y =>
      unfold funcToNumber
      rw [view_known_scalar]
      simp only [Mode.view, Mode.real, if_true, DV.mToNumber, wrapScalar]
      generalize scalarValue k sym = sv
      cases sv with
      | raw bs => simp only [svView, wrapSV, G.toNumber]; exact OutEq.rfl' _
      | j v =>
        cases v with
        | str s => simp only [svView, wrapSV, G.toNumber, G.toGoJQ, Val.ofJV]; exact OutEq.rfl' _
        | _ => simp [svView, wrapSV, G.toNumber, G.toGoJQ, Val.ofJV, OutEq, unm]
  | garr xs => simp [funcToNumber, Mode.view, Mode.real, Mode.known, G.toNumber, OutEq, unm]
  | str s => simp only [funcToNumber, Mode.view, Mode.real, Mode.known]; exact OutEq.rfl' _
  | _ => simp [funcToNumber, Mode.view, Mode.real, Mode.known, OutEq, unm]

theorem each_rk (v : Val) : OutEq (opEach Mode.real v) (opEach Mode.known v) := by
  cases v with
  | dv d =>
    cases d with
    | struct fs => simp [opEach, Mode.view, Mode.real, Mode.known, specView, DV.mEach, OutEq, List.map_map]
    | array es => simp [opEach, Mode.view, Mode.real, Mode.known, specView, DV.mEach, OutEq]
    | scalar k sym y =>
      unfold opEach
      rw [view_known_scalar]
      simp only [Mode.view, Mode.real, if_true, DV.mEach, wrapScalar]
      generalize scalarValue k sym = sv
      cases sv with
      | raw bs => simp [svView, wrapSV, G.each, OutEq, unm]
      | j v =>
        cases v with
        | obj kvs =>
          simp only [svView, wrapSV, G.each, G.toGoJQ, Val.ofJV, OutEq]
          induction kvs with
          | nil => rfl
          | cons kv kvs ih => obtain ⟨k, x⟩ := kv; simp [Val.ofJVkvs] at ih ⊢; exact ih
        | _ => simp [svView, wrapSV, G.each, G.toGoJQ, Val.ofJV, OutEq, ofJVs_length, unm]
  | garr xs => simp [opEach, Mode.view, Mode.real, Mode.known, G.each, OutEq, ofJVs_length]
  | _ => simp [opEach, Mode.view, Mode.real, Mode.known, OutEq, unm]

theorem shallowM_plain (m : Mode) (v : Val) (h1 : isDV v = false) (h2 : ∀ xs, v ≠ .garr xs) : v.shallowM m = v := by
  cases v <;> simp_all [Val.shallowM, isDV]

theorem vofh_bool (key : Val) (b : Bool) (hk : baseHas key = .ok (.bool false)) :
    valueOrFallbackHas key (.ok (.bool b)) = .ok (.bool b) := by
  cases b <;> simp [valueOrFallbackHas, hk]

theorem vofh_int (i : Int) (b : Bool) : valueOrFallbackHas (Val.int i) (.ok (.bool b)) = .ok (.bool b) :=
  vofh_bool _ _ rfl
theorem vofh_float (f : UInt64) (b : Bool) : valueOrFallbackHas (Val.float f) (.ok (.bool b)) = .ok (.bool b) :=
  vofh_bool _ _ rfl

theorem has_rk (v : Val) (j : JV) : OutEq (funcHas Mode.real v (Val.ofJV j)) (funcHas Mode.known v (Val.ofJV j)) := by
  cases v with
  | dv d =>
    cases d with
    | struct fs =>
      cases j with
      | str k =>
        simp only [funcHas, Mode.view, Mode.real, Mode.known, specView, DV.mHas, if_true, valueOrFallbackHas, Val.ofJV,
          Bool.false_eq_true, if_false, isDV, Bool.not_false, Bool.true_and, OutEq]
        have h1 : objHas k (fs.map (fun f => (f.1, Val.dv f.2))) = (fieldGet k fs).isSome := by
          induction fs with
          | nil => rfl
          | cons f fs ih =>
            obtain ⟨k', d⟩ := f
            simp only [List.map_cons, objHas, objGet, fieldGet] at ih ⊢
            split <;> simp_all
        rw [h1]
        cases h : (fieldGet k fs).isSome <;> simp [baseHas]
      | _ => simp [funcHas, Mode.view, Mode.real, Mode.known, specView, DV.mHas, valueOrFallbackHas, Val.ofJV, OutEq, unm]
    | array es =>
      cases j with
      | int i => simp [funcHas, Mode.view, Mode.real, Mode.known, specView, DV.mHas, Val.ofJV, OutEq, toGoInt, Val.shallowM, vofh_int, vofh_float]
      | float f => simp [funcHas, Mode.view, Mode.real, Mode.known, specView, DV.mHas, Val.ofJV, OutEq, toGoInt, Val.shallowM, vofh_int, vofh_float]
      | _ => simp [funcHas, Mode.view, Mode.real, Mode.known, specView, DV.mHas, valueOrFallbackHas, Val.ofJV, OutEq, unm, toGoInt, Val.shallowM]
    | scalar k sym y =>
      unfold funcHas
      rw [view_known_scalar]
      simp only [Mode.view, Mode.real, if_true, DV.mHas, wrapScalar]
      generalize scalarValue k sym = sv
      cases sv with
      | raw bs => cases j <;> simp [svView, wrapSV, G.has, valueOrFallbackHas, OutEq, unm, Val.ofJV]
      | j v =>
        cases v with
        | null => cases j <;> simp [svView, wrapSV, G.has, G.toGoJQ, valueOrFallbackHas, OutEq, unm, Val.ofJV, baseHas, Mode.known, isDV]
        | arr xs =>
          cases j with
          | int i => simp [svView, wrapSV, G.has, G.toGoJQ, OutEq, Val.ofJV, toGoInt, Val.shallowM, ofJVs_length, vofh_int, vofh_float]
          | float f => simp [svView, wrapSV, G.has, G.toGoJQ, OutEq, Val.ofJV, toGoInt, Val.shallowM, ofJVs_length, vofh_int, vofh_float]
          | _ => simp [svView, wrapSV, G.has, G.toGoJQ, valueOrFallbackHas, OutEq, unm, Val.ofJV, toGoInt, Val.shallowM]
        | obj kvs =>
          cases j with
          | str k' =>
            simp only [svView, wrapSV, G.has, G.toGoJQ, valueOrFallbackHas, OutEq, Val.ofJV, Mode.known, isDV, objHas_ofJVkvs,
              Bool.not_false, Bool.true_and]
            cases h : objHas k' kvs <;> simp [baseHas]
          | _ => simp [svView, wrapSV, G.has, G.toGoJQ, valueOrFallbackHas, OutEq, unm, Val.ofJV]
        | _ => cases j <;> simp [svView, wrapSV, G.has, G.toGoJQ, valueOrFallbackHas, OutEq, unm, Val.ofJV]
  | garr xs =>
    cases j <;> simp [funcHas, Mode.view, Mode.real, Mode.known, G.has, OutEq, unm, Val.ofJV, toGoInt, Val.shallowM, ofJVs_length]
  | _ => simp only [funcHas, Mode.view, Mode.real, Mode.known, isDV, Bool.false_eq_true, if_false, if_true, Bool.and_false, Bool.false_and,
      Bool.or_false, shallowM_ofJV]; exact OutEq.rfl' _

theorem objGet_fields (k : Bytes) (fs : List (Bytes × DV)) :
    objGet k (fs.map (fun f => (f.1, Val.dv f.2))) = (fieldGet k fs).map Val.dv := by
  induction fs with
  | nil => rfl
  | cons f fs ih =>
    obtain ⟨k', d⟩ := f
    simp only [List.map_cons, objGet, fieldGet]
    split <;> simp [ih]

theorem key_rk (v : Val) (k : Bytes) : OutEq (indexKey Mode.real v k) (indexKey Mode.known v k) := by
  cases v with
  | dv d =>
    cases d with
    | struct fs =>
      simp only [indexKey, Mode.view, Mode.real, Mode.known, specView, DV.mKey, isDV, Bool.not_false, Bool.and_self, if_true,
        Bool.false_eq_true, if_false, objGet_fields]
      cases fieldGet k fs with
      | none => exact OutEq.rfl' _
      | some c => simp [OutEq]
    | array es =>
      simp only [indexKey, Mode.view, Mode.real, Mode.known, specView, DV.mKey, isDV, Bool.not_false, Bool.and_self, if_true,
        Bool.false_eq_true, if_false]
      exact OutEq.rfl' _
    | scalar kk sym y =>
      unfold indexKey
      rw [view_known_scalar]
      simp only [Mode.real, Mode.known, isDV, Bool.not_false, Bool.and_self, if_true, Bool.false_eq_true, if_false,
        Bool.not_true, Bool.false_and, DV.mKey, wrapScalar]
      generalize scalarValue kk sym = sv
      cases sv with
      | raw bs => simp only [svView, wrapSV, G.has, valueOrFallbackKey]; exact OutEq.rfl' _
      | j v =>
        cases v with
        | obj kvs =>
          simp only [svView, wrapSV, G.has, G.key, G.toGoJQ, Val.ofJV, valueOrFallbackKey, objHas, objGet_ofJVkvs]
          cases objGet k kvs with
          | none => exact OutEq.rfl' _
          | some c => simp [OutEq]
        | arr xs => simp only [svView, wrapSV, G.has, G.toGoJQ, Val.ofJV, valueOrFallbackKey, toGoInt]; exact OutEq.rfl' _
        | _ => simp only [svView, wrapSV, G.has, G.toGoJQ, Val.ofJV, valueOrFallbackKey]; exact OutEq.rfl' _
  | garr xs => simp [indexKey, Mode.real, Mode.known, isDV, G.key, OutEq, unm]
  | _ => simp only [indexKey, Mode.real, Mode.known, isDV, Bool.not_false, Bool.and_false, Bool.false_eq_true, if_false,
      Bool.not_true, Bool.false_and]; exact OutEq.rfl' _

/-- `.[i]` on a decoded string with runes `rs`, against the specification's view `t` of it with
    the recorded deviation (an index outside gives "") -/
theorem strIndex_known (rs : List Nat) (t : Bytes) (i : Int) (hch : chunks t = rs.map encodeRune) :
    OutEq
      (match (Outcome.ok (Val.int ↑rs.length) : Outcome Val) with
        | .ok (.int l) =>
          let j := clampIndex (clampGoInt i) (-1) l
          let j := if j < 0 then -2 else if j ≥ l then -1 else j
          strIndex rs j
        | r => r)
      (let cs := chunks t
       let j := clampIndex (clampGoInt i) (-1) cs.length
       if 0 ≤ j && j < cs.length then .ok (.str (encodeRune (decode1 (cs[j.toNat]?.getD [])).1))
       else .ok (.str [])) := by
  have hlen : (chunks t).length = rs.length := by rw [hch]; simp
  simp only [hlen]
  generalize clampIndex (clampGoInt i) (-1) ↑rs.length = j
  by_cases h1 : j < 0
  · have : ¬ (0 ≤ j) := by omega
    simp [h1, this, strIndex, OutEq]
  · by_cases h2 : j ≥ ↑rs.length
    · have : ¬ (j < ↑rs.length) := by omega
      simp [h1, h2, this, strIndex, OutEq]
    · have h3 : j < ↑rs.length := by omega
      have h4 : 0 ≤ j := by omega
      have hn : j.toNat < rs.length := by omega
      have hn' : j.toNat < (chunks t).length := by omega
      have hc : (chunks t)[j.toNat] = encodeRune (rs[j.toNat]) := by simp [hch]
      simp only [h1, h2, h3, h4, if_false, decide_true, Bool.and_self, if_true, strIndex, goIndex,
        List.getElem?_eq_getElem hn, List.getElem?_eq_getElem hn', Option.getD_some, OutEq, hc,
        decode1_encodeRune_nil, encodeRune_fixRune]

theorem index_rk (v : Val) (i : Int) : OutEq (indexInt Mode.real v i) (indexInt Mode.known v i) := by
  cases v with
  | dv d =>
    cases d with
    | struct fs => simp [indexInt, Mode.view, Mode.real, Mode.known, specView, DV.mSliceLen, DV.mIndex, OutEq, unm]
    | array es =>
      simp only [indexInt, Mode.view, Mode.real, Mode.known, specView, DV.mSliceLen, DV.mIndex, if_true, Bool.false_eq_true, if_false,
        List.length_map]
      generalize clampIndex (clampGoInt i) (-1) ↑es.length = j
      by_cases h1 : j < 0
      · have : ¬ (0 ≤ j) := by omega
        simp [h1, this, OutEq]
      · by_cases h2 : j ≥ ↑es.length
        · have : ¬ (j < ↑es.length) := by omega
          simp [h1, h2, this, OutEq]
        · have h3 : j < ↑es.length := by omega
          have h4 : 0 ≤ j := by omega
          have hn : j.toNat < es.length := by omega
          simp [h1, h2, h3, h4, goIndex, okVal, List.getElem?_eq_getElem hn, OutEq]
    | scalar k sym y =>
      unfold indexInt
      rw [view_known_scalar]
      simp only [Mode.view, Mode.real, if_true, DV.mSliceLen, DV.mIndex, wrapScalar, Mode.known, isDV, Bool.not_false, Bool.and_self]
      generalize scalarValue k sym = sv
      cases sv with
      | raw bs =>
        simp only [svView, wrapSV, G.sliceLen, G.index]
        exact strIndex_known (decodeRunes bs) (sanitize bs) i (chunks_sanitize bs)
      | j v =>
        cases v with
        | str s =>
          simp only [svView, wrapSV, G.sliceLen, G.index, G.toGoJQ, Val.ofJV]
          exact strIndex_known (decodeRunes s) (sanitize s) i (chunks_sanitize s)
        | arr xs =>
          simp only [svView, wrapSV, G.sliceLen, G.index, G.toGoJQ, Val.ofJV, ofJVs_length]
          generalize clampIndex (clampGoInt i) (-1) ↑xs.length = j
          by_cases h1 : j < 0
          · have : ¬ (0 ≤ j) := by omega
            simp [h1, this, OutEq]
          · by_cases h2 : j ≥ ↑xs.length
            · have : ¬ (j < ↑xs.length) := by omega
              simp [h1, h2, this, OutEq]
            · have h3 : j < ↑xs.length := by omega
              have h4 : 0 ≤ j := by omega
              have hn : j.toNat < xs.length := by omega
              simp [h1, h2, h3, h4, goIndex, getElem?_ofJVs, List.getElem?_eq_getElem hn, OutEq]
        | null => simp [svView, wrapSV, G.sliceLen, G.toGoJQ, Val.ofJV, OutEq]
        | _ => simp [svView, wrapSV, G.sliceLen, G.toGoJQ, Val.ofJV, OutEq, unm]
  | garr xs =>
    simp only [indexInt, Mode.view, Mode.real, Mode.known, if_true, Bool.false_eq_true, if_false, ofJVs_length, G.index]
    generalize clampIndex (clampGoInt i) (-1) ↑xs.length = j
    by_cases h1 : j < 0
    · have : ¬ (0 ≤ j) := by omega
      simp [h1, this, OutEq]
    · by_cases h2 : j ≥ ↑xs.length
      · have : ¬ (j < ↑xs.length) := by omega
        simp [h1, h2, this, OutEq]
      · have h3 : j < ↑xs.length := by omega
        have h4 : 0 ≤ j := by omega
        have hn : j.toNat < xs.length := by omega
        simp [h1, h2, h3, h4, goIndex, getElem?_ofJVs, List.getElem?_eq_getElem hn, OutEq]
  | _ => simp only [indexInt, Mode.view, Mode.real, Mode.known, isDV, if_true, Bool.false_eq_true, if_false, Bool.and_false, Bool.false_and]; exact OutEq.rfl' _

theorem garrOf_struct (fs : List (Bytes × DV)) : garrOf (.dv (.struct fs)) = none := rfl
theorem garrOf_array (es : List DV) : garrOf (.dv (.array es)) = none := rfl

theorem arr_slice_rk_ab (es : List DV) (a b : Int) (h0 : 0 ≤ a) (h1 : a ≤ b) (h2 : b ≤ ↑es.length) :
    OutEq (DV.mSlice (.array es) a b)
      (.ok (.arr (((es.map Val.dv).drop a.toNat).take (b.toNat - a.toNat)))) := by
  have h3 : ¬ b < a := by omega
  simp only [DV.mSlice, if_neg h3, goSlice_ok es a b h0 h1 h2, okVal, OutEq, List.map_drop, List.map_take]

theorem str_slice_rk_ab (rs : List Nat) (t : Bytes) (a b : Int) (h0 : 0 ≤ a) (h1 : a ≤ b) (h2 : b ≤ ↑rs.length)
    (hch : chunks t = rs.map encodeRune) :
    OutEq (strSlice rs a b)
      (.ok (.str (((chunks t).drop a.toNat).take (b.toNat - a.toNat)).flatten)) := by
  simp only [strSlice, goSlice_ok rs a b h0 h1 h2, OutEq, hch]
  rw [← List.map_drop, ← List.map_take, flatten_map_encodeRune]

/-- funcSlice in a specification mode on a plain string -/
theorem funcSlice_str (m : Mode) (hm : m.impl = false) (t : Bytes) (s e : Option Int) :
    funcSlice m (.str t) s e =
      .ok (.str ((((chunks t).drop (match s with
              | some i => clampIndex (clampGoInt i) 0 ↑(chunks t).length
              | none => 0).toNat).take
            ((match e with
              | some i => clampIndex (clampGoInt i) (match s with
                | some i => clampIndex (clampGoInt i) 0 ↑(chunks t).length
                | none => 0) ↑(chunks t).length
              | none => ↑(chunks t).length).toNat - (match s with
              | some i => clampIndex (clampGoInt i) 0 ↑(chunks t).length
              | none => 0).toNat)).flatten)) := by
  simp only [funcSlice, Mode.view, hm, garrOf, Bool.false_eq_true, if_false]
  rfl

theorem str_slice_rk (rs : List Nat) (t : Bytes) (s e : Option Int) (hch : chunks t = rs.map encodeRune) :
    OutEq
      (match (Outcome.ok (Val.int ↑rs.length) : Outcome Val) with
        | .ok (.int l) =>
          strSlice rs
            (match s with
              | some i => clampIndex (clampGoInt i) 0 l
              | none => 0)
            (match e with
              | some i => clampIndex (clampGoInt i) (match s with
                | some i => clampIndex (clampGoInt i) 0 l
                | none => 0) l
              | none => l)
        | r => r)
      (funcSlice Mode.known (.str t) s e) := by
  have hlen : (chunks t).length = rs.length := by rw [hch]; simp
  rw [funcSlice_str Mode.known rfl]
  simp only [hlen]
  have hb := slice_bounds (↑rs.length) (by omega) s e
  simp only at hb
  exact str_slice_rk_ab rs t _ _ hb.1 hb.2.1 hb.2.2 hch

/-- funcSlice in a specification mode on a decoded scalar: the tagged-array case, else the view -/
theorem funcSlice_scalar_spec (m : Mode) (hm : m.impl = false) (k : SKind) (sym : Option JV) (y : Bool) (s e : Option Int) :
    funcSlice m (.dv (.scalar k sym y)) s e =
      (match wrapSV (scalarValue k sym) with
       | .arr xs => sliceSV (scalarValue k sym) s e
       | _ => funcSlice m (svView (scalarValue k sym)) s e) := by
  have hv : m.view (.dv (.scalar k sym y)) = svView (scalarValue k sym) := by
    simp [Mode.view, hm, specView_scalar]
  have hv2 : m.view (svView (scalarValue k sym)) = svView (scalarValue k sym) := by
    generalize scalarValue k sym = sv
    cases sv with
    | raw bs => simp [Mode.view, hm, svView]
    | j v => cases v <;> simp [Mode.view, hm, svView, wrapSV, G.toGoJQ, Val.ofJV]
  have hg : garrOf (svView (scalarValue k sym)) = none := by
    generalize scalarValue k sym = sv
    cases sv with
    | raw bs => rfl
    | j v => cases v <;> rfl
  unfold funcSlice
  rw [hv, hv2, hg]
  simp only [hm, Bool.false_eq_true, if_false, garrOf, wrapScalar]
  generalize scalarValue k sym = sv
  cases sv with
  | raw bs => simp [wrapSV]
  | j v => cases v <;> (try simp [wrapSV, sliceSV, G.sliceLen]) <;> rfl

theorem slice_rk (v : Val) (s e : Option Int) :
    OutEq (funcSlice Mode.real v s e) (funcSlice Mode.known v s e) := by
  cases v with
  | dv d =>
    cases d with
    | struct fs => simp [funcSlice, Mode.view, Mode.real, Mode.known, specView, DV.mSliceLen, DV.mSlice, OutEq, unm, garrOf]
    | array es =>
      simp only [funcSlice, Mode.view, Mode.real, Mode.known, specView, DV.mSliceLen, if_true, Bool.false_eq_true, if_false,
        List.length_map, garrOf]
      have hb := slice_bounds (↑es.length) (by omega) s e
      simp only at hb
      exact arr_slice_rk_ab es _ _ hb.1 hb.2.1 hb.2.2
    | scalar k sym y =>
      rw [funcSlice_scalar_spec Mode.known rfl, funcSlice_scalar]
      generalize scalarValue k sym = sv
      cases sv with
      | raw bs =>
        simp only [sliceSV, svView, wrapSV, G.sliceLen, G.slice]
        exact str_slice_rk (decodeRunes bs) (sanitize bs) s e (chunks_sanitize bs)
      | j v =>
        cases v with
        | str s' =>
          simp only [sliceSV, svView, wrapSV, G.sliceLen, G.slice, G.toGoJQ, Val.ofJV]
          exact str_slice_rk (decodeRunes s') (sanitize s') s e (chunks_sanitize s')
        | arr xs => simp only [wrapSV]; exact OutEq.rfl' _
        | null => simp [sliceSV, svView, wrapSV, G.sliceLen, G.toGoJQ, Val.ofJV, funcSlice, Mode.view, Mode.known, OutEq, garrOf]
        | _ => simp [sliceSV, svView, wrapSV, G.sliceLen, G.toGoJQ, Val.ofJV, funcSlice, Mode.view, Mode.known, OutEq, unm, garrOf]
  | garr xs =>
    simp only [funcSlice, Mode.view, Mode.real, Mode.known, if_true, Bool.false_eq_true, if_false, garrOf]
    exact OutEq.rfl' _
  | _ => simp only [funcSlice, Mode.view, Mode.real, Mode.known, if_true, Bool.false_eq_true, if_false, garrOf]; exact OutEq.rfl' _

theorem goJQ_specDeep_scalar (k : SKind) (sym : Option JV) (y : Bool) :
    DV.goJQ (.scalar k sym y) = DV.specDeep (.scalar k sym y) := by
  simp only [DV.goJQ, DV.specDeep, wrapScalar, DV.toValue, rawSanitized]
  cases h : scalarValue k sym with
  | raw bs => cases y <;> simp [wrapSV, G.toGoJQ, sanitize_idem]
  | j v => simp

mutual
theorem goJQ_eq_specDeep : ∀ d : DV, d.goJQ = d.specDeep
  | .struct fs => by simp [DV.goJQ, DV.specDeep, goJQfields_eq_specDeep fs]
  | .array es => by simp [DV.goJQ, DV.specDeep, goJQlist_eq_specDeep es]
  | .scalar k sym y => goJQ_specDeep_scalar k sym y
theorem goJQlist_eq_specDeep : ∀ es : List DV, DV.goJQlist es = DV.specDeepList es
  | [] => rfl
  | d :: ds => by simp [DV.goJQlist, DV.specDeepList, goJQ_eq_specDeep d, goJQlist_eq_specDeep ds]
theorem goJQfields_eq_specDeep : ∀ fs : List (Bytes × DV), DV.goJQfields fs = DV.specDeepFields fs
  | [] => rfl
  | (k, d) :: fs => by simp [DV.goJQfields, DV.specDeepFields, goJQ_eq_specDeep d, goJQfields_eq_specDeep fs]
end

mutual
/-- what the encoder and Compare see is the same in the code and in the specification -/
theorem deepM_rk : ∀ v : Val, v.deepM Mode.real = v.deepM Mode.known
  | .null => rfl
  | .bool _ => rfl
  | .int _ => rfl
  | .float _ => rfl
  | .str _ => rfl
  | .arr xs => by simp [Val.deepM, deepMList_rk xs]
  | .obj kvs => by simp [Val.deepM, deepMKvs_rk kvs]
  | .dv d => by simp [Val.deepM, Mode.real, Mode.known, goJQ_eq_specDeep d]
  | .ext _ => rfl
  | .garr _ => rfl
theorem deepMList_rk : ∀ xs : List Val, Val.deepMList Mode.real xs = Val.deepMList Mode.known xs
  | [] => rfl
  | x :: xs => by simp [Val.deepMList, deepM_rk x, deepMList_rk xs]
theorem deepMKvs_rk : ∀ kvs : List (Bytes × Val), Val.deepMKvs Mode.real kvs = Val.deepMKvs Mode.known kvs
  | [] => rfl
  | (k, v) :: kvs => by simp [Val.deepMKvs, deepM_rk v, deepMKvs_rk kvs]
end

theorem tojson_rk (ff : UInt64 → Option Bytes) (v : Val) :
    funcToJSON Mode.real ff v = funcToJSON Mode.known ff v := by
  simp only [funcToJSON, deepM_rk v]

theorem cmp_rk (a b : Val) : Val.cmpM Mode.real a b = Val.cmpM Mode.known a b := by
  simp only [Val.cmpM, deepM_rk]


theorem svView_eq_toGoJQ (sv : SV) : svView sv = Val.ofJV (wrapSV sv).toGoJQ := by
  cases sv with
  | raw bs => simp [svView, wrapSV, G.toGoJQ, Val.ofJV]
  | j v => rfl

theorem shallowM_rk (v : Val) : v.shallowM Mode.real = v.shallowM Mode.known := by
  cases v with
  | dv d =>
    cases d with
    | struct fs => rfl
    | array es => rfl
    | scalar k sym y =>
      simp only [Val.shallowM, Mode.real, Mode.known, if_true, Bool.false_eq_true, if_false, DV.mToGoJQ, DV.specShallow,
        specView_scalar, wrapScalar, svView_eq_toGoJQ]
  | _ => rfl

theorem truthy_rk (v : Val) : truthy Mode.real v = truthy Mode.known v := by
  simp only [truthy, shallowM_rk]

theorem add_rk (a b : Val) : funcAdd Mode.real a b = funcAdd Mode.known a b := by
  simp only [funcAdd, shallowM_rk]

theorem sub_rk (a b : Val) : funcSub Mode.real a b = funcSub Mode.known a b := by
  simp only [funcSub, shallowM_rk, cmp_rk]

theorem insertSorted_rk (x : Val) (l : List Val) : insertSorted Mode.real x l = insertSorted Mode.known x l := by
  induction l with
  | nil => rfl
  | cons y ys ih => simp [insertSorted, cmp_rk, ih]

theorem sortVals_rk (l : List Val) : sortVals Mode.real l = sortVals Mode.known l := by
  induction l with
  | nil => rfl
  | cons x xs ih => simp [sortVals, ih, insertSorted_rk]

theorem sort_rk (v : Val) : funcSort Mode.real v = funcSort Mode.known v := by
  simp only [funcSort, shallowM_rk, sortVals_rk]

theorem tostring_rk (ff : UInt64 → Option Bytes) (v : Val) :
    funcToString Mode.real ff v = funcToString Mode.known ff v := by
  simp only [funcToString, shallowM_rk, tojson_rk]

theorem objectKey_rk (ff : UInt64 → Option Bytes) (v : Val) :
    objectKey Mode.real ff v = objectKey Mode.known ff v := by
  cases v <;> simp [objectKey, Mode.real, Mode.known]

theorem entries_fields (fs : List (Bytes × DV)) :
    (fs.map (fun f => (Val.str f.1, Val.dv f.2))).map (fun p => entry p.1 p.2)
      = (fs.map (fun f => (f.1, Val.dv f.2))).map (fun kv => entry (.str kv.1) kv.2) := by
  simp [List.map_map, Function.comp_def]

theorem toentries_rk (v : Val) : OutEq (funcToEntries Mode.real v) (funcToEntries Mode.known v) := by
  cases v with
  | dv d =>
    cases d with
    | struct fs =>
      have : ¬ ((fs.length : Int) < ↑fs.length) := by omega
      simp [funcToEntries, Mode.view, Mode.real, Mode.known, specView, DV.mType, DV.mLength, DV.mEach,
        OutEq, List.map_map, entry, Function.comp_def]
    | array es =>
      simp [funcToEntries, Mode.view, Mode.real, Mode.known, specView, DV.mType, Val.shallowM, DV.mToGoJQ, OutEq]
    | scalar k sym y =>
      unfold funcToEntries
      rw [view_known_scalar]
      simp only [Mode.view, Mode.real, if_true, DV.mType, DV.mLength, DV.mEach, wrapScalar, Val.shallowM, DV.mToGoJQ]
      generalize scalarValue k sym = sv
      cases sv with
      | raw bs => simp [svView, wrapSV, G.type, G.toGoJQ, Val.ofJV, OutEq, unm]
      | j v =>
        cases v with
        | obj kvs =>
          simp only [svView, wrapSV, G.type, G.length, G.each, G.toGoJQ, Val.ofJV, if_true, List.length_map]
          have : ¬ ((kvs.length : Int) < ↑kvs.length) := by omega
          simp only [gt_iff_lt, Int.ofNat_lt, Nat.lt_irrefl, if_false, List.any_map, Function.comp_def,
            List.any_eq_true, not_exists, Int.toNat_natCast, Nat.sub_self, List.replicate_zero, List.append_nil, OutEq]
          simp only [List.map_map, Function.comp_def]
          induction kvs with
          | nil => simp [Val.ofJVkvs]
          | cons kv kvs ih => obtain ⟨k', x⟩ := kv; simp [Val.ofJVkvs] at ih ⊢; exact ih
        | _ => simp [svView, wrapSV, G.type, G.toGoJQ, Val.ofJV, OutEq, unm, ofJVs_length]
  | garr xs => simp [funcToEntries, Mode.view, Mode.real, Mode.known, OutEq, ofJVs_length]
  | _ => simp only [funcToEntries, Mode.view, Mode.real, Mode.known, if_true, Bool.false_eq_true, if_false]; exact OutEq.rfl' _

/-! ### query level: the code equals the specification plus the recorded deviations -/

def errEq : Option (Outcome Unit) → Option (Outcome Unit) → Prop
  | none, none => True
  | some (.err e1), some (.err e2) => unm e1 = unm e2
  | some (.panic _), some (.panic _) => True
  | some (.ok _), some (.ok _) => True
  | _, _ => False

/-- same outputs in the same order, and the evaluation ended the same way (no error / an error /
    a Go panic / a declined evaluation) -/
def ResEq (r1 r2 : Res) : Prop := r1.outs = r2.outs ∧ errEq r1.err r2.err

theorem errEq_refl (e : Option (Outcome Unit)) : errEq e e := by
  cases e with
  | none => trivial
  | some o => cases o <;> simp [errEq]

theorem ResEq.refl (r : Res) : ResEq r r := ⟨rfl, errEq_refl _⟩

theorem ResEq_ofOutcome {a b : Outcome Val} (h : OutEq a b) : ResEq (Res.ofOutcome a) (Res.ofOutcome b) := by
  cases a <;> cases b <;> simp_all [OutEq, Res.ofOutcome, ResEq, errEq]

/-- the `match r.err with | some e => {r.outs, some e} | none => {r.outs, fb}` step of eval -/
def seqRes (r : Res) (fb : Option (Outcome Unit)) : Res :=
  match r.err with
  | some e => { outs := r.outs, err := some e }
  | none => { outs := r.outs, err := fb }

theorem seqRes_congr {r r' : Res} {fb fb' : Option (Outcome Unit)} (h : ResEq r r') (hf : errEq fb fb') :
    ResEq (seqRes r fb) (seqRes r' fb') := by
  obtain ⟨ho, he⟩ := h
  unfold seqRes
  cases h1 : r.err <;> cases h2 : r'.err <;> simp_all [ResEq, errEq]

theorem bindRes_congr (f g : Val → Res) (h : ∀ v, ResEq (f v) (g v)) (vs : List Val) :
    ResEq (bindRes f vs) (bindRes g vs) := by
  induction vs with
  | nil => exact ⟨rfl, trivial⟩
  | cons v vs ih =>
    obtain ⟨ho, he⟩ := h v
    obtain ⟨iho, ihe⟩ := ih
    simp only [bindRes]
    cases h1 : (f v).err <;> cases h2 : (g v).err <;> simp_all [ResEq, errEq]

theorem descend_rk (fuel : Nat) (v : Val) : descend Mode.real fuel v = descend Mode.known fuel v := by
  induction fuel generalizing v with
  | zero => rfl
  | succ f ih =>
    simp only [descend]
    have h := each_rk v
    revert h
    cases opEach Mode.real v <;> cases opEach Mode.known v <;> simp [OutEq]
    intro h; subst h
    congr 1
    funext p
    exact ih p.2

theorem descendPaths_rk (fuel : Nat) (p : List Val) (v : Val) :
    descendPaths Mode.real fuel p v = descendPaths Mode.known fuel p v := by
  induction fuel generalizing v p with
  | zero => rfl
  | succ f ih =>
    simp only [descendPaths]
    have h := each_rk v
    revert h
    cases opEach Mode.real v <;> cases opEach Mode.known v <;> simp [OutEq]
    intro h; subst h
    congr 1
    funext q
    exact ih _ q.2

theorem eval_pipe (m : Mode) (ff) (a b : Q) (v : Val) :
    (Q.pipe a b).eval m ff v = seqRes (bindRes (b.eval m ff) (a.eval m ff v).outs) (a.eval m ff v).err := by
  rw [Q.eval]; rfl

theorem eval_comma (m : Mode) (ff) (a b : Q) (v : Val) :
    (Q.comma a b).eval m ff v =
      (match (a.eval m ff v).err with
       | some e => { outs := (a.eval m ff v).outs, err := some e }
       | none => { outs := (a.eval m ff v).outs ++ (b.eval m ff v).outs, err := (b.eval m ff v).err }) := by
  rw [Q.eval]; rfl

theorem eval_objC (m : Mode) (ff) (kq vq : Q) (v : Val) :
    (Q.objC kq vq).eval m ff v = seqRes (bindRes (fun k =>
        if (vq.eval m ff v).outs.isEmpty then { outs := [], err := (vq.eval m ff v).err }
        else match objectKey m ff k with
          | .ok ks => { outs := (vq.eval m ff v).outs.map (fun x => Val.obj [(ks, x)]), err := (vq.eval m ff v).err }
          | .err e => { outs := [], err := some (.err e) }
          | .panic w => { outs := [], err := some (.panic w) }) (kq.eval m ff v).outs) (kq.eval m ff v).err := by
  rw [Q.eval]; rfl

theorem eval_bin (m : Mode) (ff) (op : Op2) (a b : Q) (v : Val) :
    (Q.bin op a b).eval m ff v = seqRes (bindRes (fun y =>
        seqRes (bindRes (fun x =>
          match op with
          | .eq => { outs := [.bool (Val.cmpM m x y == 0)] }
          | .lt => { outs := [.bool (Val.cmpM m x y < 0)] }
          | .add => .ofOutcome (funcAdd m x y)
          | .sub => .ofOutcome (funcSub m x y)) (a.eval m ff v).outs) (a.eval m ff v).err) (b.eval m ff v).outs) (b.eval m ff v).err := by
  rw [Q.eval]; rfl

theorem eval_ite (m : Mode) (ff) (c a b : Q) (v : Val) :
    (Q.ite c a b).eval m ff v = seqRes (bindRes (fun x =>
        if truthy m x then a.eval m ff v else b.eval m ff v) (c.eval m ff v).outs) (c.eval m ff v).err := by
  rw [Q.eval]; rfl

theorem bindRes_outs_congr (f g : Val → Res) (h : ∀ v, ResEq (f v) (g v)) {vs vs' : List Val} (hv : vs = vs') :
    ResEq (bindRes f vs) (bindRes g vs') := by
  subst hv; exact bindRes_congr f g h vs

/-- For every slice-free query of the mini-jq and EVERY evaluation value (decode values of any
    shape, plain values, containers holding decode values): the model of the code (dispatch to the
    JQValue* methods) and the specification (plain gojq semantics on the view = tovalue one level
    deep, + D1-D4) extended by exactly the recorded deviations give the same outputs in the same
    order and end the same way. -/
theorem eval_rk (ff : UInt64 → Option Bytes) :
    ∀ (q : Q) (v : Val), ResEq (q.eval Mode.real ff v) (q.eval Mode.known ff v)
  | .id, v => ResEq.refl _
  | .field k, v => by simp only [Q.eval]; exact ResEq_ofOutcome (key_rk v k)
  | .index i, v => by simp only [Q.eval]; exact ResEq_ofOutcome (index_rk v i)
  | .slice a b, v => by simp only [Q.eval]; exact ResEq_ofOutcome (slice_rk v a b)
  | .iter, v => by
    simp only [Q.eval]
    have h := each_rk v
    revert h
    cases opEach Mode.real v <;> cases opEach Mode.known v <;> simp [OutEq, ResEq, errEq]
    intro h; rw [h]
  | .recurse, v => by simp only [Q.eval, descend_rk]; exact ResEq.refl _
  | .pipe a b, v => by
    rw [eval_pipe, eval_pipe]
    have ha := eval_rk ff a v
    exact seqRes_congr (bindRes_outs_congr _ _ (eval_rk ff b) ha.1) ha.2
  | .comma a b, v => by
    rw [eval_comma, eval_comma]
    obtain ⟨hao, hae⟩ := eval_rk ff a v
    obtain ⟨hbo, hbe⟩ := eval_rk ff b v
    cases h1 : (a.eval Mode.real ff v).err <;> cases h2 : (a.eval Mode.known ff v).err <;>
      simp_all [ResEq, errEq]
  | .lit j, v => ResEq.refl _
  | .arrC q, v => by
    obtain ⟨ho, he⟩ := eval_rk ff q v
    simp only [Q.eval]
    cases h1 : (q.eval Mode.real ff v).err <;> cases h2 : (q.eval Mode.known ff v).err <;>
      simp_all [ResEq, errEq]
  | .objC kq vq, v => by
    have hk := eval_rk ff kq v
    have hv := eval_rk ff vq v
    rw [eval_objC, eval_objC]
    refine seqRes_congr (bindRes_outs_congr _ _ ?_ hk.1) hk.2
    intro k
    simp only [objectKey_rk ff k, hv.1]
    split
    · exact ⟨rfl, hv.2⟩
    · cases objectKey Mode.known ff k with
      | ok ks => exact ⟨rfl, hv.2⟩
      | err e => exact ⟨rfl, by simp [errEq]⟩
      | panic w => exact ⟨rfl, by simp [errEq]⟩
  | .keys, v => by simp only [Q.eval]; exact ResEq_ofOutcome (keys_rk v)
  | .length, v => by simp only [Q.eval]; exact ResEq_ofOutcome (length_rk v)
  | .type, v => by simp only [Q.eval, type_rk]; exact ResEq.refl _
  | .paths, v => by simp only [Q.eval, descendPaths_rk]; exact ResEq.refl _
  | .toEntries, v => by simp only [Q.eval]; exact ResEq_ofOutcome (toentries_rk v)
  | .tojson, v => by simp only [Q.eval, tojson_rk]; exact ResEq.refl _
  | .tostring, v => by simp only [Q.eval, tostring_rk]; exact ResEq.refl _
  | .tonumber, v => by simp only [Q.eval]; exact ResEq_ofOutcome (tonumber_rk v)
  | .sort, v => by simp only [Q.eval, sort_rk]; exact ResEq.refl _
  | .has k, v => by simp only [Q.eval]; exact ResEq_ofOutcome (has_rk v k)
  | .bin op a b, v => by
    have ha := eval_rk ff a v
    have hb := eval_rk ff b v
    rw [eval_bin, eval_bin]
    refine seqRes_congr (bindRes_outs_congr _ _ ?_ hb.1) hb.2
    intro y
    refine seqRes_congr (bindRes_outs_congr _ _ ?_ ha.1) ha.2
    intro x
    cases op <;> simp only [cmp_rk, add_rk, sub_rk] <;> exact ResEq.refl _
  | .ite c a b, v => by
    have hc := eval_rk ff c v
    rw [eval_ite, eval_ite]
    refine seqRes_congr (bindRes_outs_congr _ _ ?_ hc.1) hc.2
    intro x
    simp only [truthy_rk]
    split
    · exact eval_rk ff a v
    · exact eval_rk ff b v
  | .alt a b, v => by
    obtain ⟨hao, hae⟩ := eval_rk ff a v
    have hb := eval_rk ff b v
    simp only [Q.eval]
    have ht : (a.eval Mode.real ff v).outs.filter (truthy Mode.real) = (a.eval Mode.known ff v).outs.filter (truthy Mode.known) := by
      rw [hao]; congr 1; funext x; exact truthy_rk x
    cases h1 : (a.eval Mode.real ff v).err <;> cases h2 : (a.eval Mode.known ff v).err <;>
      simp_all [ResEq, errEq]
    split <;> simp_all [ResEq, errEq]
  | .try q, v => by
    obtain ⟨ho, he⟩ := eval_rk ff q v
    simp only [Q.eval]
    cases h1 : (q.eval Mode.real ff v).err with
    | none =>
      cases h2 : (q.eval Mode.known ff v).err with
      | none => simp_all [ResEq, errEq]
      | some e2 => simp_all [errEq]
    | some e1 =>
      cases h2 : (q.eval Mode.known ff v).err with
      | none => simp_all [errEq]
      | some e2 =>
        rw [h1, h2] at he
        cases e1 with
        | ok u => cases e2 <;> simp_all [errEq, ResEq]
        | panic w => cases e2 <;> simp_all [errEq, ResEq]
        | err x1 =>
          cases e2 with
          | err x2 =>
            simp only [errEq] at he
            cases x1 <;> cases x2 <;> simp_all [unm, ResEq, errEq]
          | ok u => simp_all [errEq]
          | panic w => simp_all [errEq]

end Proofs.C08
