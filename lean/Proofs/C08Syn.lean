import FqModel.JQValue
import Proofs.C08
import Proofs.C08Utf8
import Proofs.C08Methods
import Proofs.C08Spec
import Proofs.C08Plain
import Proofs.C08Order
/-!
  C08 — syntactic sufficient conditions for the two semantic hypotheses of `indistinguishable`:
  only `.k` reads the (D3) flag and only `.[i]`, `{(k):v}`, `length` read a deviation flag, so a
  query without them evaluates identically in the modes that differ in those flags (`eval_congr`).
-/
namespace Proofs.C08
open FqModel FqModel.JQValue

/-- which of the four constructs that read a mode flag (D3: `.k`; the recorded deviations: `.[i]`,
    `{(k):v}`, `length`) a query may contain -/
def Syn (fld idx obj len : Bool) : Q → Prop
  | .field _ => fld = true
  | .index _ => idx = true
  | .length => len = true
  | .objC k v => obj = true ∧ Syn fld idx obj len k ∧ Syn fld idx obj len v
  | .pipe a b => Syn fld idx obj len a ∧ Syn fld idx obj len b
  | .comma a b => Syn fld idx obj len a ∧ Syn fld idx obj len b
  | .arrC q => Syn fld idx obj len q
  | .bin _ a b => Syn fld idx obj len a ∧ Syn fld idx obj len b
  | .ite c a b => Syn fld idx obj len c ∧ Syn fld idx obj len a ∧ Syn fld idx obj len b
  | .alt a b => Syn fld idx obj len a ∧ Syn fld idx obj len b
  | .try q => Syn fld idx obj len q
  | _ => True

/-- two modes agree on every builtin, except possibly on the four flag-reading ones -/
structure ModeCongr (m1 m2 : Mode) (ff : UInt64 → Option Bytes) (fld idx obj len : Bool) : Prop where
  hkey : fld = true → ∀ v k, OutEq (indexKey m1 v k) (indexKey m2 v k)
  hidx : idx = true → ∀ v i, OutEq (indexInt m1 v i) (indexInt m2 v i)
  hobj : obj = true → ∀ k, objectKey m1 ff k = objectKey m2 ff k
  hlen : len = true → ∀ v, OutEq (funcLength m1 v) (funcLength m2 v)
  hslice : ∀ v a b, OutEq (funcSlice m1 v a b) (funcSlice m2 v a b)
  heach : ∀ v, OutEq (opEach m1 v) (opEach m2 v)
  hdesc : ∀ f v, descend m1 f v = descend m2 f v
  hpaths : ∀ f p v, descendPaths m1 f p v = descendPaths m2 f p v
  hkeys : ∀ v, OutEq (funcKeys m1 v) (funcKeys m2 v)
  htype : ∀ v, funcType m1 v = funcType m2 v
  hent : ∀ v, OutEq (funcToEntries m1 v) (funcToEntries m2 v)
  htojson : ∀ v, funcToJSON m1 ff v = funcToJSON m2 ff v
  htostr : ∀ v, funcToString m1 ff v = funcToString m2 ff v
  htonum : ∀ v, OutEq (funcToNumber m1 v) (funcToNumber m2 v)
  hsort : ∀ v, funcSort m1 v = funcSort m2 v
  hhas : ∀ v k, OutEq (funcHas m1 v (Val.ofJV k)) (funcHas m2 v (Val.ofJV k))
  hcmp : ∀ a b, Val.cmpM m1 a b = Val.cmpM m2 a b
  hadd : ∀ a b, funcAdd m1 a b = funcAdd m2 a b
  hsub : ∀ a b, funcSub m1 a b = funcSub m2 a b
  htruthy : ∀ v, truthy m1 v = truthy m2 v

theorem eval_congr {m1 m2 : Mode} {ff : UInt64 → Option Bytes} {fld idx obj len : Bool}
    (H : ModeCongr m1 m2 ff fld idx obj len) :
    ∀ (q : Q), Syn fld idx obj len q → ∀ v : Val, ResEq (q.eval m1 ff v) (q.eval m2 ff v)
  | .id, h, v => ResEq.refl _
  | .field k, h, v => by simp only [Q.eval]; exact ResEq_ofOutcome (H.hkey (by simpa [Syn] using h) v k)
  | .index i, h, v => by simp only [Q.eval]; exact ResEq_ofOutcome (H.hidx (by simpa [Syn] using h) v i)
  | .slice a b, h, v => by simp only [Q.eval]; exact ResEq_ofOutcome (H.hslice v a b)
  | .iter, h, v => by
    simp only [Q.eval]
    have h := H.heach v
    revert h
    cases opEach m1 v <;> cases opEach m2 v <;> simp [OutEq, ResEq, errEq]
    intro h; rw [h]
  | .recurse, h, v => by simp only [Q.eval, H.hdesc]; exact ResEq.refl _
  | .pipe a b, h, v => by
    rw [eval_pipe, eval_pipe]
    have ha := eval_congr H a (by simp only [Syn] at h; exact h.1) v
    exact seqRes_congr (bindRes_outs_congr _ _ (fun x => eval_congr H b (by simp only [Syn] at h; exact h.2) x) ha.1) ha.2
  | .comma a b, h, v => by
    rw [eval_comma, eval_comma]
    obtain ⟨hao, hae⟩ := eval_congr H a (by simp only [Syn] at h; exact h.1) v
    obtain ⟨hbo, hbe⟩ := eval_congr H b (by simp only [Syn] at h; exact h.2) v
    cases h1 : (a.eval m1 ff v).err <;> cases h2 : (a.eval m2 ff v).err <;>
      simp_all [ResEq, errEq]
  | .lit j, h, v => ResEq.refl _
  | .arrC q, h, v => by
    obtain ⟨ho, he⟩ := eval_congr H q (by simp only [Syn] at h; exact h) v
    simp only [Q.eval]
    cases h1 : (q.eval m1 ff v).err <;> cases h2 : (q.eval m2 ff v).err <;>
      simp_all [ResEq, errEq]
  | .objC kq vq, h, v => by
    have hk := eval_congr H kq (by simp only [Syn] at h; exact h.2.1) v
    have hv := eval_congr H vq (by simp only [Syn] at h; exact h.2.2) v
    rw [eval_objC, eval_objC]
    refine seqRes_congr (bindRes_outs_congr _ _ ?_ hk.1) hk.2
    intro k
    simp only [H.hobj (by simpa [Syn] using h.1) k, hv.1]
    split
    · exact ⟨rfl, hv.2⟩
    · cases objectKey m2 ff k with
      | ok ks => exact ⟨rfl, hv.2⟩
      | err e => exact ⟨rfl, by simp [errEq]⟩
      | panic w => exact ⟨rfl, by simp [errEq]⟩
  | .keys, h, v => by simp only [Q.eval]; exact ResEq_ofOutcome (H.hkeys v)
  | .length, h, v => by simp only [Q.eval]; exact ResEq_ofOutcome (H.hlen (by simpa [Syn] using h) v)
  | .type, h, v => by simp only [Q.eval, H.htype]; exact ResEq.refl _
  | .paths, h, v => by simp only [Q.eval, H.hpaths]; exact ResEq.refl _
  | .toEntries, h, v => by simp only [Q.eval]; exact ResEq_ofOutcome (H.hent v)
  | .tojson, h, v => by simp only [Q.eval, H.htojson]; exact ResEq.refl _
  | .tostring, h, v => by simp only [Q.eval, H.htostr]; exact ResEq.refl _
  | .tonumber, h, v => by simp only [Q.eval]; exact ResEq_ofOutcome (H.htonum v)
  | .sort, h, v => by simp only [Q.eval, H.hsort]; exact ResEq.refl _
  | .has k, h, v => by simp only [Q.eval]; exact ResEq_ofOutcome (H.hhas v k)
  | .bin op a b, h, v => by
    have ha := eval_congr H a (by simp only [Syn] at h; exact h.1) v
    have hb := eval_congr H b (by simp only [Syn] at h; exact h.2) v
    rw [eval_bin, eval_bin]
    refine seqRes_congr (bindRes_outs_congr _ _ ?_ hb.1) hb.2
    intro y
    refine seqRes_congr (bindRes_outs_congr _ _ ?_ ha.1) ha.2
    intro x
    cases op <;> simp only [H.hcmp, H.hadd, H.hsub] <;> exact ResEq.refl _
  | .ite c a b, h, v => by
    have hc := eval_congr H c (by simp only [Syn] at h; exact h.1) v
    rw [eval_ite, eval_ite]
    refine seqRes_congr (bindRes_outs_congr _ _ ?_ hc.1) hc.2
    intro x
    simp only [H.htruthy]
    split
    · exact eval_congr H a (by simp only [Syn] at h; exact h.2.1) v
    · exact eval_congr H b (by simp only [Syn] at h; exact h.2.2) v
  | .alt a b, h, v => by
    obtain ⟨hao, hae⟩ := eval_congr H a (by simp only [Syn] at h; exact h.1) v
    have hb := eval_congr H b (by simp only [Syn] at h; exact h.2) v
    simp only [Q.eval]
    have ht : (a.eval m1 ff v).outs.filter (truthy m1) = (a.eval m2 ff v).outs.filter (truthy m2) := by
      rw [hao]; congr 1; funext x; exact H.htruthy x
    cases h1 : (a.eval m1 ff v).err <;> cases h2 : (a.eval m2 ff v).err <;>
      simp_all [ResEq, errEq]
    split <;> simp_all [ResEq, errEq]
  | .try q, h, v => by
    obtain ⟨ho, he⟩ := eval_congr H q (by simp only [Syn] at h; exact h) v
    simp only [Q.eval]
    cases h1 : (q.eval m1 ff v).err with
    | none =>
      cases h2 : (q.eval m2 ff v).err with
      | none => simp_all [ResEq, errEq]
      | some e2 => simp_all [errEq]
    | some e1 =>
      cases h2 : (q.eval m2 ff v).err with
      | none => simp_all [errEq]
      | some e2 =>
        rw [h1, h2] at he
        cases e1 with
        | ok u => cases e2 <;> simp_all [errEq, ResEq]
        | panic w => cases e2 <;> simp_all [errEq, ResEq]
        | err x1 =>
          cases e2 with
          | err x2 =>
            simp only [errEq] at he
            cases x1 <;> cases x2 <;> simp_all [unm, ResEq, errEq]
          | ok u => simp_all [errEq]
          | panic w => simp_all [errEq]


/-! ### builtins that read no flag do not depend on the flags -/

section flags
variable (m1 m2 : Mode) (h1 : m1.impl = false) (h2 : m2.impl = false)
include h1 h2

theorem view_flags (v : Val) : m1.view v = m2.view v := by simp [Mode.view, h1, h2]

theorem slice_flags (v : Val) (a b : Option Int) : funcSlice m1 v a b = funcSlice m2 v a b := by
  simp only [funcSlice, view_flags m1 m2 h1 h2 v, h1, h2]

theorem each_flags (v : Val) : opEach m1 v = opEach m2 v := by
  simp only [opEach, view_flags m1 m2 h1 h2 v]

theorem keys_flags (v : Val) : funcKeys m1 v = funcKeys m2 v := by
  simp only [funcKeys, view_flags m1 m2 h1 h2 v]

theorem type_flags (v : Val) : funcType m1 v = funcType m2 v := by
  simp only [funcType, view_flags m1 m2 h1 h2 v]

theorem tonumber_flags (v : Val) : funcToNumber m1 v = funcToNumber m2 v := by
  simp only [funcToNumber, view_flags m1 m2 h1 h2 v]

theorem shallowM_flags (v : Val) : v.shallowM m1 = v.shallowM m2 := by
  cases v <;> simp [Val.shallowM, h1, h2]

theorem toentries_flags (v : Val) : funcToEntries m1 v = funcToEntries m2 v := by
  simp only [funcToEntries, view_flags m1 m2 h1 h2 v, shallowM_flags m1 m2 h1 h2]

theorem has_flags (v x : Val) : funcHas m1 v x = funcHas m2 v x := by
  simp only [funcHas, view_flags m1 m2 h1 h2 v, shallowM_flags m1 m2 h1 h2, h1, h2]

mutual
theorem deepM_flags : ∀ v : Val, v.deepM m1 = v.deepM m2
  | .null => rfl
  | .bool _ => rfl
  | .int _ => rfl
  | .float _ => rfl
  | .str _ => rfl
  | .arr xs => by simp [Val.deepM, deepMList_flags xs]
  | .obj kvs => by simp [Val.deepM, deepMKvs_flags kvs]
  | .dv d => by simp [Val.deepM, h1, h2]
  | .ext _ => rfl
  | .garr _ => rfl
theorem deepMList_flags : ∀ xs : List Val, Val.deepMList m1 xs = Val.deepMList m2 xs
  | [] => rfl
  | x :: xs => by simp [Val.deepMList, deepM_flags x, deepMList_flags xs]
theorem deepMKvs_flags : ∀ kvs : List (Bytes × Val), Val.deepMKvs m1 kvs = Val.deepMKvs m2 kvs
  | [] => rfl
  | (k, v) :: kvs => by simp [Val.deepMKvs, deepM_flags v, deepMKvs_flags kvs]
end

theorem cmp_flags (a b : Val) : Val.cmpM m1 a b = Val.cmpM m2 a b := by
  simp only [Val.cmpM, deepM_flags m1 m2 h1 h2]

theorem tojson_flags (ff) (v : Val) : funcToJSON m1 ff v = funcToJSON m2 ff v := by
  simp only [funcToJSON, deepM_flags m1 m2 h1 h2]

theorem tostring_flags (ff) (v : Val) : funcToString m1 ff v = funcToString m2 ff v := by
  simp only [funcToString, shallowM_flags m1 m2 h1 h2, tojson_flags m1 m2 h1 h2]

theorem truthy_flags (v : Val) : truthy m1 v = truthy m2 v := by
  simp only [truthy, shallowM_flags m1 m2 h1 h2]

theorem add_flags (a b : Val) : funcAdd m1 a b = funcAdd m2 a b := by
  simp only [funcAdd, shallowM_flags m1 m2 h1 h2]

theorem sub_flags (a b : Val) : funcSub m1 a b = funcSub m2 a b := by
  simp only [funcSub, shallowM_flags m1 m2 h1 h2, cmp_flags m1 m2 h1 h2]

theorem insertSorted_flags (x : Val) (l : List Val) : insertSorted m1 x l = insertSorted m2 x l := by
  induction l with
  | nil => rfl
  | cons y ys ih => simp [insertSorted, cmp_flags m1 m2 h1 h2, ih]

theorem sortVals_flags (l : List Val) : sortVals m1 l = sortVals m2 l := by
  induction l with
  | nil => rfl
  | cons x xs ih => simp [sortVals, ih, insertSorted_flags m1 m2 h1 h2]

theorem sort_flags (v : Val) : funcSort m1 v = funcSort m2 v := by
  simp only [funcSort, shallowM_flags m1 m2 h1 h2, sortVals_flags m1 m2 h1 h2]

theorem descend_flags (f : Nat) (v : Val) : descend m1 f v = descend m2 f v := by
  induction f generalizing v with
  | zero => rfl
  | succ f ih => simp only [descend, each_flags m1 m2 h1 h2, ih]

theorem descendPaths_flags (f : Nat) (p : List Val) (v : Val) : descendPaths m1 f p v = descendPaths m2 f p v := by
  induction f generalizing v p with
  | zero => rfl
  | succ f ih => simp only [descendPaths, each_flags m1 m2 h1 h2, ih]

theorem key_flags (hd : m1.dNullKey = m2.dNullKey) (v : Val) (k : Bytes) : indexKey m1 v k = indexKey m2 v k := by
  simp only [indexKey, view_flags m1 m2 h1 h2 v, h1, h2, hd]

theorem index_flags (hd : m1.kStrIdx = m2.kStrIdx) (v : Val) (i : Int) : indexInt m1 v i = indexInt m2 v i := by
  simp only [indexInt, view_flags m1 m2 h1 h2 v, h1, h2, hd]

theorem length_flags (hd : m1.kMinInt = m2.kMinInt) (v : Val) : funcLength m1 v = funcLength m2 v := by
  simp only [funcLength, view_flags m1 m2 h1 h2 v, hd]

theorem objectKey_flags (hd : m1.kObjKey = m2.kObjKey) (ff) (k : Val) : objectKey m1 ff k = objectKey m2 ff k := by
  cases k <;> simp [objectKey, h1, h2, hd]

/-- two specification modes agree on every query that avoids the constructs whose flags differ -/
theorem modeCongr_flags (ff) (fld idx obj len : Bool)
    (hf : fld = true → m1.dNullKey = m2.dNullKey) (hi : idx = true → m1.kStrIdx = m2.kStrIdx)
    (ho : obj = true → m1.kObjKey = m2.kObjKey) (hl : len = true → m1.kMinInt = m2.kMinInt) :
    ModeCongr m1 m2 ff fld idx obj len where
  hkey := fun h v k => by rw [key_flags m1 m2 h1 h2 (hf h)]; exact OutEq.rfl' _
  hidx := fun h v i => by rw [index_flags m1 m2 h1 h2 (hi h)]; exact OutEq.rfl' _
  hobj := fun h k => objectKey_flags m1 m2 h1 h2 (ho h) ff k
  hlen := fun h v => by rw [length_flags m1 m2 h1 h2 (hl h)]; exact OutEq.rfl' _
  hslice := fun v a b => by rw [slice_flags m1 m2 h1 h2]; exact OutEq.rfl' _
  heach := fun v => by rw [each_flags m1 m2 h1 h2]; exact OutEq.rfl' _
  hdesc := descend_flags m1 m2 h1 h2
  hpaths := descendPaths_flags m1 m2 h1 h2
  hkeys := fun v => by rw [keys_flags m1 m2 h1 h2]; exact OutEq.rfl' _
  htype := type_flags m1 m2 h1 h2
  hent := fun v => by rw [toentries_flags m1 m2 h1 h2]; exact OutEq.rfl' _
  htojson := tojson_flags m1 m2 h1 h2 ff
  htostr := tostring_flags m1 m2 h1 h2 ff
  htonum := fun v => by rw [tonumber_flags m1 m2 h1 h2]; exact OutEq.rfl' _
  hsort := sort_flags m1 m2 h1 h2
  hhas := fun v k => by rw [has_flags m1 m2 h1 h2]; exact OutEq.rfl' _
  hcmp := cmp_flags m1 m2 h1 h2
  hadd := add_flags m1 m2 h1 h2
  hsub := sub_flags m1 m2 h1 h2
  htruthy := truthy_flags m1 m2 h1 h2

end flags

/-- a query without `.k` cannot show (D3) -/
theorem noNullKey_of_syn (ff) (q : Q) (idx obj len : Bool) (h : Syn false idx obj len q) (v : Val) :
    NoNullKey ff q v :=
  eval_congr (modeCongr_flags Mode.spec Mode.strict rfl rfl ff false idx obj len
    (by simp) (fun _ => rfl) (fun _ => rfl) (fun _ => rfl)) q h v

/-- a query without `.[i]`, `{(k):v}` and `length` cannot show a recorded deviation -/
theorem noQuirk_of_syn (ff) (q : Q) (fld : Bool) (h : Syn fld false false false q) (v : Val) :
    NoQuirk ff q v :=
  eval_congr (modeCongr_flags Mode.known Mode.spec rfl rfl ff fld false false false
    (fun _ => rfl) (by simp) (by simp) (by simp)) q h v

end Proofs.C08
