import FqModel.JQValue
/-!
  C08 — Go's UTF-8 decoding of what Go's UTF-8 encoding wrote (`[]rune(string(runes))`), for the
  model functions `decode1` / `encodeRune` / `chunks` of FqModel/JQValue.lean.
-/
namespace Proofs.C08
open FqModel FqModel.JQValue

/-- what `[]rune` → `string` does to a rune: surrogates and runes above U+10FFFF become U+FFFD -/
def fixRune (r : Nat) : Nat := if (0xD800 ≤ r && r ≤ 0xDFFF) || r > 0x10FFFF then 0xFFFD else r

theorem u8_toNat (n : Nat) (h : n < 256) : (n.toUInt8).toNat = n := by
  simp [Nat.toUInt8, UInt8.toNat_ofNat', Nat.mod_eq_of_lt h]

theorem decode1_ascii (r : Nat) (rest : Bytes) (h : r < 0x80) :
    decode1 (encodeRune r ++ rest) = (fixRune r, (encodeRune r).length) := by
  have hb : (r.toUInt8).toNat = r := u8_toNat r (by omega)
  have hlt : r.toUInt8 < 0x80 := by
    rw [UInt8.lt_iff_toNat_lt, hb]; exact h
  simp [encodeRune, h, decode1, hlt, hb, fixRune]
  omega

theorem u8_lt (n m : Nat) (hn : n < 256) (hm : m < 256) : (n.toUInt8 < m.toUInt8) = (n < m) := by
  rw [UInt8.lt_iff_toNat_lt, u8_toNat n hn, u8_toNat m hm]

theorem u8_le (n m : Nat) (hn : n < 256) (hm : m < 256) : (n.toUInt8 ≤ m.toUInt8) = (n ≤ m) := by
  rw [UInt8.le_iff_toNat_le, u8_toNat n hn, u8_toNat m hm]

theorem isCont_mk (x : Nat) (h : x < 64) : isCont (0x80 + x).toUInt8 = true := by
  have h1 : (0x80 : UInt8) = (0x80 : Nat).toUInt8 := rfl
  have h2 : (0xBF : UInt8) = (0xBF : Nat).toUInt8 := rfl
  simp only [isCont, h1, h2, Bool.and_eq_true, decide_eq_true_eq]
  rw [u8_le _ _ (by omega) (by omega), u8_le _ _ (by omega) (by omega)]
  omega

theorem decode1_two (r : Nat) (rest : Bytes) (h1 : 0x80 ≤ r) (h2 : r < 0x800) :
    decode1 (encodeRune r ++ rest) = (fixRune r, (encodeRune r).length) := by
  have e : encodeRune r = [(0xC0 + r / 64).toUInt8, (0x80 + r % 64).toUInt8] := by
    unfold encodeRune
    rw [if_neg (by omega), if_pos h2]
  rw [e]
  have hb0 : ((0xC0 + r / 64).toUInt8).toNat = 0xC0 + r / 64 := u8_toNat _ (by omega)
  have hb1 : ((0x80 + r % 64).toUInt8).toNat = 0x80 + r % 64 := u8_toNat _ (by omega)
  have c1 : ¬ ((0xC0 + r / 64).toUInt8 < 0x80) := by
    rw [UInt8.lt_iff_toNat_lt, hb0]; simp; omega
  have c2 : ¬ ((0xC0 + r / 64).toUInt8 < 0xC2) := by
    rw [UInt8.lt_iff_toNat_lt, hb0]; simp; omega
  have c3 : (0xC0 + r / 64).toUInt8 ≤ 0xDF := by
    rw [UInt8.le_iff_toNat_le, hb0]; simp; omega
  have hf : fixRune r = r := by
    unfold fixRune
    rw [if_neg]; simp; omega
  simp only [List.cons_append, List.nil_append, decode1, c1, c2, c3, if_false, if_true, isCont_mk (r % 64) (by omega), hb0, hb1,
    List.length_cons, List.length_nil, hf]
  congr 1
  omega

theorem u8_beq (n m : Nat) (hn : n < 256) (hm : m < 256) : (n.toUInt8 == m.toUInt8) = decide (n = m) := by
  by_cases h : n = m
  · subst h; simp
  · have : n.toUInt8 ≠ m.toUInt8 := by
      intro e
      have := congrArg UInt8.toNat e
      rw [u8_toNat n hn, u8_toNat m hm] at this
      exact h this
    simp [h, this]

theorem decode1_three (r : Nat) (rest : Bytes) (h1 : 0x800 ≤ r) (h2 : r < 0x10000)
    (hs : ¬ (0xD800 ≤ r ∧ r ≤ 0xDFFF)) :
    decode1 (encodeRune r ++ rest) = (fixRune r, (encodeRune r).length) := by
  have e : encodeRune r = [(0xE0 + r / 4096).toUInt8, (0x80 + r / 64 % 64).toUInt8, (0x80 + r % 64).toUInt8] := by
    unfold encodeRune
    rw [if_neg (by omega), if_neg (by omega), if_neg (by simp; omega), if_pos h2]
  rw [e]
  have hb0 : ((0xE0 + r / 4096).toUInt8).toNat = 0xE0 + r / 4096 := u8_toNat _ (by omega)
  have hb1 : ((0x80 + r / 64 % 64).toUInt8).toNat = 0x80 + r / 64 % 64 := u8_toNat _ (by omega)
  have hb2 : ((0x80 + r % 64).toUInt8).toNat = 0x80 + r % 64 := u8_toNat _ (by omega)
  have c1 : ¬ ((0xE0 + r / 4096).toUInt8 < 0x80) := by
    rw [UInt8.lt_iff_toNat_lt, hb0]; simp; omega
  have c2 : ¬ ((0xE0 + r / 4096).toUInt8 < 0xC2) := by
    rw [UInt8.lt_iff_toNat_lt, hb0]; simp; omega
  have c3 : ¬ ((0xE0 + r / 4096).toUInt8 ≤ 0xDF) := by
    rw [UInt8.le_iff_toNat_le, hb0]; simp; omega
  have c4 : (0xE0 + r / 4096).toUInt8 ≤ 0xEF := by
    rw [UInt8.le_iff_toNat_le, hb0]; simp; omega
  have hf : fixRune r = r := by
    unfold fixRune
    rw [if_neg]; simp; omega
  have q0 : ((0xE0 + r / 4096).toUInt8 == 0xE0) = decide (r / 4096 = 0) := by
    rw [show (0xE0 : UInt8) = (0xE0 : Nat).toUInt8 from rfl, u8_beq _ _ (by omega) (by omega)]
    congr 1; apply propext; constructor <;> intro h <;> omega
  have qd : ((0xE0 + r / 4096).toUInt8 == 0xED) = decide (r / 4096 = 13) := by
    rw [show (0xED : UInt8) = (0xED : Nat).toUInt8 from rfl, u8_beq _ _ (by omega) (by omega)]
    congr 1; apply propext; constructor <;> intro h <;> omega
  have hlo : (if ((0xE0 + r / 4096).toUInt8 == 0xE0) = true then (0xA0 : UInt8) else 0x80) ≤ (0x80 + r / 64 % 64).toUInt8 := by
    rw [q0]
    by_cases h0 : r / 4096 = 0
    · simp only [h0, decide_true, if_true]
      rw [show (0xA0 : UInt8) = (0xA0 : Nat).toUInt8 from rfl, u8_le _ _ (by omega) (by omega)]; omega
    · simp only [h0, decide_false, Bool.false_eq_true, if_false]
      rw [show (0x80 : UInt8) = (0x80 : Nat).toUInt8 from rfl, u8_le _ _ (by omega) (by omega)]; omega
  have hhi : (0x80 + r / 64 % 64).toUInt8 ≤ (if ((0xE0 + r / 4096).toUInt8 == 0xED) = true then (0x9F : UInt8) else 0xBF) := by
    rw [qd]
    by_cases h0 : r / 4096 = 13
    · simp only [h0, decide_true, if_true]
      rw [show (0x9F : UInt8) = (0x9F : Nat).toUInt8 from rfl, u8_le _ _ (by omega) (by omega)]; omega
    · simp only [h0, decide_false, Bool.false_eq_true, if_false]
      rw [show (0xBF : UInt8) = (0xBF : Nat).toUInt8 from rfl, u8_le _ _ (by omega) (by omega)]; omega
  simp only [List.cons_append, List.nil_append, decode1, c1, c2, c3, c4, if_false, if_true, hlo, hhi,
    isCont_mk (r % 64) (by omega), decide_true, Bool.and_self, hb0, hb1, hb2,
    List.length_cons, List.length_nil, hf]
  congr 1
  omega

theorem decode1_four (r : Nat) (rest : Bytes) (h1 : 0x10000 ≤ r) (h2 : r ≤ 0x10FFFF) :
    decode1 (encodeRune r ++ rest) = (fixRune r, (encodeRune r).length) := by
  have e : encodeRune r = [(0xF0 + r / 262144).toUInt8, (0x80 + r / 4096 % 64).toUInt8,
      (0x80 + r / 64 % 64).toUInt8, (0x80 + r % 64).toUInt8] := by
    unfold encodeRune
    rw [if_neg (by omega), if_neg (by omega), if_neg (by simp; omega), if_neg (by omega)]
  rw [e]
  have hb0 : ((0xF0 + r / 262144).toUInt8).toNat = 0xF0 + r / 262144 := u8_toNat _ (by omega)
  have hb1 : ((0x80 + r / 4096 % 64).toUInt8).toNat = 0x80 + r / 4096 % 64 := u8_toNat _ (by omega)
  have hb2 : ((0x80 + r / 64 % 64).toUInt8).toNat = 0x80 + r / 64 % 64 := u8_toNat _ (by omega)
  have hb3 : ((0x80 + r % 64).toUInt8).toNat = 0x80 + r % 64 := u8_toNat _ (by omega)
  have c1 : ¬ ((0xF0 + r / 262144).toUInt8 < 0x80) := by
    rw [UInt8.lt_iff_toNat_lt, hb0]; simp; omega
  have c2 : ¬ ((0xF0 + r / 262144).toUInt8 < 0xC2) := by
    rw [UInt8.lt_iff_toNat_lt, hb0]; simp; omega
  have c3 : ¬ ((0xF0 + r / 262144).toUInt8 ≤ 0xDF) := by
    rw [UInt8.le_iff_toNat_le, hb0]; simp; omega
  have c4 : ¬ ((0xF0 + r / 262144).toUInt8 ≤ 0xEF) := by
    rw [UInt8.le_iff_toNat_le, hb0]; simp; omega
  have c5 : (0xF0 + r / 262144).toUInt8 ≤ 0xF4 := by
    rw [UInt8.le_iff_toNat_le, hb0]; simp; omega
  have hf : fixRune r = r := by
    unfold fixRune
    rw [if_neg]; simp; omega
  have q0 : ((0xF0 + r / 262144).toUInt8 == 0xF0) = decide (r / 262144 = 0) := by
    rw [show (0xF0 : UInt8) = (0xF0 : Nat).toUInt8 from rfl, u8_beq _ _ (by omega) (by omega)]
    congr 1; apply propext; constructor <;> intro h <;> omega
  have q4 : ((0xF0 + r / 262144).toUInt8 == 0xF4) = decide (r / 262144 = 4) := by
    rw [show (0xF4 : UInt8) = (0xF4 : Nat).toUInt8 from rfl, u8_beq _ _ (by omega) (by omega)]
    congr 1; apply propext; constructor <;> intro h <;> omega
  have hlo : (if ((0xF0 + r / 262144).toUInt8 == 0xF0) = true then (0x90 : UInt8) else 0x80) ≤ (0x80 + r / 4096 % 64).toUInt8 := by
    rw [q0]
    by_cases h0 : r / 262144 = 0
    · simp only [h0, decide_true, if_true]
      rw [show (0x90 : UInt8) = (0x90 : Nat).toUInt8 from rfl, u8_le _ _ (by omega) (by omega)]; omega
    · simp only [h0, decide_false, Bool.false_eq_true, if_false]
      rw [show (0x80 : UInt8) = (0x80 : Nat).toUInt8 from rfl, u8_le _ _ (by omega) (by omega)]; omega
  have hhi : (0x80 + r / 4096 % 64).toUInt8 ≤ (if ((0xF0 + r / 262144).toUInt8 == 0xF4) = true then (0x8F : UInt8) else 0xBF) := by
    rw [q4]
    by_cases h0 : r / 262144 = 4
    · simp only [h0, decide_true, if_true]
      rw [show (0x8F : UInt8) = (0x8F : Nat).toUInt8 from rfl, u8_le _ _ (by omega) (by omega)]; omega
    · simp only [h0, decide_false, Bool.false_eq_true, if_false]
      rw [show (0xBF : UInt8) = (0xBF : Nat).toUInt8 from rfl, u8_le _ _ (by omega) (by omega)]; omega
  simp only [List.cons_append, List.nil_append, decode1, c1, c2, c3, c4, c5, if_false, if_true, hlo, hhi,
    isCont_mk (r % 64) (by omega), isCont_mk (r / 64 % 64) (by omega), decide_true, Bool.and_self, hb0, hb1, hb2, hb3,
    List.length_cons, List.length_nil, hf]
  congr 1
  omega

theorem decode1_invalid (r : Nat) (rest : Bytes) (h : (0xD800 ≤ r ∧ r ≤ 0xDFFF) ∨ r > 0x10FFFF) :
    decode1 (encodeRune r ++ rest) = (fixRune r, (encodeRune r).length) := by
  have e : encodeRune r = [0xEF, 0xBF, 0xBD] := by
    unfold encodeRune
    rw [if_neg (by omega), if_neg (by omega), if_pos (by simp; omega)]
  have hf : fixRune r = 0xFFFD := by
    unfold fixRune
    rw [if_pos]; simp; omega
  rw [e, hf]
  rfl

/-- utf8.DecodeRune ∘ utf8.AppendRune -/
theorem decode1_encodeRune (r : Nat) (rest : Bytes) :
    decode1 (encodeRune r ++ rest) = (fixRune r, (encodeRune r).length) := by
  by_cases h1 : r < 0x80
  · exact decode1_ascii r rest h1
  · by_cases h2 : r < 0x800
    · exact decode1_two r rest (by omega) h2
    · by_cases h3 : (0xD800 ≤ r ∧ r ≤ 0xDFFF) ∨ r > 0x10FFFF
      · exact decode1_invalid r rest h3
      · by_cases h4 : r < 0x10000
        · exact decode1_three r rest (by omega) h4 (by omega)
        · exact decode1_four r rest (by omega) (by omega)

theorem encodeRune_ne_nil (r : Nat) : encodeRune r ≠ [] := by
  unfold encodeRune
  split
  · simp
  · split
    · simp
    · split
      · simp
      · split <;> simp

theorem encodeRunes_cons (r : Nat) (rs : List Nat) : encodeRunes (r :: rs) = encodeRune r ++ encodeRunes rs := by
  simp [encodeRunes]

theorem chunksF_encodeRunes (rs : List Nat) (fuel : Nat) (h : (encodeRunes rs).length ≤ fuel) :
    chunksF fuel (encodeRunes rs) = rs.map encodeRune := by
  induction rs generalizing fuel with
  | nil => cases fuel <;> simp [encodeRunes, chunksF]
  | cons r rs ih =>
    rw [encodeRunes_cons] at h ⊢
    have hne := encodeRune_ne_nil r
    have hpos : 0 < (encodeRune r).length := List.length_pos_iff.mpr hne
    cases fuel with
    | zero => simp only [List.length_append] at h; omega
    | succ f =>
      have hd := decode1_encodeRune r (encodeRunes rs)
      cases hb : encodeRune r ++ encodeRunes rs with
      | nil => simp [hne] at hb
      | cons b bs =>
        rw [← hb]
        unfold chunksF
        rw [hb]
        simp only
        rw [← hb, hd]
        simp only [List.take_left', List.drop_left', List.map_cons]
        rw [ih f (by simp only [List.length_append] at h; omega)]

/-- the rune chunks of a string that `string(runes)` wrote are the encodings of the runes -/
theorem chunks_encodeRunes (rs : List Nat) : chunks (encodeRunes rs) = rs.map encodeRune :=
  chunksF_encodeRunes rs _ (Nat.le_refl _)

theorem chunks_sanitize (s : Bytes) : chunks (sanitize s) = (decodeRunes s).map encodeRune :=
  chunks_encodeRunes _

theorem chunks_sanitize_length (s : Bytes) : (chunks (sanitize s)).length = (chunks s).length := by
  rw [chunks_sanitize]; simp [decodeRunes]

theorem encodeRune_fixRune (r : Nat) : encodeRune (fixRune r) = encodeRune r := by
  unfold fixRune
  split
  · rename_i h
    have h' : (0xD800 ≤ r ∧ r ≤ 0xDFFF) ∨ r > 0x10FFFF := by
      simp only [Bool.or_eq_true, Bool.and_eq_true, decide_eq_true_eq] at h; exact h
    have e : encodeRune r = [0xEF, 0xBF, 0xBD] := by
      unfold encodeRune
      rw [if_neg (by omega), if_neg (by omega), if_pos (by simp; omega)]
    rw [e]; rfl
  · rfl

theorem decode1_encodeRune_nil (r : Nat) : (decode1 (encodeRune r)).1 = fixRune r := by
  have := decode1_encodeRune r []
  simp only [List.append_nil] at this
  rw [this]

theorem flatten_map_encodeRune (rs : List Nat) : (rs.map encodeRune).flatten = encodeRunes rs := by
  simp [encodeRunes, List.flatMap]

theorem decodeRunes_encodeRunes (rs : List Nat) : decodeRunes (encodeRunes rs) = rs.map fixRune := by
  simp only [decodeRunes, chunks_encodeRunes, List.map_map]
  apply List.map_congr_left
  intro r _
  simp [decode1_encodeRune_nil]

theorem encodeRunes_map_fixRune (rs : List Nat) : encodeRunes (rs.map fixRune) = encodeRunes rs := by
  induction rs with
  | nil => rfl
  | cons r rs ih => simp [encodeRunes_cons, encodeRune_fixRune, ih]

/-- `string([]rune(string([]rune(s))))` = `string([]rune(s))` -/
theorem sanitize_idem (s : Bytes) : sanitize (sanitize s) = sanitize s := by
  simp only [sanitize, decodeRunes_encodeRunes, encodeRunes_map_fixRune]

end Proofs.C08
