import FqModel.Binary
/-!
  C09 — helper lemmas about bit strings and the model of fq binaries (FqModel/Binary.lean).
  Core Lean only.
-/
namespace Proofs.C09
open FqModel FqModel.Binary

/-! ### slices -/

theorem slice_append_adj {α} (xs : List α) (a n m : Nat) :
    slice xs a n ++ slice xs (a + n) m = slice xs a (n + m) := by
  simp only [slice]
  rw [List.take_add, List.drop_drop]

theorem slice_zero_length {α} (xs : List α) : slice xs 0 xs.length = xs := by
  simp [slice]

theorem slice_slice_eq {α} (xs : List α) (a n c m : Nat) (h : c + m ≤ n) :
    slice (slice xs a n) c m = slice xs (a + c) m := by
  simp only [slice]
  rw [List.drop_take, List.take_take, List.drop_drop]
  congr 1
  omega

theorem rangeBits_ok (src : Bits) (off n : Nat) (h : off + n ≤ src.length) :
    rangeBits src off n = .ok (slice src off n) := by
  simp only [rangeBits]
  rw [if_neg (by omega)]

theorem rangeBits_self (bits : Bits) : rangeBits bits 0 bits.length = .ok bits := by
  rw [rangeBits_ok _ _ _ (by omega), slice_zero_length]

/-! ### value of a bit string -/

theorem foldl_bits_acc (bs : Bits) (acc : Nat) :
    bs.foldl (fun acc b => 2 * acc + (if b then 1 else 0)) acc
      = acc * 2 ^ bs.length + bs.foldl (fun acc b => 2 * acc + (if b then 1 else 0)) 0 := by
  induction bs generalizing acc with
  | nil => simp
  | cons b bs ih =>
    simp only [List.foldl_cons, List.length_cons]
    rw [ih (2 * acc + _), ih (2 * 0 + _)]
    rw [Nat.pow_succ]
    generalize 2 ^ bs.length = P
    generalize List.foldl (fun acc b => 2 * acc + if b = true then 1 else 0) 0 bs = R
    cases b <;> simp <;> grind

theorem ofBitsBE_cons (b : Bool) (bs : Bits) :
    ofBitsBE (b :: bs) = (if b then 1 else 0) * 2 ^ bs.length + ofBitsBE bs := by
  simp only [ofBitsBE, List.foldl_cons]
  rw [foldl_bits_acc]
  simp

theorem ofBitsBE_zeros_append (k : Nat) (bs : Bits) :
    ofBitsBE (List.replicate k false ++ bs) = ofBitsBE bs := by
  induction k with
  | zero => simp
  | succ k ih =>
    rw [List.replicate_succ, List.cons_append, ofBitsBE_cons, ih]
    simp

theorem ofBitsBE_append_zeros (bs : Bits) (k : Nat) :
    ofBitsBE (bs ++ List.replicate k false) = ofBitsBE bs * 2 ^ k := by
  induction k with
  | zero => simp
  | succ k ih =>
    rw [List.replicate_succ', ← List.append_assoc, ofBitsBE_append_bit, ih, Nat.pow_succ]
    simp [Nat.mul_comm, Nat.mul_left_comm]

/-- big.Int.SetBytes of the right-padded bytes, shifted right by the padding, is the value of the bits
    (binary.go:366-368 and :433-434) -/
theorem ofBitsBE_padR8_shift (bs : Bits) :
    ofBitsBE (padR8 bs) / 2 ^ ((8 - bs.length % 8) % 8) = ofBitsBE bs := by
  simp only [padR8]
  rw [ofBitsBE_append_zeros]
  exact Nat.mul_div_cancel _ (Nat.two_pow_pos _)

theorem ofBitsBE_toBitsBE (w n : Nat) : ofBitsBE (toBitsBE w n) = n % 2 ^ w := by
  induction w with
  | zero => simp [toBitsBE, ofBitsBE, Nat.mod_one]
  | succ w ih =>
    simp only [toBitsBE]
    rw [ofBitsBE_cons, ih, toBitsBE_length, Nat.mod_pow_succ]
    have h2 : n / 2 ^ w % 2 = 0 ∨ n / 2 ^ w % 2 = 1 := by omega
    rcases h2 with h | h <;> simp [h] <;> omega

theorem drop_toBitsBE (p w n : Nat) : (toBitsBE (p + w) n).drop p = toBitsBE w n := by
  induction p with
  | zero => simp
  | succ p ih =>
    have : p + 1 + w = (p + w) + 1 := by omega
    rw [this]
    simp only [toBitsBE, List.drop_succ_cons]
    exact ih

theorem slice_toBitsBE (p w n : Nat) : slice (toBitsBE (p + w) n) p w = toBitsBE w n := by
  simp only [slice]
  rw [drop_toBitsBE, List.take_of_length_le (by rw [toBitsBE_length]; omega)]

/-! ### bit length -/

theorem lt_two_pow_bitLen (n : Nat) : n < 2 ^ bitLen n := by
  simp only [bitLen]
  split
  · omega
  · exact Nat.lt_log2_self

theorem bitLen_pos {n : Nat} (h : n ≠ 0) : 0 < bitLen n := by
  simp [bitLen, h]

theorem two_pow_bitLen_le {n : Nat} (h : n ≠ 0) : 2 ^ (bitLen n - 1) ≤ n := by
  simp only [bitLen, if_neg h, Nat.add_sub_cancel]
  exact Nat.log2_self_le h

/-- binary.go:80-93: the bits of a number outside an array are the minimal big-endian bit string
    of its absolute value; `0` is one zero bit -/
theorem numBits_eq (n : Int) :
    numBits n = .ok (if n.natAbs = 0 then [false] else toBitsBE (bitLen n.natAbs) n.natAbs) := by
  simp only [numBits]
  by_cases h0 : n.natAbs = 0
  · simp [h0, bitLen]
  · have hp := bitLen_pos h0
    rw [if_neg (by omega), if_neg h0]
    have hsplit : 8 * ((bitLen n.natAbs + 7) / 8) = (8 - bitLen n.natAbs % 8) % 8 + bitLen n.natAbs := by omega
    rw [hsplit, rangeBits_ok _ _ _ (by rw [toBitsBE_length]; omega), slice_toBitsBE]

theorem numBits_length (n : Int) (h : n ≠ 0) : ∃ bits, numBits n = .ok bits ∧ bits.length = bitLen n.natAbs := by
  refine ⟨_, numBits_eq n, ?_⟩
  rw [if_neg (by omega), toBitsBE_length]

/-! ### fast path = MultiReader path (binary.go:97-129 vs :132-145) -/

theorem bytesToBits_cons (b : UInt8) (bs : List UInt8) : bytesToBits (b :: bs) = byteToBits b ++ bytesToBits bs := by
  simp [bytesToBits]

theorem bytesToBits_append (a b : List UInt8) : bytesToBits (a ++ b) = bytesToBits a ++ bytesToBits b := by
  simp [bytesToBits]

theorem fastPath_sound (vs : List Val) (bytes : List UInt8) (h : fastPath vs = some bytes) :
    toBRList vs = .ok (bytesToBits bytes) := by
  induction vs generalizing bytes with
  | nil => simp [fastPath] at h; subst h; simp [toBRList, bytesToBits]
  | cons v vs ih =>
    cases v with
    | num n r =>
      cases r with
      | int =>
        simp only [fastPath] at h
        split at h
        · rename_i hn
          cases hf : fastPath vs with
          | none => simp [hf] at h
          | some rest =>
            simp [hf] at h; subst h
            simp only [toBRList, toBR, byteBits, if_true]
            rw [if_neg (by omega), ih rest hf]
            simp only [bytesToBits_cons, byteToBits]
            congr 2
            have : n.toNat < 256 := by omega
            simp [Nat.mod_eq_of_lt this]
        · simp at h
      | big =>
        simp only [fastPath] at h
        split at h
        · rename_i hn
          cases hf : fastPath vs with
          | none => simp [hf] at h
          | some rest =>
            simp [hf] at h; subst h
            simp only [toBRList, toBR, byteBits, if_true]
            rw [if_neg (by omega), ih rest hf]
            simp only [bytesToBits_cons, byteToBits]
            congr 2
            have : n.toNat < 256 := by omega
            simp [Nat.mod_eq_of_lt this]
        · simp at h
      | flt =>
        simp only [fastPath] at h
        split at h
        · rename_i hn
          cases hf : fastPath vs with
          | none => simp [hf] at h
          | some rest =>
            simp [hf] at h; subst h
            simp only [toBRList, toBR, byteBits, if_true]
            rw [if_neg (by omega), ih rest hf]
            simp only [bytesToBits_cons, byteToBits]
            congr 2
            have : n.toNat < 256 := by omega
            simp [Nat.mod_eq_of_lt this]
        · simp at h
    | str s =>
      simp only [fastPath] at h
      cases hf : fastPath vs with
      | none => simp [hf] at h
      | some rest =>
        simp [hf] at h; subst h
        simp only [toBRList, toBR]
        rw [ih rest hf, bytesToBits_append]
    | bin b => simp [fastPath] at h
    | dv b => simp [fastPath] at h
    | dvSyn => simp [fastPath] at h
    | arr xs => simp [fastPath] at h
    | null => simp [fastPath] at h
    | bool b => simp [fastPath] at h
    | obj => simp [fastPath] at h

/-- `toBitReaderEx` of an array is the MultiReader path, whether or not the fast path is taken -/
theorem toBR_arr (ia : Bool) (vs : List Val) : toBR ia (.arr vs) = toBRList vs := by
  simp only [toBR]
  cases hf : fastPath vs with
  | none => rfl
  | some bytes => simp [fastPath_sound vs bytes hf]

theorem toBRList_append (xs ys : List Val) (a b : Bits) (hx : toBRList xs = .ok a) (hy : toBRList ys = .ok b) :
    toBRList (xs ++ ys) = .ok (a ++ b) := by
  induction xs generalizing a with
  | nil => simp [toBRList] at hx; subst hx; simpa using hy
  | cons x xs ih =>
    simp only [toBRList, List.cons_append] at hx ⊢
    cases hx1 : toBR true x with
    | error e => simp [hx1] at hx
    | ok a1 =>
      cases hx2 : toBRList xs with
      | error e => simp [hx1, hx2] at hx
      | ok a2 =>
        simp [hx1, hx2] at hx
        subst hx
        simp [ih a2 hx2]

/-! ### clampIndex (gojq func.go) -/

theorem clampIndex_range (i lo hi : Int) (h : lo ≤ hi) : lo ≤ clampIndex i lo hi ∧ clampIndex i lo hi ≤ hi := by
  by_cases hneg : i < 0 <;> simp only [clampIndex, hneg, if_true, if_false] <;>
    (split <;> try split) <;> omega

theorem clampIndex_id (i lo hi : Int) (h0 : 0 ≤ i) (h1 : lo ≤ i) (h2 : i ≤ hi) : clampIndex i lo hi = i := by
  have hneg : ¬ i < 0 := by omega
  simp only [clampIndex, hneg, if_false]
  rw [if_neg (by omega)]
  split <;> omega

/-! ### `_toBits`, `tonumber`, arrays, slices, explode -/

theorem padUnit_pos (u n : Nat) (hu : 0 < u) : 0 < padUnit u n := by
  unfold padUnit; split <;> omega

theorem padUnit_cast (u n : Nat) :
    (if ((u : Int) * (n : Int)) = 0 then (u : Int) else (u : Int) * (n : Int)) = ((padUnit u n : Nat) : Int) := by
  unfold padUnit
  rw [← Int.natCast_mul]
  by_cases h : u * n = 0
  · simp [h]
  · rw [if_neg h, if_neg (by omega)]

theorem padCalc (m len : Nat) (hm : 0 < m) :
    Int.tmod ((m : Int) - Int.tmod (len : Int) (m : Int)) (m : Int) = (((m - len % m) % m : Nat) : Int) := by
  rw [← Int.ofNat_tmod, ← Int.ofNat_sub, ← Int.ofNat_tmod]
  exact Nat.le_of_lt (Nat.mod_lt _ hm)

theorem bits_length (b : Bin) (hw : b.WF) : b.bits.length = b.len := slice_length _ _ _ hw

theorem newBin_wf (bits : Bits) (u : Nat) : (newBin bits u).WF := by simp [Bin.WF, newBin]

theorem newBin_bits (bits : Bits) (u : Nat) : (newBin bits u).bits = bits := by
  simp [Bin.bits, newBin, slice_zero_length]

theorem toNumber_eq (b : Bin) (hw : b.WF) : b.toNumber = .ok (.num (ofBitsBE b.bits) .big) := by
  have hl := bits_length b hw
  unfold Bin.WF at hw
  simp only [Bin.toNumber, rangeBits_ok _ _ _ hw, bind, Except.bind, pure, Except.pure]
  have := ofBitsBE_padR8_shift b.bits
  rw [hl] at this
  simp only [Bin.bits] at this
  rw [this]; rfl

theorem tobits_bin (b : Bin) (hw : b.WF) :
    toBitsOp 1 false 0 (.bin b) = .ok (.bin (newBin b.bits 1)) := by
  unfold Bin.WF at hw
  simp [toBitsOp, toBinary, toReaderBits, rangeBits_ok _ _ _ hw, Bin.bits, bind, Except.bind, pure, Except.pure,
    Int.tmod_one]

theorem toBitsOp_pad (b : Bin) (u n : Nat) (hu : 0 < u) (hw : b.WF) :
    toBitsOp u false (n : Int) (.bin b)
      = .ok (.bin (newBin (List.replicate ((padUnit u n - b.len % padUnit u n) % padUnit u n) false ++ b.bits) u)) := by
  unfold Bin.WF at hw
  simp only [toBitsOp, toBinary, bind, Except.bind, pure, Except.pure]
  rw [padUnit_cast, padCalc _ _ (padUnit_pos u n hu)]
  simp only [Bool.false_eq_true, if_false, toReaderBits, rangeBits_ok _ _ _ hw, bind, Except.bind, pure, Except.pure]
  generalize (padUnit u n - b.len % padUnit u n) % padUnit u n = k
  by_cases hk : k = 0
  · subst hk; simp [Bin.bits]
  · rw [if_neg (by omega), if_neg (by omega)]
    simp [Bin.bits]

theorem toBRList_err_at (pre post : List Val) (x : Val) (e : Err) (bits : Bits)
    (hpre : toBRList pre = .ok bits) (hx : toBR true x = .error e) :
    toBRList (pre ++ x :: post) = .error e := by
  induction pre generalizing bits with
  | nil => simp [toBRList, hx]
  | cons p ps ih =>
    simp only [toBRList, List.cons_append] at hpre ⊢
    cases h1 : toBR true p with
    | error e1 => simp [h1] at hpre
    | ok a1 =>
      cases h2 : toBRList ps with
      | error e2 => simp [h1, h2] at hpre
      | ok a2 => simp [ih a2 h2]

theorem toBRList_mem_err (vs : List Val) (x : Val) (e : Err) (hm : x ∈ vs) (hx : toBR true x = .error e) :
    ∃ e', toBRList vs = .error e' := by
  induction vs with
  | nil => cases hm
  | cons v vs ih =>
    simp only [toBRList]
    cases h1 : toBR true v with
    | error e1 => exact ⟨e1, rfl⟩
    | ok a1 =>
      rcases List.mem_cons.mp hm with rfl | hm'
      · rw [hx] at h1; cases h1
      · obtain ⟨e', he'⟩ := ih hm'
        exact ⟨e', by simp [he']⟩

theorem toBinary_arr (vs : List Val) : toBinary (.arr vs) = (toBRList vs).map (newBin · 8) := by
  simp only [toBinary, toBR_arr, bind, Except.bind, pure, Except.pure, Except.map]

theorem div_bounds (x u : Nat) (hu : 0 < u) : x / u * u ≤ x ∧ x < (x / u + 1) * u := by
  have h1 := Nat.div_add_mod x u
  have h2 := Nat.mod_lt x hu
  rw [Nat.add_mul, Nat.mul_comm (x / u) u]
  omega

theorem ceil_bounds (x u : Nat) (hu : 0 < u) :
    let c := if x % u ≠ 0 then x / u + 1 else x / u
    x ≤ c * u ∧ c * u < x + u := by
  have h1 := Nat.div_add_mod x u
  have h2 := Nat.mod_lt x hu
  intro c
  by_cases h : x % u ≠ 0
  · have hc : c = x / u + 1 := if_pos h
    rw [hc, Nat.add_mul, Nat.mul_comm (x / u) u]; omega
  · have hc : c = x / u := if_neg h
    rw [hc, Nat.mul_comm (x / u) u]; omega

theorem slice_shape (b : Bin) (s e : Option Int) :
    ∃ st en : Nat, st ≤ en ∧ en ≤ b.length ∧
      b.slice s e = { src := b.src, start := b.start + st * b.unit, len := (en - st) * b.unit, unit := b.unit, pad := 0 } := by
  cases s with
  | none =>
    cases e with
    | none => exact ⟨0, b.length, by omega, by omega, by simp [Bin.slice]⟩
    | some j =>
      have h := clampIndex_range j 0 (b.length : Int) (by omega)
      exact ⟨0, (clampIndex j 0 b.length).toNat, by omega, by omega, by simp [Bin.slice]⟩
  | some i =>
    have hi := clampIndex_range i 0 (b.length : Int) (by omega)
    cases e with
    | none =>
      refine ⟨(clampIndex i 0 b.length).toNat, b.length, by omega, by omega, ?_⟩
      simp only [Bin.slice]; congr 2; omega
    | some j =>
      have hj := clampIndex_range j (clampIndex i 0 b.length) (b.length : Int) (by omega)
      refine ⟨(clampIndex i 0 b.length).toNat, (clampIndex j (clampIndex i 0 b.length) b.length).toNat, by omega, by omega, ?_⟩
      simp only [Bin.slice]; congr 2; omega

theorem slice_length_eq (b : Bin) (st en : Nat) (hu : 0 < b.unit) :
    ({ src := b.src, start := b.start + st * b.unit, len := (en - st) * b.unit, unit := b.unit, pad := 0 } : Bin).length = en - st := by
  simp [Bin.length, Nat.mul_div_cancel _ hu]

theorem mapM_ok {α β} (xs : List α) (f : α → Outcome β) (g : α → β) (h : ∀ x ∈ xs, f x = .ok (g x)) :
    xs.mapM f = .ok (xs.map g) := by
  induction xs with
  | nil => rfl
  | cons x xs ih =>
    rw [List.mapM_cons, h x (by simp), ih (fun y hy => h y (by simp [hy]))]
    rfl

theorem index_in_range (b : Bin) (i : Nat) (hi : i < b.length) (hw : b.WF) :
    b.index i = .ok (.num (ofBitsBE (slice b.src (b.start + i * b.unit) b.unit)) .big) := by
  have h1 : clampIndex (i : Int) (-1) (b.length : Int) = i := clampIndex_id _ _ _ (by omega) (by omega) (by omega)
  have hreach : b.length * b.unit ≤ b.len := Nat.div_mul_le_self _ _
  have h3 : (i + 1) * b.unit ≤ b.length * b.unit := Nat.mul_le_mul_right _ (by omega)
  rw [Nat.add_mul] at h3
  unfold Bin.WF at hw
  have hin : b.start + i * b.unit + b.unit ≤ b.src.length := by omega
  simp only [Bin.index, h1]
  rw [if_neg (by omega), if_neg (by omega), if_neg (by omega)]
  have : ((i : Int)).toNat = i := by omega
  simp only [this, rangeBits_ok _ _ _ hin, bind, Except.bind, pure, Except.pure]
  have hl : (slice b.src (b.start + i * b.unit) b.unit).length = b.unit := slice_length _ _ _ hin
  have := ofBitsBE_padR8_shift (slice b.src (b.start + i * b.unit) b.unit)
  rw [hl] at this
  rw [this]

theorem slice_to (b : Bin) (k : Int) :
    b.slice none (some k) = { src := b.src, start := b.start, len := (clampIndex k 0 b.length).toNat * b.unit,
                              unit := b.unit, pad := 0 } := by
  simp [Bin.slice]

theorem slice_from (b : Bin) (k : Int) :
    b.slice (some k) none = { src := b.src, start := b.start + (clampIndex k 0 b.length).toNat * b.unit,
                              len := (b.length - (clampIndex k 0 b.length).toNat) * b.unit,
                              unit := b.unit, pad := 0 } := by
  have h := clampIndex_range k 0 (b.length : Int) (by omega)
  simp only [Bin.slice]
  congr 2
  omega

theorem toBitsOp_is_bin (u : Nat) (k : Bool) (p : Int) (v0 v : Val) (h : toBitsOp u k p v0 = .ok v) : ∃ r, v = .bin r := by
  simp only [toBitsOp, bind, Except.bind, pure, Except.pure] at h
  cases hb : toBinary v0 with
  | error e => simp [hb] at h
  | ok bv =>
    rw [hb] at h
    cases k with
    | true => simp at h; exact ⟨_, h.symm⟩
    | false =>
      simp only [Bool.false_eq_true, if_false] at h
      split at h
      · simp at h
      · simp at h; exact ⟨_, h.symm⟩

theorem index_val (b : Bin) (i : Int) (v : Val) (h : b.index i = .ok v) : v = .null ∨ ∃ n r, v = .num n r := by
  simp only [Bin.index, bind, Except.bind, pure, Except.pure] at h
  repeat' split at h
  all_goals first
    | (cases h; exact Or.inl rfl)
    | (cases h; exact Or.inr ⟨_, _, rfl⟩)
    | cases h

theorem mapM_index_wf (b : Bin) (ks : List Nat) (vs : List Val)
    (h : ks.mapM (fun (k : Nat) => b.index (k : Int)) = .ok vs) : Val.AllWFList vs := by
  induction ks generalizing vs with
  | nil => simp [List.mapM_nil, pure, Except.pure] at h; subst h; simp [Val.AllWFList]
  | cons k ks ih =>
    rw [List.mapM_cons] at h
    simp only [bind, Except.bind, pure, Except.pure] at h
    cases h1 : b.index (k : Int) with
    | error e => simp [h1] at h
    | ok v1 =>
      cases h2 : ks.mapM (fun (k : Nat) => b.index (k : Int)) with
      | error e => simp [h1, h2] at h
      | ok v2 =>
        simp [h1, h2] at h; subst h
        refine ⟨?_, ih v2 h2⟩
        rcases index_val b _ _ h1 with rfl | ⟨n, r, rfl⟩ <;> simp [Val.AllWF]

theorem onBin_ok (v0 : Val) (f : Bin → Outcome Val) (v : Val) (h : onBin v0 f = .ok v) : ∃ b, v0 = .bin b ∧ f b = .ok v := by
  cases v0 <;> simp [onBin] at h
  exact ⟨_, rfl, h⟩

end Proofs.C09
