import FqModel.Ansi
import Proofs.C10Writers
import Proofs.C10Flush
/-! C10 — colour: the writers with an arbitrary formatter (same chunk lemmas as Proofs/C10Writers,
    generic in `fn`), and the ANSI scanner. Core Lean only. -/
namespace Proofs.C10Ansi
open FqModel.Dump FqModel.Ansi Proofs.C10Writers Proofs.C10Flush

/-! ### generic writers (proofs as in Proofs/C10Writers.lean) -/

theorem hexLoop_eqF (fn : UInt8 → List Char) (w : Nat) (p : List UInt8) (hp : p ≠ []) :
    ∀ off buf, hexLoopF fn w off buf p = buf ++ hexBodyF fn w off p := by
  induction p with
  | nil => exact absurd rfl hp
  | cons b rest ih =>
    intro off buf
    cases rest with
    | nil => simp [hexLoopF, hexBodyF]
    | cons b' rest' =>
      have ih' := ih (by simp)
      simp only [hexLoopF, hexBodyF, sepAt]
      split
      · rw [ih']; simp
      · rw [ih']; simp

theorem hexBody_appendF (fn : UInt8 → List Char) (w : Nat) (xs ys : List UInt8) (hx : xs ≠ []) (hy : ys ≠ []) :
    ∀ k, hexBodyF fn w k (xs ++ ys)
      = hexBodyF fn w k xs ++ [sepAt w (k + xs.length - 1)] ++ hexBodyF fn w (k + xs.length) ys := by
  induction xs with
  | nil => exact absurd rfl hx
  | cons x rest ih =>
    intro k
    cases rest with
    | nil =>
      cases ys with
      | nil => exact absurd rfl hy
      | cons y ys' => simp [hexBodyF]
    | cons x' rest' =>
      have ih' := ih (by simp) (k + 1)
      simp only [List.cons_append, hexBodyF] at ih' ⊢
      rw [ih']
      simp only [List.length_cons, List.append_assoc]
      have e1 : k + 1 + (rest'.length + 1) - 1 = k + (rest'.length + 1 + 1) - 1 := by omega
      have e2 : k + 1 + (rest'.length + 1) = k + (rest'.length + 1 + 1) := by omega
      rw [e1, e2]

/-- a sequence of Write calls once the padding has been written (`start ≤ k`) -/
theorem hexRun_dataF (fn : UInt8 → List Char) (w start : Nat) (hw : 0 < w) (chunks : List (List UInt8)) :
    ∀ k, start ≤ k → hexRunF fn w start k chunks
      = (if start < k ∧ chunks.flatten ≠ [] then [sepAt w (k - 1)] else []) ++ hexBodyF fn w k chunks.flatten := by
  induction chunks with
  | nil => intro k _; simp [hexRunF, hexBodyF]
  | cons p ps ih =>
    intro k hk
    have hmax : max k start = k := Nat.max_eq_left hk
    have hpad : hexPadGo w (start - k) k = [] := by
      have : start - k = 0 := by omega
      rw [this]; rfl
    cases p with
    | nil =>
      simp only [hexRunF, hexWriteF, hmax, hpad, hexLoopF, List.length_nil, Nat.add_zero, List.append_nil,
        List.flatten_cons, List.nil_append]
      exact ih k hk
    | cons b p' =>
      have hne : (b :: p') ≠ [] := by simp
      simp only [hexRunF, hexWriteF, hmax, hpad, List.nil_append, List.flatten_cons]
      rw [hexLoop_eqF fn w _ hne, ih (k + (b :: p').length) (by omega)]
      have hsep : (if k % w = 0 then '\n' else ' ') = sepAt w (k - 1) ∨ ¬ start < k := by
        by_cases hlt : start < k
        · left
          have hk1 : k = (k - 1) + 1 := by omega
          unfold sepAt
          by_cases hz : k % w = 0
          · have := (succ_mod_zero_iff w (k - 1) hw).1 (by rw [← hk1]; exact hz)
            simp [hz, this]
          · have : ¬ (k - 1) % w = w - 1 := fun h => hz (by
              have := (succ_mod_zero_iff w (k - 1) hw).2 h
              rwa [← hk1] at this)
            simp [hz, this]
        · right; exact hlt
      by_cases hps : ps.flatten = []
      · simp only [hps, List.append_nil, hexBodyF]
        by_cases hlt : start < k
        · rcases hsep with h | h
          · simp [hlt, h]
          · exact absurd hlt h
        · simp [hlt]
      · rw [hexBody_appendF fn w (b :: p') ps.flatten hne hps k]
        have hlt2 : start < k + (p'.length + 1) := by omega
        by_cases hlt : start < k
        · rcases hsep with h | h
          · simp [hlt, hlt2, hps, h]
          · exact absurd hlt h
        · simp [hlt, hlt2, hps]

/-- before and during the padding (`off ≤ start`) the first Write call pads, then data follows -/
theorem hexRun_padF (fn : UInt8 → List Char) (w start : Nat) (hw : 0 < w) (p : List UInt8) (ps : List (List UInt8)) (off : Nat)
    (ho : off ≤ start) :
    hexRunF fn w start off (p :: ps) = hexPadGo w (start - off) off ++ hexBodyF fn w start (p :: ps).flatten := by
  have hmax : max off start = start := Nat.max_eq_right ho
  have h0 := hexRun_dataF fn w start hw (p :: ps) start (Nat.le_refl _)
  simp only [Nat.lt_irrefl, false_and, if_false, List.nil_append] at h0
  rw [← h0]
  simp only [hexRunF, hexWriteF, hmax, Nat.lt_irrefl, if_false, Nat.sub_self, hexPadGo, List.nil_append,
    Nat.max_self, List.append_assoc]

theorem asciiLoop_eqF (fn : UInt8 → List Char) (w : Nat) (p : List UInt8) (hp : p ≠ []) :
    ∀ off buf, asciiLoopF fn w off buf p = buf ++ asciiBodyF fn w off p := by
  induction p with
  | nil => exact absurd rfl hp
  | cons b rest ih =>
    intro off buf
    cases rest with
    | nil => simp [asciiLoopF, asciiBodyF]
    | cons b' rest' =>
      have ih' := ih (by simp)
      simp only [asciiLoopF, asciiBodyF]
      split
      · rw [ih']; simp
      · rw [ih']; simp

theorem asciiBody_appendF (fn : UInt8 → List Char) (w : Nat) (xs ys : List UInt8) (hx : xs ≠ []) (hy : ys ≠ []) :
    ∀ k, asciiBodyF fn w k (xs ++ ys)
      = asciiBodyF fn w k xs ++ asep w (k + xs.length - 1) ++ asciiBodyF fn w (k + xs.length) ys := by
  induction xs with
  | nil => exact absurd rfl hx
  | cons x rest ih =>
    intro k
    cases rest with
    | nil =>
      cases ys with
      | nil => exact absurd rfl hy
      | cons y ys' => simp [asciiBodyF, asep]
    | cons x' rest' =>
      have ih' := ih (by simp) (k + 1)
      simp only [List.cons_append, asciiBodyF] at ih' ⊢
      rw [ih']
      simp only [List.length_cons, List.append_assoc]
      have e1 : k + 1 + (rest'.length + 1) - 1 = k + (rest'.length + 1 + 1) - 1 := by omega
      have e2 : k + 1 + (rest'.length + 1) = k + (rest'.length + 1 + 1) := by omega
      rw [e1, e2]

theorem asciiRun_dataF (fn : UInt8 → List Char) (w start : Nat) (hw : 0 < w) (chunks : List (List UInt8)) :
    ∀ k, start ≤ k → asciiRunF fn w start k chunks
      = (if start < k ∧ chunks.flatten ≠ [] then asep w (k - 1) else []) ++ asciiBodyF fn w k chunks.flatten := by
  induction chunks with
  | nil => intro k _; simp [asciiRunF, asciiBodyF]
  | cons p ps ih =>
    intro k hk
    have hmax : max k start = k := Nat.max_eq_left hk
    have hpad : asciiPadGo w (start - k) k = [] := by
      have : start - k = 0 := by omega
      rw [this]; rfl
    cases p with
    | nil =>
      simp only [asciiRunF, asciiWriteF, hmax, hpad, asciiLoopF, List.length_nil, Nat.add_zero, List.append_nil,
        List.flatten_cons, List.nil_append]
      exact ih k hk
    | cons b p' =>
      have hne : (b :: p') ≠ [] := by simp
      simp only [asciiRunF, asciiWriteF, hmax, hpad, List.nil_append, List.flatten_cons]
      rw [asciiLoop_eqF fn w _ hne, ih (k + (b :: p').length) (by omega)]
      have hsep : start < k → (if k > start ∧ k % w = 0 then ['\n'] else []) = asep w (k - 1) := by
        intro hlt
        have hk1 : k = (k - 1) + 1 := by omega
        unfold asep
        by_cases hz : k % w = 0
        · have := (succ_mod_zero_iff w (k - 1) hw).1 (by rw [← hk1]; exact hz)
          simp [hz, this, hlt]
        · have : ¬ (k - 1) % w = w - 1 := fun h => hz (by
            have := (succ_mod_zero_iff w (k - 1) hw).2 h
            rwa [← hk1] at this)
          simp [hz, this]
      have hlt2 : start < k + (p'.length + 1) := by omega
      by_cases hps : ps.flatten = []
      · simp only [hps, List.append_nil, asciiBodyF]
        by_cases hlt : start < k
        · rw [hsep hlt]; simp [hlt]
        · have : ¬ (k > start ∧ k % w = 0) := fun h => hlt h.1
          simp [hlt]
      · rw [asciiBody_appendF fn w (b :: p') ps.flatten hne hps k]
        by_cases hlt : start < k
        · rw [hsep hlt]; simp [hlt, hlt2, hps]
        · have : ¬ (k > start ∧ k % w = 0) := fun h => hlt h.1
          simp [hlt, hlt2, hps]

theorem asciiRun_padF (fn : UInt8 → List Char) (w start : Nat) (hw : 0 < w) (p : List UInt8) (ps : List (List UInt8)) (off : Nat)
    (ho : off ≤ start) :
    asciiRunF fn w start off (p :: ps) = asciiPadGo w (start - off) off ++ asciiBodyF fn w start (p :: ps).flatten := by
  have hmax : max off start = start := Nat.max_eq_right ho
  have h0 := asciiRun_dataF fn w start hw (p :: ps) start (Nat.le_refl _)
  simp only [Nat.lt_irrefl, false_and, if_false, List.nil_append] at h0
  rw [← h0]
  simp only [asciiRunF, asciiWriteF, hmax, Nat.lt_irrefl, false_and, if_false, Nat.sub_self, asciiPadGo,
    List.nil_append, Nat.max_self, List.append_assoc]


theorem hexRunF_eq_spec (fn : UInt8 → List Char) (w start : Nat) (hw : 0 < w) (cs : List (List UInt8)) (h : cs ≠ []) :
    hexRunF fn w start 0 cs = hexSpecF fn w start cs.flatten := by
  cases cs with
  | nil => exact absurd rfl h
  | cons p ps => simpa [hexSpecF] using hexRun_padF fn w start hw p ps 0 (Nat.zero_le _)

theorem asciiRunF_eq_spec (fn : UInt8 → List Char) (w start : Nat) (hw : 0 < w) (cs : List (List UInt8)) (h : cs ≠ []) :
    asciiRunF fn w start 0 cs = asciiSpecF fn w start cs.flatten := by
  cases cs with
  | nil => exact absurd rfl h
  | cons p ps => simpa [asciiSpecF] using asciiRun_padF fn w start hw p ps 0 (Nat.zero_le _)

/-! ### the ANSI scanner -/

theorem stripGo_append : ∀ (x y : List Char) (st : Bool),
    stripGo st (x ++ y) = stripGo st x ++ stripGo (stateAfter st x) y := by
  intro x
  induction x with
  | nil => intro y st; cases st <;> simp [stripGo, stateAfter]
  | cons c cs ih =>
    intro y st
    cases st with
    | true =>
      simp only [List.cons_append, stripGo, stateAfter]
      split <;> exact ih y _
    | false =>
      simp only [List.cons_append, stripGo, stateAfter]
      split
      · exact ih y _
      · simp [ih y false]

theorem stateAfter_append : ∀ (x y : List Char) (st : Bool),
    stateAfter st (x ++ y) = stateAfter (stateAfter st x) y := by
  intro x
  induction x with
  | nil => intro y st; cases st <;> simp [stateAfter]
  | cons c cs ih =>
    intro y st
    cases st with
    | true => simp only [List.cons_append, stateAfter]; split <;> exact ih y _
    | false => simp only [List.cons_append, stateAfter]; split <;> exact ih y _

/-- text without ESC is visible and leaves the scanner outside an escape -/
theorem plain_strip : ∀ (x : List Char), ESC ∉ x → stripGo false x = x ∧ stateAfter false x = false := by
  intro x
  induction x with
  | nil => intro _; simp [stripGo, stateAfter]
  | cons c cs ih =>
    intro h
    have hc : c ≠ ESC := fun e => h (by simp [e])
    have := ih (fun e => h (by simp [e]))
    simp [stripGo, stateAfter, hc, this]

theorem inEsc_params : ∀ (p : List Char), 'm' ∉ p →
    stripGo true (p ++ ['m']) = [] ∧ stateAfter true (p ++ ['m']) = false := by
  intro p
  induction p with
  | nil => intro _; simp [stripGo, stateAfter]
  | cons c cs ih =>
    intro h
    have hc : c ≠ 'm' := fun e => h (by simp [e])
    have := ih (fun e => h (by simp [e]))
    simp [stripGo, stateAfter, hc, this]

/-- an escape code is invisible and closed -/
theorem code_strip (p : List Char) (h : 'm' ∉ p) : stripGo false (code p) = [] ∧ stateAfter false (code p) = false := by
  have h1 := inEsc_params p h
  have e : ('[' : Char) ≠ 'm' := by decide
  unfold code
  simp [stripGo, stateAfter, e, h1]

/-- `Code.Wrap`: only the wrapped text is visible -/
theorem wrap_strip (set reset s : List Char) (h1 : 'm' ∉ set) (h2 : 'm' ∉ reset) (hs : ESC ∉ s) :
    stripGo false (wrap set reset s) = s ∧ stateAfter false (wrap set reset s) = false := by
  have c1 := code_strip set h1
  have c2 := code_strip reset h2
  have ps := plain_strip s hs
  unfold wrap
  constructor
  · rw [stripGo_append, stripGo_append, c1.1, c1.2, ps.1, stateAfter_append, c1.2, ps.2, c2.1]; simp
  · rw [stateAfter_append, stateAfter_append, c1.2, ps.2, c2.2]

theorem strip_append_closed (x y : List Char) (hx : stateAfter false x = false) :
    strip (x ++ y) = strip x ++ strip y := by
  unfold strip; rw [stripGo_append, hx]

theorem digit_not_esc : ∀ d : Fin 36, digitChar d.val ≠ ESC := by decide

theorem hexPair_no_esc (b : UInt8) : ESC ∉ hexPair b := by
  unfold hexPair
  have hb : b.toNat < 256 := b.toNat_lt
  have h1 := digit_not_esc ⟨b.toNat / 16, by omega⟩
  have h2 := digit_not_esc ⟨b.toNat % 16, by omega⟩
  simp only [List.mem_cons, List.not_mem_nil, or_false, not_or]
  exact ⟨fun e => h1 e.symm, fun e => h2 e.symm⟩

theorem safeAscii_fin_esc : ∀ n : Fin 256,
    (if n.val < 32 ∨ n.val > 126 then '.' else Char.ofNat n.val) ≠ ESC := by decide +kernel

theorem safeAscii_no_esc (b : UInt8) : ESC ∉ [safeAscii b] := by
  simp only [List.mem_cons, List.not_mem_nil, or_false]
  exact fun e => safeAscii_fin_esc ⟨b.toNat, b.toNat_lt⟩ e.symm

theorem hexPad_no_esc (w : Nat) : ∀ n k, ESC ∉ hexPadGo w n k := by
  intro n
  induction n with
  | zero => intro k; simp [hexPadGo]
  | succ n ih =>
    intro k
    have e1 : (' ' : Char) ≠ ESC := by decide
    have e2 : ('\n' : Char) ≠ ESC := by decide
    simp only [hexPadGo, List.mem_append, not_or]
    refine ⟨?_, ih (k + 1)⟩
    split <;> simp [e1.symm, e2.symm]

theorem asciiPad_no_esc (w : Nat) : ∀ n k, ESC ∉ asciiPadGo w n k := by
  intro n
  induction n with
  | zero => intro k; simp [asciiPadGo]
  | succ n ih =>
    intro k
    have e1 : (' ' : Char) ≠ ESC := by decide
    have e2 : ('\n' : Char) ≠ ESC := by decide
    simp only [asciiPadGo, List.mem_cons, not_or]
    refine ⟨?_, ih (k + 1)⟩
    split
    · exact e2.symm
    · exact e1.symm

/-- stripping the coloured hex layout gives the plain one (and the scanner ends outside an escape) -/
theorem strip_hexBody (set reset : UInt8 → List Char) (hm : ∀ b, 'm' ∉ set b ∧ 'm' ∉ reset b) (w : Nat) :
    ∀ (bs : List UInt8) (k : Nat),
      stripGo false (hexBodyF (colourHex set reset) w k bs) = hexBody w k bs
      ∧ stateAfter false (hexBodyF (colourHex set reset) w k bs) = false := by
  intro bs
  induction bs with
  | nil => intro k; simp [hexBodyF, hexBody, stripGo, stateAfter]
  | cons b rest ih =>
    intro k
    have hw := wrap_strip (set b) (reset b) (hexPair b) (hm b).1 (hm b).2 (hexPair_no_esc b)
    cases rest with
    | nil => simpa [hexBodyF, hexBody, colourHex] using hw
    | cons b' rest' =>
      have ih' := ih (k + 1)
      have hsep : ESC ∉ [sepAt w k] := by
        unfold sepAt; split <;> decide
      have ps := plain_strip [sepAt w k] hsep
      simp only [hexBodyF, hexBody, colourHex]
      constructor
      · rw [stripGo_append, stripGo_append, hw.1, stateAfter_append, hw.2, ps.1, ps.2]
        rw [ih'.1]
      · rw [stateAfter_append, stateAfter_append, hw.2, ps.2]
        exact ih'.2

theorem strip_asciiBody (set reset : UInt8 → List Char) (hm : ∀ b, 'm' ∉ set b ∧ 'm' ∉ reset b) (w : Nat) :
    ∀ (bs : List UInt8) (k : Nat),
      stripGo false (asciiBodyF (colourAscii set reset) w k bs) = asciiBody w k bs
      ∧ stateAfter false (asciiBodyF (colourAscii set reset) w k bs) = false := by
  intro bs
  induction bs with
  | nil => intro k; simp [asciiBodyF, asciiBody, stripGo, stateAfter]
  | cons b rest ih =>
    intro k
    have hw := wrap_strip (set b) (reset b) [safeAscii b] (hm b).1 (hm b).2 (safeAscii_no_esc b)
    cases rest with
    | nil => simpa [asciiBodyF, asciiBody, colourAscii] using hw
    | cons b' rest' =>
      have ih' := ih (k + 1)
      have hsep : ESC ∉ (if k % w = w - 1 then ['\n'] else ([] : List Char)) := by
        split <;> decide
      have ps := plain_strip _ hsep
      simp only [asciiBodyF, asciiBody, colourAscii]
      constructor
      · rw [stripGo_append, stripGo_append, hw.1, stateAfter_append, hw.2, ps.1, ps.2]
        rw [ih'.1]
        simp
      · rw [stateAfter_append, stateAfter_append, hw.2, ps.2]
        exact ih'.2

theorem strip_hexRunF (set reset : UInt8 → List Char) (hm : ∀ b, 'm' ∉ set b ∧ 'm' ∉ reset b)
    (w start : Nat) (hw : 0 < w) (chunks : List (List UInt8)) (hc : chunks ≠ []) :
    strip (hexRunF (colourHex set reset) w start 0 chunks) = hexRun w start 0 chunks
      ∧ balanced (hexRunF (colourHex set reset) w start 0 chunks) := by
  rw [hexRunF_eq_spec _ w start hw chunks hc, hexRun_eq_spec w start hw chunks hc]
  have hp := plain_strip _ (hexPad_no_esc w start 0)
  have hb := strip_hexBody set reset hm w chunks.flatten start
  unfold hexSpecF hexSpec strip balanced
  constructor
  · rw [stripGo_append, hp.1, hp.2, hb.1]
  · rw [stateAfter_append, hp.2, hb.2]

theorem strip_asciiRunF (set reset : UInt8 → List Char) (hm : ∀ b, 'm' ∉ set b ∧ 'm' ∉ reset b)
    (w start : Nat) (hw : 0 < w) (chunks : List (List UInt8)) (hc : chunks ≠ []) :
    strip (asciiRunF (colourAscii set reset) w start 0 chunks) = asciiRun w start 0 chunks
      ∧ balanced (asciiRunF (colourAscii set reset) w start 0 chunks) := by
  rw [asciiRunF_eq_spec _ w start hw chunks hc, asciiRun_eq_spec w start hw chunks hc]
  have hp := plain_strip _ (asciiPad_no_esc w start 0)
  have hb := strip_asciiBody set reset hm w chunks.flatten start
  unfold asciiSpecF asciiSpec strip balanced
  constructor
  · rw [stripGo_append, hp.1, hp.2, hb.1]
  · rw [stateAfter_append, hp.2, hb.2]

/-! ### ansi.Slice -/

theorem sliceFrom_spec (stop : Nat) : ∀ (s : List Char) (l : Nat) (st : Bool), l ≤ stop →
    stop < (stripGo st s).length + l →
    ∃ r, sliceFrom stop l st s = some r ∧ stripGo st r = (stripGo st s).take (stop - l)
      ∧ stateAfter st r = false := by
  intro s
  induction s with
  | nil => intro l st h1 h2; simp [stripGo] at h2; omega
  | cons c cs ih =>
    intro l st h1 h2
    cases st with
    | true =>
      by_cases hc : c = 'm'
      · subst hc
        simp only [stripGo, if_true] at h2
        obtain ⟨r, e1, e2, e3⟩ := ih l false h1 h2
        refine ⟨'m' :: r, by simp [sliceFrom, e1], by simp [stripGo, e2], by simp [stateAfter, e3]⟩
      · simp only [stripGo, hc, if_false] at h2
        obtain ⟨r, e1, e2, e3⟩ := ih l true h1 h2
        have hb : (c != 'm') = true := by simp [hc]
        refine ⟨c :: r, by simp [sliceFrom, hb, e1], by simp [stripGo, hc, e2], by simp [stateAfter, hc, e3]⟩
    | false =>
      by_cases hc : c = ESC
      · simp only [stripGo, hc, if_true] at h2
        obtain ⟨r, e1, e2, e3⟩ := ih l true h1 h2
        refine ⟨c :: r, by simp [sliceFrom, hc, e1], by simp [stripGo, hc, e2], by simp [stateAfter, hc, e3]⟩
      · simp only [stripGo, hc, if_false, List.length_cons] at h2
        by_cases hl : l = stop
        · subst hl
          have cs0 := code_strip ['0'] (by decide)
          refine ⟨code ['0'], by simp [sliceFrom, hc], ?_, cs0.2⟩
          rw [cs0.1]; simp
        · obtain ⟨r, e1, e2, e3⟩ := ih (l + 1) false (by omega) (by omega)
          refine ⟨c :: r, by simp [sliceFrom, hc, hl, e1], ?_, by simp [stateAfter, hc, e3]⟩
          simp only [stripGo, hc, if_false, e2]
          have : stop - l = (stop - (l + 1)) + 1 := by omega
          rw [this, List.take_succ_cons]

theorem sliceSkip_spec (stop : Nat) (hstop : 1 ≤ stop) : ∀ (s : List Char) (st : Bool),
    stop < (stripGo st s).length →
    ∃ r, sliceSkip stop st s = some r ∧ strip r = (stripGo st s).take stop ∧ balanced r := by
  intro s
  induction s with
  | nil => intro st h; simp [stripGo] at h
  | cons c cs ih =>
    intro st h
    cases st with
    | true =>
      by_cases hc : c = 'm'
      · subst hc
        simp only [stripGo, if_true] at h
        obtain ⟨r, e1, e2, e3⟩ := ih false h
        exact ⟨r, by simp [sliceSkip, e1], by simp [stripGo, e2], e3⟩
      · simp only [stripGo, hc, if_false] at h
        obtain ⟨r, e1, e2, e3⟩ := ih true h
        have hb : (c != 'm') = true := by simp [hc]
        exact ⟨r, by simp [sliceSkip, hb, e1], by simp [stripGo, hc, e2], e3⟩
    | false =>
      by_cases hc : c = ESC
      · simp only [stripGo, hc, if_true] at h
        obtain ⟨r, e1, e2, e3⟩ := ih true h
        exact ⟨r, by simp [sliceSkip, hc, e1], by simp [stripGo, hc, e2], e3⟩
      · simp only [stripGo, hc, if_false, List.length_cons] at h
        obtain ⟨r, e1, e2, e3⟩ := sliceFrom_spec stop cs 1 false hstop (by omega)
        refine ⟨c :: r, by simp [sliceSkip, hc, e1], ?_, by simp [balanced, stateAfter, hc, e3]⟩
        simp only [strip, stripGo, hc, if_false, e2]
        have : stop = (stop - 1) + 1 := by omega
        rw [this, List.take_succ_cons]; simp

/-- `ansi.Slice(s, 0, stop)` of a line with more than `stop` visible characters shows exactly the
    first `stop` visible characters (and is closed by the reset code it appends) -/
theorem ansiSlice0_spec (stop : Nat) (hstop : 1 ≤ stop) (s : List Char) (h : stop < ansiLen s) :
    strip (ansiSlice0 stop s) = (strip s).take stop ∧ balanced (ansiSlice0 stop s) := by
  obtain ⟨r, e1, e2, e3⟩ := sliceSkip_spec stop hstop s false h
  unfold ansiSlice0
  rw [e1]
  exact ⟨e2, e3⟩

/-- coloured `FlushLine` shows what the colourless `FlushLine` shows -/
theorem fitCellC_strip (wd : Nat) (hwd : 1 ≤ wd) (s : List Char) (hs : balanced s) :
    strip (fitCellC wd s) = fitCell wd (strip s) ∧ balanced (fitCellC wd s) := by
  have hsp : ∀ n, ESC ∉ List.replicate n ' ' := by
    intro n h; exact absurd (List.mem_replicate.1 h).2 (by decide)
  unfold fitCellC fitCell
  simp only
  by_cases hc : ansiLen s > wd
  · obtain ⟨e1, e2⟩ := ansiSlice0_spec wd hwd s hc
    have hc' : (strip s).length > wd := hc
    simp only [hc, hc', if_true]
    have hl : ansiLen (ansiSlice0 wd s) = wd := by
      unfold ansiLen; rw [e1, List.length_take]; omega
    have ps := plain_strip _ (hsp (wd - ansiLen (ansiSlice0 wd s)))
    constructor
    · rw [strip_append_closed _ _ e2, e1, hl]
      have hmin : min wd (stripGo false s).length = wd := by
        have : (stripGo false s).length > wd := hc'
        omega
      simp [strip, hmin, stripGo]
    · unfold balanced; rw [stateAfter_append, e2, ps.2]
  · have hc' : ¬ (strip s).length > wd := hc
    simp only [hc, hc', if_false]
    have ps := plain_strip _ (hsp (wd - ansiLen s))
    constructor
    · rw [strip_append_closed _ _ hs]
      have := ps.1
      simp only [ansiLen, strip] at this ⊢
      rw [this]
    · unfold balanced; rw [stateAfter_append, hs, ps.2]

end Proofs.C10Ansi
