import FqModel.Dump
import Proofs.C10Writers
import Proofs.C10Num
/-! C10 — lemmas about the address/line arithmetic of dumpEx (`geom`, FqModel/Dump.lean). -/
namespace Proofs.C10Dump
open FqModel.Dump

/-- dump.go:236-247 as a function of its inputs -/
def lastDisplayBitOf (o : Opts) (start len : Nat) : Nat :=
  let lb8 := o.lineBytes * 8
  let stopBit := start + len - 1
  if o.displayBytes > 0 ∧ len > o.displayBytes * 8 then
    let l0 := start + (o.displayBytes * 8 - 1)
    let l1 := if l0 % lb8 ≠ 0 then l0 + (lb8 - l0 % lb8 - 1) else l0
    if l1 > stopBit ∨ stopBit - l1 ≤ lb8 then stopBit else l1
  else stopBit

theorem geom_lastDisplayBit (o : Opts) (rootBits start len : Nat) :
    (geom o rootBits start len).lastDisplayBit = lastDisplayBitOf o start len := rfl

theorem geom_fields (o : Opts) (rootBits start len : Nat) :
    let g := geom o rootBits start len
    g.stopBit = start + len - 1 ∧ g.startByte = start / 8 ∧ g.stopByte = (start + len - 1) / 8
      ∧ g.lastDisplayByte = lastDisplayBitOf o start len / 8
      ∧ g.bufferLastByte = (rootBits - 1) / 8
      ∧ g.displaySizeBits = min ((lastDisplayBitOf o start len / 8 - start / 8 + 1) * 8) (rootBits - 1 - start / 8 * 8 + 1)
      ∧ g.startLineByteOffset = start / 8 % o.lineBytes
      ∧ g.startLineByte = start / 8 / o.lineBytes * o.lineBytes
      ∧ g.addrLines = lastDisplayBitOf o start len / 8 / o.lineBytes - start / 8 / o.lineBytes + 1 := by
  exact ⟨rfl, rfl, rfl, rfl, rfl, rfl, rfl, rfl, rfl⟩

/-- the last displayed bit lies inside the value; without `display_bytes` pressure it is the last bit;
    under truncation at least `display_bytes` bytes of the value are displayed -/
theorem lastDisplayBit_bounds (o : Opts) (start len : Nat) (hlen : 0 < len) :
    start ≤ lastDisplayBitOf o start len ∧ lastDisplayBitOf o start len ≤ start + len - 1
      ∧ ((o.displayBytes = 0 ∨ len ≤ o.displayBytes * 8) → lastDisplayBitOf o start len = start + len - 1)
      ∧ (lastDisplayBitOf o start len ≠ start + len - 1 →
          0 < o.displayBytes ∧ o.displayBytes * 8 < len ∧ start + o.displayBytes * 8 - 1 ≤ lastDisplayBitOf o start len) := by
  unfold lastDisplayBitOf
  simp only
  by_cases hc : o.displayBytes > 0 ∧ len > o.displayBytes * 8
  · rw [if_pos hc]
    obtain ⟨h1, h2⟩ := hc
    generalize hr : (start + (o.displayBytes * 8 - 1)) % (o.lineBytes * 8) = r
    by_cases hz : r ≠ 0
    · rw [if_pos hz]
      by_cases hd : start + (o.displayBytes * 8 - 1) + (o.lineBytes * 8 - r - 1) > start + len - 1 ∨
          start + len - 1 - (start + (o.displayBytes * 8 - 1) + (o.lineBytes * 8 - r - 1)) ≤ o.lineBytes * 8
      · rw [if_pos hd]; omega
      · rw [if_neg hd]; omega
    · rw [if_neg hz]
      by_cases hd : start + (o.displayBytes * 8 - 1) > start + len - 1 ∨
          start + len - 1 - (start + (o.displayBytes * 8 - 1)) ≤ o.lineBytes * 8
      · rw [if_pos hd]; omega
      · rw [if_neg hd]; omega
  · rw [if_neg hc]; omega

/-- number of bytes copied into the hex/ascii writers -/
theorem dataBytes_length (o : Opts) (root : List UInt8) (rootBits start len : Nat) (hlen : 0 < len)
    (hin : start + len ≤ rootBits) (hroot : (rootBits + 7) / 8 ≤ root.length) :
    let g := geom o rootBits start len
    (dataBytes root g.startByte g.displaySizeBits).length = g.lastDisplayByte - g.startByte + 1 := by
  obtain ⟨_, h2, _, h4, _, h6, _, _, _⟩ := geom_fields o rootBits start len
  simp only at h2 h4 h6 ⊢
  rw [h2, h4, h6]
  obtain ⟨b1, b2, _, _⟩ := lastDisplayBit_bounds o start len hlen
  generalize lastDisplayBitOf o start len = ldb at b1 b2
  unfold dataBytes
  rw [List.length_take, List.length_drop]
  omega

theorem dataBytes_get (root : List UInt8) (s nbits j : Nat) (h : j < (dataBytes root s nbits).length) :
    (dataBytes root s nbits)[j]? = root[s + j]? := by
  unfold dataBytes at h ⊢
  rw [List.length_take, List.length_drop] at h
  have : j < (nbits + 7) / 8 := by omega
  simp [this]

/-- the cell of byte `j` of the displayed bytes lies on address line `(off+j)/lb`, whose printed
    address plus the column is the byte's own address -/
theorem cell_address (lb startByte j : Nat) (_hlb : 0 < lb) :
    let k := startByte % lb + j
    startByte / lb * lb + k / lb * lb + k % lb = startByte + j := by
  simp only
  have h1 := Nat.div_add_mod startByte lb
  have h2 := Nat.div_add_mod (startByte % lb + j) lb
  have e1 : startByte / lb * lb = lb * (startByte / lb) := Nat.mul_comm _ _
  have e2 : (startByte % lb + j) / lb * lb = lb * ((startByte % lb + j) / lb) := Nat.mul_comm _ _
  rw [e1, e2]; omega

/-- the last cell lies on the last address line: rows and addresses have equal count -/
theorem last_row (lb startByte lastByte : Nat) (_hlb : 0 < lb) (h : startByte ≤ lastByte) :
    (startByte % lb + (lastByte - startByte)) / lb = lastByte / lb - startByte / lb := by
  have h1 := Nat.div_add_mod startByte lb
  have e : startByte % lb + (lastByte - startByte) = lastByte - lb * (startByte / lb) := by omega
  rw [e, Nat.sub_mul_div_of_le]
  have : lb * (startByte / lb) ≤ lastByte := by omega
  exact this

/-- the cells of a dumped value in explicit terms (`geom`'s fields unfolded) -/
theorem cells_explicit (o : Opts) (root : List UInt8) (rootBits start len : Nat)
    (hlb : 0 < o.lineBytes) (hlen : 0 < len) (hin : start + len ≤ rootBits)
    (hroot : (rootBits + 7) / 8 ≤ root.length) :
    let lb := o.lineBytes
    let sb := start / 8
    let ld := lastDisplayBitOf o start len / 8
    let bytes := dataBytes root sb (min ((ld - sb + 1) * 8) (rootBits - 1 - sb * 8 + 1))
    let off := sb % lb
    bytes.length = ld - sb + 1
    ∧ (off + (bytes.length - 1)) / lb + 1 = ld / lb - sb / lb + 1
    ∧ ∀ j, j < bytes.length → ∃ b,
        root[sb + j]? = some b
        ∧ (parseHex 0 0 (hexRun lb off 0 [bytes]))[off + j]? = some ((off + j) / lb, (off + j) % lb, Cell.byte b)
        ∧ (off + j) / lb < ld / lb - sb / lb + 1
        ∧ sb / lb * lb + (off + j) / lb * lb + (off + j) % lb = sb + j := by
  intro lb sb ld bytes off
  have hlenB : bytes.length = ld - sb + 1 := dataBytes_length o root rootBits start len hlen hin hroot
  obtain ⟨b1, b2, _, _⟩ := lastDisplayBit_bounds o start len hlen
  have hle : sb ≤ ld := by
    show start / 8 ≤ lastDisplayBitOf o start len / 8
    omega
  have hrows : (off + (bytes.length - 1)) / lb + 1 = ld / lb - sb / lb + 1 := by
    have e : bytes.length - 1 = ld - sb := by rw [hlenB]; omega
    rw [e]
    have := last_row lb sb ld hlb hle
    show (sb % lb + (ld - sb)) / lb + 1 = _
    rw [this]
  refine ⟨hlenB, hrows, ?_⟩
  intro j hj
  have hget := dataBytes_get root sb _ j hj
  have hb : bytes[j]? = some bytes[j] := List.getElem?_eq_getElem hj
  refine ⟨bytes[j], ?_, ?_, ?_, ?_⟩
  · rw [← hget]; exact hb
  · exact Proofs.C10Writers.cell_of_byte lb off hlb bytes j hj
  · have hj' : off + j ≤ off + (bytes.length - 1) := by omega
    have := Nat.div_le_div_right (c := lb) hj'
    omega
  · exact cell_address lb sb j hlb

theorem prefix_ex (X Y Z : List Char) : ∃ tail, X ++ Y ++ Z = X ++ tail := ⟨Y ++ Z, by simp⟩

theorem hexCol_prefix (o : Opts) (W : Nat) (indent : List Char) (root : List UInt8) (rootBits start len : Nat) :
    ∃ tail, (dataColumns o W indent root rootBits start len).2.1
      = hexRun o.lineBytes (geom o rootBits start len).startLineByteOffset 0
          [dataBytes root (geom o rootBits start len).startByte (geom o rootBits start len).displaySizeBits] ++ tail := by
  simp only [dataColumns, dataBytesW, Nat.sub_zero]
  exact prefix_ex _ _ _

theorem asciiCol_prefix (o : Opts) (W : Nat) (indent : List Char) (root : List UInt8) (rootBits start len : Nat) :
    ∃ tail, (dataColumns o W indent root rootBits start len).2.2
      = asciiRun o.lineBytes (geom o rootBits start len).startLineByteOffset 0
          [dataBytes root (geom o rootBits start len).startByte (geom o rootBits start len).displaySizeBits] ++ tail := by
  simp only [dataColumns, dataBytesW, Nat.sub_zero]
  exact ⟨_, rfl⟩

theorem padFormat_length (n b W : Nat) : (padFormat n b true W).length = max W (digitsNeeded b n) := by
  simp only [padFormat, digitsNeeded, if_true, List.length_append, List.length_replicate]
  omega

theorem untilText_shape (o : Opts) (rootBits start len : Nat) :
    ∃ post, untilText o rootBits start len
      = untilWord ++ stringByteBits o.addrbase (start + len - 1) ++ post :=
  ⟨(if start + len - 1 = rootBits - 1 then endWord else []) ++ [' ', '(']
      ++ padFormat ((len + 7) / 8) o.sizebase true 0 ++ [')'], by simp only [untilText, List.append_assoc]⟩

theorem append_until (X Y U : List Char) : ∃ pre, X ++ Y ++ (['\n'] ++ U) = pre ++ ['\n'] ++ U :=
  ⟨X ++ Y, by simp⟩

theorem hexCol_until (o : Opts) (W : Nat) (indent : List Char) (root : List UInt8) (rootBits start len : Nat)
    (ht : (geom o rootBits start len).stopByte ≠ (geom o rootBits start len).lastDisplayByte) :
    ∃ pre, (dataColumns o W indent root rootBits start len).2.1 = pre ++ ['\n'] ++ untilText o rootBits start len := by
  simp only [dataColumns, ht, ne_eq, not_false_eq_true, if_true]
  exact append_until _ _ _

/-- every address line of a value is at most the value's stop byte count -/
theorem addr_line_le (o : Opts) (rootBits start len : Nat) (hlb : 0 < o.lineBytes) (hlen : 0 < len)
    (i : Nat) (hi : i < (geom o rootBits start len).addrLines) :
    (geom o rootBits start len).startLineByte + i * o.lineBytes ≤ (start + len + 7) / 8 := by
  have f8 := (geom_fields o rootBits start len).2.2.2.2.2.2.2.1
  have f9 := (geom_fields o rootBits start len).2.2.2.2.2.2.2.2
  rw [f8]; rw [f9] at hi
  have b1 := (lastDisplayBit_bounds o start len hlen).1
  have b2 := (lastDisplayBit_bounds o start len hlen).2.1
  generalize lastDisplayBitOf o start len = ldb at hi b1 b2
  have hm : start / 8 / o.lineBytes ≤ ldb / 8 / o.lineBytes :=
    Nat.div_le_div_right (Nat.div_le_div_right b1)
  have h1 : start / 8 / o.lineBytes * o.lineBytes + i * o.lineBytes = (start / 8 / o.lineBytes + i) * o.lineBytes := by
    rw [Nat.add_mul]
  have h2 : (start / 8 / o.lineBytes + i) * o.lineBytes ≤ ldb / 8 / o.lineBytes * o.lineBytes :=
    Nat.mul_le_mul_right _ (by omega)
  have h3 : ldb / 8 / o.lineBytes * o.lineBytes ≤ ldb / 8 := Nat.div_mul_le_self _ _
  omega

theorem addrText_length (o : Opts) (colW d a : Nat) (h : 2 * d + digitsNeeded o.addrbase a ≤ colW) :
    (addrText o colW d a).length = colW + d := by
  unfold addrText rootIndent
  rw [List.length_append, List.length_replicate, padFormat_length]
  omega

theorem addrCell_eq (o : Opts) (colW d a : Nat) (h : 2 * d + digitsNeeded o.addrbase a ≤ colW) :
    addrCell o colW d a = (addrText o colW d a).take colW := by
  have hl := addrText_length o colW d a h
  unfold addrCell
  simp only
  by_cases hd : d = 0
  · subst hd
    have : ¬ (addrText o colW 0 a).length > colW := by omega
    rw [if_neg this]
    have e : colW - (addrText o colW 0 a).length = 0 := by omega
    rw [e, List.take_of_length_le (by omega)]
    simp
  · have : (addrText o colW d a).length > colW := by omega
    rw [if_pos this, List.length_take]
    have e : colW - min colW (addrText o colW d a).length = 0 := by omega
    rw [e]; simp

end Proofs.C10Dump
