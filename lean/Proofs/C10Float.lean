import FqModel.C10Float
import Proofs.C10Json
/-! C10 — lemmas about the exact float-text predicate (FqModel/C10Float.lean). Core Lean only. -/
namespace Proofs.C10Float
open FqModel.Dump FqModel.C10Json Proofs.C10Json Proofs.C10Num

/-- binary64 magnitudes are strictly increasing in the bit pattern, up to and including the
    overflow threshold at the pattern of +Inf -/
theorem magS_lt_succ (b : Nat) (h : b + 1 ≤ infBits) : magS b < magS (b + 1) := by
  unfold magS
  unfold infBits at h
  by_cases hc : b % 2 ^ 52 + 1 < 2 ^ 52
  · have h1 : (b + 1) / 2 ^ 52 = b / 2 ^ 52 := by omega
    have h2 : (b + 1) % 2 ^ 52 = b % 2 ^ 52 + 1 := by omega
    simp only [h1, h2]
    by_cases hz : b / 2 ^ 52 = 0
    · simp only [hz, if_true]; omega
    · simp only [hz, if_false]
      apply Nat.mul_lt_mul_of_pos_right (by omega) (Nat.pow_pos (by decide))
  · have h1 : (b + 1) / 2 ^ 52 = b / 2 ^ 52 + 1 := by omega
    have h2 : (b + 1) % 2 ^ 52 = 0 := by omega
    have h3 : b % 2 ^ 52 = 2 ^ 52 - 1 := by omega
    simp only [h1, h2, h3]
    by_cases hz : b / 2 ^ 52 = 0
    · simp only [hz, if_true]; decide
    · obtain ⟨k, hk⟩ : ∃ k, b / 2 ^ 52 = k + 1 := ⟨b / 2 ^ 52 - 1, by omega⟩
      rw [hk]
      simp only [Nat.add_one_ne_zero, if_false, Nat.add_sub_cancel]
      rw [show (2 : Nat) ^ (k + 1) = 2 ^ k * 2 from Nat.pow_succ ..]
      have hp : 0 < 2 ^ k := Nat.pow_pos (by decide)
      generalize 2 ^ k = P at hp ⊢
      omega

theorem magS_pred_lt (b : Nat) (h0 : 0 < b) (h : b ≤ infBits) : magS (b - 1) < magS b := by
  have := magS_lt_succ (b - 1) (by omega)
  rwa [Nat.sub_add_cancel h0] at this

theorem magS_zero : magS 0 = 0 := by decide

theorem parseUnsigned_formatBase (k : Nat) :
    parseUnsignedNumber (formatBase 10 k) = some (k, 0) := by
  unfold parseUnsignedNumber
  have hne := formatBase_ne_nil 10 k
  have hall := formatBase10_all_digits k
  obtain ⟨h1, h2⟩ := takeWhile_all isDigit _ hall
  rw [h1, h2]
  have he : (formatBase 10 k).isEmpty = false := by
    cases h : formatBase 10 k with
    | nil => exact absurd h hne
    | cons _ _ => rfl
  have hlead : ¬ ((formatBase 10 k).length > 1 ∧ (formatBase 10 k).head? = some '0') := by
    intro ⟨hl, hh⟩
    by_cases hk : k = 0
    · subst hk; rw [formatBase_zero] at hl; simp at hl
    · exact formatBase_no_leading_zero 10 k (by decide) (by decide) hk hh
  simp only [he, Bool.false_eq_true, if_false, hlead, parseFrac, parseExp, List.append_nil]
  have := parse_formatGo 10 (by decide) (by decide) _ k (Nat.lt_log2_self)
  unfold formatBase
  rw [this]
  simp

theorem formatBase10_head_not_minus (k : Nat) : ∀ c cs, formatBase 10 k = c :: cs → c ≠ '-' := by
  intro c cs hf hc
  have := formatBase10_all_digits k c (by rw [hf]; simp)
  rw [hc] at this; exact absurd this (by decide)

/-- the decimal integer text of `n` is read exactly -/
theorem parseNumber_encInt (n : Int) :
    parseJsonNumberExact (encInt n) = some (decide (n < 0), n.natAbs, 0) := by
  unfold encInt
  by_cases hn : n < 0
  · simp only [hn, if_true, parseJsonNumberExact, parseUnsigned_formatBase, Option.map, decide_true]
  · simp only [hn, if_false, decide_false]
    cases hf : formatBase 10 n.natAbs with
    | nil => exact absurd hf (formatBase_ne_nil 10 _)
    | cons c cs =>
      have hc := formatBase10_head_not_minus _ c cs hf
      unfold parseJsonNumberExact
      split
      · rename_i heq; simp only [List.cons.injEq] at heq; exact absurd heq.1 hc
      · rw [← hf, parseUnsigned_formatBase]; rfl

/-- a decimal integer text whose value is EXACTLY the float's magnitude reads back to the float -/
theorem decRoundsTo_exact (bits k : Nat) (hb : bits < 2 ^ 64) (hf : bits % 2 ^ 63 < infBits)
    (hk : k * 2 ^ 1074 = magS (bits % 2 ^ 63)) :
    decRoundsTo bits (decide (bits ≥ 2 ^ 63)) k 0 = true := by
  unfold decRoundsTo scaled
  generalize hbe : bits % 2 ^ 63 = b at *
  have hv : k * 10 ^ (0 : Int).toNat * 2 ^ 1075 = magS b + magS b := by
    have : (2 : Nat) ^ 1075 = 2 ^ 1074 * 2 := Nat.pow_succ ..
    rw [this, show (0 : Int).toNat = 0 from rfl, Nat.pow_zero, Nat.mul_one, ← Nat.mul_assoc, hk]; omega
  have hhi : magS b < magS (b + 1) := magS_lt_succ b (by omega)
  have hlo : b = 0 ∨ magS (b - 1) < magS b := by
    by_cases h0 : b = 0
    · exact Or.inl h0
    · exact Or.inr (magS_pred_lt b (by omega) (by omega))
  simp only [ge_iff_le, Int.le_refl, if_true, hv]
  have h1 : decide (bits < 2 ^ 64) = true := by simpa using hb
  have h2 : decide (b < infBits) = true := by simpa using hf
  have h4 : decide (magS b + magS b < magS b + magS (b + 1)) = true := by simp; omega
  rw [h1, h2, h4]
  simp only [Bool.true_and, Bool.true_or, Bool.and_true, beq_self_eq_true]
  rcases hlo with h0 | hl
  · subst h0
    simp [magS_zero]
  · have : decide (magS (b - 1) + magS b < magS b + magS b) = true := by simp; omega
    rw [this]; rfl

end Proofs.C10Float
