import FqModel.Dump
import Proofs.C10Writers
import Proofs.C10Num
import Proofs.C10Dump
/-! C10 — the columnwriter model: lines of a column text, rows of the flushed output, and how the
    hex/ascii layouts split into lines.  Core Lean only. -/
namespace Proofs.C10Flush
open FqModel.Dump Proofs.C10Writers Proofs.C10Num Proofs.C10Dump

/-! ### lines of a text -/

/-- all lines of a text: the complete ones and the (possibly empty) unterminated rest -/
def linesOf (t : List Char) : List (List Char) := (splitLines [] t).1 ++ [(splitLines [] t).2]

def prependHead (x : List Char) : List (List Char) → List (List Char)
  | [] => [x]
  | l :: ls => (x ++ l) :: ls

theorem splitLines_cur : ∀ (t cur : List Char),
    splitLines cur t =
      (match (splitLines [] t).1 with
       | [] => ([], cur ++ (splitLines [] t).2)
       | l :: ls => ((cur ++ l) :: ls, (splitLines [] t).2)) := by
  intro t
  induction t with
  | nil => intro cur; simp [splitLines]
  | cons c cs ih =>
    intro cur
    by_cases hc : c = '\n'
    · subst hc; simp [splitLines]
    · have e1 : splitLines cur (c :: cs) = splitLines (cur ++ [c]) cs := by simp [splitLines, hc]
      have e2 : splitLines [] (c :: cs) = splitLines [c] cs := by simp [splitLines, hc]
      rw [e1, e2, ih (cur ++ [c]), ih [c]]
      cases h : (splitLines [] cs).1 with
      | nil => simp
      | cons l ls => simp

theorem linesOf_nil : linesOf [] = [[]] := rfl

theorem linesOf_nl (t : List Char) : linesOf ('\n' :: t) = [] :: linesOf t := by
  simp [linesOf, splitLines]

theorem linesOf_cons (c : Char) (t : List Char) (hc : c ≠ '\n') :
    linesOf (c :: t) = prependHead [c] (linesOf t) := by
  have e2 : splitLines [] (c :: t) = splitLines [c] t := by simp [splitLines, hc]
  unfold linesOf
  rw [e2, splitLines_cur t [c]]
  cases h : (splitLines [] t).1 with
  | nil => simp [prependHead]
  | cons l ls => simp [prependHead]

theorem linesOf_ne_nil (t : List Char) : linesOf t ≠ [] := by simp [linesOf]

theorem prependHead_append (x y : List Char) (ls : List (List Char)) (h : ls ≠ []) :
    prependHead x (prependHead y ls) = prependHead (x ++ y) ls := by
  cases ls with
  | nil => exact absurd rfl h
  | cons l ls => simp [prependHead]

theorem prependHead_nil (ls : List (List Char)) (h : ls ≠ []) : prependHead [] ls = ls := by
  cases ls with
  | nil => exact absurd rfl h
  | cons l ls => simp [prependHead]

/-- a piece without line feed goes in front of the first line of the rest -/
theorem linesOf_append_noNl : ∀ (x t : List Char), '\n' ∉ x → linesOf (x ++ t) = prependHead x (linesOf t) := by
  intro x
  induction x with
  | nil => intro t _; simp [prependHead_nil _ (linesOf_ne_nil t)]
  | cons c cs ih =>
    intro t h
    have hc : c ≠ '\n' := fun e => h (by simp [e])
    have hcs : '\n' ∉ cs := fun e => h (by simp [e])
    rw [List.cons_append, linesOf_cons c _ hc, ih t hcs,
      prependHead_append _ _ _ (linesOf_ne_nil t)]
    rfl

theorem linesOf_line (x t : List Char) (h : '\n' ∉ x) : linesOf (x ++ '\n' :: t) = x :: linesOf t := by
  rw [linesOf_append_noNl x _ h, linesOf_nl]
  simp [prependHead]

/-- lines of a concatenation -/
def appendLines : List (List Char) → List (List Char) → List (List Char)
  | [], b => b
  | [a], b => prependHead a b
  | a :: a' :: as, b => a :: appendLines (a' :: as) b

theorem linesOf_append : ∀ (x t : List Char), linesOf (x ++ t) = appendLines (linesOf x) (linesOf t) := by
  intro x
  induction x with
  | nil => intro t; simp [linesOf_nil, appendLines, prependHead_nil _ (linesOf_ne_nil t)]
  | cons c cs ih =>
    intro t
    by_cases hc : c = '\n'
    · subst hc
      rw [List.cons_append, linesOf_nl, linesOf_nl, ih t]
      cases h : linesOf cs with
      | nil => exact absurd h (linesOf_ne_nil cs)
      | cons a as => simp [appendLines]
    · rw [List.cons_append, linesOf_cons c _ hc, linesOf_cons c _ hc, ih t]
      cases h : linesOf cs with
      | nil => exact absurd h (linesOf_ne_nil cs)
      | cons a as =>
        cases as with
        | nil =>
          show prependHead [c] (prependHead a (linesOf t)) = prependHead ([c] ++ a) (linesOf t)
          rw [prependHead_append _ _ _ (linesOf_ne_nil t)]
        | cons a' as' => simp [appendLines, prependHead]

theorem appendLines_length : ∀ (a b : List (List Char)), a ≠ [] → b ≠ [] →
    (appendLines a b).length + 1 = a.length + b.length := by
  intro a
  induction a with
  | nil => intro b h; exact absurd rfl h
  | cons x xs ih =>
    intro b _ hb
    cases xs with
    | nil =>
      cases b with
      | nil => exact absurd rfl hb
      | cons l ls => simp [appendLines, prependHead]; omega
    | cons x' xs' =>
      have := ih b (by simp) hb
      simp only [appendLines, List.length_cons] at this ⊢
      omega

theorem appendLines_get_lt : ∀ (a b : List (List Char)) (i : Nat), i + 1 < a.length →
    (appendLines a b)[i]? = a[i]? := by
  intro a
  induction a with
  | nil => intro b i h; simp at h
  | cons x xs ih =>
    intro b i h
    cases xs with
    | nil => simp at h
    | cons x' xs' =>
      cases i with
      | zero => simp [appendLines]
      | succ i =>
        have := ih b i (by simpa using h)
        simp only [appendLines, List.getElem?_cons_succ] at this ⊢
        exact this

theorem appendLines_get_last : ∀ (a b : List (List Char)) (r l : List Char) (ls : List (List Char)),
    a[a.length - 1]? = some r → b = l :: ls →
    (appendLines a b)[a.length - 1]? = some (r ++ l) := by
  intro a
  induction a with
  | nil => intro b r l ls h; simp at h
  | cons x xs ih =>
    intro b r l ls ha hb
    cases xs with
    | nil =>
      subst hb
      simp at ha
      subst ha
      simp [appendLines, prependHead]
    | cons x' xs' =>
      simp only [List.length_cons, Nat.add_sub_cancel] at ha ⊢
      simp only [List.getElem?_cons_succ] at ha
      have := ih b r l ls (by simpa using ha) hb
      simp only [List.length_cons, Nat.add_sub_cancel] at this
      simp only [appendLines, List.getElem?_cons_succ]
      exact this

/-- lines of `x₀\n x₁\n … xₙ₋₁\n ++ t` -/
theorem linesOf_terminated : ∀ (xs : List (List Char)) (t : List Char), (∀ x ∈ xs, '\n' ∉ x) →
    linesOf ((xs.map (· ++ ['\n'])).flatten ++ t) = xs ++ linesOf t := by
  intro xs
  induction xs with
  | nil => intro t _; simp
  | cons x xs ih =>
    intro t h
    have hx : '\n' ∉ x := h x (by simp)
    have := ih t (fun y hy => h y (by simp [hy]))
    simp only [List.map_cons, List.flatten_cons, List.append_assoc, List.cons_append, List.nil_append]
    rw [linesOf_line x _ hx, this]

/-! ### a layout of cells as rows -/

def consHead {α} (x : α) : List (List α) → List (List α)
  | [] => [[x]]
  | r :: rs => (x :: r) :: rs

/-- the cells `k, k+1, …` (absolute index, `w` per row) grouped into rows -/
def rowsFrom {α} (w : Nat) : Nat → List α → List (List α)
  | _, [] => [[]]
  | _, [x] => [[x]]
  | k, x :: y :: rest =>
    if k % w = w - 1 then [x] :: rowsFrom w (k + 1) (y :: rest)
    else consHead x (rowsFrom w (k + 1) (y :: rest))

/-- cells of a row joined by the separator -/
def joinSp (sp : List Char) : List (List Char) → List Char
  | [] => []
  | [c] => c
  | c :: c' :: rest => c ++ sp ++ joinSp sp (c' :: rest)

/-- the generic layout: cell `k` is followed by a line feed at the end of a row, else by `sp`;
    nothing after the last cell -/
def renderG (sp : List Char) (w : Nat) : Nat → List (List Char) → List Char
  | _, [] => []
  | _, [c] => c
  | k, c :: c' :: rest => c ++ (if k % w = w - 1 then ['\n'] else sp) ++ renderG sp w (k + 1) (c' :: rest)

theorem rowsFrom_head {α} (w : Nat) : ∀ (k : Nat) (cs : List α), cs ≠ [] →
    ∃ r rs, rowsFrom w k cs = r :: rs ∧ r ≠ [] := by
  intro k cs
  induction cs generalizing k with
  | nil => intro h; exact absurd rfl h
  | cons x rest ih =>
    intro _
    cases rest with
    | nil => exact ⟨[x], [], rfl, by simp⟩
    | cons y rest' =>
      simp only [rowsFrom]
      split
      · exact ⟨[x], _, rfl, by simp⟩
      · obtain ⟨r, rs, h1, _⟩ := ih (k + 1) (by simp)
        rw [h1]; exact ⟨x :: r, rs, rfl, by simp⟩

theorem joinSp_cons (sp c : List Char) (r : List (List Char)) (h : r ≠ []) :
    joinSp sp (c :: r) = c ++ sp ++ joinSp sp r := by
  cases r with
  | nil => exact absurd rfl h
  | cons c' rest => rfl

/-- the lines of the layout are the rows, each joined by the separator -/
theorem linesOf_renderG (sp : List Char) (w : Nat) (hsp : '\n' ∉ sp) :
    ∀ (cs : List (List Char)) (k : Nat), (∀ c ∈ cs, '\n' ∉ c) →
      linesOf (renderG sp w k cs) = (rowsFrom w k cs).map (joinSp sp) := by
  intro cs
  induction cs with
  | nil => intro k _; simp [renderG, rowsFrom, joinSp, linesOf_nil]
  | cons c rest ih =>
    intro k h
    have hc : '\n' ∉ c := h c (by simp)
    cases rest with
    | nil =>
      have := linesOf_append_noNl c [] hc
      simp only [List.append_nil, linesOf_nil, prependHead] at this
      simp [renderG, rowsFrom, joinSp, this]
    | cons c' rest' =>
      have ih' := ih (k + 1) (fun x hx => h x (by simp [hx]))
      simp only [renderG, rowsFrom]
      by_cases he : k % w = w - 1
      · simp only [he, if_true, List.append_assoc, List.singleton_append]
        rw [linesOf_line c _ hc, ih']
        simp [joinSp]
      · simp only [he, if_false, List.append_assoc]
        rw [← List.append_assoc, linesOf_append_noNl (c ++ sp) _ (by
          intro hm; rcases List.mem_append.1 hm with h1 | h1
          · exact hc h1
          · exact hsp h1), ih']
        obtain ⟨r, rs, h1, h2⟩ := rowsFrom_head w (k + 1) (c' :: rest') (by simp)
        rw [h1]
        simp only [List.map_cons, prependHead, consHead]
        rw [joinSp_cons sp c r h2]

/-! ### positions of the cells in the rows -/

def indexRow {α} (r : Nat) : Nat → List α → List (Nat × Nat × α)
  | _, [] => []
  | c, x :: xs => (r, c, x) :: indexRow r (c + 1) xs

def indexRows {α} : Nat → Nat → List (List α) → List (Nat × Nat × α)
  | _, _, [] => []
  | r, c, row :: rows => indexRow r c row ++ indexRows (r + 1) 0 rows

/-- reading the rows in order with their (row, column) gives the same numbering as `expectCells`
    (row `k / w`, column `k % w`) -/
theorem indexRows_rowsFrom {α} (w : Nat) (hw : 0 < w) : ∀ (cs : List α) (k : Nat),
    indexRows (k / w) (k % w) (rowsFrom w k cs) = expectCells w k cs := by
  intro cs
  induction cs with
  | nil => intro k; simp [rowsFrom, indexRows, indexRow, expectCells]
  | cons x rest ih =>
    intro k
    cases rest with
    | nil => simp [rowsFrom, indexRows, indexRow, expectCells]
    | cons y rest' =>
      have ih' := ih (k + 1)
      have hs := rowcol_step w k hw
      simp only [rowsFrom, expectCells]
      by_cases he : k % w = w - 1
      · obtain ⟨h1, h2⟩ := hs.1 he
        rw [h1, h2] at ih'
        simp only [he, if_true, indexRows, indexRow, List.cons_append, List.nil_append]
        rw [← he, ih']
        simp [expectCells]
      · obtain ⟨h1, h2⟩ := hs.2 he
        rw [h1, h2] at ih'
        simp only [he, if_false]
        obtain ⟨r, rs, e1, _⟩ := rowsFrom_head w (k + 1) (y :: rest') (by simp)
        rw [e1] at ih' ⊢
        simp only [consHead, indexRows, indexRow, List.cons_append] at ih' ⊢
        rw [ih']
        simp [expectCells]

theorem indexRow_mem {α} (r : Nat) : ∀ (row : List α) (c0 r' c' : Nat) (x : α),
    (r', c', x) ∈ indexRow r c0 row → r' = r ∧ c0 ≤ c' ∧ row[c' - c0]? = some x := by
  intro row
  induction row with
  | nil => intro c0 r' c' x h; simp [indexRow] at h
  | cons y ys ih =>
    intro c0 r' c' x h
    simp only [indexRow, List.mem_cons] at h
    rcases h with h | h
    · cases h; simp
    · obtain ⟨h1, h2, h3⟩ := ih (c0 + 1) r' c' x h
      refine ⟨h1, by omega, ?_⟩
      have : c' - c0 = (c' - (c0 + 1)) + 1 := by omega
      rw [this]; simpa using h3

theorem indexRows_mem {α} : ∀ (rows : List (List α)) (r0 c0 r c : Nat) (x : α),
    (r, c, x) ∈ indexRows r0 c0 rows →
      r0 ≤ r ∧ (rows[r - r0]?).bind (·[c - (if r = r0 then c0 else 0)]?) = some x := by
  intro rows
  induction rows with
  | nil => intro r0 c0 r c x h; simp [indexRows] at h
  | cons row rows ih =>
    intro r0 c0 r c x h
    simp only [indexRows, List.mem_append] at h
    rcases h with h | h
    · obtain ⟨h1, _, h3⟩ := indexRow_mem r0 row c0 r c x h
      subst h1
      simp [h3]
    · obtain ⟨h1, h2⟩ := ih (r0 + 1) 0 r c x h
      refine ⟨by omega, ?_⟩
      have hne : r ≠ r0 := by omega
      have e : r - r0 = (r - (r0 + 1)) + 1 := by omega
      simp only [hne, if_false, e, List.getElem?_cons_succ]
      simpa using h2

theorem mem_expectCells {α} (w : Nat) (xs : List α) (j : Nat) (h : j < xs.length) :
    (j / w, j % w, xs[j]) ∈ expectCells w 0 xs := by
  have := expectCells_get w xs 0 j h
  simp only [Nat.zero_add] at this
  exact List.mem_of_getElem? this

/-- cell `j` (reading order) is found in row `j / w` at position `j % w` -/
theorem rowsFrom_get {α} (w : Nat) (hw : 0 < w) (cs : List α) (j : Nat) (h : j < cs.length) :
    ((rowsFrom w 0 cs)[j / w]?).bind (·[j % w]?) = some cs[j] := by
  have hm := mem_expectCells w cs j h
  rw [← indexRows_rowsFrom w hw cs 0] at hm
  simp only [Nat.zero_div, Nat.zero_mod] at hm
  have := (indexRows_mem _ 0 0 (j / w) (j % w) cs[j] hm).2
  simpa using this

/-- no row is longer than `w` -/
theorem rowsFrom_len {α} (w : Nat) (hw : 0 < w) : ∀ (cs : List α) (k : Nat),
    ∃ r rs, rowsFrom w k cs = r :: rs ∧ r.length ≤ w - k % w ∧ ∀ r' ∈ rs, r'.length ≤ w := by
  intro cs
  induction cs with
  | nil => intro k; exact ⟨[], [], rfl, by simp, by simp⟩
  | cons x rest ih =>
    intro k
    have hlt := Nat.mod_lt k hw
    cases rest with
    | nil => exact ⟨[x], [], rfl, by simp; omega, by simp⟩
    | cons y rest' =>
      obtain ⟨r, rs, e1, e2, e3⟩ := ih (k + 1)
      have hs := rowcol_step w k hw
      simp only [rowsFrom]
      by_cases he : k % w = w - 1
      · obtain ⟨_, h2⟩ := hs.1 he
        rw [h2] at e2
        refine ⟨[x], r :: rs, by simp [he, e1], by simp; omega, ?_⟩
        intro r' hr'
        simp only [List.mem_cons] at hr'
        rcases hr' with h | h
        · subst h; omega
        · exact e3 r' h
      · obtain ⟨_, h2⟩ := hs.2 he
        rw [h2] at e2
        refine ⟨x :: r, rs, by simp [he, e1, consHead], by simp; omega, e3⟩

theorem rowsFrom_all_len {α} (w : Nat) (hw : 0 < w) (cs : List α) (k : Nat) :
    ∀ r ∈ rowsFrom w k cs, r.length ≤ w := by
  obtain ⟨r, rs, e1, e2, e3⟩ := rowsFrom_len w hw cs k
  intro r' hr'
  rw [e1] at hr'
  simp only [List.mem_cons] at hr'
  rcases hr' with h | h
  · subst h; omega
  · exact e3 r' h

/-- number of rows -/
theorem rowsFrom_count {α} (w : Nat) (hw : 0 < w) : ∀ (cs : List α) (k : Nat), cs ≠ [] →
    (rowsFrom w k cs).length = (k % w + cs.length - 1) / w + 1 := by
  intro cs
  induction cs with
  | nil => intro k h; exact absurd rfl h
  | cons x rest ih =>
    intro k _
    have hlt := Nat.mod_lt k hw
    cases rest with
    | nil =>
      simp only [rowsFrom, List.length_cons, List.length_nil]
      have : (k % w + (0 + 1) - 1) / w = 0 := Nat.div_eq_of_lt (by omega)
      omega
    | cons y rest' =>
      have ih' := ih (k + 1) (by simp)
      have hs := rowcol_step w k hw
      simp only [rowsFrom]
      by_cases he : k % w = w - 1
      · obtain ⟨_, h2⟩ := hs.1 he
        rw [h2] at ih'
        simp only [he, if_true, List.length_cons] at ih' ⊢
        rw [ih']
        have e : w - 1 + (rest'.length + 1 + 1) - 1 = rest'.length + 1 * w := by omega
        rw [e, Nat.add_mul_div_right _ _ hw]
        have : 0 + (rest'.length + 1) - 1 = rest'.length := by omega
        rw [this]
      · obtain ⟨_, h2⟩ := hs.2 he
        rw [h2] at ih'
        obtain ⟨r, rs, e1, _⟩ := rowsFrom_head w (k + 1) (y :: rest') (by simp)
        simp only [he, if_false]
        rw [e1] at ih' ⊢
        simp only [consHead, List.length_cons] at ih' ⊢
        rw [ih']
        have : k % w + 1 + (rest'.length + 1) - 1 = k % w + (rest'.length + 1 + 1) - 1 := by omega
        rw [this]

/-- length of a joined row of equally long cells -/
theorem joinSp_length (sp : List Char) (cl : Nat) : ∀ (row : List (List Char)), row ≠ [] →
    (∀ c ∈ row, c.length = cl) → (joinSp sp row).length + sp.length = row.length * (cl + sp.length) := by
  intro row
  induction row with
  | nil => intro h; exact absurd rfl h
  | cons c rest ih =>
    intro _ h
    have hc : c.length = cl := h c (by simp)
    cases rest with
    | nil => simp [joinSp, hc]
    | cons c' rest' =>
      have := ih (by simp) (fun x hx => h x (by simp [hx]))
      simp only [joinSp, List.length_append, List.length_cons, hc] at this ⊢
      rw [Nat.add_mul] at this ⊢
      rw [Nat.add_mul]
      omega

/-! ### the hex and ascii layouts as generic layouts -/

def blank2 : List Char := [' ', ' ']

theorem hexBody_render (w : Nat) : ∀ (bs : List UInt8) (k : Nat),
    hexBody w k bs = renderG [' '] w k (bs.map hexPair) := by
  intro bs
  induction bs with
  | nil => intro k; rfl
  | cons b rest ih =>
    intro k
    cases rest with
    | nil => rfl
    | cons b' rest' =>
      have := ih (k + 1)
      simp only [hexBody, List.map_cons, renderG, sepAt] at this ⊢
      rw [this]
      split <;> rfl

theorem hexSpec_render (w : Nat) (bs : List UInt8) (hbs : bs ≠ []) : ∀ (n k : Nat),
    hexPadGo w n k ++ hexBody w (k + n) bs
      = renderG [' '] w k (List.replicate n blank2 ++ bs.map hexPair) := by
  intro n
  induction n with
  | zero => intro k; simpa [hexPadGo] using hexBody_render w bs k
  | succ n ih =>
    intro k
    have ih' := ih (k + 1)
    have e : k + 1 + n = k + (n + 1) := by omega
    rw [e] at ih'
    have hne : List.replicate n blank2 ++ bs.map hexPair ≠ [] := by
      cases bs with
      | nil => exact absurd rfl hbs
      | cons b r => simp
    cases hx : List.replicate n blank2 ++ bs.map hexPair with
    | nil => exact absurd hx hne
    | cons c rest =>
      rw [hx] at ih'
      rw [List.replicate_succ, List.cons_append, hx]
      simp only [hexPadGo, renderG, blank2, List.append_assoc]
      rw [ih']
      split <;> simp

theorem asciiBody_render (w : Nat) : ∀ (bs : List UInt8) (k : Nat),
    asciiBody w k bs = renderG [] w k (bs.map fun b => [safeAscii b]) := by
  intro bs
  induction bs with
  | nil => intro k; rfl
  | cons b rest ih =>
    intro k
    cases rest with
    | nil => rfl
    | cons b' rest' =>
      have := ih (k + 1)
      simp only [asciiBody, List.map_cons, renderG] at this ⊢
      rw [this]
      split <;> simp

theorem asciiSpec_render (w : Nat) (hw : 0 < w) (bs : List UInt8) (hbs : bs ≠ []) : ∀ (n k : Nat), k % w + n < w →
    asciiPadGo w n k ++ asciiBody w (k + n) bs
      = renderG [] w k (List.replicate n [' '] ++ bs.map fun b => [safeAscii b]) := by
  intro n
  induction n with
  | zero => intro k _; simpa [asciiPadGo] using asciiBody_render w bs k
  | succ n ih =>
    intro k hk
    have hs := rowcol_step w k hw
    have he : k % w ≠ w - 1 := by omega
    obtain ⟨_, h2⟩ := hs.2 he
    have ih' := ih (k + 1) (by rw [h2]; omega)
    have e : k + 1 + n = k + (n + 1) := by omega
    rw [e] at ih'
    have hne : List.replicate n [' '] ++ (bs.map fun b => [safeAscii b]) ≠ [] := by
      cases bs with
      | nil => exact absurd rfl hbs
      | cons b r => simp
    cases hx : List.replicate n [' '] ++ (bs.map fun b => [safeAscii b]) with
    | nil => exact absurd hx hne
    | cons c rest =>
      rw [hx] at ih'
      rw [List.replicate_succ, List.cons_append, hx]
      simp only [asciiPadGo, he, if_false, renderG, List.nil_append, List.append_nil, List.cons_append]
      rw [ih']

/-! ### columnwriter.Flush -/

/-- `FlushLine` for a column of width `wd` that is not the last one: cut to the width, then pad -/
def fitCell (wd : Nat) (s : List Char) : List Char :=
  let s := if s.length > wd then s.take wd else s
  s ++ List.replicate (wd - s.length) ' '

theorem fitCell_length (wd : Nat) (s : List Char) : (fitCell wd s).length = wd := by
  unfold fitCell
  simp only
  split
  · rw [List.length_append, List.length_replicate, List.length_take]; omega
  · rw [List.length_append, List.length_replicate]; omega

theorem fitCell_prefix (wd : Nat) (s : List Char) (h : s.length ≤ wd) : s <+: fitCell wd s := by
  unfold fitCell
  have : ¬ s.length > wd := by omega
  simp only [this, if_false]
  exact List.prefix_append _ _

theorem flushLine_multi (wd : Nat) (t : List Char) (i : Nat) :
    (Column.multi (some wd) t).flushLine i false
      = fitCell wd (((Column.multi (some wd) t).linesAfter)[i]?.getD []) := by
  simp [Column.flushLine, fitCell]

theorem linesBefore_multi (wd : Option Nat) (t : List Char) :
    (Column.multi wd t).linesBefore + 1 = (linesOf t).length := by
  simp [Column.linesBefore, linesOf]

/-- after `PreFlush` the lines are `linesOf` without an empty unterminated rest -/
theorem linesAfter_get (wd : Option Nat) (t : List Char) (i : Nat) (l : List Char)
    (h : (linesOf t)[i]? = some l) (h2 : l ≠ [] ∨ i + 1 < (linesOf t).length) :
    ((Column.multi wd t).linesAfter)[i]? = some l := by
  unfold linesOf at h h2
  simp only [Column.linesAfter]
  generalize (splitLines [] t).1 = ls at h h2 ⊢
  generalize (splitLines [] t).2 = r at h h2 ⊢
  by_cases hi : i < ls.length
  · rw [List.getElem?_append_left hi] at h
    by_cases hr : r.isEmpty
    · simp [hr, h]
    · simp [hr, List.getElem?_append_left hi, h]
  · have hi' : i = ls.length := by
      have : i < (ls ++ [r]).length := by
        rcases List.getElem?_eq_some_iff.1 h with ⟨hh, _⟩; exact hh
      simp at this; omega
    subst hi'
    simp at h
    subst h
    rcases h2 with h2 | h2
    · have : r.isEmpty = false := by
        cases r with
        | nil => exact absurd rfl h2
        | cons _ _ => rfl
      simp [this]
    · simp at h2

theorem foldl_max_ge (xs : List Nat) (a : Nat) : ∀ x ∈ xs, x ≤ xs.foldl max a := by
  induction xs generalizing a with
  | nil => intro x h; simp at h
  | cons y ys ih =>
    intro x h
    simp only [List.foldl_cons]
    have hmono : ∀ (zs : List Nat) (a b : Nat), a ≤ b → zs.foldl max a ≤ zs.foldl max b := by
      intro zs
      induction zs with
      | nil => intro a b h; simpa using h
      | cons z zs ihz => intro a b h; simp only [List.foldl_cons]; exact ihz _ _ (by omega)
    have hself : ∀ (zs : List Nat) (a : Nat), a ≤ zs.foldl max a := by
      intro zs
      induction zs with
      | nil => intro a; simp
      | cons z zs ihz => intro a; simp only [List.foldl_cons]; exact Nat.le_trans (by omega) (ihz (max a z))
    simp only [List.mem_cons] at h
    rcases h with h | h
    · subst h; exact Nat.le_trans (by omega) (hself ys (max a x))
    · exact ih (max a y) x h

/-- `Writer.Flush`: as many output lines as the longest column had COMPLETE lines before `PreFlush`
    (quirk), and the `k`-th output line is the concatenation of every column's `k`-th cell
    (`FlushLine`: line `k` cut/padded to the column width; bar columns print their bar). -/
theorem flush_rows (cols : List Column) :
    (flush cols).length = (cols.map Column.linesBefore).foldl max 0
      ∧ ∀ k, k < (cols.map Column.linesBefore).foldl max 0 →
          (flush cols)[k]? = some
            ((cols.zipIdx.map fun (c, i) => c.flushLine k (i + 1 == cols.length)).flatten) := by
  constructor
  · simp [flush]
  · intro k hk
    simp [flush, flushRow, hk]

/-- the seven columns of dump.go: one output line -/
theorem flushRow_mkCols (o : Opts) (colW : Nat) (addr hex ascii tree : List Char) (k : Nat) :
    flushRow (mkCols o colW addr hex ascii tree) k
      = (Column.multi (some colW) addr).flushLine k false ++ ['|']
        ++ (Column.multi (some (o.lineBytes * 3 - 1)) hex).flushLine k false ++ ['|']
        ++ (Column.multi (some o.lineBytes) ascii).flushLine k false ++ ['|']
        ++ (Column.multi none tree).flushLine k true := by
  simp [flushRow, mkCols, List.zipIdx, Column.flushLine]

/-! ### a column holding a layout followed by a tail -/

theorem layoutCol_get (wd : Option Nat) (X T : List Char) (rows : List (List Char))
    (hX : linesOf X = rows) (hne : ∀ r ∈ rows, r ≠ []) (i : Nat) (r : List Char) (hr : rows[i]? = some r) :
    ((Column.multi wd (X ++ T)).linesAfter)[i]?
      = some (r ++ (if i + 1 = rows.length then (linesOf T).headD [] else [])) := by
  have hi : i < rows.length := (List.getElem?_eq_some_iff.1 hr).1
  have hrows : rows ≠ [] := by intro h; rw [h] at hi; simp at hi
  have hLT := linesOf_ne_nil T
  have hlen := appendLines_length rows (linesOf T) hrows hLT
  have hpos : 0 < (linesOf T).length := by
    cases h : linesOf T with
    | nil => exact absurd h hLT
    | cons _ _ => simp
  apply linesAfter_get
  · rw [linesOf_append, hX]
    by_cases hl : i + 1 = rows.length
    · rw [if_pos hl]
      cases hT : linesOf T with
      | nil => exact absurd hT hLT
      | cons l ls =>
        have e : i = rows.length - 1 := by omega
        rw [e] at hr ⊢
        simpa using appendLines_get_last rows (l :: ls) r l ls hr rfl
    · rw [if_neg hl, List.append_nil, appendLines_get_lt rows (linesOf T) i (by omega)]
      exact hr
  · by_cases hl : i + 1 = rows.length
    · left
      have : r ≠ [] := hne r (List.mem_of_getElem? hr)
      intro h
      have := List.append_eq_nil_iff.1 h
      exact this.1 |> fun h1 => (hne r (List.mem_of_getElem? hr)) h1
    · right
      rw [linesOf_append, hX]; omega

theorem rowsFrom_ne {α} (w : Nat) : ∀ (cs : List α) (k : Nat), cs ≠ [] → ∀ r ∈ rowsFrom w k cs, r ≠ [] := by
  intro cs
  induction cs with
  | nil => intro k h; exact absurd rfl h
  | cons x rest ih =>
    intro k _ r hr
    cases rest with
    | nil => simp [rowsFrom] at hr; subst hr; simp
    | cons y rest' =>
      have ih' := ih (k + 1) (by simp)
      simp only [rowsFrom] at hr
      split at hr
      · simp only [List.mem_cons] at hr
        rcases hr with h | h
        · subst h; simp
        · exact ih' r h
      · obtain ⟨r0, rs, e1, _⟩ := rowsFrom_head w (k + 1) (y :: rest') (by simp)
        rw [e1] at hr ih'
        simp only [consHead, List.mem_cons] at hr
        rcases hr with h | h
        · subst h; simp
        · exact ih' r (by simp [h])

/-- the rows only contain the given cells -/
theorem mem_of_row {α} (w : Nat) (hw : 0 < w) (cs : List α) (row : List α) (hrow : row ∈ rowsFrom w 0 cs)
    (c : α) (hc : c ∈ row) : c ∈ cs := by
  -- via the index numbering: every cell of a row occurs in `indexRows … = expectCells …`
  have key : ∀ (rows : List (List α)) (r0 c0 : Nat), row ∈ rows → ∃ r' c', (r', c', c) ∈ indexRows r0 c0 rows := by
    intro rows
    induction rows with
    | nil => intro _ _ h; simp at h
    | cons x xs ih =>
      intro r0 c0 h
      simp only [List.mem_cons] at h
      rcases h with h | h
      · subst h
        have : ∀ (l : List α) (c1 : Nat), c ∈ l → ∃ c', (r0, c', c) ∈ indexRow r0 c1 l := by
          intro l
          induction l with
          | nil => intro _ h; simp at h
          | cons y ys ihl =>
            intro c1 h
            simp only [List.mem_cons] at h
            rcases h with h | h
            · subst h; exact ⟨c1, by simp [indexRow]⟩
            · obtain ⟨c', hc'⟩ := ihl (c1 + 1) h
              exact ⟨c', by simp [indexRow, hc']⟩
        obtain ⟨c', hc'⟩ := this row c0 hc
        exact ⟨r0, c', by simp [indexRows, hc']⟩
      · obtain ⟨r', c', h'⟩ := ih (r0 + 1) 0 h
        exact ⟨r', c', by simp [indexRows, h']⟩
  obtain ⟨r', c', h⟩ := key (rowsFrom w 0 cs) (0 / w) (0 % w) hrow
  rw [indexRows_rowsFrom w hw cs 0] at h
  have : ∀ (xs : List α) (k : Nat), (r', c', c) ∈ expectCells w k xs → c ∈ xs := by
    intro xs
    induction xs with
    | nil => intro _ h; simp [expectCells] at h
    | cons y ys ih =>
      intro k h
      simp only [expectCells, List.mem_cons] at h
      rcases h with h | h
      · cases h; simp
      · simp [ih (k + 1) h]
  exact this cs 0 h

theorem digit_not_nl : ∀ d : Fin 36, digitChar d.val ≠ '\n' := by decide

theorem basePrefix_no_nl (b : Nat) : '\n' ∉ basePrefix b := by
  unfold basePrefix
  split
  · decide
  · split
    · decide
    · split <;> decide

theorem padFormat_no_nl (n b W : Nat) (hb : 2 ≤ b) (hb36 : b ≤ 36) : '\n' ∉ padFormat n b true W := by
  unfold padFormat
  simp only [if_true, List.mem_append, List.mem_replicate, not_or]
  refine ⟨⟨basePrefix_no_nl b, by intro h; exact absurd h.2 (by decide)⟩, ?_⟩
  intro h
  obtain ⟨d, hd, he⟩ := formatBase_digits b n hb _ h
  exact digit_not_nl ⟨d, by omega⟩ he.symm

theorem addrText_no_nl (o : Opts) (colW rd a : Nat) (hab : 2 ≤ o.addrbase ∧ o.addrbase ≤ 36) :
    '\n' ∉ addrText o colW rd a := by
  unfold addrText rootIndent
  simp only [List.mem_append, List.mem_replicate, not_or]
  exact ⟨by intro h; exact absurd h.2 (by decide), padFormat_no_nl _ _ _ hab.1 hab.2⟩

theorem hexPair_no_nl (b : UInt8) : '\n' ∉ hexPair b := by
  unfold hexPair
  have hb : b.toNat < 256 := b.toNat_lt
  have h1 := digit_not_nl ⟨b.toNat / 16, by omega⟩
  have h2 := digit_not_nl ⟨b.toNat % 16, by omega⟩
  simp only [List.mem_cons, List.not_mem_nil, or_false, not_or]
  exact ⟨fun e => h1 e.symm, fun e => h2 e.symm⟩

/-! ### the rows of a dumped value -/

def hexCells (off : Nat) (bytes : List UInt8) : List (List Char) := List.replicate off blank2 ++ bytes.map hexPair
def asciiCells (off : Nat) (bytes : List UInt8) : List (List Char) :=
  List.replicate off [' '] ++ bytes.map fun b => [safeAscii b]

theorem hexCells_props (off : Nat) (bytes : List UInt8) :
    (∀ c ∈ hexCells off bytes, '\n' ∉ c) ∧ (∀ c ∈ hexCells off bytes, c.length = 2)
      ∧ (hexCells off bytes).length = off + bytes.length := by
  unfold hexCells
  refine ⟨?_, ?_, by simp⟩
  · intro c hc
    rcases List.mem_append.1 hc with h | h
    · rw [(List.mem_replicate.1 h).2]; decide
    · obtain ⟨b, _, rfl⟩ := List.mem_map.1 h; exact hexPair_no_nl b
  · intro c hc
    rcases List.mem_append.1 hc with h | h
    · rw [(List.mem_replicate.1 h).2]; rfl
    · obtain ⟨b, _, rfl⟩ := List.mem_map.1 h; rfl

theorem asciiCells_props (off : Nat) (bytes : List UInt8) :
    (∀ c ∈ asciiCells off bytes, '\n' ∉ c) ∧ (∀ c ∈ asciiCells off bytes, c.length = 1)
      ∧ (asciiCells off bytes).length = off + bytes.length := by
  unfold asciiCells
  refine ⟨?_, ?_, by simp⟩
  · intro c hc
    rcases List.mem_append.1 hc with h | h
    · rw [(List.mem_replicate.1 h).2]; decide
    · obtain ⟨b, _, rfl⟩ := List.mem_map.1 h
      simp only [List.mem_cons, List.not_mem_nil, or_false]
      exact fun e => safeAscii_ne_nl b e.symm
  · intro c hc
    rcases List.mem_append.1 hc with h | h
    · rw [(List.mem_replicate.1 h).2]; rfl
    · obtain ⟨b, _, rfl⟩ := List.mem_map.1 h; rfl

/-- lines of the hexpair writer's output = rows of cells joined by blanks -/
theorem hexRun_lines (w off : Nat) (hw : 0 < w) (bytes : List UInt8) (hb : bytes ≠ []) :
    linesOf (hexRun w off 0 [bytes]) = (rowsFrom w 0 (hexCells off bytes)).map (joinSp [' ']) := by
  rw [hexRun_eq_spec w off hw [bytes] (by simp)]
  simp only [List.flatten_cons, List.flatten_nil, List.append_nil, hexSpec]
  have := hexSpec_render w bytes hb off 0
  rw [Nat.zero_add] at this
  rw [this]
  exact linesOf_renderG [' '] w (by decide) _ 0 (hexCells_props off bytes).1

theorem asciiRun_eq_spec (w start : Nat) (hw : 0 < w) (cs : List (List UInt8)) (h : cs ≠ []) :
    asciiRun w start 0 cs = asciiSpec w start cs.flatten := by
  cases cs with
  | nil => exact absurd rfl h
  | cons p ps => simpa [asciiSpec] using asciiRun_pad w start hw p ps 0 (Nat.zero_le _)

theorem asciiRun_lines (w off : Nat) (hw : 0 < w) (hoff : off < w) (bytes : List UInt8) (hb : bytes ≠ []) :
    linesOf (asciiRun w off 0 [bytes]) = (rowsFrom w 0 (asciiCells off bytes)).map (joinSp []) := by
  rw [asciiRun_eq_spec w off hw [bytes] (by simp)]
  simp only [List.flatten_cons, List.flatten_nil, List.append_nil, asciiSpec]
  have := asciiSpec_render w hw bytes hb off 0 (by simpa using hoff)
  rw [Nat.zero_add] at this
  rw [this]
  exact linesOf_renderG [] w (by simp) _ 0 (asciiCells_props off bytes).1

/-- a joined row of the layout fits its column -/
theorem row_fits (sp : List Char) (cl w : Nat) (row : List (List Char)) (hne : row ≠ []) (hcl0 : 0 < cl)
    (hcl : ∀ c ∈ row, c.length = cl) (hlen : row.length ≤ w) :
    (joinSp sp row).length + sp.length ≤ w * (cl + sp.length) ∧ joinSp sp row ≠ [] := by
  have h := joinSp_length sp cl row hne hcl
  have h1 : row.length * (cl + sp.length) ≤ w * (cl + sp.length) := Nat.mul_le_mul_right _ hlen
  refine ⟨by omega, ?_⟩
  have hpos : 0 < row.length := by
    cases row with
    | nil => exact absurd rfl hne
    | cons _ _ => simp
  have h2 : cl + sp.length ≤ row.length * (cl + sp.length) := Nat.le_mul_of_pos_left _ hpos
  intro he
  rw [he] at h
  simp at h
  omega

theorem tail_head (em tr : Prop) [Decidable em] [Decidable tr] (u : List Char) :
    (linesOf ((if em then ['|', '\n'] else []) ++ (if tr then ['\n'] ++ u else []))).headD []
      = if em then ['|'] else [] := by
  by_cases h1 : em
  · simp only [h1, if_true, List.cons_append, List.nil_append]
    rw [linesOf_cons '|' _ (by decide), linesOf_nl]
    simp [prependHead]
  · by_cases h2 : tr
    · simp only [h1, h2, if_true, if_false, List.nil_append, List.cons_append]
      rw [linesOf_nl]; simp
    · simp [h1, h2, linesOf_nil]

theorem tail_head1 (em : Prop) [Decidable em] :
    (linesOf (if em then ['|', '\n'] else [])).headD [] = if em then ['|'] else [] := by
  have := tail_head em False []
  simpa using this

theorem flush_get (cols : List Column) (k : Nat) (hk : k < (cols.map Column.linesBefore).foldl max 0) :
    (flush cols)[k]? = some (flushRow cols k) := by
  simp [flush, hk]

/-- The rows printed for the data of one value (second `Flush` of dumpEx): output line `i` consists of
    the address cell of line `i`, the `i`-th row of hex cells and the `i`-th row of ascii cells. -/
theorem dump_rows (o : Opts) (colW rd : Nat) (root : List UInt8) (rootBits start len : Nat) (tree : List Char)
    (hlb : 0 < o.lineBytes) (hab : 2 ≤ o.addrbase ∧ o.addrbase ≤ 36)
    (hlen : 0 < len) (hin : start + len ≤ rootBits) (hroot : (rootBits + 7) / 8 ≤ root.length) :
    let g := geom o rootBits start len
    let bytes := dataBytes root g.startByte g.displaySizeBits
    let hexRows := rowsFrom o.lineBytes 0 (hexCells g.startLineByteOffset bytes)
    let ascRows := rowsFrom o.lineBytes 0 (asciiCells g.startLineByteOffset bytes)
    let dc := dataColumns o (colW - rd) (rootIndent rd) root rootBits start len
    hexRows.length = g.addrLines ∧ ascRows.length = g.addrLines ∧
    ∀ i, i < g.addrLines → ∃ hr ar mh ma tc,
      hexRows[i]? = some hr ∧ ascRows[i]? = some ar
      ∧ (flush (mkCols o colW dc.1 dc.2.1 dc.2.2 tree))[i]?
          = some (addrCell o colW rd (g.startLineByte + i * o.lineBytes) ++ ['|']
              ++ fitCell (o.lineBytes * 3 - 1) (joinSp [' '] hr ++ mh) ++ ['|']
              ++ fitCell o.lineBytes (joinSp [] ar ++ ma) ++ ['|'] ++ tc)
      ∧ (joinSp [' '] hr).length ≤ o.lineBytes * 3 - 1 ∧ (joinSp [] ar).length ≤ o.lineBytes
      ∧ (mh = [] ∨ mh = ['|']) ∧ (ma = [] ∨ ma = ['|']) := by
  intro g bytes hexRows ascRows dc
  obtain ⟨hlenB, hrowsEq, _⟩ := cells_explicit o root rootBits start len hlb hlen hin hroot
  have hlenB' : bytes.length = g.lastDisplayByte - g.startByte + 1 := hlenB
  have hbne : bytes ≠ [] := by intro h; rw [h] at hlenB'; simp at hlenB'
  have hrowsEq' : (g.startLineByteOffset + (bytes.length - 1)) / o.lineBytes + 1 = g.addrLines := hrowsEq
  have hoff : g.startLineByteOffset < o.lineBytes := Nat.mod_lt _ hlb
  obtain ⟨hp1, hp2, hp3⟩ := hexCells_props g.startLineByteOffset bytes
  obtain ⟨ap1, ap2, ap3⟩ := asciiCells_props g.startLineByteOffset bytes
  have hcne : hexCells g.startLineByteOffset bytes ≠ [] := by
    intro h; rw [h] at hp3; simp at hp3
    have : 0 < bytes.length := by rw [hlenB']; omega
    omega
  have acne : asciiCells g.startLineByteOffset bytes ≠ [] := by
    intro h; rw [h] at ap3; simp at ap3
    have : 0 < bytes.length := by rw [hlenB']; omega
    omega
  have hblen : 0 < bytes.length := by rw [hlenB']; omega
  have hcount : hexRows.length = g.addrLines := by
    show (rowsFrom o.lineBytes 0 (hexCells g.startLineByteOffset bytes)).length = _
    rw [rowsFrom_count o.lineBytes hlb _ 0 hcne, hp3, Nat.zero_mod, ← hrowsEq']
    have : 0 + (g.startLineByteOffset + bytes.length) - 1 = g.startLineByteOffset + (bytes.length - 1) := by omega
    rw [this]
  have acount : ascRows.length = g.addrLines := by
    show (rowsFrom o.lineBytes 0 (asciiCells g.startLineByteOffset bytes)).length = _
    rw [rowsFrom_count o.lineBytes hlb _ 0 acne, ap3, Nat.zero_mod, ← hrowsEq']
    have : 0 + (g.startLineByteOffset + bytes.length) - 1 = g.startLineByteOffset + (bytes.length - 1) := by omega
    rw [this]
  refine ⟨hcount, acount, ?_⟩
  intro i hi
  have hiH : i < hexRows.length := by omega
  have hiA : i < ascRows.length := by omega
  -- the three column texts
  have addrEq0 : dc.1 =
      (((List.range g.addrLines).map fun i => addrText o colW rd (g.startLineByte + i * o.lineBytes)).map
        (· ++ ['\n'])).flatten
        ++ (if g.stopByte ≠ g.lastDisplayByte then rootIndent rd ++ ['*', '\n'] else []) := by
    simp only [dc, dataColumns, List.map_map]
    rfl
  generalize hT1 : (if g.stopByte ≠ g.lastDisplayByte then rootIndent rd ++ ['*', '\n'] else []) = T1 at addrEq0
  have addrEq := addrEq0
  have hexEq : dc.2.1 = hexRun o.lineBytes g.startLineByteOffset 0 [bytes]
      ++ ((if g.lastDisplayByte = g.bufferLastByte ∧ g.lastDisplayByte ≠ g.lastLineStopByte then ['|', '\n'] else [])
          ++ (if g.stopByte ≠ g.lastDisplayByte then ['\n'] ++ untilText o rootBits start len else [])) := by
    simp only [dc, dataColumns, dataBytesW, Nat.sub_zero, List.append_assoc]
    rfl
  have ascEq : dc.2.2 = asciiRun o.lineBytes g.startLineByteOffset 0 [bytes]
      ++ (if g.lastDisplayByte = g.bufferLastByte ∧ g.lastDisplayByte ≠ g.lastLineStopByte then ['|', '\n'] else []) := by
    simp only [dc, dataColumns, dataBytesW, Nat.sub_zero]
    rfl
  -- lines of the layouts
  have hexLines := hexRun_lines o.lineBytes g.startLineByteOffset hlb bytes hbne
  have ascLines := asciiRun_lines o.lineBytes g.startLineByteOffset hlb hoff bytes hbne
  have hr_mem : (hexRows[i]'hiH) ∈ hexRows := List.getElem_mem hiH
  have ar_mem : (ascRows[i]'hiA) ∈ ascRows := List.getElem_mem hiA
  have hr_ne : (hexRows[i]'hiH) ≠ [] := rowsFrom_ne o.lineBytes _ 0 hcne _ hr_mem
  have ar_ne : (ascRows[i]'hiA) ≠ [] := rowsFrom_ne o.lineBytes _ 0 acne _ ar_mem
  have hr_len : (hexRows[i]'hiH).length ≤ o.lineBytes := rowsFrom_all_len o.lineBytes hlb _ 0 _ hr_mem
  have ar_len : (ascRows[i]'hiA).length ≤ o.lineBytes := rowsFrom_all_len o.lineBytes hlb _ 0 _ ar_mem
  have hcells2 : ∀ c ∈ (hexRows[i]'hiH), c.length = 2 := by
    intro c hc
    have hget := rowsFrom_get o.lineBytes hlb (hexCells g.startLineByteOffset bytes)
    exact hp2 c (mem_of_row o.lineBytes hlb _ _ hr_mem c hc)
  have acells1 : ∀ c ∈ (ascRows[i]'hiA), c.length = 1 := by
    intro c hc
    exact ap2 c (mem_of_row o.lineBytes hlb _ _ ar_mem c hc)
  obtain ⟨hfit, _⟩ := row_fits [' '] 2 o.lineBytes (hexRows[i]'hiH) hr_ne (by decide) hcells2 hr_len
  obtain ⟨afit, _⟩ := row_fits [] 1 o.lineBytes (ascRows[i]'hiA) ar_ne (by decide) acells1 ar_len
  -- every line of the layouts is non-empty
  have hne_all : ∀ r ∈ hexRows.map (joinSp [' ']), r ≠ [] := by
    intro r hr
    obtain ⟨row, hrow, rfl⟩ := List.mem_map.1 hr
    exact (row_fits [' '] 2 o.lineBytes row (rowsFrom_ne o.lineBytes _ 0 hcne _ hrow) (by decide)
      (fun c hc => hp2 c (mem_of_row o.lineBytes hlb _ _ hrow c hc))
      (rowsFrom_all_len o.lineBytes hlb _ 0 _ hrow)).2
  have ane_all : ∀ r ∈ ascRows.map (joinSp []), r ≠ [] := by
    intro r hr
    obtain ⟨row, hrow, rfl⟩ := List.mem_map.1 hr
    exact (row_fits [] 1 o.lineBytes row (rowsFrom_ne o.lineBytes _ 0 acne _ hrow) (by decide)
      (fun c hc => ap2 c (mem_of_row o.lineBytes hlb _ _ hrow c hc))
      (rowsFrom_all_len o.lineBytes hlb _ 0 _ hrow)).2
  have hexGet := layoutCol_get (some (o.lineBytes * 3 - 1)) (hexRun o.lineBytes g.startLineByteOffset 0 [bytes])
    ((if g.lastDisplayByte = g.bufferLastByte ∧ g.lastDisplayByte ≠ g.lastLineStopByte then ['|', '\n'] else [])
          ++ (if g.stopByte ≠ g.lastDisplayByte then ['\n'] ++ untilText o rootBits start len else []))
    _ hexLines hne_all i (joinSp [' '] (hexRows[i]'hiH))
    (by rw [List.getElem?_map, List.getElem?_eq_getElem hiH]; rfl)
  have ascGet := layoutCol_get (some o.lineBytes) (asciiRun o.lineBytes g.startLineByteOffset 0 [bytes])
    (if g.lastDisplayByte = g.bufferLastByte ∧ g.lastDisplayByte ≠ g.lastLineStopByte then ['|', '\n'] else [])
    _ ascLines ane_all i (joinSp [] (ascRows[i]'hiA))
    (by rw [List.getElem?_map, List.getElem?_eq_getElem hiA]; rfl)
  rw [tail_head] at hexGet
  rw [tail_head1] at ascGet
  rw [← hexEq] at hexGet
  rw [← ascEq] at ascGet
  -- the address column
  have addrLinesOf : (linesOf dc.1)[i]? = some (addrText o colW rd (g.startLineByte + i * o.lineBytes)) := by
    rw [addrEq, linesOf_terminated _ _ (by
      intro x hx
      obtain ⟨j, _, rfl⟩ := List.mem_map.1 hx
      exact addrText_no_nl o colW rd _ hab)]
    rw [List.getElem?_append_left (by simpa using hi)]
    simp [List.getElem?_map, hi]
  have addrLen : g.addrLines + 1 ≤ (linesOf dc.1).length := by
    rw [addrEq, linesOf_terminated _ _ (by
      intro x hx
      obtain ⟨j, _, rfl⟩ := List.mem_map.1 hx
      exact addrText_no_nl o colW rd _ hab)]
    have := linesOf_ne_nil T1
    cases h : linesOf T1 with
    | nil => exact absurd h this
    | cons _ _ => simp
  have addrGet := linesAfter_get (some colW) dc.1 i _ addrLinesOf (Or.inr (by omega))
  -- enough output lines
  have hmax : i < ((mkCols o colW dc.1 dc.2.1 dc.2.2 tree).map Column.linesBefore).foldl max 0 := by
    have hb := linesBefore_multi (some colW) dc.1
    have := foldl_max_ge ((mkCols o colW dc.1 dc.2.1 dc.2.2 tree).map Column.linesBefore) 0
      (Column.multi (some colW) dc.1).linesBefore (by simp [mkCols])
    omega
  generalize hMH : (if i + 1 = (List.map (joinSp [' ']) hexRows).length then
      (if g.lastDisplayByte = g.bufferLastByte ∧ g.lastDisplayByte ≠ g.lastLineStopByte then ['|'] else [])
      else ([] : List Char)) = MH at hexGet
  generalize hMA : (if i + 1 = (List.map (joinSp []) ascRows).length then
      (if g.lastDisplayByte = g.bufferLastByte ∧ g.lastDisplayByte ≠ g.lastLineStopByte then ['|'] else [])
      else ([] : List Char)) = MA at ascGet
  have hMHc : MH = [] ∨ MH = ['|'] := by
    rw [← hMH]; split
    · split <;> simp
    · simp
  have hMAc : MA = [] ∨ MA = ['|'] := by
    rw [← hMA]; split
    · split <;> simp
    · simp
  have haddr : fitCell colW (addrText o colW rd (g.startLineByte + i * o.lineBytes))
      = addrCell o colW rd (g.startLineByte + i * o.lineBytes) := rfl
  have main : (flush (mkCols o colW dc.1 dc.2.1 dc.2.2 tree))[i]?
      = some (addrCell o colW rd (g.startLineByte + i * o.lineBytes) ++ ['|']
          ++ fitCell (o.lineBytes * 3 - 1) (joinSp [' '] (hexRows[i]'hiH) ++ MH) ++ ['|']
          ++ fitCell o.lineBytes (joinSp [] (ascRows[i]'hiA) ++ MA) ++ ['|']
          ++ (Column.multi none tree).flushLine i true) := by
    rw [flush_get _ i hmax, flushRow_mkCols, flushLine_multi, flushLine_multi, flushLine_multi,
      addrGet, hexGet, ascGet]
    simp only [Option.getD_some, haddr]
  exact ⟨(hexRows[i]'hiH), (ascRows[i]'hiA), MH, MA, (Column.multi none tree).flushLine i true,
    List.getElem?_eq_getElem hiH, List.getElem?_eq_getElem hiA, main,
    (by
      have h3 : (joinSp [' '] (hexRows[i]'hiH)).length + 1 ≤ o.lineBytes * 3 := by simpa using hfit
      omega), by simpa using afit, hMHc, hMAc⟩

/-- byte `j` of the displayed bytes is the cell at row `(off+j)/w`, position `(off+j)%w` of both layouts -/
theorem cells_in_rows (w off : Nat) (hw : 0 < w) (bytes : List UInt8) (j : Nat) (hj : j < bytes.length) :
    ((rowsFrom w 0 (hexCells off bytes))[(off + j) / w]?).bind (·[(off + j) % w]?) = some (hexPair bytes[j])
    ∧ ((rowsFrom w 0 (asciiCells off bytes))[(off + j) / w]?).bind (·[(off + j) % w]?) = some [safeAscii bytes[j]] := by
  have h1 : off + j < (hexCells off bytes).length := by rw [(hexCells_props off bytes).2.2]; omega
  have h2 : off + j < (asciiCells off bytes).length := by rw [(asciiCells_props off bytes).2.2]; omega
  have q1 : (hexCells off bytes)[off + j]? = some (hexPair bytes[j]) := by
    unfold hexCells
    rw [List.getElem?_append_right (by simp)]
    simp [List.getElem?_map, hj]
  have q2 : (asciiCells off bytes)[off + j]? = some [safeAscii bytes[j]] := by
    unfold asciiCells
    rw [List.getElem?_append_right (by simp)]
    simp [List.getElem?_map, hj]
  have e1 : (hexCells off bytes)[off + j] = hexPair bytes[j] := by
    have := List.getElem?_eq_getElem h1
    rw [q1] at this; exact (Option.some.inj this).symm
  have e2 : (asciiCells off bytes)[off + j] = [safeAscii bytes[j]] := by
    have := List.getElem?_eq_getElem h2
    rw [q2] at this; exact (Option.some.inj this).symm
  refine ⟨?_, ?_⟩
  · rw [rowsFrom_get w hw _ (off + j) h1, e1]
  · rw [rowsFrom_get w hw _ (off + j) h2, e2]

end Proofs.C10Flush
