import FqModel.C10Json
import Proofs.C10Num
/-! C10 — lemmas about the JSON encoder/parser models (FqModel/C10Json.lean). Core Lean only. -/
namespace Proofs.C10Json
open FqModel.Dump FqModel.C10Json Proofs.C10Num

/-! ### integers -/

theorem dec_digit_facts : ∀ d : Fin 10,
    isDigit (digitChar d.val) = true ∧ isWs (digitChar d.val) = false
      ∧ digitChar d.val ≠ 'n' ∧ digitChar d.val ≠ 't' ∧ digitChar d.val ≠ 'f'
      ∧ digitChar d.val ≠ '"' ∧ digitChar d.val ≠ '-' := by
  decide

theorem formatBase10_all_digits (k : Nat) : ∀ c ∈ formatBase 10 k, isDigit c = true := by
  intro c hc
  obtain ⟨d, hd, he⟩ := formatBase_digits 10 k (by decide) c hc
  rw [he]; exact (dec_digit_facts ⟨d, hd⟩).1

theorem takeWhile_all {α} (p : α → Bool) : ∀ xs : List α, (∀ x ∈ xs, p x = true) →
    xs.takeWhile p = xs ∧ xs.dropWhile p = [] := by
  intro xs
  induction xs with
  | nil => intro _; simp
  | cons x xs ih =>
    intro h
    have hx : p x = true := h x (by simp)
    have := ih (fun y hy => h y (by simp [hy]))
    simp [List.takeWhile, List.dropWhile, hx, this]

theorem parseNat_formatBase (k : Nat) : parseNat (formatBase 10 k) = some (k, []) := by
  unfold parseNat
  obtain ⟨h1, h2⟩ := takeWhile_all isDigit _ (formatBase10_all_digits k)
  rw [h1, h2]
  have hne := formatBase_ne_nil 10 k
  have he : (formatBase 10 k).isEmpty = false := by
    cases h : formatBase 10 k with
    | nil => exact absurd h hne
    | cons _ _ => rfl
  have hlead : ¬ ((formatBase 10 k).length > 1 ∧ (formatBase 10 k).head? = some '0') := by
    intro ⟨hl, hh⟩
    by_cases hk : k = 0
    · subst hk; rw [formatBase_zero] at hl; simp at hl
    · exact formatBase_no_leading_zero 10 k (by decide) (by decide) hk hh
  simp only [he, Bool.false_eq_true, if_false, hlead]
  have := parse_formatGo 10 (by decide) (by decide) _ k (Nat.lt_log2_self)
  unfold formatBase
  rw [this]; rfl

theorem skipWs_cons_of_not_ws (c : Char) (cs : List Char) (h : isWs c = false) :
    skipWs (c :: cs) = c :: cs := by
  simp [skipWs, h]

theorem parseJson_encInt (n : Int) : parseJson (encInt n) = some (JV.int n) := by
  unfold parseJson encInt
  by_cases hn : n < 0
  · simp only [hn, if_true, List.length_cons, parseValue]
    have hw : isWs '-' = false := by decide
    rw [skipWs_cons_of_not_ws _ _ hw]
    have e1 : ('-' : Char) ≠ 'n' := by decide
    have e2 : ('-' : Char) ≠ 't' := by decide
    have e3 : ('-' : Char) ≠ 'f' := by decide
    have e4 : ('-' : Char) ≠ '"' := by decide
    simp only [e1, e2, e3, e4, if_false, if_true, parseNat_formatBase, Option.map_some, skipWs,
      List.isEmpty_nil]
    congr 2
    omega
  · simp only [hn, if_false]
    have hne := formatBase_ne_nil 10 n.natAbs
    cases hfb : formatBase 10 n.natAbs with
    | nil => exact absurd hfb hne
    | cons c rest =>
      have hc : c ∈ formatBase 10 n.natAbs := by rw [hfb]; simp
      obtain ⟨d, hd, he⟩ := formatBase_digits 10 _ (by decide) c hc
      obtain ⟨f1, f2, f3, f4, f5, f6, f7⟩ := dec_digit_facts ⟨d, hd⟩
      simp only at f1 f2 f3 f4 f5 f6 f7
      rw [← he] at f1 f2 f3 f4 f5 f6 f7
      simp only [List.length_cons, parseValue]
      rw [skipWs_cons_of_not_ws _ _ f2]
      simp only [f3, f4, f5, f6, f7, f1, if_false, if_true]
      rw [← hfb, parseNat_formatBase]
      simp only [Option.map_some, skipWs, List.isEmpty_nil, if_true]
      congr 2
      omega

/-! ### strings -/

theorem hex4_digits : ∀ x : Fin 16, ∀ y : Fin 16,
    hexVal4 '0' '0' (digitChar x.val) (digitChar y.val) = some (16 * x.val + y.val) := by
  decide

theorem escapeChar_spec (c : Char) (rest : List Char) :
    unescape1 (escapeChar c ++ rest) = some (c, rest) ∧
      ∃ e es, escapeChar c = e :: es ∧ e ≠ '"' := by
  unfold escapeChar
  by_cases h80 : c.toNat < 0x80
  · rw [if_pos h80]
    by_cases hp : 0x20 ≤ c.toNat ∧ c.toNat ≤ 0x7e ∧ c ≠ '"' ∧ c ≠ '\\'
    · rw [if_pos hp]
      obtain ⟨h1, _, h3, h4⟩ := hp
      refine ⟨?_, c, [], rfl, h3⟩
      have : ¬ c.toNat < 0x20 := by omega
      simp [unescape1, h3, h4, this]
    · rw [if_neg hp]
      cases hs : shortEsc c with
      | some e =>
        simp only
        refine ⟨?_, '\\', [e], rfl, by decide⟩
        unfold shortEsc at hs
        split at hs
        · next h => subst h; cases hs; rfl
        · split at hs
          · next h => subst h; cases hs; rfl
          · split at hs
            · next h => subst h; cases hs; rfl
            · split at hs
              · next h => subst h; cases hs; rfl
              · split at hs
                · next h => subst h; cases hs; rfl
                · split at hs
                  · next h => subst h; cases hs; rfl
                  · split at hs
                    · next h => subst h; cases hs; rfl
                    · cases hs
      | none =>
        simp only
        refine ⟨?_, '\\', _, rfl, by decide⟩
        have hx : c.toNat / 16 < 16 := by omega
        have hy : c.toNat % 16 < 16 := Nat.mod_lt _ (by decide)
        have h4 := hex4_digits ⟨c.toNat / 16, hx⟩ ⟨c.toNat % 16, hy⟩
        simp only at h4
        have hv : 16 * (c.toNat / 16) + c.toNat % 16 = c.toNat := Nat.div_add_mod _ _
        rw [hv] at h4
        simp only [List.cons_append, List.nil_append, unescape1, if_true, h4]
        have n1 : ¬ (0xD800 ≤ c.toNat ∧ c.toNat < 0xDC00) := by omega
        have n2 : ¬ (0xDC00 ≤ c.toNat ∧ c.toNat < 0xE000) := by omega
        simp [n1, n2]
  · rw [if_neg h80]
    have h3 : c ≠ '"' := by
      intro e; apply h80; rw [e]; decide
    have h4 : c ≠ '\\' := by
      intro e; apply h80; rw [e]; decide
    refine ⟨?_, c, [], rfl, h3⟩
    have : ¬ c.toNat < 0x20 := by omega
    simp [unescape1, h3, h4, this]

theorem parseStrBody_enc : ∀ (s : List Char) (fuel : Nat) (tail : List Char),
    (encStringBody s).length < fuel →
    parseStrBody fuel (encStringBody s ++ '"' :: tail) = some (s, tail) := by
  intro s
  induction s with
  | nil =>
    intro fuel tail h
    cases fuel with
    | zero => simp at h
    | succ f => simp [encStringBody, parseStrBody]
  | cons c cs ih =>
    intro fuel tail h
    obtain ⟨hu, e, es, hes, hq⟩ := escapeChar_spec c (encStringBody cs ++ '"' :: tail)
    cases fuel with
    | zero => simp at h
    | succ f =>
      have hlen : (encStringBody cs).length < f := by
        simp only [encStringBody, List.length_append, hes, List.length_cons] at h
        omega
      simp only [encStringBody, List.append_assoc]
      rw [hes] at hu ⊢
      simp only [List.cons_append] at hu ⊢
      simp only [parseStrBody, hq, if_false, hu, ih f tail hlen, Option.map_some]

theorem parseJson_encString (s : List Char) : parseJson (encString s) = some (JV.str s) := by
  unfold parseJson encString
  simp only [List.length_cons, parseValue]
  have hw : isWs '"' = false := by decide
  rw [skipWs_cons_of_not_ws _ _ hw]
  have e1 : ('"' : Char) ≠ 'n' := by decide
  have e2 : ('"' : Char) ≠ 't' := by decide
  have e3 : ('"' : Char) ≠ 'f' := by decide
  simp only [e1, e2, e3, if_false, if_true, parseString]
  have := parseStrBody_enc s ((encStringBody s ++ ['"']).length + 1) [] (by simp; omega)
  rw [this]
  simp [skipWs]

/-! ### indentation -/

theorem drop_len_add {α} : ∀ (pre x : List α) (k : Nat), (pre ++ x).drop (pre.length + k) = x.drop k := by
  intro pre
  induction pre with
  | nil => intro x k; simp
  | cons a as ih =>
    intro x k
    have e : (a :: as).length + k = (as.length + k) + 1 := by simp; omega
    rw [e, List.cons_append, List.drop_succ_cons, ih]

theorem lastN_replicate (pre : List Char) (m l : Nat) (ch : Char) (h : l ≤ m) :
    lastN l (pre ++ List.replicate m ch) = List.replicate l ch := by
  unfold lastN
  have e : (pre ++ List.replicate m ch).length - l = pre.length + (m - l) := by
    rw [List.length_append, List.length_replicate]; omega
  rw [e, drop_len_add, List.drop_replicate]
  congr 1; omega

theorem indentLoop_spec (ch : Char) : ∀ (f : Nat) (pre : List Char) (m n l : Nat), 1 ≤ l → l ≤ m → n ≤ f →
    indentLoop f (pre ++ List.replicate m ch) n l = pre ++ List.replicate (m + n) ch := by
  intro f
  induction f with
  | zero => intro pre m n l _ _ hn; have : n = 0 := by omega
            subst this; simp [indentLoop]
  | succ f ih =>
    intro pre m n l h1 h2 hn
    simp only [indentLoop]
    by_cases h0 : n = 0
    · simp [h0]
    · simp only [h0, if_false]
      generalize hl' : (if n < l then n else l) = l'
      have hl1 : 1 ≤ l' := by rw [← hl']; split <;> omega
      have hl2 : l' ≤ l := by rw [← hl']; split <;> omega
      have hl3 : l' ≤ n := by rw [← hl']; split <;> omega
      rw [lastN_replicate pre m l' ch (by omega), List.append_assoc, List.replicate_append_replicate]
      rw [ih pre (m + l') (n - l') (l' * 2) (by omega) (by omega) (by omega)]
      congr 2; omega

theorem writeIndentInternal_spec (buf : List Char) (n : Nat) (ch : Char) (L : Nat) (hL : 1 ≤ L) :
    writeIndentInternal buf n ch L = buf ++ List.replicate n ch := by
  unfold writeIndentInternal
  by_cases h : n ≤ L
  · simp [h]
  · simp only [h, if_false]
    rw [indentLoop_spec ch (n - L) buf L (n - L) L hL (Nat.le_refl _) (Nat.le_refl _)]
    congr 2; omega

/-- `writeIndent` appends a line feed and exactly `depth` spaces (or tabs), whatever the buffer holds -/
theorem writeIndentBuf_spec (tab : Bool) (buf : List Char) (depth : Nat) :
    writeIndentBuf tab buf depth = buf ++ '\n' :: List.replicate depth (if tab then '\t' else ' ') := by
  unfold writeIndentBuf
  simp only
  by_cases hd : depth > 0
  · simp only [hd, if_true]
    cases tab with
    | true => simp [writeIndentInternal_spec _ _ _ 16 (by decide)]
    | false => simp [writeIndentInternal_spec _ _ _ 32 (by decide)]
  · have : depth = 0 := by omega
    subst this; simp

theorem nl_eq (depth : Nat) : nl depth = '\n' :: List.replicate depth ' ' := by
  have := writeIndentBuf_spec false [] depth
  simpa [nl] using this

/-! ### nested, indented values -/

def nestArr : Nat → JV → JV
  | 0, v => v
  | k + 1, v => JV.arr [nestArr k v]

theorem normalize_nestArr (n : Int) : ∀ k, normalize (nestArr k (JV.int n)) = nestArr k (JV.int n) := by
  intro k
  induction k with
  | zero => simp [nestArr, normalize]
  | succ k ih => simp [nestArr, normalize, normalizeList, ih]

def wsOnly (ws : List Char) : Prop := ∀ c ∈ ws, isWs c = true

theorem skipWs_wsOnly : ∀ (ws rest : List Char), wsOnly ws → skipWs (ws ++ rest) = skipWs rest := by
  intro ws
  induction ws with
  | nil => intro rest _; rfl
  | cons c cs ih =>
    intro rest h
    have hc : isWs c = true := h c (by simp)
    have := ih rest (fun x hx => h x (by simp [hx]))
    simp [skipWs, hc, this]

theorem wsOnly_nlOpt (indent depth : Nat) : wsOnly (if indent ≠ 0 then nl depth else []) := by
  intro c hc
  by_cases h : indent ≠ 0
  · rw [if_pos h, nl_eq] at hc
    simp only [List.mem_cons, List.mem_replicate] at hc
    rcases hc with h1 | h1
    · rw [h1]; decide
    · rw [h1.2]; decide
  · rw [if_neg h] at hc; simp at hc

/-- what may follow a number: not a digit, `.`, `e`, `E` -/
def tailOK (tail : List Char) : Prop :=
  ∀ c, tail.head? = some c → isDigit c = false ∧ c ≠ '.' ∧ c ≠ 'e' ∧ c ≠ 'E'

theorem parseNat_formatBase_tail (k : Nat) (tail : List Char) (ht : tailOK tail) :
    parseNat (formatBase 10 k ++ tail) = some (k, tail) := by
  unfold parseNat
  have hall := formatBase10_all_digits k
  have htw : (formatBase 10 k ++ tail).takeWhile isDigit = formatBase 10 k
      ∧ (formatBase 10 k ++ tail).dropWhile isDigit = tail := by
    have key : ∀ (xs : List Char), (∀ x ∈ xs, isDigit x = true) →
        (xs ++ tail).takeWhile isDigit = xs ∧ (xs ++ tail).dropWhile isDigit = tail := by
      intro xs
      induction xs with
      | nil =>
        intro _
        cases tail with
        | nil => simp
        | cons c cs =>
          have := (ht c rfl).1
          simp [List.takeWhile, List.dropWhile, this]
      | cons x xs ih =>
        intro h
        have hx : isDigit x = true := h x (by simp)
        have := ih (fun y hy => h y (by simp [hy]))
        simp [List.takeWhile, List.dropWhile, hx, this]
    exact key _ hall
  rw [htw.1, htw.2]
  have hne := formatBase_ne_nil 10 k
  have he : (formatBase 10 k).isEmpty = false := by
    cases h : formatBase 10 k with
    | nil => exact absurd h hne
    | cons _ _ => rfl
  have hlead : ¬ ((formatBase 10 k).length > 1 ∧ (formatBase 10 k).head? = some '0') := by
    intro ⟨hl, hh⟩
    by_cases hk : k = 0
    · subst hk; rw [formatBase_zero] at hl; simp at hl
    · exact formatBase_no_leading_zero 10 k (by decide) (by decide) hk hh
  simp only [he, Bool.false_eq_true, if_false, hlead]
  have hp := parse_formatGo 10 (by decide) (by decide) _ k (Nat.lt_log2_self)
  have hp' : parseBaseGo 10 0 (formatBase 10 k) = some k := hp
  cases tail with
  | nil => simp [hp']
  | cons c cs =>
    obtain ⟨_, h2, h3, h4⟩ := ht c rfl
    rw [hp']
    split
    · rename_i heq; cases heq; exact absurd rfl h2
    · rename_i heq; cases heq; exact absurd rfl h3
    · rename_i heq; cases heq; exact absurd rfl h4
    · rfl

theorem parseValue_int_tail (n : Int) (ws tail : List Char) (hws : wsOnly ws) (ht : tailOK tail) (f : Nat) :
    parseValue (f + 1) (ws ++ encInt n ++ tail) = some (JV.int n, tail) := by
  rw [List.append_assoc]
  simp only [parseValue]
  rw [skipWs_wsOnly ws _ hws]
  unfold encInt
  by_cases hn : n < 0
  · simp only [hn, if_true, List.cons_append]
    have hw : isWs '-' = false := by decide
    rw [skipWs_cons_of_not_ws _ _ hw]
    have e1 : ('-' : Char) ≠ 'n' := by decide
    have e2 : ('-' : Char) ≠ 't' := by decide
    have e3 : ('-' : Char) ≠ 'f' := by decide
    have e4 : ('-' : Char) ≠ '"' := by decide
    simp only [e1, e2, e3, e4, if_false, if_true, parseNat_formatBase_tail _ tail ht, Option.map_some]
    congr 2; congr 1; omega
  · simp only [hn, if_false]
    have hne := formatBase_ne_nil 10 n.natAbs
    cases hfb : formatBase 10 n.natAbs with
    | nil => exact absurd hfb hne
    | cons c rest =>
      have hc : c ∈ formatBase 10 n.natAbs := by rw [hfb]; simp
      obtain ⟨d, hd, he⟩ := formatBase_digits 10 _ (by decide) c hc
      obtain ⟨f1, f2, f3, f4, f5, f6, f7⟩ := dec_digit_facts ⟨d, hd⟩
      simp only at f1 f2 f3 f4 f5 f6 f7
      rw [← he] at f1 f2 f3 f4 f5 f6 f7
      simp only [List.cons_append]
      rw [skipWs_cons_of_not_ws _ _ f2]
      simp only [f3, f4, f5, f6, f7, f1, if_false, if_true]
      have : c :: (rest ++ tail) = formatBase 10 n.natAbs ++ tail := by rw [hfb]; rfl
      rw [this, parseNat_formatBase_tail _ tail ht]
      simp only [Option.map_some]
      congr 2; congr 1; omega

/-- first character of an encoded nest of arrays around an integer: `[`, `-` or a digit -/
theorem encode_nest_head (indent n) : ∀ (k depth : Nat), ∃ c rest,
    encode indent depth (nestArr k (JV.int n)) = c :: rest ∧ isWs c = false ∧ c ≠ ']' := by
  intro k depth
  cases k with
  | succ k =>
    have : encode indent depth (nestArr (k + 1) (JV.int n))
        = '[' :: (encodeElems indent (depth + indent) true [nestArr k (JV.int n)]
            ++ (if ![nestArr k (JV.int n)].isEmpty ∧ indent ≠ 0 then nl depth else []) ++ [']']) := by
      simp only [nestArr, encode]
    exact ⟨'[', _, this, by decide, by decide⟩
  | zero =>
    simp only [nestArr, encode, encInt]
    by_cases hn : n < 0
    · exact ⟨'-', formatBase 10 n.natAbs, by rw [if_pos hn], by decide, by decide⟩
    · simp only [hn, if_false]
      have hne := formatBase_ne_nil 10 n.natAbs
      cases hfb : formatBase 10 n.natAbs with
      | nil => exact absurd hfb hne
      | cons c rest =>
        have hc : c ∈ formatBase 10 n.natAbs := by rw [hfb]; simp
        obtain ⟨d, hd, he⟩ := formatBase_digits 10 _ (by decide) c hc
        have f2 := (dec_digit_facts ⟨d, hd⟩).2.1
        have f8 : ∀ d : Fin 10, digitChar d.val ≠ ']' := by decide
        refine ⟨c, rest, rfl, by rw [he]; exact f2, by rw [he]; exact f8 ⟨d, hd⟩⟩

theorem tailOK_nlOpt_close (indent depth : Nat) (tail : List Char) :
    tailOK ((if indent ≠ 0 then nl depth else []) ++ ']' :: tail) := by
  intro c hc
  by_cases h : indent ≠ 0
  · rw [if_pos h, nl_eq] at hc
    simp only [List.cons_append, List.head?_cons] at hc
    cases hc; decide
  · rw [if_neg h] at hc
    simp only [List.nil_append, List.head?_cons] at hc
    cases hc; decide

/-- an integer inside `k` nested arrays, printed with any indent at any depth, followed by anything
    that cannot continue a number, is read back — fuel `2k+1` suffices -/
theorem parseValue_nest (indent : Nat) (n : Int) : ∀ (k depth : Nat) (ws tail : List Char) (f : Nat),
    wsOnly ws → tailOK tail → 2 * k + 1 ≤ f →
    parseValue f (ws ++ encode indent depth (nestArr k (JV.int n)) ++ tail) = some (nestArr k (JV.int n), tail) := by
  intro k
  induction k with
  | zero =>
    intro depth ws tail f hws ht hf
    obtain ⟨g, rfl⟩ : ∃ g, f = g + 1 := ⟨f - 1, by omega⟩
    simpa [nestArr, encode] using parseValue_int_tail n ws tail hws ht g
  | succ k ih =>
    intro depth ws tail f hws ht hf
    obtain ⟨g, rfl⟩ : ∃ g, f = g + 1 + 1 := ⟨f - 2, by omega⟩
    have hinner := ih (depth + indent) (if indent ≠ 0 then nl (depth + indent) else [])
      ((if indent ≠ 0 then nl depth else []) ++ ']' :: tail) g (wsOnly_nlOpt _ _) (tailOK_nlOpt_close _ _ _) (by omega)
    obtain ⟨c, rest, hhead, hcw, hcb⟩ := encode_nest_head indent n k (depth + indent)
    -- shape of the text
    have hshape : encode indent depth (nestArr (k + 1) (JV.int n)) ++ tail
        = '[' :: ((if indent ≠ 0 then nl (depth + indent) else [])
            ++ encode indent (depth + indent) (nestArr k (JV.int n))
            ++ ((if indent ≠ 0 then nl depth else []) ++ ']' :: tail)) := by
      simp [nestArr, encode, encodeElems]
    rw [List.append_assoc, hshape]
    simp only [parseValue]
    rw [skipWs_wsOnly ws _ hws]
    have hw : isWs '[' = false := by decide
    rw [skipWs_cons_of_not_ws _ _ hw]
    have e1 : ('[' : Char) ≠ 'n' := by decide
    have e2 : ('[' : Char) ≠ 't' := by decide
    have e3 : ('[' : Char) ≠ 'f' := by decide
    have e4 : ('[' : Char) ≠ '"' := by decide
    have e5 : ('[' : Char) ≠ '-' := by decide
    have e6 : isDigit '[' = false := by decide
    simp only [e1, e2, e3, e4, e5, e6, if_false, if_true, Bool.false_eq_true]
    -- the first element does not start with `]`
    have hsk : skipWs ((if indent ≠ 0 then nl (depth + indent) else [])
            ++ encode indent (depth + indent) (nestArr k (JV.int n))
            ++ ((if indent ≠ 0 then nl depth else []) ++ ']' :: tail))
        = c :: (rest ++ ((if indent ≠ 0 then nl depth else []) ++ ']' :: tail)) := by
      rw [List.append_assoc, skipWs_wsOnly _ _ (wsOnly_nlOpt _ _), hhead, List.cons_append,
        skipWs_cons_of_not_ws _ _ hcw]
    rw [hsk]
    split
    · next r heq =>
      injection heq with h1 _
      exact absurd h1 hcb
    · simp only [parseElems, hinner]
      rw [skipWs_wsOnly _ _ (wsOnly_nlOpt _ _)]
      have hw2 : isWs ']' = false := by decide
      rw [skipWs_cons_of_not_ws _ _ hw2]
      simp [nestArr]

theorem encode_nest_length (indent n) : ∀ (k depth : Nat),
    2 * k + 1 ≤ (encode indent depth (nestArr k (JV.int n))).length := by
  intro k
  induction k with
  | zero =>
    intro depth
    obtain ⟨c, rest, h, _, _⟩ := encode_nest_head indent n 0 depth
    rw [h]; simp
  | succ k ih =>
    intro depth
    have := ih (depth + indent)
    simp only [nestArr, encode, encodeElems, List.length_cons, List.length_append]
    omega

theorem parseJson_nest (indent : Nat) (n : Int) (k : Nat) :
    parseJson (encodeJson indent (nestArr k (JV.int n))) = some (nestArr k (JV.int n)) := by
  unfold parseJson encodeJson
  rw [normalize_nestArr]
  have hl := encode_nest_length indent n k 0
  have := parseValue_nest indent n k 0 [] [] ((encode indent 0 (nestArr k (JV.int n))).length + 1)
    (by intro c hc; simp at hc) (by intro c hc; simp at hc) (by omega)
  simp only [List.nil_append, List.append_nil] at this
  rw [this]
  simp [skipWs]

end Proofs.C10Json
