import FqModel.C10Json
import Proofs.C10Num
/-! C10 — lemmas about the JSON encoder/parser models (FqModel/C10Json.lean). Core Lean only. -/
namespace Proofs.C10Json
open FqModel.Dump FqModel.C10Json Proofs.C10Num

/-! ### integers -/

theorem dec_digit_facts : ∀ d : Fin 10,
    isDigit (digitChar d.val) = true ∧ isWs (digitChar d.val) = false
      ∧ digitChar d.val ≠ 'n' ∧ digitChar d.val ≠ 't' ∧ digitChar d.val ≠ 'f'
      ∧ digitChar d.val ≠ '"' ∧ digitChar d.val ≠ '-' := by
  decide

theorem formatBase10_all_digits (k : Nat) : ∀ c ∈ formatBase 10 k, isDigit c = true := by
  intro c hc
  obtain ⟨d, hd, he⟩ := formatBase_digits 10 k (by decide) c hc
  rw [he]; exact (dec_digit_facts ⟨d, hd⟩).1

theorem takeWhile_all {α} (p : α → Bool) : ∀ xs : List α, (∀ x ∈ xs, p x = true) →
    xs.takeWhile p = xs ∧ xs.dropWhile p = [] := by
  intro xs
  induction xs with
  | nil => intro _; simp
  | cons x xs ih =>
    intro h
    have hx : p x = true := h x (by simp)
    have := ih (fun y hy => h y (by simp [hy]))
    simp [List.takeWhile, List.dropWhile, hx, this]

theorem parseNat_formatBase (k : Nat) : parseNat (formatBase 10 k) = some (k, []) := by
  unfold parseNat
  obtain ⟨h1, h2⟩ := takeWhile_all isDigit _ (formatBase10_all_digits k)
  rw [h1, h2]
  have hne := formatBase_ne_nil 10 k
  have he : (formatBase 10 k).isEmpty = false := by
    cases h : formatBase 10 k with
    | nil => exact absurd h hne
    | cons _ _ => rfl
  have hlead : ¬ ((formatBase 10 k).length > 1 ∧ (formatBase 10 k).head? = some '0') := by
    intro ⟨hl, hh⟩
    by_cases hk : k = 0
    · subst hk; rw [formatBase_zero] at hl; simp at hl
    · exact formatBase_no_leading_zero 10 k (by decide) (by decide) hk hh
  simp only [he, Bool.false_eq_true, if_false, hlead]
  have := parse_formatGo 10 (by decide) (by decide) _ k (Nat.lt_log2_self)
  unfold formatBase
  rw [this]; rfl

theorem skipWs_cons_of_not_ws (c : Char) (cs : List Char) (h : isWs c = false) :
    skipWs (c :: cs) = c :: cs := by
  simp [skipWs, h]

theorem parseJson_encInt (n : Int) : parseJson (encInt n) = some (JV.int n) := by
  unfold parseJson encInt
  by_cases hn : n < 0
  · simp only [hn, if_true, List.length_cons, parseValue]
    have hw : isWs '-' = false := by decide
    rw [skipWs_cons_of_not_ws _ _ hw]
    have e1 : ('-' : Char) ≠ 'n' := by decide
    have e2 : ('-' : Char) ≠ 't' := by decide
    have e3 : ('-' : Char) ≠ 'f' := by decide
    have e4 : ('-' : Char) ≠ '"' := by decide
    simp only [e1, e2, e3, e4, if_false, if_true, parseNat_formatBase, Option.map_some, skipWs,
      List.isEmpty_nil]
    congr 2
    omega
  · simp only [hn, if_false]
    have hne := formatBase_ne_nil 10 n.natAbs
    cases hfb : formatBase 10 n.natAbs with
    | nil => exact absurd hfb hne
    | cons c rest =>
      have hc : c ∈ formatBase 10 n.natAbs := by rw [hfb]; simp
      obtain ⟨d, hd, he⟩ := formatBase_digits 10 _ (by decide) c hc
      obtain ⟨f1, f2, f3, f4, f5, f6, f7⟩ := dec_digit_facts ⟨d, hd⟩
      simp only at f1 f2 f3 f4 f5 f6 f7
      rw [← he] at f1 f2 f3 f4 f5 f6 f7
      simp only [List.length_cons, parseValue]
      rw [skipWs_cons_of_not_ws _ _ f2]
      simp only [f3, f4, f5, f6, f7, f1, if_false, if_true]
      rw [← hfb, parseNat_formatBase]
      simp only [Option.map_some, skipWs, List.isEmpty_nil, if_true]
      congr 2
      omega

/-! ### strings -/

theorem hex4_digits : ∀ x : Fin 16, ∀ y : Fin 16,
    hexVal4 '0' '0' (digitChar x.val) (digitChar y.val) = some (16 * x.val + y.val) := by
  decide

theorem escapeChar_spec (c : Char) (rest : List Char) :
    unescape1 (escapeChar c ++ rest) = some (c, rest) ∧
      ∃ e es, escapeChar c = e :: es ∧ e ≠ '"' := by
  unfold escapeChar
  by_cases h80 : c.toNat < 0x80
  · rw [if_pos h80]
    by_cases hp : 0x20 ≤ c.toNat ∧ c.toNat ≤ 0x7e ∧ c ≠ '"' ∧ c ≠ '\\'
    · rw [if_pos hp]
      obtain ⟨h1, _, h3, h4⟩ := hp
      refine ⟨?_, c, [], rfl, h3⟩
      have : ¬ c.toNat < 0x20 := by omega
      simp [unescape1, h3, h4, this]
    · rw [if_neg hp]
      cases hs : shortEsc c with
      | some e =>
        simp only
        refine ⟨?_, '\\', [e], rfl, by decide⟩
        unfold shortEsc at hs
        split at hs
        · next h => subst h; cases hs; rfl
        · split at hs
          · next h => subst h; cases hs; rfl
          · split at hs
            · next h => subst h; cases hs; rfl
            · split at hs
              · next h => subst h; cases hs; rfl
              · split at hs
                · next h => subst h; cases hs; rfl
                · split at hs
                  · next h => subst h; cases hs; rfl
                  · split at hs
                    · next h => subst h; cases hs; rfl
                    · cases hs
      | none =>
        simp only
        refine ⟨?_, '\\', _, rfl, by decide⟩
        have hx : c.toNat / 16 < 16 := by omega
        have hy : c.toNat % 16 < 16 := Nat.mod_lt _ (by decide)
        have h4 := hex4_digits ⟨c.toNat / 16, hx⟩ ⟨c.toNat % 16, hy⟩
        simp only at h4
        have hv : 16 * (c.toNat / 16) + c.toNat % 16 = c.toNat := Nat.div_add_mod _ _
        rw [hv] at h4
        simp only [List.cons_append, List.nil_append, unescape1, if_true, h4]
        have n1 : ¬ (0xD800 ≤ c.toNat ∧ c.toNat < 0xDC00) := by omega
        have n2 : ¬ (0xDC00 ≤ c.toNat ∧ c.toNat < 0xE000) := by omega
        simp [n1, n2]
  · rw [if_neg h80]
    have h3 : c ≠ '"' := by
      intro e; apply h80; rw [e]; decide
    have h4 : c ≠ '\\' := by
      intro e; apply h80; rw [e]; decide
    refine ⟨?_, c, [], rfl, h3⟩
    have : ¬ c.toNat < 0x20 := by omega
    simp [unescape1, h3, h4, this]

theorem parseStrBody_enc : ∀ (s : List Char) (fuel : Nat) (tail : List Char),
    (encStringBody s).length < fuel →
    parseStrBody fuel (encStringBody s ++ '"' :: tail) = some (s, tail) := by
  intro s
  induction s with
  | nil =>
    intro fuel tail h
    cases fuel with
    | zero => simp at h
    | succ f => simp [encStringBody, parseStrBody]
  | cons c cs ih =>
    intro fuel tail h
    obtain ⟨hu, e, es, hes, hq⟩ := escapeChar_spec c (encStringBody cs ++ '"' :: tail)
    cases fuel with
    | zero => simp at h
    | succ f =>
      have hlen : (encStringBody cs).length < f := by
        simp only [encStringBody, List.length_append, hes, List.length_cons] at h
        omega
      simp only [encStringBody, List.append_assoc]
      rw [hes] at hu ⊢
      simp only [List.cons_append] at hu ⊢
      simp only [parseStrBody, hq, if_false, hu, ih f tail hlen, Option.map_some]

theorem parseJson_encString (s : List Char) : parseJson (encString s) = some (JV.str s) := by
  unfold parseJson encString
  simp only [List.length_cons, parseValue]
  have hw : isWs '"' = false := by decide
  rw [skipWs_cons_of_not_ws _ _ hw]
  have e1 : ('"' : Char) ≠ 'n' := by decide
  have e2 : ('"' : Char) ≠ 't' := by decide
  have e3 : ('"' : Char) ≠ 'f' := by decide
  simp only [e1, e2, e3, if_false, if_true, parseString]
  have := parseStrBody_enc s ((encStringBody s ++ ['"']).length + 1) [] (by simp; omega)
  rw [this]
  simp [skipWs]

end Proofs.C10Json
