import FqModel.Dump
/-! C10 — lemmas about `formatBase`/`parseBase`, `padFormat`, `stringByteBits`. Core Lean only. -/
namespace Proofs.C10Num
open FqModel.Dump

theorem digit_facts : ∀ d : Fin 36,
    digitVal (digitChar d.val) = some d.val ∧ digitChar d.val ≠ '.' ∧ digitChar d.val ≠ '-'
      ∧ (d.val ≠ 0 → digitChar d.val ≠ '0') := by
  decide

theorem digitVal_digitChar (d : Nat) (h : d < 36) : digitVal (digitChar d) = some d :=
  (digit_facts ⟨d, h⟩).1

theorem formatBaseGo_acc (b : Nat) : ∀ f n acc, formatBaseGo b f n acc = formatBaseGo b f n [] ++ acc := by
  intro f
  induction f with
  | zero => intro n acc; simp [formatBaseGo]
  | succ f ih =>
    intro n acc
    simp only [formatBaseGo]
    by_cases h : n / b = 0
    · simp [h]
    · simp only [h, if_false]
      rw [ih (n / b) (digitChar (n % b) :: acc), ih (n / b) [digitChar (n % b)]]
      simp

theorem formatBaseGo_succ (b f n : Nat) :
    formatBaseGo b (f + 1) n [] =
      if n / b = 0 then [digitChar (n % b)] else formatBaseGo b f (n / b) [] ++ [digitChar (n % b)] := by
  simp only [formatBaseGo]
  by_cases h : n / b = 0
  · simp [h]
  · simp only [h, if_false]; exact formatBaseGo_acc b f (n / b) _

theorem parseBaseGo_append (b : Nat) : ∀ xs a ys,
    parseBaseGo b a (xs ++ ys) = (parseBaseGo b a xs).bind fun v => parseBaseGo b v ys := by
  intro xs
  induction xs with
  | nil => intro a ys; simp [parseBaseGo]
  | cons c cs ih =>
    intro a ys
    simp only [List.cons_append, parseBaseGo]
    cases digitVal c with
    | none => simp
    | some d =>
      by_cases hd : d < b
      · simp [hd, ih]
      · simp [hd]

theorem div_lt_pow (b n f : Nat) (hb : 2 ≤ b) (h : n < 2 ^ (f + 1)) : n / b < 2 ^ f := by
  have h1 : n / b ≤ n / 2 := Nat.div_le_div_left hb (by decide)
  have h2 : n / 2 < 2 ^ f := by
    rw [Nat.pow_succ] at h
    omega
  omega

/-- the digits read back to the number -/
theorem parse_formatGo (b : Nat) (hb : 2 ≤ b) (hb36 : b ≤ 36) :
    ∀ f n, n < 2 ^ f → parseBaseGo b 0 (formatBaseGo b f n []) = some n := by
  intro f
  induction f with
  | zero => intro n h; have : n = 0 := by simpa using h
            subst this; simp [formatBaseGo, parseBaseGo]
  | succ f ih =>
    intro n h
    rw [formatBaseGo_succ]
    have hmod : n % b < b := Nat.mod_lt _ (by omega)
    have hdv := digitVal_digitChar (n % b) (by omega)
    by_cases hz : n / b = 0
    · simp only [hz, if_true, parseBaseGo, hdv, hmod]
      have : n < b := by
        rcases Nat.lt_or_ge n b with h' | h'
        · exact h'
        · have := Nat.div_pos h' (by omega); omega
      simp [Nat.mod_eq_of_lt this]
    · simp only [hz, if_false]
      rw [parseBaseGo_append, ih (n / b) (div_lt_pow b n f hb h)]
      simp only [Option.bind_some, parseBaseGo, hdv, hmod, if_true]
      congr 1
      have := Nat.div_add_mod n b
      rw [Nat.mul_comm]; omega

theorem formatGo_ne_nil (b f n : Nat) : formatBaseGo b (f + 1) n [] ≠ [] := by
  rw [formatBaseGo_succ]
  split <;> simp

theorem formatBase_ne_nil (b n : Nat) : formatBase b n ≠ [] := formatGo_ne_nil b _ n

theorem parseBase_formatBase (b n : Nat) (hb : 2 ≤ b) (hb36 : b ≤ 36) :
    parseBase b (formatBase b n) = some n := by
  unfold parseBase
  have hne := formatBase_ne_nil b n
  have : (formatBase b n).isEmpty = false := by
    cases h : formatBase b n with
    | nil => exact absurd h hne
    | cons _ _ => rfl
  rw [this]
  exact parse_formatGo b hb hb36 _ n Nat.lt_log2_self

/-- every character is a digit below the base -/
theorem formatGo_digits (b : Nat) (hb : 2 ≤ b) :
    ∀ f n, ∀ c ∈ formatBaseGo b f n [], ∃ d, d < b ∧ c = digitChar d := by
  intro f
  induction f with
  | zero => intro n c hc; simp [formatBaseGo] at hc
  | succ f ih =>
    intro n c hc
    rw [formatBaseGo_succ] at hc
    have hmod : n % b < b := Nat.mod_lt _ (by omega)
    by_cases hz : n / b = 0
    · simp only [hz, if_true, List.mem_singleton] at hc
      exact ⟨n % b, hmod, hc⟩
    · simp only [hz, if_false, List.mem_append, List.mem_singleton] at hc
      rcases hc with hc | hc
      · exact ih _ _ hc
      · exact ⟨n % b, hmod, hc⟩

theorem formatBase_digits (b n : Nat) (hb : 2 ≤ b) :
    ∀ c ∈ formatBase b n, ∃ d, d < b ∧ c = digitChar d := formatGo_digits b hb _ n

/-- no leading zero -/
theorem formatGo_head (b : Nat) (hb : 2 ≤ b) (hb36 : b ≤ 36) :
    ∀ f n, n ≠ 0 → n < 2 ^ f → (formatBaseGo b f n []).head? ≠ some '0' ∧ formatBaseGo b f n [] ≠ [] := by
  intro f
  induction f with
  | zero => intro n h0 h; simp at h; exact absurd h h0
  | succ f ih =>
    intro n h0 h
    rw [formatBaseGo_succ]
    have hmod : n % b < b := Nat.mod_lt _ (by omega)
    by_cases hz : n / b = 0
    · simp only [hz, if_true, List.head?_cons]
      have hn : n < b := by
        rcases Nat.lt_or_ge n b with h' | h'
        · exact h'
        · have := Nat.div_pos h' (by omega); omega
      rw [Nat.mod_eq_of_lt hn]
      refine ⟨?_, by simp⟩
      intro hc
      have := (digit_facts ⟨n, by omega⟩).2.2.2 h0
      exact this (Option.some.inj hc)
    · simp only [hz, if_false]
      obtain ⟨h1, h2⟩ := ih (n / b) hz (div_lt_pow b n f hb h)
      refine ⟨?_, by simp⟩
      cases hx : formatBaseGo b f (n / b) [] with
      | nil => exact absurd hx h2
      | cons x xs => rw [hx] at h1; simpa using h1

theorem formatBase_no_leading_zero (b n : Nat) (hb : 2 ≤ b) (hb36 : b ≤ 36) (hn : n ≠ 0) :
    (formatBase b n).head? ≠ some '0' :=
  (formatGo_head b hb hb36 _ n hn Nat.lt_log2_self).1

theorem formatBase_zero (b : Nat) : formatBase b 0 = ['0'] := by
  simp [formatBase, formatBaseGo, digitChar]

/-! ### padding, prefixes, byte.bit notation -/

theorem parseBaseGo_zeros (b : Nat) (hb : 2 ≤ b) (k : Nat) (cs : List Char) :
    parseBaseGo b 0 (List.replicate k '0' ++ cs) = parseBaseGo b 0 cs := by
  induction k with
  | zero => simp
  | succ k ih =>
    have h0 : digitVal '0' = some 0 := by decide
    simp only [List.replicate_succ, List.cons_append, parseBaseGo, h0]
    have : 0 < b := by omega
    simp [this, ih]

theorem take_prefix {α} (p r : List α) : (p ++ r).take p.length = p := by simp
theorem drop_prefix {α} (p r : List α) : (p ++ r).drop p.length = r := by simp

/-- a padded, prefixed address reads back to the number -/
theorem parseAddr_padFormat (b n width : Nat) (hb : 2 ≤ b) (hb36 : b ≤ 36) :
    parseAddr b (padFormat n b true width) = some n := by
  unfold parseAddr padFormat
  simp only [if_true, List.append_assoc, take_prefix, drop_prefix, ne_eq, not_true_eq_false, if_false]
  unfold parseBase
  have hne := formatBase_ne_nil b n
  have he : (List.replicate (width - (formatBase b n).length - (basePrefix b).length) '0' ++ formatBase b n).isEmpty = false := by
    cases h : formatBase b n with
    | nil => exact absurd h hne
    | cons _ _ => simp
  rw [he]
  simp only [Bool.false_eq_true, if_false]
  rw [parseBaseGo_zeros b hb]
  exact parse_formatGo b hb hb36 _ n Nat.lt_log2_self

theorem splitAt1_none (sep : Char) : ∀ xs : List Char, sep ∉ xs → splitAt1 sep xs = (xs, none) := by
  intro xs
  induction xs with
  | nil => intro _; rfl
  | cons c cs ih =>
    intro h
    have hc : c ≠ sep := fun e => h (by simp [e])
    have hcs : sep ∉ cs := fun e => h (by simp [e])
    simp [splitAt1, hc, ih hcs]

theorem splitAt1_some (sep : Char) : ∀ xs ys : List Char, sep ∉ xs →
    splitAt1 sep (xs ++ sep :: ys) = (xs, some ys) := by
  intro xs
  induction xs with
  | nil => intro ys _; simp [splitAt1]
  | cons c cs ih =>
    intro ys h
    have hc : c ≠ sep := fun e => h (by simp [e])
    have hcs : sep ∉ cs := fun e => h (by simp [e])
    simp [splitAt1, hc, ih ys hcs]

theorem formatBase_no_dot (b n : Nat) (hb : 2 ≤ b) (hb36 : b ≤ 36) : '.' ∉ formatBase b n := by
  intro h
  obtain ⟨d, hd, he⟩ := formatBase_digits b n hb _ h
  exact (digit_facts ⟨d, by omega⟩).2.1 he.symm

theorem formatBase_no_dash (b n : Nat) (hb : 2 ≤ b) (hb36 : b ≤ 36) : '-' ∉ formatBase b n := by
  intro h
  obtain ⟨d, hd, he⟩ := formatBase_digits b n hb _ h
  exact (digit_facts ⟨d, by omega⟩).2.2.1 he.symm

theorem parseByteBits_string (b n : Nat) (hb : 2 ≤ b) (hb36 : b ≤ 36) :
    parseByteBits b (stringByteBits b n) = some n := by
  have hdm := Nat.div_add_mod n 8
  by_cases h : n % 8 ≠ 0
  · have e : stringByteBits b n = basePrefix b ++ (formatBase b (n / 8) ++ '.' :: formatBase b (n % 8)) := by
      unfold stringByteBits; rw [if_pos h]; simp
    unfold parseByteBits
    rw [e]
    simp only [take_prefix, drop_prefix, ne_eq, not_true_eq_false, if_false]
    rw [splitAt1_some '.' _ _ (formatBase_no_dot b _ hb hb36)]
    simp only [parseBase_formatBase b _ hb hb36]
    have h8 : n % 8 < 8 := Nat.mod_lt _ (by decide)
    have hn : ¬ n % 8 = 0 := h
    simp only [h8, hn, not_false_eq_true, and_self, if_true]
    congr 1
    omega
  · have e : stringByteBits b n = basePrefix b ++ formatBase b (n / 8) := by
      unfold stringByteBits; rw [if_neg h]
    unfold parseByteBits
    rw [e]
    simp only [take_prefix, drop_prefix, ne_eq, not_true_eq_false, if_false]
    rw [splitAt1_none '.' _ (formatBase_no_dot b _ hb hb36)]
    simp only [parseBase_formatBase b _ hb hb36, Option.map_some]
    congr 1
    have h0 : n % 8 = 0 := by simpa using h
    omega

theorem basePrefix_no_dash (b : Nat) : '-' ∉ basePrefix b := by
  unfold basePrefix
  split
  · decide
  · split
    · decide
    · split <;> decide

theorem stringByteBits_no_dash (b n : Nat) (hb : 2 ≤ b) (hb36 : b ≤ 36) : '-' ∉ stringByteBits b n := by
  unfold stringByteBits
  have h1 := basePrefix_no_dash b
  have h2 := formatBase_no_dash b (n / 8) hb hb36
  have h3 := formatBase_no_dash b (n % 8) hb hb36
  split <;> simp [h1, h2, h3]

theorem parseRange_string (b s n : Nat) (hb : 2 ≤ b) (hb36 : b ≤ 36) :
    parseRangeByteBits b (rangeByteBits b s n) = some (s, s + n) := by
  unfold parseRangeByteBits rangeByteBits
  have : stringByteBits b s ++ ['-'] ++ stringByteBits b (s + n)
      = stringByteBits b s ++ '-' :: stringByteBits b (s + n) := by simp
  rw [this, splitAt1_some '-' _ _ (stringByteBits_no_dash b s hb hb36)]
  simp [parseByteBits_string b _ hb hb36]

/-! ### digit count: the integer specification of `mathx.DigitsInBase` -/

theorem formatGo_fuel (b : Nat) (hb : 2 ≤ b) : ∀ f f' m, m < 2 ^ f → m < 2 ^ f' → 1 ≤ f → 1 ≤ f' →
    formatBaseGo b f m [] = formatBaseGo b f' m [] := by
  intro f
  induction f with
  | zero => intro f' m _ _ h; omega
  | succ k ih =>
    intro f' m h1 h2 _ h4
    cases f' with
    | zero => omega
    | succ k' =>
      rw [formatBaseGo_succ, formatBaseGo_succ]
      by_cases hz : m / b = 0
      · simp [hz]
      · simp only [hz, if_false]
        have d1 := div_lt_pow b m k hb h1
        have d2 := div_lt_pow b m k' hb h2
        have p1 : 1 ≤ k := Nat.pos_of_ne_zero (fun h0 => by
          subst h0; rw [Nat.pow_zero] at d1; exact hz (Nat.lt_one_iff.mp d1))
        have p2 : 1 ≤ k' := Nat.pos_of_ne_zero (fun h0 => by
          subst h0; rw [Nat.pow_zero] at d2; exact hz (Nat.lt_one_iff.mp d2))
        rw [ih k' (m / b) d1 d2 p1 p2]

/-- the number of digits satisfies the schoolbook recursion -/
theorem formatBase_length_rec (b n : Nat) (hb : 2 ≤ b) :
    (formatBase b n).length = if n / b = 0 then 1 else (formatBase b (n / b)).length + 1 := by
  unfold formatBase
  rw [formatBaseGo_succ]
  by_cases hz : n / b = 0
  · simp [hz]
  · simp only [hz, if_false, List.length_append, List.length_singleton]
    have hn : n < 2 ^ (n.log2 + 1) := Nat.lt_log2_self
    have d1 := div_lt_pow b n n.log2 hb hn
    have p1 : 1 ≤ n.log2 := Nat.pos_of_ne_zero (fun h0 => by
      rw [h0, Nat.pow_zero] at d1; exact hz (Nat.lt_one_iff.mp d1))
    rw [formatGo_fuel b hb n.log2 ((n / b).log2 + 1) (n / b) d1 Nat.lt_log2_self p1 (by omega)]

/-- more digits are never needed for a smaller number -/
theorem formatBase_length_mono (b : Nat) (hb : 2 ≤ b) : ∀ m n, n ≤ m →
    (formatBase b n).length ≤ (formatBase b m).length := by
  intro m
  induction m using Nat.strongRecOn with
  | _ m ih =>
    intro n hnm
    rw [formatBase_length_rec b n hb, formatBase_length_rec b m hb]
    have hdiv : n / b ≤ m / b := Nat.div_le_div_right hnm
    by_cases hm : m / b = 0
    · have : n / b = 0 := Nat.eq_zero_of_le_zero (hm ▸ hdiv)
      simp [hm, this]
    · by_cases hn : n / b = 0
      · simp [hm, hn]
      · simp only [hm, hn, if_false]
        have hlt : m / b < m := Nat.div_lt_self (by
          rcases Nat.eq_zero_or_pos m with h0 | h0
          · subst h0; simp at hm
          · exact h0) (by omega)
        have := ih (m / b) hlt (n / b) hdiv
        exact Nat.succ_le_succ this

theorem digitsNeeded_mono (b n m : Nat) (hb : 2 ≤ b) (h : n ≤ m) : digitsNeeded b n ≤ digitsNeeded b m := by
  unfold digitsNeeded
  have := formatBase_length_mono b hb m n h
  omega

/-- `b^k` has `k+1` digits and `b^(k+1) - 1` has `k+1` digits -/
theorem formatBase_length_pow (b : Nat) (hb : 2 ≤ b) : ∀ k,
    (formatBase b (b ^ k)).length = k + 1 ∧ (formatBase b (b ^ (k + 1) - 1)).length = k + 1 := by
  intro k
  have hb0 : 0 < b := by omega
  induction k with
  | zero =>
    constructor
    · rw [formatBase_length_rec b _ hb]
      have : b ^ 0 / b = 0 := by rw [Nat.pow_zero]; exact Nat.div_eq_of_lt (by omega)
      rw [if_pos this]
    · rw [formatBase_length_rec b _ hb]
      have : (b ^ (0 + 1) - 1) / b = 0 := by
        rw [Nat.zero_add, Nat.pow_one]; exact Nat.div_eq_of_lt (by omega)
      rw [if_pos this]
  | succ k ih =>
    have hpos : 0 < b ^ (k + 1) := Nat.pow_pos hb0
    constructor
    · rw [formatBase_length_rec b _ hb]
      have e : b ^ (k + 1) / b = b ^ k := by
        rw [Nat.pow_succ]; exact Nat.mul_div_cancel _ hb0
      have hk : 0 < b ^ k := Nat.pow_pos hb0
      rw [e]
      have : ¬ b ^ k = 0 := by omega
      rw [if_neg this, ih.1]
    · rw [formatBase_length_rec b _ hb]
      have e : (b ^ (k + 1 + 1) - 1) / b = b ^ (k + 1) - 1 := by
        have h1 : b ^ (k + 1 + 1) - 1 = (b - 1) + b * (b ^ (k + 1) - 1) := by
          rw [Nat.pow_succ, Nat.mul_sub, Nat.mul_one, Nat.mul_comm b (b ^ (k + 1))]
          have : b ≤ b ^ (k + 1) * b := by
            calc b = 1 * b := by simp
              _ ≤ b ^ (k + 1) * b := Nat.mul_le_mul_right b hpos
          omega
        rw [h1, Nat.add_mul_div_left _ _ hb0, Nat.div_eq_of_lt (by omega)]
        simp
      rw [e]
      have h2 : 2 ≤ b ^ (k + 1) := by
        calc 2 ≤ b := hb
          _ = b ^ 1 := by simp
          _ ≤ b ^ (k + 1) := Nat.pow_le_pow_right hb0 (by omega)
      have : ¬ b ^ (k + 1) - 1 = 0 := by omega
      rw [if_neg this, ih.2]

end Proofs.C10Num
