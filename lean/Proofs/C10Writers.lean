import FqModel.Dump
/-! C10 — lemmas about the hexpair/ascii writer models (FqModel/Dump.lean). Core Lean only. -/
namespace Proofs.C10Writers
open FqModel.Dump

theorem succ_mod_zero_iff (w k : Nat) (hw : 0 < w) : (k + 1) % w = 0 ↔ k % w = w - 1 := by
  have h1 := Nat.div_add_mod k w
  have hlt := Nat.mod_lt k hw
  constructor
  · intro h
    by_cases hc : k % w + 1 = w
    · omega
    · have : (k + 1) % w = k % w + 1 := by
        rw [Nat.add_mod]
        by_cases h1w : w = 1
        · subst h1w; omega
        · have : 1 % w = 1 := Nat.mod_eq_of_lt (by omega)
          rw [this]; exact Nat.mod_eq_of_lt (by omega)
      omega
  · intro h
    have : k + 1 = w * (k / w + 1) := by
      rw [Nat.mul_add, Nat.mul_one]; omega
    rw [this]; exact Nat.mul_mod_right _ _

/-! ### hexpair -/

theorem hexLoop_eq (w : Nat) (p : List UInt8) (hp : p ≠ []) :
    ∀ off buf, hexLoop w off buf p = buf ++ hexBody w off p := by
  induction p with
  | nil => exact absurd rfl hp
  | cons b rest ih =>
    intro off buf
    cases rest with
    | nil => simp [hexLoop, hexBody]
    | cons b' rest' =>
      have ih' := ih (by simp)
      simp only [hexLoop, hexBody, sepAt]
      split
      · rw [ih']; simp
      · rw [ih']; simp

theorem hexBody_append (w : Nat) (xs ys : List UInt8) (hx : xs ≠ []) (hy : ys ≠ []) :
    ∀ k, hexBody w k (xs ++ ys)
      = hexBody w k xs ++ [sepAt w (k + xs.length - 1)] ++ hexBody w (k + xs.length) ys := by
  induction xs with
  | nil => exact absurd rfl hx
  | cons x rest ih =>
    intro k
    cases rest with
    | nil =>
      cases ys with
      | nil => exact absurd rfl hy
      | cons y ys' => simp [hexBody]
    | cons x' rest' =>
      have ih' := ih (by simp) (k + 1)
      simp only [List.cons_append, hexBody] at ih' ⊢
      rw [ih']
      simp only [List.length_cons, List.append_assoc]
      have e1 : k + 1 + (rest'.length + 1) - 1 = k + (rest'.length + 1 + 1) - 1 := by omega
      have e2 : k + 1 + (rest'.length + 1) = k + (rest'.length + 1 + 1) := by omega
      rw [e1, e2]

/-- a sequence of Write calls once the padding has been written (`start ≤ k`) -/
theorem hexRun_data (w start : Nat) (hw : 0 < w) (chunks : List (List UInt8)) :
    ∀ k, start ≤ k → hexRun w start k chunks
      = (if start < k ∧ chunks.flatten ≠ [] then [sepAt w (k - 1)] else []) ++ hexBody w k chunks.flatten := by
  induction chunks with
  | nil => intro k _; simp [hexRun, hexBody]
  | cons p ps ih =>
    intro k hk
    have hmax : max k start = k := Nat.max_eq_left hk
    have hpad : hexPadGo w (start - k) k = [] := by
      have : start - k = 0 := by omega
      rw [this]; rfl
    cases p with
    | nil =>
      simp only [hexRun, hexWrite, hmax, hpad, hexLoop, List.length_nil, Nat.add_zero, List.append_nil,
        List.flatten_cons, List.nil_append]
      exact ih k hk
    | cons b p' =>
      have hne : (b :: p') ≠ [] := by simp
      simp only [hexRun, hexWrite, hmax, hpad, List.nil_append, List.flatten_cons]
      rw [hexLoop_eq w _ hne, ih (k + (b :: p').length) (by omega)]
      have hsep : (if k % w = 0 then '\n' else ' ') = sepAt w (k - 1) ∨ ¬ start < k := by
        by_cases hlt : start < k
        · left
          have hk1 : k = (k - 1) + 1 := by omega
          unfold sepAt
          by_cases hz : k % w = 0
          · have := (succ_mod_zero_iff w (k - 1) hw).1 (by rw [← hk1]; exact hz)
            simp [hz, this]
          · have : ¬ (k - 1) % w = w - 1 := fun h => hz (by
              have := (succ_mod_zero_iff w (k - 1) hw).2 h
              rwa [← hk1] at this)
            simp [hz, this]
        · right; exact hlt
      by_cases hps : ps.flatten = []
      · simp only [hps, List.append_nil, hexBody]
        by_cases hlt : start < k
        · rcases hsep with h | h
          · simp [hlt, h]
          · exact absurd hlt h
        · simp [hlt]
      · rw [hexBody_append w (b :: p') ps.flatten hne hps k]
        have hlt2 : start < k + (p'.length + 1) := by omega
        by_cases hlt : start < k
        · rcases hsep with h | h
          · simp [hlt, hlt2, hps, h]
          · exact absurd hlt h
        · simp [hlt, hlt2, hps]

/-- before and during the padding (`off ≤ start`) the first Write call pads, then data follows -/
theorem hexRun_pad (w start : Nat) (hw : 0 < w) (p : List UInt8) (ps : List (List UInt8)) (off : Nat)
    (ho : off ≤ start) :
    hexRun w start off (p :: ps) = hexPadGo w (start - off) off ++ hexBody w start (p :: ps).flatten := by
  have hmax : max off start = start := Nat.max_eq_right ho
  have h0 := hexRun_data w start hw (p :: ps) start (Nat.le_refl _)
  simp only [Nat.lt_irrefl, false_and, if_false, List.nil_append] at h0
  rw [← h0]
  simp only [hexRun, hexWrite, hmax, Nat.lt_irrefl, if_false, Nat.sub_self, hexPadGo, List.nil_append,
    Nat.max_self, List.append_assoc]

/-! ### reading the hex text back -/

theorem rowcol_step (w k : Nat) (hw : 0 < w) :
    (k % w = w - 1 → (k + 1) / w = k / w + 1 ∧ (k + 1) % w = 0) ∧
    (k % w ≠ w - 1 → (k + 1) / w = k / w ∧ (k + 1) % w = k % w + 1) := by
  have h1 := Nat.div_add_mod k w
  have hlt := Nat.mod_lt k hw
  constructor
  · intro h
    have e : k + 1 = w * (k / w + 1) := by rw [Nat.mul_add, Nat.mul_one]; omega
    rw [e]
    exact ⟨Nat.mul_div_cancel_left _ hw, Nat.mul_mod_right _ _⟩
  · intro h
    have e : k + 1 = (k % w + 1) + w * (k / w) := by omega
    have hlt' : k % w + 1 < w := by omega
    constructor
    · rw [e, Nat.add_mul_div_left _ _ hw, Nat.div_eq_of_lt hlt']; omega
    · rw [e, Nat.add_mul_mod_self_left, Nat.mod_eq_of_lt hlt']

theorem hexCell_digits : ∀ x : Fin 16, ∀ y : Fin 16,
    hexCell (digitChar x.val) (digitChar y.val) = Cell.byte (UInt8.ofNat (16 * x.val + y.val))
      ∧ digitChar x.val ≠ ' ' ∧ digitChar x.val ≠ '\n' := by
  decide

theorem hexCell_pair (b : UInt8) :
    hexCell (digitChar (b.toNat / 16)) (digitChar (b.toNat % 16)) = Cell.byte b := by
  have hb : b.toNat < 256 := b.toNat_lt
  have := (hexCell_digits ⟨b.toNat / 16, by omega⟩ ⟨b.toNat % 16, by omega⟩).1
  simp only at this
  rw [this]
  congr 1
  have : 16 * (b.toNat / 16) + b.toNat % 16 = b.toNat := Nat.div_add_mod _ _
  rw [this]; exact UInt8.ofNat_toNat

theorem parseHex_body (w : Nat) (hw : 0 < w) (bs : List UInt8) (hbs : bs ≠ []) :
    ∀ k, parseHex (k / w) (k % w) (hexBody w k bs) = expectCells w k (bs.map Cell.byte) := by
  induction bs with
  | nil => exact absurd rfl hbs
  | cons b rest ih =>
    intro k
    cases rest with
    | nil => simp [hexBody, hexPair, parseHex, expectCells, hexCell_pair]
    | cons b' rest' =>
      have ih' := ih (by simp) (k + 1)
      have hs := rowcol_step w k hw
      simp only [hexBody, hexPair, List.cons_append, List.nil_append, List.map_cons, expectCells]
      unfold sepAt
      by_cases h : k % w = w - 1
      · obtain ⟨h1, h2⟩ := hs.1 h
        rw [h1, h2] at ih'
        simp only [h, if_true, parseHex, hexCell_pair]
        rw [← h]
        simp only [List.map_cons, expectCells] at ih'
        rw [ih']
      · obtain ⟨h1, h2⟩ := hs.2 h
        rw [h1, h2] at ih'
        simp only [h, if_false, parseHex, hexCell_pair]
        simp only [List.map_cons, expectCells] at ih'
        simp [ih']

theorem hexCell_blank : hexCell ' ' ' ' = Cell.blank := by decide

theorem parseHex_pad (w : Nat) (hw : 0 < w) (bs : List UInt8) (hbs : bs ≠ []) (n : Nat) :
    ∀ k, parseHex (k / w) (k % w) (hexPadGo w n k ++ hexBody w (k + n) bs)
      = expectCells w k (List.replicate n Cell.blank ++ bs.map Cell.byte) := by
  induction n with
  | zero => intro k; simpa [hexPadGo] using parseHex_body w hw bs hbs k
  | succ n ih =>
    intro k
    have ih' := ih (k + 1)
    have hs := rowcol_step w k hw
    have e : k + 1 + n = k + (n + 1) := by omega
    rw [e] at ih'
    simp only [hexPadGo, List.replicate_succ, List.cons_append, expectCells]
    by_cases h : k % w = w - 1
    · obtain ⟨h1, h2⟩ := hs.1 h
      rw [h1, h2] at ih'
      simp only [h, if_true, List.cons_append, List.nil_append, parseHex, hexCell_blank]
      rw [← h, ih']
    · obtain ⟨h1, h2⟩ := hs.2 h
      rw [h1, h2] at ih'
      simp only [h, if_false, List.cons_append, List.nil_append, parseHex, hexCell_blank]
      simp [ih']

theorem hexRun_eq_spec (w start : Nat) (hw : 0 < w) (cs : List (List UInt8)) (h : cs ≠ []) :
    hexRun w start 0 cs = hexSpec w start cs.flatten := by
  cases cs with
  | nil => exact absurd rfl h
  | cons p ps => simpa [hexSpec] using hexRun_pad w start hw p ps 0 (Nat.zero_le _)

theorem parse_hexRun (w start : Nat) (hw : 0 < w) (chunks : List (List UInt8)) (hne : chunks.flatten ≠ []) :
    parseHex 0 0 (hexRun w start 0 chunks)
      = expectCells w 0 (List.replicate start Cell.blank ++ chunks.flatten.map Cell.byte) := by
  have hc : chunks ≠ [] := by intro h; rw [h] at hne; exact hne rfl
  rw [hexRun_eq_spec w start hw chunks hc]
  have := parseHex_pad w hw chunks.flatten hne start 0
  simpa [hexSpec] using this

/-- the cell list of `expectCells` spelled out: entry `i` is (i / w, i % w, xs[i]) -/
theorem expectCells_get {α} (w : Nat) (xs : List α) : ∀ (k i : Nat) (h : i < xs.length),
    (expectCells w k xs)[i]? = some ((k + i) / w, (k + i) % w, xs[i]) := by
  induction xs with
  | nil => intro k i h; simp at h
  | cons x xs ih =>
    intro k i h
    cases i with
    | zero => simp [expectCells]
    | succ i =>
      have := ih (k + 1) i (by simpa using h)
      simp only [expectCells, List.getElem?_cons_succ, List.getElem_cons_succ]
      rw [this]
      have e : k + 1 + i = k + (i + 1) := by omega
      rw [e]

theorem cell_of_byte (w start : Nat) (hw : 0 < w) (bs : List UInt8) (j : Nat) (hj : j < bs.length) :
    (parseHex 0 0 (hexRun w start 0 [bs]))[start + j]?
      = some ((start + j) / w, (start + j) % w, Cell.byte bs[j]) := by
  have hne : [bs].flatten ≠ [] := by intro h; simp at h; rw [h] at hj; simp at hj
  rw [parse_hexRun w start hw [bs] hne]
  simp only [List.flatten_cons, List.flatten_nil, List.append_nil]
  have hlen : start + j < (List.replicate start Cell.blank ++ bs.map Cell.byte).length := by
    rw [List.length_append, List.length_replicate, List.length_map]; omega
  rw [expectCells_get w _ 0 (start + j) hlen]
  simp only [Nat.zero_add]
  congr 3
  rw [List.getElem_append_right (by simp)]
  simp

/-! ### ascii -/

/-- the optional line feed after cell `k` -/
def asep (w k : Nat) : List Char := if k % w = w - 1 then ['\n'] else []

theorem asciiLoop_eq (w : Nat) (p : List UInt8) (hp : p ≠ []) :
    ∀ off buf, asciiLoop w off buf p = buf ++ asciiBody w off p := by
  induction p with
  | nil => exact absurd rfl hp
  | cons b rest ih =>
    intro off buf
    cases rest with
    | nil => simp [asciiLoop, asciiBody]
    | cons b' rest' =>
      have ih' := ih (by simp)
      simp only [asciiLoop, asciiBody]
      split
      · rw [ih']; simp
      · rw [ih']; simp

theorem asciiBody_append (w : Nat) (xs ys : List UInt8) (hx : xs ≠ []) (hy : ys ≠ []) :
    ∀ k, asciiBody w k (xs ++ ys)
      = asciiBody w k xs ++ asep w (k + xs.length - 1) ++ asciiBody w (k + xs.length) ys := by
  induction xs with
  | nil => exact absurd rfl hx
  | cons x rest ih =>
    intro k
    cases rest with
    | nil =>
      cases ys with
      | nil => exact absurd rfl hy
      | cons y ys' => simp [asciiBody, asep]
    | cons x' rest' =>
      have ih' := ih (by simp) (k + 1)
      simp only [List.cons_append, asciiBody] at ih' ⊢
      rw [ih']
      simp only [List.length_cons, List.append_assoc]
      have e1 : k + 1 + (rest'.length + 1) - 1 = k + (rest'.length + 1 + 1) - 1 := by omega
      have e2 : k + 1 + (rest'.length + 1) = k + (rest'.length + 1 + 1) := by omega
      rw [e1, e2]

theorem asciiRun_data (w start : Nat) (hw : 0 < w) (chunks : List (List UInt8)) :
    ∀ k, start ≤ k → asciiRun w start k chunks
      = (if start < k ∧ chunks.flatten ≠ [] then asep w (k - 1) else []) ++ asciiBody w k chunks.flatten := by
  induction chunks with
  | nil => intro k _; simp [asciiRun, asciiBody]
  | cons p ps ih =>
    intro k hk
    have hmax : max k start = k := Nat.max_eq_left hk
    have hpad : asciiPadGo w (start - k) k = [] := by
      have : start - k = 0 := by omega
      rw [this]; rfl
    cases p with
    | nil =>
      simp only [asciiRun, asciiWrite, hmax, hpad, asciiLoop, List.length_nil, Nat.add_zero, List.append_nil,
        List.flatten_cons, List.nil_append]
      exact ih k hk
    | cons b p' =>
      have hne : (b :: p') ≠ [] := by simp
      simp only [asciiRun, asciiWrite, hmax, hpad, List.nil_append, List.flatten_cons]
      rw [asciiLoop_eq w _ hne, ih (k + (b :: p').length) (by omega)]
      have hsep : start < k → (if k > start ∧ k % w = 0 then ['\n'] else []) = asep w (k - 1) := by
        intro hlt
        have hk1 : k = (k - 1) + 1 := by omega
        unfold asep
        by_cases hz : k % w = 0
        · have := (succ_mod_zero_iff w (k - 1) hw).1 (by rw [← hk1]; exact hz)
          simp [hz, this, hlt]
        · have : ¬ (k - 1) % w = w - 1 := fun h => hz (by
            have := (succ_mod_zero_iff w (k - 1) hw).2 h
            rwa [← hk1] at this)
          simp [hz, this]
      have hlt2 : start < k + (p'.length + 1) := by omega
      by_cases hps : ps.flatten = []
      · simp only [hps, List.append_nil, asciiBody]
        by_cases hlt : start < k
        · rw [hsep hlt]; simp [hlt]
        · have : ¬ (k > start ∧ k % w = 0) := fun h => hlt h.1
          simp [hlt]
      · rw [asciiBody_append w (b :: p') ps.flatten hne hps k]
        by_cases hlt : start < k
        · rw [hsep hlt]; simp [hlt, hlt2, hps]
        · have : ¬ (k > start ∧ k % w = 0) := fun h => hlt h.1
          simp [hlt, hlt2, hps]

theorem asciiRun_pad (w start : Nat) (hw : 0 < w) (p : List UInt8) (ps : List (List UInt8)) (off : Nat)
    (ho : off ≤ start) :
    asciiRun w start off (p :: ps) = asciiPadGo w (start - off) off ++ asciiBody w start (p :: ps).flatten := by
  have hmax : max off start = start := Nat.max_eq_right ho
  have h0 := asciiRun_data w start hw (p :: ps) start (Nat.le_refl _)
  simp only [Nat.lt_irrefl, false_and, if_false, List.nil_append] at h0
  rw [← h0]
  simp only [asciiRun, asciiWrite, hmax, Nat.lt_irrefl, false_and, if_false, Nat.sub_self, asciiPadGo,
    List.nil_append, Nat.max_self, List.append_assoc]

theorem safeAscii_fin : ∀ n : Fin 256,
    (if n.val < 32 ∨ n.val > 126 then '.' else Char.ofNat n.val) ≠ '\n' := by decide +kernel

theorem safeAscii_ne_nl (b : UInt8) : safeAscii b ≠ '\n' :=
  safeAscii_fin ⟨b.toNat, b.toNat_lt⟩

theorem parseAscii_body (w : Nat) (hw : 0 < w) (bs : List UInt8) (hbs : bs ≠ []) :
    ∀ k, parseAscii (k / w) (k % w) (asciiBody w k bs) = expectCells w k (bs.map safeAscii) := by
  induction bs with
  | nil => exact absurd rfl hbs
  | cons b rest ih =>
    intro k
    cases rest with
    | nil => simp [asciiBody, parseAscii, expectCells, safeAscii_ne_nl]
    | cons b' rest' =>
      have ih' := ih (by simp) (k + 1)
      have hs := rowcol_step w k hw
      simp only [asciiBody, List.cons_append, List.map_cons, expectCells]
      by_cases h : k % w = w - 1
      · obtain ⟨h1, h2⟩ := hs.1 h
        rw [h1, h2] at ih'
        simp only [h, if_true, List.cons_append, List.nil_append, parseAscii, safeAscii_ne_nl, if_false]
        rw [← h]
        simp only [List.map_cons, expectCells] at ih'
        rw [ih']
      · obtain ⟨h1, h2⟩ := hs.2 h
        rw [h1, h2] at ih'
        simp only [h, if_false, List.nil_append, parseAscii, safeAscii_ne_nl]
        simp only [List.map_cons, expectCells] at ih'
        simp [ih']

/-- with `start < w` (dump.go: `startByte % LineBytes`) no padding cell sits at the end of a line -/
theorem parseAscii_pad (w : Nat) (hw : 0 < w) (bs : List UInt8) (hbs : bs ≠ []) (n : Nat) :
    ∀ k, k % w + n < w → parseAscii (k / w) (k % w) (asciiPadGo w n k ++ asciiBody w (k + n) bs)
      = expectCells w k (List.replicate n ' ' ++ bs.map safeAscii) := by
  induction n with
  | zero => intro k _; simpa [asciiPadGo] using parseAscii_body w hw bs hbs k
  | succ n ih =>
    intro k hk
    have hs := rowcol_step w k hw
    have h : k % w ≠ w - 1 := by omega
    obtain ⟨h1, h2⟩ := hs.2 h
    have ih' := ih (k + 1) (by rw [h2]; omega)
    have e : k + 1 + n = k + (n + 1) := by omega
    rw [e, h1, h2] at ih'
    simp only [asciiPadGo, h, if_false, List.replicate_succ, List.cons_append, expectCells, parseAscii]
    have : (' ' : Char) ≠ '\n' := by decide
    simp [ih']

end Proofs.C10Writers
