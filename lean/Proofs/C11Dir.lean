import FqModel.C11Dir
import Proofs.C11FullConv
/-! C11 — directives in front of a query: print/parse round trip in both directions. Core Lean only. -/
set_option linter.unusedSimpArgs false
set_option linter.unusedVariables false
namespace Proofs.C11.Dir
open FqModel.C11.Full FqModel.C11.Dir
open Proofs.C11.Full (onTok_eq onTok_ne bnd_some expect_some onTok_cases)

mutual
  def costC : C → Nat
    | .arr xs => costCs xs + 2
    | .obj kvs => costKVs kvs + 2
    | _ => 1
  def costCs : List C → Nat
    | [] => 0
    | x :: rest => costC x + 1 + costCs rest
  def costKVs : List (Tok × C) → Nat
    | [] => 0
    | (_, v) :: rest => costC v + 1 + costKVs rest
end

theorem headC (c : C) : ∃ hd tl, printC c = hd :: tl ∧ hd ≠ .rbrack ∧ hd ≠ .rbrace ∧ hd ≠ .semi := by
  cases c <;> simp [printC]

theorem costC_pos (c : C) : 1 ≤ costC c := by cases c <;> simp [costC]

mutual
  theorem fwdC : ∀ (c : C), wfC c = true → ∀ F rest, costC c ≤ F → parseC F (printC c ++ rest) = some (c, rest)
    | .num s, _, F, rest, hF => by
      obtain ⟨F1, rfl⟩ : ∃ F1, F = F1 + 1 := ⟨F - 1, by simp [costC] at hF; omega⟩
      simp [printC, parseC]
    | .str s, _, F, rest, hF => by
      obtain ⟨F1, rfl⟩ : ∃ F1, F = F1 + 1 := ⟨F - 1, by simp [costC] at hF; omega⟩
      simp [printC, parseC]
    | .lit k, hw, F, rest, hF => by
      obtain ⟨F1, rfl⟩ : ∃ F1, F = F1 + 1 := ⟨F - 1, by simp [costC] at hF; omega⟩
      cases k <;> simp [wfC, isLitKw] at hw <;> simp [printC, parseC]
    | .arr [], _, F, rest, hF => by
      obtain ⟨F1, rfl⟩ : ∃ F1, F = F1 + 1 := ⟨F - 1, by simp [costC] at hF; omega⟩
      simp [printC, printCs, parseC, onTok]
    | .arr (x :: xs), hw, F, rest, hF => by
      simp only [costC] at hF
      obtain ⟨F1, rfl⟩ : ∃ F1, F = F1 + 1 := ⟨F - 1, by omega⟩
      have h := fwdCs (x :: xs) (by simp) (by simpa [wfC] using hw) F1 rest (by omega)
      obtain ⟨hd, tl, h1, h2, _, _⟩ := headC x
      have hne : ∀ {β : Type} (k : List Tok → β) (n : β), onTok .rbrack (printCs (x :: xs) ++ .rbrack :: rest) k n = n := by
        intro β k n
        cases xs with
        | nil => simp only [printCs, h1]; simp [onTok, h2]
        | cons y ys => simp only [printCs, h1]; simp [onTok, h2]
      simp only [printC, List.cons_append, List.append_assoc, List.nil_append, parseC]
      rw [hne, h]
      rfl
    | .obj [], _, F, rest, hF => by
      obtain ⟨F1, rfl⟩ : ∃ F1, F = F1 + 1 := ⟨F - 1, by simp [costC] at hF; omega⟩
      simp [printC, printKVs, parseC, onTok]
    | .obj ((k, v) :: kvs), hw, F, rest, hF => by
      simp only [costC] at hF
      obtain ⟨F1, rfl⟩ : ∃ F1, F = F1 + 1 := ⟨F - 1, by omega⟩
      have hwk : wfKVs ((k, v) :: kvs) = true := by simpa [wfC] using hw
      have h := fwdKVs ((k, v) :: kvs) (by simp) hwk F1 rest (by omega)
      have hk : isCKey k = true := by simp [wfKVs] at hwk; exact hwk.1.1
      have hkne : k ≠ .rbrace := by intro h; subst h; simp [isCKey] at hk
      have hne : ∀ {β : Type} (kk : List Tok → β) (n : β), onTok .rbrace (printKVs ((k, v) :: kvs) ++ .rbrace :: rest) kk n = n := by
        intro β kk n
        cases kvs with
        | nil => simp [printKVs, onTok, hkne]
        | cons y ys => simp [printKVs, onTok, hkne]
      simp only [printC, List.cons_append, List.append_assoc, List.nil_append, parseC]
      rw [hne, h]
      rfl
  theorem fwdCs : ∀ (xs : List C), xs ≠ [] → wfCs xs = true → ∀ F rest, costCs xs + 1 ≤ F →
      parseCs F (printCs xs ++ .rbrack :: rest) = some (xs, rest)
    | [], hne, _, _, _, _ => absurd rfl hne
    | [x], _, hw, F, rest, hF => by
      simp only [costCs] at hF
      obtain ⟨F1, rfl⟩ : ∃ F1, F = F1 + 1 := ⟨F - 1, by omega⟩
      have hwx : wfC x = true := by simp [wfCs] at hw; exact hw
      simp only [printCs, parseCs]
      rw [fwdC x hwx F1 _ (by omega)]
      simp [bnd, onTok, expect]
    | x :: y :: ys, _, hw, F, rest, hF => by
      simp only [costCs] at hF
      obtain ⟨F1, rfl⟩ : ∃ F1, F = F1 + 1 := ⟨F - 1, by omega⟩
      have hw' : wfC x = true ∧ wfCs (y :: ys) = true := by simp only [wfCs, Bool.and_eq_true] at hw ⊢; exact ⟨hw.1, hw.2⟩
      have ih := fwdCs (y :: ys) (by simp) hw'.2 F1 rest (by simp only [costCs]; omega)
      simp only [printCs, List.append_assoc, List.cons_append, parseCs]
      rw [fwdC x hw'.1 F1 _ (by omega)]
      simp only [bnd, onTok_eq]
      rw [ih]
  theorem fwdKVs : ∀ (kvs : List (Tok × C)), kvs ≠ [] → wfKVs kvs = true → ∀ F rest, costKVs kvs + 1 ≤ F →
      parseKVs F (printKVs kvs ++ .rbrace :: rest) = some (kvs, rest)
    | [], hne, _, _, _, _ => absurd rfl hne
    | [(k, v)], _, hw, F, rest, hF => by
      simp only [costKVs] at hF
      obtain ⟨F1, rfl⟩ : ∃ F1, F = F1 + 1 := ⟨F - 1, by omega⟩
      have hw' : isCKey k = true ∧ wfC v = true := by simp [wfKVs] at hw; exact hw
      simp only [printKVs, List.cons_append, parseKVs, hw'.1, if_true, expect]
      rw [fwdC v hw'.2 F1 _ (by omega)]
      simp [bnd, onTok, expect]
    | (k, v) :: kv2 :: rest', _, hw, F, rest, hF => by
      simp only [costKVs] at hF
      obtain ⟨F1, rfl⟩ : ∃ F1, F = F1 + 1 := ⟨F - 1, by omega⟩
      have hw' : (isCKey k = true ∧ wfC v = true) ∧ wfKVs (kv2 :: rest') = true := by
        simp only [wfKVs, Bool.and_eq_true] at hw ⊢; exact hw
      have ih := fwdKVs (kv2 :: rest') (by simp) hw'.2 F1 rest (by obtain ⟨k2, v2⟩ := kv2; simp only [costKVs] at hF ⊢; omega)
      simp only [printKVs, List.cons_append, List.append_assoc, parseKVs, hw'.1.1, if_true, expect]
      rw [fwdC v hw'.1.2 F1 _ (by omega)]
      simp only [bnd, onTok_eq]
      rw [ih]
end


def costMeta : Option C → Nat
  | none => 0
  | some c => costC c

theorem fwdMetaSemi (m : Option C) (hw : wfMeta m = true) (F : Nat) (rest : List Tok) (hF : costMeta m ≤ F) :
    parseMetaSemi F (printMeta m ++ .semi :: rest) = some (m, rest) := by
  cases m with
  | none => simp [printMeta, parseMetaSemi, onTok]
  | some c =>
    simp only [wfMeta, Bool.and_eq_true] at hw
    cases c with
    | obj kvs =>
      have h := fwdC (.obj kvs) hw.1 F (.semi :: rest) hF
      simp only [printMeta, printC, List.cons_append, List.append_assoc, List.nil_append, parseMetaSemi] at h ⊢
      rw [onTok_ne _ _ _ _ _ (by simp), h]
      simp [bnd, expect]
    | _ => simp [isObj] at hw

def costImps : List Imp → Nat
  | [] => 1
  | i :: rest => costMeta i.dmeta + 1 + costImps rest

/-- the token after the directives does not start another one -/
def noDirHead : List Tok → Bool
  | .kw .import_ :: _ => false
  | .kw .include :: _ => false
  | _ => true

theorem fwdImps : ∀ (is : List Imp), is.all wfImp = true → ∀ F rest, costImps is ≤ F → noDirHead rest = true →
    parseImps F (printImps is ++ rest) = some (is, rest)
  | [], _, F, rest, hF, hr => by
    obtain ⟨F1, rfl⟩ : ∃ F1, F = F1 + 1 := ⟨F - 1, by simp [costImps] at hF; omega⟩
    simp only [printImps, List.nil_append, parseImps]
    cases rest with
    | nil => rfl
    | cons t ts =>
      cases t with
      | kw k => cases k <;> first | rfl | simp [noDirHead] at hr
      | _ => rfl
  | i :: rest', hw, F, rest, hF, hr => by
    simp only [costImps] at hF
    obtain ⟨F1, rfl⟩ : ∃ F1, F = F1 + 1 := ⟨F - 1, by omega⟩
    simp only [List.all_cons, Bool.and_eq_true] at hw
    have ih := fwdImps rest' hw.2 F1 rest (by omega) hr
    obtain ⟨imp, path, al, m⟩ := i
    have hwi := hw.1
    simp only [wfImp, Bool.and_eq_true] at hwi
    cases imp with
    | true =>
      have hal : isAlias al = true := by simpa using hwi.2
      simp only [printImps, printImp, if_true, List.cons_append, List.append_assoc, List.nil_append, parseImps, hal]
      rw [fwdMetaSemi m hwi.1 F1 _ (by simp only at hF; omega)]
      simp only [bnd]
      rw [ih]
    | false =>
      have hal : al = .dot := by simpa using hwi.2
      subst hal
      simp only [printImps, printImp, Bool.false_eq_true, if_false, List.cons_append, List.append_assoc, List.nil_append, parseImps]
      rw [fwdMetaSemi m hwi.1 F1 _ (by simp only at hF; omega)]
      simp only [bnd]
      rw [ih]

theorem fwdHeader (m : Option C) (hw : wfMeta m = true) (F : Nat) (rest : List Tok) (hF : costMeta m ≤ F)
    (hr : ∀ r, rest ≠ .kw .module :: r) :
    parseHeader F (printHeader m ++ rest) = some (m, rest) := by
  cases m with
  | none =>
    simp only [printHeader, List.nil_append, parseHeader]
    cases rest with
    | nil => rfl
    | cons t ts =>
      cases t with
      | kw k =>
        cases k with
        | module => exact absurd rfl (hr ts)
        | _ => rfl
      | _ => rfl
  | some c =>
    simp only [wfMeta, Bool.and_eq_true] at hw
    cases c with
    | obj kvs =>
      have h := fwdC (.obj kvs) hw.1 F (.semi :: rest) hF
      simp only [printHeader, printC, List.cons_append, List.append_assoc, List.nil_append, parseHeader] at h ⊢
      rw [h]
      simp [bnd, expect]
    | _ => simp [isObj] at hw

/-! cost bounds -/
mutual
  theorem costC_le : ∀ (c : C), costC c ≤ 2 * (printC c).length
    | .num _ | .str _ | .lit _ => by simp [costC, printC]
    | .arr xs => by have := costCs_le xs; simp [costC, printC]; omega
    | .obj kvs => by have := costKVs_le kvs; simp [costC, printC]; omega
  theorem costCs_le : ∀ (xs : List C), costCs xs ≤ 2 * (printCs xs).length + 1
    | [] => by simp [costCs, printCs]
    | [x] => by have := costC_le x; simp [costCs, printCs]; omega
    | x :: y :: rest => by have := costC_le x; have := costCs_le (y :: rest); simp [costCs, printCs] at *; omega
  theorem costKVs_le : ∀ (kvs : List (Tok × C)), costKVs kvs ≤ 2 * (printKVs kvs).length
    | [] => by simp [costKVs, printKVs]
    | [(k, v)] => by have := costC_le v; simp [costKVs, printKVs]; omega
    | (k, v) :: kv2 :: rest => by have := costC_le v; have := costKVs_le (kv2 :: rest); simp [costKVs, printKVs] at *; omega
end

theorem costMeta_le (m : Option C) : costMeta m ≤ 2 * (printMeta m).length := by
  cases m with
  | none => simp [costMeta, printMeta]
  | some c => simpa [costMeta, printMeta] using costC_le c

theorem costImps_le : ∀ (is : List Imp), costImps is ≤ 2 * (printImps is).length + 1
  | [] => by simp [costImps, printImps]
  | i :: rest => by
    have := costImps_le rest
    have := costMeta_le i.dmeta
    obtain ⟨imp, path, al, m⟩ := i
    cases imp <;> simp [costImps, printImps, printImp] at * <;> omega

theorem body_noDir (e : E) (hw : wf e = true) (hq : cat e = .query) :
    noDirHead (print e) = true ∧ ∀ r, print e ≠ .kw .module :: r := by
  obtain ⟨hd, tl, h1, h2⟩ := Proofs.C11.Full.query_head e hw hq
  rw [h1]
  constructor
  · cases hd <;> simp_all [noDirHead, Proofs.C11.Full.queryHeadTok, Proofs.C11.Full.termHeadTok]
    rename_i k; cases k <;> simp_all [Proofs.C11.Full.termHeadKw]
  · intro r h
    cases h
    simp [Proofs.C11.Full.queryHeadTok, Proofs.C11.Full.termHeadTok, Proofs.C11.Full.termHeadKw] at h2

/-- the printed form of a well-formed program (directives and query) parses back to it -/
theorem print_parse_prog (p : Prog) (hw : wfProg p = true) : parseProg (printProg p) = some p := by
  obtain ⟨m, is, b⟩ := p
  simp only [wfProg, Bool.and_eq_true, beq_iff_eq] at hw
  obtain ⟨⟨⟨hwm, hwi⟩, hwb⟩, hcb⟩ := hw
  obtain ⟨hnd, hnm⟩ := body_noDir b hwb hcb
  have hbody := Proofs.C11.Full.print_parse b hwb hcb
  have hcm : costMeta m ≤ 2 * (printHeader m).length := by
    cases m with
    | none => simp [costMeta, printHeader]
    | some c => have := costC_le c; simp [costMeta, printHeader]; omega
  have hci := costImps_le is
  have hrest : ∀ r, printImps is ++ print b ≠ .kw .module :: r := by
    intro r h
    cases is with
    | nil => exact hnm r (by simpa [printImps] using h)
    | cons i rest =>
      obtain ⟨imp, path, al, mm⟩ := i
      cases imp <;> simp [printImps, printImp] at h
  simp only [parseProg, printProg, List.append_assoc]
  rw [fwdHeader m hwm _ _ (by simp only [List.length_append]; omega) hrest]
  simp only [bnd]
  rw [fwdImps is hwi _ (print b) (by simp only [List.length_append]; omega) hnd]
  simp only [bnd, hbody]

structure InvC (f : Nat) : Prop where
  c : ∀ ts x r, parseC f ts = some (x, r) → wfC x = true ∧ printC x ++ r = ts
  cs : ∀ ts xs r, parseCs f ts = some (xs, r) → xs ≠ [] ∧ wfCs xs = true ∧ printCs xs ++ .rbrack :: r = ts
  kvs : ∀ ts xs r, parseKVs f ts = some (xs, r) → xs ≠ [] ∧ wfKVs xs = true ∧ printKVs xs ++ .rbrace :: r = ts

theorem invC_zero : InvC 0 := by
  constructor <;> intros <;> simp_all [parseC, parseCs, parseKVs]

theorem ic_c (f : Nat) (ih : InvC f) : ∀ ts x r, parseC (f + 1) ts = some (x, r) → wfC x = true ∧ printC x ++ r = ts := by
  intro ts x r hp
  cases ts with
  | nil => simp [parseC] at hp
  | cons t ts =>
    cases t with
    | num s => simp only [parseC, Option.some.injEq, Prod.mk.injEq] at hp; obtain ⟨rfl, rfl⟩ := hp; exact ⟨rfl, rfl⟩
    | str s => simp only [parseC, Option.some.injEq, Prod.mk.injEq] at hp; obtain ⟨rfl, rfl⟩ := hp; exact ⟨rfl, rfl⟩
    | kw k =>
      cases k <;> simp only [parseC, Option.some.injEq, Prod.mk.injEq] at hp <;> first | (obtain ⟨rfl, rfl⟩ := hp; exact ⟨rfl, rfl⟩) | simp at hp
    | lbrack =>
      simp only [parseC] at hp
      rcases onTok_cases .rbrack ts (fun r' => some (C.arr [], r')) _ with ⟨r1, hr1, he⟩ | ⟨_, he⟩
      · rw [he] at hp
        simp only [Option.some.injEq, Prod.mk.injEq] at hp
        obtain ⟨rfl, rfl⟩ := hp
        exact ⟨rfl, by simp [printC, printCs, hr1]⟩
      · rw [he] at hp
        obtain ⟨xs, r1, h1, h2⟩ := bnd_some hp
        simp only [Option.some.injEq, Prod.mk.injEq] at h2
        obtain ⟨rfl, rfl⟩ := h2
        obtain ⟨_, hw, hpr⟩ := ih.cs _ _ _ h1
        exact ⟨by simpa [wfC] using hw, by simp [printC, ← hpr]⟩
    | lbrace =>
      simp only [parseC] at hp
      rcases onTok_cases .rbrace ts (fun r' => some (C.obj [], r')) _ with ⟨r1, hr1, he⟩ | ⟨_, he⟩
      · rw [he] at hp
        simp only [Option.some.injEq, Prod.mk.injEq] at hp
        obtain ⟨rfl, rfl⟩ := hp
        exact ⟨rfl, by simp [printC, printKVs, hr1]⟩
      · rw [he] at hp
        obtain ⟨xs, r1, h1, h2⟩ := bnd_some hp
        simp only [Option.some.injEq, Prod.mk.injEq] at h2
        obtain ⟨rfl, rfl⟩ := h2
        obtain ⟨_, hw, hpr⟩ := ih.kvs _ _ _ h1
        exact ⟨by simpa [wfC] using hw, by simp [printC, ← hpr]⟩
    | _ => simp [parseC] at hp

theorem ic_cs (f : Nat) (ih : InvC f) : ∀ ts xs r, parseCs (f + 1) ts = some (xs, r) →
    xs ≠ [] ∧ wfCs xs = true ∧ printCs xs ++ .rbrack :: r = ts := by
  intro ts xs r hp
  simp only [parseCs] at hp
  obtain ⟨x, r1, h1, h2⟩ := bnd_some hp
  obtain ⟨hwx, hpx⟩ := ih.c _ _ _ h1
  rcases onTok_cases (.op .comma) r1 (fun r' => bnd (parseCs f r') fun xs r'' => some (x :: xs, r'')) _ with ⟨r2, hr2, he⟩ | ⟨_, he⟩
  · rw [he] at h2
    obtain ⟨xs', r3, h3, h4⟩ := bnd_some h2
    simp only [Option.some.injEq, Prod.mk.injEq] at h4
    obtain ⟨rfl, rfl⟩ := h4
    obtain ⟨hne, hws, hps⟩ := ih.cs _ _ _ h3
    refine ⟨by simp, by simp [wfCs, hwx, hws], ?_⟩
    cases xs' with
    | nil => exact absurd rfl hne
    | cons b bs => simp [printCs, ← hpx, hr2, ← hps]
  · rw [he] at h2
    obtain ⟨r2, hr2, h3⟩ := expect_some h2
    simp only [Option.some.injEq, Prod.mk.injEq] at h3
    obtain ⟨rfl, rfl⟩ := h3
    exact ⟨by simp, by simp [wfCs, hwx], by simp [printCs, ← hpx, hr2]⟩

theorem ic_kvs (f : Nat) (ih : InvC f) : ∀ ts xs r, parseKVs (f + 1) ts = some (xs, r) →
    xs ≠ [] ∧ wfKVs xs = true ∧ printKVs xs ++ .rbrace :: r = ts := by
  intro ts xs r hp
  cases ts with
  | nil => simp [parseKVs] at hp
  | cons k ts =>
    simp only [parseKVs] at hp
    by_cases hk : isCKey k = true
    · simp only [hk, if_true] at hp
      obtain ⟨r0, hr0, h0⟩ := expect_some hp
      obtain ⟨v, r1, h1, h2⟩ := bnd_some h0
      obtain ⟨hwv, hpv⟩ := ih.c _ _ _ h1
      rcases onTok_cases (.op .comma) r1 (fun r' => bnd (parseKVs f r') fun kvs r'' => some ((k, v) :: kvs, r'')) _
        with ⟨r2, hr2, he⟩ | ⟨_, he⟩
      · rw [he] at h2
        obtain ⟨xs', r3, h3, h4⟩ := bnd_some h2
        simp only [Option.some.injEq, Prod.mk.injEq] at h4
        obtain ⟨rfl, rfl⟩ := h4
        obtain ⟨hne, hws, hps⟩ := ih.kvs _ _ _ h3
        refine ⟨by simp, by simp [wfKVs, hk, hwv, hws], ?_⟩
        cases xs' with
        | nil => exact absurd rfl hne
        | cons b bs => simp [printKVs, hr0, ← hpv, hr2, ← hps]
      · rw [he] at h2
        obtain ⟨r2, hr2, h3⟩ := expect_some h2
        simp only [Option.some.injEq, Prod.mk.injEq] at h3
        obtain ⟨rfl, rfl⟩ := h3
        exact ⟨by simp, by simp [wfKVs, hk, hwv], by simp [printKVs, hr0, ← hpv, hr2]⟩
    · simp [hk] at hp

theorem invC_all : ∀ f, InvC f
  | 0 => invC_zero
  | f + 1 => ⟨ic_c f (invC_all f), ic_cs f (invC_all f), ic_kvs f (invC_all f)⟩

theorem parseC_lbrace_obj (f : Nat) (ts : List Tok) (c : C) (r : List Tok) (h : parseC f (.lbrace :: ts) = some (c, r)) : isObj c = true := by
  cases f with
  | zero => simp [parseC] at h
  | succ f =>
    simp only [parseC] at h
    rcases onTok_cases .rbrace ts (fun r' => some (C.obj [], r')) _ with ⟨r1, _, he⟩ | ⟨_, he⟩
    · rw [he] at h; simp only [Option.some.injEq, Prod.mk.injEq] at h; obtain ⟨rfl, _⟩ := h; rfl
    · rw [he] at h
      obtain ⟨xs, r1, _, h2⟩ := bnd_some h
      simp only [Option.some.injEq, Prod.mk.injEq] at h2
      obtain ⟨rfl, _⟩ := h2; rfl

theorem inv_metaSemi (f : Nat) (ts : List Tok) (m : Option C) (r : List Tok) (h : parseMetaSemi f ts = some (m, r)) :
    wfMeta m = true ∧ printMeta m ++ .semi :: r = ts := by
  unfold parseMetaSemi at h
  rcases onTok_cases .semi ts (fun r => some ((none : Option C), r)) _ with ⟨r1, hr1, he⟩ | ⟨_, he⟩
  · rw [he] at h
    simp only [Option.some.injEq, Prod.mk.injEq] at h
    obtain ⟨rfl, rfl⟩ := h
    exact ⟨rfl, by simp [printMeta, hr1]⟩
  · rw [he] at h
    cases ts with
    | nil => simp at h
    | cons t ts' =>
      cases t with
      | lbrace =>
        simp only at h
        obtain ⟨c, r1, h1, h2⟩ := bnd_some h
        obtain ⟨r2, hr2, h3⟩ := expect_some h2
        simp only [Option.some.injEq, Prod.mk.injEq] at h3
        obtain ⟨rfl, rfl⟩ := h3
        obtain ⟨hw, hp⟩ := (invC_all f).c _ _ _ h1
        exact ⟨by simp [wfMeta, hw, parseC_lbrace_obj f ts' c r1 h1], by simp [printMeta, ← hp, hr2]⟩
      | _ => simp at h

theorem inv_imps : ∀ (f : Nat) (ts : List Tok) (is : List Imp) (r : List Tok), parseImps f ts = some (is, r) →
    is.all wfImp = true ∧ printImps is ++ r = ts
  | 0, _, _, _, h => by simp [parseImps] at h
  | f + 1, ts, is, r, h => by
    simp only [parseImps] at h
    split at h
    · rename_i p a r0
      by_cases ha : isAlias a = true
      · simp only [ha, if_true] at h
        obtain ⟨m, r1, h1, h2⟩ := bnd_some h
        obtain ⟨is', r2, h3, h4⟩ := bnd_some h2
        simp only [Option.some.injEq, Prod.mk.injEq] at h4
        obtain ⟨rfl, rfl⟩ := h4
        obtain ⟨hwm, hpm⟩ := inv_metaSemi f _ _ _ h1
        obtain ⟨hwi, hpi⟩ := inv_imps f _ _ _ h3
        exact ⟨by simp [wfImp, hwm, ha, hwi], by simp [printImps, printImp, ← hpm, ← hpi]⟩
      · simp [ha] at h
    · rename_i p r0
      obtain ⟨m, r1, h1, h2⟩ := bnd_some h
      obtain ⟨is', r2, h3, h4⟩ := bnd_some h2
      simp only [Option.some.injEq, Prod.mk.injEq] at h4
      obtain ⟨rfl, rfl⟩ := h4
      obtain ⟨hwm, hpm⟩ := inv_metaSemi f _ _ _ h1
      obtain ⟨hwi, hpi⟩ := inv_imps f _ _ _ h3
      exact ⟨by simp [wfImp, hwm, hwi], by simp [printImps, printImp, ← hpm, ← hpi]⟩
    · simp only [Option.some.injEq, Prod.mk.injEq] at h
      obtain ⟨rfl, rfl⟩ := h
      exact ⟨rfl, rfl⟩

theorem inv_header (f : Nat) (ts : List Tok) (m : Option C) (r : List Tok) (h : parseHeader f ts = some (m, r)) :
    wfMeta m = true ∧ printHeader m ++ r = ts := by
  unfold parseHeader at h
  split at h
  · rename_i r0
    obtain ⟨c, r1, h1, h2⟩ := bnd_some h
    obtain ⟨r2, hr2, h3⟩ := expect_some h2
    simp only [Option.some.injEq, Prod.mk.injEq] at h3
    obtain ⟨rfl, rfl⟩ := h3
    obtain ⟨hw, hp⟩ := (invC_all f).c _ _ _ h1
    exact ⟨by simp [wfMeta, hw, parseC_lbrace_obj f r0 c r1 h1], by simp [printHeader, ← hp, hr2]⟩
  · simp only [Option.some.injEq, Prod.mk.injEq] at h
    obtain ⟨rfl, rfl⟩ := h
    exact ⟨rfl, rfl⟩

/-- everything the program parser accepts is a well-formed program whose printed form is the input -/
theorem parse_sound_prog (ts : List Tok) (p : Prog) (h : parseProg ts = some p) : wfProg p = true ∧ printProg p = ts := by
  unfold parseProg at h
  obtain ⟨m, r, h1, h2⟩ := bnd_some h
  obtain ⟨is, r', h3, h4⟩ := bnd_some h2
  obtain ⟨hwm, hpm⟩ := inv_header _ _ _ _ h1
  obtain ⟨hwi, hpi⟩ := inv_imps _ _ _ _ h3
  split at h4
  · rename_i b hb
    simp only [Option.some.injEq] at h4
    subst h4
    obtain ⟨hwb, hcb, hpb⟩ := Proofs.C11.Full.parse_sound _ _ hb
    exact ⟨by simp [wfProg, hwm, hwi, hwb, hcb], by simp [printProg, hpb, hpi, hpm]⟩
  · simp at h4

theorem parse_print_parse_prog (ts : List Tok) (p : Prog) (h : parseProg ts = some p) : parseProg (printProg p) = some p :=
  print_parse_prog p (parse_sound_prog ts p h).1

end Proofs.C11.Dir
