import Proofs.C11FullFwd
/-! C11 — widened grammar: everything the parser accepts is well formed and prints to the input. Core Lean only. -/
set_option linter.unusedSimpArgs false
set_option linter.unusedVariables false
namespace Proofs.C11.Full
open FqModel.C11.Full
open FqModel.C11.Print (Op Assoc)
open Proofs.C11.Print (op_lmin_le_10 op_rmin_le_10 op_next op_prec_le_rmin)

/-! `cat` of each constructor (simp lemmas, so that `cat` itself need not be unfolded on variables) -/
@[simp] theorem cat_num {x0} : cat (.num x0) = .query := rfl
@[simp] theorem cat_strl {x0} : cat (.strl x0) = .query := rfl
@[simp] theorem cat_istr {x0} : cat (.istr x0) = .query := rfl
@[simp] theorem cat_ident {x0} : cat (.ident x0) = .query := rfl
@[simp] theorem cat_var {x0} : cat (.var x0) = .query := rfl
@[simp] theorem cat_call {x0 x1} : cat (.call x0 x1) = .query := rfl
@[simp] theorem cat_field {x0} : cat (.field x0) = .query := rfl
@[simp] theorem cat_dot : cat .dot = .query := rfl
@[simp] theorem cat_dotdot : cat .dotdot = .query := rfl
@[simp] theorem cat_dotStr {x0} : cat (.dotStr x0) = .query := rfl
@[simp] theorem cat_dotIdx {x0} : cat (.dotIdx x0) = .query := rfl
@[simp] theorem cat_lit {x0} : cat (.lit x0) = .query := rfl
@[simp] theorem cat_fmt {x0} : cat (.fmt x0) = .query := rfl
@[simp] theorem cat_fmtS {x0 x1} : cat (.fmtS x0 x1) = .query := rfl
@[simp] theorem cat_arr {x0} : cat (.arr x0) = .query := rfl
@[simp] theorem cat_obj {x0} : cat (.obj x0) = .query := rfl
@[simp] theorem cat_neg {x0} : cat (.neg x0) = .query := rfl
@[simp] theorem cat_pos {x0} : cat (.pos x0) = .query := rfl
@[simp] theorem cat_ite {x0 x1 x2 x3} : cat (.ite x0 x1 x2 x3) = .query := rfl
@[simp] theorem cat_try {x0 x1} : cat (.try_ x0 x1) = .query := rfl
@[simp] theorem cat_reduce {x0 x1 x2 x3} : cat (.reduce x0 x1 x2 x3) = .query := rfl
@[simp] theorem cat_foreach {x0 x1 x2 x3 x4} : cat (.foreach x0 x1 x2 x3 x4) = .query := rfl
@[simp] theorem cat_brk {x0} : cat (.brk x0) = .query := rfl
@[simp] theorem cat_paren {x0} : cat (.paren x0) = .query := rfl
@[simp] theorem cat_opt {x0} : cat (.opt x0) = .query := rfl
@[simp] theorem cat_sfxField {x0 x1} : cat (.sfxField x0 x1) = .query := rfl
@[simp] theorem cat_sfxStr {x0 x1} : cat (.sfxStr x0 x1) = .query := rfl
@[simp] theorem cat_sfxBr {x0 x1} : cat (.sfxBr x0 x1) = .query := rfl
@[simp] theorem cat_bin {x0 x1 x2} : cat (.bin x0 x1 x2) = .query := rfl
@[simp] theorem cat_bind {x0 x1 x2} : cat (.bind x0 x1 x2) = .query := rfl
@[simp] theorem cat_label {x0 x1} : cat (.label x0 x1) = .query := rfl
@[simp] theorem cat_def {x0 x1 x2 x3} : cat (.def_ x0 x1 x2 x3) = .query := rfl
@[simp] theorem cat_piece {x0} : cat (.piece x0) = .part := rfl
@[simp] theorem cat_interp {x0} : cat (.interp x0) = .part := rfl
@[simp] theorem cat_kvKey {x0 x1} : cat (.kvKey x0 x1) = .entry := rfl
@[simp] theorem cat_kvStr {x0 x1} : cat (.kvStr x0 x1) = .entry := rfl
@[simp] theorem cat_kvQ {x0 x1} : cat (.kvQ x0 x1) = .entry := rfl
@[simp] theorem cat_elif {x0 x1} : cat (.elif x0 x1) = .elifC := rfl
@[simp] theorem cat_bIter : cat .bIter = .bracket := rfl
@[simp] theorem cat_bIdx {x0} : cat (.bIdx x0) = .bracket := rfl
@[simp] theorem cat_bSliceL {x0} : cat (.bSliceL x0) = .bracket := rfl
@[simp] theorem cat_bSliceR {x0} : cat (.bSliceR x0) = .bracket := rfl
@[simp] theorem cat_bSlice {x0 x1} : cat (.bSlice x0 x1) = .bracket := rfl
@[simp] theorem cat_pvar {x0} : cat (.pvar x0) = .pattern := rfl
@[simp] theorem cat_parr {x0} : cat (.parr x0) = .pattern := rfl
@[simp] theorem cat_pobj {x0} : cat (.pobj x0) = .pattern := rfl
@[simp] theorem cat_peVar {x0} : cat (.peVar x0) = .patEntry := rfl
@[simp] theorem cat_peKey {x0 x1} : cat (.peKey x0 x1) = .patEntry := rfl
@[simp] theorem cat_peStr {x0 x1} : cat (.peStr x0 x1) = .patEntry := rfl
@[simp] theorem cat_peQ {x0 x1} : cat (.peQ x0 x1) = .patEntry := rfl

/-! ### the converse: whatever the parser accepts is a well-formed tree whose printed form is the input -/

theorem bnd_some {α β : Type} {r : PR α} {k : α → List Tok → Option β} {x : β} (h : bnd r k = some x) :
    ∃ a ts, r = some (a, ts) ∧ k a ts = some x := by
  cases r with
  | none => simp [bnd] at h
  | some v => exact ⟨v.1, v.2, rfl, by simpa [bnd] using h⟩

theorem expect_some {β : Type} {t : Tok} {ts : List Tok} {k : List Tok → Option β} {x : β} (h : expect t ts k = some x) :
    ∃ r, ts = t :: r ∧ k r = some x := by
  cases ts with
  | nil => simp [expect] at h
  | cons t' r =>
    simp only [expect] at h
    split at h
    · rename_i ht; exact ⟨r, by rw [ht], h⟩
    · simp at h

theorem onTok_cases {β : Type} (t : Tok) (ts : List Tok) (k : List Tok → β) (n : β) :
    (∃ r, ts = t :: r ∧ onTok t ts k n = k r) ∨ ((∀ r, ts ≠ t :: r) ∧ onTok t ts k n = n) := by
  cases ts with
  | nil => exact Or.inr ⟨by simp, rfl⟩
  | cons t' r =>
    by_cases h : t' = t
    · subst h; exact Or.inl ⟨r, rfl, by simp [onTok]⟩
    · exact Or.inr ⟨by intro r' hr; cases hr; exact h rfl, by simp [onTok, h]⟩

theorem onOp_cases {β : Type} (ts : List Tok) (k : Op → List Tok → β) (n : β) :
    (∃ o r, ts = .op o :: r ∧ onOp ts k n = k o r) ∨ ((∀ o r, ts ≠ .op o :: r) ∧ onOp ts k n = n) := by
  cases ts with
  | nil => exact Or.inr ⟨by simp, rfl⟩
  | cons t r => cases t <;> first | exact Or.inl ⟨_, _, rfl, rfl⟩ | exact Or.inr ⟨by simp, rfl⟩

/-- the tokens a `StrHead` stands for -/
def unHead : StrHead → Option (List Tok)
  | .plain s r => some (.str s :: r)
  | .start r => some (.strStart :: r)
  | .no => none

theorem strHead_unHead (ts : List Tok) (h : strHead ts ≠ .no) : unHead (strHead ts) = some ts := by
  cases ts with
  | nil => simp [strHead] at h
  | cons t r => cases t <;> simp_all [strHead, unHead]

theorem onStr_cases {β : Type} (ts : List Tok) (A : β) (B : StrHead → β) :
    (strHead ts = .no ∧ onStr ts A B = A) ∨ (strHead ts ≠ .no ∧ onStr ts A B = B (strHead ts)) := by
  unfold onStr
  cases h : strHead ts <;> simp

def opFree (r : List Tok) : Prop := ∀ o r', r ≠ .op o :: r'

def ent (e : E) (m : Nat) (q : Bool) : Prop := if isOpen e then q = true else m ≤ level e

def edge (e : E) (m : Nat) (r : List Tok) : Prop := ∀ o r', r = .op o :: r' → o.prec < m ∧ openRight e = false

def pre (lhs : E) (prev m : Nat) (ts : List Tok) : Prop :=
  wf lhs = true ∧ cat lhs = .query ∧ ∀ o r', ts = .op o :: r' → openRight lhs = false ∧
    (m ≤ o.prec → ¬ (o.assoc = .non ∧ o.prec = prev) → o.lmin ≤ level lhs)

/-- a dangling `try` is never followed by `catch` -/
def dedge (e : E) (r : List Tok) : Prop := danglingTry e = true → headIs (.kw .catch_) r = false

structure Inv (f : Nat) : Prop where
  strTail : ∀ h s r, parseStrTail f h = some (s, r) → wf s = true ∧ isStr s = true ∧ unHead h = some (print s ++ r)
  parts : ∀ ts ps r, parseParts f ts = some (ps, r) → wfAll .part ps = true ∧ printCat ps ++ .strEnd :: r = ts
  term : ∀ ts e r, parseTerm f ts = some (e, r) → wf e = true ∧ isTerm e = true ∧ print e ++ r = ts ∧ dedge e r
  pfx : ∀ t ts e r, wf t = true → isPostfixable t = true → (notDot t = true ∨ headIs .lbrack ts = false) →
    parsePostfix f t ts = some (e, r) → wf e = true ∧ isPostfixable e = true ∧ print e ++ r = print t ++ ts
  bracket : ∀ ts b r, parseBracket f ts = some (b, r) → wf b = true ∧ cat b = .bracket ∧ print b ++ r = ts
  args : ∀ ts as r, parseArgs f ts = some (as, r) → as ≠ [] ∧ wfAll .query as = true ∧ printSep .semi as ++ .rparen :: r = ts
  elifs : ∀ ts es els r, parseElifs f ts = some ((es, els), r) →
    wfAll .elifC es = true ∧ (∀ e, els = some e → wf e = true ∧ cat e = .query) ∧ printCat es ++ (elseToks els ++ r) = ts
  elem : ∀ c ts x r, parseElem f c ts = some (x, r) → wf x = true ∧ cat x = c ∧ print x ++ r = ts
  sep : ∀ c sp cl ts xs r, parseSep f c sp cl ts = some (xs, r) → xs ≠ [] ∧ wfAll c xs = true ∧ printSep sp xs ++ cl :: r = ts
  objVal : ∀ ts v r, parseObjVal f ts = some (v, r) → wf v = true ∧ isObjVal v = true ∧ print v ++ r = ts
  entry : ∀ ts x r, parseEntry f ts = some (x, r) → wf x = true ∧ cat x = .entry ∧ print x ++ r = ts
  pattern : ∀ ts p r, parsePattern f ts = some (p, r) → wf p = true ∧ cat p = .pattern ∧ print p ++ r = ts
  patEntry : ∀ ts x r, parsePatEntry f ts = some (x, r) → wf x = true ∧ cat x = .patEntry ∧ print x ++ r = ts
  pats : ∀ ts ps r, parsePats f ts = some (ps, r) → ps ≠ [] ∧ wfAll .pattern ps = true ∧ printSep .destalt ps ++ r = ts
  params : ∀ ts ps r, parseParams f ts = some (ps, r) → ps ≠ [] ∧ ps.all isParamTok = true ∧ ps.intersperse .semi ++ .rparen :: r = ts
  operand : ∀ q ts e r, parseOperand f q ts = some (e, r) → wf e = true ∧ cat e = .query ∧ print e ++ r = ts ∧
    ((isTerm e = true) ∨ (isOpen e = true ∧ q = true ∧ opFree r))
  expr : ∀ m q ts e r, m ≤ 10 → 1 ≤ m → parseExpr f m q ts = some (e, r) →
    wf e = true ∧ cat e = .query ∧ print e ++ r = ts ∧ ent e m q ∧ edge e m r
  climb : ∀ m q lhs prev ts e r, m ≤ 10 → 1 ≤ m → pre lhs prev m ts → ent lhs m q → climb f m lhs prev ts = some (e, r) →
    wf e = true ∧ cat e = .query ∧ print e ++ r = print lhs ++ ts ∧ ent e m q ∧ edge e m r

theorem inv_zero : Inv 0 := by
  constructor <;> intros <;>
    simp_all [parseStrTail, parseParts, parseTerm, parsePostfix, parseBracket, parseArgs, parseElifs, parseElem, parseSep,
      parseObjVal, parseEntry, parsePattern, parsePatEntry, parsePats, parseParams, parseOperand, parseExpr, climb]

theorem is_strTail (f : Nat) (ih : Inv f) : ∀ h s r, parseStrTail (f + 1) h = some (s, r) →
    wf s = true ∧ isStr s = true ∧ unHead h = some (print s ++ r) := by
  intro h s r hp
  cases h with
  | plain s' r' =>
    simp only [parseStrTail, Option.some.injEq, Prod.mk.injEq] at hp
    obtain ⟨rfl, rfl⟩ := hp
    exact ⟨rfl, rfl, rfl⟩
  | start r' =>
    simp only [parseStrTail] at hp
    obtain ⟨ps, r1, h1, h2⟩ := bnd_some hp
    simp only [Option.some.injEq, Prod.mk.injEq] at h2
    obtain ⟨rfl, rfl⟩ := h2
    obtain ⟨hw, hpr⟩ := ih.parts _ _ _ h1
    exact ⟨by simpa [wf] using hw, rfl, by simp [unHead, print, ← hpr]⟩
  | no => simp [parseStrTail] at hp

theorem is_parts (f : Nat) (ih : Inv f) : ∀ ts ps r, parseParts (f + 1) ts = some (ps, r) →
    wfAll .part ps = true ∧ printCat ps ++ .strEnd :: r = ts := by
  intro ts ps r hp
  cases ts with
  | nil => simp [parseParts] at hp
  | cons t ts =>
    cases t with
    | strEnd =>
      simp only [parseParts, Option.some.injEq, Prod.mk.injEq] at hp
      obtain ⟨rfl, rfl⟩ := hp
      exact ⟨rfl, rfl⟩
    | str s =>
      simp only [parseParts] at hp
      obtain ⟨ps', r1, h1, h2⟩ := bnd_some hp
      simp only [Option.some.injEq, Prod.mk.injEq] at h2
      obtain ⟨rfl, rfl⟩ := h2
      obtain ⟨hw, hpr⟩ := ih.parts _ _ _ h1
      exact ⟨by simp [wfAll, wf, hw], by simp [printCat, print, hpr]⟩
    | strQuery =>
      simp only [parseParts] at hp
      obtain ⟨q, r1, h1, h2⟩ := bnd_some hp
      obtain ⟨r2, hr2, h3⟩ := expect_some h2
      obtain ⟨ps', r3, h4, h5⟩ := bnd_some h3
      simp only [Option.some.injEq, Prod.mk.injEq] at h5
      obtain ⟨rfl, rfl⟩ := h5
      obtain ⟨hwq, hcq, hpq, _, _⟩ := ih.expr 1 true _ _ _ (by omega) (by omega) h1
      obtain ⟨hw, hpr⟩ := ih.parts _ _ _ h4
      refine ⟨by simp [wfAll, wf, isQ, hwq, hcq, hw], ?_⟩
      simp [printCat, print, hpr, ← hpq, hr2]
    | _ => simp [parseParts] at hp

theorem is_args (f : Nat) (ih : Inv f) : ∀ ts as r, parseArgs (f + 1) ts = some (as, r) →
    as ≠ [] ∧ wfAll .query as = true ∧ printSep .semi as ++ .rparen :: r = ts := by
  intro ts as r hp
  simp only [parseArgs] at hp
  obtain ⟨a, r1, h1, h2⟩ := bnd_some hp
  obtain ⟨hwa, hca, hpa, _, _⟩ := ih.expr 1 true _ _ _ (by omega) (by omega) h1
  rcases onTok_cases .semi r1 (fun r' => bnd (parseArgs f r') fun as r'' => some (a :: as, r''))
      (expect .rparen r1 fun r' => some ([a], r')) with ⟨r2, hr2, he⟩ | ⟨_, he⟩
  · rw [he] at h2
    obtain ⟨as', r3, h3, h4⟩ := bnd_some h2
    simp only [Option.some.injEq, Prod.mk.injEq] at h4
    obtain ⟨rfl, rfl⟩ := h4
    obtain ⟨hne, hwas, hpas⟩ := ih.args _ _ _ h3
    refine ⟨by simp, by simp [wfAll, hwa, hca, hwas], ?_⟩
    cases as' with
    | nil => exact absurd rfl hne
    | cons b bs => simp [printSep, ← hpa, hr2, ← hpas]
  · rw [he] at h2
    obtain ⟨r2, hr2, h3⟩ := expect_some h2
    simp only [Option.some.injEq, Prod.mk.injEq] at h3
    obtain ⟨rfl, rfl⟩ := h3
    exact ⟨by simp, by simp [wfAll, hwa, hca], by simp [printSep, ← hpa, hr2]⟩


/-- shorthand: a query hole -/
theorem ih_q (f : Nat) (ih : Inv f) {ts e r} (h : parseExpr f 1 true ts = some (e, r)) :
    wf e = true ∧ cat e = .query ∧ print e ++ r = ts := by
  obtain ⟨a, b, c, _, _⟩ := ih.expr 1 true _ _ _ (by omega) (by omega) h
  exact ⟨a, b, c⟩

theorem is_bracket (f : Nat) (ih : Inv f) : ∀ ts b r, parseBracket (f + 1) ts = some (b, r) →
    wf b = true ∧ cat b = .bracket ∧ print b ++ r = ts := by
  intro ts b r hp
  simp only [parseBracket] at hp
  rcases onTok_cases .rbrack ts (fun r => some (E.bIter, r)) _ with ⟨r1, hr1, he⟩ | ⟨_, he⟩
  · rw [he] at hp
    simp only [Option.some.injEq, Prod.mk.injEq] at hp
    obtain ⟨rfl, rfl⟩ := hp
    exact ⟨rfl, rfl, by simp [print, hr1]⟩
  · rw [he] at hp
    rcases onTok_cases .colon ts (fun r => bnd (parseExpr f 1 true r) fun e r' => expect .rbrack r' fun r'' => some (E.bSliceR e, r'')) _
      with ⟨r1, hr1, he2⟩ | ⟨_, he2⟩
    · rw [he2] at hp
      obtain ⟨e, r2, h1, h2⟩ := bnd_some hp
      obtain ⟨r3, hr3, h3⟩ := expect_some h2
      simp only [Option.some.injEq, Prod.mk.injEq] at h3
      obtain ⟨rfl, rfl⟩ := h3
      obtain ⟨hw, hc, hpe⟩ := ih_q f ih h1
      exact ⟨by simp [wf, isQ, hw, hc], rfl, by simp [print, hr1, ← hpe, hr3]⟩
    · rw [he2] at hp
      obtain ⟨a, r1, h1, h2⟩ := bnd_some hp
      obtain ⟨hwa, hca, hpa⟩ := ih_q f ih h1
      rcases onTok_cases .rbrack r1 (fun r' => some (E.bIdx a, r')) _ with ⟨r2, hr2, he3⟩ | ⟨_, he3⟩
      · rw [he3] at h2
        simp only [Option.some.injEq, Prod.mk.injEq] at h2
        obtain ⟨rfl, rfl⟩ := h2
        exact ⟨by simp [wf, isQ, hwa, hca], rfl, by simp [print, ← hpa, hr2]⟩
      · rw [he3] at h2
        obtain ⟨r2, hr2, h3⟩ := expect_some h2
        rcases onTok_cases .rbrack r2 (fun r2 => some (E.bSliceL a, r2)) _ with ⟨r3, hr3, he4⟩ | ⟨_, he4⟩
        · rw [he4] at h3
          simp only [Option.some.injEq, Prod.mk.injEq] at h3
          obtain ⟨rfl, rfl⟩ := h3
          exact ⟨by simp [wf, isQ, hwa, hca], rfl, by simp [print, ← hpa, hr2, hr3]⟩
        · rw [he4] at h3
          obtain ⟨b', r3, h4, h5⟩ := bnd_some h3
          obtain ⟨r4, hr4, h6⟩ := expect_some h5
          simp only [Option.some.injEq, Prod.mk.injEq] at h6
          obtain ⟨rfl, rfl⟩ := h6
          obtain ⟨hwb, hcb, hpb⟩ := ih_q f ih h4
          exact ⟨by simp [wf, isQ, hwa, hca, hwb, hcb], rfl, by simp [print, ← hpa, hr2, ← hpb, hr4]⟩

theorem is_elifs (f : Nat) (ih : Inv f) : ∀ ts es els r, parseElifs (f + 1) ts = some ((es, els), r) →
    wfAll .elifC es = true ∧ (∀ e, els = some e → wf e = true ∧ cat e = .query) ∧ printCat es ++ (elseToks els ++ r) = ts := by
  intro ts es els r hp
  simp only [parseElifs] at hp
  rcases onTok_cases (.kw .elif_) ts (fun r => bnd (parseExpr f 1 true r) fun c r1 => expect (.kw .then_) r1 fun r2 =>
          bnd (parseExpr f 1 true r2) fun t r3 => bnd (parseElifs f r3) fun ee r4 => some ((E.elif c t :: ee.1, ee.2), r4)) _
    with ⟨r0, hr0, he⟩ | ⟨_, he⟩
  · rw [he] at hp
    obtain ⟨c, r1, h1, h2⟩ := bnd_some hp
    obtain ⟨r2, hr2, h3⟩ := expect_some h2
    obtain ⟨t, r3, h4, h5⟩ := bnd_some h3
    obtain ⟨ee, r4, h6, h7⟩ := bnd_some h5
    simp only [Option.some.injEq, Prod.mk.injEq] at h7
    obtain ⟨⟨rfl, rfl⟩, rfl⟩ := h7
    obtain ⟨hwc, hcc, hpc⟩ := ih_q f ih h1
    obtain ⟨hwt, hct, hpt⟩ := ih_q f ih h4
    obtain ⟨hwe, hel, hpe⟩ := ih.elifs _ ee.1 ee.2 _ (by simpa using h6)
    exact ⟨by simp [wfAll, wf, isQ, hwc, hcc, hwt, hct, hwe], hel, by simp [printCat, print, hr0, ← hpc, hr2, ← hpt, ← hpe]⟩
  · rw [he] at hp
    rcases onTok_cases (.kw .else_) ts (fun r => bnd (parseExpr f 1 true r) fun e r1 => expect (.kw .end_) r1 fun r2 =>
        some ((([] : List E), some e), r2)) _ with ⟨r0, hr0, he2⟩ | ⟨_, he2⟩
    · rw [he2] at hp
      obtain ⟨e, r1, h1, h2⟩ := bnd_some hp
      obtain ⟨r2, hr2, h3⟩ := expect_some h2
      simp only [Option.some.injEq, Prod.mk.injEq] at h3
      obtain ⟨⟨rfl, rfl⟩, rfl⟩ := h3
      obtain ⟨hwe, hce, hpe⟩ := ih_q f ih h1
      exact ⟨rfl, fun e' h => by cases h; exact ⟨hwe, hce⟩, by simp [printCat, elseToks, hr0, ← hpe, hr2]⟩
    · rw [he2] at hp
      obtain ⟨r1, hr1, h3⟩ := expect_some hp
      simp only [Option.some.injEq, Prod.mk.injEq] at h3
      obtain ⟨⟨rfl, rfl⟩, rfl⟩ := h3
      simp [wfAll, printCat, elseToks, hr1]

theorem is_elem (f : Nat) (ih : Inv f) : ∀ c ts x r, parseElem (f + 1) c ts = some (x, r) →
    wf x = true ∧ cat x = c ∧ print x ++ r = ts := by
  intro c ts x r hp
  cases c <;> simp only [parseElem] at hp
  · simp at hp
  · simp at hp
  · exact ih.entry _ _ _ hp
  · simp at hp
  · simp at hp
  · exact ih.pattern _ _ _ hp
  · exact ih.patEntry _ _ _ hp

theorem is_sep (f : Nat) (ih : Inv f) : ∀ c sp cl ts xs r, parseSep (f + 1) c sp cl ts = some (xs, r) →
    xs ≠ [] ∧ wfAll c xs = true ∧ printSep sp xs ++ cl :: r = ts := by
  intro c sp cl ts xs r hp
  simp only [parseSep] at hp
  obtain ⟨x, r1, h1, h2⟩ := bnd_some hp
  obtain ⟨hwx, hcx, hpx⟩ := ih.elem _ _ _ _ h1
  rcases onTok_cases sp r1 (fun r' => bnd (parseSep f c sp cl r') fun xs r'' => some (x :: xs, r'')) _ with ⟨r2, hr2, he⟩ | ⟨_, he⟩
  · rw [he] at h2
    obtain ⟨xs', r3, h3, h4⟩ := bnd_some h2
    simp only [Option.some.injEq, Prod.mk.injEq] at h4
    obtain ⟨rfl, rfl⟩ := h4
    obtain ⟨hne, hws, hps⟩ := ih.sep _ _ _ _ _ _ h3
    refine ⟨by simp, by simp [wfAll, hwx, hcx, hws], ?_⟩
    cases xs' with
    | nil => exact absurd rfl hne
    | cons b bs => simp [printSep, ← hpx, hr2, ← hps]
  · rw [he] at h2
    obtain ⟨r2, hr2, h3⟩ := expect_some h2
    simp only [Option.some.injEq, Prod.mk.injEq] at h3
    obtain ⟨rfl, rfl⟩ := h3
    exact ⟨by simp, by simp [wfAll, hwx, hcx], by simp [printSep, ← hpx, hr2]⟩


theorem ent3 (e : E) (h : ent e 3 false) : isOpen e = false ∧ 3 ≤ level e := by
  unfold ent at h
  by_cases ho : isOpen e = true
  · simp [ho] at h
  · simp [ho] at h; exact ⟨by simpa using ho, h⟩

theorem level_pos_of_closed (e : E) (h : isOpen e = false) : 1 ≤ level e := by
  cases e <;> simp_all [isOpen, level]
  exact op_prec_pos _

theorem isObjVal_simple (e : E) (hc : cat e = .query) (ho : isOpen e = false) (hl : 3 ≤ level e) : isObjVal e = true := by
  cases e with
  | bin o l r => cases o <;> simp_all [isObjVal, level, Op.prec, isOpen]
  | _ => simp_all [isObjVal, level, isOpen]

theorem is_objVal (f : Nat) (ih : Inv f) : ∀ ts v r, parseObjVal (f + 1) ts = some (v, r) →
    wf v = true ∧ isObjVal v = true ∧ print v ++ r = ts := by
  intro ts v r hp
  simp only [parseObjVal] at hp
  obtain ⟨e, r1, h1, h2⟩ := bnd_some hp
  obtain ⟨hwe, hce, hpe, hent, hedge⟩ := ih.expr 3 false _ _ _ (by omega) (by omega) h1
  obtain ⟨hoe, hle⟩ := ent3 e hent
  rcases onTok_cases (.op .pipe) r1 (fun r' => bnd (parseObjVal f r') fun v r'' => some (E.bin .pipe e v, r'')) _
    with ⟨r2, hr2, he⟩ | ⟨_, he⟩
  · rw [he] at h2
    obtain ⟨v', r3, h3, h4⟩ := bnd_some h2
    simp only [Option.some.injEq, Prod.mk.injEq] at h4
    obtain ⟨rfl, rfl⟩ := h4
    obtain ⟨hwv, hov, hpv⟩ := ih.objVal _ _ _ h3
    have hcv : cat v' = .query := objVal_cat v' hov
    have hor := (hedge .pipe r2 hr2).2
    refine ⟨?_, ?_, by simp [print, ← hpe, hr2, ← hpv]⟩
    · simp only [wf, Bool.and_eq_true, Nat.ble_eq, Bool.not_eq_true', isQ, beq_iff_eq]
      refine ⟨⟨⟨⟨⟨⟨hwe, hwv⟩, hce⟩, hcv⟩, hor⟩, by simp [Op.lmin, Op.assoc, Op.prec]; omega⟩, ?_⟩
      by_cases hov' : isOpen v' = true
      · simp [hov', Op.queryLevel]
      · have := level_pos_of_closed v' (by simpa using hov')
        simp [hov', Op.rmin, Op.assoc, Op.prec, Nat.ble_eq]; omega
    · simp [isObjVal, hce, hoe, hle, hov, Nat.ble_eq]
  · rw [he] at h2
    simp only [Option.some.injEq, Prod.mk.injEq] at h2
    obtain ⟨rfl, rfl⟩ := h2
    exact ⟨hwe, isObjVal_simple _ hce hoe hle, hpe⟩

/-- an optional `: objectval` after a key -/
theorem optVal_inv (f : Nat) (ih : Inv f) (mk : Option E → E) (r1 : List Tok) (x : E) (r : List Tok)
    (h : onTok .colon r1 (fun r' => bnd (parseObjVal f r') fun v r'' => some (mk (some v), r'')) (some (mk none, r1)) = some (x, r)) :
    (x = mk none ∧ r = r1) ∨ (∃ v r2, r1 = .colon :: r2 ∧ x = mk (some v) ∧ wf v = true ∧ isObjVal v = true ∧ print v ++ r = r2) := by
  rcases onTok_cases .colon r1 (fun r' => bnd (parseObjVal f r') fun v r'' => some (mk (some v), r'')) (some (mk none, r1))
    with ⟨r2, hr2, he⟩ | ⟨_, he⟩
  · rw [he] at h
    obtain ⟨v, r3, h3, h4⟩ := bnd_some h
    simp only [Option.some.injEq, Prod.mk.injEq] at h4
    obtain ⟨rfl, rfl⟩ := h4
    obtain ⟨hwv, hov, hpv⟩ := ih.objVal _ _ _ h3
    exact Or.inr ⟨v, r2, hr2, rfl, hwv, hov, hpv⟩
  · rw [he] at h
    simp only [Option.some.injEq, Prod.mk.injEq] at h
    exact Or.inl ⟨h.1.symm, h.2.symm⟩

theorem is_entry (f : Nat) (ih : Inv f) : ∀ ts x r, parseEntry (f + 1) ts = some (x, r) →
    wf x = true ∧ cat x = .entry ∧ print x ++ r = ts := by
  intro ts x r hp
  cases ts with
  | nil => simp [parseEntry] at hp
  | cons t ts =>
    by_cases htl : t = .lparen
    · subst htl
      simp only [parseEntry] at hp
      obtain ⟨q, r1, h1, h2⟩ := bnd_some hp
      obtain ⟨r2, hr2, h3⟩ := expect_some h2
      obtain ⟨r3, hr3, h4⟩ := expect_some h3
      obtain ⟨v, r4, h5, h6⟩ := bnd_some h4
      simp only [Option.some.injEq, Prod.mk.injEq] at h6
      obtain ⟨rfl, rfl⟩ := h6
      obtain ⟨hwq, hcq, hpq⟩ := ih_q f ih h1
      obtain ⟨hwv, hov, hpv⟩ := ih.objVal _ _ _ h5
      exact ⟨by simp [wf, isQ, hwq, hcq, hwv, hov], rfl, by simp [print, ← hpq, hr2, hr3, ← hpv]⟩
    · have hp' : onStr (t :: ts)
          (if isKeyTok t then
            onTok .colon ts (fun r' => bnd (parseObjVal f r') fun v r'' => some (E.kvKey t (some v), r'')) (some (E.kvKey t none, ts))
          else none)
          (fun h => bnd (parseStrTail f h) fun s r1 =>
            onTok .colon r1 (fun r' => bnd (parseObjVal f r') fun v r'' => some (E.kvStr s (some v), r'')) (some (E.kvStr s none, r1)))
          = some (x, r) := by
        cases t <;> first | exact absurd rfl htl | simpa [parseEntry] using hp
      rcases onStr_cases (t :: ts) _ _ with ⟨hno, he⟩ | ⟨hyes, he⟩
      · rw [he] at hp'
        by_cases hk : isKeyTok t = true
        · simp only [hk, if_true] at hp'
          rcases optVal_inv f ih (fun v => E.kvKey t v) ts x r hp' with ⟨rfl, rfl⟩ | ⟨v, r2, hr2, rfl, hwv, hov, hpv⟩
          · exact ⟨by simp [wf, hk], rfl, by simp [print]⟩
          · exact ⟨by simp [wf, hk, hwv, hov], rfl, by simp [print, hr2, ← hpv]⟩
        · simp [hk] at hp'
      · rw [he] at hp'
        obtain ⟨s, r1, h1, h2⟩ := bnd_some hp'
        obtain ⟨hws, hss, hps⟩ := ih.strTail _ _ _ h1
        rw [strHead_unHead _ hyes] at hps
        have hps' : print s ++ r1 = t :: ts := by simpa using hps.symm
        rcases optVal_inv f ih (fun v => E.kvStr s v) r1 x r h2 with ⟨rfl, rfl⟩ | ⟨v, r2, hr2, rfl, hwv, hov, hpv⟩
        · exact ⟨by simp [wf, hws, hss], rfl, by simp [print, hps']⟩
        · exact ⟨by simp [wf, hws, hss, hwv, hov], rfl, by rw [← hps', hr2, ← hpv]; simp [print]⟩


theorem is_pattern (f : Nat) (ih : Inv f) : ∀ ts p r, parsePattern (f + 1) ts = some (p, r) →
    wf p = true ∧ cat p = .pattern ∧ print p ++ r = ts := by
  intro ts p r hp
  cases ts with
  | nil => simp [parsePattern] at hp
  | cons t ts =>
    cases t with
    | var s =>
      simp only [parsePattern, Option.some.injEq, Prod.mk.injEq] at hp
      obtain ⟨rfl, rfl⟩ := hp
      exact ⟨rfl, rfl, rfl⟩
    | lbrack =>
      simp only [parsePattern] at hp
      obtain ⟨ps, r1, h1, h2⟩ := bnd_some hp
      simp only [Option.some.injEq, Prod.mk.injEq] at h2
      obtain ⟨rfl, rfl⟩ := h2
      obtain ⟨hne, hws, hps⟩ := ih.sep _ _ _ _ _ _ h1
      exact ⟨by simp [wf, hws, List.isEmpty_eq_false_iff.mpr hne], rfl, by simp [print, ← hps]⟩
    | lbrace =>
      simp only [parsePattern] at hp
      obtain ⟨ps, r1, h1, h2⟩ := bnd_some hp
      simp only [Option.some.injEq, Prod.mk.injEq] at h2
      obtain ⟨rfl, rfl⟩ := h2
      obtain ⟨hne, hws, hps⟩ := ih.sep _ _ _ _ _ _ h1
      exact ⟨by simp [wf, hws, List.isEmpty_eq_false_iff.mpr hne], rfl, by simp [print, ← hps]⟩
    | _ => simp [parsePattern] at hp

theorem is_patEntry (f : Nat) (ih : Inv f) : ∀ ts x r, parsePatEntry (f + 1) ts = some (x, r) →
    wf x = true ∧ cat x = .patEntry ∧ print x ++ r = ts := by
  intro ts x r hp
  cases ts with
  | nil => simp [parsePatEntry] at hp
  | cons t ts =>
    by_cases htl : t = .lparen
    · subst htl
      simp only [parsePatEntry] at hp
      obtain ⟨q, r1, h1, h2⟩ := bnd_some hp
      obtain ⟨r2, hr2, h3⟩ := expect_some h2
      obtain ⟨r3, hr3, h4⟩ := expect_some h3
      obtain ⟨p, r4, h5, h6⟩ := bnd_some h4
      simp only [Option.some.injEq, Prod.mk.injEq] at h6
      obtain ⟨rfl, rfl⟩ := h6
      obtain ⟨hwq, hcq, hpq⟩ := ih_q f ih h1
      obtain ⟨hwp, hcp, hpp⟩ := ih.pattern _ _ _ h5
      exact ⟨by simp [wf, isQ, hwq, hcq, hwp, hcp], rfl, by simp [print, ← hpq, hr2, hr3, ← hpp]⟩
    · by_cases htv : ∃ s, t = .var s
      · obtain ⟨s, rfl⟩ := htv
        simp only [parsePatEntry] at hp
        rcases onTok_cases .colon ts (fun r' => bnd (parsePattern f r') fun p r'' => some (E.peKey (.var s) p, r'')) _
          with ⟨r2, hr2, he⟩ | ⟨_, he⟩
        · rw [he] at hp
          obtain ⟨p, r3, h3, h4⟩ := bnd_some hp
          simp only [Option.some.injEq, Prod.mk.injEq] at h4
          obtain ⟨rfl, rfl⟩ := h4
          obtain ⟨hwp, hcp, hpp⟩ := ih.pattern _ _ _ h3
          exact ⟨by simp [wf, isKeyTok, hwp, hcp], rfl, by simp [print, hr2, ← hpp]⟩
        · rw [he] at hp
          simp only [Option.some.injEq, Prod.mk.injEq] at hp
          obtain ⟨rfl, rfl⟩ := hp
          exact ⟨rfl, rfl, rfl⟩
      · have hp' : onStr (t :: ts)
            (if isKeyTok t then expect .colon ts fun r' => bnd (parsePattern f r') fun p r'' => some (E.peKey t p, r'') else none)
            (fun h => bnd (parseStrTail f h) fun s r1 => expect .colon r1 fun r' =>
              bnd (parsePattern f r') fun p r'' => some (E.peStr s p, r'')) = some (x, r) := by
          cases t <;> first | exact absurd rfl htl | exact absurd ⟨_, rfl⟩ htv | simpa [parsePatEntry] using hp
        rcases onStr_cases (t :: ts) _ _ with ⟨hno, he⟩ | ⟨hyes, he⟩
        · rw [he] at hp'
          by_cases hk : isKeyTok t = true
          · simp only [hk, if_true] at hp'
            obtain ⟨r2, hr2, h3⟩ := expect_some hp'
            obtain ⟨p, r3, h4, h5⟩ := bnd_some h3
            simp only [Option.some.injEq, Prod.mk.injEq] at h5
            obtain ⟨rfl, rfl⟩ := h5
            obtain ⟨hwp, hcp, hpp⟩ := ih.pattern _ _ _ h4
            exact ⟨by simp [wf, hk, hwp, hcp], rfl, by simp [print, hr2, ← hpp]⟩
          · simp [hk] at hp'
        · rw [he] at hp'
          obtain ⟨s, r1, h1, h2⟩ := bnd_some hp'
          obtain ⟨hws, hss, hps⟩ := ih.strTail _ _ _ h1
          rw [strHead_unHead _ hyes] at hps
          have hps' : print s ++ r1 = t :: ts := by simpa using hps.symm
          obtain ⟨r2, hr2, h3⟩ := expect_some h2
          obtain ⟨p, r3, h4, h5⟩ := bnd_some h3
          simp only [Option.some.injEq, Prod.mk.injEq] at h5
          obtain ⟨rfl, rfl⟩ := h5
          obtain ⟨hwp, hcp, hpp⟩ := ih.pattern _ _ _ h4
          exact ⟨by simp [wf, hws, hss, hwp, hcp], rfl, by rw [← hps', hr2, ← hpp]; simp [print]⟩

theorem is_pats (f : Nat) (ih : Inv f) : ∀ ts ps r, parsePats (f + 1) ts = some (ps, r) →
    ps ≠ [] ∧ wfAll .pattern ps = true ∧ printSep .destalt ps ++ r = ts := by
  intro ts ps r hp
  simp only [parsePats] at hp
  obtain ⟨p, r1, h1, h2⟩ := bnd_some hp
  obtain ⟨hwp, hcp, hpp⟩ := ih.pattern _ _ _ h1
  rcases onTok_cases .destalt r1 (fun r' => bnd (parsePats f r') fun ps r'' => some (p :: ps, r'')) _ with ⟨r2, hr2, he⟩ | ⟨_, he⟩
  · rw [he] at h2
    obtain ⟨ps', r3, h3, h4⟩ := bnd_some h2
    simp only [Option.some.injEq, Prod.mk.injEq] at h4
    obtain ⟨rfl, rfl⟩ := h4
    obtain ⟨hne, hws, hps⟩ := ih.pats _ _ _ h3
    refine ⟨by simp, by simp [wfAll, hwp, hcp, hws], ?_⟩
    cases ps' with
    | nil => exact absurd rfl hne
    | cons b bs => simp [printSep, ← hpp, hr2, ← hps]
  · rw [he] at h2
    simp only [Option.some.injEq, Prod.mk.injEq] at h2
    obtain ⟨rfl, rfl⟩ := h2
    exact ⟨by simp, by simp [wfAll, hwp, hcp], by simp [printSep, hpp]⟩

theorem is_params (f : Nat) (ih : Inv f) : ∀ ts ps r, parseParams (f + 1) ts = some (ps, r) →
    ps ≠ [] ∧ ps.all isParamTok = true ∧ ps.intersperse .semi ++ .rparen :: r = ts := by
  intro ts ps r hp
  cases ts with
  | nil => simp [parseParams] at hp
  | cons t ts =>
    simp only [parseParams] at hp
    by_cases hk : isParamTok t = true
    · simp only [hk, if_true] at hp
      rcases onTok_cases .semi ts (fun r' => bnd (parseParams f r') fun ps r'' => some (t :: ps, r'')) _ with ⟨r2, hr2, he⟩ | ⟨_, he⟩
      · rw [he] at hp
        obtain ⟨ps', r3, h3, h4⟩ := bnd_some hp
        simp only [Option.some.injEq, Prod.mk.injEq] at h4
        obtain ⟨rfl, rfl⟩ := h4
        obtain ⟨hne, hall, hps⟩ := ih.params _ _ _ h3
        refine ⟨by simp, by simp [hk, hall], ?_⟩
        cases ps' with
        | nil => exact absurd rfl hne
        | cons b bs => simp [List.intersperse, hr2, ← hps]
      · rw [he] at hp
        obtain ⟨r2, hr2, h3⟩ := expect_some hp
        simp only [Option.some.injEq, Prod.mk.injEq] at h3
        obtain ⟨rfl, rfl⟩ := h3
        exact ⟨by simp, by simp [hk], by simp [List.intersperse, hr2]⟩
    · simp [hk] at hp

theorem is_pfx (f : Nat) (ih : Inv f) : ∀ t ts e r, wf t = true → isPostfixable t = true →
    (notDot t = true ∨ headIs .lbrack ts = false) → parsePostfix (f + 1) t ts = some (e, r) →
    wf e = true ∧ isPostfixable e = true ∧ print e ++ r = print t ++ ts := by
  intro t ts e r hwt hpt hnd hp
  cases ts with
  | nil =>
    simp only [parsePostfix, Option.some.injEq, Prod.mk.injEq] at hp
    obtain ⟨rfl, rfl⟩ := hp
    exact ⟨hwt, hpt, rfl⟩
  | cons tk r0 =>
    cases tk with
    | quest =>
      simp only [parsePostfix] at hp
      obtain ⟨h1, h2, h3⟩ := ih.pfx (.opt t) r0 e r (by simp [wf, hwt, hpt]) rfl (Or.inl rfl) hp
      exact ⟨h1, h2, by simpa [print] using h3⟩
    | field s =>
      simp only [parsePostfix] at hp
      obtain ⟨h1, h2, h3⟩ := ih.pfx (.sfxField t s) r0 e r (by simp [wf, hwt, hpt]) rfl (Or.inl rfl) hp
      exact ⟨h1, h2, by simpa [print] using h3⟩
    | dot =>
      simp only [parsePostfix] at hp
      rcases onStr_cases r0 _ _ with ⟨hno, he⟩ | ⟨hyes, he⟩
      · rw [he] at hp
        simp only [Option.some.injEq, Prod.mk.injEq] at hp
        obtain ⟨rfl, rfl⟩ := hp
        exact ⟨hwt, hpt, rfl⟩
      · rw [he] at hp
        obtain ⟨s, r1, h1, h2⟩ := bnd_some hp
        obtain ⟨hws, hss, hps⟩ := ih.strTail _ _ _ h1
        rw [strHead_unHead _ hyes] at hps
        have hps' : print s ++ r1 = r0 := by simpa using hps.symm
        obtain ⟨h3, h4, h5⟩ := ih.pfx (.sfxStr t s) r1 e r (by simp [wf, hwt, hpt, hws, hss]) rfl (Or.inl rfl) h2
        exact ⟨h3, h4, by rw [h5, ← hps']; simp [print]⟩
    | lbrack =>
      simp only [parsePostfix] at hp
      obtain ⟨b, r1, h1, h2⟩ := bnd_some hp
      obtain ⟨hwb, hcb, hpb⟩ := ih.bracket _ _ _ h1
      have hnd' : notDot t = true := by
        rcases hnd with h | h
        · exact h
        · simp [headIs] at h
      obtain ⟨h3, h4, h5⟩ := ih.pfx (.sfxBr t b) r1 e r (by simp [wf, hwt, hpt, hnd', hwb, hcb]) rfl (Or.inl rfl) h2
      exact ⟨h3, h4, by rw [h5, ← hpb]; simp [print]⟩
    | _ =>
      simp only [parsePostfix, Option.some.injEq, Prod.mk.injEq] at hp
      obtain ⟨rfl, rfl⟩ := hp
      exact ⟨hwt, hpt, rfl⟩

theorem postfixable_not_dangling (e : E) (h : isPostfixable e = true) : danglingTry e = false := by
  cases e <;> simp_all [isPostfixable, danglingTry]

/-- a primary followed by its postfix operators -/
theorem fin_pfx (f : Nat) (ih : Inv f) (t0 : E) (rest : List Tok) (e : E) (r : List Tok)
    (hw0 : wf t0 = true) (hp0 : isPostfixable t0 = true) (hnd : notDot t0 = true ∨ headIs .lbrack rest = false)
    (hp : parsePostfix f t0 rest = some (e, r)) :
    wf e = true ∧ isTerm e = true ∧ print e ++ r = print t0 ++ rest ∧ dedge e r := by
  obtain ⟨h1, h2, h3⟩ := ih.pfx t0 rest e r hw0 hp0 hnd hp
  exact ⟨h1, postfixable_term e h2, h3, by intro hd; rw [postfixable_not_dangling e h2] at hd; cases hd⟩


theorem is_term (f : Nat) (ih : Inv f) : ∀ ts e r, parseTerm (f + 1) ts = some (e, r) →
    wf e = true ∧ isTerm e = true ∧ print e ++ r = ts ∧ dedge e r := by
  intro ts e r hp
  cases ts with
  | nil => simp [parseTerm] at hp
  | cons t ts =>
    cases t with
    | num s =>
      simp only [parseTerm] at hp
      obtain ⟨a, b, c, d⟩ := fin_pfx f ih (.num s) ts e r rfl rfl (Or.inl rfl) hp
      exact ⟨a, b, by simpa [print] using c, d⟩
    | str s =>
      simp only [parseTerm] at hp
      obtain ⟨a, b, c, d⟩ := fin_pfx f ih (.strl s) ts e r rfl rfl (Or.inl rfl) hp
      exact ⟨a, b, by simpa [print] using c, d⟩
    | strStart =>
      simp only [parseTerm] at hp
      obtain ⟨ps, r1, h1, h2⟩ := bnd_some hp
      obtain ⟨hw, hpr⟩ := ih.parts _ _ _ h1
      obtain ⟨a, b, c, d⟩ := fin_pfx f ih (.istr ps) r1 e r (by simpa [wf] using hw) rfl (Or.inl rfl) h2
      exact ⟨a, b, by rw [c, ← hpr]; simp [print], d⟩
    | ident s =>
      simp only [parseTerm] at hp
      rcases onTok_cases .lparen ts (fun r => bnd (parseArgs f r) fun as r' => parsePostfix f (E.call s as) r') _
        with ⟨r1, hr1, he⟩ | ⟨_, he⟩
      · rw [he] at hp
        obtain ⟨as, r2, h1, h2⟩ := bnd_some hp
        obtain ⟨hne, hwas, hpas⟩ := ih.args _ _ _ h1
        obtain ⟨a, b, c, d⟩ := fin_pfx f ih (.call s as) r2 e r
          (by simp [wf, hwas, List.isEmpty_eq_false_iff.mpr hne]) rfl (Or.inl rfl) h2
        exact ⟨a, b, by rw [c, hr1, ← hpas]; simp [print], d⟩
      · rw [he] at hp
        obtain ⟨a, b, c, d⟩ := fin_pfx f ih (.ident s) ts e r rfl rfl (Or.inl rfl) hp
        exact ⟨a, b, by simpa [print] using c, d⟩
    | var s =>
      simp only [parseTerm] at hp
      obtain ⟨a, b, c, d⟩ := fin_pfx f ih (.var s) ts e r rfl rfl (Or.inl rfl) hp
      exact ⟨a, b, by simpa [print] using c, d⟩
    | field s =>
      simp only [parseTerm] at hp
      obtain ⟨a, b, c, d⟩ := fin_pfx f ih (.field s) ts e r rfl rfl (Or.inl rfl) hp
      exact ⟨a, b, by simpa [print] using c, d⟩
    | dotdot =>
      simp only [parseTerm] at hp
      obtain ⟨a, b, c, d⟩ := fin_pfx f ih .dotdot ts e r rfl rfl (Or.inl rfl) hp
      exact ⟨a, b, by simpa [print] using c, d⟩
    | dot =>
      simp only [parseTerm] at hp
      rcases onTok_cases .lbrack ts (fun r => bnd (parseBracket f r) fun b r' => parsePostfix f (E.dotIdx b) r') _
        with ⟨r1, hr1, he⟩ | ⟨hnl, he⟩
      · rw [he] at hp
        obtain ⟨b, r2, h1, h2⟩ := bnd_some hp
        obtain ⟨hwb, hcb, hpb⟩ := ih.bracket _ _ _ h1
        obtain ⟨a, b', c, d⟩ := fin_pfx f ih (.dotIdx b) r2 e r (by simp [wf, hwb, hcb]) rfl (Or.inl rfl) h2
        exact ⟨a, b', by rw [c, hr1, ← hpb]; simp [print], d⟩
      · rw [he] at hp
        rcases onStr_cases ts _ _ with ⟨hno, he2⟩ | ⟨hyes, he2⟩
        · rw [he2] at hp
          have hnd : headIs .lbrack ts = false := by
            cases ts with
            | nil => rfl
            | cons t2 r2 =>
              simp only [headIs, beq_eq_false_iff_ne, ne_eq]
              intro h; exact hnl r2 (by rw [h])
          obtain ⟨a, b, c, d⟩ := fin_pfx f ih .dot ts e r rfl rfl (Or.inr hnd) hp
          exact ⟨a, b, by simpa [print] using c, d⟩
        · rw [he2] at hp
          obtain ⟨s, r1, h1, h2⟩ := bnd_some hp
          obtain ⟨hws, hss, hps⟩ := ih.strTail _ _ _ h1
          rw [strHead_unHead _ hyes] at hps
          have hps' : print s ++ r1 = ts := by simpa using hps.symm
          obtain ⟨a, b, c, d⟩ := fin_pfx f ih (.dotStr s) r1 e r (by simp [wf, hws, hss]) rfl (Or.inl rfl) h2
          exact ⟨a, b, by rw [c, ← hps']; simp [print], d⟩
    | fmt s =>
      simp only [parseTerm] at hp
      rcases onStr_cases ts _ _ with ⟨hno, he2⟩ | ⟨hyes, he2⟩
      · rw [he2] at hp
        obtain ⟨a, b, c, d⟩ := fin_pfx f ih (.fmt s) ts e r rfl rfl (Or.inl rfl) hp
        exact ⟨a, b, by simpa [print] using c, d⟩
      · rw [he2] at hp
        obtain ⟨sv, r1, h1, h2⟩ := bnd_some hp
        obtain ⟨hws, hss, hps⟩ := ih.strTail _ _ _ h1
        rw [strHead_unHead _ hyes] at hps
        have hps' : print sv ++ r1 = ts := by simpa using hps.symm
        obtain ⟨a, b, c, d⟩ := fin_pfx f ih (.fmtS s sv) r1 e r (by simp [wf, hws, hss]) rfl (Or.inl rfl) h2
        exact ⟨a, b, by rw [c, ← hps']; simp [print], d⟩
    | lbrack =>
      simp only [parseTerm] at hp
      rcases onTok_cases .rbrack ts (fun r => parsePostfix f (E.arr none) r) _ with ⟨r1, hr1, he⟩ | ⟨_, he⟩
      · rw [he] at hp
        obtain ⟨a, b, c, d⟩ := fin_pfx f ih (.arr none) r1 e r rfl rfl (Or.inl rfl) hp
        exact ⟨a, b, by rw [c, hr1]; simp [print], d⟩
      · rw [he] at hp
        obtain ⟨q, r1, h1, h2⟩ := bnd_some hp
        obtain ⟨r2, hr2, h3⟩ := expect_some h2
        obtain ⟨hwq, hcq, hpq⟩ := ih_q f ih h1
        obtain ⟨a, b, c, d⟩ := fin_pfx f ih (.arr (some q)) r2 e r (by simp [wf, isQ, hwq, hcq]) rfl (Or.inl rfl) h3
        exact ⟨a, b, by rw [c, ← hpq, hr2]; simp [print], d⟩
    | lbrace =>
      simp only [parseTerm] at hp
      rcases onTok_cases .rbrace ts (fun r => parsePostfix f (E.obj []) r) _ with ⟨r1, hr1, he⟩ | ⟨_, he⟩
      · rw [he] at hp
        obtain ⟨a, b, c, d⟩ := fin_pfx f ih (.obj []) r1 e r rfl rfl (Or.inl rfl) hp
        exact ⟨a, b, by rw [c, hr1]; simp [print, printSep], d⟩
      · rw [he] at hp
        obtain ⟨kvs, r1, h1, h2⟩ := bnd_some hp
        obtain ⟨hne, hws, hps⟩ := ih.sep _ _ _ _ _ _ h1
        obtain ⟨a, b, c, d⟩ := fin_pfx f ih (.obj kvs) r1 e r (by simpa [wf] using hws) rfl (Or.inl rfl) h2
        exact ⟨a, b, by rw [c, ← hps]; simp [print], d⟩
    | lparen =>
      simp only [parseTerm] at hp
      obtain ⟨q, r1, h1, h2⟩ := bnd_some hp
      obtain ⟨r2, hr2, h3⟩ := expect_some h2
      obtain ⟨hwq, hcq, hpq⟩ := ih_q f ih h1
      obtain ⟨a, b, c, d⟩ := fin_pfx f ih (.paren q) r2 e r (by simp [wf, isQ, hwq, hcq]) rfl (Or.inl rfl) h3
      exact ⟨a, b, by rw [c, ← hpq, hr2]; simp [print], d⟩
    | op o =>
      cases o with
      | sub =>
        simp only [parseTerm] at hp
        obtain ⟨e1, r1, h1, h2⟩ := bnd_some hp
        simp only [Option.some.injEq, Prod.mk.injEq] at h2
        obtain ⟨rfl, rfl⟩ := h2
        obtain ⟨a, b, c, d⟩ := ih.term _ _ _ h1
        exact ⟨by simp [wf, a, b], rfl, by simp [print, c], by simpa [dedge, danglingTry] using d⟩
      | add =>
        simp only [parseTerm] at hp
        obtain ⟨e1, r1, h1, h2⟩ := bnd_some hp
        simp only [Option.some.injEq, Prod.mk.injEq] at h2
        obtain ⟨rfl, rfl⟩ := h2
        obtain ⟨a, b, c, d⟩ := ih.term _ _ _ h1
        exact ⟨by simp [wf, a, b], rfl, by simp [print, c], by simpa [dedge, danglingTry] using d⟩
      | _ => simp [parseTerm] at hp
    | kw k =>
      cases k with
      | null =>
        simp only [parseTerm] at hp
        obtain ⟨a, b, c, d⟩ := fin_pfx f ih (.lit .null) ts e r rfl rfl (Or.inl rfl) hp
        exact ⟨a, b, by simpa [print] using c, d⟩
      | true_ =>
        simp only [parseTerm] at hp
        obtain ⟨a, b, c, d⟩ := fin_pfx f ih (.lit .true_) ts e r rfl rfl (Or.inl rfl) hp
        exact ⟨a, b, by simpa [print] using c, d⟩
      | false_ =>
        simp only [parseTerm] at hp
        obtain ⟨a, b, c, d⟩ := fin_pfx f ih (.lit .false_) ts e r rfl rfl (Or.inl rfl) hp
        exact ⟨a, b, by simpa [print] using c, d⟩
      | if_ =>
        simp only [parseTerm] at hp
        obtain ⟨c, r1, h1, h2⟩ := bnd_some hp
        obtain ⟨r2, hr2, h3⟩ := expect_some h2
        obtain ⟨t, r3, h4, h5⟩ := bnd_some h3
        obtain ⟨ee, r4, h6, h7⟩ := bnd_some h5
        obtain ⟨hwc, hcc, hpc⟩ := ih_q f ih h1
        obtain ⟨hwt, hct, hpt⟩ := ih_q f ih h4
        obtain ⟨hwe, hel, hpe⟩ := ih.elifs _ ee.1 ee.2 _ (by simpa using h6)
        have hwite : wf (.ite c t ee.1 ee.2) = true := by
          cases hee : ee.2 with
          | none => simp [wf, isQ, hwc, hcc, hwt, hct, hwe]
          | some e' =>
            obtain ⟨h8, h9⟩ := hel e' hee
            simp [wf, isQ, hwc, hcc, hwt, hct, hwe, h8, h9]
        obtain ⟨a, b, c', d⟩ := fin_pfx f ih (.ite c t ee.1 ee.2) r4 e r hwite rfl (Or.inl rfl) h7
        exact ⟨a, b, by rw [c', print_ite, ← hpc, hr2, ← hpt, ← hpe]; simp, d⟩
      | try_ =>
        simp only [parseTerm] at hp
        obtain ⟨b, r1, h1, h2⟩ := bnd_some hp
        obtain ⟨hwb, htb, hpb, hdb⟩ := ih.term _ _ _ h1
        rcases onTok_cases (.kw .catch_) r1 (fun r' => bnd (parseTerm f r') fun c r'' => some (E.try_ b (some c), r'')) _
          with ⟨r2, hr2, he⟩ | ⟨hnc, he⟩
        · rw [he] at h2
          obtain ⟨c, r3, h3, h4⟩ := bnd_some h2
          simp only [Option.some.injEq, Prod.mk.injEq] at h4
          obtain ⟨rfl, rfl⟩ := h4
          obtain ⟨hwc, htc, hpc, hdc⟩ := ih.term _ _ _ h3
          have hnd : danglingTry b = false := by
            by_cases hd : danglingTry b = true
            · have := hdb hd; simp [hr2, headIs] at this
            · simpa using hd
          exact ⟨by simp [wf, hwb, htb, hnd, hwc, htc], rfl, by simp [print, ← hpb, hr2, ← hpc],
            by simpa [dedge, danglingTry] using hdc⟩
        · rw [he] at h2
          simp only [Option.some.injEq, Prod.mk.injEq] at h2
          obtain ⟨rfl, rfl⟩ := h2
          refine ⟨by simp [wf, hwb, htb], rfl, by simp [print, hpb], ?_⟩
          intro _
          cases r1 with
          | nil => rfl
          | cons t2 r2 =>
            simp only [headIs, beq_eq_false_iff_ne, ne_eq]
            intro h; exact hnc r2 (by rw [h])
      | reduce =>
        simp only [parseTerm] at hp
        obtain ⟨src, r1, h1, h2⟩ := bnd_some hp
        obtain ⟨r2, hr2, h3⟩ := expect_some h2
        obtain ⟨p, r3, h4, h5⟩ := bnd_some h3
        obtain ⟨r4, hr4, h6⟩ := expect_some h5
        obtain ⟨a, r5, h7, h8⟩ := bnd_some h6
        obtain ⟨r6, hr6, h9⟩ := expect_some h8
        obtain ⟨b, r7, h10, h11⟩ := bnd_some h9
        obtain ⟨r8, hr8, h12⟩ := expect_some h11
        obtain ⟨hws, hcs, hps, hent, _⟩ := ih.expr 3 false _ _ _ (by omega) (by omega) h1
        obtain ⟨hos, hls⟩ := ent3 src hent
        obtain ⟨hwp, hcp, hpp⟩ := ih.pattern _ _ _ h4
        obtain ⟨hwa, hca, hpa⟩ := ih_q f ih h7
        obtain ⟨hwb, hcb, hpb⟩ := ih_q f ih h10
        obtain ⟨a', b', c', d⟩ := fin_pfx f ih (.reduce src p a b) r8 e r
          (by simp [wf, isQ, hws, hcs, hos, hls, hwp, hcp, hwa, hca, hwb, hcb, Nat.ble_eq]) rfl (Or.inl rfl) h12
        exact ⟨a', b', by rw [c', ← hps, hr2, ← hpp, hr4, ← hpa, hr6, ← hpb, hr8]; simp [print], d⟩
      | foreach =>
        simp only [parseTerm] at hp
        obtain ⟨src, r1, h1, h2⟩ := bnd_some hp
        obtain ⟨r2, hr2, h3⟩ := expect_some h2
        obtain ⟨p, r3, h4, h5⟩ := bnd_some h3
        obtain ⟨r4, hr4, h6⟩ := expect_some h5
        obtain ⟨a, r5, h7, h8⟩ := bnd_some h6
        obtain ⟨r6, hr6, h9⟩ := expect_some h8
        obtain ⟨b, r7, h10, h11⟩ := bnd_some h9
        obtain ⟨hws, hcs, hps, hent, _⟩ := ih.expr 3 false _ _ _ (by omega) (by omega) h1
        obtain ⟨hos, hls⟩ := ent3 src hent
        obtain ⟨hwp, hcp, hpp⟩ := ih.pattern _ _ _ h4
        obtain ⟨hwa, hca, hpa⟩ := ih_q f ih h7
        obtain ⟨hwb, hcb, hpb⟩ := ih_q f ih h10
        rcases onTok_cases .semi r7 (fun r7 => bnd (parseExpr f 1 true r7) fun c r8 => expect .rparen r8 fun r9 =>
            parsePostfix f (E.foreach src p a b (some c)) r9) _ with ⟨r8, hr8, he⟩ | ⟨_, he⟩
        · rw [he] at h11
          obtain ⟨c, r9, h12, h13⟩ := bnd_some h11
          obtain ⟨r10, hr10, h14⟩ := expect_some h13
          obtain ⟨hwc, hcc, hpc⟩ := ih_q f ih h12
          obtain ⟨a', b', c', d⟩ := fin_pfx f ih (.foreach src p a b (some c)) r10 e r
            (by simp [wf, isQ, hws, hcs, hos, hls, hwp, hcp, hwa, hca, hwb, hcb, hwc, hcc, Nat.ble_eq]) rfl (Or.inl rfl) h14
          exact ⟨a', b', by rw [c', ← hps, hr2, ← hpp, hr4, ← hpa, hr6, ← hpb, hr8, ← hpc, hr10]; simp [print], d⟩
        · rw [he] at h11
          obtain ⟨r8, hr8, h12⟩ := expect_some h11
          obtain ⟨a', b', c', d⟩ := fin_pfx f ih (.foreach src p a b none) r8 e r
            (by simp [wf, isQ, hws, hcs, hos, hls, hwp, hcp, hwa, hca, hwb, hcb, Nat.ble_eq]) rfl (Or.inl rfl) h12
          exact ⟨a', b', by rw [c', ← hps, hr2, ← hpp, hr4, ← hpa, hr6, ← hpb, hr8]; simp [print], d⟩
      | break_ =>
        simp only [parseTerm] at hp
        cases ts with
        | nil => simp at hp
        | cons t2 r2 =>
          cases t2 with
          | var s =>
            simp only at hp
            obtain ⟨a, b, c, d⟩ := fin_pfx f ih (.brk s) r2 e r rfl rfl (Or.inl rfl) hp
            exact ⟨a, b, by rw [c]; simp [print], d⟩
          | _ => simp at hp
      | _ => simp [parseTerm] at hp
    | _ => simp [parseTerm] at hp

theorem opFree_of_edge1 (e : E) (r : List Tok) (h : edge e 1 r) : opFree r := by
  intro o r' hr
  have := (h o r' hr).1
  have := op_prec_pos o
  omega

theorem is_operand (f : Nat) (ih : Inv f) : ∀ q ts e r, parseOperand (f + 1) q ts = some (e, r) →
    wf e = true ∧ cat e = .query ∧ print e ++ r = ts ∧ ((isTerm e = true) ∨ (isOpen e = true ∧ q = true ∧ opFree r)) := by
  intro q ts e r hp
  simp only [parseOperand] at hp
  rcases onTok_cases (.kw .label) ts _ _ with ⟨r0, hr0, he⟩ | ⟨_, he⟩
  · rw [he] at hp
    cases q with
    | false => simp at hp
    | true =>
      simp only [if_true] at hp
      cases r0 with
      | nil => simp at hp
      | cons a r1 =>
        cases a with
        | var s =>
          cases r1 with
          | nil => simp at hp
          | cons b r2 =>
            cases b with
            | op o =>
              cases o with
              | pipe =>
                simp only at hp
                obtain ⟨bd, r3, h1, h2⟩ := bnd_some hp
                simp only [Option.some.injEq, Prod.mk.injEq] at h2
                obtain ⟨rfl, rfl⟩ := h2
                obtain ⟨hwb, hcb, hpb, _, hedge⟩ := ih.expr 1 true _ _ _ (by omega) (by omega) h1
                exact ⟨by simp [wf, isQ, hwb, hcb], rfl, by simp [print, hr0, ← hpb],
                  Or.inr ⟨rfl, rfl, opFree_of_edge1 _ _ hedge⟩⟩
              | _ => simp at hp
            | _ => simp at hp
        | _ => simp at hp
  · rw [he] at hp
    rcases onTok_cases (.kw .def_) ts _ _ with ⟨r0, hr0, he2⟩ | ⟨_, he2⟩
    · rw [he2] at hp
      cases q with
      | false => simp at hp
      | true =>
        simp only [if_true] at hp
        cases r0 with
        | nil => simp at hp
        | cons a r1 =>
          cases a with
          | ident n =>
            simp only at hp
            rcases onTok_cases .lparen r1 _ _ with ⟨r2, hr2, he3⟩ | ⟨_, he3⟩
            · rw [he3] at hp
              obtain ⟨ps, r3, h1, h2⟩ := bnd_some hp
              obtain ⟨r4, hr4, h3⟩ := expect_some h2
              obtain ⟨fb, r5, h4, h5⟩ := bnd_some h3
              obtain ⟨r6, hr6, h6⟩ := expect_some h5
              obtain ⟨rest, r7, h7, h8⟩ := bnd_some h6
              simp only [Option.some.injEq, Prod.mk.injEq] at h8
              obtain ⟨rfl, rfl⟩ := h8
              obtain ⟨hne, hall, hpp⟩ := ih.params _ _ _ h1
              obtain ⟨hwf, hcf, hpf⟩ := ih_q f ih h4
              obtain ⟨hwr, hcr, hpr, _, hedge⟩ := ih.expr 1 true _ _ _ (by omega) (by omega) h7
              refine ⟨by simp [wf, isQ, hall, hwf, hcf, hwr, hcr], rfl, ?_, Or.inr ⟨rfl, rfl, opFree_of_edge1 _ _ hedge⟩⟩
              cases ps with
              | nil => exact absurd rfl hne
              | cons p ps' =>
                rw [hr0, hr2, ← hpp, hr4, ← hpf, hr6, ← hpr]
                simp [print]
            · rw [he3] at hp
              obtain ⟨r4, hr4, h3⟩ := expect_some hp
              obtain ⟨fb, r5, h4, h5⟩ := bnd_some h3
              obtain ⟨r6, hr6, h6⟩ := expect_some h5
              obtain ⟨rest, r7, h7, h8⟩ := bnd_some h6
              simp only [Option.some.injEq, Prod.mk.injEq] at h8
              obtain ⟨rfl, rfl⟩ := h8
              obtain ⟨hwf, hcf, hpf⟩ := ih_q f ih h4
              obtain ⟨hwr, hcr, hpr, _, hedge⟩ := ih.expr 1 true _ _ _ (by omega) (by omega) h7
              refine ⟨by simp [wf, isQ, isParamTok, hwf, hcf, hwr, hcr], rfl, ?_, Or.inr ⟨rfl, rfl, opFree_of_edge1 _ _ hedge⟩⟩
              rw [hr0, hr4, ← hpf, hr6, ← hpr]
              simp [print]
          | _ => simp at hp
    · rw [he2] at hp
      obtain ⟨t, r1, h1, h2⟩ := bnd_some hp
      obtain ⟨hwt, htt, hpt, _⟩ := ih.term _ _ _ h1
      have hct : cat t = .query := (isTerm_facts t htt).2.2.2.2.2
      rcases onTok_cases (.kw .as_) r1 _ _ with ⟨r2, hr2, he3⟩ | ⟨_, he3⟩
      · rw [he3] at h2
        cases q with
        | false =>
          simp only [Bool.false_eq_true, if_false, Option.some.injEq, Prod.mk.injEq] at h2
          obtain ⟨rfl, rfl⟩ := h2
          exact ⟨hwt, hct, hpt, Or.inl htt⟩
        | true =>
          simp only [if_true] at h2
          obtain ⟨ps, r3, h3, h4⟩ := bnd_some h2
          obtain ⟨r4, hr4, h5⟩ := expect_some h4
          obtain ⟨b, r5, h6, h7⟩ := bnd_some h5
          simp only [Option.some.injEq, Prod.mk.injEq] at h7
          obtain ⟨rfl, rfl⟩ := h7
          obtain ⟨hne, hwp, hpp⟩ := ih.pats _ _ _ h3
          obtain ⟨hwb, hcb, hpb, _, hedge⟩ := ih.expr 1 true _ _ _ (by omega) (by omega) h6
          refine ⟨by simp [wf, isQ, hwt, htt, hwp, hwb, hcb, List.isEmpty_eq_false_iff.mpr hne], rfl, ?_,
            Or.inr ⟨rfl, rfl, opFree_of_edge1 _ _ hedge⟩⟩
          rw [← hpt, hr2, ← hpp, hr4, ← hpb]
          simp [print]
      · rw [he3] at h2
        simp only [Option.some.injEq, Prod.mk.injEq] at h2
        obtain ⟨rfl, rfl⟩ := h2
        exact ⟨hwt, hct, hpt, Or.inl htt⟩

theorem is_expr (f : Nat) (ih : Inv f) : ∀ m q ts e r, m ≤ 10 → 1 ≤ m → parseExpr (f + 1) m q ts = some (e, r) →
    wf e = true ∧ cat e = .query ∧ print e ++ r = ts ∧ ent e m q ∧ edge e m r := by
  intro m q ts e r hm10 hm1 hp
  simp only [parseExpr] at hp
  obtain ⟨lhs, r0, h1, h2⟩ := bnd_some hp
  obtain ⟨hwl, hcl, hpl, hkind⟩ := ih.operand q ts lhs r0 h1
  have hpre : pre lhs 0 m r0 := by
    refine ⟨hwl, hcl, ?_⟩
    intro o r' hr
    rcases hkind with ht | ⟨_, _, hfree⟩
    · obtain ⟨hlev, hor, _, _, _, _⟩ := isTerm_facts lhs ht
      refine ⟨hor, fun _ _ => ?_⟩
      rw [hlev]; exact op_lmin_le_10 o
    · exact absurd hr (hfree o r')
  have hent : ent lhs m q := by
    unfold ent
    rcases hkind with ht | ⟨ho, hq, _⟩
    · obtain ⟨hlev, _, hno, _, _, _⟩ := isTerm_facts lhs ht
      simp [hno, hlev, hm10]
    · simp [ho, hq]
  obtain ⟨hw, hc, hp', he, hed⟩ := ih.climb m q lhs 0 r0 e r hm10 hm1 hpre hent h2
  exact ⟨hw, hc, by rw [hp', hpl], he, hed⟩

theorem is_climb (f : Nat) (ih : Inv f) : ∀ m q lhs prev ts e r, m ≤ 10 → 1 ≤ m → pre lhs prev m ts → ent lhs m q →
    climb (f + 1) m lhs prev ts = some (e, r) →
    wf e = true ∧ cat e = .query ∧ print e ++ r = print lhs ++ ts ∧ ent e m q ∧ edge e m r := by
  intro m q lhs prev ts e r hm10 hm1 hpre hent hp
  simp only [climb] at hp
  obtain ⟨hwl, hcl, hpre2⟩ := hpre
  rcases onOp_cases ts _ _ with ⟨o, r', hts, he⟩ | ⟨hno, he⟩
  · rw [he] at hp
    obtain ⟨horl, hlmin⟩ := hpre2 o r' hts
    by_cases hmo : m ≤ o.prec
    · simp only [hmo, if_true] at hp
      by_cases hnon : o.assoc = .non ∧ o.prec = prev
      · simp [hnon] at hp
      · rw [if_neg hnon] at hp
        obtain ⟨rhs, r1, h1, h2⟩ := bnd_some hp
        have hr10 := op_rmin_le_10 o
        have hr1 : 1 ≤ o.rmin := by have := op_prec_pos o; have := op_prec_le_rmin o; omega
        obtain ⟨hwr, hcr, hpr, hentr, hedger⟩ := ih.expr o.rmin o.queryLevel r' rhs r1 hr10 hr1 h1
        have hwbin : wf (.bin o lhs rhs) = true := by
          simp only [wf, Bool.and_eq_true, Nat.ble_eq, Bool.not_eq_true', isQ, beq_iff_eq]
          refine ⟨⟨⟨⟨⟨⟨hwl, hwr⟩, hcl⟩, hcr⟩, horl⟩, hlmin hmo hnon⟩, ?_⟩
          unfold ent at hentr
          split
          · rename_i ho; simpa [ho] using hentr
          · rename_i ho; simpa [ho] using hentr
        have hpre' : pre (.bin o lhs rhs) o.prec m r1 := by
          refine ⟨hwbin, rfl, ?_⟩
          intro o2 r2 hr2
          obtain ⟨hlt, hor⟩ := hedger o2 r2 hr2
          refine ⟨by simpa [openRight] using hor, fun _ hn2 => ?_⟩
          simp only [level]
          exact op_next o o2 hlt hn2
        have hent' : ent (.bin o lhs rhs) m q := by simp [ent, isOpen, level, hmo]
        obtain ⟨hw, hc, hp', he', hed⟩ := ih.climb m q (.bin o lhs rhs) o.prec r1 e r hm10 hm1 hpre' hent' h2
        refine ⟨hw, hc, ?_, he', hed⟩
        rw [hp', hts, ← hpr]; simp [print]
    · simp only [hmo, if_false, Option.some.injEq, Prod.mk.injEq] at hp
      obtain ⟨rfl, rfl⟩ := hp
      refine ⟨hwl, hcl, rfl, hent, ?_⟩
      intro o2 r2 hr2
      rw [hts] at hr2
      have : o2 = o := by cases hr2; rfl
      subst this
      exact ⟨by omega, horl⟩
  · rw [he] at hp
    simp only [Option.some.injEq, Prod.mk.injEq] at hp
    obtain ⟨rfl, rfl⟩ := hp
    refine ⟨hwl, hcl, rfl, hent, ?_⟩
    intro o2 r2 hr2
    exact absurd hr2 (hno o2 r2)

theorem inv_succ (f : Nat) (ih : Inv f) : Inv (f + 1) :=
  ⟨is_strTail f ih, is_parts f ih, is_term f ih, is_pfx f ih, is_bracket f ih, is_args f ih, is_elifs f ih, is_elem f ih,
   is_sep f ih, is_objVal f ih, is_entry f ih, is_pattern f ih, is_patEntry f ih, is_pats f ih, is_params f ih,
   is_operand f ih, is_expr f ih, is_climb f ih⟩

theorem inv_all : ∀ f, Inv f
  | 0 => inv_zero
  | f + 1 => inv_succ f (inv_all f)

/-- everything the parser accepts is a well-formed query, and printing it gives the input back -/
theorem parse_sound (ts : List Tok) (e : E) (h : parse ts = some e) : wf e = true ∧ cat e = .query ∧ print e = ts := by
  unfold parse parseFuel at h
  split at h
  · rename_i e' heq
    have : e' = e := by simpa using h
    subst this
    obtain ⟨hw, hc, hp, _, _⟩ := (inv_all _).expr 1 true ts e' [] (by omega) (by omega) heq
    exact ⟨hw, hc, by simpa using hp⟩
  · simp at h

/-- ⇒ on every token sequence the parser accepts, printing the tree and parsing again yields the same tree -/
theorem parse_print_parse (ts : List Tok) (e : E) (h : parse ts = some e) : parse (print e) = some e := by
  obtain ⟨hw, hc, _⟩ := parse_sound ts e h
  exact print_parse e hw hc

end Proofs.C11.Full
