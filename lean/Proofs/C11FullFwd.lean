import Proofs.C11FullMono
import Proofs.C11Print
/-! C11 — widened grammar: the printed form of a well-formed tree parses back to the tree. Core Lean only. -/
set_option linter.unusedSimpArgs false
set_option linter.unusedVariables false
namespace Proofs.C11.Full
open FqModel.C11.Full
open FqModel.C11.Print (Op Assoc)
open Proofs.C11.Print (op_lmin_rmin op_prec_le_rmin op_prec_lt_100 op_prec_le_lmin op_non)

/-! ### monotonicity, packaged -/

theorem term_mono {f f' : Nat} (hf : f ≤ f') {ts x} (h : parseTerm f ts = some x) : parseTerm f' ts = some x :=
  mono_le (g := fun f => parseTerm f ts) (fun f => (mono_all f).m_term ts) hf x h
theorem postfix_mono {f f' : Nat} (hf : f ≤ f') {t ts x} (h : parsePostfix f t ts = some x) : parsePostfix f' t ts = some x :=
  mono_le (g := fun f => parsePostfix f t ts) (fun f => (mono_all f).m_postfix t ts) hf x h
theorem expr_mono {f f' : Nat} (hf : f ≤ f') {m q ts x} (h : parseExpr f m q ts = some x) : parseExpr f' m q ts = some x :=
  mono_le (g := fun f => parseExpr f m q ts) (fun f => (mono_all f).m_expr m q ts) hf x h
theorem climb_mono {f f' : Nat} (hf : f ≤ f') {m l p ts x} (h : climb f m l p ts = some x) : climb f' m l p ts = some x :=
  mono_le (g := fun f => climb f m l p ts) (fun f => (mono_all f).m_climb m l p ts) hf x h

/-! ### cost (enough fuel) -/

mutual
  def cost : E → Nat
    | .istr ps => costL ps + 6
    | .call _ as => costL as + 6
    | .dotStr s => cost s + 6
    | .dotIdx b => cost b + 6
    | .fmtS _ s => cost s + 6
    | .arr (some q) => cost q + 6
    | .obj kvs => costL kvs + 6
    | .neg e => cost e + 6
    | .pos e => cost e + 6
    | .ite c t es none => cost c + cost t + costL es + 6
    | .ite c t es (some e) => cost c + cost t + costL es + cost e + 6
    | .try_ b none => cost b + 6
    | .try_ b (some c) => cost b + cost c + 6
    | .reduce src p a b => cost src + cost p + cost a + cost b + 6
    | .foreach src p a b none => cost src + cost p + cost a + cost b + 6
    | .foreach src p a b (some c) => cost src + cost p + cost a + cost b + cost c + 6
    | .paren e => cost e + 6
    | .opt t => cost t + 6
    | .sfxField t _ => cost t + 6
    | .sfxStr t s => cost t + cost s + 6
    | .sfxBr t b => cost t + cost b + 6
    | .bin _ l r => cost l + cost r + 6
    | .bind t ps b => cost t + costL ps + cost b + 6
    | .label _ b => cost b + 6
    | .def_ _ ps fb rest => ps.length + cost fb + cost rest + 6
    | .interp q => cost q + 6
    | .kvKey _ (some v) => cost v + 6
    | .kvStr s none => cost s
    | .kvStr s (some v) => cost s + cost v + 6
    | .kvQ q v => cost q + cost v + 6
    | .elif c t => cost c + cost t + 6
    | .bIdx e => cost e + 6
    | .bSliceL e => cost e + 6
    | .bSliceR e => cost e + 6
    | .bSlice a b => cost a + cost b + 6
    | .parr ps => costL ps + 6
    | .pobj es => costL es + 6
    | .peKey _ p => cost p + 6
    | .peStr s p => cost s + cost p + 6
    | .peQ q p => cost q + cost p + 6
    | _ => 6
  def costL : List E → Nat
    | [] => 0
    | x :: rest => cost x + 1 + costL rest
end

/-! ### what may follow -/

def prevOf : E → Nat
  | .bin o _ _ => o.prec
  | _ => 0

def absorb : E → Nat
  | .bin o _ _ => o.rmin
  | _ => 100

/-- tokens that continue a term (postfix operators) or would merge with its last token -/
def contTok : Tok → Bool
  | .quest => true | .field _ => true | .lbrack => true | .dot => true | .lparen => true | .str _ => true | .strStart => true
  | _ => false

def headIs (t : Tok) : List Tok → Bool
  | t' :: _ => t' == t
  | [] => false

def headCont : List Tok → Bool
  | t :: _ => contTok t
  | [] => false

/-- what may follow a term -/
def tfollow (e : E) (rest : List Tok) : Bool :=
  !headCont rest && (!headIs (.kw .catch_) rest || !danglingTry e)

/-- what may follow a query parsed at level `m` in query-context `q` -/
def follow (e : E) (q : Bool) : List Tok → Bool
  | .op o :: _ => !openRight e && Nat.blt o.prec (absorb e)
  | .kw .catch_ :: _ => false
  | .kw .as_ :: _ => !q && !isOpen e && Nat.ble 3 (level e)
  | t :: _ => !contTok t
  | [] => true

/-- closing tokens: nothing is absorbed, whatever precedes -/
def stops : List Tok → Bool
  | .op _ :: _ => false
  | .kw .catch_ :: _ => false
  | .kw .as_ :: _ => false
  | t :: _ => !contTok t
  | [] => true

def entry (e : E) (m : Nat) (q : Bool) : Bool := if isOpen e then q else Nat.ble m (level e)

theorem follow_of_stops (e : E) (q : Bool) (rest : List Tok) (h : stops rest = true) : follow e q rest = true := by
  cases rest with
  | nil => rfl
  | cons t ts =>
    cases t with
    | kw k => cases k <;> simp_all [stops, follow, contTok]
    | _ => simp_all [stops, follow, contTok]

theorem climb_stops (f m lhs prev rest) (h : stops rest = true) : climb (f + 1) m lhs prev rest = some (lhs, rest) := by
  simp only [climb]
  cases rest with
  | nil => rfl
  | cons t ts => cases t <;> simp_all [stops, onOp]

def termHeadKw : Kw → Bool
  | .null => true | .true_ => true | .false_ => true | .if_ => true | .try_ => true | .reduce => true | .foreach => true
  | .break_ => true | _ => false

/-- tokens a term can start with -/
def termHeadTok : Tok → Bool
  | .num _ => true | .str _ => true | .strStart => true | .ident _ => true | .var _ => true | .field _ => true
  | .dot => true | .dotdot => true | .fmt _ => true | .lbrack => true | .lbrace => true | .lparen => true
  | .kw k => termHeadKw k
  | .op .sub => true | .op .add => true
  | _ => false

theorem postfixable_term (e : E) (h : isPostfixable e = true) : isTerm e = true := by
  cases e <;> simp_all [isTerm, isPostfixable]

theorem term_head : ∀ (e : E), wf e = true → isTerm e = true → ∃ hd tl, print e = hd :: tl ∧ termHeadTok hd = true
  | .opt t, hw, _ => by
    simp only [wf, Bool.and_eq_true] at hw
    obtain ⟨hd, tl, h1, h2⟩ := term_head t hw.1 (postfixable_term t hw.2)
    exact ⟨hd, tl ++ [.quest], by simp [print, h1], h2⟩
  | .sfxField t s, hw, _ => by
    simp only [wf, Bool.and_eq_true] at hw
    obtain ⟨hd, tl, h1, h2⟩ := term_head t hw.1 (postfixable_term t hw.2)
    exact ⟨hd, tl ++ [.field s], by simp [print, h1], h2⟩
  | .sfxStr t s, hw, _ => by
    simp only [wf, Bool.and_eq_true] at hw
    obtain ⟨hd, tl, h1, h2⟩ := term_head t hw.1.1.1 (postfixable_term t hw.1.1.2)
    exact ⟨hd, tl ++ .dot :: print s, by simp [print, h1], h2⟩
  | .sfxBr t b, hw, _ => by
    simp only [wf, Bool.and_eq_true] at hw
    obtain ⟨hd, tl, h1, h2⟩ := term_head t hw.1.1.1.1 (postfixable_term t hw.1.1.1.2)
    exact ⟨hd, tl ++ .lbrack :: print b, by simp [print, h1], h2⟩
  | .arr none, _, _ => ⟨_, _, rfl, rfl⟩
  | .arr (some q), _, _ => ⟨_, _, rfl, rfl⟩
  | .ite c t es none, _, _ => ⟨_, _, rfl, rfl⟩
  | .ite c t es (some e), _, _ => ⟨_, _, rfl, rfl⟩
  | .try_ b none, _, _ => ⟨_, _, rfl, rfl⟩
  | .try_ b (some c), _, _ => ⟨_, _, rfl, rfl⟩
  | .foreach s p a b none, _, _ => ⟨_, _, rfl, rfl⟩
  | .foreach s p a b (some c), _, _ => ⟨_, _, rfl, rfl⟩
  | .lit k, hw, _ => by
    refine ⟨.kw k, [], rfl, ?_⟩
    cases k <;> simp_all [wf, isLitKw, termHeadTok, termHeadKw]
  | .num _, _, _ => ⟨_, _, rfl, rfl⟩
  | .strl _, _, _ => ⟨_, _, rfl, rfl⟩
  | .istr _, _, _ => ⟨_, _, rfl, rfl⟩
  | .ident _, _, _ => ⟨_, _, rfl, rfl⟩
  | .var _, _, _ => ⟨_, _, rfl, rfl⟩
  | .call _ _, _, _ => ⟨_, _, rfl, rfl⟩
  | .field _, _, _ => ⟨_, _, rfl, rfl⟩
  | .dot, _, _ => ⟨_, _, rfl, rfl⟩
  | .dotdot, _, _ => ⟨_, _, rfl, rfl⟩
  | .dotStr _, _, _ => ⟨_, _, rfl, rfl⟩
  | .dotIdx _, _, _ => ⟨_, _, rfl, rfl⟩
  | .fmt _, _, _ => ⟨_, _, rfl, rfl⟩
  | .fmtS _ _, _, _ => ⟨_, _, rfl, rfl⟩
  | .obj _, _, _ => ⟨_, _, rfl, rfl⟩
  | .neg _, _, _ => ⟨_, _, rfl, rfl⟩
  | .pos _, _, _ => ⟨_, _, rfl, rfl⟩
  | .reduce _ _ _ _, _, _ => ⟨_, _, rfl, rfl⟩
  | .brk _, _, _ => ⟨_, _, rfl, rfl⟩
  | .paren _, _, _ => ⟨_, _, rfl, rfl⟩
  | .bin _ _ _, _, ht | .bind _ _ _, _, ht | .label _ _, _, ht | .def_ _ _ _ _, _, ht
  | .piece _, _, ht | .interp _, _, ht | .kvKey _ _, _, ht | .kvStr _ _, _, ht | .kvQ _ _, _, ht | .elif _ _, _, ht
  | .bIter, _, ht | .bIdx _, _, ht | .bSliceL _, _, ht | .bSliceR _, _, ht | .bSlice _ _, _, ht
  | .pvar _, _, ht | .parr _, _, ht | .pobj _, _, ht | .peVar _, _, ht | .peKey _ _, _, ht | .peStr _ _, _, ht
  | .peQ _ _, _, ht => by simp [isTerm, isPostfixable] at ht

/-- tokens a query can start with -/
def queryHeadTok (t : Tok) : Bool := termHeadTok t || t == .kw .label || t == .kw .def_

theorem query_head_term (e : E) (hw : wf e = true) (ht : isTerm e = true) :
    ∃ hd tl, print e = hd :: tl ∧ queryHeadTok hd = true := by
  obtain ⟨hd, tl, h1, h2⟩ := term_head e hw ht
  exact ⟨hd, tl, h1, by simp [queryHeadTok, h2]⟩

theorem query_head : ∀ (e : E), wf e = true → cat e = .query → ∃ hd tl, print e = hd :: tl ∧ queryHeadTok hd = true
  | .bin o l r, hw, _ => by
    simp only [wf, Bool.and_eq_true, isQ, beq_iff_eq] at hw
    obtain ⟨hd, tl, h1, h2⟩ := query_head l hw.1.1.1.1.1.1 hw.1.1.1.1.2
    exact ⟨hd, tl ++ .op o :: print r, by simp [print, h1], h2⟩
  | .bind t ps b, hw, _ => by
    simp only [wf, Bool.and_eq_true] at hw
    obtain ⟨hd, tl, h1, h2⟩ := term_head t hw.1.1.1.1.1 hw.1.1.1.1.2
    exact ⟨hd, tl ++ .kw .as_ :: printSep .destalt ps ++ .op .pipe :: print b, by simp [print, h1], by simp [queryHeadTok, h2]⟩
  | .label s b, _, _ => ⟨_, _, rfl, rfl⟩
  | .def_ n [] fb rest, _, _ => ⟨_, _, rfl, rfl⟩
  | .def_ n (p :: ps) fb rest, _, _ => ⟨_, _, rfl, rfl⟩
  | .num _, hw, _ | .strl _, hw, _ | .istr _, hw, _ | .ident _, hw, _ | .var _, hw, _ | .call _ _, hw, _ | .field _, hw, _
  | .dot, hw, _ | .dotdot, hw, _ | .dotStr _, hw, _ | .dotIdx _, hw, _ | .lit _, hw, _ | .fmt _, hw, _ | .fmtS _ _, hw, _
  | .arr _, hw, _ | .obj _, hw, _ | .neg _, hw, _ | .pos _, hw, _ | .ite _ _ _ _, hw, _ | .try_ _ _, hw, _
  | .reduce _ _ _ _, hw, _ | .foreach _ _ _ _ _, hw, _ | .brk _, hw, _ | .paren _, hw, _ | .opt _, hw, _
  | .sfxField _ _, hw, _ | .sfxStr _ _, hw, _ | .sfxBr _ _, hw, _ => query_head_term _ hw rfl
  | .piece _, _, hc | .interp _, _, hc | .kvKey _ _, _, hc | .kvStr _ _, _, hc | .kvQ _ _, _, hc | .elif _ _, _, hc
  | .bIter, _, hc | .bIdx _, _, hc | .bSliceL _, _, hc | .bSliceR _, _, hc | .bSlice _ _, _, hc
  | .pvar _, _, hc | .parr _, _, hc | .pobj _, _, hc | .peVar _, _, hc | .peKey _ _, _, hc | .peStr _ _, _, hc
  | .peQ _ _, _, hc => by simp [cat] at hc

/-! ### the statements -/

def noStr (ts : List Tok) : Bool := match strHead ts with | .no => true | _ => false

/-- the last token of a primary must not merge with what follows -/
def hazard : E → List Tok → Bool
  | .ident _, rest => !headIs .lparen rest
  | .fmt _, rest => noStr rest
  | .dot, rest => !headIs .lbrack rest && noStr rest
  | _, _ => true

def PA (e : E) : Prop := ∀ f F rest x, f + cost e ≤ F + 1 → hazard e rest = true →
  parsePostfix f e rest = some x → parseTerm F (print e ++ rest) = some x
def PB (e : E) : Prop := ∀ F rest, cost e ≤ F → tfollow e rest = true → parseTerm F (print e ++ rest) = some (e, rest)
def PC (e : E) : Prop := ∀ f F m q rest x, f + cost e + 2 ≤ F → entry e m q = true → follow e q rest = true →
  climb f m e (prevOf e) rest = some x → parseExpr F m q (print e ++ rest) = some x
def PStr (s : E) : Prop := ∀ F rest, cost s ≤ F + 4 → parseStrTail F (strHead (print s ++ rest)) = some (s, rest)
def PBr (b : E) : Prop := ∀ F rest, cost b ≤ F → parseBracket F (print b ++ rest) = some (b, rest)
/-- after an object entry / objectval: `,` or `}` -/
def sepStop (rest : List Tok) : Bool := headIs (.op .comma) rest || headIs .rbrace rest
def PEntry (e : E) : Prop := ∀ F rest, cost e ≤ F → sepStop rest = true → parseEntry F (print e ++ rest) = some (e, rest)
def PObjVal (v : E) : Prop := ∀ F rest, cost v + 4 ≤ F → sepStop rest = true → parseObjVal F (print v ++ rest) = some (v, rest)
def PPat (p : E) : Prop := ∀ F rest, cost p ≤ F → parsePattern F (print p ++ rest) = some (p, rest)
def PPatEntry (e : E) : Prop := ∀ F rest, cost e ≤ F → headIs .colon rest = false → parsePatEntry F (print e ++ rest) = some (e, rest)

structure Good (e : E) : Prop where
  a : isPostfixable e = true → PA e
  b : isTerm e = true → PB e
  c : cat e = .query → PC e
  s : isStr e = true → PStr e
  br : cat e = .bracket → PBr e
  en : cat e = .entry → PEntry e
  ov : cat e = .query → isObjVal e = true → PObjVal e
  pt : cat e = .pattern → PPat e
  pe : cat e = .patEntry → PPatEntry e
  ip : ∀ q, e = .interp q → PC q
  el : ∀ c t, e = .elif c t → PC c ∧ PC t

/-! ### generic steps -/

theorem climb_nonop (f m lhs prev rest) (h : ∀ o r, rest ≠ .op o :: r) : climb (f + 1) m lhs prev rest = some (lhs, rest) := by
  simp only [climb]
  cases rest with
  | nil => rfl
  | cons t ts => cases t <;> first | (exfalso; exact h _ _ rfl) | rfl

theorem op_prec_pos (o : Op) : 1 ≤ o.prec := by cases o <;> decide

theorem entry_one (e : E) : entry e 1 true = true := by
  cases e <;> simp [entry, isOpen, level, Nat.ble_eq]
  exact op_prec_pos _

/-- a query in a hole closed by a stop token -/
theorem hole (e : E) (hC : PC e) (F : Nat) (rest : List Tok) (hs : stops rest = true) (hF : cost e + 3 ≤ F) :
    parseExpr F 1 true (print e ++ rest) = some (e, rest) :=
  hC 1 F 1 true rest (e, rest) (by omega) (entry_one e) (follow_of_stops e true rest hs) (climb_stops 0 1 e (prevOf e) rest hs)

theorem stops_noCont (rest : List Tok) (h : stops rest = true) : headCont rest = false := by
  cases rest with
  | nil => rfl
  | cons t ts =>
    cases t with
    | kw k => cases k <;> simp_all [stops, headCont, contTok]
    | _ => simp_all [stops, headCont, contTok]

/-- the postfix loop stops at a token that does not continue a term -/
theorem postfix_stop (f : Nat) (t : E) (rest : List Tok) (h : headCont rest = false) :
    parsePostfix (f + 1) t rest = some (t, rest) := by
  cases rest with
  | nil => simp [parsePostfix]
  | cons tk r => cases tk <;> simp_all [parsePostfix, headCont, contTok]

theorem cost_ge : ∀ (e : E), 6 ≤ cost e
  | .kvStr s none => by have := cost_ge s; simpa [cost] using this
  | .kvStr _ (some _) | .kvKey _ none | .kvKey _ (some _) | .arr none | .arr (some _) | .ite _ _ _ none | .ite _ _ _ (some _)
  | .try_ _ none | .try_ _ (some _) | .foreach _ _ _ _ none | .foreach _ _ _ _ (some _)
  | .num _ | .strl _ | .istr _ | .ident _ | .var _ | .call _ _ | .field _ | .dot | .dotdot | .dotStr _ | .dotIdx _ | .lit _
  | .fmt _ | .fmtS _ _ | .obj _ | .neg _ | .pos _ | .reduce _ _ _ _ | .brk _ | .paren _ | .opt _ | .sfxField _ _
  | .sfxStr _ _ | .sfxBr _ _ | .bin _ _ _ | .bind _ _ _ | .label _ _ | .def_ _ _ _ _ | .piece _ | .interp _ | .kvQ _ _
  | .elif _ _ | .bIter | .bIdx _ | .bSliceL _ | .bSliceR _ | .bSlice _ _ | .pvar _ | .parr _ | .pobj _ | .peVar _
  | .peKey _ _ | .peStr _ _ | .peQ _ _ => by simp only [cost]; omega

theorem PB_of_PA (e : E) (hA : PA e) (hh : ∀ rest, headCont rest = false → hazard e rest = true) : PB e := by
  intro F rest hF hf
  simp only [tfollow, Bool.and_eq_true, Bool.not_eq_true'] at hf
  exact hA 1 F rest (e, rest) (by omega) (hh rest hf.1) (postfix_stop 0 e rest hf.1)

theorem isTerm_facts (e : E) (h : isTerm e = true) :
    level e = 10 ∧ openRight e = false ∧ isOpen e = false ∧ prevOf e = 0 ∧ absorb e = 100 ∧ cat e = .query := by
  cases e <;> simp_all [isTerm, isPostfixable, level, openRight, isOpen, prevOf, absorb, cat]

/-- what follows a query also may follow the term it is -/
theorem tfollow_of_follow (e : E) (q : Bool) (rest : List Tok) (h : follow e q rest = true) : tfollow e rest = true := by
  cases rest with
  | nil => simp [tfollow, headCont, headIs]
  | cons t ts =>
    cases t with
    | kw k => cases k <;> simp_all [follow, tfollow, headCont, headIs, contTok]
    | _ => simp_all [follow, tfollow, headCont, headIs, contTok]

theorem follow_as (e : E) (q : Bool) (rest : List Tok) (h : follow e q (.kw .as_ :: rest) = true) : q = false := by
  simp [follow] at h; exact h.1.1

theorem termHead_not_label (hd : Tok) (h : termHeadTok hd = true) : hd ≠ .kw .label ∧ hd ≠ .kw .def_ := by
  cases hd <;> simp_all [termHeadTok]
  all_goals (rename_i k; cases k <;> simp_all [termHeadKw])

theorem onTok_ne {β : Type} (t hd : Tok) (tl : List Tok) (k : List Tok → β) (n : β) (h : hd ≠ t) : onTok t (hd :: tl) k n = n := by
  simp [onTok, h]

theorem onTok_eq {β : Type} (t : Tok) (tl : List Tok) (k : List Tok → β) (n : β) : onTok t (t :: tl) k n = k tl := by
  simp [onTok]

/-- a term as an expression: operand, then the climbing loop -/
theorem PC_of_PB (e : E) (hw : wf e = true) (ht : isTerm e = true) (hB : PB e) : PC e := by
  intro f F m q rest x hF _ hfo hcl
  obtain ⟨_, _, _, hprev, _, _⟩ := isTerm_facts e ht
  obtain ⟨hd, tl, hpr, hhd⟩ := term_head e hw ht
  obtain ⟨hn1, hn2⟩ := termHead_not_label hd hhd
  obtain ⟨F1, rfl⟩ : ∃ F1, F = F1 + 1 + 1 := ⟨F - 2, by omega⟩
  have hterm : parseTerm F1 (print e ++ rest) = some (e, rest) := hB F1 rest (by omega) (tfollow_of_follow e q rest hfo)
  rw [hprev] at hcl
  have hcl' : climb (F1 + 1) m e 0 rest = some x := climb_mono (by omega) hcl
  simp only [parseExpr, parseOperand]
  rw [show print e ++ rest = hd :: (tl ++ rest) by rw [hpr]; rfl, onTok_ne _ _ _ _ _ hn1, onTok_ne _ _ _ _ _ hn2]
  rw [show hd :: (tl ++ rest) = print e ++ rest by rw [hpr]; rfl, hterm]
  simp only [bnd]
  cases rest with
  | nil => simpa [onTok] using hcl'
  | cons t ts =>
    by_cases hta : t = .kw .as_
    · subst hta
      have hq := follow_as e q ts hfo
      subst hq
      simpa [onTok] using hcl'
    · simpa [onTok, hta] using hcl'

theorem wfAll_cons (c : Cat) (x : E) (xs : List E) (h : wfAll c (x :: xs) = true) :
    wf x = true ∧ cat x = c ∧ wfAll c xs = true := by
  simp only [wfAll, Bool.and_eq_true, beq_iff_eq] at h
  exact ⟨h.1.1, h.1.2, h.2⟩

theorem wfAll_mem (c : Cat) (xs : List E) (h : wfAll c xs = true) : ∀ x ∈ xs, wf x = true ∧ cat x = c := by
  induction xs with
  | nil => intro x hx; simp at hx
  | cons y ys ih =>
    obtain ⟨h1, h2, h3⟩ := wfAll_cons c y ys h
    intro x hx
    rcases List.mem_cons.mp hx with rfl | hx
    · exact ⟨h1, h2⟩
    · exact ih h3 x hx

/-! ### lists -/

theorem stops_rparen (r : List Tok) : stops (.rparen :: r) = true := rfl
theorem stops_semi (r : List Tok) : stops (.semi :: r) = true := rfl
theorem stops_rbrack (r : List Tok) : stops (.rbrack :: r) = true := rfl
theorem stops_colon (r : List Tok) : stops (.colon :: r) = true := rfl
theorem stops_kw_then (r : List Tok) : stops (.kw .then_ :: r) = true := rfl
theorem stops_kw_elif (r : List Tok) : stops (.kw .elif_ :: r) = true := rfl
theorem stops_kw_else (r : List Tok) : stops (.kw .else_ :: r) = true := rfl
theorem stops_kw_end (r : List Tok) : stops (.kw .end_ :: r) = true := rfl

theorem parts_ok : ∀ (ps : List E), (∀ p ∈ ps, Good p) → wfAll .part ps = true →
    ∀ F rest, costL ps + 1 ≤ F → parseParts F (printCat ps ++ .strEnd :: rest) = some (ps, rest)
  | [], _, _, F, rest, hF => by
    obtain ⟨F1, rfl⟩ : ∃ F1, F = F1 + 1 := ⟨F - 1, by omega⟩
    simp [printCat, parseParts]
  | p :: ps, hg, hw, F, rest, hF => by
    obtain ⟨hwp, hcp, hws⟩ := wfAll_cons _ p ps hw
    have ih := parts_ok ps (fun x hx => hg x (by simp [hx])) hws
    simp only [costL] at hF
    obtain ⟨F1, rfl⟩ : ∃ F1, F = F1 + 1 := ⟨F - 1, by omega⟩
    cases p with
    | piece s =>
      simp only [printCat, print, List.cons_append, List.nil_append, parseParts]
      rw [ih F1 rest (by have := cost_ge (.piece s); omega)]
      rfl
    | interp q =>
      have hC := (hg (.interp q) (by simp)).ip q rfl
      simp only [cost] at hF
      simp only [printCat, print, List.cons_append, List.append_assoc, List.nil_append, parseParts]
      rw [hole q hC F1 _ (stops_rparen _) (by omega)]
      simp only [bnd, expect, if_true]
      rw [ih F1 rest (by omega)]
    | _ => simp [cat] at hcp

theorem args_ok : ∀ (xs : List E), xs ≠ [] → (∀ x ∈ xs, Good x) → wfAll .query xs = true →
    ∀ F rest, costL xs + 3 ≤ F → parseArgs F (printSep .semi xs ++ .rparen :: rest) = some (xs, rest)
  | [], hne, _, _, _, _, _ => absurd rfl hne
  | [x], _, hg, hw, F, rest, hF => by
    obtain ⟨hwx, hcx, _⟩ := wfAll_cons _ x [] hw
    have hC := (hg x (by simp)).c hcx
    simp only [costL] at hF
    obtain ⟨F1, rfl⟩ : ∃ F1, F = F1 + 1 := ⟨F - 1, by omega⟩
    simp only [printSep, parseArgs]
    rw [hole x hC F1 _ (stops_rparen _) (by omega)]
    simp [bnd, onTok, expect]
  | x :: y :: ys, _, hg, hw, F, rest, hF => by
    obtain ⟨hwx, hcx, hws⟩ := wfAll_cons _ x (y :: ys) hw
    have hC := (hg x (by simp)).c hcx
    have ih := args_ok (y :: ys) (by simp) (fun z hz => hg z (by simp [hz])) hws
    simp only [costL] at hF ih
    obtain ⟨F1, rfl⟩ : ∃ F1, F = F1 + 1 := ⟨F - 1, by omega⟩
    simp only [printSep, List.append_assoc, List.cons_append, parseArgs]
    rw [hole x hC F1 _ (stops_semi _) (by omega)]
    simp only [bnd, onTok, if_true]
    have := ih F1 rest (by omega)
    rw [this]

def elseToks : Option E → List Tok
  | some e => .kw .else_ :: print e ++ [.kw .end_]
  | none => [.kw .end_]

def elseCost : Option E → Nat
  | some e => cost e
  | none => 0

theorem stops_elseToks (els : Option E) (rest : List Tok) : stops (elseToks els ++ rest) = true := by
  cases els <;> rfl

theorem elifs_ok : ∀ (es : List E), (∀ x ∈ es, Good x) → wfAll .elifC es = true →
    ∀ (els : Option E) (hels : ∀ e, els = some e → PC e) F rest,
      costL es + elseCost els + 5 ≤ F →
      parseElifs F (printCat es ++ (elseToks els ++ rest)) = some ((es, els), rest)
  | [], _, _, els, hels, F, rest, hF => by
    obtain ⟨F1, rfl⟩ : ∃ F1, F = F1 + 1 := ⟨F - 1, by omega⟩
    cases els with
    | none => simp [printCat, elseToks, parseElifs, onTok, expect]
    | some e =>
      simp only [costL, elseCost] at hF
      simp only [printCat, elseToks, List.nil_append, List.cons_append, List.append_assoc, parseElifs]
      rw [onTok_ne _ _ _ _ _ (by simp), onTok_eq]
      rw [hole e (hels e rfl) F1 (.kw .end_ :: rest) (stops_kw_end _) (by omega)]
      simp [bnd, expect]
  | x :: xs, hg, hw, els, hels, F, rest, hF => by
    obtain ⟨hwx, hcx, hws⟩ := wfAll_cons _ x xs hw
    have ih := elifs_ok xs (fun z hz => hg z (by simp [hz])) hws els hels
    simp only [costL] at hF
    obtain ⟨F1, rfl⟩ : ∃ F1, F = F1 + 1 := ⟨F - 1, by omega⟩
    cases x with
    | elif c t =>
      obtain ⟨hCc, hCt⟩ := (hg (.elif c t) (by simp)).el c t rfl
      simp only [cost] at hF
      simp only [printCat, print, List.cons_append, List.append_assoc, parseElifs]
      rw [onTok_eq, hole c hCc F1 _ (stops_kw_then _) (by omega)]
      simp only [bnd, expect, if_true]
      have h2 : stops (printCat xs ++ (elseToks els ++ rest)) = true := by
        cases xs with
        | nil => simpa [printCat] using stops_elseToks els rest
        | cons y ys =>
          obtain ⟨_, hcy, _⟩ := wfAll_cons _ y ys hws
          cases y <;> simp [cat] at hcy
          simp [printCat, print, stops, contTok]
      rw [hole t hCt F1 _ h2 (by omega)]
      simp only [bnd]
      rw [ih F1 rest (by omega)]
    | _ => simp [cat] at hcx


/-- element of a separated list, by category -/
def PElem (c : Cat) (close : Tok) (x : E) : Prop := ∀ F rest, cost x + 1 ≤ F →
  headIs (.op .comma) rest = true ∨ headIs close rest = true → parseElem F c (print x ++ rest) = some (x, rest)

theorem sep_ok (c : Cat) (close : Tok) (hclose : close = .rbrace ∨ close = .rbrack) :
    ∀ (xs : List E), xs ≠ [] → (∀ x ∈ xs, PElem c close x) →
    ∀ F rest, costL xs + 3 ≤ F → parseSep F c (.op .comma) close (printSep (.op .comma) xs ++ close :: rest) = some (xs, rest)
  | [], hne, _, _, _, _ => absurd rfl hne
  | [x], _, hg, F, rest, hF => by
    simp only [costL] at hF
    obtain ⟨F1, rfl⟩ : ∃ F1, F = F1 + 1 := ⟨F - 1, by omega⟩
    simp only [printSep, parseSep]
    rw [hg x (by simp) F1 (close :: rest) (by omega) (Or.inr (by simp [headIs]))]
    have hne : close ≠ .op .comma := by rcases hclose with h | h <;> subst h <;> simp
    simp [bnd, onTok, expect, hne]
  | x :: y :: ys, _, hg, F, rest, hF => by
    have ih := sep_ok c close hclose (y :: ys) (by simp) (fun z hz => hg z (by simp [hz]))
    simp only [costL] at hF ih
    obtain ⟨F1, rfl⟩ : ∃ F1, F = F1 + 1 := ⟨F - 1, by omega⟩
    simp only [printSep, List.append_assoc, List.cons_append, parseSep]
    rw [hg x (by simp) F1 _ (by omega) (Or.inl (by simp [headIs]))]
    simp only [bnd, onTok, if_true]
    rw [ih F1 rest (by omega)]

theorem pats_ok : ∀ (ps : List E), ps ≠ [] → (∀ p ∈ ps, PPat p) →
    ∀ F rest, costL ps + 1 ≤ F → headIs .destalt rest = false →
      parsePats F (printSep .destalt ps ++ rest) = some (ps, rest)
  | [], hne, _, _, _, _, _ => absurd rfl hne
  | [p], _, hg, F, rest, hF, hr => by
    simp only [costL] at hF
    obtain ⟨F1, rfl⟩ : ∃ F1, F = F1 + 1 := ⟨F - 1, by omega⟩
    simp only [printSep, parsePats]
    rw [hg p (by simp) F1 rest (by omega)]
    cases rest with
    | nil => simp [bnd, onTok]
    | cons t ts =>
      have : t ≠ .destalt := by intro h; subst h; simp [headIs] at hr
      simp [bnd, onTok, this]
  | p :: p2 :: ps, _, hg, F, rest, hF, hr => by
    have ih := pats_ok (p2 :: ps) (by simp) (fun z hz => hg z (by simp [hz]))
    simp only [costL] at hF ih
    obtain ⟨F1, rfl⟩ : ∃ F1, F = F1 + 1 := ⟨F - 1, by omega⟩
    simp only [printSep, List.append_assoc, List.cons_append, parsePats]
    rw [hg p (by simp) F1 _ (by omega)]
    simp only [bnd, onTok, if_true]
    rw [ih F1 rest (by omega) hr]

theorem params_ok : ∀ (ps : List Tok), ps ≠ [] → ps.all isParamTok = true →
    ∀ F rest, ps.length + 1 ≤ F → parseParams F (ps.intersperse .semi ++ .rparen :: rest) = some (ps, rest)
  | [], hne, _, _, _, _ => absurd rfl hne
  | [p], _, hp, F, rest, hF => by
    obtain ⟨F1, rfl⟩ : ∃ F1, F = F1 + 1 := ⟨F - 1, by simp at hF; omega⟩
    have hp' : isParamTok p = true := by simpa using hp
    simp [List.intersperse, parseParams, hp', onTok, expect]
  | p :: p2 :: ps, _, hp, F, rest, hF => by
    have hp' : isParamTok p = true ∧ (p2 :: ps).all isParamTok = true := by
      simp only [List.all_cons, Bool.and_eq_true] at hp ⊢; exact ⟨hp.1, hp.2⟩
    have ih := params_ok (p2 :: ps) (by simp) hp'.2
    obtain ⟨F1, rfl⟩ : ∃ F1, F = F1 + 1 := ⟨F - 1, by simp at hF; omega⟩
    simp only [List.length_cons] at hF ih
    simp only [List.intersperse, List.cons_append, parseParams, hp'.1, if_true, onTok_eq]
    rw [ih F1 rest (by omega)]
    rfl

/-! ### expr-level queries are closed on the right -/

theorem level3_closed : ∀ (e : E), wf e = true → isOpen e = false → 3 ≤ level e → openRight e = false
  | .bin o l r, hw, _, hl => by
    simp only [wf, Bool.and_eq_true, Nat.ble_eq, Bool.not_eq_true'] at hw
    simp only [level] at hl
    simp only [openRight]
    by_cases hor : isOpen r = true
    · have := hw.2
      simp only [hor, if_true] at this
      cases o <;> simp_all [Op.queryLevel, Op.prec]
    · have hor' : isOpen r = false := by simpa using hor
      have h2 := hw.2
      simp only [hor'] at h2
      have h3 : o.rmin ≤ level r := by simpa [Nat.ble_eq] using h2
      have : o.prec ≤ o.rmin := by cases o <;> decide
      exact level3_closed r hw.1.1.1.1.1.2 hor' (by omega)
  | .bind _ _ _, _, ho, _ => by simp [isOpen] at ho
  | .label _ _, _, ho, _ => by simp [isOpen] at ho
  | .def_ _ _ _ _, _, ho, _ => by simp [isOpen] at ho
  | .num _, _, _, _ | .strl _, _, _, _ | .istr _, _, _, _ | .ident _, _, _, _ | .var _, _, _, _ | .call _ _, _, _, _
  | .field _, _, _, _ | .dot, _, _, _ | .dotdot, _, _, _ | .dotStr _, _, _, _ | .dotIdx _, _, _, _ | .lit _, _, _, _
  | .fmt _, _, _, _ | .fmtS _ _, _, _, _ | .arr _, _, _, _ | .obj _, _, _, _ | .neg _, _, _, _ | .pos _, _, _, _
  | .ite _ _ _ _, _, _, _ | .try_ _ _, _, _, _ | .reduce _ _ _ _, _, _, _ | .foreach _ _ _ _ _, _, _, _ | .brk _, _, _, _
  | .paren _, _, _, _ | .opt _, _, _, _ | .sfxField _ _, _, _, _ | .sfxStr _ _, _, _, _ | .sfxBr _ _, _, _, _
  | .piece _, _, _, _ | .interp _, _, _, _ | .kvKey _ _, _, _, _ | .kvStr _ _, _, _, _ | .kvQ _ _, _, _, _ | .elif _ _, _, _, _
  | .bIter, _, _, _ | .bIdx _, _, _, _ | .bSliceL _, _, _, _ | .bSliceR _, _, _, _ | .bSlice _ _, _, _, _
  | .pvar _, _, _, _ | .parr _, _, _, _ | .pobj _, _, _, _ | .peVar _, _, _, _ | .peKey _ _, _, _, _ | .peStr _ _, _, _, _
  | .peQ _ _, _, _, _ => rfl

theorem level_le_absorb (e : E) : level e ≤ absorb e := by
  cases e <;> simp [level, absorb]
  rename_i o _ _; cases o <;> decide

/-- an expr-level query in a hole that ends at an operator weaker than `//` or at a closing token -/
theorem hole3 (e : E) (hC : PC e) (hw : wf e = true) (ho : isOpen e = false) (hl : 3 ≤ level e) (F : Nat) (rest : List Tok)
    (hr : stops rest = true ∨ (∃ o r, rest = .op o :: r ∧ o.prec < 3) ∨ (∃ r, rest = .kw .as_ :: r))
    (hF : cost e + 3 ≤ F) : parseExpr F 3 false (print e ++ rest) = some (e, rest) := by
  refine hC 1 F 3 false rest (e, rest) (by omega) (by simp [entry, ho, Nat.ble_eq, hl]) ?_ ?_
  · rcases hr with h | ⟨o, r, rfl, hp⟩ | ⟨r, rfl⟩
    · exact follow_of_stops e false rest h
    · have := level_le_absorb e
      simp only [follow, Bool.and_eq_true, Bool.not_eq_true', Nat.blt_eq]
      exact ⟨level3_closed e hw ho hl, by omega⟩
    · simp [follow, ho, Nat.ble_eq, hl]
  · rcases hr with h | ⟨o, r, rfl, hp⟩ | ⟨r, rfl⟩
    · exact climb_stops 0 3 e _ rest h
    · simp only [climb, onOp]
      have : ¬ (3 ≤ o.prec) := by omega
      simp [this]
    · exact climb_nonop 0 3 e _ _ (by intro o r h; cases h)

/-! ### builders for `Good` -/

theorem objval_simple (e : E) (hC : PC e) (hw : wf e = true) (ho : isOpen e = false) (hl : 3 ≤ level e) : PObjVal e := by
  intro F rest hF hs
  obtain ⟨F1, rfl⟩ : ∃ F1, F = F1 + 1 := ⟨F - 1, by omega⟩
  have hr : stops rest = true ∨ (∃ o r, rest = .op o :: r ∧ o.prec < 3) ∨ (∃ r, rest = .kw .as_ :: r) := by
    cases rest with
    | nil => simp [sepStop, headIs] at hs
    | cons t ts =>
      simp only [sepStop, headIs, Bool.or_eq_true, beq_iff_eq] at hs
      rcases hs with h | h
      · subst h; exact Or.inr (Or.inl ⟨_, _, rfl, by decide⟩)
      · subst h; exact Or.inl rfl
  simp only [parseObjVal]
  rw [hole3 e hC hw ho hl F1 rest hr (by omega)]
  cases rest with
  | nil => simp [sepStop, headIs] at hs
  | cons t ts =>
    simp only [sepStop, headIs, Bool.or_eq_true, beq_iff_eq] at hs
    rcases hs with h | h <;> subst h <;> simp [bnd, onTok]

theorem mkTerm (e : E) (hw : wf e = true) (ht : isTerm e = true) (hstr : isStr e = false)
    (hA : isPostfixable e = true → PA e) (hB : PB e) : Good e := by
  obtain ⟨hl, _, ho, _, _, hq⟩ := isTerm_facts e ht
  have hC := PC_of_PB e hw ht hB
  exact {
    a := hA, b := fun _ => hB, c := fun _ => hC,
    s := fun h => (by simp [hstr] at h),
    br := fun h => (by rw [hq] at h; cases h),
    en := fun h => (by rw [hq] at h; cases h),
    ov := fun _ _ => objval_simple e hC hw ho (by omega),
    pt := fun h => (by rw [hq] at h; cases h),
    pe := fun h => (by rw [hq] at h; cases h),
    ip := fun q h => (by subst h; simp [cat] at hq),
    el := fun c t h => (by subst h; simp [cat] at hq) }

theorem mkStrTerm (e : E) (hw : wf e = true) (ht : isTerm e = true) (hS : PStr e)
    (hA : PA e) (hB : PB e) : Good e := by
  obtain ⟨hl, _, ho, _, _, hq⟩ := isTerm_facts e ht
  have hC := PC_of_PB e hw ht hB
  exact {
    a := fun _ => hA, b := fun _ => hB, c := fun _ => hC,
    s := fun _ => hS,
    br := fun h => (by rw [hq] at h; cases h),
    en := fun h => (by rw [hq] at h; cases h),
    ov := fun _ _ => objval_simple e hC hw ho (by omega),
    pt := fun h => (by rw [hq] at h; cases h),
    pe := fun h => (by rw [hq] at h; cases h),
    ip := fun q h => (by subst h; simp [cat] at hq),
    el := fun c t h => (by subst h; simp [cat] at hq) }

theorem mkQuery (e : E) (hq : cat e = .query) (hnp : isPostfixable e = false) (hnt : isTerm e = false) (hns : isStr e = false)
    (hC : PC e) (hOV : isObjVal e = true → PObjVal e) : Good e :=
  { a := fun h => (by simp [hnp] at h), b := fun h => (by simp [hnt] at h), c := fun _ => hC,
    s := fun h => (by simp [hns] at h),
    br := fun h => (by rw [hq] at h; cases h),
    en := fun h => (by rw [hq] at h; cases h),
    ov := fun _ h => hOV h,
    pt := fun h => (by rw [hq] at h; cases h),
    pe := fun h => (by rw [hq] at h; cases h),
    ip := fun q h => (by subst h; simp [cat] at hq),
    el := fun c t h => (by subst h; simp [cat] at hq) }

/-- for the non-query categories: one field matters -/
theorem mkOther (e : E) (hnq : cat e ≠ .query) (hnp : isPostfixable e = false) (hnt : isTerm e = false) (hns : isStr e = false)
    (hbr : cat e = .bracket → PBr e) (hen : cat e = .entry → PEntry e) (hpt : cat e = .pattern → PPat e)
    (hpe : cat e = .patEntry → PPatEntry e) (hip : ∀ q, e = .interp q → PC q) (hel : ∀ c t, e = .elif c t → PC c ∧ PC t) : Good e :=
  { a := fun h => (by simp [hnp] at h), b := fun h => (by simp [hnt] at h), c := fun h => absurd h hnq,
    s := fun h => (by simp [hns] at h), br := hbr, en := hen, ov := fun h _ => absurd h hnq, pt := hpt, pe := hpe, ip := hip, el := hel }

/-! ### small facts -/

theorem hazard_quest (t : E) (r) : hazard t (.quest :: r) = true := by cases t <;> simp [hazard, headIs, noStr, strHead]
theorem hazard_field (t : E) (s r) : hazard t (.field s :: r) = true := by cases t <;> simp [hazard, headIs, noStr, strHead]
theorem hazard_dot (t : E) (r) : hazard t (.dot :: r) = true := by cases t <;> simp [hazard, headIs, noStr, strHead]
theorem hazard_lbrack (t : E) (r) (h : notDot t = true) : hazard t (.lbrack :: r) = true := by
  cases t <;> simp_all [hazard, headIs, noStr, strHead, notDot]

theorem hazard_of_noCont (e : E) (rest : List Tok) (h : headCont rest = false) : hazard e rest = true := by
  cases rest with
  | nil => cases e <;> simp [hazard, headIs, noStr, strHead]
  | cons t ts =>
    cases e <;> simp only [hazard, headIs, noStr, strHead] <;> cases t <;> simp_all [headCont, contTok]

theorem queryHead_ne (hd : Tok) (h : queryHeadTok hd = true) :
    hd ≠ .rbrack ∧ hd ≠ .colon ∧ hd ≠ .rbrace ∧ hd ≠ .rparen ∧ hd ≠ .semi := by
  cases hd <;> simp_all [queryHeadTok, termHeadTok]

/-- `onTok t` on the printed form of a query falls through when `t` cannot start a query -/
theorem onTok_query {β : Type} (t : Tok) (e : E) (hw : wf e = true) (hq : cat e = .query) (rest : List Tok)
    (k : List Tok → β) (n : β) (ht : queryHeadTok t = false) : onTok t (print e ++ rest) k n = n := by
  obtain ⟨hd, tl, h1, h2⟩ := query_head e hw hq
  rw [h1]
  have : hd ≠ t := by intro h; subst h; simp [ht] at h2
  simp [onTok, this]

theorem print_ite (c t : E) (es : List E) (els : Option E) :
    print (.ite c t es els) = .kw .if_ :: print c ++ .kw .then_ :: print t ++ printCat es ++ elseToks els := by
  cases els <;> simp [print, elseToks]

theorem cost_ite (c t : E) (es : List E) (els : Option E) :
    cost (.ite c t es els) = cost c + cost t + costL es + elseCost els + 6 := by
  cases els <;> simp [cost, elseCost]

theorem stops_of_follow_open (e : E) (q : Bool) (rest : List Tok) (ho : isOpen e = true) (hf : follow e q rest = true) :
    stops rest = true := by
  have hor : openRight e = true := by cases e <;> simp_all [isOpen, openRight]
  cases rest with
  | nil => rfl
  | cons t ts =>
    cases t with
    | kw k => cases k <;> simp_all [follow, stops]
    | _ => simp_all [follow, stops]

theorem onStr_no {β : Type} (ts : List Tok) (A : β) (B : StrHead → β) (h : strHead ts = .no) : onStr ts A B = A := by
  simp [onStr, h]

theorem PA_atom (e : E) (tk : Tok) (hp : print e = [tk])
    (hstep : ∀ F1 rest, hazard e rest = true → parseTerm (F1 + 1) (tk :: rest) = parsePostfix F1 e rest) : PA e := by
  intro f F rest x hF hh hpf
  have := cost_ge e
  obtain ⟨F1, rfl⟩ : ∃ F1, F = F1 + 1 := ⟨F - 1, by omega⟩
  rw [hp]
  simp only [List.cons_append, List.nil_append]
  rw [hstep F1 rest hh]
  exact postfix_mono (by omega) hpf

theorem good_atom (e : E) (tk : Tok) (hw : wf e = true) (ht : isTerm e = true) (hp' : isPostfixable e = true)
    (hstr : isStr e = false) (hp : print e = [tk])
    (hstep : ∀ F1 rest, hazard e rest = true → parseTerm (F1 + 1) (tk :: rest) = parsePostfix F1 e rest) : Good e := by
  have hA := PA_atom e tk hp hstep
  exact mkTerm e hw ht hstr (fun _ => hA) (PB_of_PA e hA (hazard_of_noCont e))

theorem noStr_strHead (rest : List Tok) (h : noStr rest = true) : strHead rest = .no := by
  unfold noStr at h
  cases hs : strHead rest <;> simp_all

theorem good_num (s : String) : Good (.num s) :=
  good_atom _ (.num s) rfl rfl rfl rfl rfl (by intro F1 rest _; simp [parseTerm])
theorem good_var (s : String) : Good (.var s) :=
  good_atom _ (.var s) rfl rfl rfl rfl rfl (by intro F1 rest _; simp [parseTerm])
theorem good_field (s : String) : Good (.field s) :=
  good_atom _ (.field s) rfl rfl rfl rfl rfl (by intro F1 rest _; simp [parseTerm])
theorem good_dotdot : Good .dotdot :=
  good_atom _ .dotdot rfl rfl rfl rfl rfl (by intro F1 rest _; simp [parseTerm])
theorem good_lit (k : Kw) (hw : wf (.lit k) = true) : Good (.lit k) :=
  good_atom _ (.kw k) hw rfl rfl rfl rfl (by
    intro F1 rest _
    cases k <;> simp [wf, isLitKw] at hw <;> simp [parseTerm])
theorem good_ident (s : String) : Good (.ident s) := good_atom _ (.ident s) rfl rfl rfl rfl rfl (by
  intro F1 rest hh
  simp only [hazard, Bool.not_eq_true'] at hh
  cases rest with
  | nil => simp [parseTerm, onTok]
  | cons t ts =>
    have : t ≠ .lparen := by intro h; subst h; simp [headIs] at hh
    simp [parseTerm, onTok, this])
theorem good_fmt (s : String) : Good (.fmt s) := good_atom _ (.fmt s) rfl rfl rfl rfl rfl (by
  intro F1 rest hh
  simp only [hazard] at hh
  simp [parseTerm, onStr_no _ _ _ (noStr_strHead rest hh)])
theorem good_dot : Good .dot := good_atom _ .dot rfl rfl rfl rfl rfl (by
  intro F1 rest hh
  simp only [hazard, Bool.and_eq_true, Bool.not_eq_true'] at hh
  have h2 := noStr_strHead rest hh.2
  cases rest with
  | nil => simp [parseTerm, onTok, onStr, strHead]
  | cons t ts =>
    have : t ≠ .lbrack := by intro h; subst h; simp [headIs] at hh
    simp [parseTerm, onTok, this, onStr_no _ _ _ h2])

theorem good_brk (s : String) : Good (.brk s) := by
  have hA : PA (.brk s) := by
    intro f F rest x hF _ hpf
    simp only [cost] at hF
    obtain ⟨F1, rfl⟩ : ∃ F1, F = F1 + 1 := ⟨F - 1, by omega⟩
    simp only [print, List.cons_append, List.nil_append, parseTerm]
    exact postfix_mono (by omega) hpf
  exact mkTerm _ rfl rfl rfl (fun _ => hA) (PB_of_PA _ hA (hazard_of_noCont _))

theorem good_strl (s : String) : Good (.strl s) := by
  have hA : PA (.strl s) := PA_atom _ (.str s) rfl (by intro F1 rest _; simp [parseTerm])
  have hS : PStr (.strl s) := by
    intro F rest hF
    simp only [cost] at hF
    obtain ⟨F1, rfl⟩ : ∃ F1, F = F1 + 1 := ⟨F - 1, by omega⟩
    simp [print, strHead, parseStrTail]
  exact mkStrTerm _ rfl rfl hS hA (PB_of_PA _ hA (hazard_of_noCont _))

theorem good_istr (ps : List E) (hw : wf (.istr ps) = true) (hg : ∀ p ∈ ps, Good p) : Good (.istr ps) := by
  have hwp : wfAll .part ps = true := by simpa [wf] using hw
  have hA : PA (.istr ps) := by
    intro f F rest x hF _ hpf
    simp only [cost] at hF
    obtain ⟨F1, rfl⟩ : ∃ F1, F = F1 + 1 := ⟨F - 1, by omega⟩
    simp only [print, List.cons_append, List.append_assoc, List.nil_append, parseTerm]
    rw [parts_ok ps hg hwp F1 rest (by omega)]
    simp only [bnd]
    exact postfix_mono (by omega) hpf
  have hS : PStr (.istr ps) := by
    intro F rest hF
    simp only [cost] at hF
    obtain ⟨F1, rfl⟩ : ∃ F1, F = F1 + 1 := ⟨F - 1, by omega⟩
    simp only [print, List.cons_append, List.append_assoc, List.nil_append, strHead, parseStrTail]
    rw [parts_ok ps hg hwp F1 rest (by omega)]
    rfl
  exact mkStrTerm _ hw rfl hS hA (PB_of_PA _ hA (hazard_of_noCont _))

theorem good_call (s : String) (as : List E) (hw : wf (.call s as) = true) (hg : ∀ a ∈ as, Good a) : Good (.call s as) := by
  have hw' : as ≠ [] ∧ wfAll .query as = true := by
    simp only [wf, Bool.and_eq_true, Bool.not_eq_true', List.isEmpty_eq_false_iff] at hw; exact hw
  have hA : PA (.call s as) := by
    intro f F rest x hF _ hpf
    simp only [cost] at hF
    obtain ⟨F1, rfl⟩ : ∃ F1, F = F1 + 1 := ⟨F - 1, by omega⟩
    simp only [print, List.cons_append, List.append_assoc, List.nil_append, parseTerm, onTok_eq]
    rw [args_ok as hw'.1 hg hw'.2 F1 rest (by omega)]
    simp only [bnd]
    exact postfix_mono (by omega) hpf
  exact mkTerm _ hw rfl rfl (fun _ => hA) (PB_of_PA _ hA (hazard_of_noCont _))

/-- a string at the head -/
theorem onStr_str {β : Type} (s : E) (hs : isStr s = true) (rest : List Tok) (A : β) (B : StrHead → β) :
    onStr (print s ++ rest) A B = B (strHead (print s ++ rest)) := by
  cases s <;> simp [isStr] at hs <;> simp [print, onStr, strHead]

theorem str_ne_lbrack {β : Type} (s : E) (hs : isStr s = true) (rest : List Tok) (k : List Tok → β) (n : β) (t : Tok)
    (ht : t ≠ .str "" ∧ t ≠ .strStart ∧ (∀ x, t ≠ .str x)) : onTok t (print s ++ rest) k n = n := by
  cases s <;> simp [isStr] at hs <;> simp [print, onTok]
  · intro h; exact absurd h.symm (ht.2.2 _)
  · intro h; exact absurd h.symm ht.2.1

theorem good_dotStr (s : E) (hw : wf (.dotStr s) = true) (hg : Good s) : Good (.dotStr s) := by
  have hw' : wf s = true ∧ isStr s = true := by simpa [wf] using hw
  have hA : PA (.dotStr s) := by
    intro f F rest x hF _ hpf
    simp only [cost] at hF
    obtain ⟨F1, rfl⟩ : ∃ F1, F = F1 + 1 := ⟨F - 1, by omega⟩
    simp only [print, List.cons_append, parseTerm]
    rw [str_ne_lbrack s hw'.2 rest _ _ .lbrack (by simp), onStr_str s hw'.2, hg.s hw'.2 F1 rest (by omega)]
    simp only [bnd]
    exact postfix_mono (by omega) hpf
  exact mkTerm _ hw rfl rfl (fun _ => hA) (PB_of_PA _ hA (hazard_of_noCont _))

theorem good_fmtS (n : String) (s : E) (hw : wf (.fmtS n s) = true) (hg : Good s) : Good (.fmtS n s) := by
  have hw' : wf s = true ∧ isStr s = true := by simpa [wf] using hw
  have hA : PA (.fmtS n s) := by
    intro f F rest x hF _ hpf
    simp only [cost] at hF
    obtain ⟨F1, rfl⟩ : ∃ F1, F = F1 + 1 := ⟨F - 1, by omega⟩
    simp only [print, List.cons_append, parseTerm]
    rw [onStr_str s hw'.2, hg.s hw'.2 F1 rest (by omega)]
    simp only [bnd]
    exact postfix_mono (by omega) hpf
  exact mkTerm _ hw rfl rfl (fun _ => hA) (PB_of_PA _ hA (hazard_of_noCont _))

theorem good_dotIdx (b : E) (hw : wf (.dotIdx b) = true) (hg : Good b) : Good (.dotIdx b) := by
  have hw' : wf b = true ∧ cat b = .bracket := by simpa [wf] using hw
  have hA : PA (.dotIdx b) := by
    intro f F rest x hF _ hpf
    simp only [cost] at hF
    obtain ⟨F1, rfl⟩ : ∃ F1, F = F1 + 1 := ⟨F - 1, by omega⟩
    simp only [print, List.cons_append, parseTerm, onTok_eq]
    rw [hg.br hw'.2 F1 rest (by omega)]
    simp only [bnd]
    exact postfix_mono (by omega) hpf
  exact mkTerm _ hw rfl rfl (fun _ => hA) (PB_of_PA _ hA (hazard_of_noCont _))

theorem good_arr_none : Good (.arr none) := by
  have hA : PA (.arr none) := by
    intro f F rest x hF _ hpf
    simp only [cost] at hF
    obtain ⟨F1, rfl⟩ : ∃ F1, F = F1 + 1 := ⟨F - 1, by omega⟩
    simp only [print, List.cons_append, List.nil_append, parseTerm, onTok_eq]
    exact postfix_mono (by omega) hpf
  exact mkTerm _ rfl rfl rfl (fun _ => hA) (PB_of_PA _ hA (hazard_of_noCont _))

theorem good_arr_some (q : E) (hw : wf (.arr (some q)) = true) (hg : Good q) : Good (.arr (some q)) := by
  have hw' : wf q = true ∧ cat q = .query := by simpa [wf, isQ] using hw
  have hA : PA (.arr (some q)) := by
    intro f F rest x hF _ hpf
    simp only [cost] at hF
    obtain ⟨F1, rfl⟩ : ∃ F1, F = F1 + 1 := ⟨F - 1, by omega⟩
    simp only [print, List.cons_append, List.append_assoc, List.nil_append, parseTerm]
    rw [onTok_query .rbrack q hw'.1 hw'.2 _ _ _ rfl, hole q (hg.c hw'.2) F1 _ (stops_rbrack _) (by omega)]
    simp only [bnd, expect, if_true]
    exact postfix_mono (by omega) hpf
  exact mkTerm _ hw rfl rfl (fun _ => hA) (PB_of_PA _ hA (hazard_of_noCont _))

theorem good_paren (e : E) (hw : wf (.paren e) = true) (hg : Good e) : Good (.paren e) := by
  have hw' : wf e = true ∧ cat e = .query := by simpa [wf, isQ] using hw
  have hA : PA (.paren e) := by
    intro f F rest x hF _ hpf
    simp only [cost] at hF
    obtain ⟨F1, rfl⟩ : ∃ F1, F = F1 + 1 := ⟨F - 1, by omega⟩
    simp only [print, List.cons_append, List.append_assoc, List.nil_append, parseTerm]
    rw [hole e (hg.c hw'.2) F1 _ (stops_rparen _) (by omega)]
    simp only [bnd, expect, if_true]
    exact postfix_mono (by omega) hpf
  exact mkTerm _ hw rfl rfl (fun _ => hA) (PB_of_PA _ hA (hazard_of_noCont _))

theorem PElem_entry (x : E) (hc : cat x = .entry) (hg : Good x) : PElem .entry .rbrace x := by
  intro F rest hF hs
  obtain ⟨F1, rfl⟩ : ∃ F1, F = F1 + 1 := ⟨F - 1, by omega⟩
  simp only [parseElem]
  exact hg.en hc F1 rest (by omega) (by simpa [sepStop] using hs)

theorem PElem_pattern (close : Tok) (x : E) (hc : cat x = .pattern) (hg : Good x) : PElem .pattern close x := by
  intro F rest hF _
  obtain ⟨F1, rfl⟩ : ∃ F1, F = F1 + 1 := ⟨F - 1, by omega⟩
  simp only [parseElem]
  exact hg.pt hc F1 rest (by omega)

theorem PElem_patEntry (x : E) (hc : cat x = .patEntry) (hg : Good x) : PElem .patEntry .rbrace x := by
  intro F rest hF hs
  obtain ⟨F1, rfl⟩ : ∃ F1, F = F1 + 1 := ⟨F - 1, by omega⟩
  simp only [parseElem]
  refine hg.pe hc F1 rest (by omega) ?_
  cases rest with
  | nil => simp [headIs] at hs
  | cons t ts =>
    simp only [headIs, beq_iff_eq] at hs ⊢
    rcases hs with h | h <;> subst h <;> simp

/-- the first token of an object entry / pattern entry is not `}` -/
theorem entry_head_ne_rbrace : ∀ (x : E), wf x = true → cat x = .entry ∨ cat x = .patEntry →
    ∃ hd tl, print x = hd :: tl ∧ hd ≠ .rbrace
  | .kvKey k none, hw, _ => ⟨k, [], rfl, by intro h; subst h; simp [wf, isKeyTok] at hw⟩
  | .kvKey k (some v), hw, _ => ⟨k, _, rfl, by intro h; subst h; simp [wf, isKeyTok] at hw⟩
  | .kvStr s none, hw, _ => by
    have : isStr s = true := by simp [wf] at hw; exact hw.2
    cases s <;> simp [isStr] at this <;> exact ⟨_, _, rfl, by simp⟩
  | .kvStr s (some v), hw, _ => by
    have : isStr s = true := by simp [wf] at hw; exact hw.1.1.2
    cases s <;> simp [isStr] at this <;> exact ⟨_, _, rfl, by simp⟩
  | .kvQ q v, _, _ => ⟨_, _, rfl, by simp⟩
  | .peVar s, _, _ => ⟨_, _, rfl, by simp⟩
  | .peKey k p, hw, _ => ⟨k, _, rfl, by intro h; subst h; simp [wf, isKeyTok] at hw⟩
  | .peStr s p, hw, _ => by
    have : isStr s = true := by simp [wf] at hw; exact hw.1.1.2
    cases s <;> simp [isStr] at this <;> exact ⟨_, _, rfl, by simp⟩
  | .peQ q p, _, _ => ⟨_, _, rfl, by simp⟩
  | .num _, _, h | .strl _, _, h | .istr _, _, h | .ident _, _, h | .var _, _, h | .call _ _, _, h | .field _, _, h
  | .dot, _, h | .dotdot, _, h | .dotStr _, _, h | .dotIdx _, _, h | .lit _, _, h | .fmt _, _, h | .fmtS _ _, _, h
  | .arr _, _, h | .obj _, _, h | .neg _, _, h | .pos _, _, h | .ite _ _ _ _, _, h | .try_ _ _, _, h
  | .reduce _ _ _ _, _, h | .foreach _ _ _ _ _, _, h | .brk _, _, h | .paren _, _, h | .opt _, _, h
  | .sfxField _ _, _, h | .sfxStr _ _, _, h | .sfxBr _ _, _, h | .bin _ _ _, _, h | .bind _ _ _, _, h | .label _ _, _, h
  | .def_ _ _ _ _, _, h | .piece _, _, h | .interp _, _, h | .elif _ _, _, h
  | .bIter, _, h | .bIdx _, _, h | .bSliceL _, _, h | .bSliceR _, _, h | .bSlice _ _, _, h
  | .pvar _, _, h | .parr _, _, h | .pobj _, _, h => by simp [cat] at h

theorem printSep_head (sep : Tok) (x : E) (xs : List E) : ∃ tl, printSep sep (x :: xs) = print x ++ tl := by
  cases xs with
  | nil => exact ⟨[], by simp [printSep]⟩
  | cons y ys => exact ⟨sep :: printSep sep (y :: ys), by simp [printSep]⟩

theorem good_obj (kvs : List E) (hw : wf (.obj kvs) = true) (hg : ∀ x ∈ kvs, Good x) : Good (.obj kvs) := by
  have hwa : wfAll .entry kvs = true := by simpa [wf] using hw
  have hA : PA (.obj kvs) := by
    intro f F rest x hF _ hpf
    simp only [cost] at hF
    obtain ⟨F1, rfl⟩ : ∃ F1, F = F1 + 1 := ⟨F - 1, by omega⟩
    cases kvs with
    | nil =>
      simp only [print, printSep, List.cons_append, List.nil_append, parseTerm, onTok_eq]
      exact postfix_mono (by omega) hpf
    | cons kv rest' =>
      obtain ⟨hwk, hck, _⟩ := wfAll_cons _ kv rest' hwa
      obtain ⟨hd, tl, h1, h2⟩ := entry_head_ne_rbrace kv hwk (Or.inl hck)
      obtain ⟨tl2, h3⟩ := printSep_head (.op .comma) kv rest'
      simp only [print, List.cons_append, List.append_assoc, List.nil_append, parseTerm]
      have hne : ∀ {β : Type} (k : List Tok → β) (n : β),
          onTok .rbrace (printSep (.op .comma) (kv :: rest') ++ .rbrace :: rest) k n = n := by
        intro β k n
        rw [h3, h1]
        simp [onTok, h2]
      rw [hne, sep_ok .entry .rbrace (Or.inl rfl) (kv :: rest') (by simp)
        (fun z hz => PElem_entry z ((wfAll_mem _ _ hwa z hz).2) (hg z hz)) F1 rest (by omega)]
      simp only [bnd]
      exact postfix_mono (by omega) hpf
  exact mkTerm _ hw rfl rfl (fun _ => hA) (PB_of_PA _ hA (hazard_of_noCont _))

theorem stops_elifs_tail (es : List E) (hws : wfAll .elifC es = true) (els : Option E) (rest : List Tok) :
    stops (printCat es ++ (elseToks els ++ rest)) = true := by
  cases es with
  | nil => simpa [printCat] using stops_elseToks els rest
  | cons y ys =>
    obtain ⟨_, hcy, _⟩ := wfAll_cons _ y ys hws
    cases y <;> simp [cat] at hcy
    simp [printCat, print, stops, contTok]

theorem good_ite (c t : E) (es : List E) (els : Option E) (hw : wf (.ite c t es els) = true)
    (hgc : Good c) (hgt : Good t) (hges : ∀ x ∈ es, Good x) (hgel : ∀ e, els = some e → Good e) : Good (.ite c t es els) := by
  have hw' : wf c = true ∧ cat c = .query ∧ wf t = true ∧ cat t = .query ∧ wfAll .elifC es = true ∧
      (∀ e, els = some e → wf e = true ∧ cat e = .query) := by
    cases els with
    | none => simp only [wf, Bool.and_eq_true, isQ, beq_iff_eq] at hw; exact ⟨hw.1.1.1.1, hw.1.1.1.2, hw.1.1.2, hw.1.2, hw.2, by simp⟩
    | some e =>
      simp only [wf, Bool.and_eq_true, isQ, beq_iff_eq] at hw
      exact ⟨hw.1.1.1.1.1.1, hw.1.1.1.1.1.2, hw.1.1.1.1.2, hw.1.1.1.2, hw.1.1.2, by intro e' h; cases h; exact ⟨hw.1.2, hw.2⟩⟩
  obtain ⟨hwc, hcc, hwt, hct, hwes, hwel⟩ := hw'
  have hA : PA (.ite c t es els) := by
    intro f F rest x hF _ hpf
    rw [cost_ite] at hF
    have := cost_ge c
    have := cost_ge t
    obtain ⟨F1, rfl⟩ : ∃ F1, F = F1 + 1 := ⟨F - 1, by omega⟩
    rw [print_ite]
    simp only [List.cons_append, List.append_assoc, parseTerm]
    rw [hole c (hgc.c hcc) F1 _ (stops_kw_then _) (by omega)]
    simp only [bnd, expect, if_true]
    rw [hole t (hgt.c hct) F1 _ (stops_elifs_tail es hwes els rest) (by omega)]
    simp only [bnd]
    rw [elifs_ok es hges hwes els (fun e h => (hgel e h).c (hwel e h).2) F1 rest (by omega)]
    simp only [bnd]
    exact postfix_mono (by omega) hpf
  exact mkTerm _ hw rfl rfl (fun _ => hA) (PB_of_PA _ hA (hazard_of_noCont _))

theorem good_reduce (src p a b : E) (hw : wf (.reduce src p a b) = true)
    (hgs : Good src) (hgp : Good p) (hga : Good a) (hgb : Good b) : Good (.reduce src p a b) := by
  simp only [wf, Bool.and_eq_true, isQ, beq_iff_eq, Bool.not_eq_true', Nat.ble_eq] at hw
  obtain ⟨⟨⟨⟨⟨⟨⟨⟨⟨hws, hcs⟩, hos⟩, hls⟩, hwp⟩, hcp⟩, hwa⟩, hca⟩, hwb⟩, hcb⟩ := hw
  have hw2 : wf (.reduce src p a b) = true := by
    simp [wf, isQ, hws, hcs, hos, hls, hwp, hcp, hwa, hca, hwb, hcb, Nat.ble_eq]
  have hA : PA (.reduce src p a b) := by
    intro f F rest x hF _ hpf
    simp only [cost] at hF
    have := cost_ge src; have := cost_ge p; have := cost_ge a; have := cost_ge b
    obtain ⟨F1, rfl⟩ : ∃ F1, F = F1 + 1 := ⟨F - 1, by omega⟩
    simp only [print, List.cons_append, List.append_assoc, List.nil_append, parseTerm]
    rw [hole3 src (hgs.c hcs) hws hos hls F1 _ (Or.inr (Or.inr ⟨_, rfl⟩)) (by omega)]
    simp only [bnd, expect, if_true]
    rw [hgp.pt hcp F1 _ (by omega)]
    simp only [bnd, expect, if_true]
    rw [hole a (hga.c hca) F1 _ (stops_semi _) (by omega)]
    simp only [bnd, expect, if_true]
    rw [hole b (hgb.c hcb) F1 _ (stops_rparen _) (by omega)]
    simp only [bnd, expect, if_true]
    exact postfix_mono (by omega) hpf
  exact mkTerm _ hw2 rfl rfl (fun _ => hA) (PB_of_PA _ hA (hazard_of_noCont _))

theorem good_foreach_none (src p a b : E) (hw : wf (.foreach src p a b none) = true)
    (hgs : Good src) (hgp : Good p) (hga : Good a) (hgb : Good b) : Good (.foreach src p a b none) := by
  have hw2 := hw
  simp only [wf, Bool.and_eq_true, isQ, beq_iff_eq, Bool.not_eq_true', Nat.ble_eq] at hw
  obtain ⟨⟨⟨⟨⟨⟨⟨⟨⟨hws, hcs⟩, hos⟩, hls⟩, hwp⟩, hcp⟩, hwa⟩, hca⟩, hwb⟩, hcb⟩ := hw
  have hA : PA (.foreach src p a b none) := by
    intro f F rest x hF _ hpf
    simp only [cost] at hF
    have := cost_ge src; have := cost_ge p; have := cost_ge a; have := cost_ge b
    obtain ⟨F1, rfl⟩ : ∃ F1, F = F1 + 1 := ⟨F - 1, by omega⟩
    simp only [print, List.cons_append, List.append_assoc, List.nil_append, parseTerm]
    rw [hole3 src (hgs.c hcs) hws hos hls F1 _ (Or.inr (Or.inr ⟨_, rfl⟩)) (by omega)]
    simp only [bnd, expect, if_true]
    rw [hgp.pt hcp F1 _ (by omega)]
    simp only [bnd, expect, if_true]
    rw [hole a (hga.c hca) F1 _ (stops_semi _) (by omega)]
    simp only [bnd, expect, if_true]
    rw [hole b (hgb.c hcb) F1 _ (stops_rparen _) (by omega)]
    simp only [bnd]
    rw [onTok_ne _ _ _ _ _ (by simp)]
    simp only [expect, if_true]
    exact postfix_mono (by omega) hpf
  exact mkTerm _ hw2 rfl rfl (fun _ => hA) (PB_of_PA _ hA (hazard_of_noCont _))

theorem good_foreach_some (src p a b c : E) (hw : wf (.foreach src p a b (some c)) = true)
    (hgs : Good src) (hgp : Good p) (hga : Good a) (hgb : Good b) (hgc : Good c) : Good (.foreach src p a b (some c)) := by
  have hw2 := hw
  simp only [wf, Bool.and_eq_true, isQ, beq_iff_eq, Bool.not_eq_true', Nat.ble_eq] at hw
  obtain ⟨⟨⟨⟨⟨⟨⟨⟨⟨⟨⟨hws, hcs⟩, hos⟩, hls⟩, hwp⟩, hcp⟩, hwa⟩, hca⟩, hwb⟩, hcb⟩, hwc⟩, hcc⟩ := hw
  have hA : PA (.foreach src p a b (some c)) := by
    intro f F rest x hF _ hpf
    simp only [cost] at hF
    have := cost_ge src; have := cost_ge p; have := cost_ge a; have := cost_ge b; have := cost_ge c
    obtain ⟨F1, rfl⟩ : ∃ F1, F = F1 + 1 := ⟨F - 1, by omega⟩
    simp only [print, List.cons_append, List.append_assoc, List.nil_append, parseTerm]
    rw [hole3 src (hgs.c hcs) hws hos hls F1 _ (Or.inr (Or.inr ⟨_, rfl⟩)) (by omega)]
    simp only [bnd, expect, if_true]
    rw [hgp.pt hcp F1 _ (by omega)]
    simp only [bnd, expect, if_true]
    rw [hole a (hga.c hca) F1 _ (stops_semi _) (by omega)]
    simp only [bnd, expect, if_true]
    rw [hole b (hgb.c hcb) F1 _ (stops_semi _) (by omega)]
    simp only [bnd, onTok_eq]
    rw [hole c (hgc.c hcc) F1 _ (stops_rparen _) (by omega)]
    simp only [bnd, expect, if_true]
    exact postfix_mono (by omega) hpf
  exact mkTerm _ hw2 rfl rfl (fun _ => hA) (PB_of_PA _ hA (hazard_of_noCont _))

/-! postfix forms -/

theorem good_opt (t : E) (hw : wf (.opt t) = true) (hg : Good t) : Good (.opt t) := by
  have hw' : wf t = true ∧ isPostfixable t = true := by simpa [wf] using hw
  have hA : PA (.opt t) := by
    intro f F rest x hF _ hpf
    simp only [cost] at hF
    simp only [print, List.append_assoc, List.cons_append, List.nil_append]
    refine hg.a hw'.2 (f + 1) F (.quest :: rest) x (by omega) (hazard_quest t rest) ?_
    simpa [parsePostfix] using hpf
  exact mkTerm _ hw rfl rfl (fun _ => hA) (PB_of_PA _ hA (hazard_of_noCont _))

theorem good_sfxField (t : E) (s : String) (hw : wf (.sfxField t s) = true) (hg : Good t) : Good (.sfxField t s) := by
  have hw' : wf t = true ∧ isPostfixable t = true := by simpa [wf] using hw
  have hA : PA (.sfxField t s) := by
    intro f F rest x hF _ hpf
    simp only [cost] at hF
    simp only [print, List.append_assoc, List.cons_append, List.nil_append]
    refine hg.a hw'.2 (f + 1) F (.field s :: rest) x (by omega) (hazard_field t s rest) ?_
    simpa [parsePostfix] using hpf
  exact mkTerm _ hw rfl rfl (fun _ => hA) (PB_of_PA _ hA (hazard_of_noCont _))

theorem good_sfxStr (t s : E) (hw : wf (.sfxStr t s) = true) (hgt : Good t) (hgs : Good s) : Good (.sfxStr t s) := by
  have hw' : (wf t = true ∧ isPostfixable t = true) ∧ wf s = true ∧ isStr s = true := by
    simp only [wf, Bool.and_eq_true] at hw; exact ⟨⟨hw.1.1.1, hw.1.1.2⟩, hw.1.2, hw.2⟩
  have hA : PA (.sfxStr t s) := by
    intro f F rest x hF _ hpf
    simp only [cost] at hF
    simp only [print, List.append_assoc, List.cons_append]
    refine hgt.a hw'.1.2 (f + cost s + 1) F (.dot :: (print s ++ rest)) x (by omega) (hazard_dot t _) ?_
    simp only [parsePostfix]
    rw [onStr_str s hw'.2.2, hgs.s hw'.2.2 (f + cost s) rest (by omega)]
    simp only [bnd]
    exact postfix_mono (by omega) hpf
  exact mkTerm _ hw rfl rfl (fun _ => hA) (PB_of_PA _ hA (hazard_of_noCont _))

theorem good_sfxBr (t b : E) (hw : wf (.sfxBr t b) = true) (hgt : Good t) (hgb : Good b) : Good (.sfxBr t b) := by
  have hw' : wf t = true ∧ isPostfixable t = true ∧ notDot t = true ∧ wf b = true ∧ cat b = .bracket := by
    simp only [wf, Bool.and_eq_true, beq_iff_eq] at hw; exact ⟨hw.1.1.1.1, hw.1.1.1.2, hw.1.1.2, hw.1.2, hw.2⟩
  have hA : PA (.sfxBr t b) := by
    intro f F rest x hF _ hpf
    simp only [cost] at hF
    simp only [print, List.append_assoc, List.cons_append]
    refine hgt.a hw'.2.1 (f + cost b + 1) F (.lbrack :: (print b ++ rest)) x (by omega) (hazard_lbrack t _ hw'.2.2.1) ?_
    simp only [parsePostfix]
    rw [hgb.br hw'.2.2.2.2 (f + cost b) rest (by omega)]
    simp only [bnd]
    exact postfix_mono (by omega) hpf
  exact mkTerm _ hw rfl rfl (fun _ => hA) (PB_of_PA _ hA (hazard_of_noCont _))

/-! unary operators and try -/

theorem tfollow_unary (e : E) (rest : List Tok) (d : danglingTry e = danglingTry (.neg e)) (h : tfollow (.neg e) rest = true) :
    tfollow e rest = true := by
  simpa [tfollow, danglingTry] using h

theorem good_neg (e : E) (hw : wf (.neg e) = true) (hg : Good e) : Good (.neg e) := by
  have hw' : wf e = true ∧ isTerm e = true := by simpa [wf] using hw
  have hB : PB (.neg e) := by
    intro F rest hF hf
    simp only [cost] at hF
    obtain ⟨F1, rfl⟩ : ∃ F1, F = F1 + 1 := ⟨F - 1, by omega⟩
    simp only [print, List.cons_append, parseTerm]
    rw [hg.b hw'.2 F1 rest (by omega) (by simpa [tfollow, danglingTry] using hf)]
    rfl
  exact mkTerm _ hw rfl rfl (fun h => by simp [isPostfixable] at h) hB

theorem good_pos (e : E) (hw : wf (.pos e) = true) (hg : Good e) : Good (.pos e) := by
  have hw' : wf e = true ∧ isTerm e = true := by simpa [wf] using hw
  have hB : PB (.pos e) := by
    intro F rest hF hf
    simp only [cost] at hF
    obtain ⟨F1, rfl⟩ : ∃ F1, F = F1 + 1 := ⟨F - 1, by omega⟩
    simp only [print, List.cons_append, parseTerm]
    rw [hg.b hw'.2 F1 rest (by omega) (by simpa [tfollow, danglingTry] using hf)]
    rfl
  exact mkTerm _ hw rfl rfl (fun h => by simp [isPostfixable] at h) hB

theorem good_try_none (b : E) (hw : wf (.try_ b none) = true) (hg : Good b) : Good (.try_ b none) := by
  have hw' : wf b = true ∧ isTerm b = true := by simpa [wf] using hw
  have hB : PB (.try_ b none) := by
    intro F rest hF hf
    simp only [cost] at hF
    obtain ⟨F1, rfl⟩ : ∃ F1, F = F1 + 1 := ⟨F - 1, by omega⟩
    simp only [tfollow, danglingTry, Bool.and_eq_true, Bool.not_eq_true', Bool.or_eq_true, Bool.not_true, Bool.or_false] at hf
    have hnc : headIs (.kw .catch_) rest = false := by simpa using hf.2
    simp only [print, List.cons_append, parseTerm]
    rw [hg.b hw'.2 F1 rest (by omega) (by simp [tfollow, hf.1, hnc])]
    simp only [bnd]
    cases rest with
    | nil => simp [onTok]
    | cons t ts =>
      have : t ≠ .kw .catch_ := by intro h; subst h; simp [headIs] at hnc
      simp [onTok, this]
  exact mkTerm _ hw rfl rfl (fun h => by simp [isPostfixable] at h) hB

theorem good_try_some (b c : E) (hw : wf (.try_ b (some c)) = true) (hgb : Good b) (hgc : Good c) : Good (.try_ b (some c)) := by
  have hw' : wf b = true ∧ isTerm b = true ∧ danglingTry b = false ∧ wf c = true ∧ isTerm c = true := by
    simp only [wf, Bool.and_eq_true, Bool.not_eq_true'] at hw; exact ⟨hw.1.1.1.1, hw.1.1.1.2, hw.1.1.2, hw.1.2, hw.2⟩
  have hB : PB (.try_ b (some c)) := by
    intro F rest hF hf
    simp only [cost] at hF
    obtain ⟨F1, rfl⟩ : ∃ F1, F = F1 + 1 := ⟨F - 1, by omega⟩
    simp only [print, List.cons_append, List.append_assoc, parseTerm]
    rw [hgb.b hw'.2.1 F1 _ (by omega) (by simp [tfollow, headCont, contTok, hw'.2.2.1])]
    simp only [bnd, onTok_eq]
    rw [hgc.b hw'.2.2.2.2 F1 rest (by omega) (by simpa [tfollow, danglingTry] using hf)]
  exact mkTerm _ hw rfl rfl (fun h => by simp [isPostfixable] at h) hB

theorem absorb_ge (e : E) (o : Op) (h : o.lmin ≤ level e) : o.prec < absorb e := by
  cases e <;> first | exact op_lmin_rmin o _ h | exact op_prec_lt_100 o

theorem prevOf_cases (e : E) : prevOf e = 0 ∨ prevOf e = level e := by
  cases e <;> simp [prevOf, level]

theorem not_open_of_level (e : E) (h : 1 ≤ level e) : isOpen e = false := by
  cases e <;> simp_all [isOpen, level]

structure BinWf (o : Op) (l r : E) : Prop where
  wl : wf l = true
  wr : wf r = true
  ql : cat l = .query
  qr : cat r = .query
  ol : openRight l = false
  ll : o.lmin ≤ level l
  rr : (if isOpen r then o.queryLevel else Nat.ble o.rmin (level r)) = true

theorem binWf (o : Op) (l r : E) (hw : wf (.bin o l r) = true) : BinWf o l r := by
  simp only [wf, Bool.and_eq_true, Nat.ble_eq, Bool.not_eq_true', isQ, beq_iff_eq] at hw
  obtain ⟨⟨⟨⟨⟨⟨h1, h2⟩, h3⟩, h4⟩, h5⟩, h6⟩, h7⟩ := hw
  exact ⟨h1, h2, h3, h4, h5, h6, h7⟩

theorem follow_left (o : Op) (l r : E) (q : Bool) (X : List Tok) (h : BinWf o l r) : follow l q (.op o :: X) = true := by
  simp [follow, h.ol, Nat.blt_eq, absorb_ge l o h.ll]

theorem op_query_prec (o : Op) (h : 3 ≤ o.prec) : o.queryLevel = false := by cases o <;> simp_all [Op.queryLevel, Op.prec]

theorem follow_right (o : Op) (l r : E) (q : Bool) (rest : List Tok) (h : BinWf o l r)
    (hf : follow (.bin o l r) q rest = true) : follow r o.queryLevel rest = true := by
  cases rest with
  | nil => rfl
  | cons t ts =>
    cases t with
    | op o' =>
      simp only [follow, openRight, absorb, Bool.and_eq_true, Bool.not_eq_true', Nat.blt_eq] at hf ⊢
      obtain ⟨hor, hlt⟩ := hf
      refine ⟨hor, ?_⟩
      have hno : isOpen r = false := by cases r <;> simp_all [isOpen, openRight]
      have hr' : o.rmin ≤ level r := by have := h.rr; simpa [hno, Nat.ble_eq] using this
      cases r with
      | bin o2 l2 r2 =>
        simp only [absorb, level] at hr' ⊢
        have := op_prec_le_rmin o2
        omega
      | _ => simp only [absorb]; have := op_prec_lt_100 o'; omega
    | kw k =>
      cases k with
      | as_ =>
        simp only [follow, isOpen, level, Bool.and_eq_true, Bool.not_eq_true', Nat.ble_eq, Bool.not_false, Bool.and_true] at hf
        have hq := op_query_prec o hf.2
        have hno : isOpen r = false := by
          have := h.rr
          by_cases hor : isOpen r = true
          · simp [hor, hq] at this
          · simpa using hor
        have hr' : o.rmin ≤ level r := by have := h.rr; simpa [hno, Nat.ble_eq] using this
        have := op_prec_le_rmin o
        simp [follow, hq, hno, Nat.ble_eq]
        omega
      | _ => simp_all [follow]
    | _ => simp_all [follow]

theorem climb_right_stops (f : Nat) (o : Op) (l r : E) (q : Bool) (p : Nat) (rest : List Tok)
    (hf : follow (.bin o l r) q rest = true) : climb (f + 1) o.rmin r p rest = some (r, rest) := by
  simp only [climb]
  cases rest with
  | nil => rfl
  | cons t ts =>
    cases t with
    | op o' =>
      simp only [follow, absorb, Bool.and_eq_true, Nat.blt_eq] at hf
      have : ¬ (o.rmin ≤ o'.prec) := by omega
      simp [onOp, this]
    | _ => simp [onOp]

theorem good_bin (o : Op) (l r : E) (hw : wf (.bin o l r) = true) (hgl : Good l) (hgr : Good r) : Good (.bin o l r) := by
  have h := binWf o l r hw
  have hC : PC (.bin o l r) := by
    intro f F m q rest x hF hen hfo hcl
    simp only [cost] at hF
    have := cost_ge l; have := cost_ge r
    have hCl := hgl.c h.ql
    have hCr := hgr.c h.qr
    have hm : m ≤ o.prec := by simpa [entry, isOpen, level, Nat.ble_eq] using hen
    have hentry_r : entry r o.rmin o.queryLevel = true := by
      have := h.rr
      unfold entry
      split <;> simp_all
    have hr_parse : parseExpr (cost r + 3) o.rmin o.queryLevel (print r ++ rest) = some (r, rest) :=
      hCr 1 (cost r + 3) o.rmin o.queryLevel rest (r, rest) (by omega) hentry_r (follow_right o l r q rest h hfo)
        (climb_right_stops 0 o l r q (prevOf r) rest hfo)
    have hnon : ¬ (o.assoc = .non ∧ o.prec = prevOf l) := by
      intro ⟨h1, h2⟩
      have h3 := op_non o h1
      have h4 := op_prec_pos o
      have := h.ll
      rcases prevOf_cases l with h5 | h5 <;> omega
    have hcl_l : climb (f + cost r + 3 + 1) m l (prevOf l) (.op o :: (print r ++ rest)) = some x := by
      simp only [climb, onOp]
      rw [if_pos hm, if_neg hnon, expr_mono (by omega) hr_parse]
      simp only [bnd]
      exact climb_mono (f := f) (f' := f + cost r + 3) (by omega) hcl
    have hnol : isOpen l = false := not_open_of_level l (by have := op_prec_pos o; have := op_prec_le_lmin o; have := h.ll; omega)
    have hentry_l : entry l m q = true := by
      simp only [entry, hnol, Nat.ble_eq]
      have := op_prec_le_lmin o
      have := h.ll
      simp; omega
    have := hCl (f + cost r + 3 + 1) F m q (.op o :: (print r ++ rest)) x (by omega) hentry_l (follow_left o l r q _ h) hcl_l
    simpa [print, List.append_assoc] using this
  have hOV : isObjVal (.bin o l r) = true → PObjVal (.bin o l r) := by
    intro hov
    cases o with
    | pipe =>
      simp only [isObjVal, Bool.and_eq_true, beq_iff_eq, Bool.not_eq_true', Nat.ble_eq] at hov
      obtain ⟨⟨⟨_, hol⟩, hll⟩, hovr⟩ := hov
      intro F rest hF hs
      simp only [cost] at hF
      have := cost_ge l; have := cost_ge r
      obtain ⟨F1, rfl⟩ : ∃ F1, F = F1 + 1 := ⟨F - 1, by omega⟩
      simp only [print, List.append_assoc, List.cons_append, parseObjVal]
      rw [hole3 l (hgl.c h.ql) h.wl hol hll F1 _ (Or.inr (Or.inl ⟨.pipe, _, rfl, by decide⟩)) (by omega)]
      simp only [bnd, onTok_eq]
      rw [hgr.ov h.qr hovr F1 rest (by omega) hs]
    | _ =>
      simp only [isObjVal, Bool.and_eq_true, beq_iff_eq, Bool.not_eq_true', Nat.ble_eq] at hov
      exact objval_simple _ hC hw hov.1.2 hov.2
  exact mkQuery _ rfl rfl rfl rfl hC hOV

/-- the body of an open form: everything up to a closing token -/
theorem open_body (b : E) (hC : PC b) (F : Nat) (rest : List Tok) (hs : stops rest = true) (hF : cost b + 3 ≤ F) :
    parseExpr F 1 true (print b ++ rest) = some (b, rest) := hole b hC F rest hs hF

theorem good_bind (t : E) (ps : List E) (b : E) (hw : wf (.bind t ps b) = true)
    (hgt : Good t) (hgp : ∀ p ∈ ps, Good p) (hgb : Good b) : Good (.bind t ps b) := by
  have hw' : wf t = true ∧ isTerm t = true ∧ ps ≠ [] ∧ wfAll .pattern ps = true ∧ wf b = true ∧ cat b = .query := by
    simp only [wf, Bool.and_eq_true, Bool.not_eq_true', List.isEmpty_eq_false_iff, isQ, beq_iff_eq] at hw
    exact ⟨hw.1.1.1.1.1, hw.1.1.1.1.2, hw.1.1.1.2, hw.1.1.2, hw.1.2, hw.2⟩
  obtain ⟨hwt, htt, hne, hwp, hwb, hcb⟩ := hw'
  have hC : PC (.bind t ps b) := by
    intro f F m q rest x hF hen hfo hcl
    simp only [cost] at hF
    have := cost_ge t; have := cost_ge b
    have hq : q = true := by simpa [entry, isOpen] using hen
    subst hq
    have hst : stops rest = true := stops_of_follow_open _ _ rest rfl hfo
    obtain ⟨hd, tl, hpr, hhd⟩ := term_head t hwt htt
    obtain ⟨hn1, hn2⟩ := termHead_not_label hd hhd
    obtain ⟨F1, rfl⟩ : ∃ F1, F = F1 + 1 + 1 := ⟨F - 2, by omega⟩
    have hterm : parseTerm F1 (print t ++ (.kw .as_ :: (printSep .destalt ps ++ (.op .pipe :: (print b ++ rest))))) =
        some (t, .kw .as_ :: (printSep .destalt ps ++ (.op .pipe :: (print b ++ rest)))) :=
      hgt.b htt F1 _ (by omega) (by simp [tfollow, headCont, contTok, headIs])
    have hpats : parsePats F1 (printSep .destalt ps ++ (.op .pipe :: (print b ++ rest))) = some (ps, .op .pipe :: (print b ++ rest)) :=
      pats_ok ps hne (fun p hp => (hgp p hp).pt (wfAll_mem _ _ hwp p hp).2) F1 _ (by omega) (by simp [headIs])
    simp only [print, List.append_assoc, List.cons_append, parseExpr, parseOperand]
    rw [show print t ++ (.kw .as_ :: (printSep .destalt ps ++ (.op .pipe :: (print b ++ rest)))) =
      hd :: (tl ++ (.kw .as_ :: (printSep .destalt ps ++ (.op .pipe :: (print b ++ rest))))) by rw [hpr]; rfl]
    rw [onTok_ne _ _ _ _ _ hn1, onTok_ne _ _ _ _ _ hn2]
    rw [show hd :: (tl ++ (.kw .as_ :: (printSep .destalt ps ++ (.op .pipe :: (print b ++ rest))))) =
      print t ++ (.kw .as_ :: (printSep .destalt ps ++ (.op .pipe :: (print b ++ rest)))) by rw [hpr]; rfl, hterm]
    simp only [bnd, onTok_eq, if_true]
    rw [hpats]
    simp only [bnd, expect, if_true]
    rw [open_body b (hgb.c hcb) F1 rest hst (by omega)]
    simp only [bnd]
    simp only [prevOf] at hcl
    exact climb_mono (f := f) (f' := F1 + 1) (by omega) hcl
  exact mkQuery _ rfl rfl rfl rfl hC (fun h => by simp [isObjVal, isOpen, cat] at h)

theorem good_label (s : String) (b : E) (hw : wf (.label s b) = true) (hgb : Good b) : Good (.label s b) := by
  have hw' : wf b = true ∧ cat b = .query := by simpa [wf, isQ] using hw
  have hC : PC (.label s b) := by
    intro f F m q rest x hF hen hfo hcl
    simp only [cost] at hF
    have hq : q = true := by simpa [entry, isOpen] using hen
    subst hq
    have hst : stops rest = true := stops_of_follow_open _ _ rest rfl hfo
    obtain ⟨F1, rfl⟩ : ∃ F1, F = F1 + 1 + 1 := ⟨F - 2, by omega⟩
    simp only [print, List.cons_append, parseExpr, parseOperand, onTok_eq, if_true]
    rw [open_body b (hgb.c hw'.2) F1 rest hst (by omega)]
    simp only [bnd]
    simp only [prevOf] at hcl
    exact climb_mono (f := f) (f' := F1 + 1) (by omega) hcl
  exact mkQuery _ rfl rfl rfl rfl hC (fun h => by simp [isObjVal, isOpen, cat] at h)

theorem good_def (n : String) (ps : List Tok) (fb rest' : E) (hw : wf (.def_ n ps fb rest') = true)
    (hgf : Good fb) (hgr : Good rest') : Good (.def_ n ps fb rest') := by
  have hw' : ps.all isParamTok = true ∧ wf fb = true ∧ cat fb = .query ∧ wf rest' = true ∧ cat rest' = .query := by
    simp only [wf, Bool.and_eq_true, isQ, beq_iff_eq] at hw
    exact ⟨hw.1.1.1.1, hw.1.1.1.2, hw.1.1.2, hw.1.2, hw.2⟩
  obtain ⟨hps, hwf, hcf, hwr, hcr⟩ := hw'
  have hC : PC (.def_ n ps fb rest') := by
    intro f F m q rest x hF hen hfo hcl
    simp only [cost] at hF
    have := cost_ge fb; have := cost_ge rest'
    have hq : q = true := by simpa [entry, isOpen] using hen
    subst hq
    have hst : stops rest = true := stops_of_follow_open _ _ rest rfl hfo
    obtain ⟨F1, rfl⟩ : ∃ F1, F = F1 + 1 + 1 := ⟨F - 2, by omega⟩
    simp only [prevOf] at hcl
    have hcl' := climb_mono (f := f) (f' := F1 + 1) (by omega) hcl
    cases ps with
    | nil =>
      simp only [print, List.cons_append, List.append_assoc, parseExpr, parseOperand]
      rw [onTok_ne _ _ _ _ _ (by simp), onTok_eq]
      simp only [if_true]
      rw [onTok_ne _ _ _ _ _ (by simp)]
      simp only [expect, if_true]
      rw [hole fb (hgf.c hcf) F1 _ (stops_semi _) (by omega)]
      simp only [bnd, expect, if_true]
      rw [open_body rest' (hgr.c hcr) F1 rest hst (by omega)]
      simp only [bnd]
      exact hcl'
    | cons p ps' =>
      simp only [print, List.cons_append, List.append_assoc, parseExpr, parseOperand]
      rw [onTok_ne _ _ _ _ _ (by simp), onTok_eq]
      simp only [if_true, onTok_eq]
      rw [params_ok (p :: ps') (by simp) hps F1 _ (by simp only [List.length_cons] at hF ⊢; omega)]
      simp only [bnd, expect, if_true]
      rw [hole fb (hgf.c hcf) F1 _ (stops_semi _) (by omega)]
      simp only [bnd, expect, if_true]
      rw [open_body rest' (hgr.c hcr) F1 rest hst (by omega)]
      simp only [bnd]
      exact hcl'
  exact mkQuery _ rfl rfl rfl rfl hC (fun h => by simp [isObjVal, isOpen, cat] at h)

theorem good_piece (s : String) : Good (.piece s) :=
  mkOther _ (by simp [cat]) rfl rfl rfl (fun h => by simp [cat] at h) (fun h => by simp [cat] at h) (fun h => by simp [cat] at h)
    (fun h => by simp [cat] at h) (fun q h => by cases h) (fun c t h => by cases h)

theorem good_interp (q : E) (hw : wf (.interp q) = true) (hg : Good q) : Good (.interp q) := by
  have hw' : wf q = true ∧ cat q = .query := by simpa [wf, isQ] using hw
  exact mkOther _ (by simp [cat]) rfl rfl rfl (fun h => by simp [cat] at h) (fun h => by simp [cat] at h) (fun h => by simp [cat] at h)
    (fun h => by simp [cat] at h) (fun q' h => by cases h; exact hg.c hw'.2) (fun c t h => by cases h)

theorem good_elif (c t : E) (hw : wf (.elif c t) = true) (hgc : Good c) (hgt : Good t) : Good (.elif c t) := by
  have hw' : wf c = true ∧ cat c = .query ∧ wf t = true ∧ cat t = .query := by
    simp only [wf, Bool.and_eq_true, isQ, beq_iff_eq] at hw; exact ⟨hw.1.1.1, hw.1.1.2, hw.1.2, hw.2⟩
  exact mkOther _ (by simp [cat]) rfl rfl rfl (fun h => by simp [cat] at h) (fun h => by simp [cat] at h) (fun h => by simp [cat] at h)
    (fun h => by simp [cat] at h) (fun q h => by cases h) (fun c' t' h => by cases h; exact ⟨hgc.c hw'.2.1, hgt.c hw'.2.2.2⟩)

/-! brackets -/

theorem mkBracket (b : E) (hc : cat b = .bracket) (hnp : isPostfixable b = false) (hnt : isTerm b = false) (hns : isStr b = false)
    (hnip : ∀ q, b ≠ .interp q) (hnel : ∀ c t, b ≠ .elif c t) (h : PBr b) : Good b :=
  mkOther b (by rw [hc]; simp) hnp hnt hns (fun _ => h) (fun h' => by rw [hc] at h'; cases h') (fun h' => by rw [hc] at h'; cases h')
    (fun h' => by rw [hc] at h'; cases h') (fun q h' => absurd h' (hnip q)) (fun c t h' => absurd h' (hnel c t))

theorem good_bIter : Good .bIter := mkBracket _ rfl rfl rfl rfl (by simp) (by simp) (by
  intro F rest hF
  simp only [cost] at hF
  obtain ⟨F1, rfl⟩ : ∃ F1, F = F1 + 1 := ⟨F - 1, by omega⟩
  simp [print, parseBracket, onTok])

theorem good_bIdx (e : E) (hw : wf (.bIdx e) = true) (hg : Good e) : Good (.bIdx e) := by
  have hw' : wf e = true ∧ cat e = .query := by simpa [wf, isQ] using hw
  exact mkBracket _ rfl rfl rfl rfl (by simp) (by simp) (by
    intro F rest hF
    simp only [cost] at hF
    obtain ⟨F1, rfl⟩ : ∃ F1, F = F1 + 1 := ⟨F - 1, by omega⟩
    simp only [print, List.append_assoc, List.cons_append, List.nil_append, parseBracket]
    rw [onTok_query .rbrack e hw'.1 hw'.2 _ _ _ rfl, onTok_query .colon e hw'.1 hw'.2 _ _ _ rfl,
      hole e (hg.c hw'.2) F1 _ (stops_rbrack _) (by omega)]
    simp [bnd, onTok])

theorem good_bSliceL (e : E) (hw : wf (.bSliceL e) = true) (hg : Good e) : Good (.bSliceL e) := by
  have hw' : wf e = true ∧ cat e = .query := by simpa [wf, isQ] using hw
  exact mkBracket _ rfl rfl rfl rfl (by simp) (by simp) (by
    intro F rest hF
    simp only [cost] at hF
    obtain ⟨F1, rfl⟩ : ∃ F1, F = F1 + 1 := ⟨F - 1, by omega⟩
    simp only [print, List.append_assoc, List.cons_append, List.nil_append, parseBracket]
    rw [onTok_query .rbrack e hw'.1 hw'.2 _ _ _ rfl, onTok_query .colon e hw'.1 hw'.2 _ _ _ rfl,
      hole e (hg.c hw'.2) F1 _ (stops_colon _) (by omega)]
    simp [bnd, onTok, expect])

theorem good_bSliceR (e : E) (hw : wf (.bSliceR e) = true) (hg : Good e) : Good (.bSliceR e) := by
  have hw' : wf e = true ∧ cat e = .query := by simpa [wf, isQ] using hw
  exact mkBracket _ rfl rfl rfl rfl (by simp) (by simp) (by
    intro F rest hF
    simp only [cost] at hF
    obtain ⟨F1, rfl⟩ : ∃ F1, F = F1 + 1 := ⟨F - 1, by omega⟩
    simp only [print, List.append_assoc, List.cons_append, List.nil_append, parseBracket]
    rw [onTok_ne _ _ _ _ _ (by simp), onTok_eq, hole e (hg.c hw'.2) F1 _ (stops_rbrack _) (by omega)]
    simp [bnd, expect])

theorem good_bSlice (a b : E) (hw : wf (.bSlice a b) = true) (hga : Good a) (hgb : Good b) : Good (.bSlice a b) := by
  have hw' : wf a = true ∧ cat a = .query ∧ wf b = true ∧ cat b = .query := by
    simp only [wf, Bool.and_eq_true, isQ, beq_iff_eq] at hw; exact ⟨hw.1.1.1, hw.1.1.2, hw.1.2, hw.2⟩
  exact mkBracket _ rfl rfl rfl rfl (by simp) (by simp) (by
    intro F rest hF
    simp only [cost] at hF
    have := cost_ge a; have := cost_ge b
    obtain ⟨F1, rfl⟩ : ∃ F1, F = F1 + 1 := ⟨F - 1, by omega⟩
    simp only [print, List.append_assoc, List.cons_append, List.nil_append, parseBracket]
    rw [onTok_query .rbrack a hw'.1 hw'.2.1 _ _ _ rfl, onTok_query .colon a hw'.1 hw'.2.1 _ _ _ rfl,
      hole a (hga.c hw'.2.1) F1 _ (stops_colon _) (by omega)]
    simp only [bnd]
    rw [onTok_ne _ _ _ _ _ (by simp)]
    simp only [expect, if_true]
    rw [onTok_query .rbrack b hw'.2.2.1 hw'.2.2.2 _ _ _ rfl, hole b (hgb.c hw'.2.2.2) F1 _ (stops_rbrack _) (by omega)]
    simp [bnd, expect])

/-! patterns -/

theorem mkPattern (p : E) (hc : cat p = .pattern) (hnp : isPostfixable p = false) (hnt : isTerm p = false) (hns : isStr p = false)
    (hnip : ∀ q, p ≠ .interp q) (hnel : ∀ c t, p ≠ .elif c t) (h : PPat p) : Good p :=
  mkOther p (by rw [hc]; simp) hnp hnt hns (fun h' => by rw [hc] at h'; cases h') (fun h' => by rw [hc] at h'; cases h') (fun _ => h)
    (fun h' => by rw [hc] at h'; cases h') (fun q h' => absurd h' (hnip q)) (fun c t h' => absurd h' (hnel c t))

theorem good_pvar (s : String) : Good (.pvar s) := mkPattern _ rfl rfl rfl rfl (by simp) (by simp) (by
  intro F rest hF
  simp only [cost] at hF
  obtain ⟨F1, rfl⟩ : ∃ F1, F = F1 + 1 := ⟨F - 1, by omega⟩
  simp [print, parsePattern])

theorem good_parr (ps : List E) (hw : wf (.parr ps) = true) (hg : ∀ p ∈ ps, Good p) : Good (.parr ps) := by
  have hw' : ps ≠ [] ∧ wfAll .pattern ps = true := by
    simp only [wf, Bool.and_eq_true, Bool.not_eq_true', List.isEmpty_eq_false_iff] at hw; exact hw
  exact mkPattern _ rfl rfl rfl rfl (by simp) (by simp) (by
    intro F rest hF
    simp only [cost] at hF
    obtain ⟨F1, rfl⟩ : ∃ F1, F = F1 + 1 := ⟨F - 1, by omega⟩
    simp only [print, List.append_assoc, List.cons_append, List.nil_append, parsePattern]
    rw [sep_ok .pattern .rbrack (Or.inr rfl) ps hw'.1
      (fun z hz => PElem_pattern .rbrack z (wfAll_mem _ _ hw'.2 z hz).2 (hg z hz)) F1 rest (by omega)]
    rfl)

theorem good_pobj (es : List E) (hw : wf (.pobj es) = true) (hg : ∀ p ∈ es, Good p) : Good (.pobj es) := by
  have hw' : es ≠ [] ∧ wfAll .patEntry es = true := by
    simp only [wf, Bool.and_eq_true, Bool.not_eq_true', List.isEmpty_eq_false_iff] at hw; exact hw
  exact mkPattern _ rfl rfl rfl rfl (by simp) (by simp) (by
    intro F rest hF
    simp only [cost] at hF
    obtain ⟨F1, rfl⟩ : ∃ F1, F = F1 + 1 := ⟨F - 1, by omega⟩
    simp only [print, List.append_assoc, List.cons_append, List.nil_append, parsePattern]
    rw [sep_ok .patEntry .rbrace (Or.inl rfl) es hw'.1
      (fun z hz => PElem_patEntry z (wfAll_mem _ _ hw'.2 z hz).2 (hg z hz)) F1 rest (by omega)]
    rfl)

theorem mkEntry (e : E) (hc : cat e = .entry) (hnp : isPostfixable e = false) (hnt : isTerm e = false) (hns : isStr e = false)
    (hnip : ∀ q, e ≠ .interp q) (hnel : ∀ c t, e ≠ .elif c t) (h : PEntry e) : Good e :=
  mkOther e (by rw [hc]; simp) hnp hnt hns (fun h' => by rw [hc] at h'; cases h') (fun _ => h) (fun h' => by rw [hc] at h'; cases h')
    (fun h' => by rw [hc] at h'; cases h') (fun q h' => absurd h' (hnip q)) (fun c t h' => absurd h' (hnel c t))

theorem mkPatEntry (e : E) (hc : cat e = .patEntry) (hnp : isPostfixable e = false) (hnt : isTerm e = false) (hns : isStr e = false)
    (hnip : ∀ q, e ≠ .interp q) (hnel : ∀ c t, e ≠ .elif c t) (h : PPatEntry e) : Good e :=
  mkOther e (by rw [hc]; simp) hnp hnt hns (fun h' => by rw [hc] at h'; cases h') (fun h' => by rw [hc] at h'; cases h')
    (fun h' => by rw [hc] at h'; cases h') (fun _ => h) (fun q h' => absurd h' (hnip q)) (fun c t h' => absurd h' (hnel c t))

/-- a key token is neither `(` nor a string -/
theorem keyTok_facts (k : Tok) (hk : isKeyTok k = true) (r : List Tok) :
    k ≠ .lparen ∧ strHead (k :: r) = .no ∧ (∀ s, k ≠ .var s → True) := by
  cases k <;> simp_all [isKeyTok, strHead]

theorem sepStop_colon (rest : List Tok) (h : sepStop rest = true) {β : Type} (k : List Tok → β) (n : β) :
    onTok .colon rest k n = n := by
  cases rest with
  | nil => simp [sepStop, headIs] at h
  | cons t ts =>
    simp only [sepStop, headIs, Bool.or_eq_true, beq_iff_eq] at h
    rcases h with h | h <;> subst h <;> simp [onTok]

theorem parseEntry_key (F1 : Nat) (k : Tok) (hk : isKeyTok k = true) (r : List Tok) :
    parseEntry (F1 + 1) (k :: r) =
      onTok .colon r (fun r' => bnd (parseObjVal F1 r') fun v r'' => some (.kvKey k (some v), r'')) (some (.kvKey k none, r)) := by
  cases k <;> simp [isKeyTok] at hk <;> simp [parseEntry, onStr, strHead, isKeyTok]
  · rename_i o; cases o <;> simp_all [isKeyTok]

theorem good_kvKey_none (k : Tok) (hw : wf (.kvKey k none) = true) : Good (.kvKey k none) := by
  have hk : isKeyTok k = true := by simpa [wf] using hw
  exact mkEntry _ rfl rfl rfl rfl (by simp) (by simp) (by
    intro F rest hF hs
    simp only [cost] at hF
    obtain ⟨F1, rfl⟩ : ∃ F1, F = F1 + 1 := ⟨F - 1, by omega⟩
    simp only [print, List.cons_append, List.nil_append]
    rw [parseEntry_key F1 k hk rest, sepStop_colon rest hs])

theorem good_kvKey_some (k : Tok) (v : E) (hw : wf (.kvKey k (some v)) = true) (hg : Good v) : Good (.kvKey k (some v)) := by
  have hw' : isKeyTok k = true ∧ wf v = true ∧ isObjVal v = true := by
    simp only [wf, Bool.and_eq_true] at hw; exact ⟨hw.1.1, hw.1.2, hw.2⟩
  have hcv : cat v = .query := by
    have := hw'.2.2
    cases v <;> simp_all [isObjVal, cat]
  exact mkEntry _ rfl rfl rfl rfl (by simp) (by simp) (by
    intro F rest hF hs
    simp only [cost] at hF
    obtain ⟨F1, rfl⟩ : ∃ F1, F = F1 + 1 := ⟨F - 1, by omega⟩
    simp only [print, List.cons_append]
    rw [parseEntry_key F1 k hw'.1, onTok_eq, hg.ov hcv hw'.2.2 F1 rest (by omega) hs]
    rfl)


theorem objVal_cat (v : E) (h : isObjVal v = true) : cat v = .query := by
  cases v <;> simp_all [isObjVal, cat]

/-- an entry that starts with a string -/
theorem parseEntry_str (F1 : Nat) (s : E) (hs : isStr s = true) (rest : List Tok) :
    parseEntry (F1 + 1) (print s ++ rest) =
      bnd (parseStrTail F1 (strHead (print s ++ rest))) fun s r1 =>
        onTok .colon r1 (fun r' => bnd (parseObjVal F1 r') fun v r'' => some (.kvStr s (some v), r'')) (some (.kvStr s none, r1)) := by
  cases s <;> simp [isStr] at hs <;> simp [print, parseEntry, onStr, strHead]

theorem good_kvStr_none (s : E) (hw : wf (.kvStr s none) = true) (hg : Good s) : Good (.kvStr s none) := by
  have hw' : wf s = true ∧ isStr s = true := by simpa [wf] using hw
  exact mkEntry _ rfl rfl rfl rfl (by simp) (by simp) (by
    intro F rest hF hs
    simp only [cost] at hF
    have := cost_ge s
    obtain ⟨F1, rfl⟩ : ∃ F1, F = F1 + 1 := ⟨F - 1, by omega⟩
    simp only [print]
    rw [parseEntry_str F1 s hw'.2, hg.s hw'.2 F1 rest (by omega)]
    simp only [bnd]
    rw [sepStop_colon rest hs])

theorem good_kvStr_some (s v : E) (hw : wf (.kvStr s (some v)) = true) (hgs : Good s) (hgv : Good v) : Good (.kvStr s (some v)) := by
  have hw' : wf s = true ∧ isStr s = true ∧ wf v = true ∧ isObjVal v = true := by
    simp only [wf, Bool.and_eq_true] at hw; exact ⟨hw.1.1.1, hw.1.1.2, hw.1.2, hw.2⟩
  exact mkEntry _ rfl rfl rfl rfl (by simp) (by simp) (by
    intro F rest hF hs
    simp only [cost] at hF
    have := cost_ge s
    obtain ⟨F1, rfl⟩ : ∃ F1, F = F1 + 1 := ⟨F - 1, by omega⟩
    simp only [print, List.append_assoc, List.cons_append]
    rw [parseEntry_str F1 s hw'.2.1, hgs.s hw'.2.1 F1 _ (by omega)]
    simp only [bnd, onTok_eq]
    rw [hgv.ov (objVal_cat v hw'.2.2.2) hw'.2.2.2 F1 rest (by omega) hs])

theorem good_kvQ (q v : E) (hw : wf (.kvQ q v) = true) (hgq : Good q) (hgv : Good v) : Good (.kvQ q v) := by
  have hw' : wf q = true ∧ cat q = .query ∧ wf v = true ∧ isObjVal v = true := by
    simp only [wf, Bool.and_eq_true, isQ, beq_iff_eq] at hw; exact ⟨hw.1.1.1, hw.1.1.2, hw.1.2, hw.2⟩
  exact mkEntry _ rfl rfl rfl rfl (by simp) (by simp) (by
    intro F rest hF hs
    simp only [cost] at hF
    have := cost_ge q
    obtain ⟨F1, rfl⟩ : ∃ F1, F = F1 + 1 := ⟨F - 1, by omega⟩
    simp only [print, List.append_assoc, List.cons_append, parseEntry]
    rw [hole q (hgq.c hw'.2.1) F1 _ (stops_rparen _) (by omega)]
    simp only [bnd, expect, if_true]
    rw [hgv.ov (objVal_cat v hw'.2.2.2) hw'.2.2.2 F1 rest (by omega) hs])

/-! pattern entries -/

theorem good_peVar (s : String) : Good (.peVar s) := mkPatEntry _ rfl rfl rfl rfl (by simp) (by simp) (by
  intro F rest hF hs
  simp only [cost] at hF
  obtain ⟨F1, rfl⟩ : ∃ F1, F = F1 + 1 := ⟨F - 1, by omega⟩
  simp only [print, List.cons_append, List.nil_append, parsePatEntry]
  cases rest with
  | nil => simp [onTok]
  | cons t ts =>
    have : t ≠ .colon := by intro h; subst h; simp [headIs] at hs
    simp [onTok, this])

theorem parsePatEntry_key (F1 : Nat) (k : Tok) (hk : isKeyTok k = true) (r : List Tok) :
    parsePatEntry (F1 + 1) (k :: .colon :: r) = bnd (parsePattern F1 r) fun p r'' => some (.peKey k p, r'') := by
  cases k <;> simp [isKeyTok] at hk <;> simp [parsePatEntry, onStr, strHead, isKeyTok, onTok, expect]
  · rename_i o; cases o <;> simp_all [isKeyTok]

theorem good_peKey (k : Tok) (p : E) (hw : wf (.peKey k p) = true) (hg : Good p) : Good (.peKey k p) := by
  have hw' : isKeyTok k = true ∧ wf p = true ∧ cat p = .pattern := by
    simp only [wf, Bool.and_eq_true, beq_iff_eq] at hw; exact ⟨hw.1.1, hw.1.2, hw.2⟩
  exact mkPatEntry _ rfl rfl rfl rfl (by simp) (by simp) (by
    intro F rest hF _
    simp only [cost] at hF
    obtain ⟨F1, rfl⟩ : ∃ F1, F = F1 + 1 := ⟨F - 1, by omega⟩
    simp only [print, List.cons_append]
    rw [parsePatEntry_key F1 k hw'.1, hg.pt hw'.2.2 F1 rest (by omega)]
    rfl)

theorem parsePatEntry_str (F1 : Nat) (s : E) (hs : isStr s = true) (rest : List Tok) :
    parsePatEntry (F1 + 1) (print s ++ rest) =
      bnd (parseStrTail F1 (strHead (print s ++ rest))) fun s r1 =>
        expect .colon r1 fun r' => bnd (parsePattern F1 r') fun p r'' => some (.peStr s p, r'') := by
  cases s <;> simp [isStr] at hs <;> simp [print, parsePatEntry, onStr, strHead]

theorem good_peStr (s p : E) (hw : wf (.peStr s p) = true) (hgs : Good s) (hgp : Good p) : Good (.peStr s p) := by
  have hw' : wf s = true ∧ isStr s = true ∧ wf p = true ∧ cat p = .pattern := by
    simp only [wf, Bool.and_eq_true, beq_iff_eq] at hw; exact ⟨hw.1.1.1, hw.1.1.2, hw.1.2, hw.2⟩
  exact mkPatEntry _ rfl rfl rfl rfl (by simp) (by simp) (by
    intro F rest hF _
    simp only [cost] at hF
    have := cost_ge s
    obtain ⟨F1, rfl⟩ : ∃ F1, F = F1 + 1 := ⟨F - 1, by omega⟩
    simp only [print, List.append_assoc, List.cons_append]
    rw [parsePatEntry_str F1 s hw'.2.1, hgs.s hw'.2.1 F1 _ (by omega)]
    simp only [bnd, expect, if_true]
    rw [hgp.pt hw'.2.2.2 F1 rest (by omega)])

theorem good_peQ (q p : E) (hw : wf (.peQ q p) = true) (hgq : Good q) (hgp : Good p) : Good (.peQ q p) := by
  have hw' : wf q = true ∧ cat q = .query ∧ wf p = true ∧ cat p = .pattern := by
    simp only [wf, Bool.and_eq_true, isQ, beq_iff_eq] at hw; exact ⟨hw.1.1.1, hw.1.1.2, hw.1.2, hw.2⟩
  exact mkPatEntry _ rfl rfl rfl rfl (by simp) (by simp) (by
    intro F rest hF _
    simp only [cost] at hF
    have := cost_ge q
    obtain ⟨F1, rfl⟩ : ∃ F1, F = F1 + 1 := ⟨F - 1, by omega⟩
    simp only [print, List.append_assoc, List.cons_append, parsePatEntry]
    rw [hole q (hgq.c hw'.2.1) F1 _ (stops_rparen _) (by omega)]
    simp only [bnd, expect, if_true]
    rw [hgp.pt hw'.2.2.2 F1 rest (by omega)])

theorem wfAll_wf (c : Cat) (xs : List E) (h : wfAll c xs = true) : ∀ x ∈ xs, wf x = true :=
  fun x hx => (wfAll_mem c xs h x hx).1

mutual
  theorem good : ∀ (e : E), wf e = true → Good e
    | .num s, _ => good_num s
    | .strl s, _ => good_strl s
    | .istr ps, hw => good_istr ps hw (goodAll ps (wfAll_wf .part ps (by simpa [wf] using hw)))
    | .ident s, _ => good_ident s
    | .var s, _ => good_var s
    | .call s as, hw => good_call s as hw (goodAll as (wfAll_wf .query as (by simp [wf] at hw; exact hw.2)))
    | .field s, _ => good_field s
    | .dot, _ => good_dot
    | .dotdot, _ => good_dotdot
    | .dotStr s, hw => good_dotStr s hw (good s (by simp [wf] at hw; exact hw.1))
    | .dotIdx b, hw => good_dotIdx b hw (good b (by simp [wf] at hw; exact hw.1))
    | .lit k, hw => good_lit k hw
    | .fmt s, _ => good_fmt s
    | .fmtS n s, hw => good_fmtS n s hw (good s (by simp [wf] at hw; exact hw.1))
    | .arr none, _ => good_arr_none
    | .arr (some q), hw => good_arr_some q hw (good q (by simp [wf] at hw; exact hw.1))
    | .obj kvs, hw => good_obj kvs hw (goodAll kvs (wfAll_wf .entry kvs (by simpa [wf] using hw)))
    | .neg e, hw => good_neg e hw (good e (by simp [wf] at hw; exact hw.1))
    | .pos e, hw => good_pos e hw (good e (by simp [wf] at hw; exact hw.1))
    | .ite c t es none, hw =>
      good_ite c t es none hw (good c (by simp [wf] at hw; exact hw.1.1.1.1)) (good t (by simp [wf] at hw; exact hw.1.1.2))
        (goodAll es (wfAll_wf .elifC es (by simp [wf] at hw; exact hw.2))) (fun e h => by cases h)
    | .ite c t es (some e), hw =>
      good_ite c t es (some e) hw (good c (by simp [wf] at hw; exact hw.1.1.1.1.1.1)) (good t (by simp [wf] at hw; exact hw.1.1.1.1.2))
        (goodAll es (wfAll_wf .elifC es (by simp [wf] at hw; exact hw.1.1.2)))
        (fun e' h => by cases h; exact good e (by simp [wf] at hw; exact hw.1.2))
    | .try_ b none, hw => good_try_none b hw (good b (by simp [wf] at hw; exact hw.1))
    | .try_ b (some c), hw =>
      good_try_some b c hw (good b (by simp [wf] at hw; exact hw.1.1.1.1)) (good c (by simp [wf] at hw; exact hw.1.2))
    | .reduce src p a b, hw =>
      have h : wf src = true ∧ wf p = true ∧ wf a = true ∧ wf b = true := by
        simp only [wf, Bool.and_eq_true] at hw
        exact ⟨hw.1.1.1.1.1.1.1.1.1, hw.1.1.1.1.1.2, hw.1.1.1.2, hw.1.2⟩
      good_reduce src p a b hw (good src h.1) (good p h.2.1) (good a h.2.2.1) (good b h.2.2.2)
    | .foreach src p a b none, hw =>
      have h : wf src = true ∧ wf p = true ∧ wf a = true ∧ wf b = true := by
        simp only [wf, Bool.and_eq_true] at hw
        exact ⟨hw.1.1.1.1.1.1.1.1.1, hw.1.1.1.1.1.2, hw.1.1.1.2, hw.1.2⟩
      good_foreach_none src p a b hw (good src h.1) (good p h.2.1) (good a h.2.2.1) (good b h.2.2.2)
    | .foreach src p a b (some c), hw =>
      have h : wf src = true ∧ wf p = true ∧ wf a = true ∧ wf b = true ∧ wf c = true := by
        simp only [wf, Bool.and_eq_true] at hw
        exact ⟨hw.1.1.1.1.1.1.1.1.1.1.1, hw.1.1.1.1.1.1.1.2, hw.1.1.1.1.1.2, hw.1.1.1.2, hw.1.2⟩
      good_foreach_some src p a b c hw (good src h.1) (good p h.2.1) (good a h.2.2.1) (good b h.2.2.2.1) (good c h.2.2.2.2)
    | .brk s, _ => good_brk s
    | .paren e, hw => good_paren e hw (good e (by simp [wf] at hw; exact hw.1))
    | .opt t, hw => good_opt t hw (good t (by simp [wf] at hw; exact hw.1))
    | .sfxField t s, hw => good_sfxField t s hw (good t (by simp [wf] at hw; exact hw.1))
    | .sfxStr t s, hw =>
      good_sfxStr t s hw (good t (by simp [wf] at hw; exact hw.1.1.1)) (good s (by simp [wf] at hw; exact hw.1.2))
    | .sfxBr t b, hw =>
      good_sfxBr t b hw (good t (by simp [wf] at hw; exact hw.1.1.1.1)) (good b (by simp [wf] at hw; exact hw.1.2))
    | .bin o l r, hw => good_bin o l r hw (good l (binWf o l r hw).wl) (good r (binWf o l r hw).wr)
    | .bind t ps b, hw =>
      have h : wf t = true ∧ wfAll .pattern ps = true ∧ wf b = true := by
        simp only [wf, Bool.and_eq_true] at hw
        exact ⟨hw.1.1.1.1.1, hw.1.1.2, hw.1.2⟩
      good_bind t ps b hw (good t h.1) (goodAll ps (wfAll_wf .pattern ps h.2.1)) (good b h.2.2)
    | .label s b, hw => good_label s b hw (good b (by simp [wf] at hw; exact hw.1))
    | .def_ n ps fb rest, hw =>
      have h : wf fb = true ∧ wf rest = true := by
        simp only [wf, Bool.and_eq_true] at hw
        exact ⟨hw.1.1.1.2, hw.1.2⟩
      good_def n ps fb rest hw (good fb h.1) (good rest h.2)
    | .piece s, _ => good_piece s
    | .interp q, hw => good_interp q hw (good q (by simp [wf] at hw; exact hw.1))
    | .kvKey k none, hw => good_kvKey_none k hw
    | .kvKey k (some v), hw => good_kvKey_some k v hw (good v (by simp [wf] at hw; exact hw.1.2))
    | .kvStr s none, hw => good_kvStr_none s hw (good s (by simp [wf] at hw; exact hw.1))
    | .kvStr s (some v), hw =>
      good_kvStr_some s v hw (good s (by simp [wf] at hw; exact hw.1.1.1)) (good v (by simp [wf] at hw; exact hw.1.2))
    | .kvQ q v, hw => good_kvQ q v hw (good q (by simp [wf] at hw; exact hw.1.1.1)) (good v (by simp [wf] at hw; exact hw.1.2))
    | .elif c t, hw => good_elif c t hw (good c (by simp [wf] at hw; exact hw.1.1.1)) (good t (by simp [wf] at hw; exact hw.1.2))
    | .bIter, _ => good_bIter
    | .bIdx e, hw => good_bIdx e hw (good e (by simp [wf] at hw; exact hw.1))
    | .bSliceL e, hw => good_bSliceL e hw (good e (by simp [wf] at hw; exact hw.1))
    | .bSliceR e, hw => good_bSliceR e hw (good e (by simp [wf] at hw; exact hw.1))
    | .bSlice a b, hw => good_bSlice a b hw (good a (by simp [wf] at hw; exact hw.1.1.1)) (good b (by simp [wf] at hw; exact hw.1.2))
    | .pvar s, _ => good_pvar s
    | .parr ps, hw => good_parr ps hw (goodAll ps (wfAll_wf .pattern ps (by simp [wf] at hw; exact hw.2)))
    | .pobj es, hw => good_pobj es hw (goodAll es (wfAll_wf .patEntry es (by simp [wf] at hw; exact hw.2)))
    | .peVar s, _ => good_peVar s
    | .peKey k p, hw => good_peKey k p hw (good p (by simp [wf] at hw; exact hw.1.2))
    | .peStr s p, hw => good_peStr s p hw (good s (by simp [wf] at hw; exact hw.1.1.1)) (good p (by simp [wf] at hw; exact hw.1.2))
    | .peQ q p, hw => good_peQ q p hw (good q (by simp [wf] at hw; exact hw.1.1.1)) (good p (by simp [wf] at hw; exact hw.1.2))
  theorem goodAll : ∀ (xs : List E), (∀ x ∈ xs, wf x = true) → ∀ x ∈ xs, Good x
    | [], _ => fun x hx => by simp at hx
    | y :: ys, h => fun x hx =>
      have hy := good y (h y (by simp))
      have hys := goodAll ys (fun z hz => h z (by simp [hz]))
      by
        rcases List.mem_cons.mp hx with rfl | hx
        · exact hy
        · exact hys x hx
end


/-! ### the fuel of `parse` is enough -/

mutual
  theorem cost_le : ∀ (e : E), cost e + 1 ≤ 7 * (print e).length
    | .num _ | .strl _ | .ident _ | .var _ | .field _ | .dot | .dotdot | .lit _ | .fmt _ | .piece _ | .bIter | .pvar _
    | .peVar _ | .kvKey _ none => by simp [cost, print]
    | .brk _ => by simp [cost, print]
    | .arr none => by simp [cost, print]
    | .istr ps => by have := costL_le ps; simp [cost, print]; omega
    | .call _ as => by have := costSep_le .semi as; simp [cost, print]; omega
    | .dotStr s => by have := cost_le s; simp [cost, print]; omega
    | .dotIdx b => by have := cost_le b; simp [cost, print]; omega
    | .fmtS _ s => by have := cost_le s; simp [cost, print]; omega
    | .arr (some q) => by have := cost_le q; simp [cost, print]; omega
    | .obj kvs => by have := costSep_le (.op .comma) kvs; simp [cost, print]; omega
    | .neg e => by have := cost_le e; simp [cost, print]; omega
    | .pos e => by have := cost_le e; simp [cost, print]; omega
    | .ite c t es none => by have := cost_le c; have := cost_le t; have := costL_le es; simp [cost, print]; omega
    | .ite c t es (some e) => by
      have := cost_le c; have := cost_le t; have := costL_le es; have := cost_le e; simp [cost, print]; omega
    | .try_ b none => by have := cost_le b; simp [cost, print]; omega
    | .try_ b (some c) => by have := cost_le b; have := cost_le c; simp [cost, print]; omega
    | .reduce s p a b => by
      have := cost_le s; have := cost_le p; have := cost_le a; have := cost_le b; simp [cost, print]; omega
    | .foreach s p a b none => by
      have := cost_le s; have := cost_le p; have := cost_le a; have := cost_le b; simp [cost, print]; omega
    | .foreach s p a b (some c) => by
      have := cost_le s; have := cost_le p; have := cost_le a; have := cost_le b; have := cost_le c; simp [cost, print]; omega
    | .paren e => by have := cost_le e; simp [cost, print]; omega
    | .opt t => by have := cost_le t; simp [cost, print]; omega
    | .sfxField t _ => by have := cost_le t; simp [cost, print]; omega
    | .sfxStr t s => by have := cost_le t; have := cost_le s; simp [cost, print]; omega
    | .sfxBr t b => by have := cost_le t; have := cost_le b; simp [cost, print]; omega
    | .bin _ l r => by have := cost_le l; have := cost_le r; simp [cost, print]; omega
    | .bind t ps b => by have := cost_le t; have := costSep_le .destalt ps; have := cost_le b; simp [cost, print]; omega
    | .label _ b => by have := cost_le b; simp [cost, print]; omega
    | .def_ _ [] fb rest => by have := cost_le fb; have := cost_le rest; simp [cost, print]; omega
    | .def_ _ (p :: ps) fb rest => by
      have := cost_le fb; have := cost_le rest
      have hl : (List.intersperse Tok.semi (p :: ps)).length = 2 * ps.length + 1 := by
        simp [List.length_intersperse]; omega
      simp [cost, print, hl]; omega
    | .interp q => by have := cost_le q; simp [cost, print]; omega
    | .kvKey _ (some v) => by have := cost_le v; simp [cost, print]; omega
    | .kvStr s none => by have := cost_le s; simp [cost, print]; omega
    | .kvStr s (some v) => by have := cost_le s; have := cost_le v; simp [cost, print]; omega
    | .kvQ q v => by have := cost_le q; have := cost_le v; simp [cost, print]; omega
    | .elif c t => by have := cost_le c; have := cost_le t; simp [cost, print]; omega
    | .bIdx e => by have := cost_le e; simp [cost, print]; omega
    | .bSliceL e => by have := cost_le e; simp [cost, print]; omega
    | .bSliceR e => by have := cost_le e; simp [cost, print]; omega
    | .bSlice a b => by have := cost_le a; have := cost_le b; simp [cost, print]; omega
    | .parr ps => by have := costSep_le (.op .comma) ps; simp [cost, print]; omega
    | .pobj es => by have := costSep_le (.op .comma) es; simp [cost, print]; omega
    | .peKey _ p => by have := cost_le p; simp [cost, print]; omega
    | .peStr s p => by have := cost_le s; have := cost_le p; simp [cost, print]; omega
    | .peQ q p => by have := cost_le q; have := cost_le p; simp [cost, print]; omega
  theorem costL_le : ∀ (xs : List E), costL xs ≤ 7 * (printCat xs).length
    | [] => by simp [costL, printCat]
    | x :: rest => by have := cost_le x; have := costL_le rest; simp [costL, printCat]; omega
  theorem costSep_le (sep : Tok) : ∀ (xs : List E), costL xs ≤ 7 * (printSep sep xs).length
    | [] => by simp [costL, printSep]
    | [x] => by have := cost_le x; simp [costL, printSep]; omega
    | x :: y :: rest => by have := cost_le x; have := costSep_le sep (y :: rest); simp [costL, printSep] at *; omega
end

theorem follow_nil (e : E) (q : Bool) : follow e q [] = true := rfl

/-- the printed form of a well-formed query parses back to the query -/
theorem print_parse (e : E) (hw : wf e = true) (hq : cat e = .query) : parse (print e) = some e := by
  have hC := (good e hw).c hq
  have hc := cost_le e
  have h := hC 1 (8 * (print e).length + 8) 1 true [] (e, []) (by omega) (entry_one e) (follow_nil e true)
    (climb_stops 0 1 e (prevOf e) [] rfl)
  simp only [List.append_nil] at h
  simp [parse, parseFuel, h]

end Proofs.C11.Full
