import Proofs.C11FullMono
/-! C11 — widened grammar: the printed form of a well-formed tree parses back to the tree. Core Lean only. -/
set_option linter.unusedSimpArgs false
set_option linter.unusedVariables false
namespace Proofs.C11.Full
open FqModel.C11.Full
open FqModel.C11.Print (Op Assoc)

/-! ### monotonicity, packaged -/

theorem term_mono {f f' : Nat} (hf : f ≤ f') {ts x} (h : parseTerm f ts = some x) : parseTerm f' ts = some x :=
  mono_le (g := fun f => parseTerm f ts) (fun f => (mono_all f).m_term ts) hf x h
theorem postfix_mono {f f' : Nat} (hf : f ≤ f') {t ts x} (h : parsePostfix f t ts = some x) : parsePostfix f' t ts = some x :=
  mono_le (g := fun f => parsePostfix f t ts) (fun f => (mono_all f).m_postfix t ts) hf x h
theorem expr_mono {f f' : Nat} (hf : f ≤ f') {m q ts x} (h : parseExpr f m q ts = some x) : parseExpr f' m q ts = some x :=
  mono_le (g := fun f => parseExpr f m q ts) (fun f => (mono_all f).m_expr m q ts) hf x h
theorem climb_mono {f f' : Nat} (hf : f ≤ f') {m l p ts x} (h : climb f m l p ts = some x) : climb f' m l p ts = some x :=
  mono_le (g := fun f => climb f m l p ts) (fun f => (mono_all f).m_climb m l p ts) hf x h

/-! ### cost (enough fuel) -/

mutual
  def cost : E → Nat
    | .istr ps => costL ps + 6
    | .call _ as => costL as + 6
    | .dotStr s => cost s + 6
    | .dotIdx b => cost b + 6
    | .fmtS _ s => cost s + 6
    | .arr (some q) => cost q + 6
    | .obj kvs => costL kvs + 6
    | .neg e => cost e + 6
    | .pos e => cost e + 6
    | .ite c t es none => cost c + cost t + costL es + 6
    | .ite c t es (some e) => cost c + cost t + costL es + cost e + 6
    | .try_ b none => cost b + 6
    | .try_ b (some c) => cost b + cost c + 6
    | .reduce src p a b => cost src + cost p + cost a + cost b + 6
    | .foreach src p a b none => cost src + cost p + cost a + cost b + 6
    | .foreach src p a b (some c) => cost src + cost p + cost a + cost b + cost c + 6
    | .paren e => cost e + 6
    | .opt t => cost t + 6
    | .sfxField t _ => cost t + 6
    | .sfxStr t s => cost t + cost s + 6
    | .sfxBr t b => cost t + cost b + 6
    | .bin _ l r => cost l + cost r + 6
    | .bind t ps b => cost t + costL ps + cost b + 6
    | .label _ b => cost b + 6
    | .def_ _ ps fb rest => ps.length + cost fb + cost rest + 6
    | .interp q => cost q + 6
    | .kvKey _ (some v) => cost v + 6
    | .kvStr s none => cost s + 6
    | .kvStr s (some v) => cost s + cost v + 6
    | .kvQ q v => cost q + cost v + 6
    | .elif c t => cost c + cost t + 6
    | .bIdx e => cost e + 6
    | .bSliceL e => cost e + 6
    | .bSliceR e => cost e + 6
    | .bSlice a b => cost a + cost b + 6
    | .parr ps => costL ps + 6
    | .pobj es => costL es + 6
    | .peKey _ p => cost p + 6
    | .peStr s p => cost s + cost p + 6
    | .peQ q p => cost q + cost p + 6
    | _ => 6
  def costL : List E → Nat
    | [] => 0
    | x :: rest => cost x + 1 + costL rest
end

/-! ### what may follow -/

def prevOf : E → Nat
  | .bin o _ _ => o.prec
  | _ => 0

def absorb : E → Nat
  | .bin o _ _ => o.rmin
  | _ => 100

/-- tokens that continue a term (postfix operators) or would merge with its last token -/
def contTok : Tok → Bool
  | .quest => true | .field _ => true | .lbrack => true | .dot => true | .lparen => true | .str _ => true | .strStart => true
  | _ => false

def headIs (t : Tok) : List Tok → Bool
  | t' :: _ => t' == t
  | [] => false

def headCont : List Tok → Bool
  | t :: _ => contTok t
  | [] => false

/-- what may follow a term -/
def tfollow (e : E) (rest : List Tok) : Bool :=
  !headCont rest && (!headIs (.kw .catch_) rest || !danglingTry e)

/-- what may follow a query parsed at level `m` in query-context `q` -/
def follow (e : E) (q : Bool) : List Tok → Bool
  | .op o :: _ => !openRight e && Nat.blt o.prec (absorb e)
  | .kw .catch_ :: _ => false
  | .kw .as_ :: _ => !q && !isOpen e && Nat.ble 3 (level e)
  | t :: _ => !contTok t
  | [] => true

/-- closing tokens: nothing is absorbed, whatever precedes -/
def stops : List Tok → Bool
  | .op _ :: _ => false
  | .kw .catch_ :: _ => false
  | .kw .as_ :: _ => false
  | t :: _ => !contTok t
  | [] => true

def entry (e : E) (m : Nat) (q : Bool) : Bool := if isOpen e then q else Nat.ble m (level e)

theorem follow_of_stops (e : E) (q : Bool) (rest : List Tok) (h : stops rest = true) : follow e q rest = true := by
  cases rest with
  | nil => rfl
  | cons t ts =>
    cases t with
    | kw k => cases k <;> simp_all [stops, follow, contTok]
    | _ => simp_all [stops, follow, contTok]

theorem climb_stops (f m lhs prev rest) (h : stops rest = true) : climb (f + 1) m lhs prev rest = some (lhs, rest) := by
  simp only [climb]
  cases rest with
  | nil => rfl
  | cons t ts => cases t <;> simp_all [stops, onOp]

def termHeadKw : Kw → Bool
  | .null => true | .true_ => true | .false_ => true | .if_ => true | .try_ => true | .reduce => true | .foreach => true
  | .break_ => true | _ => false

/-- tokens a term can start with -/
def termHeadTok : Tok → Bool
  | .num _ => true | .str _ => true | .strStart => true | .ident _ => true | .var _ => true | .field _ => true
  | .dot => true | .dotdot => true | .fmt _ => true | .lbrack => true | .lbrace => true | .lparen => true
  | .kw k => termHeadKw k
  | .op .sub => true | .op .add => true
  | _ => false

theorem postfixable_term (e : E) (h : isPostfixable e = true) : isTerm e = true := by
  cases e <;> simp_all [isTerm, isPostfixable]

theorem term_head : ∀ (e : E), wf e = true → isTerm e = true → ∃ hd tl, print e = hd :: tl ∧ termHeadTok hd = true
  | .opt t, hw, _ => by
    simp only [wf, Bool.and_eq_true] at hw
    obtain ⟨hd, tl, h1, h2⟩ := term_head t hw.1 (postfixable_term t hw.2)
    exact ⟨hd, tl ++ [.quest], by simp [print, h1], h2⟩
  | .sfxField t s, hw, _ => by
    simp only [wf, Bool.and_eq_true] at hw
    obtain ⟨hd, tl, h1, h2⟩ := term_head t hw.1 (postfixable_term t hw.2)
    exact ⟨hd, tl ++ [.field s], by simp [print, h1], h2⟩
  | .sfxStr t s, hw, _ => by
    simp only [wf, Bool.and_eq_true] at hw
    obtain ⟨hd, tl, h1, h2⟩ := term_head t hw.1.1.1 (postfixable_term t hw.1.1.2)
    exact ⟨hd, tl ++ .dot :: print s, by simp [print, h1], h2⟩
  | .sfxBr t b, hw, _ => by
    simp only [wf, Bool.and_eq_true] at hw
    obtain ⟨hd, tl, h1, h2⟩ := term_head t hw.1.1.1.1 (postfixable_term t hw.1.1.1.2)
    exact ⟨hd, tl ++ .lbrack :: print b, by simp [print, h1], h2⟩
  | .arr none, _, _ => ⟨_, _, rfl, rfl⟩
  | .arr (some q), _, _ => ⟨_, _, rfl, rfl⟩
  | .ite c t es none, _, _ => ⟨_, _, rfl, rfl⟩
  | .ite c t es (some e), _, _ => ⟨_, _, rfl, rfl⟩
  | .try_ b none, _, _ => ⟨_, _, rfl, rfl⟩
  | .try_ b (some c), _, _ => ⟨_, _, rfl, rfl⟩
  | .foreach s p a b none, _, _ => ⟨_, _, rfl, rfl⟩
  | .foreach s p a b (some c), _, _ => ⟨_, _, rfl, rfl⟩
  | .lit k, hw, _ => by
    refine ⟨.kw k, [], rfl, ?_⟩
    cases k <;> simp_all [wf, isLitKw, termHeadTok, termHeadKw]
  | .num _, _, _ => ⟨_, _, rfl, rfl⟩
  | .strl _, _, _ => ⟨_, _, rfl, rfl⟩
  | .istr _, _, _ => ⟨_, _, rfl, rfl⟩
  | .ident _, _, _ => ⟨_, _, rfl, rfl⟩
  | .var _, _, _ => ⟨_, _, rfl, rfl⟩
  | .call _ _, _, _ => ⟨_, _, rfl, rfl⟩
  | .field _, _, _ => ⟨_, _, rfl, rfl⟩
  | .dot, _, _ => ⟨_, _, rfl, rfl⟩
  | .dotdot, _, _ => ⟨_, _, rfl, rfl⟩
  | .dotStr _, _, _ => ⟨_, _, rfl, rfl⟩
  | .dotIdx _, _, _ => ⟨_, _, rfl, rfl⟩
  | .fmt _, _, _ => ⟨_, _, rfl, rfl⟩
  | .fmtS _ _, _, _ => ⟨_, _, rfl, rfl⟩
  | .obj _, _, _ => ⟨_, _, rfl, rfl⟩
  | .neg _, _, _ => ⟨_, _, rfl, rfl⟩
  | .pos _, _, _ => ⟨_, _, rfl, rfl⟩
  | .reduce _ _ _ _, _, _ => ⟨_, _, rfl, rfl⟩
  | .brk _, _, _ => ⟨_, _, rfl, rfl⟩
  | .paren _, _, _ => ⟨_, _, rfl, rfl⟩
  | .bin _ _ _, _, ht | .bind _ _ _, _, ht | .label _ _, _, ht | .def_ _ _ _ _, _, ht
  | .piece _, _, ht | .interp _, _, ht | .kvKey _ _, _, ht | .kvStr _ _, _, ht | .kvQ _ _, _, ht | .elif _ _, _, ht
  | .bIter, _, ht | .bIdx _, _, ht | .bSliceL _, _, ht | .bSliceR _, _, ht | .bSlice _ _, _, ht
  | .pvar _, _, ht | .parr _, _, ht | .pobj _, _, ht | .peVar _, _, ht | .peKey _ _, _, ht | .peStr _ _, _, ht
  | .peQ _ _, _, ht => by simp [isTerm, isPostfixable] at ht

/-- tokens a query can start with -/
def queryHeadTok (t : Tok) : Bool := termHeadTok t || t == .kw .label || t == .kw .def_

theorem query_head_term (e : E) (hw : wf e = true) (ht : isTerm e = true) :
    ∃ hd tl, print e = hd :: tl ∧ queryHeadTok hd = true := by
  obtain ⟨hd, tl, h1, h2⟩ := term_head e hw ht
  exact ⟨hd, tl, h1, by simp [queryHeadTok, h2]⟩

theorem query_head : ∀ (e : E), wf e = true → cat e = .query → ∃ hd tl, print e = hd :: tl ∧ queryHeadTok hd = true
  | .bin o l r, hw, _ => by
    simp only [wf, Bool.and_eq_true, isQ, beq_iff_eq] at hw
    obtain ⟨hd, tl, h1, h2⟩ := query_head l hw.1.1.1.1.1.1 hw.1.1.1.1.2
    exact ⟨hd, tl ++ .op o :: print r, by simp [print, h1], h2⟩
  | .bind t ps b, hw, _ => by
    simp only [wf, Bool.and_eq_true] at hw
    obtain ⟨hd, tl, h1, h2⟩ := term_head t hw.1.1.1.1.1 hw.1.1.1.1.2
    exact ⟨hd, tl ++ .kw .as_ :: printSep .destalt ps ++ .op .pipe :: print b, by simp [print, h1], by simp [queryHeadTok, h2]⟩
  | .label s b, _, _ => ⟨_, _, rfl, rfl⟩
  | .def_ n [] fb rest, _, _ => ⟨_, _, rfl, rfl⟩
  | .def_ n (p :: ps) fb rest, _, _ => ⟨_, _, rfl, rfl⟩
  | .num _, hw, _ | .strl _, hw, _ | .istr _, hw, _ | .ident _, hw, _ | .var _, hw, _ | .call _ _, hw, _ | .field _, hw, _
  | .dot, hw, _ | .dotdot, hw, _ | .dotStr _, hw, _ | .dotIdx _, hw, _ | .lit _, hw, _ | .fmt _, hw, _ | .fmtS _ _, hw, _
  | .arr _, hw, _ | .obj _, hw, _ | .neg _, hw, _ | .pos _, hw, _ | .ite _ _ _ _, hw, _ | .try_ _ _, hw, _
  | .reduce _ _ _ _, hw, _ | .foreach _ _ _ _ _, hw, _ | .brk _, hw, _ | .paren _, hw, _ | .opt _, hw, _
  | .sfxField _ _, hw, _ | .sfxStr _ _, hw, _ | .sfxBr _ _, hw, _ => query_head_term _ hw rfl
  | .piece _, _, hc | .interp _, _, hc | .kvKey _ _, _, hc | .kvStr _ _, _, hc | .kvQ _ _, _, hc | .elif _ _, _, hc
  | .bIter, _, hc | .bIdx _, _, hc | .bSliceL _, _, hc | .bSliceR _, _, hc | .bSlice _ _, _, hc
  | .pvar _, _, hc | .parr _, _, hc | .pobj _, _, hc | .peVar _, _, hc | .peKey _ _, _, hc | .peStr _ _, _, hc
  | .peQ _ _, _, hc => by simp [cat] at hc

/-! ### the statements -/

def noStr (ts : List Tok) : Bool := match strHead ts with | .no => true | _ => false

/-- the last token of a primary must not merge with what follows -/
def hazard : E → List Tok → Bool
  | .ident _, rest => !headIs .lparen rest
  | .fmt _, rest => noStr rest
  | .dot, rest => !headIs .lbrack rest && noStr rest
  | _, _ => true

def PA (e : E) : Prop := ∀ f F rest x, f + cost e ≤ F + 1 → hazard e rest = true →
  parsePostfix f e rest = some x → parseTerm F (print e ++ rest) = some x
def PB (e : E) : Prop := ∀ F rest, cost e ≤ F → tfollow e rest = true → parseTerm F (print e ++ rest) = some (e, rest)
def PC (e : E) : Prop := ∀ f F m q rest x, f + cost e + 2 ≤ F → entry e m q = true → follow e q rest = true →
  climb f m e (prevOf e) rest = some x → parseExpr F m q (print e ++ rest) = some x
def PStr (s : E) : Prop := ∀ F rest, cost s ≤ F → parseStrTail F (strHead (print s ++ rest)) = some (s, rest)
def PBr (b : E) : Prop := ∀ F rest, cost b ≤ F → parseBracket F (print b ++ rest) = some (b, rest)
/-- after an object entry / objectval: `,` or `}` -/
def sepStop (rest : List Tok) : Bool := headIs (.op .comma) rest || headIs .rbrace rest
def PEntry (e : E) : Prop := ∀ F rest, cost e ≤ F → sepStop rest = true → parseEntry F (print e ++ rest) = some (e, rest)
def PObjVal (v : E) : Prop := ∀ F rest, cost v + 4 ≤ F → sepStop rest = true → parseObjVal F (print v ++ rest) = some (v, rest)
def PPat (p : E) : Prop := ∀ F rest, cost p ≤ F → parsePattern F (print p ++ rest) = some (p, rest)
def PPatEntry (e : E) : Prop := ∀ F rest, cost e ≤ F → headIs .colon rest = false → parsePatEntry F (print e ++ rest) = some (e, rest)

structure Good (e : E) : Prop where
  a : isPostfixable e = true → PA e
  b : isTerm e = true → PB e
  c : cat e = .query → PC e
  s : isStr e = true → PStr e
  br : cat e = .bracket → PBr e
  en : cat e = .entry → PEntry e
  ov : cat e = .query → isObjVal e = true → PObjVal e
  pt : cat e = .pattern → PPat e
  pe : cat e = .patEntry → PPatEntry e
  ip : ∀ q, e = .interp q → PC q
  el : ∀ c t, e = .elif c t → PC c ∧ PC t

/-! ### generic steps -/

theorem climb_nonop (f m lhs prev rest) (h : ∀ o r, rest ≠ .op o :: r) : climb (f + 1) m lhs prev rest = some (lhs, rest) := by
  simp only [climb]
  cases rest with
  | nil => rfl
  | cons t ts => cases t <;> first | (exfalso; exact h _ _ rfl) | rfl

theorem op_prec_pos (o : Op) : 1 ≤ o.prec := by cases o <;> decide

theorem entry_one (e : E) : entry e 1 true = true := by
  cases e <;> simp [entry, isOpen, level, Nat.ble_eq]
  exact op_prec_pos _

/-- a query in a hole closed by a stop token -/
theorem hole (e : E) (hC : PC e) (F : Nat) (rest : List Tok) (hs : stops rest = true) (hF : cost e + 3 ≤ F) :
    parseExpr F 1 true (print e ++ rest) = some (e, rest) :=
  hC 1 F 1 true rest (e, rest) (by omega) (entry_one e) (follow_of_stops e true rest hs) (climb_stops 0 1 e (prevOf e) rest hs)

theorem stops_noCont (rest : List Tok) (h : stops rest = true) : headCont rest = false := by
  cases rest with
  | nil => rfl
  | cons t ts =>
    cases t with
    | kw k => cases k <;> simp_all [stops, headCont, contTok]
    | _ => simp_all [stops, headCont, contTok]

/-- the postfix loop stops at a token that does not continue a term -/
theorem postfix_stop (f : Nat) (t : E) (rest : List Tok) (h : headCont rest = false) :
    parsePostfix (f + 1) t rest = some (t, rest) := by
  cases rest with
  | nil => simp [parsePostfix]
  | cons tk r => cases tk <;> simp_all [parsePostfix, headCont, contTok]

theorem cost_ge (e : E) : 6 ≤ cost e := by
  cases e <;> first | (simp only [cost]; omega) | (rename_i o; cases o <;> simp only [cost] <;> omega)

theorem PB_of_PA (e : E) (hA : PA e) (hh : ∀ rest, headCont rest = false → hazard e rest = true) : PB e := by
  intro F rest hF hf
  simp only [tfollow, Bool.and_eq_true, Bool.not_eq_true'] at hf
  exact hA 1 F rest (e, rest) (by omega) (hh rest hf.1) (postfix_stop 0 e rest hf.1)

theorem isTerm_facts (e : E) (h : isTerm e = true) :
    level e = 10 ∧ openRight e = false ∧ isOpen e = false ∧ prevOf e = 0 ∧ absorb e = 100 ∧ cat e = .query := by
  cases e <;> simp_all [isTerm, isPostfixable, level, openRight, isOpen, prevOf, absorb, cat]

/-- what follows a query also may follow the term it is -/
theorem tfollow_of_follow (e : E) (q : Bool) (rest : List Tok) (h : follow e q rest = true) : tfollow e rest = true := by
  cases rest with
  | nil => simp [tfollow, headCont, headIs]
  | cons t ts =>
    cases t with
    | kw k => cases k <;> simp_all [follow, tfollow, headCont, headIs, contTok]
    | _ => simp_all [follow, tfollow, headCont, headIs, contTok]

theorem follow_as (e : E) (q : Bool) (rest : List Tok) (h : follow e q (.kw .as_ :: rest) = true) : q = false := by
  simp [follow] at h; exact h.1.1

theorem termHead_not_label (hd : Tok) (h : termHeadTok hd = true) : hd ≠ .kw .label ∧ hd ≠ .kw .def_ := by
  cases hd <;> simp_all [termHeadTok]
  all_goals (rename_i k; cases k <;> simp_all [termHeadKw])

theorem onTok_ne {β : Type} (t hd : Tok) (tl : List Tok) (k : List Tok → β) (n : β) (h : hd ≠ t) : onTok t (hd :: tl) k n = n := by
  simp [onTok, h]

theorem onTok_eq {β : Type} (t : Tok) (tl : List Tok) (k : List Tok → β) (n : β) : onTok t (t :: tl) k n = k tl := by
  simp [onTok]

/-- a term as an expression: operand, then the climbing loop -/
theorem PC_of_PB (e : E) (hw : wf e = true) (ht : isTerm e = true) (hB : PB e) : PC e := by
  intro f F m q rest x hF _ hfo hcl
  obtain ⟨_, _, _, hprev, _, _⟩ := isTerm_facts e ht
  obtain ⟨hd, tl, hpr, hhd⟩ := term_head e hw ht
  obtain ⟨hn1, hn2⟩ := termHead_not_label hd hhd
  obtain ⟨F1, rfl⟩ : ∃ F1, F = F1 + 1 + 1 := ⟨F - 2, by omega⟩
  have hterm : parseTerm F1 (print e ++ rest) = some (e, rest) := hB F1 rest (by omega) (tfollow_of_follow e q rest hfo)
  rw [hprev] at hcl
  have hcl' : climb (F1 + 1) m e 0 rest = some x := climb_mono (by omega) hcl
  simp only [parseExpr, parseOperand]
  rw [show print e ++ rest = hd :: (tl ++ rest) by rw [hpr]; rfl, onTok_ne _ _ _ _ _ hn1, onTok_ne _ _ _ _ _ hn2]
  rw [show hd :: (tl ++ rest) = print e ++ rest by rw [hpr]; rfl, hterm]
  simp only [bnd]
  cases rest with
  | nil => simpa [onTok] using hcl'
  | cons t ts =>
    by_cases hta : t = .kw .as_
    · subst hta
      have hq := follow_as e q ts hfo
      subst hq
      simpa [onTok] using hcl'
    · simpa [onTok, hta] using hcl'

theorem wfAll_cons (c : Cat) (x : E) (xs : List E) (h : wfAll c (x :: xs) = true) :
    wf x = true ∧ cat x = c ∧ wfAll c xs = true := by
  simp only [wfAll, Bool.and_eq_true, beq_iff_eq] at h
  exact ⟨h.1.1, h.1.2, h.2⟩

theorem wfAll_mem (c : Cat) (xs : List E) (h : wfAll c xs = true) : ∀ x ∈ xs, wf x = true ∧ cat x = c := by
  induction xs with
  | nil => intro x hx; simp at hx
  | cons y ys ih =>
    obtain ⟨h1, h2, h3⟩ := wfAll_cons c y ys h
    intro x hx
    rcases List.mem_cons.mp hx with rfl | hx
    · exact ⟨h1, h2⟩
    · exact ih h3 x hx

/-! ### lists -/

theorem stops_rparen (r : List Tok) : stops (.rparen :: r) = true := rfl
theorem stops_semi (r : List Tok) : stops (.semi :: r) = true := rfl
theorem stops_rbrack (r : List Tok) : stops (.rbrack :: r) = true := rfl
theorem stops_colon (r : List Tok) : stops (.colon :: r) = true := rfl
theorem stops_kw_then (r : List Tok) : stops (.kw .then_ :: r) = true := rfl
theorem stops_kw_elif (r : List Tok) : stops (.kw .elif_ :: r) = true := rfl
theorem stops_kw_else (r : List Tok) : stops (.kw .else_ :: r) = true := rfl
theorem stops_kw_end (r : List Tok) : stops (.kw .end_ :: r) = true := rfl

theorem parts_ok : ∀ (ps : List E), (∀ p ∈ ps, Good p) → wfAll .part ps = true →
    ∀ F rest, costL ps + 1 ≤ F → parseParts F (printCat ps ++ .strEnd :: rest) = some (ps, rest)
  | [], _, _, F, rest, hF => by
    obtain ⟨F1, rfl⟩ : ∃ F1, F = F1 + 1 := ⟨F - 1, by omega⟩
    simp [printCat, parseParts]
  | p :: ps, hg, hw, F, rest, hF => by
    obtain ⟨hwp, hcp, hws⟩ := wfAll_cons _ p ps hw
    have ih := parts_ok ps (fun x hx => hg x (by simp [hx])) hws
    simp only [costL] at hF
    obtain ⟨F1, rfl⟩ : ∃ F1, F = F1 + 1 := ⟨F - 1, by omega⟩
    cases p with
    | piece s =>
      simp only [printCat, print, List.cons_append, List.nil_append, parseParts]
      rw [ih F1 rest (by have := cost_ge (.piece s); omega)]
      rfl
    | interp q =>
      have hC := (hg (.interp q) (by simp)).ip q rfl
      simp only [cost] at hF
      simp only [printCat, print, List.cons_append, List.append_assoc, List.nil_append, parseParts]
      rw [hole q hC F1 _ (stops_rparen _) (by omega)]
      simp only [bnd, expect, if_true]
      rw [ih F1 rest (by omega)]
    | _ => simp [cat] at hcp

theorem args_ok : ∀ (xs : List E), xs ≠ [] → (∀ x ∈ xs, Good x) → wfAll .query xs = true →
    ∀ F rest, costL xs + 3 ≤ F → parseArgs F (printSep .semi xs ++ .rparen :: rest) = some (xs, rest)
  | [], hne, _, _, _, _, _ => absurd rfl hne
  | [x], _, hg, hw, F, rest, hF => by
    obtain ⟨hwx, hcx, _⟩ := wfAll_cons _ x [] hw
    have hC := (hg x (by simp)).c hcx
    simp only [costL] at hF
    obtain ⟨F1, rfl⟩ : ∃ F1, F = F1 + 1 := ⟨F - 1, by omega⟩
    simp only [printSep, parseArgs]
    rw [hole x hC F1 _ (stops_rparen _) (by omega)]
    simp [bnd, onTok, expect]
  | x :: y :: ys, _, hg, hw, F, rest, hF => by
    obtain ⟨hwx, hcx, hws⟩ := wfAll_cons _ x (y :: ys) hw
    have hC := (hg x (by simp)).c hcx
    have ih := args_ok (y :: ys) (by simp) (fun z hz => hg z (by simp [hz])) hws
    simp only [costL] at hF ih
    obtain ⟨F1, rfl⟩ : ∃ F1, F = F1 + 1 := ⟨F - 1, by omega⟩
    simp only [printSep, List.append_assoc, List.cons_append, parseArgs]
    rw [hole x hC F1 _ (stops_semi _) (by omega)]
    simp only [bnd, onTok, if_true]
    have := ih F1 rest (by omega)
    rw [this]

def elseToks : Option E → List Tok
  | some e => .kw .else_ :: print e ++ [.kw .end_]
  | none => [.kw .end_]

def elseCost : Option E → Nat
  | some e => cost e
  | none => 0

theorem stops_elseToks (els : Option E) (rest : List Tok) : stops (elseToks els ++ rest) = true := by
  cases els <;> rfl

theorem elifs_ok : ∀ (es : List E), (∀ x ∈ es, Good x) → wfAll .elifC es = true →
    ∀ (els : Option E) (hels : ∀ e, els = some e → PC e) F rest,
      costL es + elseCost els + 5 ≤ F →
      parseElifs F (printCat es ++ (elseToks els ++ rest)) = some ((es, els), rest)
  | [], _, _, els, hels, F, rest, hF => by
    obtain ⟨F1, rfl⟩ : ∃ F1, F = F1 + 1 := ⟨F - 1, by omega⟩
    cases els with
    | none => simp [printCat, elseToks, parseElifs, onTok, expect]
    | some e =>
      simp only [costL, elseCost] at hF
      simp only [printCat, elseToks, List.nil_append, List.cons_append, List.append_assoc, parseElifs]
      rw [onTok_ne _ _ _ _ _ (by simp), onTok_eq]
      rw [hole e (hels e rfl) F1 (.kw .end_ :: rest) (stops_kw_end _) (by omega)]
      simp [bnd, expect]
  | x :: xs, hg, hw, els, hels, F, rest, hF => by
    obtain ⟨hwx, hcx, hws⟩ := wfAll_cons _ x xs hw
    have ih := elifs_ok xs (fun z hz => hg z (by simp [hz])) hws els hels
    simp only [costL] at hF
    obtain ⟨F1, rfl⟩ : ∃ F1, F = F1 + 1 := ⟨F - 1, by omega⟩
    cases x with
    | elif c t =>
      obtain ⟨hCc, hCt⟩ := (hg (.elif c t) (by simp)).el c t rfl
      simp only [cost] at hF
      simp only [printCat, print, List.cons_append, List.append_assoc, parseElifs]
      rw [onTok_eq, hole c hCc F1 _ (stops_kw_then _) (by omega)]
      simp only [bnd, expect, if_true]
      have h2 : stops (printCat xs ++ (elseToks els ++ rest)) = true := by
        cases xs with
        | nil => simpa [printCat] using stops_elseToks els rest
        | cons y ys =>
          obtain ⟨_, hcy, _⟩ := wfAll_cons _ y ys hws
          cases y <;> simp [cat] at hcy
          simp [printCat, print, stops, contTok]
      rw [hole t hCt F1 _ h2 (by omega)]
      simp only [bnd]
      rw [ih F1 rest (by omega)]
    | _ => simp [cat] at hcx


/-- element of a separated list, by category -/
def PElem (c : Cat) (x : E) : Prop := ∀ F rest, cost x + 1 ≤ F → sepStop rest = true ∨ headIs .rbrack rest = true →
  parseElem F c (print x ++ rest) = some (x, rest)

theorem sep_ok (c : Cat) (close : Tok) (hclose : close = .rbrace ∨ close = .rbrack) :
    ∀ (xs : List E), xs ≠ [] → (∀ x ∈ xs, PElem c x) →
    ∀ F rest, costL xs + 3 ≤ F → parseSep F c (.op .comma) close (printSep (.op .comma) xs ++ close :: rest) = some (xs, rest)
  | [], hne, _, _, _, _ => absurd rfl hne
  | [x], _, hg, F, rest, hF => by
    simp only [costL] at hF
    obtain ⟨F1, rfl⟩ : ∃ F1, F = F1 + 1 := ⟨F - 1, by omega⟩
    simp only [printSep, parseSep]
    rw [hg x (by simp) F1 (close :: rest) (by omega) (by rcases hclose with h | h <;> subst h <;> simp [sepStop, headIs])]
    have hne : close ≠ .op .comma := by rcases hclose with h | h <;> subst h <;> simp
    simp [bnd, onTok, expect, hne]
  | x :: y :: ys, _, hg, F, rest, hF => by
    have ih := sep_ok c close hclose (y :: ys) (by simp) (fun z hz => hg z (by simp [hz]))
    simp only [costL] at hF ih
    obtain ⟨F1, rfl⟩ : ∃ F1, F = F1 + 1 := ⟨F - 1, by omega⟩
    simp only [printSep, List.append_assoc, List.cons_append, parseSep]
    rw [hg x (by simp) F1 _ (by omega) (by simp [sepStop, headIs])]
    simp only [bnd, onTok, if_true]
    rw [ih F1 rest (by omega)]

theorem pats_ok : ∀ (ps : List E), ps ≠ [] → (∀ p ∈ ps, PPat p) →
    ∀ F rest, costL ps + 1 ≤ F → headIs .destalt rest = false →
      parsePats F (printSep .destalt ps ++ rest) = some (ps, rest)
  | [], hne, _, _, _, _, _ => absurd rfl hne
  | [p], _, hg, F, rest, hF, hr => by
    simp only [costL] at hF
    obtain ⟨F1, rfl⟩ : ∃ F1, F = F1 + 1 := ⟨F - 1, by omega⟩
    simp only [printSep, parsePats]
    rw [hg p (by simp) F1 rest (by omega)]
    cases rest with
    | nil => simp [bnd, onTok]
    | cons t ts =>
      have : t ≠ .destalt := by intro h; subst h; simp [headIs] at hr
      simp [bnd, onTok, this]
  | p :: p2 :: ps, _, hg, F, rest, hF, hr => by
    have ih := pats_ok (p2 :: ps) (by simp) (fun z hz => hg z (by simp [hz]))
    simp only [costL] at hF ih
    obtain ⟨F1, rfl⟩ : ∃ F1, F = F1 + 1 := ⟨F - 1, by omega⟩
    simp only [printSep, List.append_assoc, List.cons_append, parsePats]
    rw [hg p (by simp) F1 _ (by omega)]
    simp only [bnd, onTok, if_true]
    rw [ih F1 rest (by omega) hr]

theorem params_ok : ∀ (ps : List Tok), ps ≠ [] → ps.all isParamTok = true →
    ∀ F rest, ps.length + 1 ≤ F → parseParams F (ps.intersperse .semi ++ .rparen :: rest) = some (ps, rest)
  | [], hne, _, _, _, _ => absurd rfl hne
  | [p], _, hp, F, rest, hF => by
    obtain ⟨F1, rfl⟩ : ∃ F1, F = F1 + 1 := ⟨F - 1, by simp at hF; omega⟩
    have hp' : isParamTok p = true := by simpa using hp
    simp [List.intersperse, parseParams, hp', onTok, expect]
  | p :: p2 :: ps, _, hp, F, rest, hF => by
    have hp' : isParamTok p = true ∧ (p2 :: ps).all isParamTok = true := by
      simp only [List.all_cons, Bool.and_eq_true] at hp ⊢; exact ⟨hp.1, hp.2⟩
    have ih := params_ok (p2 :: ps) (by simp) hp'.2
    obtain ⟨F1, rfl⟩ : ∃ F1, F = F1 + 1 := ⟨F - 1, by simp at hF; omega⟩
    simp only [List.length_cons] at hF ih
    simp only [List.intersperse, List.cons_append, parseParams, hp'.1, if_true, onTok_eq]
    rw [ih F1 rest (by omega)]
    rfl

/-! ### expr-level queries are closed on the right -/

theorem level3_closed : ∀ (e : E), wf e = true → isOpen e = false → 3 ≤ level e → openRight e = false
  | .bin o l r, hw, _, hl => by
    simp only [wf, Bool.and_eq_true, Nat.ble_eq, Bool.not_eq_true'] at hw
    simp only [level] at hl
    simp only [openRight]
    by_cases hor : isOpen r = true
    · have := hw.2
      simp only [hor, if_true] at this
      cases o <;> simp_all [Op.queryLevel, Op.prec]
    · have hor' : isOpen r = false := by simpa using hor
      have h2 := hw.2
      simp only [hor'] at h2
      have h3 : o.rmin ≤ level r := by simpa [Nat.ble_eq] using h2
      have : o.prec ≤ o.rmin := by cases o <;> decide
      exact level3_closed r hw.1.1.1.1.1.2 hor' (by omega)
  | .bind _ _ _, _, ho, _ => by simp [isOpen] at ho
  | .label _ _, _, ho, _ => by simp [isOpen] at ho
  | .def_ _ _ _ _, _, ho, _ => by simp [isOpen] at ho
  | .num _, _, _, _ | .strl _, _, _, _ | .istr _, _, _, _ | .ident _, _, _, _ | .var _, _, _, _ | .call _ _, _, _, _
  | .field _, _, _, _ | .dot, _, _, _ | .dotdot, _, _, _ | .dotStr _, _, _, _ | .dotIdx _, _, _, _ | .lit _, _, _, _
  | .fmt _, _, _, _ | .fmtS _ _, _, _, _ | .arr _, _, _, _ | .obj _, _, _, _ | .neg _, _, _, _ | .pos _, _, _, _
  | .ite _ _ _ _, _, _, _ | .try_ _ _, _, _, _ | .reduce _ _ _ _, _, _, _ | .foreach _ _ _ _ _, _, _, _ | .brk _, _, _, _
  | .paren _, _, _, _ | .opt _, _, _, _ | .sfxField _ _, _, _, _ | .sfxStr _ _, _, _, _ | .sfxBr _ _, _, _, _
  | .piece _, _, _, _ | .interp _, _, _, _ | .kvKey _ _, _, _, _ | .kvStr _ _, _, _, _ | .kvQ _ _, _, _, _ | .elif _ _, _, _, _
  | .bIter, _, _, _ | .bIdx _, _, _, _ | .bSliceL _, _, _, _ | .bSliceR _, _, _, _ | .bSlice _ _, _, _, _
  | .pvar _, _, _, _ | .parr _, _, _, _ | .pobj _, _, _, _ | .peVar _, _, _, _ | .peKey _ _, _, _, _ | .peStr _ _, _, _, _
  | .peQ _ _, _, _, _ => rfl

theorem level_le_absorb (e : E) : level e ≤ absorb e := by
  cases e <;> simp [level, absorb]
  rename_i o _ _; cases o <;> decide

/-- an expr-level query in a hole that ends at an operator weaker than `//` or at a closing token -/
theorem hole3 (e : E) (hC : PC e) (hw : wf e = true) (ho : isOpen e = false) (hl : 3 ≤ level e) (F : Nat) (rest : List Tok)
    (hr : stops rest = true ∨ (∃ o r, rest = .op o :: r ∧ o.prec < 3) ∨ (∃ r, rest = .kw .as_ :: r))
    (hF : cost e + 3 ≤ F) : parseExpr F 3 false (print e ++ rest) = some (e, rest) := by
  refine hC 1 F 3 false rest (e, rest) (by omega) (by simp [entry, ho, Nat.ble_eq, hl]) ?_ ?_
  · rcases hr with h | ⟨o, r, rfl, hp⟩ | ⟨r, rfl⟩
    · exact follow_of_stops e false rest h
    · have := level_le_absorb e
      simp only [follow, Bool.and_eq_true, Bool.not_eq_true', Nat.blt_eq]
      exact ⟨level3_closed e hw ho hl, by omega⟩
    · simp [follow, ho, Nat.ble_eq, hl]
  · rcases hr with h | ⟨o, r, rfl, hp⟩ | ⟨r, rfl⟩
    · exact climb_stops 0 3 e _ rest h
    · simp only [climb, onOp]
      have : ¬ (3 ≤ o.prec) := by omega
      simp [this]
    · exact climb_nonop 0 3 e _ _ (by intro o r h; cases h)

/-! ### builders for `Good` -/

theorem objval_simple (e : E) (hC : PC e) (hw : wf e = true) (ho : isOpen e = false) (hl : 3 ≤ level e) : PObjVal e := by
  intro F rest hF hs
  obtain ⟨F1, rfl⟩ : ∃ F1, F = F1 + 1 := ⟨F - 1, by omega⟩
  have hr : stops rest = true ∨ (∃ o r, rest = .op o :: r ∧ o.prec < 3) ∨ (∃ r, rest = .kw .as_ :: r) := by
    cases rest with
    | nil => simp [sepStop, headIs] at hs
    | cons t ts =>
      simp only [sepStop, headIs, Bool.or_eq_true, beq_iff_eq] at hs
      rcases hs with h | h
      · subst h; exact Or.inr (Or.inl ⟨_, _, rfl, by decide⟩)
      · subst h; exact Or.inl rfl
  simp only [parseObjVal]
  rw [hole3 e hC hw ho hl F1 rest hr (by omega)]
  cases rest with
  | nil => simp [sepStop, headIs] at hs
  | cons t ts =>
    simp only [sepStop, headIs, Bool.or_eq_true, beq_iff_eq] at hs
    rcases hs with h | h <;> subst h <;> simp [bnd, onTok]

theorem mkTerm (e : E) (hw : wf e = true) (ht : isTerm e = true) (hstr : isStr e = false)
    (hA : isPostfixable e = true → PA e) (hB : PB e) : Good e := by
  obtain ⟨hl, _, ho, _, _, hq⟩ := isTerm_facts e ht
  have hC := PC_of_PB e hw ht hB
  exact {
    a := hA, b := fun _ => hB, c := fun _ => hC,
    s := fun h => (by simp [hstr] at h),
    br := fun h => (by rw [hq] at h; cases h),
    en := fun h => (by rw [hq] at h; cases h),
    ov := fun _ _ => objval_simple e hC hw ho (by omega),
    pt := fun h => (by rw [hq] at h; cases h),
    pe := fun h => (by rw [hq] at h; cases h),
    ip := fun q h => (by subst h; simp [cat] at hq),
    el := fun c t h => (by subst h; simp [cat] at hq) }

theorem mkStrTerm (e : E) (hw : wf e = true) (ht : isTerm e = true) (hS : PStr e)
    (hA : PA e) (hB : PB e) : Good e := by
  obtain ⟨hl, _, ho, _, _, hq⟩ := isTerm_facts e ht
  have hC := PC_of_PB e hw ht hB
  exact {
    a := fun _ => hA, b := fun _ => hB, c := fun _ => hC,
    s := fun _ => hS,
    br := fun h => (by rw [hq] at h; cases h),
    en := fun h => (by rw [hq] at h; cases h),
    ov := fun _ _ => objval_simple e hC hw ho (by omega),
    pt := fun h => (by rw [hq] at h; cases h),
    pe := fun h => (by rw [hq] at h; cases h),
    ip := fun q h => (by subst h; simp [cat] at hq),
    el := fun c t h => (by subst h; simp [cat] at hq) }

theorem mkQuery (e : E) (hq : cat e = .query) (hnp : isPostfixable e = false) (hnt : isTerm e = false) (hns : isStr e = false)
    (hC : PC e) (hOV : isObjVal e = true → PObjVal e) : Good e :=
  { a := fun h => (by simp [hnp] at h), b := fun h => (by simp [hnt] at h), c := fun _ => hC,
    s := fun h => (by simp [hns] at h),
    br := fun h => (by rw [hq] at h; cases h),
    en := fun h => (by rw [hq] at h; cases h),
    ov := fun _ h => hOV h,
    pt := fun h => (by rw [hq] at h; cases h),
    pe := fun h => (by rw [hq] at h; cases h),
    ip := fun q h => (by subst h; simp [cat] at hq),
    el := fun c t h => (by subst h; simp [cat] at hq) }

/-- for the non-query categories: one field matters -/
theorem mkOther (e : E) (hnq : cat e ≠ .query) (hnp : isPostfixable e = false) (hnt : isTerm e = false) (hns : isStr e = false)
    (hbr : cat e = .bracket → PBr e) (hen : cat e = .entry → PEntry e) (hpt : cat e = .pattern → PPat e)
    (hpe : cat e = .patEntry → PPatEntry e) (hip : ∀ q, e = .interp q → PC q) (hel : ∀ c t, e = .elif c t → PC c ∧ PC t) : Good e :=
  { a := fun h => (by simp [hnp] at h), b := fun h => (by simp [hnt] at h), c := fun h => absurd h hnq,
    s := fun h => (by simp [hns] at h), br := hbr, en := hen, ov := fun h _ => absurd h hnq, pt := hpt, pe := hpe, ip := hip, el := hel }

/-! ### small facts -/

theorem hazard_quest (t : E) (r) : hazard t (.quest :: r) = true := by cases t <;> simp [hazard, headIs, noStr, strHead]
theorem hazard_field (t : E) (s r) : hazard t (.field s :: r) = true := by cases t <;> simp [hazard, headIs, noStr, strHead]
theorem hazard_dot (t : E) (r) : hazard t (.dot :: r) = true := by cases t <;> simp [hazard, headIs, noStr, strHead]
theorem hazard_lbrack (t : E) (r) (h : (match t with | .dot => false | _ => true) = true) : hazard t (.lbrack :: r) = true := by
  cases t <;> simp_all [hazard, headIs, noStr, strHead]

theorem hazard_of_noCont (e : E) (rest : List Tok) (h : headCont rest = false) : hazard e rest = true := by
  cases rest with
  | nil => cases e <;> simp [hazard, headIs, noStr, strHead]
  | cons t ts =>
    cases e <;> simp only [hazard, headIs, noStr, strHead] <;> cases t <;> simp_all [headCont, contTok]

theorem queryHead_ne (hd : Tok) (h : queryHeadTok hd = true) :
    hd ≠ .rbrack ∧ hd ≠ .colon ∧ hd ≠ .rbrace ∧ hd ≠ .rparen ∧ hd ≠ .semi := by
  cases hd <;> simp_all [queryHeadTok, termHeadTok]

/-- `onTok t` on the printed form of a query falls through when `t` cannot start a query -/
theorem onTok_query {β : Type} (t : Tok) (e : E) (hw : wf e = true) (hq : cat e = .query) (rest : List Tok)
    (k : List Tok → β) (n : β) (ht : queryHeadTok t = false) : onTok t (print e ++ rest) k n = n := by
  obtain ⟨hd, tl, h1, h2⟩ := query_head e hw hq
  rw [h1]
  have : hd ≠ t := by intro h; subst h; simp [ht] at h2
  simp [onTok, this]

theorem print_ite (c t : E) (es : List E) (els : Option E) :
    print (.ite c t es els) = .kw .if_ :: print c ++ .kw .then_ :: print t ++ printCat es ++ elseToks els := by
  cases els <;> simp [print, elseToks]

theorem cost_ite (c t : E) (es : List E) (els : Option E) :
    cost (.ite c t es els) = cost c + cost t + costL es + elseCost els + 6 := by
  cases els <;> simp [cost, elseCost]

theorem stops_of_follow_open (e : E) (q : Bool) (rest : List Tok) (ho : isOpen e = true) (hf : follow e q rest = true) :
    stops rest = true := by
  have hor : openRight e = true := by cases e <;> simp_all [isOpen, openRight]
  cases rest with
  | nil => rfl
  | cons t ts =>
    cases t with
    | kw k => cases k <;> simp_all [follow, stops]
    | _ => simp_all [follow, stops]

end Proofs.C11.Full
