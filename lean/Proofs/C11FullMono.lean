import FqModel.C11Full
/-! C11 — widened grammar (FqModel/C11Full.lean): more fuel never changes a successful parse. Core Lean only. -/
set_option linter.unusedSimpArgs false
set_option linter.unusedVariables false
namespace Proofs.C11.Full
open FqModel.C11.Full
open FqModel.C11.Print (Op Assoc)

/-! ### more fuel never changes a successful parse -/

def Le {α : Type} (a b : Option α) : Prop := ∀ x, a = some x → b = some x

theorem Le.rfl' {α : Type} (a : Option α) : Le a a := fun _ h => h
theorem le_none {α : Type} (b : Option α) : Le none b := fun _ h => by simp at h

theorem bnd_le {α β : Type} {r r' : PR α} {k k' : α → List Tok → Option β} (h : Le r r')
    (hk : ∀ a ts, Le (k a ts) (k' a ts)) : Le (bnd r k) (bnd r' k') := by
  intro x hx
  cases r with
  | none => simp [bnd] at hx
  | some v =>
    obtain ⟨a, ts⟩ := v
    rw [h _ rfl]
    simp only [bnd] at hx ⊢
    exact hk a ts x hx

theorem expect_le {β : Type} {t : Tok} {ts : List Tok} {k k' : List Tok → Option β} (hk : ∀ ts, Le (k ts) (k' ts)) :
    Le (expect t ts k) (expect t ts k') := by
  intro x hx
  cases ts with
  | nil => simp [expect] at hx
  | cons t' r =>
    simp only [expect] at hx ⊢
    split at hx
    · rename_i h; simp only [h, if_true]; exact hk r x hx
    · simp at hx

theorem onTok_le {β : Type} {t : Tok} {ts : List Tok} {k k' : List Tok → Option β} {n n' : Option β}
    (hk : ∀ r, Le (k r) (k' r)) (hn : Le n n') : Le (onTok t ts k n) (onTok t ts k' n') := by
  unfold onTok
  split
  · split
    · exact hk _
    · exact hn
  · exact hn

theorem onOp_le {β : Type} {ts : List Tok} {k k' : Op → List Tok → Option β} {n n' : Option β}
    (hk : ∀ o r, Le (k o r) (k' o r)) (hn : Le n n') : Le (onOp ts k n) (onOp ts k' n') := by
  unfold onOp
  split
  · exact hk _ _
  · exact hn

theorem onStr_le {β : Type} {ts : List Tok} {n n' : Option β} {k k' : StrHead → Option β}
    (hn : Le n n') (hk : ∀ h, Le (k h) (k' h)) : Le (onStr ts n k) (onStr ts n' k') := by
  unfold onStr
  split
  · exact hn
  · exact hk _

theorem ite_le {α : Type} {c : Prop} [Decidable c] {a a' b b' : Option α} (ha : Le a a') (hb : Le b b') :
    Le (if c then a else b) (if c then a' else b') := by
  split
  · exact ha
  · exact hb

structure Mono (f : Nat) : Prop where
  m_strTail : ∀ h, Le (parseStrTail f h) (parseStrTail (f + 1) h)
  m_parts : ∀ ts, Le (parseParts f ts) (parseParts (f + 1) ts)
  m_term : ∀ ts, Le (parseTerm f ts) (parseTerm (f + 1) ts)
  m_postfix : ∀ t ts, Le (parsePostfix f t ts) (parsePostfix (f + 1) t ts)
  m_bracket : ∀ ts, Le (parseBracket f ts) (parseBracket (f + 1) ts)
  m_args : ∀ ts, Le (parseArgs f ts) (parseArgs (f + 1) ts)
  m_elifs : ∀ ts, Le (parseElifs f ts) (parseElifs (f + 1) ts)
  m_elem : ∀ c ts, Le (parseElem f c ts) (parseElem (f + 1) c ts)
  m_sep : ∀ c s cl ts, Le (parseSep f c s cl ts) (parseSep (f + 1) c s cl ts)
  m_objVal : ∀ ts, Le (parseObjVal f ts) (parseObjVal (f + 1) ts)
  m_entry : ∀ ts, Le (parseEntry f ts) (parseEntry (f + 1) ts)
  m_pattern : ∀ ts, Le (parsePattern f ts) (parsePattern (f + 1) ts)
  m_patEntry : ∀ ts, Le (parsePatEntry f ts) (parsePatEntry (f + 1) ts)
  m_pats : ∀ ts, Le (parsePats f ts) (parsePats (f + 1) ts)
  m_params : ∀ ts, Le (parseParams f ts) (parseParams (f + 1) ts)
  m_operand : ∀ q ts, Le (parseOperand f q ts) (parseOperand (f + 1) q ts)
  m_expr : ∀ m q ts, Le (parseExpr f m q ts) (parseExpr (f + 1) m q ts)
  m_climb : ∀ m l p ts, Le (climb f m l p ts) (climb (f + 1) m l p ts)

/-- closes goals `Le (…f…) (…f+1…)` built from the combinators, given `ih : Mono f` -/
macro "le_tac" ih:ident : tactic => `(tactic|
  repeat (first
    | exact Le.rfl' _
    | exact le_none _
    | exact ($ih).m_strTail _ | exact ($ih).m_parts _ | exact ($ih).m_term _ | exact ($ih).m_postfix _ _ | exact ($ih).m_bracket _
    | exact ($ih).m_args _ | exact ($ih).m_elifs _ | exact ($ih).m_elem _ _ | exact ($ih).m_sep _ _ _ _ | exact ($ih).m_objVal _
    | exact ($ih).m_entry _ | exact ($ih).m_pattern _ | exact ($ih).m_patEntry _ | exact ($ih).m_pats _ | exact ($ih).m_params _
    | exact ($ih).m_operand _ _ | exact ($ih).m_expr _ _ _ | exact ($ih).m_climb _ _ _ _
    | apply bnd_le | apply expect_le | apply onTok_le | apply onOp_le | apply ite_le | apply onStr_le
    | intro _))

theorem mono_zero : Mono 0 := by
  constructor <;> intros <;> intro x hx <;>
    simp [parseStrTail, parseParts, parseTerm, parsePostfix, parseBracket, parseArgs, parseElifs, parseElem, parseSep,
      parseObjVal, parseEntry, parsePattern, parsePatEntry, parsePats, parseParams, parseOperand, parseExpr, climb] at hx


theorem ms_strTail (f : Nat) (ih : Mono f) : ∀ h, Le (parseStrTail (f + 1) h) (parseStrTail (f + 1 + 1) h) := by
  intro h
  cases h <;> simp only [parseStrTail] <;> le_tac ih

theorem ms_parts (f : Nat) (ih : Mono f) : ∀ ts, Le (parseParts (f + 1) ts) (parseParts (f + 1 + 1) ts) := by
  intro ts
  cases ts with
  | nil => simp only [parseParts]; le_tac ih
  | cons t r => cases t <;> simp only [parseParts] <;> le_tac ih

theorem ms_term (f : Nat) (ih : Mono f) : ∀ ts, Le (parseTerm (f + 1) ts) (parseTerm (f + 1 + 1) ts) := by
  intro ts
  cases ts with
  | nil => simp only [parseTerm]; le_tac ih
  | cons t ts =>
    cases t with
    | kw k =>
      cases k with
      | break_ =>
        simp only [parseTerm]
        cases ts with
        | nil => le_tac ih
        | cons t2 r => cases t2 <;> simp only <;> le_tac ih
      | _ => simp only [parseTerm] <;> le_tac ih
    | op o => cases o <;> simp only [parseTerm] <;> le_tac ih
    | dot =>
      simp only [parseTerm]
      le_tac ih
    | fmt s =>
      simp only [parseTerm]
      le_tac ih
    | _ => simp only [parseTerm] <;> le_tac ih

theorem ms_postfix (f : Nat) (ih : Mono f) : ∀ t ts, Le (parsePostfix (f + 1) t ts) (parsePostfix (f + 1 + 1) t ts) := by
  intro t ts
  cases ts with
  | nil => simp only [parsePostfix]; le_tac ih
  | cons tk r =>
    cases tk with
    | dot =>
      simp only [parsePostfix]
      le_tac ih
    | _ => simp only [parsePostfix] <;> le_tac ih

theorem ms_bracket (f : Nat) (ih : Mono f) : ∀ ts, Le (parseBracket (f + 1) ts) (parseBracket (f + 1 + 1) ts) := by
  intro ts; simp only [parseBracket]; le_tac ih

theorem ms_args (f : Nat) (ih : Mono f) : ∀ ts, Le (parseArgs (f + 1) ts) (parseArgs (f + 1 + 1) ts) := by
  intro ts; simp only [parseArgs]; le_tac ih

theorem ms_elifs (f : Nat) (ih : Mono f) : ∀ ts, Le (parseElifs (f + 1) ts) (parseElifs (f + 1 + 1) ts) := by
  intro ts; simp only [parseElifs]; le_tac ih

theorem ms_elem (f : Nat) (ih : Mono f) : ∀ c ts, Le (parseElem (f + 1) c ts) (parseElem (f + 1 + 1) c ts) := by
  intro c ts; cases c <;> simp only [parseElem] <;> le_tac ih

theorem ms_sep (f : Nat) (ih : Mono f) : ∀ c s cl ts, Le (parseSep (f + 1) c s cl ts) (parseSep (f + 1 + 1) c s cl ts) := by
  intro c s cl ts; simp only [parseSep]; le_tac ih

theorem ms_objVal (f : Nat) (ih : Mono f) : ∀ ts, Le (parseObjVal (f + 1) ts) (parseObjVal (f + 1 + 1) ts) := by
  intro ts; simp only [parseObjVal]; le_tac ih

theorem ms_entry (f : Nat) (ih : Mono f) : ∀ ts, Le (parseEntry (f + 1) ts) (parseEntry (f + 1 + 1) ts) := by
  intro ts
  cases ts with
  | nil => simp only [parseEntry]; le_tac ih
  | cons t r =>
    cases t with
    | lparen => simp only [parseEntry]; le_tac ih
    | _ =>
      simp only [parseEntry]
      le_tac ih

theorem ms_pattern (f : Nat) (ih : Mono f) : ∀ ts, Le (parsePattern (f + 1) ts) (parsePattern (f + 1 + 1) ts) := by
  intro ts
  cases ts with
  | nil => simp only [parsePattern]; le_tac ih
  | cons t r => cases t <;> simp only [parsePattern] <;> le_tac ih

theorem ms_patEntry (f : Nat) (ih : Mono f) : ∀ ts, Le (parsePatEntry (f + 1) ts) (parsePatEntry (f + 1 + 1) ts) := by
  intro ts
  cases ts with
  | nil => simp only [parsePatEntry]; le_tac ih
  | cons t r =>
    cases t with
    | lparen => simp only [parsePatEntry]; le_tac ih
    | var s => simp only [parsePatEntry]; le_tac ih
    | _ =>
      simp only [parsePatEntry]
      le_tac ih

theorem ms_pats (f : Nat) (ih : Mono f) : ∀ ts, Le (parsePats (f + 1) ts) (parsePats (f + 1 + 1) ts) := by
  intro ts; simp only [parsePats]; le_tac ih

theorem ms_params (f : Nat) (ih : Mono f) : ∀ ts, Le (parseParams (f + 1) ts) (parseParams (f + 1 + 1) ts) := by
  intro ts
  cases ts with
  | nil => simp only [parseParams]; le_tac ih
  | cons t r => simp only [parseParams]; le_tac ih

theorem ms_operand (f : Nat) (ih : Mono f) : ∀ q ts, Le (parseOperand (f + 1) q ts) (parseOperand (f + 1 + 1) q ts) := by
  intro q ts
  simp only [parseOperand]
  apply onTok_le
  · intro r
    apply ite_le
    · cases r with
      | nil => le_tac ih
      | cons a r1 =>
        cases a with
        | var s =>
          cases r1 with
          | nil => le_tac ih
          | cons b r2 =>
            cases b with
            | op o => cases o <;> simp only <;> le_tac ih
            | _ => simp only; le_tac ih
        | _ => simp only; le_tac ih
    · le_tac ih
  · apply onTok_le
    · intro r
      apply ite_le
      · cases r with
        | nil => le_tac ih
        | cons a r1 => cases a <;> simp only <;> le_tac ih
      · le_tac ih
    · le_tac ih

theorem ms_expr (f : Nat) (ih : Mono f) : ∀ m q ts, Le (parseExpr (f + 1) m q ts) (parseExpr (f + 1 + 1) m q ts) := by
  intro m q ts; simp only [parseExpr]; le_tac ih

theorem ms_climb (f : Nat) (ih : Mono f) : ∀ m l p ts, Le (FqModel.C11.Full.climb (f + 1) m l p ts) (FqModel.C11.Full.climb (f + 1 + 1) m l p ts) := by
  intro m l p ts; simp only [FqModel.C11.Full.climb]; le_tac ih

theorem mono_succ (f : Nat) (ih : Mono f) : Mono (f + 1) :=
  ⟨ms_strTail f ih, ms_parts f ih, ms_term f ih, ms_postfix f ih, ms_bracket f ih, ms_args f ih, ms_elifs f ih, ms_elem f ih, ms_sep f ih, ms_objVal f ih, ms_entry f ih, ms_pattern f ih, ms_patEntry f ih, ms_pats f ih, ms_params f ih, ms_operand f ih, ms_expr f ih, ms_climb f ih⟩

theorem mono_all : ∀ f, Mono f
  | 0 => mono_zero
  | f + 1 => mono_succ f (mono_all f)

theorem mono_le {α : Type} {g : Nat → Option α} (h : ∀ f, Le (g f) (g (f + 1))) {f f' : Nat} (hf : f ≤ f') : Le (g f) (g f') := by
  induction hf with
  | refl => exact Le.rfl' _
  | step _ ih => exact fun x hx => h _ x (ih x hx)

end Proofs.C11.Full
