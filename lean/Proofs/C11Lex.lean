import FqModel.C11Lex
/-!
  C11 — lemmas about the lexical layer (FqModel/C11Lex.lean): string literals, number literals, words.
-/
namespace Proofs.C11.Lex
open FqModel.C11.Lex FqModel.C11.Full

/-! ### string literals: encodeString then scanString/unquote is the identity -/

theorem hexDigit_facts : ∀ k : Fin 16, isHex (hexDigit k.val) = true ∧ hexVal (hexDigit k.val) = k.val := by decide

theorem isHex_hexDigit (k : Nat) (h : k < 16) : isHex (hexDigit k) = true := (hexDigit_facts ⟨k, h⟩).1
theorem hexVal_hexDigit (k : Nat) (h : k < 16) : hexVal (hexDigit k) = k := (hexDigit_facts ⟨k, h⟩).2

/-- the three shapes of `encChar c` -/
inductive EncShape (c : Char) : Text → Prop where
  | plain (h34 : c.toNat ≠ 34) (h92 : c.toNat ≠ 92) : EncShape c [c]
  | short (e : Char) (he : isSimpleEsc e = true) (h40 : e.toNat ≠ 40) (h117 : e.toNat ≠ 117) (hc : escChar e = c) : EncShape c ['\\', e]
  | uni (a b : Nat) (ha : a < 16) (hb : b < 16) (hc : c.toNat = a * 16 + b) (hlt : c.toNat < 128) :
      EncShape c ['\\', 'u', '0', '0', hexDigit a, hexDigit b]

theorem char_eq_of_toNat {c : Char} {n : Nat} (h : c.toNat = n) : Char.ofNat n = c := by
  rw [← h, Char.ofNat_toNat]

theorem encChar_shape (c : Char) : EncShape c (encChar c) := by
  unfold encChar
  by_cases h128 : c.toNat < 128
  · simp only [h128, if_true]
    by_cases hp : (decide (32 ≤ c.toNat) && decide (c.toNat ≤ 126) && decide (c.toNat ≠ 34) && decide (c.toNat ≠ 92)) = true
    · rw [if_pos hp]
      simp only [Bool.and_eq_true, decide_eq_true_eq, ne_eq] at hp
      exact .plain hp.1.2 hp.2
    · rw [if_neg hp]
      by_cases h1 : c.toNat = 34
      · rw [if_pos h1]; exact .short '"' (by decide) (by decide) (by decide) (by rw [← char_eq_of_toNat h1]; decide)
      rw [if_neg h1]
      by_cases h2 : c.toNat = 92
      · rw [if_pos h2]; exact .short '\\' (by decide) (by decide) (by decide) (by rw [← char_eq_of_toNat h2]; decide)
      rw [if_neg h2]
      by_cases h3 : c.toNat = 8
      · rw [if_pos h3]; exact .short 'b' (by decide) (by decide) (by decide) (by rw [← char_eq_of_toNat h3]; decide)
      rw [if_neg h3]
      by_cases h4 : c.toNat = 12
      · rw [if_pos h4]; exact .short 'f' (by decide) (by decide) (by decide) (by rw [← char_eq_of_toNat h4]; decide)
      rw [if_neg h4]
      by_cases h5 : c.toNat = 10
      · rw [if_pos h5]; exact .short 'n' (by decide) (by decide) (by decide) (by rw [← char_eq_of_toNat h5]; decide)
      rw [if_neg h5]
      by_cases h6 : c.toNat = 13
      · rw [if_pos h6]; exact .short 'r' (by decide) (by decide) (by decide) (by rw [← char_eq_of_toNat h6]; decide)
      rw [if_neg h6]
      by_cases h7 : c.toNat = 9
      · rw [if_pos h7]; exact .short 't' (by decide) (by decide) (by decide) (by rw [← char_eq_of_toNat h7]; decide)
      rw [if_neg h7]
      exact .uni (c.toNat / 16) (c.toNat % 16) (by omega) (by omega) (by omega) h128
  · simp only [h128, if_false]
    exact .plain (by omega) (by omega)

/-- scanning: one encoded character in front of a scannable tail -/
theorem scanBody_enc (c : Char) (enc : Text) (hs : EncShape c enc) (tl b rest : Text) (d : Bool)
    (h : scanBody 0 tl = some (b, d, rest)) :
    ∃ d', scanBody 0 (enc ++ tl) = some (enc ++ b, d', rest) ∧ (d' = false → d = false ∧ enc = [c]) := by
  cases tl with
  | nil => simp [scanBody] at h
  | cons t tl' =>
    cases hs with
    | plain h34 h92 =>
      refine ⟨d || decide (126 < c.toNat), ?_, ?_⟩
      · simp [scanBody, h34, h92, h]
      · intro hd; simp only [Bool.or_eq_false_iff] at hd; exact ⟨hd.1, rfl⟩
    | short e he h40 h117 hc =>
      refine ⟨true, ?_, by simp⟩
      simp [scanBody, h40, h117, he, h]
    | uni a b' ha hb hc hlt =>
      refine ⟨true, ?_, by simp⟩
      have h0 : isHex '0' = true := by decide
      simp [scanBody, isHex_hexDigit a ha, isHex_hexDigit b' hb, h, h0]

theorem scanBody_quote (rest : Text) : scanBody 0 ('"' :: rest) = some ([], false, '"' :: rest) := by
  cases rest <;> simp [scanBody]

theorem scanBody_encBody (s : Text) (rest : Text) :
    ∃ d, scanBody 0 (encBody s ++ '"' :: rest) = some (encBody s, d, '"' :: rest) ∧ (d = false → encBody s = s) := by
  induction s with
  | nil => exact ⟨false, by simp [encBody, scanBody_quote], fun _ => rfl⟩
  | cons c s ih =>
    obtain ⟨d, h1, h2⟩ := ih
    obtain ⟨d', h3, h4⟩ := scanBody_enc c (encChar c) (encChar_shape c) _ _ _ _ h1
    refine ⟨d', ?_, ?_⟩
    · simp only [encBody, List.append_assoc]; exact h3
    · intro hd
      obtain ⟨hd0, he⟩ := h4 hd
      simp only [encBody, he, h2 hd0, List.singleton_append]

theorem jsonDecode_enc (c : Char) (enc : Text) (hs : EncShape c enc) (tl : Text) (f : Nat) :
    jsonDecode (f + 1) (enc ++ tl) = c :: jsonDecode f tl := by
  cases hs with
  | plain h34 h92 => simp [jsonDecode, h92]
  | short e he h40 h117 hc => simp [jsonDecode, h117, hc]
  | uni a b ha hb hc hlt =>
    have hv : u4 '0' '0' (hexDigit a) (hexDigit b) = c.toNat := by
      simp only [u4, hexVal_hexDigit a ha, hexVal_hexDigit b hb, hc]
      have : hexVal '0' = 0 := by decide
      simp [this]
    have hg : getU4 ('\\' :: 'u' :: '0' :: '0' :: hexDigit a :: hexDigit b :: tl) = some (c.toNat, tl) := by
      have h0 : isHex '0' = true := by decide
      simp [getU4, isHex_hexDigit a ha, isHex_hexDigit b hb, hv, h0]
    have hns : ¬ (0xD800 ≤ c.toNat) := by omega
    simp only [List.cons_append, List.nil_append, jsonDecode]
    simp [hg, hns, Char.ofNat_toNat]

theorem length_le_encBody (s : Text) : s.length ≤ (encBody s).length := by
  induction s with
  | nil => simp [encBody]
  | cons c s ih =>
    have : 1 ≤ (encChar c).length := by
      generalize encChar c = enc, encChar_shape c = hs
      cases hs <;> simp
    simp only [encBody, List.length_append, List.length_cons]; omega

theorem jsonDecode_encBody (s : Text) (f : Nat) (hf : s.length + 1 ≤ f) : jsonDecode f (encBody s) = s := by
  induction s generalizing f with
  | nil => cases f with
    | zero => simp [jsonDecode]
    | succ f => simp [jsonDecode, encBody]
  | cons c s ih =>
    cases f with
    | zero => simp at hf
    | succ f =>
      simp only [encBody]
      rw [jsonDecode_enc c _ (encChar_shape c) _ f, ih f (by simp at hf; omega)]

theorem unquote_encBody (s : Text) (d : Bool) (hd : d = false → encBody s = s) : unquote d (encBody s) = s := by
  cases d with
  | false => simp [unquote, hd rfl]
  | true => simp only [unquote, if_true]; exact jsonDecode_encBody s _ (by have := length_le_encBody s; omega)

/-- a printed string literal is read back as the string, whatever follows the closing quote -/
theorem lexQuote_encBody (s rest : Text) :
    lexQuote (encBody s ++ '"' :: rest) = tk (.str (String.ofList s)) rest := by
  obtain ⟨d, h1, h2⟩ := scanBody_encBody s rest
  simp [lexQuote, h1, unquote_encBody s d h2]

theorem lexOne_encodeString (s rest : Text) :
    lexOne false (encodeString s ++ rest) = .tok (.tok (.str (String.ofList s))) rest := by
  have h : lexNormal '"' (encBody s ++ '"' :: rest) = lexQuote (encBody s ++ '"' :: rest) := by
    simp [lexNormal, isIdStart, isDigit]
  have e1 : encodeString s ++ rest = '"' :: (encBody s ++ '"' :: rest) := by simp [encodeString]
  have e2 : nextAux .code ('"' :: (encBody s ++ '"' :: rest)) = some ('"', encBody s ++ '"' :: rest) := by
    simp [nextAux, isWhite]
  rw [e1]
  simp only [lexOne, e2, Bool.false_eq_true, if_false]
  rw [h, lexQuote_encBody]; rfl

/-! ### number literals -/

/-- what may follow a decimal literal without changing how it is scanned -/
def stopsNum : Text → Bool
  | [] => true
  | c :: _ => !isDigit c && !decide (c.toNat = 46) && !isIdStart c

theorem consFst_eq {c : Char} {x : Option (Text × Text)} {a b : Text} :
    consFst c x = some (c :: a, b) ↔ x = some (a, b) := by
  cases x with
  | none => simp [consFst]
  | some p => cases p; simp [consFst]

theorem consFst_ne_nil {c : Char} {x : Option (Text × Text)} {a b : Text} (h : consFst c x = some (a, b)) : a ≠ [] := by
  cases x with
  | none => simp [consFst] at h
  | some p => cases p; simp [consFst] at h; intro h'; simp [h'] at h

theorem isE_idStart (c : Char) (h : isE c = true) : isIdStart c = true := by
  simp only [isE, Bool.or_eq_true, decide_eq_true_eq] at h
  simp only [isIdStart, Bool.or_eq_true, Bool.and_eq_true, decide_eq_true_eq]
  omega

theorem scanNumber_stop (st : NS) (rest : Text) (h : scanNumber st [] = some ([], [])) (hr : stopsNum rest = true) :
    scanNumber st rest = some ([], rest) := by
  cases rest with
  | nil => exact h
  | cons c r =>
    simp only [stopsNum, Bool.and_eq_true, Bool.not_eq_true', decide_eq_false_iff_not] at hr
    have he : isE c = false := by
      cases hE : isE c with
      | false => rfl
      | true => have := isE_idStart c hE; simp [this] at hr
    cases st <;> simp [scanNumber] at h ⊢ <;> simp [hr.1.1, hr.1.2, hr.2, he]

theorem scanNumber_append (s : Text) : ∀ (st : NS) (rest : Text), scanNumber st s = some (s, []) → stopsNum rest = true →
    scanNumber st (s ++ rest) = some (s, rest) := by
  induction s with
  | nil => intro st rest h hr; simpa using scanNumber_stop st rest h hr
  | cons c s ih =>
    intro st rest h hr
    cases st with
    | lead =>
      simp only [scanNumber, List.cons_append] at h ⊢
      by_cases hD : isDigit c = true
      · rw [if_pos hD] at h ⊢; rw [consFst_eq] at h ⊢; exact ih _ _ h hr
      rw [if_neg hD] at h ⊢
      by_cases h46 : c.toNat = 46
      · rw [if_pos h46] at h ⊢; rw [consFst_eq] at h ⊢; exact ih _ _ h hr
      rw [if_neg h46] at h ⊢
      by_cases hE : isE c = true
      · rw [if_pos hE] at h ⊢; rw [consFst_eq] at h ⊢; exact ih _ _ h hr
      rw [if_neg hE] at h
      by_cases hI : isIdStart c = true
      · rw [if_pos hI] at h; simp at h
      · rw [if_neg hI] at h; simp at h
    | float =>
      simp only [scanNumber, List.cons_append] at h ⊢
      by_cases hD : isDigit c = true
      · rw [if_pos hD] at h ⊢; rw [consFst_eq] at h ⊢; exact ih _ _ h hr
      rw [if_neg hD] at h ⊢
      by_cases h46 : c.toNat = 46
      · rw [if_pos h46] at h; simp at h
      rw [if_neg h46] at h ⊢
      by_cases hE : isE c = true
      · rw [if_pos hE] at h ⊢; rw [consFst_eq] at h ⊢; exact ih _ _ h hr
      rw [if_neg hE] at h
      by_cases hI : isIdStart c = true
      · rw [if_pos hI] at h; simp at h
      · rw [if_neg hI] at h; simp at h
    | expSign =>
      simp only [scanNumber, List.cons_append] at h ⊢
      by_cases hS : isSign c = true
      · rw [if_pos hS] at h ⊢; rw [consFst_eq] at h ⊢; exact ih _ _ h hr
      rw [if_neg hS] at h ⊢
      by_cases hD : isDigit c = true
      · rw [if_pos hD] at h ⊢; rw [consFst_eq] at h ⊢; exact ih _ _ h hr
      · rw [if_neg hD] at h; simp at h
    | expLead =>
      simp only [scanNumber, List.cons_append] at h ⊢
      by_cases hD : isDigit c = true
      · rw [if_pos hD] at h ⊢; rw [consFst_eq] at h ⊢; exact ih _ _ h hr
      · rw [if_neg hD] at h; simp at h
    | exp =>
      simp only [scanNumber, List.cons_append] at h ⊢
      by_cases hD : isDigit c = true
      · rw [if_pos hD] at h ⊢; rw [consFst_eq] at h ⊢; exact ih _ _ h hr
      rw [if_neg hD] at h
      by_cases hI : isIdStart c = true
      · rw [if_pos hI] at h; simp at h
      · rw [if_neg hI] at h; simp at h

/-! ### words -/

def stopsId : Text → Bool
  | [] => true
  | c :: _ => !isIdTail c

theorem scanId_append (w rest : Text) (hw : w.all isIdTail = true) (hr : stopsId rest = true) :
    scanId (w ++ rest) = (w, rest) := by
  induction w with
  | nil =>
    cases rest with
    | nil => simp [scanId]
    | cons c r => simp only [stopsId, Bool.not_eq_true'] at hr; simp [scanId, hr]
  | cons c w ih =>
    simp only [List.all_cons, Bool.and_eq_true] at hw
    simp [scanId, hw.1, ih hw.2]

theorem scanBase_append (b : Char) (w rest : Text) (hw : w.all (isBaseDigit b) = true)
    (hr : (match rest with | [] => true | c :: _ => !isBaseDigit b c) = true) :
    scanBase b (w ++ rest) = (w, rest) := by
  induction w with
  | nil =>
    cases rest with
    | nil => simp [scanBase]
    | cons c r => simp only [Bool.not_eq_true'] at hr; simp [scanBase, hr]
  | cons c w ih =>
    simp only [List.all_cons, Bool.and_eq_true] at hw
    simp [scanBase, hw.1, ih hw.2]

end Proofs.C11.Lex
