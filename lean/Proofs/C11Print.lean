import FqModel.C11Print
/-! C11 — the printed form of a well-formed operator tree parses back to the same tree. Core Lean only. -/
namespace Proofs.C11.Print
open FqModel.C11.Print

theorem parseTerm_zero (ts) : parseTerm 0 ts = none := by simp [parseTerm]
theorem parseOperand_zero (q ts) : parseOperand 0 q ts = none := by simp [parseOperand]
theorem parseExpr_zero (m q ts) : parseExpr 0 m q ts = none := by simp [parseExpr]
theorem climb_zero (m l p ts) : climb 0 m l p ts = none := by simp [climb]

theorem parseExpr_succ (f m q ts) : parseExpr (f + 1) m q ts =
    andThen (parseOperand f q ts) fun lhs r => climb f m lhs 0 r := by simp [parseExpr]

theorem parseTerm_atom (f s ts) : parseTerm (f + 1) (.atom s :: ts) = some (postfixQ (.atom s) ts) := by simp [parseTerm]
theorem parseTerm_lparen (f ts) : parseTerm (f + 1) (.lparen :: ts) =
    andThen (parseExpr f 1 true ts) fun e ts' => expect .rparen ts' fun ts'' => some (postfixQ (.paren e) ts'') := by
  simp [parseTerm]
theorem parseTerm_bopen (f kw ts) : parseTerm (f + 1) (.bopen kw :: ts) =
    andThen (parseExpr f 1 true ts) fun a ts1 => expect .bsep ts1 fun ts1' =>
      andThen (parseExpr f 1 true ts1') fun b ts2 => expect .bclose ts2 fun ts2' => some (postfixQ (.brack kw a b) ts2') := by
  simp [parseTerm]
theorem parseTerm_neg (f ts) : parseTerm (f + 1) (.op .sub :: ts) =
    andThen (parseTerm f ts) fun e ts' => some (.neg e, ts') := by simp [parseTerm]

theorem parseOperand_succ (f q ts) : parseOperand (f + 1) q ts =
    onLabel ts
      (fun n ts' => if q then andThen (parseExpr f 1 true ts') fun b r => some (.label n b, r) else none)
      (andThen (parseTerm f ts) fun t r =>
        onAs r
          (fun p r' => if q then andThen (parseExpr f 1 true r') fun b r'' => some (.bind t p b, r'') else some (t, r))
          (some (t, r))) := by simp [parseOperand]

theorem climb_succ (f m lhs prev ts) : climb (f + 1) m lhs prev ts =
    onOp ts
      (fun o r =>
        if m ≤ o.prec then
          if o.assoc = .non ∧ o.prec = prev then none
          else andThen (parseExpr f o.rmin o.queryLevel r) fun rhs r' => climb f m (.bin o lhs rhs) o.prec r'
        else some (lhs, ts))
      (some (lhs, ts)) := by simp [climb]


/-! ### more fuel never changes a successful parse -/

def Le (a b : PR) : Prop := ∀ x, a = some x → b = some x

theorem Le.rfl' (a : PR) : Le a a := fun _ h => h

theorem andThen_le {r r' : PR} {k k' : E → List Tok → PR} (h : Le r r') (hk : ∀ e ts, Le (k e ts) (k' e ts)) :
    Le (andThen r k) (andThen r' k') := by
  intro x hx
  cases r with
  | none => simp [andThen] at hx
  | some v =>
    obtain ⟨e, ts⟩ := v
    rw [h _ rfl]
    simp only [andThen] at hx ⊢
    exact hk e ts x hx

theorem expect_le {t : Tok} {ts : List Tok} {k k' : List Tok → PR} (hk : ∀ ts, Le (k ts) (k' ts)) :
    Le (expect t ts k) (expect t ts k') := by
  intro x hx
  cases ts with
  | nil => simp [expect] at hx
  | cons t' r =>
    simp only [expect] at hx ⊢
    split at hx
    · rename_i h; simp only [h, if_true]; exact hk r x hx
    · simp at hx

theorem onAs_le {ts : List Tok} {k k' : String → List Tok → PR} {n n' : PR} (hk : ∀ p r, Le (k p r) (k' p r)) (hn : Le n n') :
    Le (onAs ts k n) (onAs ts k' n') := by
  unfold onAs
  split
  · exact hk _ _
  · exact hn

theorem onOp_le {ts : List Tok} {k k' : Op → List Tok → PR} {n n' : PR} (hk : ∀ p r, Le (k p r) (k' p r)) (hn : Le n n') :
    Le (onOp ts k n) (onOp ts k' n') := by
  unfold onOp
  split
  · exact hk _ _
  · exact hn

theorem onLabel_le {ts : List Tok} {k k' : String → List Tok → PR} {n n' : PR} (hk : ∀ p r, Le (k p r) (k' p r)) (hn : Le n n') :
    Le (onLabel ts k n) (onLabel ts k' n') := by
  unfold onLabel
  split
  · exact hk _ _
  · exact hn

theorem ite_le {c : Prop} [Decidable c] {a a' b b' : PR} (ha : Le a a') (hb : Le b b') :
    Le (if c then a else b) (if c then a' else b') := by
  split
  · exact ha
  · exact hb

theorem mono_all : ∀ f : Nat,
    (∀ ts, Le (parseTerm f ts) (parseTerm (f + 1) ts)) ∧
    (∀ q ts, Le (parseOperand f q ts) (parseOperand (f + 1) q ts)) ∧
    (∀ m q ts, Le (parseExpr f m q ts) (parseExpr (f + 1) m q ts)) ∧
    (∀ m lhs prev ts, Le (climb f m lhs prev ts) (climb (f + 1) m lhs prev ts)) := by
  intro f
  induction f with
  | zero =>
    refine ⟨?_, ?_, ?_, ?_⟩ <;> intros <;> intro x hx
    · simp [parseTerm_zero] at hx
    · simp [parseOperand_zero] at hx
    · simp [parseExpr_zero] at hx
    · simp [climb_zero] at hx
  | succ f ih =>
    obtain ⟨ihT, ihO, ihE, ihC⟩ := ih
    refine ⟨?_, ?_, ?_, ?_⟩
    · intro ts
      cases ts with
      | nil => intro x hx; simp [parseTerm] at hx
      | cons t ts =>
        cases t with
        | atom s => rw [parseTerm_atom, parseTerm_atom]; exact Le.rfl' _
        | lparen =>
          rw [parseTerm_lparen, parseTerm_lparen]
          exact andThen_le (ihE _ _ _) (fun _ _ => Le.rfl' _)
        | bopen kw =>
          rw [parseTerm_bopen, parseTerm_bopen]
          exact andThen_le (ihE _ _ _) (fun _ _ => expect_le (fun _ => andThen_le (ihE _ _ _) (fun _ _ => Le.rfl' _)))
        | op o =>
          cases o with
          | sub => rw [parseTerm_neg, parseTerm_neg]; exact andThen_le (ihT _) (fun _ _ => Le.rfl' _)
          | _ => intro x hx; simp [parseTerm] at hx
        | _ => intro x hx; simp [parseTerm] at hx
    · intro q ts
      rw [parseOperand_succ, parseOperand_succ]
      exact onLabel_le (fun _ _ => ite_le (andThen_le (ihE _ _ _) (fun _ _ => Le.rfl' _)) (Le.rfl' _))
        (andThen_le (ihT _) (fun _ _ => onAs_le (fun _ _ => ite_le (andThen_le (ihE _ _ _) (fun _ _ => Le.rfl' _)) (Le.rfl' _)) (Le.rfl' _)))
    · intro m q ts
      rw [parseExpr_succ, parseExpr_succ]
      exact andThen_le (ihO _ _) (fun _ _ => ihC _ _ _ _)
    · intro m lhs prev ts
      rw [climb_succ, climb_succ]
      exact onOp_le (fun _ _ => ite_le (ite_le (Le.rfl' _) (andThen_le (ihE _ _ _) (fun _ _ => ihC _ _ _ _))) (Le.rfl' _)) (Le.rfl' _)

theorem mono_le {g : Nat → PR} (h : ∀ f, Le (g f) (g (f + 1))) {f f' : Nat} (hf : f ≤ f') : Le (g f) (g f') := by
  induction hf with
  | refl => exact Le.rfl' _
  | step _ ih => exact fun x hx => h _ x (ih x hx)

theorem parseTerm_mono {f f' : Nat} (hf : f ≤ f') {ts x} (h : parseTerm f ts = some x) : parseTerm f' ts = some x :=
  mono_le (g := fun f => parseTerm f ts) (fun f => (mono_all f).1 ts) hf x h
theorem parseExpr_mono {f f' : Nat} (hf : f ≤ f') {m q ts x} (h : parseExpr f m q ts = some x) : parseExpr f' m q ts = some x :=
  mono_le (g := fun f => parseExpr f m q ts) (fun f => (mono_all f).2.2.1 m q ts) hf x h
theorem climb_mono {f f' : Nat} (hf : f ≤ f') {m l p ts x} (h : climb f m l p ts = some x) : climb f' m l p ts = some x :=
  mono_le (g := fun f => climb f m l p ts) (fun f => (mono_all f).2.2.2 m l p ts) hf x h

def prevOf : E → Nat
  | .bin o _ _ => o.prec
  | _ => 0

def absorb : E → Nat
  | .bin o _ _ => o.rmin
  | _ => 100

/-- what may follow the printed form of `e` without being absorbed into it -/
def follow (e : E) : List Tok → Bool
  | .quest :: _ => false
  | .as_ _ :: _ => false
  | .op o :: _ => !openRight e && Nat.blt o.prec (absorb e)
  | _ => true

/-- tokens after which nothing is absorbed, whatever precedes -/
def stops : List Tok → Bool
  | .quest :: _ => false
  | .as_ _ :: _ => false
  | .op _ :: _ => false
  | _ => true

def entry (e : E) (m : Nat) (q : Bool) : Bool := if isOpen e then q else Nat.ble m (level e)

def cost : E → Nat
  | .atom _ => 1
  | .paren e => cost e + 4
  | .brack _ a b => cost a + cost b + 4
  | .opt e => cost e
  | .neg e => cost e + 1
  | .bin _ l r => cost l + cost r + 4
  | .bind t _ b => cost t + cost b + 3
  | .label _ b => cost b + 3

theorem follow_of_stops (e : E) (rest : List Tok) (h : stops rest = true) : follow e rest = true := by
  cases rest with
  | nil => rfl
  | cons t ts => cases t <;> simp_all [stops, follow]

theorem climb_stops (f m lhs prev rest) (h : stops rest = true) : climb (f + 1) m lhs prev rest = some (lhs, rest) := by
  rw [climb_succ]
  cases rest with
  | nil => rfl
  | cons t ts => cases t <;> simp_all [stops, onOp]

theorem postfixQ_noquest (e : E) (rest : List Tok) (h : ∀ ts, rest ≠ .quest :: ts) : postfixQ e rest = (e, rest) := by
  cases rest with
  | nil => rfl
  | cons t ts =>
    cases t <;> first | (exfalso; exact h _ rfl) | rfl

theorem print_ne_nil (e : E) : print e ≠ [] := by
  induction e <;> simp [print, *]

theorem isTerm_of_postfixable (e : E) (h : isPostfixable e = true) : isTerm e = true := by
  cases e <;> simp_all [isTerm, isPostfixable]

/-- a term does not start with `label` -/
theorem term_head (e : E) (hw : wf e = true) (h : isTerm e = true) (rest : List Tok) :
    ∃ t ts, print e ++ rest = t :: ts ∧ (∀ n, t ≠ .label n) := by
  induction e generalizing rest with
  | atom s => exact ⟨_, _, rfl, by simp⟩
  | paren e _ => exact ⟨.lparen, print e ++ .rparen :: rest, by simp [print], by simp⟩
  | brack kw a b _ _ => exact ⟨.bopen kw, print a ++ .bsep :: (print b ++ .bclose :: rest), by simp [print], by simp⟩
  | opt e ih =>
    simp only [wf, Bool.and_eq_true] at hw
    obtain ⟨t, ts, h1, h2⟩ := ih hw.1 (isTerm_of_postfixable e hw.2) (.quest :: rest)
    exact ⟨t, ts, by simpa [print] using h1, h2⟩
  | neg e _ => exact ⟨.op .sub, print e ++ rest, by simp [print], by simp⟩
  | _ => simp [isTerm, isPostfixable] at h

theorem onLabel_term (e : E) (hw : wf e = true) (h : isTerm e = true) (rest : List Tok) (k : String → List Tok → PR) (n : PR) :
    onLabel (print e ++ rest) k n = n := by
  obtain ⟨t, ts, h1, h2⟩ := term_head e hw h rest
  rw [h1]
  cases t <;> first | (exfalso; exact h2 _ rfl) | rfl


/-! ### facts about the precedence table -/

theorem op_lmin_rmin (o o' : Op) (h : o.lmin ≤ o'.prec) : o.prec < o'.rmin := by
  cases o <;> cases o' <;> revert h <;> decide

theorem op_prec_le_rmin (o : Op) : o.prec ≤ o.rmin := by cases o <;> decide
theorem op_prec_lt_100 (o : Op) : o.prec < 100 := by cases o <;> decide
theorem op_prec_le_lmin (o : Op) : o.prec ≤ o.lmin := by cases o <;> decide
theorem op_prec_pos (o : Op) : 1 ≤ o.prec := by cases o <;> decide
theorem op_non (o : Op) (h : o.assoc = .non) : o.lmin = o.prec + 1 := by cases o <;> simp_all [Op.assoc, Op.lmin]

theorem level_open (e : E) (h : isOpen e = true) : level e = 0 := by
  cases e <;> simp_all [isOpen, level]

theorem not_open_of_level (e : E) (h : 1 ≤ level e) : isOpen e = false := by
  cases e <;> simp_all [isOpen, level]

theorem absorb_ge (e : E) (o : Op) (h : o.lmin ≤ level e) : o.prec < absorb e := by
  cases e with
  | bin o' l r => exact op_lmin_rmin o o' h
  | _ => exact op_prec_lt_100 o

theorem follow_left (o : Op) (l r : E) (X : List Tok) (hw : wf (.bin o l r) = true) : follow l (.op o :: X) = true := by
  simp only [wf, Bool.and_eq_true, Nat.ble_eq, Bool.not_eq_true'] at hw
  obtain ⟨⟨⟨⟨_, _⟩, hol⟩, hl⟩, _⟩ := hw
  simp [follow, hol, Nat.blt_eq, absorb_ge l o hl]

theorem follow_right (o : Op) (l r : E) (rest : List Tok) (hw : wf (.bin o l r) = true)
    (hf : follow (.bin o l r) rest = true) : follow r rest = true := by
  simp only [wf, Bool.and_eq_true, Nat.ble_eq, Bool.not_eq_true'] at hw
  obtain ⟨_, hr⟩ := hw
  cases rest with
  | nil => rfl
  | cons t ts =>
    cases t with
    | op o' =>
      simp only [follow, openRight, absorb, Bool.and_eq_true, Bool.not_eq_true', Nat.blt_eq] at hf ⊢
      obtain ⟨hor, hlt⟩ := hf
      refine ⟨hor, ?_⟩
      have hno : isOpen r = false := by
        cases r <;> simp_all [isOpen, openRight]
      simp only [hno] at hr
      have hr' : o.rmin ≤ level r := by simpa using hr
      cases r with
      | bin o2 l2 r2 =>
        simp only [absorb, level] at hr' ⊢
        have := op_prec_le_rmin o2
        omega
      | _ => simp only [absorb]; have := op_prec_lt_100 o'; omega
    | _ => simp_all [follow]

theorem climb_right_stops (f : Nat) (o : Op) (l r : E) (p : Nat) (rest : List Tok)
    (hf : follow (.bin o l r) rest = true) : climb (f + 1) o.rmin r p rest = some (r, rest) := by
  rw [climb_succ]
  cases rest with
  | nil => rfl
  | cons t ts =>
    cases t with
    | op o' =>
      simp only [follow, absorb, Bool.and_eq_true, Nat.blt_eq] at hf
      have : ¬ (o.rmin ≤ o'.prec) := by omega
      simp [onOp, this]
    | _ => simp [onOp]

theorem stops_of_follow_open (e : E) (rest : List Tok) (ho : openRight e = true) (hf : follow e rest = true) : stops rest = true := by
  cases rest with
  | nil => rfl
  | cons t ts => cases t <;> simp_all [follow, stops]


/-! ### the main induction -/

def PA (e : E) : Prop := ∀ f rest, parseTerm (f + cost e) (print e ++ rest) = some (postfixQ e rest)
def PB (e : E) : Prop := ∀ f rest, (∀ ts, rest ≠ .quest :: ts) → parseTerm (f + cost e) (print e ++ rest) = some (e, rest)
def PC (e : E) : Prop := ∀ f m q rest x, entry e m q = true → follow e rest = true →
    climb f m e (prevOf e) rest = some x → parseExpr (f + cost e + 2) m q (print e ++ rest) = some x

theorem follow_noquest (e : E) (rest : List Tok) (h : follow e rest = true) : ∀ ts, rest ≠ .quest :: ts := by
  intro ts hts; subst hts; simp [follow] at h

theorem onAs_follow (e : E) (rest : List Tok) (h : follow e rest = true) (k : String → List Tok → PR) (n : PR) :
    onAs rest k n = n := by
  cases rest with
  | nil => rfl
  | cons t ts => cases t <;> simp_all [follow, onAs]

theorem prevOf_term (e : E) (h : isTerm e = true) : prevOf e = 0 := by
  cases e <;> simp_all [isTerm, isPostfixable, prevOf]

theorem PC_of_PB (e : E) (hw : wf e = true) (ht : isTerm e = true) (hB : PB e) : PC e := by
  intro f m q rest x _ hfo hcl
  rw [show f + cost e + 2 = (f + cost e + 1) + 1 by omega, parseExpr_succ, parseOperand_succ, onLabel_term e hw ht,
    hB f rest (follow_noquest e rest hfo)]
  simp only [andThen]
  rw [onAs_follow e rest hfo]
  simp only
  rw [prevOf_term e ht] at hcl
  exact climb_mono (by omega) hcl

theorem entry_one (e : E) : entry e 1 true = true := by
  cases e <;> simp [entry, isOpen, level, Nat.ble_eq]
  exact op_prec_pos _

theorem prevOf_cases (e : E) : prevOf e = 0 ∨ prevOf e = level e := by
  cases e <;> simp [prevOf, level]

theorem main : ∀ e : E, wf e = true →
    (isPostfixable e = true → PA e) ∧ (isTerm e = true → PB e) ∧ PC e := by
  intro e
  induction e with
  | atom s =>
    intro hw
    have hA : PA (.atom s) := by
      intro f rest
      simp only [cost, print, List.cons_append, List.nil_append]
      exact parseTerm_atom f s rest
    have hB : PB (.atom s) := by
      intro f rest hq
      rw [hA f rest, postfixQ_noquest _ _ hq]
    exact ⟨fun _ => hA, fun _ => hB, PC_of_PB _ hw rfl hB⟩
  | paren e ih =>
    intro hw
    have hwe : wf e = true := by simpa [wf] using hw
    have hCe := (ih hwe).2.2
    have hA : PA (.paren e) := by
      intro f rest
      have h1 : parseExpr (f + cost e + 3) 1 true (print e ++ (.rparen :: rest)) = some (e, .rparen :: rest) := by
        have := hCe (f + 1) 1 true (.rparen :: rest) (e, .rparen :: rest) (entry_one e)
          (follow_of_stops _ _ rfl) (climb_stops f 1 e (prevOf e) _ rfl)
        rw [show f + cost e + 3 = f + 1 + cost e + 2 by omega]
        exact this
      simp only [cost, print, List.cons_append, List.append_assoc, List.nil_append]
      rw [show f + (cost e + 4) = (f + cost e + 3) + 1 by omega, parseTerm_lparen, h1]
      simp [andThen, expect]
    have hB : PB (.paren e) := by
      intro f rest hq
      rw [hA f rest, postfixQ_noquest _ _ hq]
    exact ⟨fun _ => hA, fun _ => hB, PC_of_PB _ hw rfl hB⟩
  | brack kw a b iha ihb =>
    intro hw
    have hwab : wf a = true ∧ wf b = true := by simpa [wf] using hw
    have hCa := (iha hwab.1).2.2
    have hCb := (ihb hwab.2).2.2
    have hA : PA (.brack kw a b) := by
      intro f rest
      have h1 : parseExpr (f + cost a + cost b + 3) 1 true (print a ++ (.bsep :: (print b ++ (.bclose :: rest))))
          = some (a, .bsep :: (print b ++ (.bclose :: rest))) := by
        have := hCa (f + cost b + 1) 1 true (.bsep :: (print b ++ (.bclose :: rest))) (a, _) (entry_one a)
          (follow_of_stops _ _ rfl) (climb_stops (f + cost b) 1 a (prevOf a) _ rfl)
        rw [show f + cost a + cost b + 3 = f + cost b + 1 + cost a + 2 by omega]
        exact this
      have h2 : parseExpr (f + cost a + cost b + 3) 1 true (print b ++ (.bclose :: rest)) = some (b, .bclose :: rest) := by
        have := hCb (f + cost a + 1) 1 true (.bclose :: rest) (b, _) (entry_one b)
          (follow_of_stops _ _ rfl) (climb_stops (f + cost a) 1 b (prevOf b) _ rfl)
        rw [show f + cost a + cost b + 3 = f + cost a + 1 + cost b + 2 by omega]
        exact this
      simp only [cost, print, List.cons_append, List.append_assoc, List.nil_append]
      rw [show f + (cost a + cost b + 4) = (f + cost a + cost b + 3) + 1 by omega, parseTerm_bopen, h1]
      simp only [andThen, expect, if_true]
      rw [h2]
      simp [andThen, expect]
    have hB : PB (.brack kw a b) := by
      intro f rest hq
      rw [hA f rest, postfixQ_noquest _ _ hq]
    exact ⟨fun _ => hA, fun _ => hB, PC_of_PB _ hw rfl hB⟩
  | opt e ih =>
    intro hw
    have hwe : wf e = true ∧ isPostfixable e = true := by simpa [wf] using hw
    have hAe := (ih hwe.1).1 hwe.2
    have hA : PA (.opt e) := by
      intro f rest
      simp only [cost, print, List.append_assoc, List.cons_append, List.nil_append]
      rw [hAe f (.quest :: rest)]
      rfl
    have hB : PB (.opt e) := by
      intro f rest hq
      rw [hA f rest, postfixQ_noquest _ _ hq]
    exact ⟨fun _ => hA, fun _ => hB, PC_of_PB _ hw rfl hB⟩
  | neg e ih =>
    intro hw
    have hwe : wf e = true ∧ isTerm e = true := by simpa [wf] using hw
    have hBe := (ih hwe.1).2.1 hwe.2
    have hB : PB (.neg e) := by
      intro f rest hq
      simp only [cost, print, List.cons_append]
      rw [show f + (cost e + 1) = (f + cost e) + 1 by omega, parseTerm_neg, hBe f rest hq]
      rfl
    exact ⟨fun h => by simp [isPostfixable] at h, fun _ => hB, PC_of_PB _ hw rfl hB⟩
  | bin o l r ihl ihr =>
    intro hw
    have hw' := hw
    simp only [wf, Bool.and_eq_true, Nat.ble_eq, Bool.not_eq_true'] at hw'
    obtain ⟨⟨⟨⟨hwl, hwr⟩, hol⟩, hll⟩, hrr⟩ := hw'
    refine ⟨fun h => by simp [isPostfixable] at h, fun h => by simp [isTerm, isPostfixable] at h, ?_⟩
    intro f m q rest x hen hfo hcl
    have hCl := (ihl hwl).2.2
    have hCr := (ihr hwr).2.2
    have hm : m ≤ o.prec := by simpa [entry, isOpen, level, Nat.ble_eq] using hen
    have hentry_r : entry r o.rmin o.queryLevel = true := by
      unfold entry
      split <;> simp_all
    have hr_parse : parseExpr (1 + cost r + 2) o.rmin o.queryLevel (print r ++ rest) = some (r, rest) :=
      hCr 1 o.rmin o.queryLevel rest (r, rest) hentry_r (follow_right o l r rest hw hfo)
        (climb_right_stops 0 o l r (prevOf r) rest hfo)
    have hnon : ¬ (o.assoc = .non ∧ o.prec = prevOf l) := by
      intro ⟨h1, h2⟩
      have h3 := op_non o h1
      have h4 := op_prec_pos o
      rcases prevOf_cases l with h | h <;> omega
    have hcl_l : climb (f + cost r + 3 + 1) m l (prevOf l) (.op o :: (print r ++ rest)) = some x := by
      rw [climb_succ]
      simp only [onOp]
      rw [if_pos hm, if_neg hnon, parseExpr_mono (by omega) hr_parse]
      simp only [andThen]
      exact climb_mono (by omega) hcl
    have hnol : isOpen l = false := not_open_of_level l (by have := op_prec_pos o; have := op_prec_le_lmin o; omega)
    have hentry_l : entry l m q = true := by
      simp only [entry, hnol, Nat.ble_eq]
      have := op_prec_le_lmin o
      simp; omega
    have := hCl (f + cost r + 3 + 1) m q (.op o :: (print r ++ rest)) x hentry_l (follow_left o l r _ hw) hcl_l
    simp only [cost, print, List.append_assoc, List.cons_append]
    rw [show f + (cost l + cost r + 4) + 2 = f + cost r + 3 + 1 + cost l + 2 by omega]
    exact this
  | bind t p b iht ihb =>
    intro hw
    have hw' : (wf t = true ∧ isTerm t = true) ∧ wf b = true := by simpa [wf] using hw
    obtain ⟨⟨hwt, htt⟩, hwb⟩ := hw'
    refine ⟨fun h => by simp [isPostfixable] at h, fun h => by simp [isTerm, isPostfixable] at h, ?_⟩
    intro f m q rest x hen hfo hcl
    have hBt := (iht hwt).2.1 htt
    have hCb := (ihb hwb).2.2
    have hq : q = true := by simpa [entry, isOpen] using hen
    have hst : stops rest = true := stops_of_follow_open _ rest rfl hfo
    have hb_parse : parseExpr (f + cost t + cost b + 3) 1 true (print b ++ rest) = some (b, rest) := by
      have := hCb (f + cost t + 1) 1 true rest (b, rest) (entry_one b) (follow_of_stops _ _ hst)
        (climb_stops (f + cost t) 1 b (prevOf b) rest hst)
      rw [show f + cost t + cost b + 3 = f + cost t + 1 + cost b + 2 by omega]
      exact this
    have ht_parse : parseTerm (f + cost t + cost b + 3) (print t ++ (.as_ p :: (print b ++ rest))) =
        some (t, .as_ p :: (print b ++ rest)) := by
      have := hBt (f + cost b + 3) (.as_ p :: (print b ++ rest)) (by intro ts h; simp at h)
      rw [show f + cost t + cost b + 3 = f + cost b + 3 + cost t by omega]
      exact this
    simp only [cost, print, List.append_assoc, List.cons_append]
    rw [show f + (cost t + cost b + 3) + 2 = (f + cost t + cost b + 3 + 1) + 1 by omega, parseExpr_succ, parseOperand_succ,
      onLabel_term t hwt htt, ht_parse]
    simp only [andThen, onAs, hq, if_true]
    rw [hb_parse]
    simp only [andThen]
    simp only [prevOf] at hcl
    exact climb_mono (by omega) hcl
  | label n b ihb =>
    intro hw
    have hwb : wf b = true := by simpa [wf] using hw
    refine ⟨fun h => by simp [isPostfixable] at h, fun h => by simp [isTerm, isPostfixable] at h, ?_⟩
    intro f m q rest x hen hfo hcl
    have hCb := (ihb hwb).2.2
    have hq : q = true := by simpa [entry, isOpen] using hen
    have hst : stops rest = true := stops_of_follow_open _ rest rfl hfo
    have hb_parse : parseExpr (f + cost b + 3) 1 true (print b ++ rest) = some (b, rest) := by
      have := hCb (f + 1) 1 true rest (b, rest) (entry_one b) (follow_of_stops _ _ hst)
        (climb_stops f 1 b (prevOf b) rest hst)
      rw [show f + cost b + 3 = f + 1 + cost b + 2 by omega]
      exact this
    simp only [cost, print, List.cons_append]
    rw [show f + (cost b + 3) + 2 = (f + cost b + 3 + 1) + 1 by omega, parseExpr_succ, parseOperand_succ]
    simp only [onLabel, hq, if_true]
    rw [hb_parse]
    simp only [andThen]
    simp only [prevOf] at hcl
    exact climb_mono (by omega) hcl


theorem follow_nil (e : E) : follow e [] = true := rfl

theorem cost_le (e : E) : cost e ≤ 4 * (print e).length := by
  induction e with
  | atom s => simp [cost, print]
  | paren e ih => simp [cost, print]; omega
  | brack kw a b iha ihb => simp [cost, print]; omega
  | opt e ih => simp [cost, print]; omega
  | neg e ih => simp [cost, print]; omega
  | bin o l r ihl ihr => simp [cost, print]; omega
  | bind t p b iht ihb => simp [cost, print]; omega
  | label n b ih => simp [cost, print]; omega

/-- the printed form of a well-formed tree parses back to the tree -/
theorem print_parse (e : E) (hw : wf e = true) : parse (print e) = some e := by
  have hC := (main e hw).2.2
  have h := hC 1 1 true [] (e, []) (entry_one e) (follow_nil e) (climb_stops 0 1 e (prevOf e) [] rfl)
  have hc := cost_le e
  have := parseExpr_mono (f' := 4 * (print e).length + 4) (by omega) h
  simp only [List.append_nil] at this
  simp [parse, parseFuel, this]

/-! ### the converse: whatever the parser accepts is a well-formed tree whose printed form is the input -/

theorem andThen_some {r : PR} {k : E → List Tok → PR} {x} (h : andThen r k = some x) :
    ∃ e ts, r = some (e, ts) ∧ k e ts = some x := by
  cases r with
  | none => simp [andThen] at h
  | some v => exact ⟨v.1, v.2, rfl, by simpa [andThen] using h⟩

theorem expect_some {t : Tok} {ts : List Tok} {k : List Tok → PR} {x} (h : expect t ts k = some x) :
    ∃ r, ts = t :: r ∧ k r = some x := by
  cases ts with
  | nil => simp [expect] at h
  | cons t' r =>
    simp only [expect] at h
    split at h
    · rename_i ht; exact ⟨r, by rw [ht], h⟩
    · simp at h

def opFree (r : List Tok) : Prop := ∀ o r', r ≠ .op o :: r'

def ent (e : E) (m : Nat) (q : Bool) : Prop := if isOpen e then q = true else m ≤ level e

/-- what can stand after a parsed expression of level ≥ m: an operator only if it is weaker than `m` and the
    expression does not end in an open binding -/
def edge (e : E) (m : Nat) (r : List Tok) : Prop := ∀ o r', r = .op o :: r' → o.prec < m ∧ openRight e = false

def pre (lhs : E) (prev m : Nat) (ts : List Tok) : Prop :=
  wf lhs = true ∧ ∀ o r', ts = .op o :: r' → openRight lhs = false ∧
    (m ≤ o.prec → ¬ (o.assoc = .non ∧ o.prec = prev) → o.lmin ≤ level lhs)

theorem postfix_inv (e : E) (ts : List Tok) (hw : wf e = true) (hp : isPostfixable e = true) :
    wf (postfixQ e ts).1 = true ∧ isPostfixable (postfixQ e ts).1 = true ∧
    print (postfixQ e ts).1 ++ (postfixQ e ts).2 = print e ++ ts := by
  induction ts generalizing e with
  | nil => simp [postfixQ, hw, hp]
  | cons t ts ih =>
    cases t with
    | quest =>
      simp only [postfixQ]
      have := ih (.opt e) (by simp [wf, hw, hp]) rfl
      simpa [print] using this
    | _ => simp [postfixQ, hw, hp]

theorem op_lmin_le_10 (o : Op) : o.lmin ≤ 10 := by cases o <;> decide
theorem op_rmin_le_10 (o : Op) : o.rmin ≤ 10 := by cases o <;> decide
theorem op_next (o o2 : Op) (h1 : o2.prec < o.rmin) (h2 : ¬ (o2.assoc = .non ∧ o2.prec = o.prec)) : o2.lmin ≤ o.prec := by
  cases o <;> cases o2 <;> revert h1 h2 <;> decide

theorem term_level (e : E) (h : isTerm e = true) : level e = 10 ∧ openRight e = false ∧ isOpen e = false := by
  cases e <;> simp_all [isTerm, isPostfixable, level, openRight, isOpen]

theorem open_level (e : E) (h : isOpen e = true) : openRight e = true := by
  cases e <;> simp_all [isOpen, openRight]

def InvT (f : Nat) : Prop := ∀ ts e r, parseTerm f ts = some (e, r) → wf e = true ∧ isTerm e = true ∧ print e ++ r = ts
def InvO (f : Nat) : Prop := ∀ q ts e r, parseOperand f q ts = some (e, r) →
  wf e = true ∧ print e ++ r = ts ∧ (isTerm e = true ∨ (isOpen e = true ∧ q = true ∧ opFree r))
def InvX (f : Nat) : Prop := ∀ m q ts e r, m ≤ 10 → 1 ≤ m → parseExpr f m q ts = some (e, r) →
  wf e = true ∧ print e ++ r = ts ∧ ent e m q ∧ edge e m r
def InvC (f : Nat) : Prop := ∀ m q lhs prev ts e r, m ≤ 10 → 1 ≤ m → pre lhs prev m ts → ent lhs m q →
  climb f m lhs prev ts = some (e, r) → wf e = true ∧ print e ++ r = print lhs ++ ts ∧ ent e m q ∧ edge e m r

theorem inv_all : ∀ f, InvT f ∧ InvO f ∧ InvX f ∧ InvC f := by
  intro f
  induction f with
  | zero =>
    refine ⟨?_, ?_, ?_, ?_⟩
    · intro ts e r h; simp [parseTerm_zero] at h
    · intro q ts e r h; simp [parseOperand_zero] at h
    · intro m q ts e r _ _ h; simp [parseExpr_zero] at h
    · intro m q lhs prev ts e r _ _ _ _ h; simp [climb_zero] at h
  | succ f ih =>
    obtain ⟨ihT, ihO, ihX, ihC⟩ := ih
    have hT : InvT (f + 1) := by
      intro ts e r h
      cases ts with
      | nil => simp [parseTerm] at h
      | cons t ts =>
        cases t with
        | atom s =>
          rw [parseTerm_atom] at h
          have hp := postfix_inv (.atom s) ts rfl rfl
          have : postfixQ (.atom s) ts = (e, r) := by simpa using h
          rw [this] at hp
          exact ⟨hp.1, isTerm_of_postfixable _ hp.2.1, by simpa [print] using hp.2.2⟩
        | lparen =>
          rw [parseTerm_lparen] at h
          obtain ⟨e1, ts1, h1, h2⟩ := andThen_some h
          obtain ⟨r1, hr1, h3⟩ := expect_some h2
          obtain ⟨hw1, hp1, _, _⟩ := ihX 1 true ts e1 ts1 (by omega) (by omega) h1
          have hp := postfix_inv (.paren e1) r1 (by simpa [wf] using hw1) rfl
          have : postfixQ (.paren e1) r1 = (e, r) := by simpa using h3
          rw [this] at hp
          refine ⟨hp.1, isTerm_of_postfixable _ hp.2.1, ?_⟩
          rw [hp.2.2, ← hp1, hr1]
          simp [print]
        | bopen kw =>
          rw [parseTerm_bopen] at h
          obtain ⟨a, ts1, h1, h2⟩ := andThen_some h
          obtain ⟨r1, hr1, h3⟩ := expect_some h2
          obtain ⟨b, ts2, h4, h5⟩ := andThen_some h3
          obtain ⟨r2, hr2, h6⟩ := expect_some h5
          obtain ⟨hwa, hpa, _, _⟩ := ihX 1 true ts a ts1 (by omega) (by omega) h1
          obtain ⟨hwb, hpb, _, _⟩ := ihX 1 true r1 b ts2 (by omega) (by omega) h4
          have hp := postfix_inv (.brack kw a b) r2 (by simp [wf, hwa, hwb]) rfl
          have : postfixQ (.brack kw a b) r2 = (e, r) := by simpa using h6
          rw [this] at hp
          refine ⟨hp.1, isTerm_of_postfixable _ hp.2.1, ?_⟩
          rw [hp.2.2, ← hpa, hr1, ← hpb, hr2]
          simp [print]
        | op o =>
          cases o with
          | sub =>
            rw [parseTerm_neg] at h
            obtain ⟨e1, ts1, h1, h2⟩ := andThen_some h
            obtain ⟨hw1, ht1, hp1⟩ := ihT ts e1 ts1 h1
            have : (E.neg e1, ts1) = (e, r) := by simpa using h2
            obtain ⟨rfl, rfl⟩ := Prod.mk.inj this
            exact ⟨by simp [wf, hw1, ht1], rfl, by simp [print, hp1]⟩
          | _ => simp [parseTerm] at h
        | _ => simp [parseTerm] at h
    have hO : InvO (f + 1) := by
      intro q ts e r h
      rw [parseOperand_succ] at h
      cases ts with
      | nil =>
        simp only [onLabel] at h
        obtain ⟨t, r0, h1, _⟩ := andThen_some h
        have := ihT [] t r0 h1
        have h3 := this.2.2
        have := print_ne_nil t
        cases hpt : print t with
        | nil => exact absurd hpt this
        | cons a b => rw [hpt] at h3; simp at h3
      | cons t0 ts0 =>
        by_cases hl : ∃ n, t0 = .label n
        · obtain ⟨n, rfl⟩ := hl
          simp only [onLabel] at h
          cases q with
          | false => simp at h
          | true =>
            simp only [if_true] at h
            obtain ⟨b, r1, h1, h2⟩ := andThen_some h
            obtain ⟨hwb, hpb, _, hedge⟩ := ihX 1 true ts0 b r1 (by omega) (by omega) h1
            have : (E.label n b, r1) = (e, r) := by simpa using h2
            obtain ⟨rfl, rfl⟩ := Prod.mk.inj this
            refine ⟨by simpa [wf] using hwb, by simp [print, hpb], Or.inr ⟨rfl, rfl, ?_⟩⟩
            intro o r' hr
            have := (hedge o r' hr).1
            have := op_prec_pos o
            omega
        · have hnl : onLabel (t0 :: ts0)
              (fun n ts' => if q = true then andThen (parseExpr f 1 true ts') fun b r => some (E.label n b, r) else none)
              (andThen (parseTerm f (t0 :: ts0)) fun t r =>
                onAs r (fun p r' => if q = true then andThen (parseExpr f 1 true r') fun b r'' => some (E.bind t p b, r'') else some (t, r))
                  (some (t, r))) =
              (andThen (parseTerm f (t0 :: ts0)) fun t r =>
                onAs r (fun p r' => if q = true then andThen (parseExpr f 1 true r') fun b r'' => some (E.bind t p b, r'') else some (t, r))
                  (some (t, r))) := by
            cases t0 <;> first | (exfalso; exact hl ⟨_, rfl⟩) | rfl
          rw [hnl] at h
          obtain ⟨t, r0, h1, h2⟩ := andThen_some h
          obtain ⟨hwt, htt, hpt⟩ := ihT _ t r0 h1
          by_cases has : ∃ p r', r0 = .as_ p :: r'
          · obtain ⟨p, r', rfl⟩ := has
            simp only [onAs] at h2
            cases q with
            | false =>
              have : (t, Tok.as_ p :: r') = (e, r) := by simpa using h2
              obtain ⟨rfl, rfl⟩ := Prod.mk.inj this
              exact ⟨hwt, hpt, Or.inl htt⟩
            | true =>
              simp only [if_true] at h2
              obtain ⟨b, r1, h3, h4⟩ := andThen_some h2
              obtain ⟨hwb, hpb, _, hedge⟩ := ihX 1 true r' b r1 (by omega) (by omega) h3
              have : (E.bind t p b, r1) = (e, r) := by simpa using h4
              obtain ⟨rfl, rfl⟩ := Prod.mk.inj this
              refine ⟨by simp [wf, hwt, htt, hwb], ?_, Or.inr ⟨rfl, rfl, ?_⟩⟩
              · rw [← hpt, ← hpb]; simp [print]
              · intro o r'' hr
                have := (hedge o r'' hr).1
                have := op_prec_pos o
                omega
          · have : onAs r0 (fun p r' => if q = true then andThen (parseExpr f 1 true r') fun b r'' => some (E.bind t p b, r'') else some (t, r0))
                (some (t, r0)) = some (t, r0) := by
              cases r0 with
              | nil => rfl
              | cons a b => cases a <;> first | (exfalso; exact has ⟨_, _, rfl⟩) | rfl
            rw [this] at h2
            have : (t, r0) = (e, r) := by simpa using h2
            obtain ⟨rfl, rfl⟩ := Prod.mk.inj this
            exact ⟨hwt, hpt, Or.inl htt⟩
    have hX : InvX (f + 1) := by
      intro m q ts e r hm10 hm1 h
      rw [parseExpr_succ] at h
      obtain ⟨lhs, r0, h1, h2⟩ := andThen_some h
      obtain ⟨hwl, hpl, hkind⟩ := ihO q ts lhs r0 h1
      have hpre : pre lhs 0 m r0 := by
        refine ⟨hwl, ?_⟩
        intro o r' hr
        rcases hkind with ht | ⟨_, _, hfree⟩
        · obtain ⟨hlev, hor, _⟩ := term_level lhs ht
          refine ⟨hor, fun _ _ => ?_⟩
          rw [hlev]; exact op_lmin_le_10 o
        · exact absurd hr (hfree o r')
      have hent : ent lhs m q := by
        unfold ent
        rcases hkind with ht | ⟨ho, hq, _⟩
        · obtain ⟨hlev, _, hno⟩ := term_level lhs ht
          simp [hno, hlev, hm10]
        · simp [ho, hq]
      obtain ⟨hw, hp, he, hed⟩ := ihC m q lhs 0 r0 e r hm10 hm1 hpre hent h2
      exact ⟨hw, by rw [hp, hpl], he, hed⟩
    have hC : InvC (f + 1) := by
      intro m q lhs prev ts e r hm10 hm1 hpre hent h
      rw [climb_succ] at h
      by_cases hop : ∃ o r', ts = .op o :: r'
      · obtain ⟨o, r', rfl⟩ := hop
        simp only [onOp] at h
        obtain ⟨hwl, hpre2⟩ := hpre
        obtain ⟨horl, hlmin⟩ := hpre2 o r' rfl
        by_cases hmo : m ≤ o.prec
        · simp only [hmo, if_true] at h
          by_cases hnon : o.assoc = .non ∧ o.prec = prev
          · simp [hnon] at h
          · rw [if_neg hnon] at h
            obtain ⟨rhs, r1, h1, h2⟩ := andThen_some h
            have hr10 := op_rmin_le_10 o
            have hr1 : 1 ≤ o.rmin := by have := op_prec_pos o; have := op_prec_le_rmin o; omega
            obtain ⟨hwr, hpr, hentr, hedger⟩ := ihX o.rmin o.queryLevel r' rhs r1 hr10 hr1 h1
            have hwbin : wf (.bin o lhs rhs) = true := by
              simp only [wf, Bool.and_eq_true, Nat.ble_eq, Bool.not_eq_true']
              refine ⟨⟨⟨⟨hwl, hwr⟩, horl⟩, hlmin hmo hnon⟩, ?_⟩
              unfold ent at hentr
              split
              · rename_i ho; simpa [ho] using hentr
              · rename_i ho; simpa [ho] using hentr
            have hpre' : pre (.bin o lhs rhs) o.prec m r1 := by
              refine ⟨hwbin, ?_⟩
              intro o2 r2 hr2
              obtain ⟨hlt, hor⟩ := hedger o2 r2 hr2
              refine ⟨by simpa [openRight] using hor, fun _ hn2 => ?_⟩
              simp only [level]
              exact op_next o o2 hlt hn2
            have hent' : ent (.bin o lhs rhs) m q := by simp [ent, isOpen, level, hmo]
            obtain ⟨hw, hp, he, hed⟩ := ihC m q (.bin o lhs rhs) o.prec r1 e r hm10 hm1 hpre' hent' h2
            refine ⟨hw, ?_, he, hed⟩
            rw [hp, ← hpr]; simp [print]
        · simp only [hmo, if_false] at h
          have : (lhs, Tok.op o :: r') = (e, r) := by simpa using h
          obtain ⟨rfl, rfl⟩ := Prod.mk.inj this
          refine ⟨hwl, rfl, hent, ?_⟩
          intro o2 r2 hr2
          have : o2 = o := by cases hr2; rfl
          subst this
          exact ⟨by omega, horl⟩
      · have : onOp ts (fun o r =>
            if m ≤ o.prec then
              if o.assoc = .non ∧ o.prec = prev then none
              else andThen (parseExpr f o.rmin o.queryLevel r) fun rhs r' => climb f m (.bin o lhs rhs) o.prec r'
            else some (lhs, ts)) (some (lhs, ts)) = some (lhs, ts) := by
          cases ts with
          | nil => rfl
          | cons a b => cases a <;> first | (exfalso; exact hop ⟨_, _, rfl⟩) | rfl
        rw [this] at h
        have : (lhs, ts) = (e, r) := by simpa using h
        obtain ⟨rfl, rfl⟩ := Prod.mk.inj this
        refine ⟨hpre.1, rfl, hent, ?_⟩
        intro o2 r2 hr2
        exact absurd ⟨o2, r2, hr2⟩ hop
    exact ⟨hT, hO, hX, hC⟩

/-- everything the parser accepts is well formed, and printing it gives the input back -/
theorem parse_sound (ts : List Tok) (e : E) (h : parse ts = some e) : wf e = true ∧ print e = ts := by
  unfold parse parseFuel at h
  split at h
  · rename_i e' heq
    have : e' = e := by simpa using h
    subst this
    obtain ⟨hw, hp, _, _⟩ := (inv_all _).2.2.1 1 true ts e' [] (by omega) (by omega) heq
    exact ⟨hw, by simpa using hp⟩
  · simp at h

/-- ⇒ for every token sequence the parser accepts, printing the tree and parsing again yields the same tree -/
theorem parse_print_parse (ts : List Tok) (e : E) (h : parse ts = some e) : parse (print e) = some e :=
  print_parse e (parse_sound ts e h).1

end Proofs.C11.Print
