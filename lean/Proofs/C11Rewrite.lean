import FqModel.Query
/-! C11 — lemmas about the rewrite model (FqModel/Query.lean). Core Lean only. -/
namespace Proofs.C11
open FqModel.C11 FqModel.C11.JV

/-! ### assoc-list lemmas -/

theorem getKV_setKV_same (k : String) (v : JV) (kvs : List (String × JV)) :
    getKV k (setKV k v kvs) = v := by
  induction kvs with
  | nil => simp [setKV, getKV]
  | cons kv rest ih =>
    obtain ⟨l, w⟩ := kv
    simp only [setKV]
    split
    · simp [getKV]
    · split
      · simp [getKV]
      · rename_i h _
        simp [getKV, h, ih]

theorem getKV_setKV_other (k k' : String) (v : JV) (kvs : List (String × JV)) (h : k' ≠ k) :
    getKV k' (setKV k v kvs) = getKV k' kvs := by
  induction kvs with
  | nil => simp [setKV, getKV, Ne.symm h]
  | cons kv rest ih =>
    obtain ⟨l, w⟩ := kv
    simp only [setKV]
    split
    · rename_i hl
      have : l = k := by simpa using hl
      subst this
      simp [getKV, Ne.symm h]
    · split
      · simp [getKV, Ne.symm h]
      · simp [getKV, ih]

theorem delKV_setKV_same (k : String) (v : JV) (kvs : List (String × JV)) :
    delKV k (setKV k v kvs) = delKV k kvs := by
  induction kvs with
  | nil => simp [setKV, delKV]
  | cons kv rest ih =>
    obtain ⟨l, w⟩ := kv
    simp only [setKV]
    split
    · rename_i hl
      simp [delKV, hl]
    · rename_i hl
      split
      · simp [delKV, hl]
      · simp [delKV, hl, ih]

/-- non-slurp shape of the rewrite -/
def rewriteNoSlurp (opts q : JV) : JV :=
  let q3 := wrapInput opts (wrapCatch opts q)
  if (opts.get "output_query").truthy then queryPipe q3 (opts.get "output_query") else q3

theorem rewriteBody_noslurp (opts q : JV) (h : (slurpOf opts q).truthy = false) :
    rewriteBody opts q = rewriteNoSlurp opts q := by
  simp [rewriteBody, rewriteNoSlurp, h]

theorem sub_trans {x y z : JV} (h1 : Sub x y) (h2 : Sub y z) : Sub x z := by
  induction h2 with
  | refl => exact h1
  | arr hm _ ih => exact Sub.arr hm ih
  | obj hm _ ih => exact Sub.obj hm ih

theorem sub_pipe_left (x l r : JV) (h : Sub x l) : Sub x (queryPipe l r) :=
  Sub.obj (k := "left") (by simp [queryPipe]) h
theorem sub_pipe_right (x l r : JV) (h : Sub x r) : Sub x (queryPipe l r) :=
  Sub.obj (k := "right") (by simp [queryPipe]) h
theorem sub_try_body (x b c : JV) (h : Sub x b) : Sub x (queryTry b c) :=
  Sub.obj (k := "term") (y := .obj [("try", .obj [("body", b), ("catch", c)]), ("type", .str "TermTypeTry")]) (by simp [queryTry])
    (Sub.obj (k := "try") (y := .obj [("body", b), ("catch", c)]) (by simp) (Sub.obj (k := "body") (by simp) h))

theorem wrapCatch_eq (opts q : JV) (hc : (opts.get "catch_query").truthy = true) :
    wrapCatch opts q = queryTry (queryQuery (if hasMain q then q else q.merge queryIdent)) (opts.get "catch_query") := by
  simp only [wrapCatch, hc, if_true, hasMain]
  by_cases h : ((q.get "term").truthy || (q.get "op").truthy) = true
  · simp [h]
  · simp [h]

theorem keeps_noslurp (opts q : JV) (hc : (opts.get "catch_query").truthy = true) :
    Sub (queryQuery (if hasMain q then q else q.merge queryIdent)) (rewriteNoSlurp opts q) := by
  generalize hqq : (if hasMain q then q else q.merge queryIdent) = qq
  have h2 : Sub (queryQuery qq) (wrapCatch opts q) := by
    rw [wrapCatch_eq opts q hc, hqq]
    exact sub_try_body _ _ _ (Sub.refl _)
  have h3 : Sub (queryQuery qq) (wrapInput opts (wrapCatch opts q)) := by
    unfold wrapInput
    cases (opts.get "input_query").truthy
    · simpa using h2
    · simpa using sub_pipe_right _ _ _ h2
  unfold rewriteNoSlurp
  cases (opts.get "output_query").truthy
  · simpa using h3
  · simpa using sub_pipe_left _ _ _ h3


/-! ### binders -/

theorem binders_pipe (l r : JV) : binders (queryPipe l r) = binders l ++ binders r := by
  simp [queryPipe, binders, bindersKV]

theorem binders_try_query (q c : JV) : binders (queryTry (queryQuery q) c) = binders q ++ binders c := by
  simp [queryTry, queryQuery, binders, bindersKV]

theorem binders_ident : binders queryIdent = [] := by
  simp [queryIdent, binders, bindersKV]

/-- setting a member that is not a binder key to a binder-free value, over a binder-free old value -/
theorem bindersKV_setKV_term (v : JV) (kvs : List (String × JV))
    (hv : binders v = []) (hold : binders (getKV "term" kvs) = []) :
    bindersKV (setKV "term" v kvs) = bindersKV kvs := by
  induction kvs with
  | nil => simp [setKV, bindersKV, hv]
  | cons kv rest ih =>
    obtain ⟨l, w⟩ := kv
    by_cases hl : l = "term"
    · subst hl
      have : binders w = [] := by simpa [getKV] using hold
      simp [setKV, bindersKV, hv, this]
    · have h1 : (l == "term") = false := by simpa using hl
      have hold' : binders (getKV "term" rest) = [] := by simpa [getKV, h1] using hold
      by_cases hlt : "term" < l
      · simp [setKV, h1, hlt, bindersKV, hv]
      · simp [setKV, h1, hlt, bindersKV, ih hold']

theorem binders_of_falsy (v : JV) (h : v.truthy = false) : binders v = [] := by
  cases v <;> simp_all [truthy, binders]
  
theorem binders_merge_ident (kvs : List (String × JV)) (h : hasMain (.obj kvs) = false) :
    binders ((JV.obj kvs).merge queryIdent) = binders (.obj kvs) := by
  have ht : (getKV "term" kvs).truthy = false := by
    simp [hasMain, JV.get] at h
    exact h.1
  simp only [JV.merge, queryIdent, List.foldl, JV.set, binders]
  apply bindersKV_setKV_term
  · simp [binders, bindersKV]
  · exact binders_of_falsy _ ht

theorem binders_noslurp (opts : JV) (kvs : List (String × JV))
    (hi : binders (opts.get "input_query") = []) (hc : binders (opts.get "catch_query") = [])
    (ho : binders (opts.get "output_query") = []) :
    binders (rewriteNoSlurp opts (.obj kvs)) = binders (.obj kvs) := by
  have hq : binders (if hasMain (.obj kvs) then JV.obj kvs else (JV.obj kvs).merge queryIdent) = binders (.obj kvs) := by
    by_cases hm : hasMain (.obj kvs) = true
    · simp [hm]
    · have hm' : hasMain (.obj kvs) = false := by simpa using hm
      simp [hm', binders_merge_ident kvs hm']
  have h2 : binders (wrapCatch opts (.obj kvs)) = binders (.obj kvs) := by
    by_cases hcq : (opts.get "catch_query").truthy = true
    · rw [wrapCatch_eq _ _ hcq, binders_try_query, hq, hc]; simp
    · simp [wrapCatch, hcq]
  have h3 : binders (wrapInput opts (wrapCatch opts (.obj kvs))) = binders (.obj kvs) := by
    unfold wrapInput
    by_cases hiq : (opts.get "input_query").truthy = true
    · simp [hiq, binders_pipe, hi, h2]
    · simp [hiq, h2]
  unfold rewriteNoSlurp
  by_cases hoq : (opts.get "output_query").truthy = true
  · simp [hoq, binders_pipe, ho, h3]
  · simp [hoq, h3]


/-! ### identifiers -/

theorem funcNames_pipe (l r : JV) : funcNames (queryPipe l r) = funcNames l ++ funcNames r := by
  simp [queryPipe, funcNames, funcNamesKV]

theorem funcNames_try_query (q c : JV) : funcNames (queryTry (queryQuery q) c) = funcNames q ++ funcNames c := by
  simp [queryTry, queryQuery, funcNames, funcNamesKV]

theorem funcNamesKV_setKV_term (v : JV) (kvs : List (String × JV))
    (hv : funcNames v = []) (hold : funcNames (getKV "term" kvs) = []) :
    funcNamesKV (setKV "term" v kvs) = funcNamesKV kvs := by
  induction kvs with
  | nil => simp [setKV, funcNamesKV, hv]
  | cons kv rest ih =>
    obtain ⟨l, w⟩ := kv
    by_cases hl : l = "term"
    · subst hl
      have : funcNames w = [] := by simpa [getKV] using hold
      simp [setKV, funcNamesKV, hv, this]
    · have h1 : (l == "term") = false := by simpa using hl
      have hold' : funcNames (getKV "term" rest) = [] := by simpa [getKV, h1] using hold
      by_cases hlt : "term" < l
      · simp [setKV, h1, hlt, funcNamesKV, hv]
      · simp [setKV, h1, hlt, funcNamesKV, ih hold']

theorem funcNames_of_falsy (v : JV) (h : v.truthy = false) : funcNames v = [] := by
  cases v <;> simp_all [truthy, funcNames]

theorem funcNames_merge_ident (kvs : List (String × JV)) (h : hasMain (.obj kvs) = false) :
    funcNames ((JV.obj kvs).merge queryIdent) = funcNames (.obj kvs) := by
  have ht : (getKV "term" kvs).truthy = false := by
    simp [hasMain, JV.get] at h
    exact h.1
  simp only [JV.merge, queryIdent, List.foldl, JV.set, funcNames]
  apply funcNamesKV_setKV_term
  · simp [funcNames, funcNamesKV]
  · exact funcNames_of_falsy _ ht

theorem funcNames_noslurp (opts : JV) (kvs : List (String × JV)) (n : String)
    (hn : n ∈ funcNames (rewriteNoSlurp opts (.obj kvs))) :
    n ∈ funcNames (.obj kvs) ∨ n ∈ funcNames (opts.get "input_query") ∨ n ∈ funcNames (opts.get "catch_query")
      ∨ n ∈ funcNames (opts.get "output_query") := by
  have hq : funcNames (if hasMain (.obj kvs) then JV.obj kvs else (JV.obj kvs).merge queryIdent) = funcNames (.obj kvs) := by
    by_cases hm : hasMain (.obj kvs) = true
    · simp [hm]
    · have hm' : hasMain (.obj kvs) = false := by simpa using hm
      simp [hm', funcNames_merge_ident kvs hm']
  have h2 : ∀ n, n ∈ funcNames (wrapCatch opts (.obj kvs)) → n ∈ funcNames (.obj kvs) ∨ n ∈ funcNames (opts.get "catch_query") := by
    intro n hn
    by_cases hcq : (opts.get "catch_query").truthy = true
    · rw [wrapCatch_eq _ _ hcq, funcNames_try_query, hq] at hn
      simpa using hn
    · simp [wrapCatch, hcq] at hn
      exact Or.inl hn
  have h3 : ∀ n, n ∈ funcNames (wrapInput opts (wrapCatch opts (.obj kvs))) →
      n ∈ funcNames (.obj kvs) ∨ n ∈ funcNames (opts.get "input_query") ∨ n ∈ funcNames (opts.get "catch_query") := by
    intro n hn
    unfold wrapInput at hn
    by_cases hiq : (opts.get "input_query").truthy = true
    · simp [hiq, funcNames_pipe] at hn
      rcases hn with hn | hn
      · exact Or.inr (Or.inl hn)
      · rcases h2 n hn with h | h
        · exact Or.inl h
        · exact Or.inr (Or.inr h)
    · simp [hiq] at hn
      rcases h2 n hn with h | h
      · exact Or.inl h
      · exact Or.inr (Or.inr h)
  unfold rewriteNoSlurp at hn
  by_cases hoq : (opts.get "output_query").truthy = true
  · simp [hoq, funcNames_pipe] at hn
    rcases hn with hn | hn
    · rcases h3 n hn with h | h | h
      · exact Or.inl h
      · exact Or.inr (Or.inl h)
      · exact Or.inr (Or.inr (Or.inl h))
    · exact Or.inr (Or.inr (Or.inr hn))
  · simp [hoq] at hn
    rcases h3 n hn with h | h | h
    · exact Or.inl h
    · exact Or.inr (Or.inl h)
    · exact Or.inr (Or.inr (Or.inl h))

/-! ### directives -/

theorem get_set_same (kvs : List (String × JV)) (k : String) (v : JV) : ((JV.obj kvs).set k v).get k = v := by
  simp [JV.set, JV.get, getKV_setKV_same]

theorem get_set_other (kvs : List (String × JV)) (k k' : String) (v : JV) (h : k' ≠ k) :
    ((JV.obj kvs).set k v).get k' = (JV.obj kvs).get k' := by
  simp [JV.set, JV.get, getKV_setKV_other _ _ _ _ h]

theorem rewriteNoSlurp_isObj (opts : JV) (kvs : List (String × JV)) : ∃ kvs', rewriteNoSlurp opts (.obj kvs) = .obj kvs' := by
  unfold rewriteNoSlurp wrapInput wrapCatch
  by_cases ho : (opts.get "output_query").truthy = true <;> by_cases hi : (opts.get "input_query").truthy = true <;>
    by_cases hc : (opts.get "catch_query").truthy = true <;> simp [ho, hi, hc, queryPipe, queryTry]

theorem rewriteBody_isObj (opts : JV) (kvs : List (String × JV)) : ∃ kvs', rewriteBody opts (.obj kvs) = .obj kvs' := by
  by_cases hs : (slurpOf opts (.obj kvs)).truthy = true
  · simp [rewriteBody, hs, queryFunc]
  · have hs' : (slurpOf opts (.obj kvs)).truthy = false := by simpa using hs
    rw [rewriteBody_noslurp _ _ hs']
    exact rewriteNoSlurp_isObj opts kvs

theorem del_isObj (kvs : List (String × JV)) (k : String) : (JV.obj kvs).del k = .obj (delKV k kvs) := rfl

theorem directives (opts : JV) (kvs : List (String × JV)) :
    (rewrite opts (.obj kvs)).get "meta" = (JV.obj kvs).get "meta" ∧
    (rewrite opts (.obj kvs)).get "imports" = (JV.obj kvs).get "imports" ∧
    ∀ k, k ≠ "meta" → k ≠ "imports" →
      (rewrite opts (.obj kvs)).get k = (rewriteBody opts (((JV.obj kvs).del "meta").del "imports")).get k := by
  unfold rewrite
  simp only [del_isObj]
  obtain ⟨r, hr⟩ := rewriteBody_isObj opts (delKV "imports" (delKV "meta" kvs))
  rw [hr]
  refine ⟨?_, ?_, ?_⟩
  · have : (JV.obj r).set "meta" ((JV.obj kvs).get "meta") = .obj (setKV "meta" ((JV.obj kvs).get "meta") r) := rfl
    rw [this, get_set_other _ _ _ _ (by decide), ← this, get_set_same]
  · have : (JV.obj r).set "meta" ((JV.obj kvs).get "meta") = .obj (setKV "meta" ((JV.obj kvs).get "meta") r) := rfl
    rw [this, get_set_same]
  · intro k h1 h2
    have : (JV.obj r).set "meta" ((JV.obj kvs).get "meta") = .obj (setKV "meta" ((JV.obj kvs).get "meta") r) := rfl
    rw [this, get_set_other _ _ _ _ h2, ← this, get_set_other _ _ _ _ h1]


/-! ### typed view -/

theorem toJson_truthy (q : Q) : q.toJson.truthy = true := by
  cases q with
  | lit v =>
    cases v with
    | bool b => cases b <;> simp [Q.toJson, toquery, truthy]
    | arr xs => cases xs <;> simp [Q.toJson, toquery, truthy]
    | obj kvs => cases kvs <;> simp [Q.toJson, toquery, truthy]
    | num n => simp only [Q.toJson, toquery]; split <;> simp [truthy]
    | _ => simp [Q.toJson, toquery, truthy]
  | array q => simp only [Q.toJson, queryArray]; split <;> simp [truthy, setIn, JV.set]
  | _ => simp [Q.toJson, truthy, queryIdent, queryNull, queryIter, queryFunc0, queryFunc, queryPipe, queryComma,
      queryTry, queryQuery, setIn, JV.set, JV.get]

theorem optJ_truthy (o : Option Q) : (optJ o).truthy = o.isSome := by
  cases o with
  | none => simp [optJ, truthy]
  | some q => simp [optJ, toJson_truthy]

/-- for a query with a main expression the typed rewrite and the JSON rewrite agree (no slurp) -/
theorem truthy_null : JV.null.truthy = false := rfl

theorem rewrite_typed (opts : JV) (o : WOpts) (kvs : List (String × JV))
    (hi : opts.get "input_query" = optJ o.input) (hc : opts.get "catch_query" = optJ o.catch_)
    (ho : opts.get "output_query" = optJ o.output) (hm : hasMain (.obj kvs) = true) :
    rewriteNoSlurp opts (.obj kvs) = (rewriteQ o (.user kvs)).toJson := by
  obtain ⟨i, c, out⟩ := o
  simp only at hi hc ho
  have hmq : (if hasMain (.obj kvs) then JV.obj kvs else (JV.obj kvs).merge queryIdent) = .obj kvs := by simp [hm]
  unfold rewriteNoSlurp wrapInput
  cases c with
  | none =>
    have hcw : wrapCatch opts (.obj kvs) = .obj kvs := by simp [wrapCatch, hc, optJ, truthy]
    rw [hcw, hi, ho]
    cases i <;> cases out <;> simp [optJ, truthy_null, toJson_truthy, rewriteQ, Q.toJson]
  | some c =>
    have hct : (opts.get "catch_query").truthy = true := by rw [hc]; simp [optJ, toJson_truthy]
    rw [wrapCatch_eq _ _ hct, hmq, hi, ho, hc]
    cases i <;> cases out <;> simp [optJ, truthy_null, toJson_truthy, rewriteQ, Q.toJson]

/-- meaning of the typed rewrite: `(input | try (q) catch c) | output` with the absent parts left out -/
theorem rewriteQ_sem (ρ : Env) (o : WOpts) (q : Q) :
    (rewriteQ o q).sem ρ =
      optPipeR (optPipeL (o.input.map (Q.sem ρ)) (optTry (q.sem ρ) (o.catch_.map (Q.sem ρ)))) (o.output.map (Q.sem ρ)) := by
  obtain ⟨i, c, out⟩ := o
  cases i <;> cases c <;> cases out <;> simp [rewriteQ, Q.sem, optPipeL, optPipeR, optTry]

/-! ### `|` is associative: printing the left-nested chain flat and parsing it right-nested keeps the meaning -/

theorem bindList_append (f : Den) (e : Option JV) (xs ys : List JV) :
    Res.bindList f e (xs ++ ys) =
      (let a := Res.bindList f none xs
       match a.err with
       | some er => ⟨a.outs, some er⟩
       | none => let b := Res.bindList f e ys; ⟨a.outs ++ b.outs, b.err⟩) := by
  induction xs with
  | nil => simp [Res.bindList]
  | cons x rest ih =>
    simp only [List.cons_append, Res.bindList]
    cases hfx : (f x).err with
    | some er => simp
    | none =>
      simp only [ih]
      cases hr : (Res.bindList f none rest).err with
      | some er => simp
      | none => simp [List.append_assoc]

theorem bindList_err_some (g : Den) (er : JV) (ys : List JV) : (Res.bindList g (some er) ys).err ≠ none := by
  induction ys with
  | nil => simp [Res.bindList]
  | cons y ys ihy =>
    simp only [Res.bindList]
    cases (g y).err <;> simp [ihy]

theorem bind_assoc (r : Res) (f g : Den) : (r.bind f).bind g = r.bind (fun v => (f v).bind g) := by
  obtain ⟨outs, err⟩ := r
  simp only [Res.bind]
  induction outs with
  | nil => simp [Res.bindList]
  | cons x rest ih =>
    simp only [Res.bindList]
    cases hfx : (f x).err with
    | some er =>
      simp only
      generalize ha : Res.bindList g (some er) (f x).outs = a
      have hne := bindList_err_some g er (f x).outs
      rw [ha] at hne
      obtain ⟨ao, ae⟩ := a
      cases ae with
      | none => exact absurd rfl hne
      | some e2 => simp
    | none =>
      simp only
      rw [bindList_append]
      simp only
      cases hg : (Res.bindList g none (f x).outs).err with
      | some e2 => simp
      | none =>
        simp only
        rw [ih]

theorem semPipe_assoc (a b c : Den) : semPipe (semPipe a b) c = semPipe a (semPipe b c) := by
  funext v
  simp only [semPipe]
  exact bind_assoc (a v) b c

end Proofs.C11
