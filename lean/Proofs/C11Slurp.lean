import Proofs.C11Rewrite
/-! C11 — slurp mode: literals (`_query_toquery`) and the slurp call. Core Lean only. -/
namespace Proofs.C11
open FqModel.C11 FqModel.C11.JV

/-! ### literals (`_query_toquery`) contain neither binders nor identifiers -/

theorem binders_comma (l r : JV) : binders (queryComma l r) = binders l ++ binders r := by
  simp [queryComma, binders, bindersKV]

theorem binders_strNode (s : String) : binders (strNode s) = [] := by
  unfold strNode; split <;> simp [binders, bindersKV]

mutual
  theorem binders_toquery : ∀ x : JV, binders (toquery x) = []
    | .null => by simp [toquery, binders, bindersKV]
    | .bool true => by simp [toquery, binders, bindersKV]
    | .bool false => by simp [toquery, binders, bindersKV]
    | .num n => by simp only [toquery]; split <;> simp [binders, bindersKV]
    | .str s => by simp [toquery, binders, bindersKV, binders_strNode]
    | .arr [] => by simp [toquery, binders, bindersKV]
    | .arr (x :: xs) => by
      have h := binders_toqueryCommas (toquery x) xs (binders_toquery x)
      simp [toquery, binders, bindersKV, h]
    | .obj [] => by simp [toquery, binders, bindersKV]
    | .obj (kv :: kvs) => by
      have h := binders_toqueryKV (kv :: kvs)
      simp [toquery, binders, bindersKV, h]
  theorem binders_toqueryCommas : ∀ (acc : JV) (xs : List JV), binders acc = [] → binders (toqueryCommas acc xs) = []
    | _, [], h => by simpa [toqueryCommas] using h
    | acc, x :: xs, h => by
      simp only [toqueryCommas]
      apply binders_toqueryCommas
      simp [binders_comma, h, binders_toquery x]
  theorem binders_toqueryKV : ∀ kvs : List (String × JV), bindersL (toqueryKV kvs) = []
    | [] => by simp [toqueryKV, bindersL]
    | (k, v) :: rest => by
      simp [toqueryKV, bindersL, binders, bindersKV, binders_strNode, binders_toquery v, binders_toqueryKV rest]
end


theorem funcNames_comma (l r : JV) : funcNames (queryComma l r) = funcNames l ++ funcNames r := by
  simp [queryComma, funcNames, funcNamesKV]

theorem funcNames_strNode (s : String) : funcNames (strNode s) = [] := by
  unfold strNode; split <;> simp [funcNames, funcNamesKV]

mutual
  theorem funcNames_toquery : ∀ x : JV, funcNames (toquery x) = []
    | .null => by simp [toquery, funcNames, funcNamesKV]
    | .bool true => by simp [toquery, funcNames, funcNamesKV]
    | .bool false => by simp [toquery, funcNames, funcNamesKV]
    | .num n => by simp only [toquery]; split <;> simp [funcNames, funcNamesKV]
    | .str s => by simp [toquery, funcNames, funcNamesKV, funcNames_strNode]
    | .arr [] => by simp [toquery, funcNames, funcNamesKV]
    | .arr (x :: xs) => by
      have h := funcNames_toqueryCommas (toquery x) xs (funcNames_toquery x)
      simp [toquery, funcNames, funcNamesKV, h]
    | .obj [] => by simp [toquery, funcNames, funcNamesKV]
    | .obj (kv :: kvs) => by
      have h := funcNames_toqueryKV (kv :: kvs)
      simp [toquery, funcNames, funcNamesKV, h]
  theorem funcNames_toqueryCommas : ∀ (acc : JV) (xs : List JV), funcNames acc = [] → funcNames (toqueryCommas acc xs) = []
    | _, [], h => by simpa [toqueryCommas] using h
    | acc, x :: xs, h => by
      simp only [toqueryCommas]
      apply funcNames_toqueryCommas
      simp [funcNames_comma, h, funcNames_toquery x]
  theorem funcNames_toqueryKV : ∀ kvs : List (String × JV), funcNamesL (toqueryKV kvs) = []
    | [] => by simp [toqueryKV, funcNamesL]
    | (k, v) :: rest => by
      simp [toqueryKV, funcNamesL, funcNames, funcNamesKV, funcNames_strNode, funcNames_toquery v, funcNames_toqueryKV rest]
end

/-! ### slurp mode: the user's program is passed as DATA (literals) to the slurp function -/

theorem binders_foldl_comma (xs : List JV) (acc : JV) (ha : binders acc = []) (hx : ∀ x ∈ xs, binders x = []) :
    binders (xs.foldl queryComma acc) = [] := by
  induction xs generalizing acc with
  | nil => simpa using ha
  | cons x rest ih =>
    simp only [List.foldl]
    apply ih
    · simp [binders_comma, ha, hx x (by simp)]
    · intro y hy; exact hx y (by simp [hy])

theorem binders_queryCommas_toquery (as : List JV) : binders (queryCommas (as.map toquery)) = [] := by
  cases as with
  | nil => simp [queryCommas, queryEmpty, queryFunc0, queryFunc, binders, bindersKV]
  | cons a rest =>
    simp only [List.map, queryCommas]
    apply binders_foldl_comma
    · exact binders_toquery a
    · intro x hx
      obtain ⟨y, _, rfl⟩ := List.mem_map.mp hx
      exact binders_toquery y

theorem binders_queryArray (q : JV) (h : binders q = []) : binders (queryArray q) = [] := by
  unfold queryArray
  split
  · simp [setIn, JV.set, JV.get, getKV, setKV, binders, bindersKV, h]
  · simp [binders, bindersKV]

theorem binders_slurpArgsQ (args : JV) : binders (slurpArgsQ args) = [] := by
  unfold slurpArgsQ
  split
  · split
    · exact binders_queryArray _ (binders_queryCommas_toquery _)
    · simp [binders]
  · exact binders_queryArray _ (by simp [binders])

theorem slurp_binders (opts q : JV) (s : String) (hs : slurpOf opts q = .str s) :
    binders (rewriteBody opts q) = [] := by
  have hn : ∃ n, (lastFunc q).1 = .str n := by
    unfold slurpOf at hs
    split at hs
    · rename_i n hn; exact ⟨n, hn⟩
    · simp at hs
  obtain ⟨n, hn⟩ := hn
  simp only [rewriteBody, hs, truthy, if_true, hn]
  simp [queryFunc, slurpArg, queryObject, queryString, binders, bindersKV, bindersL, binders_toquery, binders_slurpArgsQ]


theorem funcNames_foldl_comma (xs : List JV) (acc : JV) (ha : funcNames acc = []) (hx : ∀ x ∈ xs, funcNames x = []) :
    funcNames (xs.foldl queryComma acc) = [] := by
  induction xs generalizing acc with
  | nil => simpa using ha
  | cons x rest ih =>
    simp only [List.foldl]
    apply ih
    · simp [funcNames_comma, ha, hx x (by simp)]
    · intro y hy; exact hx y (by simp [hy])

theorem funcNames_queryCommas_toquery (as : List JV) :
    ∀ n ∈ funcNames (queryCommas (as.map toquery)), n = "empty" := by
  cases as with
  | nil => simp [queryCommas, queryEmpty, queryFunc0, queryFunc, funcNames, funcNamesKV, JV.get, getKV]
  | cons a rest =>
    simp only [List.map, queryCommas]
    rw [funcNames_foldl_comma]
    · simp
    · exact funcNames_toquery a
    · intro x hx
      obtain ⟨y, _, rfl⟩ := List.mem_map.mp hx
      exact funcNames_toquery y

theorem funcNames_queryArray (q : JV) : funcNames (queryArray q) = if q.truthy then funcNames q else [] := by
  unfold queryArray
  split
  · simp [setIn, JV.set, JV.get, getKV, setKV, funcNames, funcNamesKV]
  · simp [funcNames, funcNamesKV]

theorem funcNames_slurpArgsQ (args : JV) : ∀ n ∈ funcNames (slurpArgsQ args), n = "empty" := by
  unfold slurpArgsQ
  split
  · split
    · rw [funcNames_queryArray]
      split
      · exact funcNames_queryCommas_toquery _
      · simp
    · simp [funcNames]
  · rw [funcNames_queryArray]; simp [truthy]

theorem slurp_names (opts q : JV) (s : String) (hs : slurpOf opts q = .str s) :
    ∀ n ∈ funcNames (rewriteBody opts q), n = s ∨ n = "empty" := by
  have hn : ∃ n, (lastFunc q).1 = .str n := by
    unfold slurpOf at hs
    split at hs
    · rename_i n hn; exact ⟨n, hn⟩
    · simp at hs
  obtain ⟨n, hn⟩ := hn
  simp only [rewriteBody, hs, truthy, if_true, hn]
  intro m hm
  simp [queryFunc, slurpArg, queryObject, queryString, funcNames, funcNamesKV, funcNamesL, funcNames_toquery, JV.get, getKV] at hm
  rcases hm with hm | hm
  · exact Or.inl hm
  · exact Or.inr (funcNames_slurpArgsQ _ m hm)

/-- in slurp mode the call's argument object holds the literal of the user's query (`orig`) and the literal of the
    wrapped query (`rewrite`) -/
theorem slurp_keeps (opts q : JV) (s : String) (hs : slurpOf opts q = .str s) :
    Sub (toquery q) (rewriteBody opts q) ∧
    Sub (toquery (wrapInput opts (wrapCatch opts (transformPipeLast (fun _ => queryIdent) (fuelOf q) q)))) (rewriteBody opts q) := by
  have hn : ∃ n, (lastFunc q).1 = .str n := by
    unfold slurpOf at hs
    split at hs
    · rename_i n hn; exact ⟨n, hn⟩
    · simp at hs
  obtain ⟨n, hn⟩ := hn
  simp only [rewriteBody, hs, truthy, if_true, hn]
  constructor
  · refine Sub.obj (k := "term") (by simp [queryFunc]; rfl) ?_
    refine Sub.obj (k := "func") (by simp; rfl) ?_
    refine Sub.obj (k := "args") (by simp; rfl) ?_
    refine Sub.arr (List.mem_singleton.mpr rfl) ?_
    simp only [slurpArg, queryObject, List.map]
    refine Sub.obj (k := "term") (by simp; rfl) ?_
    refine Sub.obj (k := "object") (by simp; rfl) ?_
    refine Sub.obj (k := "key_vals") (by simp; rfl) ?_
    refine Sub.arr (y := .obj [("key", .str "orig"), ("val", toquery q)]) (by simp) ?_
    exact Sub.obj (k := "val") (by simp) (Sub.refl _)
  · refine Sub.obj (k := "term") (by simp [queryFunc]; rfl) ?_
    refine Sub.obj (k := "func") (by simp; rfl) ?_
    refine Sub.obj (k := "args") (by simp; rfl) ?_
    refine Sub.arr (List.mem_singleton.mpr rfl) ?_
    simp only [slurpArg, queryObject, List.map]
    refine Sub.obj (k := "term") (by simp; rfl) ?_
    refine Sub.obj (k := "object") (by simp; rfl) ?_
    refine Sub.obj (k := "key_vals") (by simp; rfl) ?_
    refine Sub.arr (y := .obj [("key", .str "rewrite"),
      ("val", toquery (wrapInput opts (wrapCatch opts (transformPipeLast (fun _ => queryIdent) (fuelOf q) q))))]) (by simp) ?_
    exact Sub.obj (k := "val") (by simp) (Sub.refl _)

end Proofs.C11
