import Proofs.C11Rewrite
/-! C11 — slurp mode: literals (`_query_toquery`) and the slurp call. Core Lean only. -/
namespace Proofs.C11
open FqModel.C11 FqModel.C11.JV

/-! ### literals (`_query_toquery`) contain neither binders nor identifiers -/

theorem binders_comma (l r : JV) : binders (queryComma l r) = binders l ++ binders r := by
  simp [queryComma, binders, bindersKV]

theorem binders_strNode (s : String) : binders (strNode s) = [] := by
  unfold strNode; split <;> simp [binders, bindersKV]

mutual
  theorem binders_toquery : ∀ x : JV, binders (toquery x) = []
    | .null => by simp [toquery, binders, bindersKV]
    | .bool true => by simp [toquery, binders, bindersKV]
    | .bool false => by simp [toquery, binders, bindersKV]
    | .num n => by simp only [toquery]; split <;> simp [binders, bindersKV]
    | .str s => by simp [toquery, binders, bindersKV, binders_strNode]
    | .arr [] => by simp [toquery, binders, bindersKV]
    | .arr (x :: xs) => by
      have h := binders_toqueryCommas (toquery x) xs (binders_toquery x)
      simp [toquery, binders, bindersKV, h]
    | .obj [] => by simp [toquery, binders, bindersKV]
    | .obj (kv :: kvs) => by
      have h := binders_toqueryKV (kv :: kvs)
      simp [toquery, binders, bindersKV, h]
  theorem binders_toqueryCommas : ∀ (acc : JV) (xs : List JV), binders acc = [] → binders (toqueryCommas acc xs) = []
    | _, [], h => by simpa [toqueryCommas] using h
    | acc, x :: xs, h => by
      simp only [toqueryCommas]
      apply binders_toqueryCommas
      simp [binders_comma, h, binders_toquery x]
  theorem binders_toqueryKV : ∀ kvs : List (String × JV), bindersL (toqueryKV kvs) = []
    | [] => by simp [toqueryKV, bindersL]
    | (k, v) :: rest => by
      simp [toqueryKV, bindersL, binders, bindersKV, binders_strNode, binders_toquery v, binders_toqueryKV rest]
end


theorem funcNames_comma (l r : JV) : funcNames (queryComma l r) = funcNames l ++ funcNames r := by
  simp [queryComma, funcNames, funcNamesKV]

theorem funcNames_strNode (s : String) : funcNames (strNode s) = [] := by
  unfold strNode; split <;> simp [funcNames, funcNamesKV]

mutual
  theorem funcNames_toquery : ∀ x : JV, funcNames (toquery x) = []
    | .null => by simp [toquery, funcNames, funcNamesKV]
    | .bool true => by simp [toquery, funcNames, funcNamesKV]
    | .bool false => by simp [toquery, funcNames, funcNamesKV]
    | .num n => by simp only [toquery]; split <;> simp [funcNames, funcNamesKV]
    | .str s => by simp [toquery, funcNames, funcNamesKV, funcNames_strNode]
    | .arr [] => by simp [toquery, funcNames, funcNamesKV]
    | .arr (x :: xs) => by
      have h := funcNames_toqueryCommas (toquery x) xs (funcNames_toquery x)
      simp [toquery, funcNames, funcNamesKV, h]
    | .obj [] => by simp [toquery, funcNames, funcNamesKV]
    | .obj (kv :: kvs) => by
      have h := funcNames_toqueryKV (kv :: kvs)
      simp [toquery, funcNames, funcNamesKV, h]
  theorem funcNames_toqueryCommas : ∀ (acc : JV) (xs : List JV), funcNames acc = [] → funcNames (toqueryCommas acc xs) = []
    | _, [], h => by simpa [toqueryCommas] using h
    | acc, x :: xs, h => by
      simp only [toqueryCommas]
      apply funcNames_toqueryCommas
      simp [funcNames_comma, h, funcNames_toquery x]
  theorem funcNames_toqueryKV : ∀ kvs : List (String × JV), funcNamesL (toqueryKV kvs) = []
    | [] => by simp [toqueryKV, funcNamesL]
    | (k, v) :: rest => by
      simp [toqueryKV, funcNamesL, funcNames, funcNamesKV, funcNames_strNode, funcNames_toquery v, funcNames_toqueryKV rest]
end

/-! ### slurp mode: the user's program is passed as DATA (literals) to the slurp function -/

theorem binders_foldl_comma (xs : List JV) (acc : JV) (ha : binders acc = []) (hx : ∀ x ∈ xs, binders x = []) :
    binders (xs.foldl queryComma acc) = [] := by
  induction xs generalizing acc with
  | nil => simpa using ha
  | cons x rest ih =>
    simp only [List.foldl]
    apply ih
    · simp [binders_comma, ha, hx x (by simp)]
    · intro y hy; exact hx y (by simp [hy])

theorem binders_queryCommas_toquery (as : List JV) : binders (queryCommas (as.map toquery)) = [] := by
  cases as with
  | nil => simp [queryCommas, queryEmpty, queryFunc0, queryFunc, binders, bindersKV]
  | cons a rest =>
    simp only [List.map, queryCommas]
    apply binders_foldl_comma
    · exact binders_toquery a
    · intro x hx
      obtain ⟨y, _, rfl⟩ := List.mem_map.mp hx
      exact binders_toquery y

theorem binders_queryArray (q : JV) (h : binders q = []) : binders (queryArray q) = [] := by
  unfold queryArray
  split
  · simp [setIn, JV.set, JV.get, getKV, setKV, binders, bindersKV, h]
  · simp [binders, bindersKV]

theorem binders_slurpArgsQ (args : JV) : binders (slurpArgsQ args) = [] := by
  unfold slurpArgsQ
  split
  · split
    · exact binders_queryArray _ (binders_queryCommas_toquery _)
    · simp [binders]
  · exact binders_queryArray _ (by simp [binders])

theorem slurp_binders (opts q : JV) (s : String) (hs : slurpOf opts q = .str s) :
    binders (rewriteBody opts q) = [] := by
  have hn : ∃ n, (lastFunc q).1 = .str n := by
    unfold slurpOf at hs
    split at hs
    · rename_i n hn; exact ⟨n, hn⟩
    · simp at hs
  obtain ⟨n, hn⟩ := hn
  simp only [rewriteBody, hs, truthy, if_true, hn]
  simp [queryFunc, slurpArg, queryObject, queryString, binders, bindersKV, bindersL, binders_toquery, binders_slurpArgsQ]


theorem funcNames_foldl_comma (xs : List JV) (acc : JV) (ha : funcNames acc = []) (hx : ∀ x ∈ xs, funcNames x = []) :
    funcNames (xs.foldl queryComma acc) = [] := by
  induction xs generalizing acc with
  | nil => simpa using ha
  | cons x rest ih =>
    simp only [List.foldl]
    apply ih
    · simp [funcNames_comma, ha, hx x (by simp)]
    · intro y hy; exact hx y (by simp [hy])

theorem funcNames_queryCommas_toquery (as : List JV) :
    ∀ n ∈ funcNames (queryCommas (as.map toquery)), n = "empty" := by
  cases as with
  | nil => simp [queryCommas, queryEmpty, queryFunc0, queryFunc, funcNames, funcNamesKV, JV.get, getKV]
  | cons a rest =>
    simp only [List.map, queryCommas]
    rw [funcNames_foldl_comma]
    · simp
    · exact funcNames_toquery a
    · intro x hx
      obtain ⟨y, _, rfl⟩ := List.mem_map.mp hx
      exact funcNames_toquery y

theorem funcNames_queryArray (q : JV) : funcNames (queryArray q) = if q.truthy then funcNames q else [] := by
  unfold queryArray
  split
  · simp [setIn, JV.set, JV.get, getKV, setKV, funcNames, funcNamesKV]
  · simp [funcNames, funcNamesKV]

theorem funcNames_slurpArgsQ (args : JV) : ∀ n ∈ funcNames (slurpArgsQ args), n = "empty" := by
  unfold slurpArgsQ
  split
  · split
    · rw [funcNames_queryArray]
      split
      · exact funcNames_queryCommas_toquery _
      · simp
    · simp [funcNames]
  · rw [funcNames_queryArray]; simp [truthy]

theorem slurp_names (opts q : JV) (s : String) (hs : slurpOf opts q = .str s) :
    ∀ n ∈ funcNames (rewriteBody opts q), n = s ∨ n = "empty" := by
  have hn : ∃ n, (lastFunc q).1 = .str n := by
    unfold slurpOf at hs
    split at hs
    · rename_i n hn; exact ⟨n, hn⟩
    · simp at hs
  obtain ⟨n, hn⟩ := hn
  simp only [rewriteBody, hs, truthy, if_true, hn]
  intro m hm
  simp [queryFunc, slurpArg, queryObject, queryString, funcNames, funcNamesKV, funcNamesL, funcNames_toquery, JV.get, getKV] at hm
  rcases hm with hm | hm
  · exact Or.inl hm
  · exact Or.inr (funcNames_slurpArgsQ _ m hm)

/-- in slurp mode the call's argument object holds the literal of the user's query (`orig`) and the literal of the
    wrapped query (`rewrite`) -/
theorem slurp_keeps (opts q : JV) (s : String) (hs : slurpOf opts q = .str s) :
    Sub (toquery q) (rewriteBody opts q) ∧
    Sub (toquery (wrapInput opts (wrapCatch opts (transformPipeLast (fun _ => queryIdent) (fuelOf q) q)))) (rewriteBody opts q) := by
  have hn : ∃ n, (lastFunc q).1 = .str n := by
    unfold slurpOf at hs
    split at hs
    · rename_i n hn; exact ⟨n, hn⟩
    · simp at hs
  obtain ⟨n, hn⟩ := hn
  simp only [rewriteBody, hs, truthy, if_true, hn]
  constructor
  · refine Sub.obj (k := "term") (by simp [queryFunc]; rfl) ?_
    refine Sub.obj (k := "func") (by simp; rfl) ?_
    refine Sub.obj (k := "args") (by simp; rfl) ?_
    refine Sub.arr (List.mem_singleton.mpr rfl) ?_
    simp only [slurpArg, queryObject, List.map]
    refine Sub.obj (k := "term") (by simp; rfl) ?_
    refine Sub.obj (k := "object") (by simp; rfl) ?_
    refine Sub.obj (k := "key_vals") (by simp; rfl) ?_
    refine Sub.arr (y := .obj [("key", .str "orig"), ("val", toquery q)]) (by simp) ?_
    exact Sub.obj (k := "val") (by simp) (Sub.refl _)
  · refine Sub.obj (k := "term") (by simp [queryFunc]; rfl) ?_
    refine Sub.obj (k := "func") (by simp; rfl) ?_
    refine Sub.obj (k := "args") (by simp; rfl) ?_
    refine Sub.arr (List.mem_singleton.mpr rfl) ?_
    simp only [slurpArg, queryObject, List.map]
    refine Sub.obj (k := "term") (by simp; rfl) ?_
    refine Sub.obj (k := "object") (by simp; rfl) ?_
    refine Sub.obj (k := "key_vals") (by simp; rfl) ?_
    refine Sub.arr (y := .obj [("key", .str "rewrite"),
      ("val", toquery (wrapInput opts (wrapCatch opts (transformPipeLast (fun _ => queryIdent) (fuelOf q) q))))]) (by simp) ?_
    exact Sub.obj (k := "val") (by simp) (Sub.refl _)

/-! ### a literal evaluates back to the value it was made from -/

theorem toquery_op (y : JV) : (toquery y).get "op" = .null := by
  cases y with
  | bool b => cases b <;> simp [toquery, JV.get, getKV]
  | arr xs => cases xs <;> simp [toquery, JV.get, getKV]
  | obj kvs => cases kvs <;> simp [toquery, JV.get, getKV]
  | num n => simp only [toquery]; split <;> simp [JV.get, getKV]
  | _ => simp [toquery, JV.get, getKV]

theorem beq_null_str (s : String) : ((JV.null : JV) == JV.str s) = false := by
  show JV.beq .null (.str s) = false
  simp [JV.beq]

theorem flattenComma_toquery (f : Nat) (y : JV) : flattenComma f (toquery y) = [toquery y] := by
  cases f with
  | zero => rfl
  | succ f => simp [flattenComma, toquery_op, beq_null_str]

theorem beq_str_self (s : String) : ((JV.str s : JV) == JV.str s) = true := by
  show JV.beq (.str s) (.str s) = true
  simp [JV.beq]

theorem flattenComma_commas (xs : List JV) : ∀ (acc : JV) (L : List JV) (n : Nat),
    (∀ f, n ≤ f → flattenComma f acc = L) →
    ∀ f, n + xs.length ≤ f → flattenComma f (toqueryCommas acc xs) = L ++ xs.map toquery := by
  induction xs with
  | nil => intro acc L n h f hf; simpa [toqueryCommas] using h f (by simpa using hf)
  | cons y ys ih =>
    intro acc L n h f hf
    simp only [toqueryCommas, List.map, List.length] at hf ⊢
    have := ih (queryComma acc (toquery y)) (L ++ [toquery y]) (n + 1) (by
      intro f' hf'
      cases f' with
      | zero => omega
      | succ f' =>
        have hb : ((JV.str "," : JV) == JV.str ",") = true := beq_str_self ","
        simp only [flattenComma, queryComma, JV.get, getKV]
        simp [hb, h f' (by omega), flattenComma_toquery f' y]) f (by omega)
    simpa using this


theorem size_pos (x : JV) : 1 ≤ x.size := by
  cases x <;> simp [JV.size] <;> omega

theorem sizeL_ge_length (xs : List JV) : xs.length ≤ JV.sizeL xs := by
  induction xs with
  | nil => simp [JV.sizeL]
  | cons x rest ih => simp only [JV.sizeL, List.length]; have := size_pos x; omega

theorem toquery_truthy (x : JV) : (toquery x).truthy = true := by
  cases x with
  | bool b => cases b <;> simp [toquery, truthy]
  | arr xs => cases xs <;> simp [toquery, truthy]
  | obj kvs => cases kvs <;> simp [toquery, truthy]
  | num n => simp only [toquery]; split <;> simp [truthy]
  | _ => simp [toquery, truthy]

theorem toqueryCommas_truthy (acc : JV) (xs : List JV) (h : acc.truthy = true) : (toqueryCommas acc xs).truthy = true := by
  induction xs generalizing acc with
  | nil => simpa [toqueryCommas] using h
  | cons y ys ih => simp only [toqueryCommas]; exact ih _ (by simp [queryComma, truthy])

theorem setKV_append (k : String) (v : JV) (acc : List (String × JV)) (h : ∀ p ∈ acc, p.1 < k) :
    setKV k v acc = acc ++ [(k, v)] := by
  induction acc with
  | nil => rfl
  | cons p rest ih =>
    obtain ⟨l, w⟩ := p
    have hl : l < k := h (l, w) (by simp)
    have h1 : (l == k) = false := by
      simp only [beq_eq_false_iff_ne, ne_eq]
      intro he; subst he; exact String.lt_irrefl _ hl
    have h2 : ¬ (k < l) := String.lt_asymm hl
    simp only [setKV, h1, h2, if_false, List.cons_append, Bool.false_eq_true]
    rw [ih (fun p hp => h p (by simp [hp]))]

theorem litKey_toqueryKV (k : String) (v : JV) :
    litKey (.obj [("key_string", strNode k), ("val", toquery v)]) = some k := by
  unfold litKey strNode
  by_cases hk : k = ""
  · subst hk; simp [getIn, JV.get, getKV]
  · have : (k == "") = false := by simpa using hk
    simp [getIn, JV.get, getKV, this]

mutual
  theorem evalLit_toquery : ∀ (x : JV) (fuel : Nat), Canon x → x.size + 1 ≤ fuel → evalLit fuel (toquery x) = some x
    | .null, fuel, _, hf => by
      obtain ⟨f, rfl⟩ : ∃ f, fuel = f + 1 := ⟨fuel - 1, by simp [JV.size] at hf; omega⟩
      simp [evalLit, toquery, litType, JV.get, getKV]
    | .bool true, fuel, _, hf => by
      obtain ⟨f, rfl⟩ : ∃ f, fuel = f + 1 := ⟨fuel - 1, by simp [JV.size] at hf; omega⟩
      simp [evalLit, toquery, litType, JV.get, getKV]
    | .bool false, fuel, _, hf => by
      obtain ⟨f, rfl⟩ : ∃ f, fuel = f + 1 := ⟨fuel - 1, by simp [JV.size] at hf; omega⟩
      simp [evalLit, toquery, litType, JV.get, getKV]
    | .num n, _, hc, _ => by simp [Canon] at hc
    | .str s, fuel, _, hf => by
      obtain ⟨f, rfl⟩ : ∃ f, fuel = f + 1 := ⟨fuel - 1, by simp [JV.size] at hf; omega⟩
      by_cases hs : s = ""
      · subst hs; simp [evalLit, toquery, litType, strNode, getIn, JV.get, getKV]
      · have : (s == "") = false := by simpa using hs
        simp [evalLit, toquery, litType, strNode, getIn, JV.get, getKV, this]
    | .arr [], fuel, _, hf => by
      obtain ⟨f, rfl⟩ : ∃ f, fuel = f + 1 := ⟨fuel - 1, by simp [JV.size] at hf; omega⟩
      simp [evalLit, toquery, litType, getIn, JV.get, getKV, truthy]
    | .arr (x :: xs), fuel, hc, hf => by
      obtain ⟨f, rfl⟩ : ∃ f, fuel = f + 1 := ⟨fuel - 1, by simp [JV.size] at hf; omega⟩
      simp only [JV.size, JV.sizeL] at hf
      have hlen : xs.length ≤ JV.sizeL xs := sizeL_ge_length xs
      have hfl : flattenComma f (toqueryCommas (toquery x) xs) = toquery x :: xs.map toquery := by
        have := flattenComma_commas xs (toquery x) [toquery x] 0 (fun f' _ => flattenComma_toquery f' x) f (by omega)
        simpa using this
      have hl := evalLit_list (x :: xs) f (by simpa [Canon] using hc) (by simp [JV.sizeL]; omega)
      have htr : (toqueryCommas (toquery x) xs).truthy = true := toqueryCommas_truthy _ _ (toquery_truthy x)
      have key : evalLit (f + 1) (toquery (.arr (x :: xs))) =
          ((flattenComma f (toqueryCommas (toquery x) xs)).mapM (evalLit f)).map .arr := by
        simp [evalLit, toquery, litType, getIn, JV.get, getKV, htr]
      rw [key, hfl, show toquery x :: xs.map toquery = (x :: xs).map toquery from rfl, hl]
      rfl
    | .obj [], fuel, _, hf => by
      obtain ⟨f, rfl⟩ : ∃ f, fuel = f + 1 := ⟨fuel - 1, by simp [JV.size] at hf; omega⟩
      simp [evalLit, toquery, litType, getIn, JV.get, getKV]
    | .obj (kv :: kvs), fuel, hc, hf => by
      obtain ⟨f, rfl⟩ : ∃ f, fuel = f + 1 := ⟨fuel - 1, by simp [JV.size] at hf; omega⟩
      simp only [JV.size] at hf
      simp only [Canon] at hc
      have := evalLit_kvs (kv :: kvs) f [] hc.1 (by omega) (by simpa using hc.2)
      have key : evalLit (f + 1) (toquery (.obj (kv :: kvs))) =
          (toqueryKV (kv :: kvs)).foldlM (litStep (evalLit f)) (.obj []) := by
        simp [evalLit, toquery, litType, getIn, JV.get, getKV]
      rw [key, this]
      rfl
  theorem evalLit_list : ∀ (xs : List JV) (fuel : Nat), CanonL xs → JV.sizeL xs + 1 ≤ fuel →
      (xs.map toquery).mapM (evalLit fuel) = some xs
    | [], _, _, _ => by simp
    | x :: xs, fuel, hc, hf => by
      simp only [CanonL] at hc
      simp only [JV.sizeL] at hf
      have h1 := evalLit_toquery x fuel hc.1 (by have := size_pos x; omega)
      have h2 := evalLit_list xs fuel hc.2 (by have := size_pos x; omega)
      simp [List.mapM_cons, h1, h2]
  theorem evalLit_kvs : ∀ (kvs : List (String × JV)) (fuel : Nat) (acc : List (String × JV)), CanonKV kvs →
      JV.sizeKV kvs + 1 ≤ fuel → (acc ++ kvs).Pairwise (fun a b => a.1 < b.1) →
      (toqueryKV kvs).foldlM (litStep (evalLit fuel)) (.obj acc) = some (.obj (acc ++ kvs))
    | [], _, acc, _, _, _ => by simp [toqueryKV]
    | (k, v) :: rest, fuel, acc, hc, hf, hp => by
      simp only [CanonKV] at hc
      simp only [JV.sizeKV] at hf
      have h1 := evalLit_toquery v fuel hc.1 (by omega)
      have hlt : ∀ p ∈ acc, p.1 < k := by
        intro p hp'
        have := List.pairwise_append.mp hp
        exact this.2.2 p hp' (k, v) (by simp)
      have h2 := evalLit_kvs rest fuel (acc ++ [(k, v)]) hc.2 (by have := size_pos v; omega) (by simpa using hp)
      simp only [toqueryKV, List.foldlM_cons]
      have hstep : litStep (evalLit fuel) (.obj acc) (.obj [("key_string", strNode k), ("val", toquery v)]) =
          some (.obj (acc ++ [(k, v)])) := by
        simp [litStep, JV.get, getKV, h1, litKey_toqueryKV, JV.set, setKV_append k v acc hlt]
      simp [hstep]
      simpa using h2
end

end Proofs.C11
