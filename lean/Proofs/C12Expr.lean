import FqModel.Nav
/-!
  C12 helper lemmas, part 2: `exprToPathL (pathToExprL p) = some p` for every path of strings and integers.
  The parser is a one-character machine (`delta`), so every lemma has the shape
  "from state S, reading this rendered piece followed by anything, the machine is in state S'".
-/
namespace Proofs.C12Expr
open FqModel.Nav

/-! ### the machine -/

theorem run_nil (st : St) : run st [] = some st := rfl

theorem run_cons (st : St) (c : Char) (cs : List Char) :
    run st (c :: cs) = (delta st c).bind (fun s => run s cs) := by
  simp [run, List.foldlM_cons]

theorem run_append (st : St) (a b : List Char) :
    run st (a ++ b) = (run st a).bind (fun s => run s b) := by
  simp [run, List.foldlM_append]

/-! ### characters -/

theorem identStart_ne_quote {c : Char} (h : isIdentStart c = true) : c ≠ '"' := by
  intro e; subst e; revert h; decide

theorem identStart_ne_lbrack {c : Char} (h : isIdentStart c = true) : c ≠ '[' := by
  intro e; subst e; revert h; decide

theorem digit_facts : ∀ d : Fin 10,
    digitVal? (digitChar d.val) = some d.val ∧ digitChar d.val ≠ '-' ∧ digitChar d.val ≠ ']' := by
  decide

theorem digitVal_digitChar {d : Nat} (h : d < 10) : digitVal? (digitChar d) = some d :=
  (digit_facts ⟨d, h⟩).1

theorem digitChar_ne_minus {d : Nat} (h : d < 10) : digitChar d ≠ '-' :=
  (digit_facts ⟨d, h⟩).2.1

/-! ### identifiers -/

/-- the identifier characters are ASCII: `_is_ident` is the exact ASCII predicate -/
theorem identChar_ascii {c : Char} (h : isIdentChar c = true) : c.toNat < 128 := by
  simp only [isIdentChar, isIdentStart, isDigit, Bool.or_eq_true, Bool.and_eq_true, decide_eq_true_eq,
    beq_iff_eq] at h
  have e : ∀ d : Char, c ≤ d → c.toNat ≤ d.toNat :=
    fun d hd => UInt32.le_iff_toNat_le.mp (Char.le_def.mp hd)
  rcases h with ((h | h) | h) | h
  · have := e _ h.2
    have e2 : ('z' : Char).toNat = 122 := by decide
    omega
  · have := e _ h.2
    have e2 : ('Z' : Char).toNat = 90 := by decide
    omega
  · subst h; decide
  · have := e _ h.2
    have e2 : ('9' : Char).toNat = 57 := by decide
    omega

theorem isIdentL_ascii {s : List Char} (h : isIdentL s = true) : ∀ c ∈ s, isIdentChar c = true := by
  cases s with
  | nil => simp [isIdentL] at h
  | cons c cs =>
    simp only [isIdentL, Bool.and_eq_true, List.all_eq_true] at h
    intro d hd
    rcases List.mem_cons.mp hd with hd | hd
    · subst hd; simp [isIdentChar, h.1]
    · exact h.2 d hd

theorem run_identChars (acc : LPath) (cur cs rest : List Char) (h : cs.all isIdentChar = true) :
    run (.ident acc cur) (cs ++ rest) = run (.ident acc (cur ++ cs)) rest := by
  induction cs generalizing cur with
  | nil => simp
  | cons c cs ih =>
    simp only [List.all_cons, Bool.and_eq_true] at h
    rw [List.cons_append, run_cons]
    simp only [delta, h.1, if_true, Option.bind_some]
    rw [ih (cur ++ [c]) h.2]
    simp [List.append_assoc]

/-! ### string literals -/

theorem run_escape (acc : LPath) (cur s rest : List Char) :
    run (.str acc cur) (escapeIdentL s ++ rest) = run (.str acc (cur ++ s)) rest := by
  induction s generalizing cur with
  | nil => simp [escapeIdentL]
  | cons c s ih =>
    unfold escapeIdentL
    by_cases hc : c = '\\' ∨ c = '"'
    · rw [if_pos hc]
      simp only [List.cons_append]
      rw [run_cons]
      have h1 : delta (.str acc cur) '\\' = some (.strEsc acc cur) := by
        simp [delta]
      rw [h1, Option.bind_some, run_cons]
      have h2 : delta (.strEsc acc cur) c = some (.str acc (cur ++ [c])) := by
        rcases hc with hc | hc <;> subst hc <;> simp [delta]
      rw [h2, Option.bind_some, ih (cur ++ [c])]
      simp [List.append_assoc]
    · rw [if_neg hc]
      have hc1 : c ≠ '\\' := fun e => hc (Or.inl e)
      have hc2 : c ≠ '"' := fun e => hc (Or.inr e)
      simp only [List.cons_append]
      rw [run_cons]
      have h1 : delta (.str acc cur) c = some (.str acc (cur ++ [c])) := by
        simp [delta, hc1, hc2]
      rw [h1, Option.bind_some, ih (cur ++ [c])]
      simp [List.append_assoc]

/-! ### decimal integers -/

def stepD (a d : Nat) : Nat := 10 * a + d

theorem natDigitsAux_lt10 (f n : Nat) (acc : List Nat) (hacc : ∀ d ∈ acc, d < 10) :
    ∀ d ∈ natDigitsAux f n acc, d < 10 := by
  induction f generalizing n acc with
  | zero =>
    intro d hd
    simp [natDigitsAux] at hd
    rcases hd with hd | hd
    · omega
    · exact hacc d hd
  | succ f ih =>
    unfold natDigitsAux
    by_cases h : n < 10
    · rw [if_pos h]
      intro d hd
      simp at hd
      rcases hd with hd | hd
      · omega
      · exact hacc d hd
    · rw [if_neg h]
      apply ih
      intro d hd
      simp at hd
      rcases hd with hd | hd
      · omega
      · exact hacc d hd

theorem natDigitsAux_ne_nil (f n : Nat) (acc : List Nat) : natDigitsAux f n acc ≠ [] := by
  induction f generalizing n acc with
  | zero => simp [natDigitsAux]
  | succ f ih =>
    unfold natDigitsAux
    by_cases h : n < 10
    · rw [if_pos h]; simp
    · rw [if_neg h]; exact ih _ _

theorem natDigitsAux_val (f n : Nat) (acc : List Nat) (h : n ≤ f) :
    (natDigitsAux f n acc).foldl stepD 0 = acc.foldl stepD n := by
  induction f generalizing n acc with
  | zero =>
    have : n = 0 := by omega
    subst this
    simp [natDigitsAux, stepD]
  | succ f ih =>
    unfold natDigitsAux
    by_cases h10 : n < 10
    · rw [if_pos h10]
      simp [stepD]
    · rw [if_neg h10]
      rw [ih (n / 10) (n % 10 :: acc) (by omega)]
      simp only [List.foldl_cons, stepD]
      congr 1
      omega

theorem natDigits_val (n : Nat) : (natDigits n).foldl stepD 0 = n := by
  unfold natDigits
  rw [natDigitsAux_val n n [] (Nat.le_refl n)]
  rfl

theorem natDigits_lt10 (n : Nat) : ∀ d ∈ natDigits n, d < 10 :=
  natDigitsAux_lt10 n n [] (by simp)

theorem run_digits (acc : LPath) (neg : Bool) (a : Nat) (ds : List Nat) (rest : List Char)
    (h : ∀ d ∈ ds, d < 10) :
    run (.idxN acc neg a) (ds.map digitChar ++ rest) = run (.idxN acc neg (ds.foldl stepD a)) rest := by
  induction ds generalizing a with
  | nil => simp
  | cons d ds ih =>
    have hd : d < 10 := h d (by simp)
    simp only [List.map_cons, List.cons_append]
    rw [run_cons]
    have h1 : delta (.idxN acc neg a) (digitChar d) = some (.idxN acc neg (10 * a + d)) := by
      simp [delta, digitVal_digitChar hd]
    rw [h1, Option.bind_some, ih (10 * a + d) (fun x hx => h x (by simp [hx]))]
    rfl

/-- reading the decimal digits of `n` (at least one) and then `]` -/
theorem run_showNat (acc : LPath) (neg : Bool) (st0 : St) (n : Nat) (rest : List Char)
    (hst : ∀ d, d < 10 → delta st0 (digitChar d) = some (.idxN acc neg d)) :
    run st0 (showNatL n ++ ']' :: rest) =
      run (.done (acc ++ [.inr (if neg then -(n : Int) else (n : Int))])) rest := by
  unfold showNatL
  have hne := natDigitsAux_ne_nil n n []
  have hlt := natDigits_lt10 n
  have hval := natDigits_val n
  unfold natDigits at hlt hval ⊢
  generalize natDigitsAux n n [] = ds at hne hlt hval ⊢
  cases ds with
  | nil => exact absurd rfl hne
  | cons d ds =>
    have hd : d < 10 := hlt d (by simp)
    simp only [List.map_cons, List.cons_append]
    rw [run_cons, hst d hd, Option.bind_some]
    rw [run_digits acc neg d ds (']' :: rest) (fun x hx => hlt x (by simp [hx]))]
    have hv : ds.foldl stepD d = n := by
      simp only [List.foldl_cons, stepD] at hval
      simpa [stepD] using hval
    rw [hv, run_cons]
    have h2 : delta (.idxN acc neg n) ']' = some (.done (acc ++ [.inr (if neg then -(n : Int) else (n : Int))])) := by
      have : digitVal? ']' = none := by decide
      simp [delta, this]
    rw [h2, Option.bind_some]

theorem run_showInt (acc : LPath) (i : Int) (rest : List Char) :
    run (.idx0 acc) (showIntL i ++ ']' :: rest) = run (.done (acc ++ [.inr i])) rest := by
  unfold showIntL
  by_cases hi : i < 0
  · rw [if_pos hi]
    simp only [List.cons_append]
    rw [run_cons]
    have h1 : delta (.idx0 acc) '-' = some (.idxNeg acc) := by simp [delta]
    rw [h1, Option.bind_some]
    rw [run_showNat acc true (.idxNeg acc) i.natAbs rest
      (fun d hd => by simp [delta, digitVal_digitChar hd])]
    have : (if true = true then -((i.natAbs : Nat) : Int) else ((i.natAbs : Nat) : Int)) = i := by
      simp only [if_true]; omega
    rw [this]
  · rw [if_neg hi]
    rw [run_showNat acc false (.idx0 acc) i.toNat rest
      (fun d hd => by simp [delta, digitVal_digitChar hd, digitChar_ne_minus hd])]
    have : (if false = true then -((i.toNat : Nat) : Int) else ((i.toNat : Nat) : Int)) = i := by
      simp only [Bool.false_eq_true, if_false]; omega
    rw [this]

/-! ### keys -/

/-- what follows the '.' of a key segment -/
def keyBody (s : List Char) : List Char :=
  if isIdentL s then s else '"' :: (escapeIdentL s ++ ['"'])

/-- the state after a key segment: an identifier is still open (it ends at the next '.', '[' or the end) -/
def keyEnd (acc : LPath) (s : List Char) : St :=
  if isIdentL s then .ident acc s else .done (acc ++ [.inl s])

theorem seg_inl (s : List Char) : seg (.inl s) = '.' :: keyBody s := rfl

theorem run_keyBody (acc : LPath) (s rest : List Char) :
    run (.afterDot acc) (keyBody s ++ rest) = run (keyEnd acc s) rest := by
  unfold keyBody keyEnd
  by_cases hid : isIdentL s = true
  · rw [if_pos hid, if_pos hid]
    cases s with
    | nil => simp [isIdentL] at hid
    | cons c cs =>
      simp only [isIdentL, Bool.and_eq_true] at hid
      rw [List.cons_append, run_cons]
      have h1 : delta (.afterDot acc) c = some (.ident acc [c]) := by
        simp [delta, keyStart, identStart_ne_quote hid.1, hid.1]
      rw [h1, Option.bind_some, run_identChars acc [c] cs rest hid.2]
      rfl
  · rw [if_neg hid, if_neg hid]
    simp only [List.cons_append, List.append_assoc]
    rw [run_cons]
    have h1 : delta (.afterDot acc) '"' = some (.str acc []) := by simp [delta, keyStart]
    rw [h1, Option.bind_some, run_escape acc [] s]
    simp only [List.nil_append]
    rw [run_cons]
    have h2 : delta (.str acc s) '"' = some (.done (acc ++ [.inl s])) := by simp [delta]
    rw [h2, Option.bind_some]

/-- first character of a key body: a quote or an identifier start, never '[' -/
theorem keyBody_head (s rest : List Char) :
    ∃ c tl, keyBody s ++ rest = c :: tl ∧ c ≠ '[' := by
  unfold keyBody
  by_cases hid : isIdentL s = true
  · rw [if_pos hid]
    cases s with
    | nil => simp [isIdentL] at hid
    | cons c cs =>
      simp only [isIdentL, Bool.and_eq_true] at hid
      exact ⟨c, cs ++ rest, rfl, identStart_ne_lbrack hid.1⟩
  · rw [if_neg hid]
    exact ⟨'"', _, rfl, by decide⟩

/-! ### between segments -/

/-- the machine has read the segments of `acc` and can take another segment or stop -/
def Ready (st : St) (acc : LPath) : Prop :=
  st = .done acc ∨ ∃ pre s, st = .ident pre s ∧ acc = pre ++ [.inl s]

theorem ready_keyEnd (acc : LPath) (s : List Char) : Ready (keyEnd acc s) (acc ++ [.inl s]) := by
  unfold keyEnd
  by_cases hid : isIdentL s = true
  · rw [if_pos hid]; exact Or.inr ⟨acc, s, rfl, rfl⟩
  · rw [if_neg hid]; exact Or.inl rfl

theorem ready_dot {st : St} {acc : LPath} (h : Ready st acc) : delta st '.' = some (.afterDot acc) := by
  rcases h with h | ⟨pre, s, h, ha⟩
  · subst h; simp [delta, betweenSegs]
  · subst h; subst ha
    have : isIdentChar '.' = false := by decide
    simp [delta, betweenSegs, this]

theorem ready_lbrack {st : St} {acc : LPath} (h : Ready st acc) : delta st '[' = some (.idx0 acc) := by
  rcases h with h | ⟨pre, s, h, ha⟩
  · subst h
    have : ('[' : Char) ≠ '.' := by decide
    simp [delta, betweenSegs, this]
  · subst h; subst ha
    have h1 : isIdentChar '[' = false := by decide
    have h2 : ('[' : Char) ≠ '.' := by decide
    simp [delta, betweenSegs, h1, h2]

theorem ready_finish {st : St} {acc : LPath} (h : Ready st acc) : finish st = some acc := by
  rcases h with h | ⟨pre, s, h, ha⟩
  · subst h; rfl
  · subst h; subst ha; rfl

/-! ### all segments -/

theorem run_segs (items : LPath) (st : St) (acc : LPath) (h : Ready st acc) :
    (run st (items.flatMap seg)).bind finish = some (acc ++ items) := by
  induction items generalizing st acc with
  | nil => simp [run_nil, ready_finish h]
  | cons it items ih =>
    rw [List.flatMap_cons]
    cases it with
    | inr i =>
      have e : seg (Sum.inr i) ++ items.flatMap seg = '[' :: (showIntL i ++ ']' :: items.flatMap seg) := by
        simp [seg]
      rw [e, run_cons, ready_lbrack h, Option.bind_some, run_showInt]
      have hih := ih (St.done (acc ++ [Sum.inr i])) (acc ++ [Sum.inr i]) (Or.inl rfl)
      rw [hih]
      simp [List.append_assoc]
    | inl s =>
      rw [seg_inl, List.cons_append, run_cons, ready_dot h, Option.bind_some, run_keyBody]
      have hih := ih (keyEnd acc s) (acc ++ [Sum.inl s]) (ready_keyEnd acc s)
      rw [hih]
      simp [List.append_assoc]

/-- the round trip over character lists: every path of strings and integers, no side condition -/
theorem exprToPathL_pathToExprL (p : LPath) : exprToPathL (pathToExprL p) = some p := by
  unfold exprToPathL
  cases p with
  | nil => rfl
  | cons it items =>
    have hmain := run_segs (it :: items) (.done []) [] (Or.inl rfl)
    simp only [List.nil_append] at hmain
    cases it with
    | inr i =>
      -- ".[i]…": the leading '.' is the placeholder; dot0 and `done []` agree on '['
      have e : pathToExprL (Sum.inr i :: items) = '.' :: (Sum.inr i :: items).flatMap seg := rfl
      rw [e, run_cons]
      have h0 : delta .start '.' = some .dot0 := by simp [delta]
      rw [h0, Option.bind_some]
      have e2 : (Sum.inr i :: items).flatMap seg = '[' :: (showIntL i ++ ']' :: items.flatMap seg) := by
        simp [seg]
      rw [e2] at hmain ⊢
      rw [run_cons] at hmain ⊢
      have h1 : delta .dot0 '[' = some (.idx0 []) := by simp [delta]
      have h2 : delta (.done []) '[' = some (.idx0 []) := ready_lbrack (Or.inl rfl)
      rw [h1]
      rw [h2] at hmain
      exact hmain
    | inl s =>
      -- ".key…": the first '.' belongs to the key; dot0 and `afterDot []` agree on a key start
      have e : pathToExprL (Sum.inl s :: items) = (Sum.inl s :: items).flatMap seg := rfl
      rw [e]
      rw [List.flatMap_cons, seg_inl, List.cons_append] at hmain ⊢
      rw [run_cons] at hmain ⊢
      have h0 : delta .start '.' = some .dot0 := by simp [delta]
      have h1 : delta (.done []) '.' = some (.afterDot []) := ready_dot (Or.inl rfl)
      rw [h0, Option.bind_some]
      rw [h1, Option.bind_some] at hmain
      obtain ⟨c, tl, hc, hne⟩ := keyBody_head s (items.flatMap seg)
      rw [hc] at hmain ⊢
      rw [run_cons] at hmain ⊢
      have h2 : delta .dot0 c = delta (.afterDot []) c := by simp [delta, hne]
      rw [h2]
      exact hmain

end Proofs.C12Expr
