import FqModel.Nav
/-!
  C12 helper lemmas, part 1: trees (FqModel/Nav.lean). Everything is by induction on the pointer
  (list of child positions, nearest first); the tree is only ever opened one level at a time.
-/
namespace Proofs.C12Nav
open FqModel.Nav

/-! ### deref -/

theorem deref_cons (t : Tree) (k : Nat) (up : Ptr) :
    deref t (k :: up) = (deref t up).bind (fun s => s.kids[k]?) := rfl

theorem deref_cons_some {t : Tree} {k : Nat} {up : Ptr} {v : Tree} (h : deref t (k :: up) = some v) :
    ∃ p, deref t up = some p ∧ p.kids[k]? = some v := by
  rw [deref_cons] at h
  cases hp : deref t up with
  | none => rw [hp] at h; cases h
  | some p => rw [hp] at h; exact ⟨p, rfl, h⟩

/-! ### well-formedness reaches every node -/

theorem wfb_mk (i : Info) (kids : List Tree) :
    (Tree.mk i kids).wfb = (localOK i kids && wfbList kids) := by
  simp [Tree.wfb]

theorem wfbList_get {kids : List Tree} (h : wfbList kids = true) {k : Nat} {v : Tree}
    (hk : kids[k]? = some v) : v.wfb = true := by
  induction kids generalizing k with
  | nil => simp at hk
  | cons c cs ih =>
    simp [wfbList] at h
    cases k with
    | zero => simp at hk; subst hk; exact h.1
    | succ k => simp at hk; exact ih h.2 hk

theorem wf_local {t : Tree} (h : t.wfb = true) : localOK t.info t.kids = true ∧ wfbList t.kids = true := by
  cases t with
  | mk i kids => rw [wfb_mk] at h; simpa [Tree.info, Tree.kids] using h

theorem wf_deref {t : Tree} (h : WF t) {n : Ptr} {v : Tree} (hv : deref t n = some v) : v.wfb = true := by
  induction n generalizing v with
  | nil => simp [deref] at hv; subst hv; exact h
  | cons k up ih =>
    obtain ⟨p, hp, hk⟩ := deref_cons_some hv
    exact wfbList_get (wf_local (ih hp)).2 hk

/-! ### struct names / array indices -/

theorem lookupName_of_nodup {kids : List Tree} (h : namesNodup kids = true) {k : Nat} {v : Tree}
    (hk : kids[k]? = some v) : lookupName v.info.name kids = some k := by
  induction kids generalizing k with
  | nil => simp at hk
  | cons c cs ih =>
    simp [namesNodup] at h
    cases k with
    | zero => simp at hk; subst hk; simp [lookupName]
    | succ k =>
      simp at hk
      have hmem : v ∈ cs := List.mem_of_getElem? hk
      have hne : ¬ c.info.name = v.info.name := fun e => h.1 v hmem e.symm
      simp [lookupName, hne, ih h.2 hk]

theorem index_of_indexFrom {kids : List Tree} {j : Nat} (h : indexFrom j kids = true) {k : Nat} {v : Tree}
    (hk : kids[k]? = some v) : v.info.index = ((j + k : Nat) : Int) := by
  induction kids generalizing j k with
  | nil => simp at hk
  | cons c cs ih =>
    simp [indexFrom] at h
    cases k with
    | zero => simp at hk; subst hk; simpa using h.1
    | succ k =>
      simp at hk
      have := ih h.2 hk
      rw [this]; congr 1; omega

/-! ### valuePath -/

theorem valuePathGo_acc (t : Tree) (n : Ptr) (parts : Path) :
    valuePathGo t n parts = valuePathGo t n [] ++ parts := by
  induction n generalizing parts with
  | nil => simp [valuePathGo]
  | cons k up ih =>
    unfold valuePathGo
    split
    · rename_i p v _ _
      split
      · rw [ih (.inr v.info.index :: parts), ih [.inr v.info.index]]; simp
      · rw [ih (.inl v.info.name :: parts), ih [.inl v.info.name]]; simp
      · exact ih parts
    · simp

/-- the path element a child contributes (nothing below a leaf, which `WF` excludes) -/
def part (p v : Tree) : Path :=
  match p.info.kind with
  | .array => [.inr v.info.index]
  | .struct => [.inl v.info.name]
  | .leaf => []

theorem pathOf_cons {t : Tree} {k : Nat} {up : Ptr} {p v : Tree}
    (hp : deref t up = some p) (hv : deref t (k :: up) = some v) :
    pathOf t (k :: up) = pathOf t up ++ part p v := by
  unfold pathOf
  conv => lhs; unfold valuePathGo
  simp only [hp, hv]
  unfold part
  cases p.info.kind with
  | array => simp only; rw [valuePathGo_acc]
  | struct => simp only; rw [valuePathGo_acc]
  | leaf => simp

/-! ### resolve -/

theorem resolve_append (t : Tree) (a b : Path) :
    resolve t (a ++ b) = (resolve t a).bind (fun c => b.foldlM (step t) c) := by
  unfold resolve
  rw [List.foldlM_append]
  rfl

theorem step_child {t : Tree} (h : WF t) {k : Nat} {up : Ptr} {p v : Tree}
    (hp : deref t up = some p) (hk : p.kids[k]? = some v) :
    (part p v).foldlM (step t) up = some (k :: up) := by
  have hl := (wf_local (wf_deref h hp)).1
  unfold localOK at hl
  unfold part
  cases hkind : p.info.kind with
  | leaf =>
    rw [hkind] at hl
    simp at hl
    rw [hl] at hk; simp at hk
  | struct =>
    rw [hkind] at hl
    simp only [List.foldlM_cons, List.foldlM_nil]
    have : step t up (.inl v.info.name) = some (k :: up) := by
      unfold step
      simp [hp, hkind, lookupName_of_nodup hl hk]
    rw [this]; rfl
  | array =>
    rw [hkind] at hl
    simp only [List.foldlM_cons, List.foldlM_nil]
    have hix := index_of_indexFrom hl hk
    have hlt : k < p.kids.length := by
      have := List.getElem?_eq_some_iff.mp hk
      exact this.1
    have : step t up (.inr v.info.index) = some (k :: up) := by
      unfold step
      simp only [hp, hkind, hix]
      have h1 : ¬ (((0 + k : Nat) : Int) < 0) := by omega
      simp only [h1, if_false, if_true]
      have h2 : (0 : Int) ≤ ((0 + k : Nat) : Int) ∧ ((0 + k : Nat) : Int) < (p.kids.length : Int) := by omega
      rw [if_pos h2]
      simp
    rw [this]; rfl

/-! ### keys: every child is reached by exactly its own key -/

theorem step_struct_child {t : Tree} (h : WF t) {k : Nat} {n : Ptr} {p v : Tree}
    (hp : deref t n = some p) (hk : p.kids[k]? = some v) (hkind : p.info.kind = .struct) :
    step t n (.inl v.info.name) = some (k :: n) := by
  have := step_child h hp hk
  unfold part at this
  rw [hkind] at this
  simpa [List.foldlM_cons, List.foldlM_nil] using this

theorem step_array_child {t : Tree} (h : WF t) {k : Nat} {n : Ptr} {p v : Tree}
    (hp : deref t n = some p) (hk : p.kids[k]? = some v) (hkind : p.info.kind = .array) :
    step t n (.inr (k : Int)) = some (k :: n) := by
  have hl := (wf_local (wf_deref h hp)).1
  unfold localOK at hl
  rw [hkind] at hl
  have hix := index_of_indexFrom hl hk
  have hix' : v.info.index = (k : Int) := by rw [hix]; congr 1; omega
  have := step_child h hp hk
  unfold part at this
  rw [hkind, hix'] at this
  simpa [List.foldlM_cons, List.foldlM_nil] using this

theorem names_nodup_of {kids : List Tree} (h : namesNodup kids = true) :
    (kids.map (fun c => c.info.name)).Nodup := by
  induction kids with
  | nil => simp
  | cons c cs ih =>
    simp [namesNodup] at h
    rw [List.map_cons, List.nodup_cons]
    refine ⟨?_, ih h.2⟩
    intro hmem
    obtain ⟨d, hd, he⟩ := List.mem_map.mp hmem
    exact h.1 d hd he

theorem path_resolves {t : Tree} (h : WF t) (n : Ptr) {v : Tree} (hv : deref t n = some v) :
    resolve t (pathOf t n) = some n := by
  induction n generalizing v with
  | nil => simp [pathOf, valuePathGo, resolve]
  | cons k up ih =>
    obtain ⟨p, hp, hk⟩ := deref_cons_some hv
    rw [pathOf_cons hp hv, resolve_append, ih hp]
    exact step_child h hp hk

/-! ### path length = depth (every loop iteration of valuePath contributes exactly one component) -/

theorem depth_eq_length (n : Ptr) : depth n = n.length := by
  induction n with
  | nil => rfl
  | cons k up ih => simp [depth, ih]

theorem depth_eq_parents_length (n : Ptr) : depth n = (parents n).length := by
  cases n with
  | nil => rfl
  | cons k up => simp [parents, parent, recurseBreak_length', depth_eq_length]
where
  recurseBreak_length' (n : Ptr) : (recurseBreak n).length = n.length + 1 := by
    induction n with
    | nil => rfl
    | cons k up ih => simp [recurseBreak, ih]

/-- in a well-formed tree a value that has a child is not a leaf, so its child contributes one component -/
theorem part_length {p v : Tree} (hp : p.wfb = true) {k : Nat} (hk : p.kids[k]? = some v) :
    (part p v).length = 1 := by
  have hl := (wf_local hp).1
  unfold localOK at hl
  unfold part
  cases hkind : p.info.kind with
  | leaf =>
    rw [hkind] at hl
    simp at hl
    rw [hl] at hk; simp at hk
  | struct => rfl
  | array => rfl

theorem pathOf_length {t : Tree} (h : WF t) (n : Ptr) {v : Tree} (hv : deref t n = some v) :
    (pathOf t n).length = depth n := by
  induction n generalizing v with
  | nil => simp [pathOf, valuePathGo, depth]
  | cons k up ih =>
    obtain ⟨p, hp, hk⟩ := deref_cons_some hv
    rw [pathOf_cons hp hv, List.length_append, ih hp, part_length (wf_deref h hp) hk]
    rfl

/-- the path of a child is the path of its parent plus exactly one component -/
theorem pathOf_child_length {t : Tree} (h : WF t) {k : Nat} {up : Ptr} {v : Tree}
    (hv : deref t (k :: up) = some v) : (pathOf t (k :: up)).length = (pathOf t up).length + 1 := by
  obtain ⟨p, hp, _⟩ := deref_cons_some hv
  rw [pathOf_length h _ hv, pathOf_length h _ hp]; rfl

/-! ### trees of every depth exist (non-vacuity of the depth theorems for ALL d, not for a sample) -/

def mkInfo (name : String) (index : Int) (kind : Kind) : Info :=
  { name := name, index := index, isRoot := false, hasFormat := false, kind := kind }

/-- a chain of `d` nested compounds of alternating kind below a value called `name`: every struct has a leaf
    `s` and then the next compound under the key `a b` (needs quoting), every array has a leaf element and then
    the next compound at index 1 (a non-zero index); the chain ends in a leaf -/
def chain (name : String) (index : Int) : Nat → Bool → Tree
  | 0, _ => .mk (mkInfo name index .leaf) []
  | d + 1, true => .mk (mkInfo name index .array) [.mk (mkInfo "e" 0 .leaf) [], chain "e" 1 d false]
  | d + 1, false => .mk (mkInfo name index .struct) [.mk (mkInfo "s" (-1) .leaf) [], chain "a b" (-1) d true]

theorem chain_name (name : String) (index : Int) (d : Nat) (a : Bool) : (chain name index d a).info.name = name := by
  cases d with
  | zero => rfl
  | succ d => cases a <;> rfl

theorem chain_index (name : String) (index : Int) (d : Nat) (a : Bool) : (chain name index d a).info.index = index := by
  cases d with
  | zero => rfl
  | succ d => cases a <;> rfl

theorem chain_wf (name : String) (index : Int) (d : Nat) (a : Bool) : (chain name index d a).wfb = true := by
  induction d generalizing name index a with
  | zero => simp [chain, wfb_mk, localOK, mkInfo, wfbList]
  | succ d ih =>
    cases a with
    | true =>
      simp [chain, wfb_mk, localOK, mkInfo, wfbList, indexFrom, chain_index, ih]
      rfl
    | false =>
      simp [chain, wfb_mk, localOK, mkInfo, wfbList, namesNodup, chain_name, ih]
      show ¬ "a b" = "s"
      decide

/-- following a pointer whose OUTERMOST step is `k` = going to child `k` of the top first -/
theorem deref_append (t : Tree) (n : Ptr) (k : Nat) :
    deref t (n ++ [k]) = (t.kids[k]?).bind (fun c => deref c n) := by
  induction n with
  | nil => simp [deref]
  | cons j up ih =>
    rw [List.cons_append, deref_cons, ih]
    cases t.kids[k]? with
    | none => rfl
    | some c => simp [deref_cons]

theorem chain_deep (name : String) (index : Int) (d : Nat) (a : Bool) :
    ∃ v, deref (chain name index d a) (List.replicate d 1) = some v ∧ v.info.kind = .leaf := by
  induction d generalizing name index a with
  | zero => exact ⟨_, rfl, rfl⟩
  | succ d ih =>
    rw [List.replicate_succ', deref_append]
    cases a with
    | true => simpa [chain, Tree.kids] using ih "e" 1 false
    | false => simpa [chain, Tree.kids] using ih "a b" (-1) true

/-! ### parent contains the child under its reported name / index -/

theorem parent_contains {t : Tree} (h : WF t) {k : Nat} {up : Ptr} {v : Tree} (hv : deref t (k :: up) = some v) :
    ∃ p, deref t up = some p ∧ p.kids[k]? = some v ∧
      ((p.info.kind = .struct ∧ lookupName v.info.name p.kids = some k ∧
          (pathOf t (k :: up)).getLast? = some (.inl v.info.name)) ∨
       (p.info.kind = .array ∧ v.info.index = (k : Int) ∧
          (pathOf t (k :: up)).getLast? = some (.inr (k : Int)))) := by
  obtain ⟨p, hp, hk⟩ := deref_cons_some hv
  refine ⟨p, hp, hk, ?_⟩
  have hl := (wf_local (wf_deref h hp)).1
  unfold localOK at hl
  rw [pathOf_cons hp hv]
  unfold part
  cases hkind : p.info.kind with
  | leaf =>
    rw [hkind] at hl
    simp at hl
    rw [hl] at hk; simp at hk
  | struct =>
    rw [hkind] at hl
    left
    exact ⟨rfl, lookupName_of_nodup hl hk, by simp⟩
  | array =>
    rw [hkind] at hl
    right
    have hix := index_of_indexFrom hl hk
    have hix' : v.info.index = (k : Int) := by rw [hix]; congr 1; omega
    exact ⟨rfl, hix', by simp [hix']⟩

/-! ### roots -/

theorem root_eq_nil (t : Tree) (n : Ptr) {v : Tree} (_ : deref t n = some v) : root t n = [] := by
  unfold root
  induction n generalizing v with
  | nil => rfl
  | cons k up ih =>
    unfold rootGo
    rename_i hv
    rw [hv]
    obtain ⟨p, hp, _⟩ := deref_cons_some hv
    simpa using ih hp

/-- `q` is `n` or one of its ancestors -/
def IsAnc (q n : Ptr) : Prop := ∃ pre, n = pre ++ q

theorem rootGo_cons {t : Tree} (sub fmt : Bool) {k : Nat} {up : Ptr} {v : Tree} (hv : deref t (k :: up) = some v) :
    rootGo t sub fmt (k :: up) =
      if (sub && v.info.isRoot) = true then k :: up
      else if (fmt && v.info.hasFormat) = true then k :: up else rootGo t sub fmt up := by
  conv => lhs; unfold rootGo
  simp only [hv]

theorem isAnc_self_only {q n : Ptr} (h1 : IsAnc q n) (h2 : IsAnc n q) : q = n := by
  obtain ⟨pre, hq⟩ := h1
  obtain ⟨pre', hq'⟩ := h2
  have hlen : n.length = pre.length + (pre'.length + n.length) := by
    conv => lhs; rw [hq, hq']
    simp [List.length_append]
  have : pre' = [] := by
    cases pre' with
    | nil => rfl
    | cons _ _ => simp at hlen; omega
  rw [hq', this]; rfl

theorem rootGo_spec (t : Tree) (sub fmt : Bool) (n : Ptr) {v : Tree} (hv : deref t n = some v) :
    IsAnc (rootGo t sub fmt n) n ∧
    (rootGo t sub fmt n = [] ∨ ∃ w, deref t (rootGo t sub fmt n) = some w ∧
        ((sub = true ∧ w.info.isRoot = true) ∨ (fmt = true ∧ w.info.hasFormat = true))) ∧
    (∀ q, IsAnc q n → IsAnc (rootGo t sub fmt n) q → q ≠ rootGo t sub fmt n → ∀ w, deref t q = some w →
        ¬ ((sub = true ∧ w.info.isRoot = true) ∨ (fmt = true ∧ w.info.hasFormat = true))) := by
  induction n generalizing v with
  | nil =>
    refine ⟨⟨[], rfl⟩, Or.inl rfl, ?_⟩
    intro q ⟨pre, hq⟩ _ hne
    have : q = [] := (List.nil_eq_append_iff.mp hq).2
    exact absurd this hne
  | cons k up ih =>
    obtain ⟨p, hp, _⟩ := deref_cons_some hv
    have ihp := ih hp
    rw [rootGo_cons sub fmt hv]
    by_cases h1 : (sub && v.info.isRoot) = true
    · rw [if_pos h1]
      refine ⟨⟨[], rfl⟩, Or.inr ⟨v, hv, Or.inl (by simpa using h1)⟩, ?_⟩
      intro q hq hq' hne
      exact absurd (isAnc_self_only hq hq') hne
    · rw [if_neg h1]
      by_cases h2 : (fmt && v.info.hasFormat) = true
      · rw [if_pos h2]
        refine ⟨⟨[], rfl⟩, Or.inr ⟨v, hv, Or.inr (by simpa using h2)⟩, ?_⟩
        intro q hq hq' hne
        exact absurd (isAnc_self_only hq hq') hne
      · rw [if_neg h2]
        obtain ⟨⟨pre, hpre⟩, hflag, hnear⟩ := ihp
        refine ⟨⟨k :: pre, by rw [List.cons_append, ← hpre]⟩, hflag, ?_⟩
        intro q hq hrq hne w hw
        obtain ⟨pre2, hq2⟩ := hq
        cases pre2 with
        | nil =>
          -- q is the node itself: its flags are h1, h2
          simp at hq2; subst hq2
          rw [hv] at hw; cases hw
          intro hc
          rcases hc with ⟨hs, hr⟩ | ⟨hf, hfm⟩
          · simp [hs, hr] at h1
          · simp [hf, hfm] at h2
        | cons a pre2 =>
          simp at hq2
          exact hnear q ⟨pre2, hq2.2⟩ hrq hne w hw

/-! ### parents -/

theorem recurseBreak_getLast (n : Ptr) : (recurseBreak n).getLast? = some [] := by
  induction n with
  | nil => rfl
  | cons k up ih =>
    unfold recurseBreak
    rw [List.getLast?_cons]
    rw [ih]; rfl

theorem recurseBreak_ne_nil (n : Ptr) : recurseBreak n ≠ [] := by
  cases n <;> simp [recurseBreak]

theorem recurseBreak_length (n : Ptr) : (recurseBreak n).length = n.length + 1 := by
  induction n with
  | nil => rfl
  | cons k up ih => simp [recurseBreak, ih]

theorem recurseBreak_chain (n : Ptr) (i : Nat) (a b : Ptr)
    (ha : (recurseBreak n)[i]? = some a) (hb : (recurseBreak n)[i + 1]? = some b) : parent a = some b := by
  induction n generalizing i with
  | nil =>
    simp [recurseBreak] at hb
  | cons k up ih =>
    cases i with
    | zero =>
      simp [recurseBreak] at ha hb
      subst ha
      cases up with
      | nil => simp [recurseBreak] at hb; subst hb; rfl
      | cons k2 up2 => simp [recurseBreak] at hb; subst hb; rfl
    | succ i =>
      simp [recurseBreak] at ha hb
      exact ih i ha hb

theorem recurseBreak_head (n : Ptr) : (recurseBreak n)[0]? = some n := by
  cases n <;> simp [recurseBreak]

end Proofs.C12Nav
