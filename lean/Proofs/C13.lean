import FqModel.Total
/-!
  Helper lemmas for C13 (Props/C13.lean): `Outcome` combinators, the bounds the shift-count
  validators guarantee, and the allocation model.
-/
namespace Proofs.C13
open FqModel.Total FqModel.Total.Outcome

/-! ### Outcome -/

theorem noFault_ok {α} (a : α) : (Outcome.ok a).noFault = true := rfl
theorem noFault_err {α} (k : String) : (Outcome.err k : Outcome α).noFault = true := rfl

theorem noFault_iff {α} (o : Outcome α) : o.noFault = true ↔ o.isPanic = false ∧ o.isResource = false := by
  cases o <;> simp [noFault, isPanic, isResource]

/-- `bind` is fault-free when its first part is and the continuation is on every value the
    first part can deliver -/
theorem bind_noFault {α β} (o : Outcome α) (f : α → Outcome β)
    (h1 : o.noFault = true) (h2 : ∀ a, o = .ok a → (f a).noFault = true) :
    (o.bind f).noFault = true := by
  cases o with
  | ok a => exact h2 a rfl
  | err k => rfl
  | panic w => simp [noFault, isPanic] at h1
  | resource w => simp [noFault, isPanic, isResource] at h1

theorem bind_notPanic {α β} (o : Outcome α) (f : α → Outcome β)
    (h1 : o.isPanic = false) (h2 : ∀ a, o = .ok a → (f a).isPanic = false) :
    (o.bind f).isPanic = false := by
  cases o with
  | ok a => exact h2 a rfl
  | err k => rfl
  | panic w => simp [isPanic] at h1
  | resource w => rfl

/-! ### shift counts: an accepted count is at most 2^31 - 1 -/

theorem intShiftCount_noFault (name : String) (r : Int) : (intShiftCount name r).noFault = true := by
  unfold intShiftCount; split <;> rfl

theorem intShiftCount_bound (name : String) (r : Int) (n : Nat) (h : intShiftCount name r = .ok n) :
    n ≤ 2147483647 := by
  unfold intShiftCount at h
  split at h
  · cases h
  · rename_i hc
    simp only [maxInt32, Bool.or_eq_true, decide_eq_true_eq, not_or, Int.not_lt, gt_iff_lt] at hc
    injection h with h; subst h; omega

theorem bigShiftCount_noFault (name : String) (r : Int) : (bigShiftCount name r).noFault = true := by
  unfold bigShiftCount; split <;> rfl

theorem bigShiftCount_bound (name : String) (r : Int) (n : Nat) (h : bigShiftCount name r = .ok n) :
    n ≤ 2147483647 := by
  unfold bigShiftCount at h
  split at h
  · cases h
  · rename_i hc
    simp only [maxInt32, Bool.or_eq_true, decide_eq_true_eq, not_or, Int.not_lt, gt_iff_lt] at hc
    injection h with h; subst h; omega

theorem floatShiftCount_noFault (name : String) (r : Flt) : (floatShiftCount name r).noFault = true := by
  unfold floatShiftCount; split
  · rfl
  · split <;> rfl

theorem tdiv_toNat_le (n : Int) (d : Nat) (k : Nat) (h0 : 0 ≤ n) (h : n ≤ (k : Int) * d) :
    (Int.tdiv n d).toNat ≤ k := by
  obtain ⟨m, rfl⟩ := Int.eq_ofNat_of_zero_le h0
  have hm : m ≤ k * d := by exact_mod_cast h
  have : Int.tdiv (m : Int) (d : Int) = ((m / d : Nat) : Int) := by
    simp [Int.tdiv]
  rw [this, Int.toNat_natCast]
  rcases Nat.eq_zero_or_pos d with rfl | hd
  · simp
  · exact Nat.div_le_of_le_mul (by rw [Nat.mul_comm]; exact hm)

theorem floatShiftCount_bound (name : String) (r : Flt) (n : Nat) (h : floatShiftCount name r = .ok n) :
    n ≤ 2147483647 := by
  unfold floatShiftCount at h
  split at h
  · cases h
  · rename_i hc
    cases r with
    | nan => simp [Flt.between] at hc
    | inf neg => simp [Flt.between] at hc
    | fin num den =>
      simp only [Flt.between, Bool.not_eq_true, Bool.not_eq_false', Bool.and_eq_true, decide_eq_true_eq,
        maxInt32] at hc
      simp only at h
      injection h with h; subst h
      have h1 : (0 : Int) ≤ num := by have := hc.1; omega
      have h2 : num ≤ ((2147483647 : Nat) : Int) * den := by
        have := of_decide_eq_true hc.2
        simpa using this
      exact tdiv_toNat_le num den 2147483647 h1 h2

/-! ### allocation -/

theorem bigLsh_noFault (l : Int) (n : Nat) (h : n ≤ 2147483647) : (bigLsh l n).noFault = true := by
  unfold bigLsh makeslicePanicBits resourceBits
  have h1 : ¬ n > 2 ^ 51 := by
    have : (2147483647 : Nat) < 2 ^ 51 := by decide
    omega
  have h2 : ¬ n > 2 ^ 36 := by
    have : (2147483647 : Nat) < 2 ^ 36 := by decide
    omega
  simp [h1, h2, noFault, isPanic, isResource]

/-! ### binopTypeSwitch: fault-free callbacks give a fault-free operator -/

theorem binop_noFault (name : String) (a b : JV)
    (fi : Int → Int → Outcome JV) (ff : Flt → Flt → Outcome JV) (fb : Int → Int → Outcome JV)
    (hi : ∀ l r, (fi l r).noFault = true) (hf : ∀ l r, (ff l r).noFault = true)
    (hb : ∀ l r, (fb l r).noFault = true) :
    (binop name a b fi ff fb).noFault = true := by
  unfold binop
  split <;> first | exact hi _ _ | exact hf _ _ | exact hb _ _ | rfl

/-! ### asciiwriter: the invariant of the line buffer -/

/-- good states: the pending bytes fit the buffer, which is never empty -/
def AwInv (h : LineWriter) : Prop := h.bufOffset ≤ h.bufLen ∧ 1 ≤ h.bufLen

/-- what a Write may deliver: a good state (same width) — never a panic, never a resource fault -/
def AwGood (width : Nat) : Outcome (LineWriter × Nat) → Prop
  | .ok (h', _) => AwInv h' ∧ h'.width = width
  | .err _ => True
  | .panic _ => False
  | .resource _ => False

theorem asciiLoop_good (p : List Nat) : ∀ (h : LineWriter) (written : Nat), AwInv h →
    AwGood h.width (asciiLoop (fun bo c => bo + c + 1) (fun need => need * 2) h written p) := by
  induction p with
  | nil => intro h written hinv; exact ⟨hinv, rfl⟩
  | cons c rest ih =>
    intro h written hinv
    obtain ⟨h1, h2⟩ := hinv
    unfold asciiLoop
    simp only
    by_cases hg : h.bufOffset + c + 1 > h.bufLen
    · -- grow
      have e1 : ¬ h.bufOffset > h.bufLen := by omega
      have e2 : ¬ h.bufOffset > (h.bufOffset + c + 1) * 2 := by omega
      have e3 : ¬ h.bufOffset + c ≥ (h.bufOffset + c + 1) * 2 := by omega
      have e4 : ¬ h.bufOffset + c + 1 > (h.bufOffset + c + 1) * 2 := by omega
      have e5 : ¬ h.bufOffset + c > (h.bufOffset + c + 1) * 2 := by omega
      simp only [hg, if_true, goSliceTo, goIndex, e1, e2, e3, e4, e5, if_false, Outcome.bind]
      split
      · exact ih _ _ ⟨by simp, by simp; omega⟩
      · split
        · exact ih _ _ ⟨by simp, by simp; omega⟩
        · exact ih _ _ ⟨by simp; omega, by simp; omega⟩
    · have e2 : ¬ h.bufOffset > h.bufLen := by omega
      have e3 : ¬ h.bufOffset + c ≥ h.bufLen := by omega
      have e4 : ¬ h.bufOffset + c + 1 > h.bufLen := by omega
      have e5 : ¬ h.bufOffset + c > h.bufLen := by omega
      simp only [hg, if_false, goSliceTo, goIndex, e2, e3, e5, Outcome.bind]
      split
      · exact ih _ _ ⟨by simp, by simp; omega⟩
      · split
        · exact ih _ _ ⟨by simp, by simp; omega⟩
        · exact ih _ _ ⟨by simp; omega, by simp; omega⟩

theorem asciiWrite_good (h : LineWriter) (p : List Nat) (hw : 1 ≤ h.width) (hinv : AwInv h) :
    AwGood h.width (asciiWrite h p) := by
  obtain ⟨h1, h2⟩ := hinv
  unfold asciiWrite asciiWriteWith
  have hw0 : (h.width == 0) = false := by simp; omega
  simp only [hw0]
  by_cases hc : (decide (max h.offset h.start > h.start) && max h.offset h.start % h.width == 0) = true
  · have e : ¬ 0 ≥ h.bufLen := by omega
    simp only [hc, goIndex, e, Outcome.bind]
    exact asciiLoop_good p _ _ ⟨by show 1 ≤ h.bufLen; omega, by show 1 ≤ h.bufLen; omega⟩
  · simp only [hc, Outcome.bind]
    exact asciiLoop_good p _ _ ⟨by show h.bufOffset ≤ h.bufLen; omega, by show 1 ≤ h.bufLen; omega⟩

theorem writeAll_ascii_good (chunks : List (List Nat)) : ∀ (h : LineWriter) (total : Nat), 1 ≤ h.width → AwInv h →
    AwGood h.width (writeAll asciiWrite h total chunks) := by
  induction chunks with
  | nil => intro h total _ hinv; exact ⟨hinv, rfl⟩
  | cons p ps ih =>
    intro h total hw hinv
    unfold writeAll
    have hg := asciiWrite_good h p hw hinv
    cases hr : asciiWrite h p with
    | ok r =>
      rw [hr] at hg
      obtain ⟨hi, hwid⟩ := hg
      simp only [Outcome.bind]
      have := ih r.1 (total + r.2) (by rw [hwid]; exact hw) hi
      rw [hwid] at this
      exact this
    | err k => trivial
    | panic w => rw [hr] at hg; exact hg.elim
    | resource w => rw [hr] at hg; exact hg.elim

/-! ### hexpairwriter: fits as long as a formatted byte is at most 199 bytes -/

theorem succ_mod_of_ne (a w : Nat) (hw : 1 ≤ w) (h : a % w ≠ w - 1) : (a + 1) % w = a % w + 1 := by
  have hlt : a % w < w := Nat.mod_lt _ (by omega)
  rw [Nat.add_mod]
  by_cases h1 : w = 1
  · subst h1; simp at h; omega
  · have : 1 % w = 1 := Nat.mod_eq_of_lt (by omega)
    rw [this]
    exact Nat.mod_eq_of_lt (by omega)

def HpInv (h : LineWriter) : Prop :=
  1 ≤ h.width ∧ h.bufLen = h.width * 200 + 1 ∧ h.bufOffset ≤ 1 + 200 * (h.offset % h.width)

theorem hexpairLoop_good (p : List Nat) (hp : ∀ c ∈ p, c ≤ 199) : ∀ (h : LineWriter) (written : Nat), HpInv h →
    AwGood h.width (hexpairLoopWith false h written p) := by
  induction p with
  | nil =>
    intro h written hinv
    obtain ⟨h1, h2, h3⟩ := hinv
    have hlt : h.offset % h.width < h.width := Nat.mod_lt _ (by omega)
    exact ⟨⟨by omega, by omega⟩, rfl⟩
  | cons c rest ih =>
    intro h written hinv
    obtain ⟨h1, h2, h3⟩ := hinv
    have hc : c ≤ 199 := hp c (by simp)
    have hrest : ∀ c ∈ rest, c ≤ 199 := fun x hx => hp x (by simp [hx])
    have hlt : h.offset % h.width < h.width := Nat.mod_lt _ (by omega)
    unfold hexpairLoopWith
    have e1 : ¬ h.bufOffset > h.bufLen := by omega
    have e2 : ¬ h.bufOffset + c ≥ h.bufLen := by omega
    have e3 : ¬ h.bufOffset + c + 1 > h.bufLen := by omega
    have e4 : ¬ h.bufOffset + c + 1 - 1 > h.bufLen := by omega
    simp only [Bool.false_and, Bool.false_eq_true, goSliceTo, goIndex, e1, e2, e3, e4, if_false, Outcome.bind]
    split
    · exact ih hrest _ _ ⟨h1, h2, by simp⟩
    · split
      · exact ih hrest _ _ ⟨h1, h2, by simp⟩
      · rename_i hA hB
        have hne : h.offset % h.width ≠ h.width - 1 := by
          intro heq
          apply hA
          simp [heq]
          cases rest with
          | nil => simp at hB
          | cons _ _ => simp
        have hs := succ_mod_of_ne h.offset h.width h1 hne
        refine ih hrest _ _ ⟨h1, h2, ?_⟩
        show h.bufOffset + c + 1 ≤ 1 + 200 * ((h.offset + 1) % h.width)
        rw [hs]; omega

/-! ### hexpairwriter with the grow check: the same local argument as asciiwriter -/

theorem hexpairLoop_grow_good (p : List Nat) : ∀ (h : LineWriter) (written : Nat), AwInv h →
    AwGood h.width (hexpairLoopWith true h written p) := by
  induction p with
  | nil => intro h written hinv; exact ⟨hinv, rfl⟩
  | cons c rest ih =>
    intro h written hinv
    obtain ⟨h1, h2⟩ := hinv
    unfold hexpairLoopWith
    simp only [Bool.true_and]
    by_cases hg : h.bufOffset + c + 1 > h.bufLen
    · have e1 : ¬ h.bufOffset > h.bufLen := by omega
      have e2 : ¬ h.bufOffset > (h.bufOffset + c + 1) * 2 := by omega
      have e3 : ¬ h.bufOffset + c ≥ (h.bufOffset + c + 1) * 2 := by omega
      have e4 : ¬ h.bufOffset + c + 1 > (h.bufOffset + c + 1) * 2 := by omega
      have e5 : ¬ h.bufOffset + c + 1 - 1 > (h.bufOffset + c + 1) * 2 := by omega
      simp only [hg, decide_true, if_true, goSliceTo, goIndex, e1, e2, e3, e4, e5, if_false, Outcome.bind]
      split
      · exact ih _ _ ⟨by simp, by simp; omega⟩
      · split
        · exact ih _ _ ⟨by simp, by simp; omega⟩
        · exact ih _ _ ⟨by simp; omega, by simp; omega⟩
    · have e2 : ¬ h.bufOffset > h.bufLen := by omega
      have e3 : ¬ h.bufOffset + c ≥ h.bufLen := by omega
      have e4 : ¬ h.bufOffset + c + 1 > h.bufLen := by omega
      have e5 : ¬ h.bufOffset + c + 1 - 1 > h.bufLen := by omega
      simp only [hg, decide_false, Bool.false_eq_true, if_false, goSliceTo, goIndex, e2, e3, e5, Outcome.bind]
      split
      · exact ih _ _ ⟨by simp, by simp; omega⟩
      · split
        · exact ih _ _ ⟨by simp, by simp; omega⟩
        · exact ih _ _ ⟨by simp; omega, by simp; omega⟩

theorem hexpairWrite_good (h : LineWriter) (p : List Nat) (hw : 1 ≤ h.width) (hinv : AwInv h) :
    AwGood h.width (hexpairWrite h p) := by
  obtain ⟨h1, h2⟩ := hinv
  unfold hexpairWrite hexpairWriteWith
  have hw0 : (h.width == 0) = false := by simp; omega
  simp only [hw0, Bool.false_eq_true, if_false]
  by_cases hc : max h.offset h.start > h.start
  · have e : ¬ 0 ≥ h.bufLen := by omega
    simp only [hc, if_true, goIndex, e, if_false, Outcome.bind]
    exact hexpairLoop_grow_good p _ _ ⟨by show 1 ≤ h.bufLen; omega, by show 1 ≤ h.bufLen; omega⟩
  · simp only [hc, if_false, Outcome.bind]
    exact hexpairLoop_grow_good p _ _ ⟨by show h.bufOffset ≤ h.bufLen; omega, by show 1 ≤ h.bufLen; omega⟩

theorem writeAll_hexpair_good (chunks : List (List Nat)) : ∀ (h : LineWriter) (total : Nat), 1 ≤ h.width → AwInv h →
    AwGood h.width (writeAll hexpairWrite h total chunks) := by
  induction chunks with
  | nil => intro h total _ hinv; exact ⟨hinv, rfl⟩
  | cons p ps ih =>
    intro h total hw hinv
    unfold writeAll
    have hg := hexpairWrite_good h p hw hinv
    cases hr : hexpairWrite h p with
    | ok r =>
      rw [hr] at hg
      obtain ⟨hi, hwid⟩ := hg
      simp only [Outcome.bind]
      have := ih r.1 (total + r.2) (by rw [hwid]; exact hw) hi
      rw [hwid] at this
      exact this
    | err k => trivial
    | panic w => rw [hr] at hg; exact hg.elim
    | resource w => rw [hr] at hg; exact hg.elim

end Proofs.C13
