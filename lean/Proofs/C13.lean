import FqModel.Total
/-!
  Helper lemmas for C13 (Props/C13.lean): `Outcome` combinators, the bounds the shift-count
  validators guarantee, and the allocation model.
-/
namespace Proofs.C13
open FqModel.Total FqModel.Total.Outcome

/-! ### Outcome -/

theorem noFault_ok {α} (a : α) : (Outcome.ok a).noFault = true := rfl
theorem noFault_err {α} (k : String) : (Outcome.err k : Outcome α).noFault = true := rfl

theorem noFault_iff {α} (o : Outcome α) : o.noFault = true ↔ o.isPanic = false ∧ o.isResource = false := by
  cases o <;> simp [noFault, isPanic, isResource]

/-- `bind` is fault-free when its first part is and the continuation is on every value the
    first part can deliver -/
theorem bind_noFault {α β} (o : Outcome α) (f : α → Outcome β)
    (h1 : o.noFault = true) (h2 : ∀ a, o = .ok a → (f a).noFault = true) :
    (o.bind f).noFault = true := by
  cases o with
  | ok a => exact h2 a rfl
  | err k => rfl
  | panic w => simp [noFault, isPanic] at h1
  | resource w => simp [noFault, isPanic, isResource] at h1

theorem bind_notPanic {α β} (o : Outcome α) (f : α → Outcome β)
    (h1 : o.isPanic = false) (h2 : ∀ a, o = .ok a → (f a).isPanic = false) :
    (o.bind f).isPanic = false := by
  cases o with
  | ok a => exact h2 a rfl
  | err k => rfl
  | panic w => simp [isPanic] at h1
  | resource w => rfl

/-! ### shift counts: an accepted count is at most 2^31 - 1 -/

theorem intShiftCount_noFault (name : String) (r : Int) : (intShiftCount name r).noFault = true := by
  unfold intShiftCount; split <;> rfl

theorem intShiftCount_bound (name : String) (r : Int) (n : Nat) (h : intShiftCount name r = .ok n) :
    n ≤ 2147483647 := by
  unfold intShiftCount at h
  split at h
  · cases h
  · rename_i hc
    simp only [maxInt32, Bool.or_eq_true, decide_eq_true_eq, not_or, Int.not_lt, gt_iff_lt] at hc
    injection h with h; subst h; omega

theorem bigShiftCount_noFault (name : String) (r : Int) : (bigShiftCount name r).noFault = true := by
  unfold bigShiftCount; split <;> rfl

theorem bigShiftCount_bound (name : String) (r : Int) (n : Nat) (h : bigShiftCount name r = .ok n) :
    n ≤ 2147483647 := by
  unfold bigShiftCount at h
  split at h
  · cases h
  · rename_i hc
    simp only [maxInt32, Bool.or_eq_true, decide_eq_true_eq, not_or, Int.not_lt, gt_iff_lt] at hc
    injection h with h; subst h; omega

theorem floatShiftCount_noFault (name : String) (r : Flt) : (floatShiftCount name r).noFault = true := by
  unfold floatShiftCount; split
  · rfl
  · split <;> rfl

theorem tdiv_toNat_le (n : Int) (d : Nat) (k : Nat) (h0 : 0 ≤ n) (h : n ≤ (k : Int) * d) :
    (Int.tdiv n d).toNat ≤ k := by
  obtain ⟨m, rfl⟩ := Int.eq_ofNat_of_zero_le h0
  have hm : m ≤ k * d := by exact_mod_cast h
  have : Int.tdiv (m : Int) (d : Int) = ((m / d : Nat) : Int) := by
    simp [Int.tdiv]
  rw [this, Int.toNat_natCast]
  rcases Nat.eq_zero_or_pos d with rfl | hd
  · simp
  · exact Nat.div_le_of_le_mul (by rw [Nat.mul_comm]; exact hm)

theorem floatShiftCount_bound (name : String) (r : Flt) (n : Nat) (h : floatShiftCount name r = .ok n) :
    n ≤ 2147483647 := by
  unfold floatShiftCount at h
  split at h
  · cases h
  · rename_i hc
    cases r with
    | nan => simp [Flt.between] at hc
    | inf neg => simp [Flt.between] at hc
    | fin num den =>
      simp only [Flt.between, Bool.not_eq_true, Bool.not_eq_false', Bool.and_eq_true, decide_eq_true_eq,
        maxInt32] at hc
      simp only at h
      injection h with h; subst h
      have h1 : (0 : Int) ≤ num := by have := hc.1; omega
      have h2 : num ≤ ((2147483647 : Nat) : Int) * den := by
        have := of_decide_eq_true hc.2
        simpa using this
      exact tdiv_toNat_le num den 2147483647 h1 h2

/-! ### allocation -/

theorem bigLsh_noFault (l : Int) (n : Nat) (h : n ≤ 2147483647) : (bigLsh l n).noFault = true := by
  unfold bigLsh makeslicePanicBits resourceBits
  have h1 : ¬ n > 2 ^ 51 := by
    have : (2147483647 : Nat) < 2 ^ 51 := by decide
    omega
  have h2 : ¬ n > 2 ^ 36 := by
    have : (2147483647 : Nat) < 2 ^ 36 := by decide
    omega
  simp [h1, h2, noFault, isPanic, isResource]

/-! ### binopTypeSwitch: fault-free callbacks give a fault-free operator -/

theorem binop_noFault (name : String) (a b : JV)
    (fi : Int → Int → Outcome JV) (ff : Flt → Flt → Outcome JV) (fb : Int → Int → Outcome JV)
    (hi : ∀ l r, (fi l r).noFault = true) (hf : ∀ l r, (ff l r).noFault = true)
    (hb : ∀ l r, (fb l r).noFault = true) :
    (binop name a b fi ff fb).noFault = true := by
  unfold binop
  split <;> first | exact hi _ _ | exact hf _ _ | exact hb _ _ | rfl

end Proofs.C13
