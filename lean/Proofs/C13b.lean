import FqModel.Total2
import Proofs.C13
/-! helper lemmas for the second batch of C13 models (FqModel/Total2.lean) -/
namespace Proofs.C13
open FqModel.Total FqModel.Total.Outcome

theorem noFault_bind_ok {α β} (o : Outcome α) (f : α → Outcome β)
    (ho : o.noFault = true) (hf : ∀ a, o = .ok a → (f a).noFault = true) : (o.bind f).noFault = true := by
  cases o with
  | ok a => exact hf a rfl
  | err k => rfl
  | panic w => simp [noFault, isPanic] at ho
  | resource w => simp [noFault, isPanic, isResource] at ho

theorem goGet_noFault (l : List Nat) (i : Nat) (h : i < l.length) : (goGet l i).noFault = true := by
  simp [goGet, h, noFault, isPanic, isResource]

theorem goIndex_noFault (len i : Nat) (h : i < len) : (goIndex len i).noFault = true := by
  have : ¬ i ≥ len := by omega
  simp [goIndex, this, noFault, isPanic, isResource]

theorem goSliceTo_noFault (len hi : Nat) (h : hi ≤ len) : (goSliceTo len hi).noFault = true := by
  have : ¬ hi > len := by omega
  simp [goSliceTo, this, noFault, isPanic, isResource]

theorem goSliceFrom_noFault (len lo : Nat) (h : lo ≤ len) : (goSliceFrom len lo).noFault = true := by
  have : ¬ lo > len := by omega
  simp [goSliceFrom, this, noFault, isPanic, isResource]

/-! ### hex.Decode: invariant j = 2i+1, j ≤ len+1, dstLen = len/2 -/

/-- the loop never faults and returns a count within `dst` -/
theorem hexLoop_good (fuel : Nat) (src : List Nat) : ∀ (i j : Nat) (out : List Nat),
    j = 2 * i + 1 → j ≤ src.length + 1 →
    ∃ n out' e, hexLoop fuel src (src.length / 2) i j out = .ok (n, out', e) ∧ n ≤ src.length / 2 := by
  induction fuel with
  | zero =>
    intro i j out hj hle
    exact ⟨i, out, some "fuel", rfl, by omega⟩
  | succ fuel ih =>
    intro i j out hj hle
    unfold hexLoop
    by_cases hlt : j < src.length
    · have h1 : j - 1 < src.length := by omega
      simp only [hlt, if_true, goGet, h1, Outcome.bind]
      by_cases ha : reverseHex (src.getD (j - 1) 0) > 15
      · simp only [ha, if_true]; exact ⟨i, out, _, rfl, by omega⟩
      · simp only [ha, if_false]
        by_cases hb : reverseHex (src.getD j 0) > 15
        · simp only [hb, if_true]; exact ⟨i, out, _, rfl, by omega⟩
        · simp only [hb, if_false]
          have hi : ¬ i ≥ src.length / 2 := by omega
          simp only [goIndex, hi, if_false]
          exact ih (i + 1) (j + 2) _ (by omega) (by omega)
    · simp only [hlt, if_false]
      by_cases hodd : (src.length % 2 == 1) = true
      · have hodd' : src.length % 2 = 1 := by simpa using hodd
        have h1 : j - 1 < src.length := by omega
        simp only [hodd, if_true, goGet, h1, Outcome.bind]
        by_cases ha : reverseHex (src.getD (j - 1) 0) > 15
        · simp only [ha, if_true]; exact ⟨i, out, _, rfl, by omega⟩
        · simp only [ha, if_false]; exact ⟨i, out, _, rfl, by omega⟩
      · simp only [hodd]
        exact ⟨i, out, none, rfl, by omega⟩

/-! ### nalUnescapeReader.Read: invariant ni ≤ i, n = n0 - (i - ni), i + len rest = n0 ≤ plen -/

theorem nalLoop_good (plen : Nat) : ∀ (bs : List Nat) (i ni : Nat) (n : Int) (st : NalState) (out : List Nat),
    ni ≤ i → i + bs.length ≤ plen → n = (ni : Int) + bs.length → out.length = ni →
    ∃ n' ni' st' out', nalLoop plen bs i ni n st out = .ok (n', ni', st', out') ∧ n' = (ni' : Int) ∧ out'.length = ni' ∧ ni' ≤ plen := by
  intro bs
  induction bs with
  | nil =>
    intro i ni n st out h1 h2 h3 h4
    exact ⟨n, ni, st, out, rfl, by simpa using h3, h4, by simp at h2; omega⟩
  | cons b rest ih =>
    intro i ni n st out h1 h2 h3 h4
    unfold nalLoop
    simp only [List.length_cons] at h2 h3
    by_cases hc : (st.z0 && st.z1 && b == 3) = true
    · simp only [hc, if_true]
      exact ih (i + 1) ni (n - 1) _ out (by omega) (by omega) (by omega) h4
    · simp only [hc]
      have hi : ¬ i ≥ plen := by omega
      have hni : ¬ ni ≥ plen := by omega
      simp only [goIndex, hi, hni, if_false, Outcome.bind]
      exact ih (i + 1) (ni + 1) n _ (out ++ [b]) (by omega) (by omega) (by omega) (by simp [h4])

/-! ### offsetToLineColumn -/

theorem indexNL_lt (l : List Nat) (no : Nat) (h : indexNL l = some no) : no < l.length := by
  induction l generalizing no with
  | nil => simp [indexNL] at h
  | cons b rest ih =>
    unfold indexNL at h
    by_cases hb : (b == 10) = true
    · simp only [hb, if_true] at h
      cases h; simp
    · simp only [hb] at h
      cases hr : indexNL rest with
      | none => simp [hr] at h
      | some k =>
        simp [hr] at h
        have := ih k hr
        simp; omega

theorem lineColLoop_good (s : List Nat) (offset : Int) : ∀ (fuel co line : Nat),
    co ≤ s.length → s.length + 1 ≤ fuel + co →
    ∃ r, lineColLoop fuel s offset co line = .ok (some r) := by
  intro fuel
  induction fuel with
  | zero => intro co line h1 h2; omega
  | succ fuel ih =>
    intro co line h1 h2
    unfold lineColLoop
    have hs : ¬ co > s.length := by omega
    simp only [goSliceFrom, hs, if_false, Outcome.bind]
    cases hix : indexNL (s.drop co) with
    | none => exact ⟨_, rfl⟩
    | some no =>
      have hlt := indexNL_lt _ _ hix
      simp only [List.length_drop] at hlt
      by_cases hge : ((co + no : Nat) : Int) ≥ offset
      · simp only [hge, if_true]; exact ⟨_, rfl⟩
      · simp only [hge, if_false]
        exact ih (co + no + 1) (line + 1) (by omega) (by omega)

/-! ### url unescape: the second loop is safe on what the first loop accepted -/

theorem unescapeBuild_good (plusSpace : Bool) : ∀ (n : Nat) (s : List Nat), s.length ≤ n → unescapeCheck s = true →
    ∃ t, unescapeBuild plusSpace s = .ok t := by
  intro n
  induction n with
  | zero =>
    intro s hl _
    have : s = [] := List.eq_nil_of_length_eq_zero (by omega)
    subst this; exact ⟨[], rfl⟩
  | succ n ih =>
    intro s hl hc
    match s with
    | [] => exact ⟨[], rfl⟩
    | c :: rest =>
      unfold unescapeCheck at hc
      unfold unescapeBuild
      by_cases h37 : (c == 37) = true
      · simp only [h37, if_true] at hc ⊢
        match rest with
        | [] => simp at hc
        | [_] => simp at hc
        | a :: b :: rest' =>
          simp only [Bool.and_eq_true] at hc
          simp only [List.length_cons] at hl
          obtain ⟨t, ht⟩ := ih rest' (by omega) hc.2
          simp only [ht, Outcome.bind]; exact ⟨_, rfl⟩
      · simp only [h37] at hc ⊢
        simp only [List.length_cons] at hl
        obtain ⟨t, ht⟩ := ih rest (by omega) hc
        simp only [ht, Outcome.bind]; exact ⟨_, rfl⟩

theorem unescape_noFault (plusSpace : Bool) (s : List Nat) : (unescape plusSpace s).noFault = true := by
  unfold unescape
  by_cases hc : unescapeCheck s = true
  · obtain ⟨t, ht⟩ := unescapeBuild_good plusSpace s.length s (Nat.le_refl _) hc
    simp [hc, ht, noFault, isPanic, isResource]
  · simp [hc, noFault, isPanic, isResource]

/-- unescape is `ok` or `err`, nothing else -/
theorem unescape_cases (plusSpace : Bool) (s : List Nat) :
    (∃ t, unescape plusSpace s = .ok t) ∨ (∃ k, unescape plusSpace s = .err k) := by
  unfold unescape
  by_cases hc : unescapeCheck s = true
  · obtain ⟨t, ht⟩ := unescapeBuild_good plusSpace s.length s (Nat.le_refl _) hc
    left; exact ⟨t, by simp [hc, ht]⟩
  · right; exact ⟨"invalid URL escape", by simp [hc]⟩

/-! ### url.Values: every key holds at least one value -/

def ValuesNonEmpty (m : Values) : Prop := ∀ p ∈ m, p.2.length ≥ 1

theorem valuesAdd_nonEmpty (m : Values) (k v : List Nat) (h : ValuesNonEmpty m) : ValuesNonEmpty (valuesAdd m k v) := by
  induction m with
  | nil =>
    intro p hp
    simp [valuesAdd] at hp
    subst hp; simp
  | cons hd rest ih =>
    obtain ⟨k', vs⟩ := hd
    unfold valuesAdd
    have hrest : ValuesNonEmpty rest := fun p hp => h p (List.mem_cons_of_mem _ hp)
    by_cases hk : (k' == k) = true
    · simp only [hk, if_true]
      intro p hp
      rcases List.mem_cons.mp hp with rfl | hp
      · simp
      · exact hrest p hp
    · simp only [hk]
      intro p hp
      rcases List.mem_cons.mp hp with rfl | hp
      · exact h _ (List.mem_cons_self ..)
      · exact ih hrest p hp

theorem parseQueryPieces_good : ∀ (pieces : List (List Nat)) (m : Values) (e : Bool), ValuesNonEmpty m →
    ∃ m' e', parseQueryPieces pieces m e = .ok (m', e') ∧ ValuesNonEmpty m' := by
  intro pieces
  induction pieces with
  | nil => intro m e h; exact ⟨m, e, rfl, h⟩
  | cons piece rest ih =>
    intro m e h
    unfold parseQueryPieces
    by_cases h1 : (piece.contains 59) = true
    · simp only [h1, if_true]; exact ih m true h
    · simp only [h1]
      by_cases h2 : piece.isEmpty = true
      · simp only [h2, if_true]; exact ih m e h
      · simp only [h2]
        rcases unescape_cases true (cutAt 61 piece).1 with ⟨k', hk⟩ | ⟨_, hk⟩
        · rcases unescape_cases true (cutAt 61 piece).2.1 with ⟨v', hv⟩ | ⟨_, hv⟩
          · simp only [hk, hv]; exact ih _ e (valuesAdd_nonEmpty m k' v' h)
          · simp only [hk, hv]; exact ih m true h
        · simp only [hk]; exact ih m true h

theorem fromURLValues_noFault (m : Values) (h : ValuesNonEmpty m) : (fromURLValues m).noFault = true := by
  induction m with
  | nil => rfl
  | cons hd rest ih =>
    obtain ⟨k, vs⟩ := hd
    unfold fromURLValues
    have hvs : vs.length ≥ 1 := h (k, vs) (List.mem_cons_self ..)
    have hrest : ValuesNonEmpty rest := fun p hp => h p (List.mem_cons_of_mem _ hp)
    apply noFault_bind_ok
    · by_cases hgt : vs.length > 1
      · simp [hgt, noFault, isPanic, isResource]
      · simp only [hgt, if_false]; exact goIndex_noFault _ _ (by omega)
    · intro _ _
      apply noFault_bind_ok _ _ (ih hrest)
      intro _ _; rfl

/-! ### NormalizeToStrings keeps the outer shape -/

theorem normStr_obj (kv : List (String × JV)) : normStr (.obj kv) = .obj (normStrKV kv) := by
  simp [normStr]

theorem normStr_arr (l : List JV) : normStr (.arr l) = .arr (normStrL l) := by
  simp [normStr]

/-! ### ToBitReader: a number's range request is always inside its own bytes -/

theorem numBitReader_noFault (inArr : Bool) (i : Int) : (numBitReader inArr i).noFault = true := by
  unfold numBitReader bitioxRange
  split
  · split <;> rfl
  · simp only []
    split
    · rfl
    · split
      · rfl
      · split <;> rfl

mutual
theorem toBitReader_noFault (dvBits : Nat) (inArr : Bool) : ∀ v : JV, (toBitReader dvBits inArr v).noFault = true
  | .dv _ => by simp [toBitReader, noFault, isPanic, isResource]
  | .bin _ _ => by simp [toBitReader, noFault, isPanic, isResource]
  | .str _ => by simp [toBitReader, noFault, isPanic, isResource]
  | .int i => by simp only [toBitReader]; exact numBitReader_noFault _ _
  | .big i => by simp only [toBitReader]; exact numBitReader_noFault _ _
  | .shl l n => by simp only [toBitReader]; exact numBitReader_noFault _ _
  | .flt f => by simp only [toBitReader]; exact numBitReader_noFault _ _
  | .arr l => by simp only [toBitReader]; exact toBitReaderList_noFault dvBits l
  | .null => by simp [toBitReader, noFault, isPanic, isResource]
  | .bool _ => by simp [toBitReader, noFault, isPanic, isResource]
  | .obj _ => by simp [toBitReader, noFault, isPanic, isResource]
theorem toBitReaderList_noFault (dvBits : Nat) : ∀ l : List JV, (toBitReaderList dvBits l).noFault = true
  | [] => by simp [toBitReaderList, noFault, isPanic, isResource]
  | v :: rest => by
    simp only [toBitReaderList]
    apply noFault_bind_ok _ _ (toBitReader_noFault dvBits true v)
    intro _ _
    apply noFault_bind_ok _ _ (toBitReaderList_noFault dvBits rest)
    intro _ _; rfl
end

end Proofs.C13
