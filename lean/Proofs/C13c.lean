import FqModel.Total3
import Proofs.C13
/-!
  Helper lemmas for the wrap-around dimension of C13 (FqModel/Total3.lean): facts about `wrap64`
  and the proofs behind the `_tobits`, index / slice and dump range theorems of Props/C13.lean.
-/
namespace Proofs.C13
open FqModel.Total FqModel.Total.Outcome

/-! ### wrap64 -/

theorem wrap64_id (x : Int) (h1 : -9223372036854775808 ≤ x) (h2 : x ≤ 9223372036854775807) : wrap64 x = x := by
  unfold wrap64 minInt64 two64; omega

theorem wrap64_range (x : Int) : -9223372036854775808 ≤ wrap64 x ∧ wrap64 x ≤ 9223372036854775807 := by
  unfold wrap64 minInt64 two64; omega

theorem wrap64_eq_zero_iff (x : Int) : wrap64 x = 0 ↔ x % 18446744073709551616 = 0 := by
  unfold wrap64 minInt64 two64; omega

/-- 8·p wraps to zero exactly for the multiples of 2^61 -/
theorem wrap64_mul8_eq_zero_iff (p : Int) : wrap64 (8 * p) = 0 ↔ p % 2305843009213693952 = 0 := by
  rw [wrap64_eq_zero_iff]; omega

/-- 1·p never wraps to zero for a non-zero Go int -/
theorem wrap64_mul1_ne_zero (p : Int) (h1 : -9223372036854775808 ≤ p) (h2 : p ≤ 9223372036854775807) (hp : p ≠ 0) :
    wrap64 (1 * p) ≠ 0 := by
  rw [Int.one_mul, wrap64_id p h1 h2]; exact hp

/-! ### Go `%` -/

theorem goMod_noFault (a b : Int) (hb : b ≠ 0) : ∃ r, goMod a b = .ok r ∧ r = a.tmod b := by
  unfold goMod
  have : (b == 0) = false := by simpa using hb
  simp [this]

theorem goMod_zero_panics (a : Int) : goMod a 0 = .panic "runtime error: integer divide by zero" := by
  unfold goMod; simp

theorem goDiv_noFault (a b : Int) (hb : b ≠ 0) : ∃ r, goDiv a b = .ok r ∧ r = wrap64 (a.tdiv b) := by
  unfold goDiv
  have : (b == 0) = false := by simpa using hb
  simp [this]

/-! ### `_tobits` -/

/-- the divisor `_tobits` uses is never zero: the zero test is made on the WRAPPED product -/
theorem tobitsPad_divisor_ne_zero (unit p : Int) (hu : unit = 1 ∨ unit = 8) :
    (if wrap64 (unit * p) == 0 then unit else wrap64 (unit * p)) ≠ 0 := by
  split
  · rcases hu with h | h <;> omega
  · rename_i hz; simpa using hz

theorem tobitsPad_ok (unit p len : Int) (hu : unit = 1 ∨ unit = 8) :
    ∃ pad, tobitsPad unit p len = .ok pad := by
  unfold tobitsPad
  simp only
  have hd := tobitsPad_divisor_ne_zero unit p hu
  obtain ⟨r, hr, _⟩ := goMod_noFault len _ hd
  obtain ⟨r2, hr2, _⟩ := goMod_noFault (wrap64 ((if wrap64 (unit * p) == 0 then unit else wrap64 (unit * p)) - r)) _ hd
  exact ⟨r2, by simp only [hr, Outcome.bind, hr2]⟩

theorem padReaderLen_noFault (pad len : Int) : (padReaderLen pad len).noFault = true := by
  unfold padReaderLen zeroEndPos
  split
  · rfl
  · simp only [Outcome.bind]; split <;> rfl

theorem toReaderLen_noFault (pad len : Int) : (toReaderLen pad len).noFault = true := by
  unfold toReaderLen
  split
  · rfl
  · exact padReaderLen_noFault pad len

/-- whatever pad function is used: if it is fault-free for units 1 and 8, the whole of `_tobits` is -/
theorem toBitsFullWith_noFault (padFn : Int → Int → Int → Outcome Int)
    (h : ∀ unit p len, unit = 1 ∨ unit = 8 → (padFn unit p len).noFault = true)
    (len : Int) (o : ToBitsOpts) (keep : Bool) : (toBitsFullWith padFn len o keep).noFault = true := by
  unfold toBitsFullWith
  split
  · rfl
  · rename_i hc
    have hu : o.unit = 1 ∨ o.unit = 8 := by
      simp only [bne_iff_ne, ne_eq, Bool.and_eq_true, not_and, Decidable.not_not] at hc
      by_cases h1 : o.unit = 1
      · exact Or.inl h1
      · exact Or.inr (hc h1)
    apply bind_noFault _ _ (h _ _ _ hu)
    intro pad _
    split
    · rfl
    · apply bind_noFault _ _ (toReaderLen_noFault pad len)
      intro l _; rfl

theorem tobitsPad_noFault (unit p len : Int) (hu : unit = 1 ∨ unit = 8) : (tobitsPad unit p len).noFault = true := by
  obtain ⟨pad, h⟩ := tobitsPad_ok unit p len hu
  rw [h]; rfl

/-! ### truncated remainder: size and sign -/

theorem tmod_natAbs_le (a b : Int) : (a.tmod b).natAbs ≤ a.natAbs := by
  rw [Int.natAbs_tmod]; exact Nat.mod_le _ _

theorem tmod_natAbs_lt (a b : Int) (hb : b ≠ 0) : (a.tmod b).natAbs < b.natAbs := by
  rw [Int.natAbs_tmod]; exact Nat.mod_lt _ (by omega)

theorem tmod_nonpos (a b : Int) (ha : a ≤ 0) : a.tmod b ≤ 0 := by
  have h : (-a).tmod b = -(a.tmod b) := Int.neg_tmod a b
  have := Int.tmod_nonneg b (show 0 ≤ -a by omega)
  omega

/-- a truncated remainder of a Go int is a Go int, has the sign of the dividend and is smaller
    than the divisor -/
theorem tmod_goint (a b : Int) (h1 : -9223372036854775808 ≤ a) (h2 : a ≤ 9223372036854775807) :
    -9223372036854775808 ≤ a.tmod b ∧ a.tmod b ≤ 9223372036854775807 ∧ (0 ≤ a → 0 ≤ a.tmod b ∧ a.tmod b ≤ a) ∧
    (a ≤ 0 → a.tmod b ≤ 0 ∧ a ≤ a.tmod b) := by
  have hle := tmod_natAbs_le a b
  have hs1 : 0 ≤ a → 0 ≤ a.tmod b := fun h => Int.tmod_nonneg b h
  have hs2 : a ≤ 0 → a.tmod b ≤ 0 := tmod_nonpos a b
  by_cases ha : 0 ≤ a
  · have := hs1 ha
    refine ⟨by omega, by omega, fun _ => by omega, fun h => ?_⟩
    have := hs2 h; omega
  · have := hs2 (by omega)
    refine ⟨by omega, by omega, fun h => by omega, fun _ => by omega⟩

theorem tdiv_natAbs_le (a b : Int) : (a.tdiv b).natAbs ≤ a.natAbs := by
  rw [Int.natAbs_tdiv]; exact Nat.div_le_self _ _

/-! ### the length of a `_tobits` result -/

theorem noFault_not_panic {α} (o : Outcome α) (h : o.noFault = true) : o.isPanic = false := by
  cases o <;> simp_all [noFault, isPanic, isResource]

/-- the value `tobitsPad` delivers is a Go int; when it is positive it is at most 2^63-1 -/
theorem tobitsPad_goint (unit p len pad : Int) (h : tobitsPad unit p len = .ok pad) :
    -9223372036854775808 ≤ pad ∧ pad ≤ 9223372036854775807 := by
  unfold tobitsPad goMod at h
  simp only at h
  generalize (if wrap64 (unit * p) == 0 then unit else wrap64 (unit * p)) = d at h
  by_cases hd : (d == 0) = true
  · simp [hd, Outcome.bind] at h
  · simp only [hd, Bool.false_eq_true, if_false, Outcome.bind] at h
    injection h with h; subst h
    have hr := wrap64_range (d - len.tmod d)
    have := tmod_goint (wrap64 (d - len.tmod d)) d hr.1 hr.2
    omega

/-- the reader behind a padded binary: an error, or EXACTLY pad + len bits with pad ≥ 0 and no
    wrap-around (a sum that wraps is negative, and a negative end is ErrOffset) -/
theorem toReaderLen_spec (pad len l : Int) (hp1 : -9223372036854775808 ≤ pad) (hp2 : pad ≤ 9223372036854775807)
    (hl0 : 0 ≤ len) (hl : len ≤ 9223372036854775807) (h : toReaderLen pad len = .ok l) :
    0 ≤ pad ∧ l = pad + len ∧ l ≤ 9223372036854775807 := by
  unfold toReaderLen at h
  by_cases hz : (pad == 0) = true
  · have : pad = 0 := by simpa using hz
    simp only [hz, if_true] at h
    injection h with h; subst h; omega
  · simp only [hz, Bool.false_eq_true, if_false] at h
    unfold padReaderLen zeroEndPos at h
    by_cases hneg : pad < 0
    · simp [hneg, Outcome.bind] at h
    · have h0 : goAdd 0 pad = pad := by
        unfold goAdd; rw [Int.zero_add]; exact wrap64_id pad hp1 hp2
      simp only [hneg, if_false, Outcome.bind, h0] at h
      by_cases he : goAdd pad len < 0
      · simp [he] at h
      · simp only [he, if_false] at h
        injection h with h
        have : goAdd pad len = pad + len := by
          unfold goAdd wrap64 minInt64 two64 at he ⊢; omega
        have hr := wrap64_range (pad + len)
        unfold goAdd at this h
        omega

/-- `_tobits` without keep_range, when it answers: the result is the input plus a NON-NEGATIVE
    number of pad bits, nothing wrapped -/
theorem toBitsFull_len_spec (len : Int) (o : ToBitsOpts) (res : BinRes) (hl0 : 0 ≤ len) (hl : len ≤ 9223372036854775807)
    (h : toBitsFull len o false = .ok res) :
    ∃ pad, 0 ≤ pad ∧ res = ⟨len + pad, o.unit, 0⟩ ∧ len + pad ≤ 9223372036854775807 ∧ (o.unit = 1 ∨ o.unit = 8) := by
  unfold toBitsFull toBitsFullWith at h
  by_cases hc : (o.unit != 1 && o.unit != 8) = true
  · simp [hc] at h
  · simp only [hc, Bool.false_eq_true, if_false] at h
    have hu : o.unit = 1 ∨ o.unit = 8 := by
      simp only [bne_iff_ne, ne_eq, Bool.and_eq_true, not_and, Decidable.not_not] at hc
      by_cases h1 : o.unit = 1
      · exact Or.inl h1
      · exact Or.inr (hc h1)
    obtain ⟨pad, hp⟩ := tobitsPad_ok o.unit o.padToUnits len hu
    have hg := tobitsPad_goint _ _ _ _ hp
    simp only [hp, Outcome.bind] at h
    cases hr : toReaderLen pad len with
    | ok l =>
      simp only [hr] at h
      injection h with h
      obtain ⟨h1, h2, h3⟩ := toReaderLen_spec pad len l hg.1 hg.2 hl0 hl hr
      exact ⟨pad, h1, by rw [← h, h2, Int.add_comm], by omega, hu⟩
    | err k => simp [hr] at h
    | panic w => simp [hr] at h
    | resource w => simp [hr] at h

/-- … and a pad that fits is HONOURED: for a product unit·pad_to_units that does not overflow the
    result is the input padded up to the next multiple of it -/
theorem toBitsFull_honoured (len unit p : Int) (hu : unit = 1 ∨ unit = 8) (hp : 0 < p)
    (hP : unit * p ≤ 9223372036854775807) (hl0 : 0 ≤ len) (hl : len + unit * p ≤ 9223372036854775807) :
    ∃ L, toBitsFull len ⟨unit, p⟩ false = .ok ⟨L, unit, 0⟩ ∧ L % (unit * p) = 0 ∧ len ≤ L ∧ L < len + unit * p := by
  generalize hPd : unit * p = P at *
  have hP0 : 0 < P := by rcases hu with h | h <;> subst h <;> omega
  have hw : wrap64 P = P := wrap64_id P (by omega) hP
  have hz : (P == 0) = false := by simp; omega
  -- r = len % P
  have hr0 : 0 ≤ len % P := Int.emod_nonneg len (by omega)
  have hr1 : len % P < P := Int.emod_lt_of_pos len hP0
  have hdiv : P * (len / P) + len % P = len := Int.mul_ediv_add_emod len P
  have ht : len.tmod P = len % P := by
    rw [Int.tmod_eq_emod]; simp [hl0]
  unfold toBitsFull toBitsFullWith
  have hc : (unit != 1 && unit != 8) = false := by rcases hu with h | h <;> subst h <;> rfl
  simp only [hc, Bool.false_eq_true, if_false]
  unfold tobitsPad
  simp only [hPd, hw, hz, Bool.false_eq_true, if_false, goMod, Outcome.bind, ht]
  have hw2 : wrap64 (P - len % P) = P - len % P := wrap64_id _ (by omega) (by omega)
  simp only [hw2]
  by_cases hr : len % P = 0
  · -- already a multiple: pad 0
    have : (P - len % P).tmod P = 0 := by rw [hr, Int.sub_zero]; exact Int.tmod_self
    simp only [this, toReaderLen, beq_self_eq_true, if_true]
    exact ⟨len, rfl, hr, by omega, by omega⟩
  · have hlt : (P - len % P).tmod P = P - len % P := Int.tmod_eq_of_lt (by omega) (by omega)
    have hnz : ((P - len % P) == 0) = false := by simp; omega
    simp only [hlt, toReaderLen, hnz, Bool.false_eq_true, if_false, padReaderLen, zeroEndPos]
    have hneg : ¬ (P - len % P < 0) := by omega
    have h0 : goAdd 0 (P - len % P) = P - len % P := by
      unfold goAdd; rw [Int.zero_add]; exact hw2
    have h1 : goAdd (P - len % P) len = P - len % P + len := by
      unfold goAdd; exact wrap64_id _ (by omega) (by omega)
    have h2 : ¬ (P - len % P + len < 0) := by omega
    simp only [hneg, if_false, Outcome.bind, h0, h1, h2]
    refine ⟨P - len % P + len, rfl, ?_, by omega, by omega⟩
    have : P - len % P + len = P * (len / P + 1) := by
      rw [Int.mul_add, Int.mul_one]; omega
    rw [this]; exact Int.mul_emod_right _ _

/-! ### the seeded variants of the pad arithmetic -/

theorem toBitsFullWith_unit8 (padFn : Int → Int → Int → Outcome Int) (len p : Int) (keep : Bool) :
    toBitsFullWith padFn len ⟨8, p⟩ keep =
      (padFn 8 p len).bind fun pad =>
        if keep then .ok ⟨len, 8, pad⟩ else (toReaderLen pad len).bind fun l => .ok ⟨l, 8, 0⟩ := by
  unfold toBitsFullWith; rfl

theorem tail_not_panic (len pad : Int) (keep : Bool) :
    (if keep then (Outcome.ok ⟨len, 8, pad⟩ : Outcome BinRes)
      else (toReaderLen pad len).bind fun l => .ok ⟨l, 8, 0⟩).isPanic = false := by
  split
  · rfl
  · apply bind_notPanic _ _ (noFault_not_panic _ (toReaderLen_noFault pad len))
    intro l _; rfl

/-- with a divisor `d`: the two `%` of the pad computation panic iff d = 0 -/
theorem padMods_panic_iff (d len : Int) (k : Int → Outcome BinRes) (hk : ∀ x, (k x).isPanic = false) :
    (((goMod len d).bind fun r => goMod (goSub d r) d).bind k).isPanic = true ↔ d = 0 := by
  by_cases hd : d = 0
  · subst hd; simp [goMod, Outcome.bind, isPanic]
  · have hz : (d == 0) = false := by simpa using hd
    simp only [goMod, hz, Bool.false_eq_true, if_false, Outcome.bind, hk]
    simp [hd]

/-- S5-C13-1 exactly: with unit 8 the seeded `_tobits` dies of an integer divide by zero iff
    pad_to_units is a POSITIVE multiple of 2^61 -/
theorem toBitsFullSeeded_panics_iff (len p : Int) (keep : Bool) :
    (toBitsFullSeeded len ⟨8, p⟩ keep).isPanic = true ↔ (0 < p ∧ p % 2305843009213693952 = 0) := by
  unfold toBitsFullSeeded
  rw [toBitsFullWith_unit8]
  unfold tobitsPadSeeded
  simp only
  rw [padMods_panic_iff _ _ _ (fun x => tail_not_panic len x keep)]
  by_cases hp : p > 0
  · have e : (if p > 0 then goMul 8 p else 8) = wrap64 (8 * p) := by simp [hp, goMul]
    rw [e, wrap64_mul8_eq_zero_iff]
    constructor
    · intro h; exact ⟨hp, h⟩
    · intro h; exact h.2
  · have e : (if p > 0 then goMul 8 p else 8) = 8 := by simp [hp]
    rw [e]
    constructor
    · intro h; omega
    · intro h; exact absurd h.1 hp

/-- the variant that tests pad_to_units for zero before multiplying dies for the NEGATIVE
    multiples of 2^61 as well -/
theorem toBitsFullTestFirst_panics_iff (len p : Int) (keep : Bool) :
    (toBitsFullTestFirst len ⟨8, p⟩ keep).isPanic = true ↔ (p ≠ 0 ∧ p % 2305843009213693952 = 0) := by
  unfold toBitsFullTestFirst
  rw [toBitsFullWith_unit8]
  unfold tobitsPadTestFirst
  simp only
  rw [padMods_panic_iff _ _ _ (fun x => tail_not_panic len x keep)]
  by_cases hp : p = 0
  · subst hp; simp
  · have hz : (p == 0) = false := by simpa using hp
    simp only [hz, Bool.false_eq_true, if_false, goMul]
    rw [wrap64_mul8_eq_zero_iff]
    constructor
    · intro h; exact ⟨hp, h⟩
    · intro h; exact h.2

/-- with unit 1 no Go int pad_to_units makes the product zero: both variants are fault-free there -/
theorem tobitsPadSeeded_unit1_noFault (p len : Int) (h1 : -9223372036854775808 ≤ p) (h2 : p ≤ 9223372036854775807) :
    (tobitsPadSeeded 1 p len).noFault = true := by
  unfold tobitsPadSeeded
  simp only
  have hd : (if p > 0 then goMul 1 p else 1) ≠ 0 := by
    split
    · rename_i hp; unfold goMul; exact wrap64_mul1_ne_zero p h1 h2 (by omega)
    · omega
  obtain ⟨r, hr, _⟩ := goMod_noFault len _ hd
  obtain ⟨r2, hr2, _⟩ := goMod_noFault (goSub (if p > 0 then goMul 1 p else 1) r) _ hd
  simp only [hr, Outcome.bind, hr2]; rfl

/-! ### Binary index / slice with the range start -/

theorem clampIndex_range' (i lo hi : Int) (h : lo ≤ hi) :
    lo ≤ clampIndex i lo hi ∧ clampIndex i lo hi ≤ hi := by
  unfold clampIndex
  simp only
  split <;> (try split) <;> omega

/-- the unit count of a binary: no wrap, and count·unit ≤ len -/
theorem goQuot_units (len unit : Int) (hu : 0 < unit) (hl : 0 ≤ len) (hmax : len ≤ 9223372036854775807) :
    goQuot len unit = len.tdiv unit ∧ 0 ≤ len.tdiv unit ∧ len.tdiv unit * unit ≤ len ∧ len.tdiv unit ≤ len := by
  have h0 : 0 ≤ len.tdiv unit := Int.tdiv_nonneg hl (by omega)
  have hle := tdiv_natAbs_le len unit
  have hmul : len.tdiv unit * unit ≤ len := by
    rw [Int.tdiv_eq_ediv_of_nonneg hl]
    exact Int.ediv_mul_le len (by omega)
  refine ⟨?_, h0, hmul, by omega⟩
  unfold goQuot
  exact wrap64_id _ (by omega) (by omega)

theorem binIndexAt_in_range (bufLen start len unit i : Int) (hu : 0 < unit) (hs : 0 ≤ start) (hl : 0 ≤ len)
    (hb : start + len ≤ bufLen) (hmax : bufLen ≤ 9223372036854775807) :
    binIndexAt bufLen start len unit i = .ok none ∨
    ∃ s, binIndexAt bufLen start len unit i = .ok (some (s, unit)) ∧ start ≤ s ∧ s + unit ≤ start + len := by
  obtain ⟨hq, hl0, hmul, hqle⟩ := goQuot_units len unit hu hl (by omega)
  unfold binIndexAt
  simp only [hq]
  generalize hc : clampIndex i (-1) (len.tdiv unit) = c
  have hcr := clampIndex_range' i (-1) (len.tdiv unit) (by omega)
  rw [hc] at hcr
  by_cases hneg : c < 0
  · left; simp [hneg]
  · by_cases hge : c ≥ len.tdiv unit
    · left; simp [hneg, hge]
    · right
      have hc0 : 0 ≤ c := by omega
      have hc1 : c + 1 ≤ len.tdiv unit := by omega
      have hcu : (c + 1) * unit ≤ len.tdiv unit * unit := Int.mul_le_mul_of_nonneg_right hc1 (by omega)
      have hcu' : c * unit + unit ≤ len := by
        have : (c + 1) * unit = c * unit + unit := by rw [Int.add_mul, Int.one_mul]
        omega
      have hcn : 0 ≤ c * unit := Int.mul_nonneg hc0 (by omega)
      have hw : goMul c unit = c * unit := by unfold goMul; exact wrap64_id _ (by omega) (by omega)
      have hw2 : goAdd start (c * unit) = start + c * unit := by
        unfold goAdd; exact wrap64_id _ (by omega) (by omega)
      refine ⟨start + c * unit, ?_, by omega, by omega⟩
      have hr : ¬ (start + c * unit < 0 || unit < 0 || start + c * unit + unit > bufLen) = true := by
        simp; omega
      simp [hneg, hge, hw, hw2, rangeReq, hr, Outcome.bind]

theorem binSliceAt_in_range (bufLen start len unit s e : Int) (hu : 0 < unit) (hs : 0 ≤ start) (hl : 0 ≤ len)
    (hb : start + len ≤ bufLen) (hmax : bufLen ≤ 9223372036854775807) :
    ∃ st n, binSliceAt bufLen start len unit s e = .ok (st, n) ∧ start ≤ st ∧ 0 ≤ n ∧ st + n ≤ start + len := by
  obtain ⟨hq, hl0, hmul, hqle⟩ := goQuot_units len unit hu hl (by omega)
  unfold binSliceAt
  simp only [hq]
  generalize hsa : clampIndex s 0 (len.tdiv unit) = a
  have har := clampIndex_range' s 0 (len.tdiv unit) hl0
  rw [hsa] at har
  generalize he : clampIndex e a (len.tdiv unit) = b
  have hbr := clampIndex_range' e a (len.tdiv unit) har.2
  rw [he] at hbr
  have h1 : 0 ≤ a * unit := Int.mul_nonneg har.1 (by omega)
  have h2 : 0 ≤ (b - a) * unit := Int.mul_nonneg (by omega) (by omega)
  have h3 : b * unit ≤ len.tdiv unit * unit := Int.mul_le_mul_of_nonneg_right hbr.2 (by omega)
  have h4 : a * unit + (b - a) * unit = b * unit := by rw [← Int.add_mul]; congr 1; omega
  have hw0 : goSub b a = b - a := by unfold goSub; exact wrap64_id _ (by omega) (by omega)
  have hw1 : goMul a unit = a * unit := by unfold goMul; exact wrap64_id _ (by omega) (by omega)
  have hw2 : goMul (b - a) unit = (b - a) * unit := by unfold goMul; exact wrap64_id _ (by omega) (by omega)
  have hw3 : goAdd start (a * unit) = start + a * unit := by unfold goAdd; exact wrap64_id _ (by omega) (by omega)
  refine ⟨start + a * unit, (b - a) * unit, ?_, by omega, h2, by omega⟩
  have hr : ¬ (start + a * unit < 0 || (b - a) * unit < 0 || start + a * unit + (b - a) * unit > bufLen) = true := by
    simp; omega
  simp [hw0, hw1, hw2, hw3, rangeReq, hr]

/-! ### the display range of the hex dump -/

theorem tdiv_nonpos (a b : Int) (ha : a ≤ 0) (hb : 0 ≤ b) : a.tdiv b ≤ 0 := by
  have h : (-a).tdiv b = -(a.tdiv b) := Int.neg_tdiv a b
  have := Int.tdiv_nonneg (show 0 ≤ -a by omega) hb
  omega

/-- a truncated quotient by a non-negative divisor lies between the dividend and 0 -/
theorem tdiv_between (a b : Int) (hb : 0 ≤ b) :
    (0 ≤ a → 0 ≤ a.tdiv b ∧ a.tdiv b ≤ a) ∧ (a ≤ 0 → a ≤ a.tdiv b ∧ a.tdiv b ≤ 0) := by
  have hle := tdiv_natAbs_le a b
  constructor
  · intro h; have := Int.tdiv_nonneg h hb; omega
  · intro h; have := tdiv_nonpos a b h hb; omega

/-- `/ 8` of Go (truncated) in terms of the floor division omega knows -/
theorem tdiv8 (a : Int) : a.tdiv 8 = if 0 ≤ a then a / 8 else -((-a) / 8) := by
  split
  · rename_i h; exact Int.tdiv_eq_ediv_of_nonneg h
  · rename_i h
    have h1 : (-a).tdiv 8 = -(a.tdiv 8) := Int.neg_tdiv a 8
    have h2 : (-a).tdiv 8 = (-a) / 8 := Int.tdiv_eq_ediv_of_nonneg (by omega)
    omega

/-- the last displayed bit is a Go int that never lies beyond the last bit of the value, whatever
    display_bytes·8 wrapped to; and no division by zero on the way (line_bytes·8 is in 8..32768) -/
theorem dumpLastDisplayBit_spec (startBit sizeBits displayBytes lineBytes : Int)
    (hlb1 : 1 ≤ lineBytes) (hlb2 : lineBytes ≤ 4096) (hs : 0 ≤ startBit) (hz : 0 ≤ sizeBits)
    (hmax : startBit + sizeBits ≤ 9223372036854775807) :
    ∃ x, dumpLastDisplayBit startBit sizeBits displayBytes lineBytes = .ok x ∧
      -9223372036854775808 ≤ x ∧ x ≤ startBit + sizeBits - 1 := by
  unfold dumpLastDisplayBit
  have hstop : goSub (goAdd startBit sizeBits) 1 = startBit + sizeBits - 1 := by
    unfold goSub goAdd
    rw [wrap64_id (startBit + sizeBits) (by omega) hmax]
    exact wrap64_id _ (by omega) (by omega)
  have hlb8 : goMul lineBytes 8 = lineBytes * 8 := by unfold goMul; exact wrap64_id _ (by omega) (by omega)
  simp only [hstop, hlb8]
  have hS : -9223372036854775808 ≤ startBit + sizeBits - 1 := by omega
  split
  · have hd : lineBytes * 8 ≠ 0 := by omega
    obtain ⟨m, hm, _⟩ := goMod_noFault (goAdd startBit (goSub (goMul displayBytes 8) 1)) (lineBytes * 8) hd
    simp only [hm, Outcome.bind]
    generalize hL : (if (m != 0) = true then goAdd (goAdd startBit (goSub (goMul displayBytes 8) 1))
      (goSub (goSub (lineBytes * 8) m) 1) else goAdd startBit (goSub (goMul displayBytes 8) 1)) = L
    have hLr : -9223372036854775808 ≤ L := by
      rw [← hL]; split <;> exact (wrap64_range _).1
    by_cases hc : L > startBit + sizeBits - 1
    · exact ⟨startBit + sizeBits - 1, by simp [hc], hS, Int.le_refl _⟩
    · by_cases hc2 : goSub (startBit + sizeBits - 1) L ≤ lineBytes * 8
      · exact ⟨startBit + sizeBits - 1, by simp [hc2], hS, Int.le_refl _⟩
      · exact ⟨L, by simp [hc, hc2], hLr, by omega⟩
  · exact ⟨startBit + sizeBits - 1, rfl, hS, Int.le_refl _⟩

theorem rangeReq_cases (len s n : Int) :
    rangeReq len s n = .err "range" ∨ (rangeReq len s n = .ok (s, n) ∧ 0 ≤ s ∧ 0 ≤ n ∧ s + n ≤ len) := by
  unfold rangeReq
  by_cases hc : (decide (s < 0) || decide (n < 0) || decide (s + n > len)) = true
  · left; simp only [hc, if_true]
  · right
    simp only [hc, Bool.false_eq_true, if_false, true_and]
    simp only [Bool.or_eq_true, decide_eq_true_eq, not_or, Int.not_lt, gt_iff_lt] at hc
    omega

/-- from any last displayed bit that is a Go int not beyond the value: the three divisions have
    a non-zero divisor, the range that is read lies inside the buffer, the number of address lines
    is bounded by the BUFFER (not by display_bytes), and the column writers get a start offset
    inside a line -/
theorem dumpRangeFrom_spec (rootBitLen startBit sizeBits lineBytes ldb : Int)
    (hlb1 : 1 ≤ lineBytes) (hlb2 : lineBytes ≤ 4096) (hs : 0 ≤ startBit) (hz : 0 ≤ sizeBits)
    (hb : startBit + sizeBits ≤ rootBitLen) (hmax : rootBitLen ≤ 9223372036854775807)
    (hl1 : -9223372036854775808 ≤ ldb) (hl2 : ldb ≤ startBit + sizeBits - 1) :
    (dumpRangeFrom rootBitLen startBit sizeBits lineBytes ldb).noFault = true ∧
    ∀ r, dumpRangeFrom rootBitLen startBit sizeBits lineBytes ldb = .ok r →
      0 ≤ r.reqStart ∧ 0 ≤ r.reqBits ∧ r.reqStart + r.reqBits ≤ rootBitLen ∧
      r.addrLines ≤ rootBitLen / 8 + 1 ∧ 0 ≤ r.startLineByteOffset ∧ r.startLineByteOffset < lineBytes := by
  unfold dumpRangeFrom
  -- startByte
  have hsb : goQuot startBit 8 = startBit / 8 := by
    unfold goQuot
    rw [Int.tdiv_eq_ediv_of_nonneg hs]
    exact wrap64_id _ (by omega) (by omega)
  -- lastDisplayByte
  have hldb := tdiv_between ldb 8 (by omega)
  have hlq : goQuot ldb 8 = ldb.tdiv 8 := by
    unfold goQuot
    by_cases h0 : 0 ≤ ldb
    · have := hldb.1 h0; exact wrap64_id _ (by omega) (by omega)
    · have := hldb.2 (by omega); exact wrap64_id _ (by omega) (by omega)
  have hlub : ldb.tdiv 8 ≤ rootBitLen / 8 := by
    by_cases h0 : 0 ≤ ldb
    · rw [Int.tdiv_eq_ediv_of_nonneg h0]; omega
    · have := hldb.2 (by omega); omega
  have hllb : -1152921504606846976 ≤ ldb.tdiv 8 := by
    rw [tdiv8]; split <;> omega
  generalize hq : ldb.tdiv 8 = q at *
  simp only [hsb, hlq]
  have hd : lineBytes ≠ 0 := by omega
  -- startLine, startLineByteOffset, lastDisplayLine
  have hsl := tdiv_between (startBit / 8) lineBytes (by omega)
  have hsl0 := hsl.1 (by omega)
  obtain ⟨sl, hsle, hslv⟩ := goDiv_noFault (startBit / 8) lineBytes hd
  have hslw : sl = (startBit / 8).tdiv lineBytes := by rw [hslv]; exact wrap64_id _ (by omega) (by omega)
  obtain ⟨so, hsoe, hsov⟩ := goMod_noFault (startBit / 8) lineBytes hd
  have hso0 : 0 ≤ so := by rw [hsov]; exact Int.tmod_nonneg _ (by omega)
  have hso1 : so < lineBytes := by rw [hsov]; exact Int.tmod_lt_of_pos _ (by omega)
  have hql := tdiv_between q lineBytes (by omega)
  obtain ⟨ll, hlle, hllv⟩ := goDiv_noFault q lineBytes hd
  have hllw : ll = q.tdiv lineBytes := by
    rw [hllv]
    by_cases h0 : 0 ≤ q
    · have := hql.1 h0; exact wrap64_id _ (by omega) (by omega)
    · have := hql.2 (by omega); exact wrap64_id _ (by omega) (by omega)
  have hllub : ll ≤ rootBitLen / 8 := by
    rw [hllw]
    by_cases h0 : 0 ≤ q
    · have := hql.1 h0; omega
    · have := hql.2 (by omega); omega
  have hlllb : -1152921504606846976 ≤ ll := by
    rw [hllw]
    by_cases h0 : 0 ≤ q
    · have := hql.1 h0; omega
    · have := hql.2 (by omega); omega
  simp only [hsle, hsoe, hlle, Outcome.bind]
  have haddr : goAdd (goSub ll sl) 1 = ll - sl + 1 := by
    unfold goAdd goSub
    rw [wrap64_id (ll - sl) (by omega) (by omega)]
    exact wrap64_id _ (by omega) (by omega)
  generalize goMul (startBit / 8) 8 = A
  generalize (if (if (sizeBits == 0) = true then 0 else goMul (goAdd (goSub q (startBit / 8)) 1) 8) >
      goAdd (goSub (goSub rootBitLen 1) A) 1 then goAdd (goSub (goSub rootBitLen 1) A) 1
    else if (sizeBits == 0) = true then 0 else goMul (goAdd (goSub q (startBit / 8)) 1) 8) = B
  rcases rangeReq_cases rootBitLen A B with he | ⟨hok, h1, h2, h3⟩
  · rw [he]
    exact ⟨rfl, fun r hr => by cases hr⟩
  · rw [hok]
    refine ⟨rfl, fun r hr => ?_⟩
    injection hr with hr; subst hr
    simp only [haddr]
    exact ⟨h1, h2, h3, by omega, hso0, hso1⟩

end Proofs.C13
