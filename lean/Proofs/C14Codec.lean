import FqModel.Codec
/-! C14 helper lemmas: hex, base64, URL escaping, Latin-1, radix (core Lean only). -/
namespace Proofs.C14
open FqModel FqModel.Codec

theorem u8_ofNat_toNat (b : UInt8) : UInt8.ofNat b.toNat = b := by simp

theorem u8_lt (b : UInt8) : b.toNat < 256 := b.toNat_lt

/-! ### hex -/

theorem unhex_hexDig : ∀ n, n < 16 → unhex (hexDig n) = some n := by decide

theorem u8_nibbles (b : UInt8) : UInt8.ofNat (16 * (b.toNat / 16) + b.toNat % 16) = b := by
  rw [Nat.div_add_mod]; exact u8_ofNat_toNat b

theorem hexDec_hexEnc (bs : Bytes) : hexDec (hexEnc bs) = some bs := by
  induction bs with
  | nil => rfl
  | cons b bs ih =>
    have h1 : b.toNat / 16 < 16 := by have := u8_lt b; omega
    have h2 : b.toNat % 16 < 16 := by omega
    simp only [hexEnc, hexDec, unhex_hexDig _ h1, unhex_hexDig _ h2, ih, Option.map_some, u8_nibbles]

theorem hexDec_odd (bs : Bytes) (h : bs.length % 2 = 1) : hexDec bs = none := by
  fun_induction hexDec bs with
  | case1 => simp at h
  | case2 => rfl
  | case3 p q rest a b _ _ ih =>
    have : rest.length % 2 = 1 := by simp only [List.length_cons] at h; omega
    simp [ih this]
  | case4 => rfl

theorem hexDec_nonhex (bs : Bytes) (h : ∃ c ∈ bs, unhex c = none) : hexDec bs = none := by
  fun_induction hexDec bs with
  | case1 => simp at h
  | case2 => rfl
  | case3 p q rest a b ha hb ih =>
    obtain ⟨c, hc, hn⟩ := h
    simp only [List.mem_cons] at hc
    rcases hc with rfl | rfl | hc
    · simp [hn] at hb
    · simp [hn] at ha
    · simp [ih ⟨c, hc, hn⟩]
  | case4 => rfl

/-- what the round-trip proof needs from an alphabet -/
structure B64.WF (e : B64) : Prop where
  val_sym : ∀ v, v < 64 → e.val (e.sym v) = some v
  val_pad : e.val pad = none
  sym_nl : ∀ v, v < 64 → isNL (e.sym v) = false

theorem wf_std : B64.WF b64Std := ⟨by decide, by decide, by decide⟩
theorem wf_url : B64.WF b64Url := ⟨by decide, by decide, by decide⟩
theorem wf_rawstd : B64.WF b64RawStd := ⟨by decide, by decide, by decide⟩
theorem wf_rawurl : B64.WF b64RawUrl := ⟨by decide, by decide, by decide⟩

theorem b64_bytes (a b c : UInt8) :
    byte0 (a.toNat / 4) (a.toNat % 4 * 16 + b.toNat / 16) = a ∧
    byte1 (a.toNat % 4 * 16 + b.toNat / 16) (b.toNat % 16 * 4 + c.toNat / 64) = b ∧
    byte2 (b.toNat % 16 * 4 + c.toNat / 64) (c.toNat % 64) = c := by
  have ha := u8_lt a; have hb := u8_lt b; have hc := u8_lt c
  refine ⟨?_, ?_, ?_⟩
  · unfold byte0
    have : a.toNat / 4 * 4 + (a.toNat % 4 * 16 + b.toNat / 16) / 16 = a.toNat := by omega
    rw [this]; exact u8_ofNat_toNat a
  · unfold byte1
    have : (a.toNat % 4 * 16 + b.toNat / 16) % 16 * 16 + (b.toNat % 16 * 4 + c.toNat / 64) / 4 = b.toNat := by omega
    rw [this]; exact u8_ofNat_toNat b
  · unfold byte2
    have : (b.toNat % 16 * 4 + c.toNat / 64) % 4 * 64 + c.toNat % 64 = c.toNat := by omega
    rw [this]; exact u8_ofNat_toNat c

theorem decQ_enc (e : B64) (wf : B64.WF e) (bs : Bytes) : e.decQ (e.enc bs) = some bs := by
  fun_induction B64.enc e bs with
  | case1 => rfl
  | case2 a =>
    have ha := u8_lt a
    have h := b64_bytes a 0 0
    simp at h
    cases hp : e.padded <;>
      simp [B64.decQ, wf.val_sym (a.toNat / 4) (by omega), wf.val_sym (a.toNat % 4 * 16) (by omega), wf.val_pad, hp, h]
  | case3 a b =>
    have ha := u8_lt a; have hb := u8_lt b
    have h := b64_bytes a b 0
    simp at h
    cases hp : e.padded <;>
      simp [B64.decQ, wf.val_sym (a.toNat / 4) (by omega), wf.val_sym (a.toNat % 4 * 16 + b.toNat / 16) (by omega),
        wf.val_sym (b.toNat % 16 * 4) (by omega), wf.val_pad, hp, h]
  | case4 a b c rest ih =>
    have ha := u8_lt a; have hb := u8_lt b; have hc := u8_lt c
    have h := b64_bytes a b c
    simp [B64.decQ, wf.val_sym (a.toNat / 4) (by omega), wf.val_sym (a.toNat % 4 * 16 + b.toNat / 16) (by omega),
        wf.val_sym (b.toNat % 16 * 4 + c.toNat / 64) (by omega), wf.val_sym (c.toNat % 64) (by omega), ih, h]

theorem enc_no_nl (e : B64) (wf : B64.WF e) (bs : Bytes) : ∀ c ∈ e.enc bs, isNL c = false := by
  have hpad : isNL pad = false := by decide
  fun_induction B64.enc e bs with
  | case1 => simp
  | case2 a =>
    have ha := u8_lt a
    intro c hc
    cases hp : e.padded <;> simp [hp] at hc <;> rcases hc with rfl | rfl | hc <;>
      first | exact wf.sym_nl _ (by omega) | (try (rcases hc with rfl | rfl)) <;> exact hpad
  | case3 a b =>
    have ha := u8_lt a; have hb := u8_lt b
    intro c hc
    cases hp : e.padded <;> simp [hp] at hc <;> rcases hc with rfl | rfl | rfl | hc <;>
      first | exact wf.sym_nl _ (by omega) | (subst hc; exact hpad)
  | case4 a b c rest ih =>
    have ha := u8_lt a; have hb := u8_lt b; have hc := u8_lt c
    intro x hx
    simp only [List.mem_cons] at hx
    rcases hx with rfl | rfl | rfl | rfl | hx
    · exact wf.sym_nl _ (by omega)
    · exact wf.sym_nl _ (by omega)
    · exact wf.sym_nl _ (by omega)
    · exact wf.sym_nl _ (by omega)
    · exact ih x hx

theorem dec_enc (e : B64) (wf : B64.WF e) (bs : Bytes) : e.dec (e.enc bs) = some bs := by
  unfold B64.dec
  have : (e.enc bs).filter (fun c => !isNL c) = e.enc bs := by
    apply List.filter_eq_self.mpr
    intro c hc; simp [enc_no_nl e wf bs c hc]
  rw [this]; exact decQ_enc e wf bs

theorem enc_length (e : B64) (bs : Bytes) :
    (e.enc bs).length = if e.padded then 4 * ((bs.length + 2) / 3) else (8 * bs.length + 5) / 6 := by
  fun_induction B64.enc e bs with
  | case1 => simp
  | case2 a => cases hp : e.padded <;> simp
  | case3 a b => cases hp : e.padded <;> simp
  | case4 a b c rest ih =>
    simp only [List.length_cons, ih]
    cases hp : e.padded <;> simp <;> omega

theorem char_toNat_ofNat (n : Nat) (h : n.isValidChar) : (Char.ofNat n).toNat = n := by
  unfold Char.ofNat
  simp [h, Char.toNat, Char.ofNatAux]

/-! ### URL escaping -/

theorem unhex_upperhex : ∀ n, n < 16 → unhex (upperhex n) = some n := by decide

/-- a byte that is copied verbatim is neither '%' nor (in query mode) '+' -/
theorem verbatim_safe_nat : ∀ n, n < 256 → ∀ q : Bool,
    shouldEscape q (UInt8.ofNat n) = false →
      (UInt8.ofNat n == (37 : UInt8)) = false ∧ ((UInt8.ofNat n == (43 : UInt8)) && q) = false := by
  decide +kernel

theorem verbatim_safe (q : Bool) (c : UInt8) (h : shouldEscape q c = false) :
    (c == (37 : UInt8)) = false ∧ ((c == (43 : UInt8)) && q) = false := by
  have := verbatim_safe_nat c.toNat (u8_lt c) q
  rw [u8_ofNat_toNat] at this
  exact this h

theorem urlUnescape_urlEscape (q : Bool) (bs : Bytes) : urlUnescape q (urlEscape q bs) = some bs := by
  induction bs with
  | nil => rfl
  | cons c cs ih =>
    unfold urlEscape
    split
    · rename_i h
      have hc : c = 32 := by simp at h; exact h.1
      have hq : q = true := by simp at h; exact h.2
      subst hc; subst hq
      unfold urlUnescape
      simp [ih]
    · split
      · have h1 : c.toNat / 16 < 16 := by have := u8_lt c; omega
        have h2 : c.toNat % 16 < 16 := by omega
        unfold urlUnescape
        simp only [unhex_upperhex _ h1, unhex_upperhex _ h2, ih, Option.map_some, u8_nibbles, beq_self_eq_true, if_true]
      · rename_i h1 h2
        have h2' : shouldEscape q c = false := by simpa using h2
        obtain ⟨n37, n43⟩ := verbatim_safe q c h2'
        unfold urlUnescape
        simp [n37, n43, ih]

/-! ### ISO-8859-1 -/

theorem toLatin1_fromLatin1 (bs : Bytes) : toLatin1 (fromLatin1 bs) = some bs := by
  induction bs with
  | nil => rfl
  | cons b bs ih =>
    have hb := u8_lt b
    have hv : (Char.ofNat b.toNat).toNat = b.toNat := by
      apply char_toNat_ofNat; left; omega
    simp only [fromLatin1, List.map_cons] at ih ⊢
    simp only [toLatin1, hv, hb, if_true, ih, Option.map_some, u8_ofNat_toNat]

theorem latin1_rt (s : List Char) (h : ∀ c ∈ s, c.toNat < 256) :
    ∃ bs, toLatin1 s = some bs ∧ fromLatin1 bs = s := by
  induction s with
  | nil => exact ⟨[], rfl, rfl⟩
  | cons c cs ih =>
    obtain ⟨bs, h1, h2⟩ := ih (fun x hx => h x (List.mem_cons_of_mem _ hx))
    have hc : c.toNat < 256 := h c (List.mem_cons_self ..)
    refine ⟨UInt8.ofNat c.toNat :: bs, ?_, ?_⟩
    · simp [toLatin1, hc, h1]
    · simp only [fromLatin1, List.map_cons] at h2 ⊢
      rw [h2]
      have : (UInt8.ofNat c.toNat).toNat = c.toNat := by simp [UInt8.toNat_ofNat']; omega
      rw [this, Char.ofNat_toNat]

theorem latin1_rej (s : List Char) (h : ∃ c ∈ s, 256 ≤ c.toNat) : toLatin1 s = none := by
  induction s with
  | nil => simp at h
  | cons c cs ih =>
    obtain ⟨x, hx, hge⟩ := h
    simp only [List.mem_cons] at hx
    unfold toLatin1
    split
    · rcases hx with rfl | hx
      · omega
      · simp [ih ⟨x, hx, hge⟩]
    · rfl
/-! ### radix -/

theorem radixVal_table : ∀ d, d < 64 → radixVal (radixTable.getD d '?') = some d := by decide

theorem radixDigits_ne_nil (b fuel n : Nat) (h : 0 < fuel) : radixDigitsLSF b fuel n ≠ [] := by
  cases fuel with
  | zero => omega
  | succ f => unfold radixDigitsLSF; split <;> simp

theorem dropLast_cons_of_ne_nil {α} (x : α) (l : List α) (h : l ≠ []) : (x :: l).dropLast = x :: l.dropLast := by
  cases l with
  | nil => contradiction
  | cons y ys => rfl

/-- evaluating the digit characters (least significant first, trailing 0 removed) gives back n -/
theorem fromRadixLSF_digits (b : Nat) (hb2 : 2 ≤ b) (hb64 : b ≤ 64) :
    ∀ fuel n pow ans, n < fuel →
      fromRadixLSF b (((radixDigitsLSF b fuel n).dropLast).map (fun d => radixTable.getD d '?')) pow ans
        = some (ans + pow * n) := by
  intro fuel
  induction fuel with
  | zero => intro n pow ans h; omega
  | succ f ih =>
    intro n pow ans h
    unfold radixDigitsLSF
    split
    · rename_i hn
      have hlt : n / b < f := by
        have : n / b < n := Nat.div_lt_self hn (by omega)
        omega
      rw [dropLast_cons_of_ne_nil _ _ (radixDigits_ne_nil b f (n / b) (by omega))]
      simp only [List.map_cons, fromRadixLSF]
      have hd : n % b < 64 := by have := Nat.mod_lt n (show 0 < b by omega); omega
      rw [radixVal_table _ hd]
      simp only
      rw [if_neg (by have := Nat.mod_lt n (show 0 < b by omega); omega)]
      rw [ih (n / b) (pow * b) (ans + pow * (n % b)) hlt]
      congr 1
      rw [Nat.add_assoc, Nat.mul_assoc, ← Nat.mul_add, Nat.mod_add_div]
    · rename_i hn
      have : n = 0 := by omega
      subst this
      simp [fromRadixLSF]

theorem reverse_drop_one_reverse {α} (l : List α) : (l.reverse.drop 1).reverse = l.dropLast := by
  rw [List.drop_one, List.tail_reverse, List.reverse_reverse]

theorem radixDigits_dropLast_ne_nil (b fuel n : Nat) (hn : 0 < n) (hf : n < fuel) :
    (radixDigitsLSF b fuel n).dropLast ≠ [] := by
  obtain ⟨f, rfl⟩ : ∃ f, fuel = f + 1 := ⟨fuel - 1, by omega⟩
  unfold radixDigitsLSF
  simp only [hn, if_true]
  rw [dropLast_cons_of_ne_nil _ _ (radixDigits_ne_nil b f (n / b) (by omega))]
  simp

theorem fromRadix_toRadix (b n : Nat) (hb2 : 2 ≤ b) (hb64 : b ≤ 64) :
    ∃ s, toRadix b n = some s ∧ fromRadix b s = some n := by
  unfold toRadix
  have h1 : ¬ b < 2 := by omega
  have hlen : radixTable.length = 64 := by decide
  by_cases hn : n = 0
  · subst hn
    refine ⟨['0'], by simp [h1], ?_⟩
    have h0 : radixVal '0' = some 0 := by decide
    simp [fromRadix, fromRadixLSF, h0]
    omega
  · simp only [h1, hn, if_false, hlen, hb64, if_true]
    refine ⟨_, rfl, ?_⟩
    unfold fromRadix
    have hne : ((radixDigitsLSF b (n + 1) n).reverse.drop 1) ≠ [] := by
      intro h
      have := congrArg List.reverse h
      rw [reverse_drop_one_reverse] at this
      exact radixDigits_dropLast_ne_nil b (n + 1) n (by omega) (by omega) (by simpa using this)
    rw [if_neg (by simp only [List.isEmpty_iff, List.map_eq_nil_iff]; exact hne)]
    rw [← List.map_reverse, reverse_drop_one_reverse]
    have := fromRadixLSF_digits b hb2 hb64 (n + 1) n 1 0 (by omega)
    simpa using this

theorem radixDigits_lt (b : Nat) (hb : 0 < b) : ∀ fuel n, ∀ d ∈ radixDigitsLSF b fuel n, d < b := by
  intro fuel
  induction fuel with
  | zero => intro n d hd; simp [radixDigitsLSF] at hd
  | succ f ih =>
    intro n d hd
    unfold radixDigitsLSF at hd
    split at hd
    · simp only [List.mem_cons] at hd
      rcases hd with rfl | hd
      · exact Nat.mod_lt _ hb
      · exact ih _ _ hd
    · simp only [List.mem_singleton] at hd
      subst hd; exact Nat.mod_lt _ hb

/-- the most significant digit (first of the reversed list) of a positive number is not 0 -/
theorem radixDigits_msd (b : Nat) (hb2 : 2 ≤ b) :
    ∀ fuel n, 0 < n → n < fuel →
      ∃ m rest, ((radixDigitsLSF b fuel n).dropLast).reverse = m :: rest ∧ 0 < m := by
  intro fuel
  induction fuel with
  | zero => intro n _ h; omega
  | succ f ih =>
    intro n hn h
    unfold radixDigitsLSF
    simp only [hn, if_true]
    have hlt : n / b < f := by
      have : n / b < n := Nat.div_lt_self hn (by omega)
      omega
    have hf0 : 0 < f := by have := Nat.zero_le (n / b); omega
    rw [dropLast_cons_of_ne_nil _ _ (radixDigits_ne_nil b f (n / b) hf0)]
    by_cases hq : n / b = 0
    · have hf : 0 < f := by omega
      obtain ⟨f', rfl⟩ : ∃ f', f = f' + 1 := ⟨f - 1, by omega⟩
      have hnb : n < b := by
        rcases Nat.lt_or_ge n b with h' | h'
        · exact h'
        · have := Nat.div_pos h' (by omega); omega
      rw [hq]
      refine ⟨n % b, [], ?_, ?_⟩
      · simp [radixDigitsLSF]
      · rw [Nat.mod_eq_of_lt hnb]; exact hn
    · obtain ⟨m, rest, hr, hm⟩ := ih (n / b) (Nat.pos_of_ne_zero hq) hlt
      refine ⟨m, rest ++ [n % b], ?_, hm⟩
      simp [hr]

theorem table_ne_zero : ∀ d, d < 64 → 0 < d → radixTable.getD d '?' ≠ '0' := by decide +kernel

theorem toRadix_canonical (b n : Nat) (hb2 : 2 ≤ b) (hb64 : b ≤ 64) :
    ∃ s, toRadix b n = some s ∧ s ≠ [] ∧ (n = 0 → s = ['0']) ∧ (0 < n → s.head? ≠ some '0') ∧
      ∀ c ∈ s, ∃ d, d < b ∧ c = radixTable.getD d '?' := by
  unfold toRadix
  have h1 : ¬ b < 2 := by omega
  have hlen : radixTable.length = 64 := by decide
  by_cases hn : n = 0
  · subst hn
    refine ⟨['0'], by simp [h1], by simp, fun _ => rfl, fun h => by omega, ?_⟩
    intro c hc
    simp only [List.mem_singleton] at hc
    exact ⟨0, by omega, by subst hc; decide⟩
  · simp only [h1, hn, if_false, hlen, hb64, if_true]
    have hpos : 0 < n := by omega
    obtain ⟨m, rest, hr, hm⟩ := radixDigits_msd b hb2 (n + 1) n hpos (by omega)
    have hdl : (radixDigitsLSF b (n + 1) n).reverse.drop 1 = m :: rest := by
      have := reverse_drop_one_reverse (radixDigitsLSF b (n + 1) n)
      rw [← hr, ← this, List.reverse_reverse]
    have hmlt : m < b := by
      apply radixDigits_lt b (by omega) (n + 1) n
      have : m ∈ ((radixDigitsLSF b (n + 1) n).dropLast).reverse := by rw [hr]; simp
      exact List.dropLast_subset _ (List.mem_reverse.mp this)
    refine ⟨_, rfl, ?_, (by intro h; first | exact h.elim | omega), fun _ => ?_, ?_⟩
    · rw [hdl]; simp
    · rw [hdl]
      simp only [List.map_cons, List.head?_cons, ne_eq, Option.some.injEq]
      exact table_ne_zero m (by omega) hm
    · intro c hc
      simp only [List.mem_map] at hc
      obtain ⟨d, hd, rfl⟩ := hc
      refine ⟨d, ?_, rfl⟩
      apply radixDigits_lt b (by omega) (n + 1) n
      exact List.mem_reverse.mp (List.mem_of_mem_drop hd)
/-- a character is a valid digit of base b -/
def validDigit (b : Nat) (c : Char) : Bool :=
  match radixVal c with
  | some d => decide (d < b)
  | none => false

theorem fromRadixLSF_reject (b : Nat) (s : List Char) (h : ∃ c ∈ s, validDigit b c = false) :
    ∀ pow ans, fromRadixLSF b s pow ans = none := by
  induction s with
  | nil => simp at h
  | cons c cs ih =>
    intro pow ans
    obtain ⟨x, hx, hn⟩ := h
    simp only [List.mem_cons] at hx
    unfold fromRadixLSF
    rcases hx with rfl | hx
    · unfold validDigit at hn
      cases hv : radixVal x with
      | none => rfl
      | some d =>
        simp only [hv, decide_eq_false_iff_not, Nat.not_lt] at hn
        simp [hn]
    · cases hv : radixVal c with
      | none => rfl
      | some d =>
        simp only
        split
        · rfl
        · exact ih ⟨x, hx, hn⟩ _ _

theorem fromRadix_reject (b : Nat) (s : List Char) (h : s = [] ∨ ∃ c ∈ s, validDigit b c = false) :
    fromRadix b s = none := by
  unfold fromRadix
  rcases h with rfl | h
  · rfl
  · split
    · rfl
    · apply fromRadixLSF_reject
      obtain ⟨c, hc, hn⟩ := h
      exact ⟨c, List.mem_reverse.mpr hc, hn⟩

theorem fromRadixLSF_accept (b : Nat) (s : List Char) (h : ∀ c ∈ s, validDigit b c = true) :
    ∀ pow ans, (fromRadixLSF b s pow ans).isSome = true := by
  induction s with
  | nil => intro pow ans; rfl
  | cons c cs ih =>
    intro pow ans
    have hc := h c (List.mem_cons_self ..)
    unfold validDigit at hc
    unfold fromRadixLSF
    cases hv : radixVal c with
    | none => simp [hv] at hc
    | some d =>
      simp only [hv, decide_eq_true_eq] at hc
      simp only
      rw [if_neg (by omega)]
      exact ih (fun x hx => h x (List.mem_cons_of_mem _ hx)) _ _

theorem fromRadix_accept (b : Nat) (s : List Char) (hne : s ≠ []) (h : ∀ c ∈ s, validDigit b c = true) :
    (fromRadix b s).isSome = true := by
  unfold fromRadix
  rw [if_neg (by simpa using hne)]
  exact fromRadixLSF_accept b s.reverse (fun c hc => h c (List.mem_reverse.mp hc)) 1 0


/-! ### integer representation -/

theorem toGoJQInt_canonical (g : GoInt) (h : g.valid = true) :
    (minInt ≤ g.val ∧ g.val ≤ maxInt → toGoJQInt g = .int g.val) ∧
    (¬ (minInt ≤ g.val ∧ g.val ≤ maxInt) → toGoJQInt g = .big g.val) := by
  cases g with
  | int v =>
    simp only [GoInt.valid, decide_eq_true_eq] at h
    simp only [GoInt.val, toGoJQInt]
    exact ⟨fun _ => by trivial, fun hn => absurd h hn⟩
  | int64 v =>
    simp only [GoInt.val, toGoJQInt]
    constructor
    · intro hv; simp [hv]
    · intro hv; simp [hv]
  | uint64 v =>
    simp only [GoInt.valid, decide_eq_true_eq] at h
    simp only [GoInt.val, toGoJQInt]
    constructor
    · intro hv; simp [hv.2]
    · intro hv
      have : ¬ v ≤ maxInt := by
        intro hle; apply hv; exact ⟨by unfold minInt; omega, hle⟩
      simp [this]
  | big v =>
    simp only [GoInt.val, toGoJQInt]
    constructor
    · intro hv; simp [hv]
    · intro hv; simp [hv]
end Proofs.C14
