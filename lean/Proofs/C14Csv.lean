import FqModel.C14Csv
/-! C14 helper lemmas: CSV round trip for every delimiter (core Lean only). -/
namespace Proofs.C14Csv
open FqModel.Csv FqModel.Xml

/-- the delimiters both directions accept: not '"', LF, CR, and not the comment character '#' -/
structure DelimOK (d : Char) : Prop where
  nq : (d == '"') = false
  nl : (d == '\n') = false
  ncr : (d == '\r') = false
  nh : (d == '#') = false

theorem delimOK_comma : DelimOK ',' := ⟨by decide, by decide, by decide, by decide⟩

/-! ### fields -/

theorem readUnquoted_plain (d : Char) (f more : List Char) (h : ∀ c ∈ f, (c == d) = false ∧ (c == '\n') = false) :
    readUnquoted d (f ++ d :: more) = ⟨f, more, false⟩ ∧
    ((d == '\n') = false → readUnquoted d (f ++ '\n' :: more) = ⟨f, more, true⟩) := by
  induction f with
  | nil =>
    constructor
    · simp [readUnquoted]
    · intro hd
      have : ('\n' == d) = false := by
        rw [Bool.eq_false_iff] at hd ⊢; intro e; apply hd; simp at e ⊢; exact e.symm
      simp [readUnquoted, this]
  | cons c cs ih =>
    obtain ⟨h1, h2⟩ := h c (List.mem_cons_self ..)
    obtain ⟨i1, i2⟩ := ih (fun x hx => h x (List.mem_cons_of_mem _ hx))
    constructor
    · simp [readUnquoted, h1, h2, i1]
    · intro hd; simp [readUnquoted, h1, h2, i2 hd]

theorem readQuoted_esc (d : Char) (hd : DelimOK d) (f : List Char) : ∀ (acc more : List Char),
    readQuoted d (f.flatMap escQuote ++ '"' :: d :: more) acc = ⟨acc.reverse ++ f, more, false⟩ ∧
    readQuoted d (f.flatMap escQuote ++ '"' :: '\n' :: more) acc = ⟨acc.reverse ++ f, more, true⟩ := by
  have hnl : ('\n' == d) = false := by
    have := hd.nl
    rw [Bool.eq_false_iff] at this ⊢; intro e; apply this; simp at e ⊢; exact e.symm
  induction f with
  | nil => intro acc more; simp [readQuoted, hd.nq, hnl]
  | cons c cs ih =>
    intro acc more
    by_cases hc : c = '"'
    · subst hc
      obtain ⟨i1, i2⟩ := ih ('"' :: acc) more
      simp [escQuote, readQuoted, i1, i2]
    · have hb : (c == '"') = false := by simpa using hc
      obtain ⟨i1, i2⟩ := ih (c :: acc) more
      simp only [List.flatMap_cons, escQuote, hb, Bool.false_eq_true, if_false, List.cons_append, List.nil_append]
      constructor
      · rw [readQuoted.eq_def]; simp [hb, i1]
      · rw [readQuoted.eq_def]; simp [hb, i2]

theorem special_of_not_needs (d : Char) (f : List Char) (h : needsQuotes d f = false) :
    (∀ c ∈ f, isSpecial d c = false) ∧ (∀ c r, f = c :: r → uniSpace c = false) := by
  cases f with
  | nil => exact ⟨(by intro c hc; cases hc), (by intro c r e; cases e)⟩
  | cons x xs =>
    simp only [needsQuotes, Bool.or_eq_false_iff] at h
    refine ⟨?_, ?_⟩
    · intro c hc
      have := h.1.2
      rw [List.any_eq_false] at this
      simpa using this c hc
    · intro c r e
      cases e; exact h.2

theorem trimLead_id (c : Char) (r : List Char) (h : (uniSpace c && c != '\n') = false) : trimLead (c :: r) = c :: r := by
  simp [trimLead, h]

/-- the (possibly trimmed) start of a field is left alone when its first character is not white
    space, or when trimming is off -/
theorem trim_head (d c : Char) (r : List Char) (h : trimOf d = true → (uniSpace c && c != '\n') = false) :
    (if trimOf d then trimLead (c :: r) else c :: r) = c :: r := by
  by_cases ht : trimOf d = true
  · simp [ht, trimLead_id c r (h ht)]
  · simp [ht]

theorem readField_start (d c : Char) (r : List Char) (h : trimOf d = true → (uniSpace c && c != '\n') = false) :
    readField d (c :: r) = if c == '"' then readQuoted d r [] else readUnquoted d (c :: r) := by
  unfold readField
  rw [trim_head d c r h]

theorem quote_not_space : (uniSpace '"' && '"' != '\n') = false := by decide +kernel
theorem nl_not_trimmed : (uniSpace '\n' && '\n' != '\n') = false := by decide +kernel

/-- whatever the field, its written form followed by the delimiter / a line end is read back as
    that field -/
theorem readField_writeField (d : Char) (hd : DelimOK d) (f more : List Char) :
    readField d (writeField d f ++ d :: more) = ⟨f, more, false⟩ ∧
    readField d (writeField d f ++ '\n' :: more) = ⟨f, more, true⟩ := by
  unfold writeField
  by_cases hq : needsQuotes d f = true
  · simp only [hq, if_true, List.cons_append, List.append_assoc]
    obtain ⟨i1, i2⟩ := readQuoted_esc d hd f [] more
    rw [readField_start d '"' _ (fun _ => quote_not_space), readField_start d '"' _ (fun _ => quote_not_space)]
    simp only [beq_self_eq_true, if_true, List.nil_append, List.cons_append] at i1 i2 ⊢
    exact ⟨by simpa using i1, by simpa using i2⟩
  · have hq' : needsQuotes d f = false := by simpa using hq
    simp only [hq', Bool.false_eq_true, if_false]
    obtain ⟨hsp, hhead⟩ := special_of_not_needs d f hq'
    have hplain : ∀ c ∈ f, (c == d) = false ∧ (c == '\n') = false := by
      intro c hc
      have := hsp c hc
      simp only [isSpecial, Bool.or_eq_false_iff] at this
      exact ⟨this.2, this.1.1.1⟩
    obtain ⟨u1, u2⟩ := readUnquoted_plain d f more hplain
    have u2 := u2 hd.nl
    cases f with
    | nil =>
      simp only [List.nil_append] at u1 u2 ⊢
      have hdsp : trimOf d = true → (uniSpace d && d != '\n') = false := by
        intro ht; simp only [trimOf, Bool.not_eq_true'] at ht; simp [ht]
      rw [readField_start d d more hdsp, readField_start d '\n' more (fun _ => nl_not_trimmed)]
      simp only [hd.nq, show ('\n' == '"') = false by decide, Bool.false_eq_true, if_false]
      exact ⟨u1, u2⟩
    | cons x xs =>
      have hx : uniSpace x = false := hhead x xs rfl
      have hxq : (x == '"') = false := by
        have := hsp x (List.mem_cons_self ..)
        simp only [isSpecial, Bool.or_eq_false_iff] at this
        exact this.1.2
      simp only [List.cons_append] at u1 u2 ⊢
      rw [readField_start d x _ (fun _ => by simp [hx]), readField_start d x _ (fun _ => by simp [hx])]
      simp only [hxq, Bool.false_eq_true, if_false]
      exact ⟨u1, u2⟩

/-! ### records -/

theorem writeFields_cons (d : Char) (f : Field) (r : Row) (tail : List Char) :
    writeFields d (f :: r) ++ tail = writeField d f ++ (if r = [] then tail else d :: (writeFields d r ++ tail)) := by
  cases r with
  | nil => simp [writeFields]
  | cons g r' => simp [writeFields]

theorem readRecord_row (d : Char) (hd : DelimOK d) (r : Row) (hne : r ≠ []) :
    ∀ (fuel : Nat) (rest : List Char) (acc : Row), r.length ≤ fuel →
    readRecord d fuel (writeFields d r ++ '\n' :: rest) acc = (acc.reverse ++ r, rest) := by
  induction r with
  | nil => exact absurd rfl hne
  | cons f r ih =>
    intro fuel rest acc hf
    obtain ⟨fu, rfl⟩ : ∃ fu, fuel = fu + 1 := ⟨fuel - 1, by simp at hf; omega⟩
    rw [writeFields_cons]
    by_cases hr : r = []
    · subst hr
      simp only [if_true]
      simp [readRecord, (readField_writeField d hd f rest).2]
    · simp only [hr, if_false]
      simp only [readRecord, (readField_writeField d hd f (writeFields d r ++ '\n' :: rest)).1, Bool.false_eq_true, if_false]
      rw [ih hr fu rest (f :: acc) (by simp at hf; omega)]
      simp

/-! ### tables -/

/-- the rows for which the round trip is claimed: at least one field, not the single empty field,
    first field not starting with '#' -/
def RowOK (r : Row) : Prop := r ≠ [] ∧ r ≠ [[]] ∧ ∀ f rest c cs, r = f :: rest → f = c :: cs → c ≠ '#'

theorem writeField_head (d : Char) (f : Field) (c : Char) (cs : List Char) (h : writeField d f = c :: cs)
    (hf : ∀ x xs, f = x :: xs → x ≠ '#') : (c == '#') = false ∧ (c == '\n') = false := by
  unfold writeField at h
  by_cases hq : needsQuotes d f = true
  · simp only [hq, if_true, List.cons_append, List.cons.injEq] at h
    rw [← h.1]; exact ⟨by decide, by decide⟩
  · have hq' : needsQuotes d f = false := by simpa using hq
    simp only [hq', Bool.false_eq_true, if_false] at h
    obtain ⟨hsp, _⟩ := special_of_not_needs d f hq'
    have h1 := hf c cs h
    have h2 := hsp c (by rw [h]; exact List.mem_cons_self ..)
    simp only [isSpecial, Bool.or_eq_false_iff] at h2
    exact ⟨by simpa using h1, h2.1.1.1⟩

theorem writeRow_head (d : Char) (hd : DelimOK d) (r : Row) (h : RowOK r) (rest : List Char) :
    ∃ c t, writeRow d r ++ rest = c :: t ∧ (c == '#') = false ∧ (c == '\n') = false := by
  obtain ⟨hne, hnot, hhash⟩ := h
  cases r with
  | nil => exact absurd rfl hne
  | cons f r' =>
    unfold writeRow
    rw [List.append_assoc, writeFields_cons]
    cases hw : writeField d f with
    | cons c cs =>
      exact ⟨c, _, by simp only [List.cons_append]; rfl, writeField_head d f c cs hw (fun x xs e => hhash f r' x xs rfl e)⟩
    | nil =>
      have hf : f = [] := by
        unfold writeField at hw
        split at hw
        · simp at hw
        · exact hw
      subst hf
      have hr : r' ≠ [] := by intro e; subst e; exact hnot rfl
      simp only [hr, if_false, List.nil_append]
      exact ⟨d, _, rfl, hd.nh, hd.nl⟩

theorem writeRow_length (d : Char) (r : Row) : r.length ≤ (writeRow d r).length := by
  unfold writeRow
  induction r with
  | nil => simp
  | cons f r ih =>
    have := writeFields_cons d f r ['\n']
    rw [this]
    split
    · rename_i h; subst h; simp
    · simp only [List.length_append, List.length_cons] at ih ⊢; omega

theorem toCsv_length (d : Char) (rows : List Row) : rows.length ≤ (toCsvWith d rows).length := by
  induction rows with
  | nil => simp [toCsvWith]
  | cons r rs ih =>
    simp only [toCsvWith, List.flatMap_cons, List.length_append, List.length_cons] at ih ⊢
    have : 1 ≤ (writeRow d r).length := by simp [writeRow]
    omega

theorem readAll_step (d : Char) (hd : DelimOK d) (r : Row) (hr : RowOK r) (rs : List Row) (fu : Nat) (n : Option Nat)
    (acc : List Row) :
    readAll d (fu + 1) (toCsvWith d (r :: rs)) n acc =
      match n with
      | none => readAll d fu (toCsvWith d rs) (some r.length) (r :: acc)
      | some k => if r.length == k then readAll d fu (toCsvWith d rs) n (r :: acc) else none := by
  obtain ⟨c, t, hT, h1, h2⟩ := writeRow_head d hd r hr (toCsvWith d rs)
  have hrec := readRecord_row d hd r hr.1 ((writeRow d r ++ toCsvWith d rs).length + 1) (toCsvWith d rs) []
    (by have := writeRow_length d r; simp only [List.length_append]; omega)
  have htext : toCsvWith d (r :: rs) = writeRow d r ++ toCsvWith d rs := by simp [toCsvWith]
  have hrec' : readRecord d ((c :: t).length + 1) (c :: t) [] = (r, toCsvWith d rs) := by
    rw [← hT]
    simpa [writeRow] using hrec
  rw [htext, hT]
  simp only [readAll, h1, h2, Bool.false_eq_true, if_false, hrec']
  cases n <;> rfl

theorem readAll_rows (d : Char) (hd : DelimOK d) (k : Nat) (rows : List Row) (hok : ∀ r ∈ rows, RowOK r ∧ r.length = k) :
    ∀ (fuel : Nat) (acc : List Row), rows.length < fuel →
      readAll d fuel (toCsvWith d rows) (some k) acc = some (acc.reverse ++ rows) := by
  induction rows with
  | nil =>
    intro fuel acc hf
    obtain ⟨fu, rfl⟩ : ∃ fu, fuel = fu + 1 := ⟨fuel - 1, by simp at hf; omega⟩
    simp [toCsvWith, readAll]
  | cons r rs ih =>
    intro fuel acc hf
    obtain ⟨fu, rfl⟩ : ∃ fu, fuel = fu + 1 := ⟨fuel - 1, by simp at hf; omega⟩
    obtain ⟨hr, hk⟩ := hok r (List.mem_cons_self ..)
    rw [readAll_step d hd r hr rs fu (some k) acc]
    simp only [hk, beq_self_eq_true, if_true]
    rw [ih (fun x hx => hok x (List.mem_cons_of_mem _ hx)) fu (r :: acc) (by simp at hf; omega)]
    simp

/-! ### line-end normalisation leaves the writer's output alone -/

/-- no CR immediately followed by LF -/
def noCRLF : List Char → Bool
  | [] => true
  | c :: r =>
    match r with
    | [] => true
    | d :: _ => !(c == '\r' && d == '\n') && noCRLF r

theorem norm_nil : normCRLF [] = [] := by rw [normCRLF.eq_def]

theorem norm_cons_ne (c : Char) (r : List Char) (h : (c == '\r') = false) : normCRLF (c :: r) = c :: normCRLF r := by
  rw [normCRLF.eq_def]; simp [h]

theorem norm_cr_cons (c d : Char) (r : List Char) (hc : (c == '\r') = true) (hd : (d == '\n') = false) :
    normCRLF (c :: d :: r) = c :: normCRLF (d :: r) := by
  rw [normCRLF.eq_def]; simp [hc, hd]

theorem norm_crlf (r : List Char) : normCRLF ('\r' :: '\n' :: r) = '\n' :: normCRLF r := by
  rw [normCRLF.eq_def]; simp

theorem norm_plain (f rest : List Char) (h : ∀ c ∈ f, (c == '\r') = false) :
    normCRLF (f ++ rest) = f ++ normCRLF rest := by
  induction f with
  | nil => rfl
  | cons c cs ih =>
    have hc := h c (List.mem_cons_self ..)
    rw [List.cons_append, norm_cons_ne _ _ hc, ih (fun x hx => h x (List.mem_cons_of_mem _ hx))]
    rfl

theorem norm_no_cr (t : List Char) (h : ∀ c ∈ t, (c == '\r') = false) : normCRLF t = t := by
  have := norm_plain t [] h
  simpa [norm_nil] using this

theorem norm_esc (f : List Char) (hf : noCRLF f = true) (rest : List Char) :
    normCRLF (f.flatMap escQuote ++ '"' :: rest) = f.flatMap escQuote ++ '"' :: normCRLF rest := by
  induction f with
  | nil => simp [norm_cons_ne '"' rest (by decide)]
  | cons c cs ih =>
    have hcs : noCRLF cs = true := by
      cases cs with
      | nil => rfl
      | cons d ds => simp only [noCRLF, Bool.and_eq_true] at hf; exact hf.2
    have ih' := ih hcs
    by_cases hq : c = '"'
    · subst hq
      simp only [List.flatMap_cons, escQuote, beq_self_eq_true, if_true, List.cons_append, List.nil_append]
      rw [norm_cons_ne '"' _ (by decide), norm_cons_ne '"' _ (by decide), ih']
    · have hb : (c == '"') = false := by simpa using hq
      simp only [List.flatMap_cons, escQuote, hb, Bool.false_eq_true, if_false, List.cons_append, List.nil_append]
      by_cases hr : (c == '\r') = true
      · have hfirst : ∃ e tl, cs.flatMap escQuote ++ '"' :: rest = e :: tl ∧ (e == '\n') = false := by
          cases cs with
          | nil => exact ⟨'"', rest, by simp, by decide⟩
          | cons d ds =>
            have hd : (d == '\n') = false := by
              simp only [noCRLF, Bool.and_eq_true, Bool.not_eq_true', Bool.and_eq_false_iff] at hf
              rcases hf.1 with h | h
              · rw [hr] at h; cases h
              · exact h
            by_cases hdq : d = '"'
            · subst hdq
              exact ⟨'"', _, by simp only [List.flatMap_cons, escQuote, beq_self_eq_true, if_true, List.cons_append]; rfl, by decide⟩
            · have : (d == '"') = false := by simpa using hdq
              exact ⟨d, _, by simp only [List.flatMap_cons, escQuote, this, Bool.false_eq_true, if_false, List.cons_append, List.nil_append]; rfl, hd⟩
        obtain ⟨e, tl, he, hen⟩ := hfirst
        rw [he] at ih' ⊢
        rw [norm_cr_cons c e tl hr hen, ih']
      · have hr' : (c == '\r') = false := by simpa using hr
        rw [norm_cons_ne c _ hr', ih']

def FieldOK (f : Field) : Prop := noCRLF f = true

theorem norm_writeField (d : Char) (f : Field) (hf : FieldOK f) (rest : List Char) :
    normCRLF (writeField d f ++ rest) = writeField d f ++ normCRLF rest := by
  unfold writeField
  by_cases hq : needsQuotes d f = true
  · simp only [hq, if_true, List.cons_append, List.append_assoc]
    rw [norm_cons_ne '"' _ (by decide), norm_esc f hf]
    simp
  · have hq' : needsQuotes d f = false := by simpa using hq
    simp only [hq', Bool.false_eq_true, if_false]
    apply norm_plain
    intro c hc
    have := (special_of_not_needs d f hq').1 c hc
    simp only [isSpecial, Bool.or_eq_false_iff] at this
    exact this.1.1.2

theorem norm_writeFields (d : Char) (hd : DelimOK d) (r : Row) (hr : ∀ f ∈ r, FieldOK f) (rest : List Char) :
    normCRLF (writeFields d r ++ '\n' :: rest) = writeFields d r ++ '\n' :: normCRLF rest := by
  induction r with
  | nil => simp [writeFields, norm_cons_ne '\n' rest (by decide)]
  | cons f r ih =>
    rw [writeFields_cons, writeFields_cons]
    rw [norm_writeField d f (hr f (List.mem_cons_self ..))]
    by_cases h : r = []
    · subst h; simp [norm_cons_ne '\n' rest (by decide)]
    · simp only [h, if_false]
      rw [norm_cons_ne d _ hd.ncr, ih (fun x hx => hr x (List.mem_cons_of_mem _ hx))]

theorem norm_toCsv (d : Char) (hd : DelimOK d) (rows : List Row) (h : ∀ r ∈ rows, ∀ f ∈ r, FieldOK f) :
    normCRLF (toCsvWith d rows) = toCsvWith d rows := by
  induction rows with
  | nil => exact norm_nil
  | cons r rs ih =>
    have : toCsvWith d (r :: rs) = writeFields d r ++ '\n' :: toCsvWith d rs := by simp [toCsvWith, writeRow]
    rw [this, norm_writeFields d hd r (h r (List.mem_cons_self ..)), ih (fun x hx => h x (List.mem_cons_of_mem _ hx))]

/-- a table in the domain: all rows `RowOK`, of one length, no field with CR LF -/
def TableOK (rows : List Row) : Prop :=
  (∀ r ∈ rows, RowOK r ∧ ∀ f ∈ r, FieldOK f) ∧ ∀ r ∈ rows, ∀ r' ∈ rows, r.length = r'.length

theorem fromCsvWith_toCsvWith (d : Char) (hd : DelimOK d) (rows : List Row) (h : TableOK rows) :
    fromCsvWith d (toCsvWith d rows) = some rows := by
  unfold fromCsvWith
  simp only [norm_toCsv d hd rows (fun r hr => (h.1 r hr).2)]
  cases rows with
  | nil => simp [toCsvWith, readAll]
  | cons r rs =>
    obtain ⟨hr, _⟩ := h.1 r (List.mem_cons_self ..)
    have hl := toCsv_length d (r :: rs)
    obtain ⟨fu, hfu⟩ : ∃ fu, (toCsvWith d (r :: rs)).length + 1 = fu + 1 := ⟨_, rfl⟩
    rw [hfu, readAll_step d hd r hr rs fu none []]
    simp only
    rw [readAll_rows d hd r.length rs
      (fun x hx => ⟨(h.1 x (List.mem_cons_of_mem _ hx)).1, h.2 x (List.mem_cons_of_mem _ hx) r (List.mem_cons_self ..)⟩)
      fu [r] (by simp only [List.length_cons] at hl; omega)]
    simp

theorem fromCsv_toCsv (rows : List Row) (h : TableOK rows) : fromCsv (toCsv rows) = some rows :=
  fromCsvWith_toCsvWith ',' delimOK_comma rows h

/-! ### ragged tables are rejected -/

theorem readAll_ragged (d : Char) (hd : DelimOK d) (k : Nat) (pre : List Row) (hpre : ∀ r ∈ pre, RowOK r ∧ r.length = k)
    (r : Row) (hr : RowOK r) (hlen : r.length ≠ k) (post : List Row) :
    ∀ (fuel : Nat) (acc : List Row), pre.length + 1 < fuel →
      readAll d fuel (toCsvWith d (pre ++ r :: post)) (some k) acc = none := by
  induction pre with
  | nil =>
    intro fuel acc hf
    obtain ⟨fu, rfl⟩ : ∃ fu, fuel = fu + 1 := ⟨fuel - 1, by simp at hf; omega⟩
    rw [List.nil_append, readAll_step d hd r hr post fu (some k) acc]
    simp [hlen]
  | cons p ps ih =>
    intro fuel acc hf
    obtain ⟨fu, rfl⟩ : ∃ fu, fuel = fu + 1 := ⟨fuel - 1, by simp at hf; omega⟩
    obtain ⟨hp, hk⟩ := hpre p (List.mem_cons_self ..)
    rw [List.cons_append, readAll_step d hd p hp (ps ++ r :: post) fu (some k) acc]
    simp only [hk, beq_self_eq_true, if_true]
    exact ih (fun x hx => hpre x (List.mem_cons_of_mem _ hx)) fu (p :: acc) (by simp at hf; omega)

theorem fromCsv_ragged (first : Row) (pre : List Row) (r : Row) (post : List Row)
    (hfields : ∀ x ∈ first :: (pre ++ r :: post), ∀ f ∈ x, FieldOK f)
    (hfirst : RowOK first) (hpre : ∀ x ∈ pre, RowOK x ∧ x.length = first.length)
    (hr : RowOK r) (hlen : r.length ≠ first.length) :
    fromCsv (toCsv (first :: (pre ++ r :: post))) = none := by
  unfold fromCsv fromCsvWith toCsv
  simp only [norm_toCsv ',' delimOK_comma _ hfields]
  have hl := toCsv_length ',' (first :: (pre ++ r :: post))
  obtain ⟨fu, hfu⟩ : ∃ fu, (toCsvWith ',' (first :: (pre ++ r :: post))).length + 1 = fu + 1 := ⟨_, rfl⟩
  rw [hfu, readAll_step ',' delimOK_comma first hfirst (pre ++ r :: post) fu none []]
  simp only
  exact readAll_ragged ',' delimOK_comma first.length pre hpre r hr hlen post fu [first]
    (by simp only [List.length_cons, List.length_append] at hl; omega)

/-- whenever from_csv accepts the option, to_csv writes with exactly the delimiter from_csv splits at -/
theorem delim_agree (opt : List UInt8) (c : Char) (h : fromCsvDelim opt = some c) : toCsvDelim opt = some c := by
  simp only [fromCsvDelim, toCsvDelim] at h ⊢
  by_cases hv : validDelim (delimOfOption opt) = true
  · by_cases hc : (delimOfOption opt != '#') = true
    · simp only [hv, hc, Bool.and_self, if_true] at h
      simp only [hv, if_true]
      exact h
    · simp [hv, hc] at h
  · simp [hv] at h

/-- a delimiter from_csv accepts satisfies `DelimOK` -/
theorem delimOK_of_option (opt : List UInt8) (c : Char) (h : fromCsvDelim opt = some c) : DelimOK c := by
  simp only [fromCsvDelim] at h
  by_cases hv : (validDelim (delimOfOption opt) && delimOfOption opt != '#') = true
  · simp only [hv, if_true, Option.some.injEq] at h
    subst h
    simp only [validDelim, Bool.and_eq_true, bne_iff_ne, ne_eq] at hv
    exact ⟨by simpa using hv.1.1.1.2, by simpa using hv.1.2, by simpa using hv.1.1.2, by simpa using hv.2⟩
  · simp [hv] at h
end Proofs.C14Csv
