import FqModel.C14Csv
/-! C14 helper lemmas: CSV round trip (core Lean only). -/
namespace Proofs.C14Csv
open FqModel.Csv FqModel.Xml

/-! ### fields -/

theorem readUnquoted_plain (f more : List Char) (h : ∀ c ∈ f, (c == ',') = false ∧ (c == '\n') = false) :
    readUnquoted (f ++ ',' :: more) = ⟨f, more, false⟩ ∧ readUnquoted (f ++ '\n' :: more) = ⟨f, more, true⟩ := by
  induction f with
  | nil => simp [readUnquoted]
  | cons c cs ih =>
    obtain ⟨h1, h2⟩ := h c (List.mem_cons_self ..)
    obtain ⟨i1, i2⟩ := ih (fun x hx => h x (List.mem_cons_of_mem _ hx))
    simp [readUnquoted, h1, h2, i1, i2]

theorem readQuoted_esc (f : List Char) : ∀ (acc more : List Char),
    readQuoted (f.flatMap escQuote ++ '"' :: ',' :: more) acc = ⟨acc.reverse ++ f, more, false⟩ ∧
    readQuoted (f.flatMap escQuote ++ '"' :: '\n' :: more) acc = ⟨acc.reverse ++ f, more, true⟩ := by
  induction f with
  | nil => intro acc more; simp [readQuoted]
  | cons c cs ih =>
    intro acc more
    by_cases hc : c = '"'
    · subst hc
      obtain ⟨i1, i2⟩ := ih ('"' :: acc) more
      simp [escQuote, readQuoted, i1, i2]
    · have hb : (c == '"') = false := by simpa using hc
      obtain ⟨i1, i2⟩ := ih (c :: acc) more
      simp only [List.flatMap_cons, escQuote, hb, Bool.false_eq_true, if_false, List.cons_append, List.nil_append]
      constructor
      · rw [readQuoted.eq_def]; simp [hb, i1]
      · rw [readQuoted.eq_def]; simp [hb, i2]

theorem special_of_not_needs (f : List Char) (h : needsQuotes f = false) :
    (∀ c ∈ f, isSpecial c = false) ∧ (∀ c r, f = c :: r → uniSpace c = false) := by
  cases f with
  | nil => exact ⟨(by intro c hc; cases hc), (by intro c r e; cases e)⟩
  | cons x xs =>
    simp only [needsQuotes, Bool.or_eq_false_iff] at h
    refine ⟨?_, ?_⟩
    · intro c hc
      have := h.1.2
      rw [List.any_eq_false] at this
      simpa using this c hc
    · intro c r e
      cases e; exact h.2

theorem trimLead_id (c : Char) (r : List Char) (h : (uniSpace c && c != '\n') = false) : trimLead (c :: r) = c :: r := by
  simp [trimLead, h]

/-- whatever the field, its written form followed by a comma / line end is read back as that field -/
theorem readField_writeField (f more : List Char) :
    readField (writeField f ++ ',' :: more) = ⟨f, more, false⟩ ∧
    readField (writeField f ++ '\n' :: more) = ⟨f, more, true⟩ := by
  unfold writeField
  by_cases hq : needsQuotes f = true
  · simp only [hq, if_true, List.cons_append, List.append_assoc]
    obtain ⟨i1, i2⟩ := readQuoted_esc f [] more
    have ht : ∀ r, trimLead ('"' :: r) = '"' :: r := fun r => trimLead_id '"' r (by decide)
    simp [readField, ht, i1, i2]
  · have hq' : needsQuotes f = false := by simpa using hq
    simp only [hq', Bool.false_eq_true, if_false]
    obtain ⟨hsp, hhead⟩ := special_of_not_needs f hq'
    have hplain : ∀ c ∈ f, (c == ',') = false ∧ (c == '\n') = false := by
      intro c hc
      have := hsp c hc
      simp only [isSpecial, Bool.or_eq_false_iff] at this
      exact ⟨this.2, this.1.1.1⟩
    obtain ⟨u1, u2⟩ := readUnquoted_plain f more hplain
    cases f with
    | nil =>
      simp only [List.nil_append]
      have t1 : trimLead (',' :: more) = ',' :: more := trimLead_id _ _ (by decide)
      have t2 : trimLead ('\n' :: more) = '\n' :: more := trimLead_id _ _ (by decide)
      simp only [List.nil_append] at u1 u2
      simp [readField, t1, t2, u1, u2]
    | cons x xs =>
      have hx : uniSpace x = false := hhead x xs rfl
      have hxq : (x == '"') = false := by
        have := hsp x (List.mem_cons_self ..)
        simp only [isSpecial, Bool.or_eq_false_iff] at this
        exact this.1.2
      have t1 : ∀ r, trimLead (x :: r) = x :: r := fun r => trimLead_id x r (by simp [hx])
      simp only [List.cons_append] at u1 u2 ⊢
      simp [readField, t1, hxq, u1, u2]

/-! ### records -/

theorem writeFields_cons (f : Field) (r : Row) (tail : List Char) :
    writeFields (f :: r) ++ tail = writeField f ++ (if r = [] then tail else ',' :: (writeFields r ++ tail)) := by
  cases r with
  | nil => simp [writeFields]
  | cons g r' => simp [writeFields]

theorem readRecord_row (r : Row) (hne : r ≠ []) : ∀ (fuel : Nat) (rest : List Char) (acc : Row), r.length ≤ fuel →
    readRecord fuel (writeFields r ++ '\n' :: rest) acc = (acc.reverse ++ r, rest) := by
  induction r with
  | nil => exact absurd rfl hne
  | cons f r ih =>
    intro fuel rest acc hf
    obtain ⟨fu, rfl⟩ : ∃ fu, fuel = fu + 1 := ⟨fuel - 1, by simp at hf; omega⟩
    rw [writeFields_cons]
    by_cases hr : r = []
    · subst hr
      simp only [if_true]
      simp [readRecord, (readField_writeField f rest).2]
    · simp only [hr, if_false]
      simp only [readRecord, (readField_writeField f (writeFields r ++ '\n' :: rest)).1, Bool.false_eq_true, if_false]
      rw [ih hr fu rest (f :: acc) (by simp at hf; omega)]
      simp

/-! ### tables -/

/-- the rows for which the round trip is claimed: at least one field, not the single empty field,
    first field not starting with '#' -/
def RowOK (r : Row) : Prop := r ≠ [] ∧ r ≠ [[]] ∧ ∀ f rest c cs, r = f :: rest → f = c :: cs → c ≠ '#'

theorem writeField_head (f : Field) (c : Char) (cs : List Char) (h : writeField f = c :: cs) (hf : ∀ x xs, f = x :: xs → x ≠ '#') :
    (c == '#') = false ∧ (c == '\n') = false := by
  unfold writeField at h
  by_cases hq : needsQuotes f = true
  · simp only [hq, if_true, List.cons_append, List.cons.injEq] at h
    rw [← h.1]; exact ⟨by decide, by decide⟩
  · have hq' : needsQuotes f = false := by simpa using hq
    simp only [hq', Bool.false_eq_true, if_false] at h
    obtain ⟨hsp, _⟩ := special_of_not_needs f hq'
    have h1 := hf c cs h
    have h2 := hsp c (by rw [h]; exact List.mem_cons_self ..)
    simp only [isSpecial, Bool.or_eq_false_iff] at h2
    exact ⟨by simpa using h1, h2.1.1.1⟩

theorem writeRow_head (r : Row) (h : RowOK r) (rest : List Char) :
    ∃ c t, writeRow r ++ rest = c :: t ∧ (c == '#') = false ∧ (c == '\n') = false := by
  obtain ⟨hne, hnot, hhash⟩ := h
  cases r with
  | nil => exact absurd rfl hne
  | cons f r' =>
    unfold writeRow
    rw [List.append_assoc, writeFields_cons]
    cases hw : writeField f with
    | cons c cs =>
      exact ⟨c, _, by simp only [List.cons_append, List.singleton_append]; rfl, writeField_head f c cs hw (fun x xs e => hhash f r' x xs rfl e)⟩
    | nil =>
      have hf : f = [] := by
        unfold writeField at hw
        split at hw
        · simp at hw
        · exact hw
      subst hf
      have hr : r' ≠ [] := by intro e; subst e; exact hnot rfl
      simp only [hr, if_false, List.nil_append]
      exact ⟨',', _, rfl, by decide, by decide⟩

theorem writeRow_length (r : Row) : r.length ≤ (writeRow r).length := by
  unfold writeRow
  induction r with
  | nil => simp
  | cons f r ih =>
    have := writeFields_cons f r ['\n']
    rw [this]
    split
    · rename_i h; subst h; simp
    · simp only [List.length_append, List.length_cons] at ih ⊢; omega

theorem toCsv_length (rows : List Row) : rows.length ≤ (toCsv rows).length := by
  induction rows with
  | nil => simp [toCsv]
  | cons r rs ih =>
    simp only [toCsv, List.flatMap_cons, List.length_append, List.length_cons] at ih ⊢
    have : 1 ≤ (writeRow r).length := by simp [writeRow]
    omega

theorem readAll_rows (k : Nat) (rows : List Row) (hok : ∀ r ∈ rows, RowOK r ∧ r.length = k) :
    ∀ (fuel : Nat) (acc : List Row), rows.length < fuel →
      readAll fuel (toCsv rows) (some k) acc = some (acc.reverse ++ rows) := by
  induction rows with
  | nil =>
    intro fuel acc hf
    obtain ⟨fu, rfl⟩ : ∃ fu, fuel = fu + 1 := ⟨fuel - 1, by simp at hf; omega⟩
    simp [toCsv, readAll]
  | cons r rs ih =>
    intro fuel acc hf
    obtain ⟨fu, rfl⟩ : ∃ fu, fuel = fu + 1 := ⟨fuel - 1, by simp at hf; omega⟩
    obtain ⟨hr, hk⟩ := hok r (List.mem_cons_self ..)
    have hrs := fun x hx => hok x (List.mem_cons_of_mem _ hx)
    obtain ⟨c, t, hT, h1, h2⟩ := writeRow_head r hr (toCsv rs)
    have hrec := readRecord_row r hr.1 ((writeRow r ++ toCsv rs).length + 1) (toCsv rs) []
      (by have := writeRow_length r; simp only [List.length_append]; omega)
    have htext : toCsv (r :: rs) = writeRow r ++ toCsv rs := by simp [toCsv]
    rw [htext]
    have hrec' : readRecord ((c :: t).length + 1) (c :: t) [] = (r, toCsv rs) := by
      rw [← hT]
      simpa [writeRow] using hrec
    rw [hT]
    simp only [readAll, h1, h2, Bool.false_eq_true, if_false, hrec', hk, beq_self_eq_true, if_true]
    rw [ih hrs fu (r :: acc) (by simp at hf; omega)]
    simp

/-! ### line-end normalisation leaves the writer's output alone -/

/-- no CR immediately followed by LF -/
def noCRLF : List Char → Bool
  | [] => true
  | c :: r =>
    match r with
    | [] => true
    | d :: _ => !(c == '\r' && d == '\n') && noCRLF r

theorem norm_nil : normCRLF [] = [] := by rw [normCRLF.eq_def]

theorem norm_cons_ne (c : Char) (r : List Char) (h : (c == '\r') = false) : normCRLF (c :: r) = c :: normCRLF r := by
  rw [normCRLF.eq_def]; simp [h]

theorem norm_cr_cons (c d : Char) (r : List Char) (hc : (c == '\r') = true) (hd : (d == '\n') = false) :
    normCRLF (c :: d :: r) = c :: normCRLF (d :: r) := by
  rw [normCRLF.eq_def]; simp [hc, hd]

theorem norm_plain (f rest : List Char) (h : ∀ c ∈ f, (c == '\r') = false) :
    normCRLF (f ++ rest) = f ++ normCRLF rest := by
  induction f with
  | nil => rfl
  | cons c cs ih =>
    have hc := h c (List.mem_cons_self ..)
    rw [List.cons_append, norm_cons_ne _ _ hc, ih (fun x hx => h x (List.mem_cons_of_mem _ hx))]
    rfl

theorem norm_esc (f : List Char) (hf : noCRLF f = true) (rest : List Char) :
    normCRLF (f.flatMap escQuote ++ '"' :: rest) = f.flatMap escQuote ++ '"' :: normCRLF rest := by
  induction f with
  | nil => simp [norm_cons_ne '"' rest (by decide)]
  | cons c cs ih =>
    have hcs : noCRLF cs = true := by
      cases cs with
      | nil => rfl
      | cons d ds => simp only [noCRLF, Bool.and_eq_true] at hf; exact hf.2
    have ih' := ih hcs
    by_cases hq : c = '"'
    · subst hq
      simp only [List.flatMap_cons, escQuote, beq_self_eq_true, if_true, List.cons_append, List.nil_append]
      rw [norm_cons_ne '"' _ (by decide), norm_cons_ne '"' _ (by decide), ih']
    · have hb : (c == '"') = false := by simpa using hq
      simp only [List.flatMap_cons, escQuote, hb, Bool.false_eq_true, if_false, List.cons_append, List.nil_append]
      by_cases hr : (c == '\r') = true
      · -- the next written character is not a line feed
        have hfirst : ∃ e tl, cs.flatMap escQuote ++ '"' :: rest = e :: tl ∧ (e == '\n') = false := by
          cases cs with
          | nil => exact ⟨'"', rest, by simp, by decide⟩
          | cons d ds =>
            have hd : (d == '\n') = false := by
              simp only [noCRLF, Bool.and_eq_true, Bool.not_eq_true', Bool.and_eq_false_iff] at hf
              rcases hf.1 with h | h
              · rw [hr] at h; cases h
              · exact h
            by_cases hdq : d = '"'
            · subst hdq; exact ⟨'"', _, by simp only [List.flatMap_cons, escQuote, beq_self_eq_true, if_true, List.cons_append]; rfl, by decide⟩
            · have : (d == '"') = false := by simpa using hdq
              exact ⟨d, _, by simp only [List.flatMap_cons, escQuote, this, Bool.false_eq_true, if_false, List.cons_append, List.nil_append]; rfl, hd⟩
        obtain ⟨e, tl, he, hen⟩ := hfirst
        rw [he] at ih' ⊢
        rw [norm_cr_cons c e tl hr hen, ih']
      · have hr' : (c == '\r') = false := by simpa using hr
        rw [norm_cons_ne c _ hr', ih']

def FieldOK (f : Field) : Prop := noCRLF f = true

theorem norm_writeField (f : Field) (hf : FieldOK f) (rest : List Char) :
    normCRLF (writeField f ++ rest) = writeField f ++ normCRLF rest := by
  unfold writeField
  by_cases hq : needsQuotes f = true
  · simp only [hq, if_true, List.cons_append, List.append_assoc, List.singleton_append]
    rw [norm_cons_ne '"' _ (by decide), norm_esc f hf]
    simp
  · have hq' : needsQuotes f = false := by simpa using hq
    simp only [hq', Bool.false_eq_true, if_false]
    apply norm_plain
    intro c hc
    have := (special_of_not_needs f hq').1 c hc
    simp only [isSpecial, Bool.or_eq_false_iff] at this
    exact this.1.1.2

theorem norm_writeFields (r : Row) (hr : ∀ f ∈ r, FieldOK f) (rest : List Char) :
    normCRLF (writeFields r ++ '\n' :: rest) = writeFields r ++ '\n' :: normCRLF rest := by
  induction r with
  | nil => simp [writeFields, norm_cons_ne '\n' rest (by decide)]
  | cons f r ih =>
    rw [writeFields_cons, writeFields_cons]
    rw [norm_writeField f (hr f (List.mem_cons_self ..))]
    by_cases h : r = []
    · subst h; simp [norm_cons_ne '\n' rest (by decide)]
    · simp only [h, if_false]
      rw [norm_cons_ne ',' _ (by decide), ih (fun x hx => hr x (List.mem_cons_of_mem _ hx))]

theorem norm_toCsv (rows : List Row) (h : ∀ r ∈ rows, ∀ f ∈ r, FieldOK f) : normCRLF (toCsv rows) = toCsv rows := by
  induction rows with
  | nil => exact norm_nil
  | cons r rs ih =>
    have : toCsv (r :: rs) = writeFields r ++ '\n' :: toCsv rs := by simp [toCsv, writeRow]
    rw [this, norm_writeFields r (h r (List.mem_cons_self ..)), ih (fun x hx => h x (List.mem_cons_of_mem _ hx))]

/-- a table in the domain: all rows `RowOK`, of one length, no field with CR LF -/
def TableOK (rows : List Row) : Prop :=
  (∀ r ∈ rows, RowOK r ∧ ∀ f ∈ r, FieldOK f) ∧ ∀ r ∈ rows, ∀ r' ∈ rows, r.length = r'.length

theorem fromCsv_toCsv (rows : List Row) (h : TableOK rows) : fromCsv (toCsv rows) = some rows := by
  unfold fromCsv
  simp only [norm_toCsv rows (fun r hr => (h.1 r hr).2)]
  cases rows with
  | nil => simp [toCsv, readAll]
  | cons r rs =>
    obtain ⟨hr, _⟩ := h.1 r (List.mem_cons_self ..)
    obtain ⟨c, t, hT, h1, h2⟩ := writeRow_head r hr (toCsv rs)
    have hrec := readRecord_row r hr.1 ((writeRow r ++ toCsv rs).length + 1) (toCsv rs) []
      (by have := writeRow_length r; simp only [List.length_append]; omega)
    have htext : toCsv (r :: rs) = writeRow r ++ toCsv rs := by simp [toCsv]
    rw [htext]
    have hrec' : readRecord ((c :: t).length + 1) (c :: t) [] = (r, toCsv rs) := by
      rw [← hT]
      simpa [writeRow] using hrec
    have hrest := readAll_rows r.length rs
      (fun x hx => ⟨(h.1 x (List.mem_cons_of_mem _ hx)).1, h.2 x (List.mem_cons_of_mem _ hx) r (List.mem_cons_self ..)⟩)
      ((c :: t).length) [r]
      (by
        have h1 := toCsv_length rs
        have h2 : (c :: t).length = (writeRow r).length + (toCsv rs).length := by rw [← hT]; simp
        have h3 : 1 ≤ (writeRow r).length := by simp [writeRow]
        omega)
    rw [hT]
    simp only [readAll, h1, h2, Bool.false_eq_true, if_false, hrec', hrest]
    simp

/-! ### ragged tables are rejected -/

theorem readAll_step (r : Row) (hr : RowOK r) (rs : List Row) (fu : Nat) (n : Option Nat) (acc : List Row) :
    readAll (fu + 1) (toCsv (r :: rs)) n acc =
      match n with
      | none => readAll fu (toCsv rs) (some r.length) (r :: acc)
      | some k => if r.length == k then readAll fu (toCsv rs) n (r :: acc) else none := by
  obtain ⟨c, t, hT, h1, h2⟩ := writeRow_head r hr (toCsv rs)
  have hrec := readRecord_row r hr.1 ((writeRow r ++ toCsv rs).length + 1) (toCsv rs) []
    (by have := writeRow_length r; simp only [List.length_append]; omega)
  have htext : toCsv (r :: rs) = writeRow r ++ toCsv rs := by simp [toCsv]
  have hrec' : readRecord ((c :: t).length + 1) (c :: t) [] = (r, toCsv rs) := by
    rw [← hT]
    simpa [writeRow] using hrec
  rw [htext, hT]
  simp only [readAll, h1, h2, Bool.false_eq_true, if_false, hrec']
  cases n <;> rfl

theorem readAll_ragged (k : Nat) (pre : List Row) (hpre : ∀ r ∈ pre, RowOK r ∧ r.length = k)
    (r : Row) (hr : RowOK r) (hlen : r.length ≠ k) (post : List Row) :
    ∀ (fuel : Nat) (acc : List Row), pre.length + 1 < fuel →
      readAll fuel (toCsv (pre ++ r :: post)) (some k) acc = none := by
  induction pre with
  | nil =>
    intro fuel acc hf
    obtain ⟨fu, rfl⟩ : ∃ fu, fuel = fu + 1 := ⟨fuel - 1, by simp at hf; omega⟩
    rw [List.nil_append, readAll_step r hr post fu (some k) acc]
    simp [hlen]
  | cons p ps ih =>
    intro fuel acc hf
    obtain ⟨fu, rfl⟩ : ∃ fu, fuel = fu + 1 := ⟨fuel - 1, by simp at hf; omega⟩
    obtain ⟨hp, hk⟩ := hpre p (List.mem_cons_self ..)
    rw [List.cons_append, readAll_step p hp (ps ++ r :: post) fu (some k) acc]
    simp only [hk, beq_self_eq_true, if_true]
    exact ih (fun x hx => hpre x (List.mem_cons_of_mem _ hx)) fu (p :: acc) (by simp at hf; omega)

/-- a table whose rows are fine one by one but do not all have the length of the first row is an
    error (ErrFieldCount) -/
theorem fromCsv_ragged (first : Row) (pre : List Row) (r : Row) (post : List Row)
    (hfields : ∀ x ∈ first :: (pre ++ r :: post), ∀ f ∈ x, FieldOK f)
    (hfirst : RowOK first) (hpre : ∀ x ∈ pre, RowOK x ∧ x.length = first.length)
    (hr : RowOK r) (hlen : r.length ≠ first.length) :
    fromCsv (toCsv (first :: (pre ++ r :: post))) = none := by
  unfold fromCsv
  simp only [norm_toCsv _ hfields]
  have hl : (first :: (pre ++ r :: post)).length ≤ (toCsv (first :: (pre ++ r :: post))).length := toCsv_length _
  obtain ⟨fu, hfu⟩ : ∃ fu, (toCsv (first :: (pre ++ r :: post))).length + 1 = fu + 1 := ⟨_, rfl⟩
  rw [hfu, readAll_step first hfirst (pre ++ r :: post) fu none []]
  simp only
  exact readAll_ragged first.length pre hpre r hr hlen post fu [first]
    (by simp only [List.length_cons, List.length_append] at hl; omega)

/-! ### the three excluded classes are necessary -/

theorem norm_crlf (r : List Char) : normCRLF ('\r' :: '\n' :: r) = '\n' :: normCRLF r := by
  rw [normCRLF.eq_def]; simp

theorem norm_no_cr (t : List Char) (h : ∀ c ∈ t, (c == '\r') = false) : normCRLF t = t := by
  have := norm_plain t [] h
  simpa [norm_nil] using this

/-- whenever from_csv accepts the option, to_csv writes with exactly the delimiter from_csv splits at -/
theorem delim_agree (opt : List UInt8) (c : Char) (h : fromCsvDelim opt = some c) : toCsvDelim opt = some c := by
  simp only [fromCsvDelim, toCsvDelim] at h ⊢
  by_cases hv : validDelim (delimOfOption opt) = true
  · by_cases hc : (delimOfOption opt != '#') = true
    · simp only [hv, hc, Bool.and_self, if_true] at h
      simp only [hv, if_true]
      exact h
    · simp [hv, hc] at h
  · simp [hv] at h
end Proofs.C14Csv
