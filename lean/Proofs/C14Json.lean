import FqModel.C14Json
import Proofs.C14Codec
/-! C14 helper lemmas: JSON text round trip (core Lean only). -/
namespace Proofs.C14J
open FqModel.Json

theorem char_valid (c : Char) : c.toNat < 0xD800 ∨ (0xDFFF < c.toNat ∧ c.toNat < 0x110000) := c.valid

/-! ### strings -/

theorem hexVal_hexDigitLower : ∀ n, n < 16 → hexVal (hexDigitLower n) = some n := by decide

theorem char_eq_of_toNat {a b : Char} (h : a.toNat = b.toNat) : a = b := by
  have : Char.ofNat a.toNat = Char.ofNat b.toNat := by rw [h]
  simpa using this

/-- one source character: its escape sequence is read back as that character, using one unit of fuel -/
theorem parseStringBody_char (c : Char) (fuel : Nat) (tail acc : List Char) :
    parseStringBody (fuel + 1) (escapeChar c ++ tail) acc = parseStringBody fuel tail (c :: acc) := by
  unfold escapeChar
  split
  · rename_i h; have : c = '"' := by simpa using h
    subst this; simp [parseStringBody]
  · split
    · rename_i h; have : c = '\\' := by simpa using h
      subst this; simp [parseStringBody]
    · split
      · rename_i h; have h' : c.toNat = 8 := by simpa using h
        have : c = Char.ofNat 8 := char_eq_of_toNat (by rw [h']; decide)
        subst this; simp [parseStringBody]
      · split
        · rename_i h; have h' : c.toNat = 12 := by simpa using h
          have : c = Char.ofNat 12 := char_eq_of_toNat (by rw [h']; decide)
          subst this; simp [parseStringBody]
        · split
          · rename_i h; have h' : c.toNat = 10 := by simpa using h
            have : c = '\n' := char_eq_of_toNat (by rw [h']; decide)
            subst this; simp [parseStringBody]
          · split
            · rename_i h; have h' : c.toNat = 13 := by simpa using h
              have : c = '\r' := char_eq_of_toNat (by rw [h']; decide)
              subst this; simp [parseStringBody]
            · split
              · rename_i h; have h' : c.toNat = 9 := by simpa using h
                have : c = '\t' := char_eq_of_toNat (by rw [h']; decide)
                subst this; simp [parseStringBody]
              · rename_i hq hb h8 h12 h10 h13 h9
                split
                · rename_i h
                  have hlt : c.toNat < 128 := by
                    simp only [Bool.or_eq_true, decide_eq_true_eq, beq_iff_eq] at h; omega
                  have h1 := hexVal_hexDigitLower (c.toNat / 16) (by omega)
                  have h2 := hexVal_hexDigitLower (c.toNat % 16) (by omega)
                  have h0 : hexVal '0' = some 0 := by decide
                  have hx : ((0 * 16 + 0) * 16 + c.toNat / 16) * 16 + c.toNat % 16 = c.toNat := by omega
                  simp only [List.cons_append, List.nil_append]
                  rw [parseStringBody]
                  simp only [show ('\\' == '"') = false by decide, show ¬ ('\\'.toNat < 0x20) by decide,
                    show ('\\' == '\\') = true by decide, Bool.false_eq_true, if_false, if_true,
                    show ('u' == '"') = false by decide, show ('u' == '\\') = false by decide,
                    show ('u' == '/') = false by decide, show ('u' == 'b') = false by decide,
                    show ('u' == 'f') = false by decide, show ('u' == 'n') = false by decide,
                    show ('u' == 'r') = false by decide, show ('u' == 't') = false by decide,
                    show ('u' == 'u') = true by decide, getu4, h0, h1, h2, hx]
                  rw [if_neg (by omega)]
                  simp
                · rename_i h
                  have hge : ¬ c.toNat < 0x20 := by
                    simp only [Bool.or_eq_true, decide_eq_true_eq, beq_iff_eq, not_or] at h; omega
                  simp only [List.cons_append, List.nil_append]
                  rw [parseStringBody.eq_def]
                  simp only [hq, hb, hge, Bool.false_eq_true, if_false]

theorem parseStringBody_encode (s : List Char) : ∀ (fuel : Nat) (rest acc : List Char), s.length < fuel →
    parseStringBody fuel (s.flatMap escapeChar ++ '"' :: rest) acc = .ok (acc.reverse ++ s) rest := by
  induction s with
  | nil =>
    intro fuel rest acc h
    obtain ⟨f, rfl⟩ : ∃ f, fuel = f + 1 := ⟨fuel - 1, by simp at h; omega⟩
    simp [parseStringBody]
  | cons c cs ih =>
    intro fuel rest acc h
    obtain ⟨f, rfl⟩ : ∃ f, fuel = f + 1 := ⟨fuel - 1, by simp at h; omega⟩
    simp only [List.flatMap_cons, List.append_assoc]
    rw [parseStringBody_char, ih f rest (c :: acc) (by simp at h; omega)]
    simp

theorem escapeChar_length (c : Char) : 1 ≤ (escapeChar c).length := by
  unfold escapeChar
  repeat' split
  all_goals simp

theorem escape_length (s : List Char) : s.length ≤ (s.flatMap escapeChar).length := by
  induction s with
  | nil => simp
  | cons c cs ih =>
    have := escapeChar_length c
    simp only [List.flatMap_cons, List.length_append, List.length_cons]; omega

/-- a JSON string literal followed by anything is read back exactly -/
theorem string_literal (s rest : List Char) :
    parseStringBody ((s.flatMap escapeChar ++ '"' :: rest).length + 1) (s.flatMap escapeChar ++ '"' :: rest) []
      = .ok s rest := by
  have := parseStringBody_encode s ((s.flatMap escapeChar ++ '"' :: rest).length + 1) rest []
    (by have := escape_length s; simp only [List.length_append, List.length_cons]; omega)
  simpa using this

/-! ### integers -/

def digitsVal (acc : Nat) (ds : List Char) : Nat := ds.foldl (fun a c => a * 10 + (c.toNat - 48)) acc

def digitC (d : Nat) : Char := Char.ofNat (48 + d)

theorem digitC_facts : ∀ d, d < 10 → isDigit (digitC d) = true ∧ (digitC d).toNat - 48 = d ∧
    ((digitC d == '0') = decide (d = 0)) := by decide

theorem natDigits_eq (fuel n : Nat) (h : n < fuel) :
    natDigits fuel n = if n < 10 then [digitC n] else natDigits (fuel - 1) (n / 10) ++ [digitC (n % 10)] := by
  obtain ⟨f, rfl⟩ : ∃ f, fuel = f + 1 := ⟨fuel - 1, by omega⟩
  simp [natDigits, digitC]

/-- all characters are digits and their value is n -/
theorem natDigits_spec : ∀ (fuel n : Nat), n < fuel →
    (∀ c ∈ natDigits fuel n, isDigit c = true) ∧ digitsVal 0 (natDigits fuel n) = n ∧
    (∃ d tl, natDigits fuel n = digitC d :: tl ∧ d < 10 ∧ (d = 0 → n = 0 ∧ tl = [])) := by
  intro fuel
  induction fuel with
  | zero => intro n h; omega
  | succ f ih =>
    intro n h
    rw [natDigits_eq _ _ h]
    by_cases hn : n < 10
    · have hd := digitC_facts n hn
      simp only [hn, if_true]
      refine ⟨?_, ?_, n, [], rfl, hn, fun h0 => ⟨h0, rfl⟩⟩
      · intro c hc; simp only [List.mem_singleton] at hc; subst hc; exact hd.1
      · simp [digitsVal, hd.2.1]
    · simp only [hn, if_false, Nat.add_sub_cancel]
      have hlt : n / 10 < f := by omega
      obtain ⟨hall, hval, d, tl, hhd, hd10, hd0⟩ := ih (n / 10) hlt
      have hd := digitC_facts (n % 10) (by omega)
      refine ⟨?_, ?_, d, tl ++ [digitC (n % 10)], by rw [hhd]; rfl, hd10, ?_⟩
      · intro c hc
        simp only [List.mem_append, List.mem_singleton] at hc
        rcases hc with hc | rfl
        · exact hall c hc
        · exact hd.1
      · simp only [digitsVal, List.foldl_append, List.foldl_cons, List.foldl_nil] at hval ⊢
        rw [hval, hd.2.1]; omega
      · intro h0
        have := (hd0 h0).1
        omega

theorem takeDigits_digits (ds rest : List Char) (acc : Nat) (hds : ∀ c ∈ ds, isDigit c = true)
    (hrest : ∀ c tl, rest = c :: tl → isDigit c = false) :
    takeDigits (ds ++ rest) acc = (digitsVal acc ds, rest) := by
  induction ds generalizing acc with
  | nil =>
    simp only [List.nil_append, digitsVal, List.foldl_nil]
    cases rest with
    | nil => rfl
    | cons c tl => simp [takeDigits, hrest c tl rfl]
  | cons d ds ih =>
    have hd := hds d (List.mem_cons_self ..)
    simp only [List.cons_append, takeDigits, hd, if_true]
    rw [ih _ (fun c hc => hds c (List.mem_cons_of_mem _ hc))]
    simp [digitsVal]

/-- what may follow a number: not a digit and not the start of a fraction/exponent -/
def NumSafe (rest : List Char) : Prop :=
  ∀ c tl, rest = c :: tl → isDigit c = false ∧ (c == '.' || c == 'e' || c == 'E') = false

theorem parseNumberBody_natDigits (neg : Bool) (fuel n : Nat) (h : n < fuel) (rest : List Char) (hs : NumSafe rest) :
    parseNumberBody neg (natDigits fuel n ++ rest) = .ok (some (signed neg n)) rest := by
  obtain ⟨hall, hval, d, tl, hhd, hd10, hd0⟩ := natDigits_spec fuel n h
  have hd := digitC_facts d hd10
  have htake := takeDigits_digits (natDigits fuel n) rest 0 hall (fun c t e => (hs c t e).1)
  rw [hval] at htake
  rw [hhd] at htake ⊢
  simp only [List.cons_append] at htake ⊢
  unfold parseNumberBody
  simp only [hd.1, Bool.not_true, Bool.false_eq_true, if_false, hd.2.2]
  by_cases h0 : d = 0
  · obtain ⟨hn0, htl⟩ := hd0 h0
    subst hn0; subst htl
    simp only [h0, decide_true, if_true, List.nil_append]
    cases rest with
    | nil => rfl
    | cons c t => simp only [(hs c t rfl).2, Bool.false_eq_true, if_false]
  · simp only [h0, decide_false, Bool.false_eq_true, if_false, htake]
    cases rest with
    | nil => rfl
    | cons c t => simp only [(hs c t rfl).2, Bool.false_eq_true, if_false]

theorem digitC_ne_minus : ∀ d, d < 10 → (digitC d == '-') = false := by decide

theorem parseNumber_encodeInt (i : Int) (rest : List Char) (hs : NumSafe rest) :
    parseNumber (encodeInt i ++ rest) = .ok (some i) rest := by
  cases i with
  | ofNat n =>
    obtain ⟨_, _, d, tl, hhd, hd10, _⟩ := natDigits_spec (n + 1) n (by omega)
    have hb := parseNumberBody_natDigits false (n + 1) n (by omega) rest hs
    simp only [encodeInt]
    rw [hhd] at hb ⊢
    simp only [List.cons_append, parseNumber, digitC_ne_minus d hd10, Bool.false_eq_true, if_false] at hb ⊢
    rw [hb]; simp [signed]
  | negSucc n =>
    have hb := parseNumberBody_natDigits true (n + 2) (n + 1) (by omega) rest hs
    simp only [encodeInt, List.cons_append, parseNumber, show ('-' == '-') = true by decide, if_true]
    rw [hb]; simp [signed, Int.negSucc_eq]
/-! ### canonical values, size -/

mutual
  def Canon : JV → Prop
    | .null => True
    | .bool _ => True
    | .num _ => True
    | .str _ => True
    | .float => False
    | .arr l => CanonL l
    | .obj kvs => CanonM kvs ∧ kvs.Pairwise (fun a b => ltKey a.1 b.1 = true)
  def CanonL : List JV → Prop
    | [] => True
    | v :: r => Canon v ∧ CanonL r
  def CanonM : List (List Char × JV) → Prop
    | [] => True
    | (_, v) :: r => Canon v ∧ CanonM r
end

mutual
  def jsize : JV → Nat
    | .arr l => 1 + jsizeL l
    | .obj kvs => 1 + jsizeM kvs
    | _ => 1
  def jsizeL : List JV → Nat
    | [] => 0
    | v :: r => 1 + jsize v + jsizeL r
  def jsizeM : List (List Char × JV) → Nat
    | [] => 0
    | (_, v) :: r => 1 + jsize v + jsizeM r
end

/-! ### sorted insertion -/

theorem ltKey_asymm : ∀ a b, ltKey a b = true → ltKey b a = false := by
  intro a
  induction a with
  | nil => intro b h; cases b <;> simp [ltKey] at h ⊢
  | cons x xs ih =>
    intro b h
    cases b with
    | nil => simp [ltKey] at h
    | cons y ys =>
      simp only [ltKey] at h ⊢
      by_cases h1 : x.toNat < y.toNat
      · have : ¬ y.toNat < x.toNat := by omega
        simp [this, h1]
      · by_cases h2 : y.toNat < x.toNat
        · simp [h1, h2] at h
        · simp only [h1, h2, if_false] at h ⊢
          exact ih ys h

theorem insertKV_append (k : List Char) (v : JV) (acc : List (List Char × JV))
    (h : ∀ p ∈ acc, ltKey p.1 k = true) : insertKV k v acc = acc ++ [(k, v)] := by
  induction acc with
  | nil => rfl
  | cons p ps ih =>
    obtain ⟨k', v'⟩ := p
    have hk : ltKey k' k = true := h (k', v') (List.mem_cons_self ..)
    have hk' : ltKey k k' = false := ltKey_asymm _ _ hk
    simp only [insertKV, hk, hk', Bool.false_eq_true, if_false, if_true, List.cons_append]
    rw [ih (fun p hp => h p (List.mem_cons_of_mem _ hp))]

theorem foldl_insert_sorted (kvs acc : List (List Char × JV))
    (h : (acc ++ kvs).Pairwise (fun a b => ltKey a.1 b.1 = true)) :
    kvs.foldl (fun a kv => insertKV kv.1 kv.2 a) acc = acc ++ kvs := by
  induction kvs generalizing acc with
  | nil => simp
  | cons kv r ih =>
    simp only [List.foldl_cons]
    have hlt : ∀ p ∈ acc, ltKey p.1 kv.1 = true := by
      intro p hp
      rw [List.pairwise_append] at h
      exact h.2.2 p hp kv (List.mem_cons_self ..)
    rw [insertKV_append _ _ _ hlt, ih (acc ++ [kv]) (by simpa using h)]
    simp

/-! ### first character of an encoded value -/

theorem digitC_head : ∀ d, d < 10 → isWS (digitC d) = false ∧ (digitC d == ']') = false := by decide

theorem encode_head (jq : Bool) (v : JV) : ∃ c tl, encode jq v = c :: tl ∧ isWS c = false ∧ (c == ']') = false := by
  cases v with
  | null => exact ⟨'n', _, by simp [encode]; rfl, by decide, by decide⟩
  | bool b => cases b
              · exact ⟨'f', _, by simp [encode]; rfl, by decide, by decide⟩
              · exact ⟨'t', _, by simp [encode]; rfl, by decide, by decide⟩
  | num i =>
    cases i with
    | ofNat n =>
      obtain ⟨_, _, d, tl, hhd, hd10, _⟩ := natDigits_spec (n + 1) n (by omega)
      exact ⟨digitC d, tl, by simp [encode, encodeInt, hhd], (digitC_head d hd10).1, (digitC_head d hd10).2⟩
    | negSucc n => exact ⟨'-', _, by simp [encode, encodeInt]; rfl, by decide, by decide⟩
  | float => exact ⟨'0', _, by simp [encode]; rfl, by decide, by decide⟩
  | str s => exact ⟨'"', _, by simp [encode, encodeString]; rfl, by decide, by decide⟩
  | arr l => exact ⟨'[', _, by simp [encode]; rfl, by decide, by decide⟩
  | obj kvs => exact ⟨'{', _, by simp [encode]; rfl, by decide, by decide⟩

theorem skipWS_cons (c : Char) (tl : List Char) (h : isWS c = false) : skipWS (c :: tl) = c :: tl := by
  simp [skipWS, h]

theorem encodeInt_head (i : Int) : ∃ c tl, encodeInt i = c :: tl ∧ isWS c = false ∧ (c == '-' || isDigit c) = true := by
  cases i with
  | ofNat n =>
    obtain ⟨_, _, d, tl, hhd, hd10, _⟩ := natDigits_spec (n + 1) n (by omega)
    refine ⟨digitC d, tl, by simp [encodeInt, hhd], (digitC_head d hd10).1, ?_⟩
    simp [(digitC_facts d hd10).1]
  | negSucc n => exact ⟨'-', _, by simp [encodeInt]; rfl, by decide, by decide⟩

def P1 (jq : Bool) (v : JV) : Prop := Canon v → ∀ fuel rest, jsize v ≤ fuel → NumSafe rest →
  parseValue jq fuel (encode jq v ++ rest) = .ok v rest
def P2 (jq : Bool) (l : List JV) : Prop := l ≠ [] → CanonL l → ∀ fuel rest acc, jsizeL l ≤ fuel →
  parseElems jq fuel (encodeElems jq l ++ ']' :: rest) acc = .ok (.arr (acc.reverse ++ l)) rest
def P3 (jq : Bool) (kvs : List (List Char × JV)) : Prop := kvs ≠ [] → CanonM kvs → ∀ fuel rest acc, jsizeM kvs ≤ fuel →
  parseMembers jq fuel (encodeMembers jq kvs ++ '}' :: rest) acc
    = .ok (.obj (kvs.foldl (fun a kv => insertKV kv.1 kv.2 a) acc)) rest

theorem numSafe_comma (tl : List Char) : NumSafe (',' :: tl) := by
  intro c t h; cases h; exact ⟨by decide, by decide⟩
theorem numSafe_rbracket (tl : List Char) : NumSafe (']' :: tl) := by
  intro c t h; cases h; exact ⟨by decide, by decide⟩
theorem numSafe_rbrace (tl : List Char) : NumSafe ('}' :: tl) := by
  intro c t h; cases h; exact ⟨by decide, by decide⟩
theorem numSafe_nil : NumSafe [] := by intro c t h; cases h

theorem p1_leaf_null (jq : Bool) : P1 jq .null := by
  intro _ fuel rest hf _
  obtain ⟨f, rfl⟩ : ∃ f, fuel = f + 1 := ⟨fuel - 1, by simp [jsize] at hf; omega⟩
  simp [encode, parseValue, skipWS, isWS, isDigit]

theorem p1_leaf_bool (jq : Bool) (b : Bool) : P1 jq (.bool b) := by
  intro _ fuel rest hf _
  obtain ⟨f, rfl⟩ : ∃ f, fuel = f + 1 := ⟨fuel - 1, by simp [jsize] at hf; omega⟩
  cases b <;> simp [encode, parseValue, skipWS, isWS, isDigit]

theorem p1_leaf_num (jq : Bool) (i : Int) : P1 jq (.num i) := by
  intro _ fuel rest hf hs
  obtain ⟨f, rfl⟩ : ∃ f, fuel = f + 1 := ⟨fuel - 1, by simp [jsize] at hf; omega⟩
  obtain ⟨c, tl, he, hws, hnum⟩ := encodeInt_head i
  have hp := parseNumber_encodeInt i rest hs
  simp only [encode]
  rw [he] at hp ⊢
  simp only [List.cons_append] at hp ⊢
  simp only [parseValue, skipWS_cons c _ hws, hnum, if_true, hp]

theorem p1_leaf_str (jq : Bool) (s : List Char) : P1 jq (.str s) := by
  intro _ fuel rest hf _
  obtain ⟨f, rfl⟩ : ∃ f, fuel = f + 1 := ⟨fuel - 1, by simp [jsize] at hf; omega⟩
  have hl := string_literal s rest
  simp only [encode, encodeString, List.cons_append, List.append_assoc, List.nil_append]
  simp only [parseValue, skipWS_cons '"' _ (by decide), show ('"' == '-' || isDigit '"') = false by decide,
    Bool.false_eq_true, if_false, show ('"' == '"') = true by decide, if_true, hl]

theorem encodeElems_cons (jq : Bool) (v : JV) (r : List JV) (tail : List Char) :
    encodeElems jq (v :: r) ++ ']' :: tail
      = encode jq v ++ (if r = [] then ']' :: tail else ',' :: (encodeElems jq r ++ ']' :: tail)) := by
  cases r with
  | nil => simp [encodeElems]
  | cons w r' => simp [encodeElems]

theorem encodeMembers_cons (jq : Bool) (k : List Char) (v : JV) (r : List (List Char × JV)) (tail : List Char) :
    encodeMembers jq ((k, v) :: r) ++ '}' :: tail
      = keyText jq k ++ ':' :: (encode jq v ++ (if r = [] then '}' :: tail else ',' :: (encodeMembers jq r ++ '}' :: tail))) := by
  cases r with
  | nil => simp [encodeMembers]
  | cons w r' => obtain ⟨k', v'⟩ := w; simp [encodeMembers]

theorem p2_step (jq : Bool) (n : Nat) (ih1 : ∀ v, jsize v ≤ n → P1 jq v) (ih2 : ∀ l, jsizeL l ≤ n → P2 jq l)
    (l : List JV) (hl : jsizeL l ≤ n + 1) : P2 jq l := by
  intro hne hc fuel rest acc hf
  cases l with
  | nil => exact absurd rfl hne
  | cons v r =>
    simp only [jsizeL] at hl hf
    obtain ⟨f, rfl⟩ : ∃ f, fuel = f + 1 := ⟨fuel - 1, by omega⟩
    obtain ⟨hcv, hcr⟩ := hc
    rw [encodeElems_cons]
    by_cases hr : r = []
    · subst hr
      simp only [if_true]
      have hv := ih1 v (by omega) hcv f (']' :: rest) (by omega) (numSafe_rbracket rest)
      simp only [parseElems, hv, skipWS_cons ']' _ (by decide)]
      simp
    · simp only [hr, if_false]
      have hv := ih1 v (by omega) hcv f (',' :: (encodeElems jq r ++ ']' :: rest)) (by omega) (numSafe_comma _)
      have hrr := ih2 r (by omega) hr hcr f rest (v :: acc) (by omega)
      simp only [parseElems, hv, skipWS_cons ',' _ (by decide), hrr]
      simp

/-! ### object keys: a string literal, or (jq) a bare identifier -/

theorem identStart_facts (c : Char) (h : isIdentStart c = true) :
    isWS c = false ∧ (c == '"') = false ∧ (c == '}') = false ∧ isIdentChar c = true := by
  have hc : c.toNat < 128 := by
    simp only [isIdentStart, Bool.or_eq_true, Bool.and_eq_true, decide_eq_true_eq, beq_iff_eq, Char.le_def] at h
    rcases h with (⟨_, h2⟩ | ⟨_, h2⟩) | h2
    · have : c.val.toNat ≤ 'z'.val.toNat := by simpa [UInt32.le_iff_toNat_le] using h2
      exact Nat.lt_of_le_of_lt this (by decide)
    · have : c.val.toNat ≤ 'Z'.val.toNat := by simpa [UInt32.le_iff_toNat_le] using h2
      exact Nat.lt_of_le_of_lt this (by decide)
    · subst h2; decide
  have key : ∀ n, n < 128 → isIdentStart (Char.ofNat n) = true →
      isWS (Char.ofNat n) = false ∧ (Char.ofNat n == '"') = false ∧ (Char.ofNat n == '}') = false
        ∧ isIdentChar (Char.ofNat n) = true := by decide
  have := key c.toNat hc (by rw [Char.ofNat_toNat]; exact h)
  rwa [Char.ofNat_toNat] at this

theorem takeIdent_all (k rest : List Char) (hk : k.all isIdentChar = true)
    (hrest : ∀ c tl, rest = c :: tl → isIdentChar c = false) : takeIdent (k ++ rest) = (k, rest) := by
  induction k with
  | nil =>
    cases rest with
    | nil => rfl
    | cons c tl => simp [takeIdent, hrest c tl rfl]
  | cons c cs ih =>
    simp only [List.all_cons, Bool.and_eq_true] at hk
    simp only [List.cons_append, takeIdent, hk.1, if_true, ih hk.2]

/-- the key of a member, followed by `:`, is read back -/
theorem key_roundtrip (jq : Bool) (k tail : List Char) :
    ∃ c r, keyText jq k ++ ':' :: tail = c :: r ∧ isWS c = false ∧ (c == '}') = false ∧
      (if c == '"' then parseStringBody (r.length + 1) r []
       else if jq && isIdentStart c then .ok (takeIdent (c :: r)).1 (takeIdent (c :: r)).2
       else .err) = .ok k (':' :: tail) := by
  unfold keyText
  by_cases hi : (jq && isIdent k) = true
  · simp only [hi, if_true]
    simp only [Bool.and_eq_true] at hi
    obtain ⟨hjq, hid⟩ := hi
    cases k with
    | nil => simp [isIdent] at hid
    | cons c cs =>
      simp only [isIdent, Bool.and_eq_true] at hid
      obtain ⟨hws, hq, hb, hic⟩ := identStart_facts c hid.1
      refine ⟨c, cs ++ ':' :: tail, rfl, hws, hb, ?_⟩
      have ht := takeIdent_all (c :: cs) (':' :: tail) (by simp [hic, hid.2])
        (by intro x t e; cases e; decide)
      simp only [List.cons_append] at ht
      simp only [hq, Bool.false_eq_true, if_false, hjq, hid.1, Bool.and_self, if_true, ht]
  · simp only [hi, Bool.false_eq_true, if_false, encodeString, List.cons_append, List.append_assoc, List.nil_append]
    refine ⟨'"', _, rfl, by decide, by decide, ?_⟩
    simp only [show ('"' == '"') = true by decide, if_true]
    exact string_literal k (':' :: tail)

theorem p3_step (jq : Bool) (n : Nat) (ih1 : ∀ v, jsize v ≤ n → P1 jq v) (ih3 : ∀ kvs, jsizeM kvs ≤ n → P3 jq kvs)
    (kvs : List (List Char × JV)) (hl : jsizeM kvs ≤ n + 1) : P3 jq kvs := by
  intro hne hc fuel rest acc hf
  cases kvs with
  | nil => exact absurd rfl hne
  | cons kv r =>
    obtain ⟨k, v⟩ := kv
    simp only [jsizeM] at hl hf
    obtain ⟨f, rfl⟩ : ∃ f, fuel = f + 1 := ⟨fuel - 1, by omega⟩
    obtain ⟨hcv, hcr⟩ := hc
    rw [encodeMembers_cons]
    by_cases hr : r = []
    · subst hr
      simp only [if_true]
      obtain ⟨c, rr, hT, hws, _, hk⟩ := key_roundtrip jq k (encode jq v ++ '}' :: rest)
      have hv := ih1 v (by omega) hcv f ('}' :: rest) (by omega) (numSafe_rbrace rest)
      rw [hT]
      simp only [parseMembers, skipWS_cons c _ hws, hk, skipWS_cons ':' _ (by decide), hv,
        skipWS_cons '}' _ (by decide)]
      simp
    · simp only [hr, if_false]
      obtain ⟨c, rr, hT, hws, _, hk⟩ := key_roundtrip jq k (encode jq v ++ ',' :: (encodeMembers jq r ++ '}' :: rest))
      have hv := ih1 v (by omega) hcv f (',' :: (encodeMembers jq r ++ '}' :: rest)) (by omega) (numSafe_comma _)
      have hrr := ih3 r (by omega) hr hcr f rest (insertKV k v acc) (by omega)
      rw [hT]
      simp only [parseMembers, skipWS_cons c _ hws, hk, skipWS_cons ':' _ (by decide), hv,
        skipWS_cons ',' _ (by decide), hrr]
      simp

theorem elems_head (jq : Bool) (v : JV) (r : List JV) (tail : List Char) :
    ∃ c tl, encodeElems jq (v :: r) ++ ']' :: tail = c :: tl ∧ isWS c = false ∧ (c == ']') = false := by
  obtain ⟨c, tl, he, hws, hnb⟩ := encode_head jq v
  rw [encodeElems_cons, he]
  exact ⟨c, _, rfl, hws, hnb⟩

theorem members_head (jq : Bool) (k : List Char) (v : JV) (r : List (List Char × JV)) (tail : List Char) :
    ∃ c tl, encodeMembers jq ((k, v) :: r) ++ '}' :: tail = c :: tl ∧ isWS c = false ∧ (c == '}') = false := by
  rw [encodeMembers_cons]
  obtain ⟨c, rr, hT, hws, hb, _⟩ := key_roundtrip jq k
    (encode jq v ++ (if r = [] then '}' :: tail else ',' :: (encodeMembers jq r ++ '}' :: tail)))
  exact ⟨c, rr, hT, hws, hb⟩

theorem p1_step (jq : Bool) (n : Nat) (ih2 : ∀ l, jsizeL l ≤ n → P2 jq l) (ih3 : ∀ kvs, jsizeM kvs ≤ n → P3 jq kvs)
    (v : JV) (hv : jsize v ≤ n + 1) : P1 jq v := by
  cases v with
  | null => exact p1_leaf_null jq
  | bool b => exact p1_leaf_bool jq b
  | num i => exact p1_leaf_num jq i
  | str s => exact p1_leaf_str jq s
  | float => intro hc; exact absurd hc (by simp [Canon])
  | arr l =>
    intro hc fuel rest hf _
    simp only [jsize] at hv hf
    obtain ⟨f, rfl⟩ : ∃ f, fuel = f + 1 := ⟨fuel - 1, by omega⟩
    simp only [encode, List.cons_append, List.append_assoc, List.nil_append]
    simp only [parseValue, skipWS_cons '[' _ (by decide), show ('[' == '-' || isDigit '[') = false by decide,
      show ('[' == '"') = false by decide, show ('[' == '[') = true by decide, Bool.false_eq_true, if_false, if_true]
    cases l with
    | nil => simp [encodeElems, skipWS_cons ']' _ (by decide)]
    | cons w r =>
      have hrr := ih2 (w :: r) (by omega) (by simp) hc f rest [] (by omega)
      obtain ⟨c, tl, hT, hws, hnb⟩ := elems_head jq w r rest
      rw [hT] at hrr ⊢
      simp only [skipWS_cons c _ hws, hnb, Bool.false_eq_true, if_false, hrr]
      simp
  | obj kvs =>
    intro hc fuel rest hf _
    simp only [jsize] at hv hf
    obtain ⟨f, rfl⟩ : ∃ f, fuel = f + 1 := ⟨fuel - 1, by omega⟩
    obtain ⟨hcm, hsorted⟩ := hc
    simp only [encode, List.cons_append, List.append_assoc, List.nil_append]
    simp only [parseValue, skipWS_cons '{' _ (by decide), show ('{' == '-' || isDigit '{') = false by decide,
      show ('{' == '"') = false by decide, show ('{' == '[') = false by decide, show ('{' == '{') = true by decide,
      Bool.false_eq_true, if_false, if_true]
    cases kvs with
    | nil => simp [encodeMembers, skipWS_cons '}' _ (by decide)]
    | cons kv r =>
      obtain ⟨k, w⟩ := kv
      have hrr := ih3 ((k, w) :: r) (by omega) (by simp) hcm f rest [] (by omega)
      rw [foldl_insert_sorted _ [] (by simpa using hsorted)] at hrr
      obtain ⟨c, tl, hT, hws, hnb⟩ := members_head jq k w r rest
      rw [hT] at hrr ⊢
      simp only [skipWS_cons c _ hws, hnb, Bool.false_eq_true, if_false, hrr]
      simp

theorem main_induction (jq : Bool) : ∀ n, (∀ v, jsize v ≤ n → P1 jq v) ∧ (∀ l, jsizeL l ≤ n → P2 jq l) ∧
    (∀ kvs, jsizeM kvs ≤ n → P3 jq kvs) := by
  intro n
  induction n with
  | zero =>
    refine ⟨?_, ?_, ?_⟩
    · intro v hv; cases v <;> simp [jsize] at hv
    · intro l hl; cases l with
      | nil => intro h; exact absurd rfl h
      | cons v r => simp [jsizeL] at hl
    · intro kvs hl; cases kvs with
      | nil => intro h; exact absurd rfl h
      | cons kv r => obtain ⟨k, v⟩ := kv; simp [jsizeM] at hl
  | succ n ih =>
    obtain ⟨ih1, ih2, ih3⟩ := ih
    exact ⟨fun v hv => p1_step jq n ih2 ih3 v hv, fun l hl => p2_step jq n ih1 ih2 l hl,
      fun kvs hl => p3_step jq n ih1 ih3 kvs hl⟩

theorem keyText_length (jq : Bool) (k : List Char) : 1 ≤ (keyText jq k).length := by
  unfold keyText
  split
  · rename_i h
    simp only [Bool.and_eq_true] at h
    cases k with
    | nil => simp [isIdent] at h
    | cons c cs => simp
  · simp [encodeString]

mutual
  theorem jsize_le_length (jq : Bool) : ∀ v : JV, jsize v ≤ (encode jq v).length
    | .null => by simp [jsize, encode]
    | .bool true => by simp [jsize, encode]
    | .bool false => by simp [jsize, encode]
    | .num i => by
      obtain ⟨c, tl, he, _, _⟩ := encodeInt_head i
      simp [jsize, encode, he]
    | .float => by simp [jsize, encode]
    | .str s => by simp [jsize, encode, encodeString]
    | .arr l => by
      have := jsizeL_le_length jq l
      simp only [jsize, encode, List.length_cons, List.length_append, List.length_nil]; omega
    | .obj kvs => by
      have := jsizeM_le_length jq kvs
      simp only [jsize, encode, List.length_cons, List.length_append, List.length_nil]; omega
  theorem jsizeL_le_length (jq : Bool) : ∀ l : List JV, jsizeL l ≤ (encodeElems jq l).length + 1
    | [] => by simp [jsizeL]
    | [v] => by
      have := jsize_le_length jq v
      simp only [jsizeL, encodeElems]; omega
    | v :: w :: r => by
      have h1 := jsize_le_length jq v
      have h2 := jsizeL_le_length jq (w :: r)
      simp only [jsizeL, encodeElems, List.length_append, List.length_cons] at h2 ⊢; omega
  theorem jsizeM_le_length (jq : Bool) : ∀ kvs : List (List Char × JV), jsizeM kvs ≤ (encodeMembers jq kvs).length + 1
    | [] => by simp [jsizeM]
    | [(k, v)] => by
      have := jsize_le_length jq v
      have := keyText_length jq k
      simp only [jsizeM, encodeMembers, List.length_append, List.length_cons]; omega
    | (k, v) :: w :: r => by
      have h1 := jsize_le_length jq v
      have h2 := jsizeM_le_length jq (w :: r)
      have := keyText_length jq k
      simp only [jsizeM, encodeMembers, List.length_append, List.length_cons] at h2 ⊢; omega
end

theorem parseWith_encode (jq : Bool) (v : JV) (hc : Canon v) : parseWith jq (encode jq v) = .ok v [] := by
  have h := (main_induction jq (jsize v)).1 v (Nat.le_refl _) hc ((encode jq v).length + 1) []
    (by have := jsize_le_length jq v; omega) numSafe_nil
  simp only [List.append_nil] at h
  simp [parseWith, h, skipWS]

theorem parse_encode (v : JV) (hc : Canon v) : parse (encode false v) = .ok v [] := parseWith_encode false v hc

theorem parseJq_encode (v : JV) (hc : Canon v) : parseJq (encode true v) = .ok v [] := parseWith_encode true v hc
end Proofs.C14J
