import FqModel.C14Json
import Proofs.C14Codec
/-! C14 helper lemmas: JSON text round trip (core Lean only). -/
namespace Proofs.C14J
open FqModel.Json

theorem char_valid (c : Char) : c.toNat < 0xD800 ∨ (0xDFFF < c.toNat ∧ c.toNat < 0x110000) := c.valid

/-! ### strings -/

theorem hexVal_hexDigitLower : ∀ n, n < 16 → hexVal (hexDigitLower n) = some n := by decide

theorem char_eq_of_toNat {a b : Char} (h : a.toNat = b.toNat) : a = b := by
  have : Char.ofNat a.toNat = Char.ofNat b.toNat := by rw [h]
  simpa using this

/-- one source character: its escape sequence is read back as that character, using one unit of fuel -/
theorem parseStringBody_char (c : Char) (fuel : Nat) (tail acc : List Char) :
    parseStringBody (fuel + 1) (escapeChar c ++ tail) acc = parseStringBody fuel tail (c :: acc) := by
  unfold escapeChar
  split
  · rename_i h; have : c = '"' := by simpa using h
    subst this; simp [parseStringBody]
  · split
    · rename_i h; have : c = '\\' := by simpa using h
      subst this; simp [parseStringBody]
    · split
      · rename_i h; have h' : c.toNat = 8 := by simpa using h
        have : c = Char.ofNat 8 := char_eq_of_toNat (by rw [h']; decide)
        subst this; simp [parseStringBody]
      · split
        · rename_i h; have h' : c.toNat = 12 := by simpa using h
          have : c = Char.ofNat 12 := char_eq_of_toNat (by rw [h']; decide)
          subst this; simp [parseStringBody]
        · split
          · rename_i h; have h' : c.toNat = 10 := by simpa using h
            have : c = '\n' := char_eq_of_toNat (by rw [h']; decide)
            subst this; simp [parseStringBody]
          · split
            · rename_i h; have h' : c.toNat = 13 := by simpa using h
              have : c = '\r' := char_eq_of_toNat (by rw [h']; decide)
              subst this; simp [parseStringBody]
            · split
              · rename_i h; have h' : c.toNat = 9 := by simpa using h
                have : c = '\t' := char_eq_of_toNat (by rw [h']; decide)
                subst this; simp [parseStringBody]
              · rename_i hq hb h8 h12 h10 h13 h9
                split
                · rename_i h
                  have hlt : c.toNat < 128 := by
                    simp only [Bool.or_eq_true, decide_eq_true_eq, beq_iff_eq] at h; omega
                  have h1 := hexVal_hexDigitLower (c.toNat / 16) (by omega)
                  have h2 := hexVal_hexDigitLower (c.toNat % 16) (by omega)
                  have h0 : hexVal '0' = some 0 := by decide
                  have hx : ((0 * 16 + 0) * 16 + c.toNat / 16) * 16 + c.toNat % 16 = c.toNat := by omega
                  simp only [List.cons_append, List.nil_append]
                  rw [parseStringBody]
                  simp only [show ('\\' == '"') = false by decide, show ¬ ('\\'.toNat < 0x20) by decide,
                    show ('\\' == '\\') = true by decide, Bool.false_eq_true, if_false, if_true,
                    show ('u' == '"') = false by decide, show ('u' == '\\') = false by decide,
                    show ('u' == '/') = false by decide, show ('u' == 'b') = false by decide,
                    show ('u' == 'f') = false by decide, show ('u' == 'n') = false by decide,
                    show ('u' == 'r') = false by decide, show ('u' == 't') = false by decide,
                    show ('u' == 'u') = true by decide, getu4, h0, h1, h2, hx]
                  rw [if_neg (by omega)]
                  simp
                · rename_i h
                  have hge : ¬ c.toNat < 0x20 := by
                    simp only [Bool.or_eq_true, decide_eq_true_eq, beq_iff_eq, not_or] at h; omega
                  simp only [List.cons_append, List.nil_append]
                  rw [parseStringBody.eq_def]
                  simp only [hq, hb, hge, Bool.false_eq_true, if_false]

theorem parseStringBody_encode (s : List Char) : ∀ (fuel : Nat) (rest acc : List Char), s.length < fuel →
    parseStringBody fuel (s.flatMap escapeChar ++ '"' :: rest) acc = .ok (acc.reverse ++ s) rest := by
  induction s with
  | nil =>
    intro fuel rest acc h
    obtain ⟨f, rfl⟩ : ∃ f, fuel = f + 1 := ⟨fuel - 1, by simp at h; omega⟩
    simp [parseStringBody]
  | cons c cs ih =>
    intro fuel rest acc h
    obtain ⟨f, rfl⟩ : ∃ f, fuel = f + 1 := ⟨fuel - 1, by simp at h; omega⟩
    simp only [List.flatMap_cons, List.append_assoc]
    rw [parseStringBody_char, ih f rest (c :: acc) (by simp at h; omega)]
    simp

theorem escapeChar_length (c : Char) : 1 ≤ (escapeChar c).length := by
  unfold escapeChar
  repeat' split
  all_goals simp

theorem escape_length (s : List Char) : s.length ≤ (s.flatMap escapeChar).length := by
  induction s with
  | nil => simp
  | cons c cs ih =>
    have := escapeChar_length c
    simp only [List.flatMap_cons, List.length_append, List.length_cons]; omega

/-- a JSON string literal followed by anything is read back exactly -/
theorem string_literal (s rest : List Char) :
    parseStringBody ((s.flatMap escapeChar ++ '"' :: rest).length + 1) (s.flatMap escapeChar ++ '"' :: rest) []
      = .ok s rest := by
  have := parseStringBody_encode s ((s.flatMap escapeChar ++ '"' :: rest).length + 1) rest []
    (by have := escape_length s; simp only [List.length_append, List.length_cons]; omega)
  simpa using this

/-! ### integers -/

def digitsVal (acc : Nat) (ds : List Char) : Nat := ds.foldl (fun a c => a * 10 + (c.toNat - 48)) acc

def digitC (d : Nat) : Char := Char.ofNat (48 + d)

theorem digitC_facts : ∀ d, d < 10 → isDigit (digitC d) = true ∧ (digitC d).toNat - 48 = d ∧
    ((digitC d == '0') = decide (d = 0)) := by decide

theorem natDigits_eq (fuel n : Nat) (h : n < fuel) :
    natDigits fuel n = if n < 10 then [digitC n] else natDigits (fuel - 1) (n / 10) ++ [digitC (n % 10)] := by
  obtain ⟨f, rfl⟩ : ∃ f, fuel = f + 1 := ⟨fuel - 1, by omega⟩
  simp [natDigits, digitC]

/-- all characters are digits and their value is n -/
theorem natDigits_spec : ∀ (fuel n : Nat), n < fuel →
    (∀ c ∈ natDigits fuel n, isDigit c = true) ∧ digitsVal 0 (natDigits fuel n) = n ∧
    (∃ d tl, natDigits fuel n = digitC d :: tl ∧ d < 10 ∧ (d = 0 → n = 0 ∧ tl = [])) := by
  intro fuel
  induction fuel with
  | zero => intro n h; omega
  | succ f ih =>
    intro n h
    rw [natDigits_eq _ _ h]
    by_cases hn : n < 10
    · have hd := digitC_facts n hn
      simp only [hn, if_true]
      refine ⟨?_, ?_, n, [], rfl, hn, fun h0 => ⟨h0, rfl⟩⟩
      · intro c hc; simp only [List.mem_singleton] at hc; subst hc; exact hd.1
      · simp [digitsVal, hd.2.1]
    · simp only [hn, if_false, Nat.add_sub_cancel]
      have hlt : n / 10 < f := by omega
      obtain ⟨hall, hval, d, tl, hhd, hd10, hd0⟩ := ih (n / 10) hlt
      have hd := digitC_facts (n % 10) (by omega)
      refine ⟨?_, ?_, d, tl ++ [digitC (n % 10)], by rw [hhd]; rfl, hd10, ?_⟩
      · intro c hc
        simp only [List.mem_append, List.mem_singleton] at hc
        rcases hc with hc | rfl
        · exact hall c hc
        · exact hd.1
      · simp only [digitsVal, List.foldl_append, List.foldl_cons, List.foldl_nil] at hval ⊢
        rw [hval, hd.2.1]; omega
      · intro h0
        have := (hd0 h0).1
        omega

theorem takeDigits_digits (ds rest : List Char) (acc : Nat) (hds : ∀ c ∈ ds, isDigit c = true)
    (hrest : ∀ c tl, rest = c :: tl → isDigit c = false) :
    takeDigits (ds ++ rest) acc = (digitsVal acc ds, rest) := by
  induction ds generalizing acc with
  | nil =>
    simp only [List.nil_append, digitsVal, List.foldl_nil]
    cases rest with
    | nil => rfl
    | cons c tl => simp [takeDigits, hrest c tl rfl]
  | cons d ds ih =>
    have hd := hds d (List.mem_cons_self ..)
    simp only [List.cons_append, takeDigits, hd, if_true]
    rw [ih _ (fun c hc => hds c (List.mem_cons_of_mem _ hc))]
    simp [digitsVal]

/-- what may follow a number: not a digit and not the start of a fraction/exponent -/
def NumSafe (rest : List Char) : Prop :=
  ∀ c tl, rest = c :: tl → isDigit c = false ∧ (c == '.' || c == 'e' || c == 'E') = false

theorem parseNumberBody_natDigits (neg : Bool) (fuel n : Nat) (h : n < fuel) (rest : List Char) (hs : NumSafe rest) :
    parseNumberBody neg (natDigits fuel n ++ rest) = .ok (some (signed neg n)) rest := by
  obtain ⟨hall, hval, d, tl, hhd, hd10, hd0⟩ := natDigits_spec fuel n h
  have hd := digitC_facts d hd10
  have htake := takeDigits_digits (natDigits fuel n) rest 0 hall (fun c t e => (hs c t e).1)
  rw [hval] at htake
  rw [hhd] at htake ⊢
  simp only [List.cons_append] at htake ⊢
  unfold parseNumberBody
  simp only [hd.1, Bool.not_true, Bool.false_eq_true, if_false, hd.2.2]
  by_cases h0 : d = 0
  · obtain ⟨hn0, htl⟩ := hd0 h0
    subst hn0; subst htl
    simp only [h0, decide_true, if_true, List.nil_append]
    cases rest with
    | nil => rfl
    | cons c t => simp only [(hs c t rfl).2, Bool.false_eq_true, if_false]
  · simp only [h0, decide_false, Bool.false_eq_true, if_false, htake]
    cases rest with
    | nil => rfl
    | cons c t => simp only [(hs c t rfl).2, Bool.false_eq_true, if_false]

theorem digitC_ne_minus : ∀ d, d < 10 → (digitC d == '-') = false := by decide

theorem parseNumber_encodeInt (i : Int) (rest : List Char) (hs : NumSafe rest) :
    parseNumber (encodeInt i ++ rest) = .ok (some i) rest := by
  cases i with
  | ofNat n =>
    obtain ⟨_, _, d, tl, hhd, hd10, _⟩ := natDigits_spec (n + 1) n (by omega)
    have hb := parseNumberBody_natDigits false (n + 1) n (by omega) rest hs
    simp only [encodeInt]
    rw [hhd] at hb ⊢
    simp only [List.cons_append, parseNumber, digitC_ne_minus d hd10, Bool.false_eq_true, if_false] at hb ⊢
    rw [hb]; simp [signed]
  | negSucc n =>
    have hb := parseNumberBody_natDigits true (n + 2) (n + 1) (by omega) rest hs
    simp only [encodeInt, List.cons_append, parseNumber, show ('-' == '-') = true by decide, if_true]
    rw [hb]; simp [signed, Int.negSucc_eq]
/-! ### canonical values, size -/

mutual
  def Canon : JV → Prop
    | .null => True
    | .bool _ => True
    | .num _ => True
    | .str _ => True
    | .float => False
    | .arr l => CanonL l
    | .obj kvs => CanonM kvs ∧ kvs.Pairwise (fun a b => ltKey a.1 b.1 = true)
  def CanonL : List JV → Prop
    | [] => True
    | v :: r => Canon v ∧ CanonL r
  def CanonM : List (List Char × JV) → Prop
    | [] => True
    | (_, v) :: r => Canon v ∧ CanonM r
end

mutual
  def jsize : JV → Nat
    | .arr l => 1 + jsizeL l
    | .obj kvs => 1 + jsizeM kvs
    | _ => 1
  def jsizeL : List JV → Nat
    | [] => 0
    | v :: r => 1 + jsize v + jsizeL r
  def jsizeM : List (List Char × JV) → Nat
    | [] => 0
    | (_, v) :: r => 1 + jsize v + jsizeM r
end

/-! ### sorted insertion -/

theorem ltKey_asymm : ∀ a b, ltKey a b = true → ltKey b a = false := by
  intro a
  induction a with
  | nil => intro b h; cases b <;> simp [ltKey] at h ⊢
  | cons x xs ih =>
    intro b h
    cases b with
    | nil => simp [ltKey] at h
    | cons y ys =>
      simp only [ltKey] at h ⊢
      by_cases h1 : x.toNat < y.toNat
      · have : ¬ y.toNat < x.toNat := by omega
        simp [this, h1]
      · by_cases h2 : y.toNat < x.toNat
        · simp [h1, h2] at h
        · simp only [h1, h2, if_false] at h ⊢
          exact ih ys h

theorem insertKV_append (k : List Char) (v : JV) (acc : List (List Char × JV))
    (h : ∀ p ∈ acc, ltKey p.1 k = true) : insertKV k v acc = acc ++ [(k, v)] := by
  induction acc with
  | nil => rfl
  | cons p ps ih =>
    obtain ⟨k', v'⟩ := p
    have hk : ltKey k' k = true := h (k', v') (List.mem_cons_self ..)
    have hk' : ltKey k k' = false := ltKey_asymm _ _ hk
    simp only [insertKV, hk, hk', Bool.false_eq_true, if_false, if_true, List.cons_append]
    rw [ih (fun p hp => h p (List.mem_cons_of_mem _ hp))]

theorem foldl_insert_sorted (kvs acc : List (List Char × JV))
    (h : (acc ++ kvs).Pairwise (fun a b => ltKey a.1 b.1 = true)) :
    kvs.foldl (fun a kv => insertKV kv.1 kv.2 a) acc = acc ++ kvs := by
  induction kvs generalizing acc with
  | nil => simp
  | cons kv r ih =>
    simp only [List.foldl_cons]
    have hlt : ∀ p ∈ acc, ltKey p.1 kv.1 = true := by
      intro p hp
      rw [List.pairwise_append] at h
      exact h.2.2 p hp kv (List.mem_cons_self ..)
    rw [insertKV_append _ _ _ hlt, ih (acc ++ [kv]) (by simpa using h)]
    simp

/-! ### white space -/

def AllWS (ws : List Char) : Prop := ∀ c ∈ ws, isWS c = true

theorem allWS_nil : AllWS [] := by intro c hc; cases hc

theorem allWS_nl (ind d : Nat) : AllWS (nl ind d) := by
  intro c hc
  unfold nl at hc
  split at hc
  · cases hc
  · simp only [List.mem_cons, List.mem_replicate] at hc
    rcases hc with rfl | ⟨_, rfl⟩ <;> decide

theorem allWS_ksep (ind : Nat) : AllWS (ksep ind) := by
  intro c hc
  unfold ksep at hc
  split at hc
  · cases hc
  · simp only [List.mem_singleton] at hc; subst hc; decide

theorem skipWS_ws (ws : List Char) (h : AllWS ws) (c : Char) (tl : List Char) (hc : isWS c = false) :
    skipWS (ws ++ c :: tl) = c :: tl := by
  induction ws with
  | nil => simp [skipWS, hc]
  | cons w ws ih =>
    have hw : isWS w = true := h w (List.mem_cons_self ..)
    simp only [List.cons_append, skipWS, hw, if_true]
    exact ih (fun x hx => h x (List.mem_cons_of_mem _ hx))

theorem skipWS_cons (c : Char) (tl : List Char) (h : isWS c = false) : skipWS (c :: tl) = c :: tl :=
  skipWS_ws [] allWS_nil c tl h

theorem ws_not_numstart : ∀ c, isWS c = true → isDigit c = false ∧ (c == '.' || c == 'e' || c == 'E') = false := by
  intro c h
  simp only [isWS, Bool.or_eq_true, beq_iff_eq] at h
  rcases h with ((rfl | rfl) | rfl) | rfl <;> exact ⟨by decide, by decide⟩

/-- white space, then a delimiter, may follow a number -/
theorem numSafe_ws (ws : List Char) (h : AllWS ws) (rest : List Char) (hr : NumSafe rest) : NumSafe (ws ++ rest) := by
  cases ws with
  | nil => simpa using hr
  | cons w ws' =>
    intro c t e
    simp only [List.cons_append, List.cons.injEq] at e
    obtain ⟨rfl, _⟩ := e
    exact ws_not_numstart _ (h _ (List.mem_cons_self ..))

/-! ### first character of an encoded value -/

theorem digitC_head : ∀ d, d < 10 → isWS (digitC d) = false ∧ (digitC d == ']') = false := by decide

theorem encode_head (jq : Bool) (ind d : Nat) (v : JV) :
    ∃ c tl, encodeI jq ind d v = c :: tl ∧ isWS c = false ∧ (c == ']') = false := by
  cases v with
  | null => exact ⟨'n', _, by simp [encodeI]; rfl, by decide, by decide⟩
  | bool b => cases b
              · exact ⟨'f', _, by simp [encodeI]; rfl, by decide, by decide⟩
              · exact ⟨'t', _, by simp [encodeI]; rfl, by decide, by decide⟩
  | num i =>
    cases i with
    | ofNat n =>
      obtain ⟨_, _, dd, tl, hhd, hd10, _⟩ := natDigits_spec (n + 1) n (by omega)
      exact ⟨digitC dd, tl, by simp [encodeI, encodeInt, hhd], (digitC_head dd hd10).1, (digitC_head dd hd10).2⟩
    | negSucc n => exact ⟨'-', _, by simp [encodeI, encodeInt]; rfl, by decide, by decide⟩
  | float => exact ⟨'0', _, by simp [encodeI]; rfl, by decide, by decide⟩
  | str s => exact ⟨'"', _, by simp [encodeI, encodeString]; rfl, by decide, by decide⟩
  | arr l => cases l with
    | nil => exact ⟨'[', _, by simp [encodeI]; rfl, by decide, by decide⟩
    | cons w r => exact ⟨'[', _, by simp [encodeI]; rfl, by decide, by decide⟩
  | obj kvs => cases kvs with
    | nil => exact ⟨'{', _, by simp [encodeI]; rfl, by decide, by decide⟩
    | cons w r => exact ⟨'{', _, by simp [encodeI]; rfl, by decide, by decide⟩

theorem encodeInt_head (i : Int) : ∃ c tl, encodeInt i = c :: tl ∧ isWS c = false ∧ (c == '-' || isDigit c) = true := by
  cases i with
  | ofNat n =>
    obtain ⟨_, _, d, tl, hhd, hd10, _⟩ := natDigits_spec (n + 1) n (by omega)
    refine ⟨digitC d, tl, by simp [encodeInt, hhd], (digitC_head d hd10).1, ?_⟩
    simp [(digitC_facts d hd10).1]
  | negSucc n => exact ⟨'-', _, by simp [encodeInt]; rfl, by decide, by decide⟩

/-- the statements proved by simultaneous induction on the size: a value / element list / member
    list, preceded by arbitrary white space, is read back -/
def P1 (jq : Bool) (ind : Nat) (v : JV) : Prop := Canon v → ∀ d fuel ws rest, jsize v ≤ fuel → AllWS ws → NumSafe rest →
  parseValue jq fuel (ws ++ encodeI jq ind d v ++ rest) = .ok v rest
def P2 (jq : Bool) (ind : Nat) (l : List JV) : Prop := l ≠ [] → CanonL l → ∀ d fuel ws ws2 rest acc, jsizeL l ≤ fuel →
  AllWS ws → AllWS ws2 →
  parseElems jq fuel (ws ++ encodeElems jq ind d l ++ ws2 ++ ']' :: rest) acc = .ok (.arr (acc.reverse ++ l)) rest
def P3 (jq : Bool) (ind : Nat) (kvs : List (List Char × JV)) : Prop := kvs ≠ [] → CanonM kvs →
  ∀ d fuel ws ws2 rest acc, jsizeM kvs ≤ fuel → AllWS ws → AllWS ws2 →
  parseMembers jq fuel (ws ++ encodeMembers jq ind d kvs ++ ws2 ++ '}' :: rest) acc
    = .ok (.obj (kvs.foldl (fun a kv => insertKV kv.1 kv.2 a) acc)) rest

theorem numSafe_comma (tl : List Char) : NumSafe (',' :: tl) := by
  intro c t h; cases h; exact ⟨by decide, by decide⟩
theorem numSafe_rbracket (tl : List Char) : NumSafe (']' :: tl) := by
  intro c t h; cases h; exact ⟨by decide, by decide⟩
theorem numSafe_rbrace (tl : List Char) : NumSafe ('}' :: tl) := by
  intro c t h; cases h; exact ⟨by decide, by decide⟩
theorem numSafe_nil : NumSafe [] := by intro c t h; cases h

theorem p1_leaf_null (jq : Bool) (ind : Nat) : P1 jq ind .null := by
  intro _ d fuel ws rest hf hws _
  obtain ⟨f, rfl⟩ : ∃ f, fuel = f + 1 := ⟨fuel - 1, by simp [jsize] at hf; omega⟩
  simp only [encodeI, List.cons_append, List.nil_append, List.append_assoc]
  simp [parseValue, skipWS_ws ws hws 'n' _ (by decide), isDigit]

theorem p1_leaf_bool (jq : Bool) (ind : Nat) (b : Bool) : P1 jq ind (.bool b) := by
  intro _ d fuel ws rest hf hws _
  obtain ⟨f, rfl⟩ : ∃ f, fuel = f + 1 := ⟨fuel - 1, by simp [jsize] at hf; omega⟩
  cases b
  · simp only [encodeI, List.cons_append, List.nil_append, List.append_assoc]
    simp [parseValue, skipWS_ws ws hws 'f' _ (by decide), isDigit]
  · simp only [encodeI, List.cons_append, List.nil_append, List.append_assoc]
    simp [parseValue, skipWS_ws ws hws 't' _ (by decide), isDigit]

theorem p1_leaf_num (jq : Bool) (ind : Nat) (i : Int) : P1 jq ind (.num i) := by
  intro _ d fuel ws rest hf hws hs
  obtain ⟨f, rfl⟩ : ∃ f, fuel = f + 1 := ⟨fuel - 1, by simp [jsize] at hf; omega⟩
  obtain ⟨c, tl, he, hwc, hnum⟩ := encodeInt_head i
  have hp := parseNumber_encodeInt i rest hs
  simp only [encodeI]
  rw [he] at hp ⊢
  simp only [List.cons_append, List.append_assoc] at hp ⊢
  simp only [parseValue, skipWS_ws ws hws c _ hwc, hnum, if_true, hp]

theorem p1_leaf_str (jq : Bool) (ind : Nat) (s : List Char) : P1 jq ind (.str s) := by
  intro _ d fuel ws rest hf hws _
  obtain ⟨f, rfl⟩ : ∃ f, fuel = f + 1 := ⟨fuel - 1, by simp [jsize] at hf; omega⟩
  have hl := string_literal s rest
  simp only [encodeI, encodeString, List.cons_append, List.append_assoc, List.nil_append]
  simp only [parseValue, skipWS_ws ws hws '"' _ (by decide), show ('"' == '-' || isDigit '"') = false by decide,
    Bool.false_eq_true, if_false, show ('"' == '"') = true by decide, if_true, hl]

theorem encodeElems_cons (jq : Bool) (ind d : Nat) (v : JV) (r : List JV) (tail : List Char) :
    encodeElems jq ind d (v :: r) ++ tail
      = encodeI jq ind d v ++ (if r = [] then tail else ',' :: (nl ind d ++ encodeElems jq ind d r ++ tail)) := by
  cases r with
  | nil => simp [encodeElems]
  | cons w r' => simp [encodeElems]

theorem encodeMembers_cons (jq : Bool) (ind d : Nat) (k : List Char) (v : JV) (r : List (List Char × JV)) (tail : List Char) :
    encodeMembers jq ind d ((k, v) :: r) ++ tail
      = keyText jq k ++ ':' :: (ksep ind ++ encodeI jq ind d v ++
          (if r = [] then tail else ',' :: (nl ind d ++ encodeMembers jq ind d r ++ tail))) := by
  cases r with
  | nil => simp [encodeMembers]
  | cons w r' => obtain ⟨k', v'⟩ := w; simp [encodeMembers]

theorem p2_step (jq : Bool) (ind n : Nat) (ih1 : ∀ v, jsize v ≤ n → P1 jq ind v) (ih2 : ∀ l, jsizeL l ≤ n → P2 jq ind l)
    (l : List JV) (hl : jsizeL l ≤ n + 1) : P2 jq ind l := by
  intro hne hc d fuel ws ws2 rest acc hf hws hws2
  cases l with
  | nil => exact absurd rfl hne
  | cons v r =>
    simp only [jsizeL] at hl hf
    obtain ⟨f, rfl⟩ : ∃ f, fuel = f + 1 := ⟨fuel - 1, by omega⟩
    obtain ⟨hcv, hcr⟩ := hc
    rw [List.append_assoc, List.append_assoc, encodeElems_cons]
    by_cases hr : r = []
    · subst hr
      simp only [if_true]
      have hv := ih1 v (by omega) hcv d f ws (ws2 ++ ']' :: rest) (by omega) hws
        (numSafe_ws ws2 hws2 _ (numSafe_rbracket rest))
      rw [← List.append_assoc]
      simp only [parseElems, hv, skipWS_ws ws2 hws2 ']' _ (by decide)]
      simp
    · simp only [hr, if_false]
      have hv := ih1 v (by omega) hcv d f ws (',' :: (nl ind d ++ encodeElems jq ind d r ++ (ws2 ++ ']' :: rest)))
        (by omega) hws (numSafe_comma _)
      have hrr := ih2 r (by omega) hr hcr d f (nl ind d) ws2 rest (v :: acc) (by omega) (allWS_nl ind d) hws2
      rw [← List.append_assoc]
      simp only [parseElems, hv, skipWS_cons ',' _ (by decide)]
      simp only [List.append_assoc] at hrr ⊢
      rw [hrr]
      simp

/-! ### object keys: a string literal, or (jq) a bare identifier -/

theorem identStart_facts (c : Char) (h : isIdentStart c = true) :
    isWS c = false ∧ (c == '"') = false ∧ (c == '}') = false ∧ isIdentChar c = true := by
  have hc : c.toNat < 128 := by
    simp only [isIdentStart, Bool.or_eq_true, Bool.and_eq_true, decide_eq_true_eq, beq_iff_eq, Char.le_def] at h
    rcases h with (⟨_, h2⟩ | ⟨_, h2⟩) | h2
    · have : c.val.toNat ≤ 'z'.val.toNat := by simpa [UInt32.le_iff_toNat_le] using h2
      exact Nat.lt_of_le_of_lt this (by decide)
    · have : c.val.toNat ≤ 'Z'.val.toNat := by simpa [UInt32.le_iff_toNat_le] using h2
      exact Nat.lt_of_le_of_lt this (by decide)
    · subst h2; decide
  have key : ∀ n, n < 128 → isIdentStart (Char.ofNat n) = true →
      isWS (Char.ofNat n) = false ∧ (Char.ofNat n == '"') = false ∧ (Char.ofNat n == '}') = false
        ∧ isIdentChar (Char.ofNat n) = true := by decide
  have := key c.toNat hc (by rw [Char.ofNat_toNat]; exact h)
  rwa [Char.ofNat_toNat] at this

theorem takeIdent_all (k rest : List Char) (hk : k.all isIdentChar = true)
    (hrest : ∀ c tl, rest = c :: tl → isIdentChar c = false) : takeIdent (k ++ rest) = (k, rest) := by
  induction k with
  | nil =>
    cases rest with
    | nil => rfl
    | cons c tl => simp [takeIdent, hrest c tl rfl]
  | cons c cs ih =>
    simp only [List.all_cons, Bool.and_eq_true] at hk
    simp only [List.cons_append, takeIdent, hk.1, if_true, ih hk.2]

/-- the key of a member, followed by `:`, is read back -/
theorem key_roundtrip (jq : Bool) (k tail : List Char) :
    ∃ c r, keyText jq k ++ ':' :: tail = c :: r ∧ isWS c = false ∧ (c == '}') = false ∧
      (if c == '"' then parseStringBody (r.length + 1) r []
       else if jq && isIdentStart c then .ok (takeIdent (c :: r)).1 (takeIdent (c :: r)).2
       else .err) = .ok k (':' :: tail) := by
  unfold keyText
  by_cases hi : (jq && isIdent k) = true
  · simp only [hi, if_true]
    simp only [Bool.and_eq_true] at hi
    obtain ⟨hjq, hid⟩ := hi
    cases k with
    | nil => simp [isIdent] at hid
    | cons c cs =>
      simp only [isIdent, Bool.and_eq_true] at hid
      obtain ⟨hws, hq, hb, hic⟩ := identStart_facts c hid.1
      refine ⟨c, cs ++ ':' :: tail, rfl, hws, hb, ?_⟩
      have ht := takeIdent_all (c :: cs) (':' :: tail) (by simp [hic, hid.2])
        (by intro x t e; cases e; decide)
      simp only [List.cons_append] at ht
      simp only [hq, Bool.false_eq_true, if_false, hjq, hid.1, Bool.and_self, if_true, ht]
  · simp only [hi, Bool.false_eq_true, if_false, encodeString, List.cons_append, List.append_assoc, List.nil_append]
    refine ⟨'"', _, rfl, by decide, by decide, ?_⟩
    simp only [show ('"' == '"') = true by decide, if_true]
    exact string_literal k (':' :: tail)

theorem p3_step (jq : Bool) (ind n : Nat) (ih1 : ∀ v, jsize v ≤ n → P1 jq ind v) (ih3 : ∀ kvs, jsizeM kvs ≤ n → P3 jq ind kvs)
    (kvs : List (List Char × JV)) (hl : jsizeM kvs ≤ n + 1) : P3 jq ind kvs := by
  intro hne hc d fuel ws ws2 rest acc hf hws hws2
  cases kvs with
  | nil => exact absurd rfl hne
  | cons kv r =>
    obtain ⟨k, v⟩ := kv
    simp only [jsizeM] at hl hf
    obtain ⟨f, rfl⟩ : ∃ f, fuel = f + 1 := ⟨fuel - 1, by omega⟩
    obtain ⟨hcv, hcr⟩ := hc
    rw [List.append_assoc, List.append_assoc, encodeMembers_cons]
    by_cases hr : r = []
    · subst hr
      simp only [if_true]
      obtain ⟨c, rr, hT, hwc, _, hk⟩ := key_roundtrip jq k (ksep ind ++ encodeI jq ind d v ++ (ws2 ++ '}' :: rest))
      have hv := ih1 v (by omega) hcv d f (ksep ind) (ws2 ++ '}' :: rest) (by omega) (allWS_ksep ind)
        (numSafe_ws ws2 hws2 _ (numSafe_rbrace rest))
      rw [hT]
      simp only [parseMembers, skipWS_ws ws hws c _ hwc, hk, skipWS_cons ':' _ (by decide), hv,
        skipWS_ws ws2 hws2 '}' _ (by decide)]
      simp
    · simp only [hr, if_false]
      obtain ⟨c, rr, hT, hwc, _, hk⟩ := key_roundtrip jq k
        (ksep ind ++ encodeI jq ind d v ++ ',' :: (nl ind d ++ encodeMembers jq ind d r ++ (ws2 ++ '}' :: rest)))
      have hv := ih1 v (by omega) hcv d f (ksep ind) (',' :: (nl ind d ++ encodeMembers jq ind d r ++ (ws2 ++ '}' :: rest)))
        (by omega) (allWS_ksep ind) (numSafe_comma _)
      have hrr := ih3 r (by omega) hr hcr d f (nl ind d) ws2 rest (insertKV k v acc) (by omega) (allWS_nl ind d) hws2
      rw [hT]
      simp only [parseMembers, skipWS_ws ws hws c _ hwc, hk, skipWS_cons ':' _ (by decide), hv,
        skipWS_cons ',' _ (by decide)]
      simp only [List.append_assoc] at hrr ⊢
      rw [hrr]
      simp

theorem elems_head (jq : Bool) (ind d : Nat) (v : JV) (r : List JV) (tail : List Char) :
    ∃ c tl, encodeElems jq ind d (v :: r) ++ tail = c :: tl ∧ isWS c = false ∧ (c == ']') = false := by
  obtain ⟨c, tl, he, hws, hnb⟩ := encode_head jq ind d v
  rw [encodeElems_cons, he]
  exact ⟨c, _, rfl, hws, hnb⟩

theorem members_head (jq : Bool) (ind d : Nat) (k : List Char) (v : JV) (r : List (List Char × JV)) (tail : List Char) :
    ∃ c tl, encodeMembers jq ind d ((k, v) :: r) ++ tail = c :: tl ∧ isWS c = false ∧ (c == '}') = false := by
  rw [encodeMembers_cons]
  obtain ⟨c, rr, hT, hws, hb, _⟩ := key_roundtrip jq k
    (ksep ind ++ encodeI jq ind d v ++ (if r = [] then tail else ',' :: (nl ind d ++ encodeMembers jq ind d r ++ tail)))
  exact ⟨c, rr, hT, hws, hb⟩

theorem p1_step (jq : Bool) (ind n : Nat) (ih2 : ∀ l, jsizeL l ≤ n → P2 jq ind l) (ih3 : ∀ kvs, jsizeM kvs ≤ n → P3 jq ind kvs)
    (v : JV) (hv : jsize v ≤ n + 1) : P1 jq ind v := by
  cases v with
  | null => exact p1_leaf_null jq ind
  | bool b => exact p1_leaf_bool jq ind b
  | num i => exact p1_leaf_num jq ind i
  | str s => exact p1_leaf_str jq ind s
  | float => intro hc; exact absurd hc (by simp [Canon])
  | arr l =>
    intro hc d fuel ws rest hf hws _
    simp only [jsize] at hv hf
    obtain ⟨f, rfl⟩ : ∃ f, fuel = f + 1 := ⟨fuel - 1, by omega⟩
    cases l with
    | nil =>
      simp only [encodeI, List.cons_append, List.append_assoc, List.nil_append]
      simp [parseValue, skipWS_ws ws hws '[' _ (by decide), isDigit, skipWS_cons ']' _ (by decide)]
    | cons w r =>
      simp only [encodeI, List.cons_append, List.append_assoc, List.nil_append]
      simp only [parseValue, skipWS_ws ws hws '[' _ (by decide), show ('[' == '-' || isDigit '[') = false by decide,
        show ('[' == '"') = false by decide, show ('[' == '[') = true by decide, Bool.false_eq_true, if_false, if_true]
      have hrr := ih2 (w :: r) (by omega) (by simp) hc (d + 1) f (nl ind (d + 1)) (nl ind d) rest [] (by omega)
        (allWS_nl ind (d + 1)) (allWS_nl ind d)
      obtain ⟨c, tl, hT, hwc, hnb⟩ := elems_head jq ind (d + 1) w r (nl ind d ++ ']' :: rest)
      simp only [List.append_assoc] at hrr
      rw [hT] at hrr ⊢
      simp only [skipWS_ws (nl ind (d + 1)) (allWS_nl ind (d + 1)) c _ hwc, hnb, Bool.false_eq_true, if_false, hrr]
      simp
  | obj kvs =>
    intro hc d fuel ws rest hf hws _
    simp only [jsize] at hv hf
    obtain ⟨f, rfl⟩ : ∃ f, fuel = f + 1 := ⟨fuel - 1, by omega⟩
    obtain ⟨hcm, hsorted⟩ := hc
    cases kvs with
    | nil =>
      simp only [encodeI, List.cons_append, List.append_assoc, List.nil_append]
      simp [parseValue, skipWS_ws ws hws '{' _ (by decide), isDigit, skipWS_cons '}' _ (by decide)]
    | cons kv r =>
      obtain ⟨k, w⟩ := kv
      simp only [encodeI, List.cons_append, List.append_assoc, List.nil_append]
      simp only [parseValue, skipWS_ws ws hws '{' _ (by decide), show ('{' == '-' || isDigit '{') = false by decide,
        show ('{' == '"') = false by decide, show ('{' == '[') = false by decide, show ('{' == '{') = true by decide,
        Bool.false_eq_true, if_false, if_true]
      have hrr := ih3 ((k, w) :: r) (by omega) (by simp) hcm (d + 1) f (nl ind (d + 1)) (nl ind d) rest [] (by omega)
        (allWS_nl ind (d + 1)) (allWS_nl ind d)
      rw [foldl_insert_sorted _ [] (by simpa using hsorted)] at hrr
      obtain ⟨c, tl, hT, hwc, hnb⟩ := members_head jq ind (d + 1) k w r (nl ind d ++ '}' :: rest)
      simp only [List.append_assoc] at hrr
      rw [hT] at hrr ⊢
      simp only [skipWS_ws (nl ind (d + 1)) (allWS_nl ind (d + 1)) c _ hwc, hnb, Bool.false_eq_true, if_false, hrr]
      simp

theorem main_induction (jq : Bool) (ind : Nat) : ∀ n, (∀ v, jsize v ≤ n → P1 jq ind v) ∧ (∀ l, jsizeL l ≤ n → P2 jq ind l) ∧
    (∀ kvs, jsizeM kvs ≤ n → P3 jq ind kvs) := by
  intro n
  induction n with
  | zero =>
    refine ⟨?_, ?_, ?_⟩
    · intro v hv; cases v <;> simp [jsize] at hv
    · intro l hl; cases l with
      | nil => intro h; exact absurd rfl h
      | cons v r => simp [jsizeL] at hl
    · intro kvs hl; cases kvs with
      | nil => intro h; exact absurd rfl h
      | cons kv r => obtain ⟨k, v⟩ := kv; simp [jsizeM] at hl
  | succ n ih =>
    obtain ⟨ih1, ih2, ih3⟩ := ih
    exact ⟨fun v hv => p1_step jq ind n ih2 ih3 v hv, fun l hl => p2_step jq ind n ih1 ih2 l hl,
      fun kvs hl => p3_step jq ind n ih1 ih3 kvs hl⟩

theorem keyText_length (jq : Bool) (k : List Char) : 1 ≤ (keyText jq k).length := by
  unfold keyText
  split
  · rename_i h
    simp only [Bool.and_eq_true] at h
    cases k with
    | nil => simp [isIdent] at h
    | cons c cs => simp
  · simp [encodeString]

mutual
  theorem jsize_le_length (jq : Bool) (ind : Nat) : ∀ (d : Nat) (v : JV), jsize v ≤ (encodeI jq ind d v).length
    | _, .null => by simp [jsize, encodeI]
    | _, .bool true => by simp [jsize, encodeI]
    | _, .bool false => by simp [jsize, encodeI]
    | _, .num i => by
      obtain ⟨c, tl, he, _, _⟩ := encodeInt_head i
      simp [jsize, encodeI, he]
    | _, .float => by simp [jsize, encodeI]
    | _, .str s => by simp [jsize, encodeI, encodeString]
    | _, .arr [] => by simp [jsize, jsizeL, encodeI]
    | d, .arr (w :: l) => by
      have := jsizeL_le_length jq ind (d + 1) (w :: l)
      simp only [jsize, encodeI, List.length_cons, List.length_append, List.length_nil]; omega
    | _, .obj [] => by simp [jsize, jsizeM, encodeI]
    | d, .obj (kv :: kvs) => by
      have := jsizeM_le_length jq ind (d + 1) (kv :: kvs)
      simp only [jsize, encodeI, List.length_cons, List.length_append, List.length_nil]; omega
  theorem jsizeL_le_length (jq : Bool) (ind : Nat) : ∀ (d : Nat) (l : List JV), jsizeL l ≤ (encodeElems jq ind d l).length + 1
    | _, [] => by simp [jsizeL]
    | d, [v] => by
      have := jsize_le_length jq ind d v
      simp only [jsizeL, encodeElems]; omega
    | d, v :: w :: r => by
      have h1 := jsize_le_length jq ind d v
      have h2 := jsizeL_le_length jq ind d (w :: r)
      simp only [jsizeL, encodeElems, List.length_append, List.length_cons] at h2 ⊢; omega
  theorem jsizeM_le_length (jq : Bool) (ind : Nat) : ∀ (d : Nat) (kvs : List (List Char × JV)),
      jsizeM kvs ≤ (encodeMembers jq ind d kvs).length + 1
    | _, [] => by simp [jsizeM]
    | d, [(k, v)] => by
      have := jsize_le_length jq ind d v
      have := keyText_length jq k
      simp only [jsizeM, encodeMembers, List.length_append, List.length_cons]; omega
    | d, (k, v) :: w :: r => by
      have h1 := jsize_le_length jq ind d v
      have h2 := jsizeM_le_length jq ind d (w :: r)
      have := keyText_length jq k
      simp only [jsizeM, encodeMembers, List.length_append, List.length_cons] at h2 ⊢; omega
end

/-- compact or indented text, JSON or jq flavour, is read back -/
theorem parseWith_encodeI (jq : Bool) (ind : Nat) (v : JV) (hc : Canon v) :
    parseWith jq (encodeI jq ind 0 v) = .ok v [] := by
  have h := (main_induction jq ind (jsize v)).1 v (Nat.le_refl _) hc 0 ((encodeI jq ind 0 v).length + 1) [] []
    (by have := jsize_le_length jq ind 0 v; omega) allWS_nil numSafe_nil
  simp only [List.append_nil, List.nil_append] at h
  simp [parseWith, h, skipWS]

theorem parse_encode (v : JV) (hc : Canon v) : parse (encode false v) = .ok v [] := parseWith_encodeI false 0 v hc

theorem parseJq_encode (v : JV) (hc : Canon v) : parseJq (encode true v) = .ok v [] := parseWith_encodeI true 0 v hc
end Proofs.C14J
