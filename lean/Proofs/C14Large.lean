import FqModel.C14Large
/-! helper lemmas for the chunk-independence theorems of Props.C14 -/
namespace Proofs.C14
open FqModel FqModel.Codec FqModel.C14Large

theorem hexEnc_append (a b : Bytes) : hexEnc (a ++ b) = hexEnc a ++ hexEnc b := by
  induction a with
  | nil => rfl
  | cons x xs ih => simp [hexEnc, ih]

theorem b64_enc_nil (e : B64) : e.enc [] = [] := by simp [B64.enc]

theorem b64_enc_append_aux (e : B64) : ∀ (n : Nat) (a b : Bytes), a.length = 3 * n →
    e.enc (a ++ b) = e.enc a ++ e.enc b
  | 0, a, b, h => by
    have : a = [] := List.length_eq_zero_iff.mp (by omega)
    subst this; simp [B64.enc]
  | n + 1, a, b, h => by
    match a, h with
    | x :: y :: z :: rest, h =>
      have hr : rest.length = 3 * n := by simp at h; omega
      simp [B64.enc, b64_enc_append_aux e n rest b hr]

theorem chunks_flatMap (enc : Bytes → Bytes) (k : Nat) (hk : 0 < k) (henil : enc [] = [])
    (happ : ∀ a b : Bytes, a.length = k → enc (a ++ b) = enc a ++ enc b) :
    ∀ (fuel : Nat) (bs : Bytes), bs.length < fuel → (chunksOf k fuel bs).flatMap enc = enc bs
  | 0, bs, h => by omega
  | fuel + 1, bs, h => by
    unfold chunksOf
    by_cases hb : bs.isEmpty
    · have : bs = [] := List.isEmpty_iff.mp hb
      subst this; simp [henil]
    · have hne : bs ≠ [] := fun h0 => hb (by simp [h0])
      have hlen : 0 < bs.length := List.length_pos_iff.mpr hne
      have hd : (bs.drop k).length < fuel := by simp [List.length_drop]; omega
      simp only [hb, Bool.false_eq_true, ↓reduceIte, List.flatMap_cons]
      rw [chunks_flatMap enc k hk henil happ fuel (bs.drop k) hd]
      by_cases hk2 : k ≤ bs.length
      · have ht : (bs.take k).length = k := by simp [List.length_take]; omega
        rw [← happ _ _ ht, List.take_append_drop]
      · have h1 : bs.take k = bs := List.take_of_length_le (by omega)
        have h2 : bs.drop k = [] := List.drop_of_length_le (by omega)
        rw [h1, h2, henil, List.append_nil]

end Proofs.C14
